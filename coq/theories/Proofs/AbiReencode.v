(* Proofs/AbiReencode.v -- C12, the other direction: a blob and mask that decode without a warning
   re-encode to the same blob and mask (signatures without strings and without timeline arg0). *)
From TV Require Import Base.I32 Model.Abi Spec.AbiFit Proofs.AbiBytes Proofs.AbiRoundtrip.
Open Scope Z_scope.

Definition bytes_ok (l : bytes) : Prop := Forall (fun b => 0 <= b < 256) l.

Lemma le_bytes_le_val l : bytes_ok l -> le_bytes (length l) (le_val l) = l.
Proof.
  induction 1 as [|b l Hb Hl IH]; [reflexivity|]. cbn [length le_bytes le_val]. f_equal.
  - lia.
  - replace ((b + 256 * le_val l) / 256) with (le_val l) by lia. exact IH.
Qed.

Lemma le_val_bound l : bytes_ok l -> 0 <= le_val l < 2 ^ (8 * Z.of_nat (length l)).
Proof.
  induction 1 as [|b l Hb Hl IH]; [cbn; lia|]. cbn [length le_val].
  replace (8 * Z.of_nat (S (length l))) with (8 + 8 * Z.of_nat (length l)) by lia.
  rewrite Z.pow_add_r by lia. change (2 ^ 8) with 256. nia.
Qed.

Lemma le_bytes_mod n x : le_bytes n (x mod 2 ^ (8 * Z.of_nat n)) = le_bytes n x.
Proof.
  revert x. induction n as [|n IH]; intro x; [reflexivity|]. cbn [le_bytes].
  replace (8 * Z.of_nat (S n)) with (8 + 8 * Z.of_nat n) by lia. rewrite Z.pow_add_r by lia. change (2 ^ 8) with 256.
  set (M := 2 ^ (8 * Z.of_nat n)). assert (HM : 0 < M) by (apply Z.pow_pos_nonneg; lia).
  rewrite (Z.rem_mul_r x 256 M) by lia. f_equal.
  - set (y := (x / 256) mod M). lia.
  - set (y := (x / 256) mod M). replace ((x mod 256 + 256 * y) / 256) with y by lia. apply IH.
Qed.

Lemma bytes_ok_app l1 l2 : bytes_ok (l1 ++ l2) <-> bytes_ok l1 /\ bytes_ok l2.
Proof. unfold bytes_ok. apply Forall_app. Qed.

Lemma take_ok n l h t : take n l = Ok (h, t) -> l = h ++ t /\ length h = n.
Proof.
  unfold take. destruct (length l <? n)%nat eqn:E; [discriminate|]. apply Nat.ltb_ge in E. intro H. inv H.
  split; [symmetry; apply firstn_skipn|]. apply firstn_length_le. exact E.
Qed.

(* reading an integer and writing it back with the same width gives the bytes that were read *)
Lemma write_read_int n sg c l v t :
  width_ok n = true -> bytes_ok l ->
  (c = CastNone \/ c = CastTrunc \/ (c = CastChecked /\ ((n < 4)%nat \/ sg = true))) ->
  read_int n sg l = Ok (v, t) ->
  exists h, l = h ++ t /\ length h = n /\ write_int n sg c v = Ok h.
Proof.
  intros Hw Hl Hc Hr. unfold read_int in Hr. bind_ok Hr p Hp. destruct p as [h t']. inv Hr.
  apply take_ok in Hp. destruct Hp as [-> Hlen]. exists h. split; [reflexivity|]. split; [assumption|].
  apply bytes_ok_app in Hl. destruct Hl as [Hh _].
  pose proof (le_val_bound h Hh) as Hb. rewrite Hlen in Hb. set (u := le_val h) in *.
  unfold width_ok in Hw. apply andb_split in Hw. destruct Hw as [Hn0 Hn4]. apply Nat.ltb_lt in Hn0. apply Nat.leb_le in Hn4.
  assert (Hmod : wrap32 (interp n sg u) mod 2 ^ (8 * Z.of_nat n) = u).
  { destruct (Nat.eq_dec n 4) as [->|Hne].
    - change (2 ^ (8 * Z.of_nat 4)) with two32 in *. rewrite wrap32_cong.
      change two32 with (2 ^ (8 * Z.of_nat 4)). apply interp_cong; [lia|exact Hb].
    - rewrite wrap32_id; [apply interp_cong; assumption|].
      apply (in_range_i32 n sg); [lia|left; lia|now apply interp_range]. }
  assert (Hbytes : le_bytes n (wrap32 (interp n sg u)) = h).
  { rewrite <- le_bytes_mod, Hmod. unfold u. rewrite <- Hlen. now apply le_bytes_le_val. }
  unfold write_int. destruct Hc as [->|[->|[-> Hc]]]; try (now rewrite Hbytes).
  assert (Hin : in_range n sg (wrap32 (interp n sg u)) = true).
  { pose proof (interp_range n sg u Hn0 Hb) as Hir.
    rewrite wrap32_id; [exact Hir|]. destruct Hc as [Hc|Hc].
    - apply (in_range_i32 n sg); [lia|left; lia|exact Hir].
    - subst sg. apply (in_range_i32 n true); [lia|now right|exact Hir]. }
  rewrite Hin, Hbytes. reflexivity.
Qed.

(* every checked cast is one whose target holds exactly what the decoder can return *)
Definition reenc_cast (n : nat) (sg : bool) (c : cast) : bool :=
  match c with CastNone | CastTrunc => true | CastChecked => (n <? 4)%nat || sg | CastUnrec => false end.
Definition codec_reenc (cd : codec) : bool :=
  forallb (fun a => reenc_cast (ea_wbytes a) (ea_wsigned a) (ea_cast a)) (cd_enc cd)
  && (let '(n, sg, c) := cd_enc_jump cd in reenc_cast n sg c)
  && forallb (fun p => match zassoc (fst p) (cd_enc_pad cd) with Some n => (n =? fst (snd p))%nat | None => false end) (cd_dec_pad cd).

Lemma reenc_cast_cases n sg c : reenc_cast n sg c = true ->
  c = CastNone \/ c = CastTrunc \/ (c = CastChecked /\ ((n < 4)%nat \/ sg = true)).
Proof.
  destruct c; cbn [reenc_cast]; intro H; try discriminate; auto.
  right; right. split; [reflexivity|]. apply orb_true_iff in H. destruct H as [H|H]; [left; now apply Nat.ltb_lt|now right].
Qed.

Definition plain_enc (e : enc) : bool := negb (is_str e) && negb (is_arg0 e).

(* mask bits only on parameters that can be registers (the decoder silently ignores the others) *)
Fixpoint mask_canonical (cd : codec) (sig : list enc) (mask : Z) : bool :=
  match sig with
  | [] => true
  | e :: sig' =>
      if is_pad e then mask_canonical cd sig' mask
      else (negb (always_imm cd e) || (Z.land mask 1 =? 0)) && mask_canonical cd sig' (Z.shiftr mask 1)
  end.

Section Reencode.
Variable sjis_enc : list Z -> option bytes.
Variable sjis_dec : bytes -> option (list Z).
Variable cd : codec.
Hypothesis Hcd : codec_ok cd = true.
Hypothesis Hre : codec_reenc cd = true.

Lemma reenc_arm arm size sg : find_enc_arm cd size sg = Some arm ->
  reenc_cast (ea_wbytes arm) (ea_wsigned arm) (ea_cast arm) = true.
Proof.
  intro Hf. unfold find_enc_arm in Hf. apply find_some in Hf. destruct Hf as [Hin _].
  pose proof Hre as H0. unfold codec_reenc in H0. apply andb_split in H0. destruct H0 as [H0 _].
  apply andb_split in H0. destruct H0 as [H0 _]. rewrite forallb_forall in H0. now apply H0.
Qed.

(* the decoder's arm determines the encoder's arm *)
Lemma dec_arm_enc size sg d : find_dec_arm cd size sg = Some d ->
  forall arm, find_enc_arm cd size sg = Some arm ->
  da_len d = Z.of_nat (ea_wbytes arm) /\ da_rbytes d = ea_wbytes arm /\ da_rsigned d = ea_wsigned arm /\ width_ok (ea_wbytes arm) = true.
Proof.
  intros Hd arm Ha. destruct (codec_arm cd Hcd _ _ _ Ha) as [d' [Hd' H]]. rewrite Hd in Hd'. inv Hd'. exact H.
Qed.

(* one field, decoder first *)
Lemma field_reencode e rest rem mask extra a rest' rem' mask' extra' st :
  is_pad e = false -> plain_enc e = true -> bytes_ok rest ->
  (match e with EInt size sg _ _ => exists arm, find_enc_arm cd size sg = Some arm | _ => True end) ->
  decode_field sjis_dec cd e (rest, rem, mask, extra) = Ok (a, [], (rest', rem', mask', extra')) ->
  exists b0, rest = b0 ++ rest' /\ encode_field sjis_enc cd e a st = Ok (b0, st)
             /\ a_reg a = (negb (always_imm cd e) && (Z.land mask 1 =? 1)) /\ mask' = Z.shiftr mask 1 /\ extra' = extra.
Proof.
  intros Hp Hpl Hb Harm Hd.
  destruct e as [size signed imm arg0| | |size|imm|sz m v acc fb]; try discriminate.
  - destruct arg0; [discriminate|]. destruct Harm as [arm Ha].
    unfold decode_field in Hd. cbn [contributes is_arg0 negb orb andb] in Hd.
    destruct (find_dec_arm cd size signed) as [d|] eqn:Ed; [|discriminate].
    destruct (dec_arm_enc _ _ _ Ed _ Ha) as [D1 [D2 [D3 D4]]].
    bind_ok Hd r Hr. destruct r as [[val w] d1]. bind_ok Hr rem1 Hrem. bind_ok Hr p Hp'. destruct p as [v rest1]. inv Hr. inv Hd.
    rewrite D2, D3 in Hp'.
    destruct (write_read_int _ _ (ea_cast arm) _ _ _ D4 Hb (reenc_cast_cases _ _ _ (reenc_arm _ _ _ Ha)) Hp') as [h [Hl [Hlen Hw]]].
    exists h. split; [assumption|]. cbn [encode_field]. rewrite Ha. cbn [expect_int a_val obind]. rewrite Hw. cbn [obind].
    repeat split.
  - unfold decode_field in Hd. cbn [contributes is_arg0 negb orb andb] in Hd.
    pose proof (codec_jump cd Hcd) as Hj.
    destruct (cd_enc_jump cd) as [[n sg] c] eqn:Ej. destruct (cd_dec_jump cd) as [[len n'] sg'] eqn:Edj.
    destruct Hj as [J1 [J2 [J3 J4]]]. subst len n' sg'.
    bind_ok Hd r Hr. destruct r as [[val w] d1]. bind_ok Hr rem1 Hrem. bind_ok Hr p Hp'. destruct p as [v rest1]. inv Hr. inv Hd.
    assert (Hc : reenc_cast n sg c = true).
    { pose proof Hre as H0. unfold codec_reenc in H0. apply andb_split in H0. destruct H0 as [H0 _].
      apply andb_split in H0. destruct H0 as [_ H0]. now rewrite Ej in H0. }
    destruct (write_read_int _ _ c _ _ _ J1 Hb (reenc_cast_cases _ _ _ Hc) Hp') as [h [Hl [Hlen Hw]]].
    exists h. split; [assumption|]. cbn [encode_field]. rewrite Ej. cbn [expect_int a_val obind]. rewrite Hw. cbn [obind].
    repeat split.
  - unfold decode_field in Hd. cbn [contributes is_arg0 negb orb andb] in Hd.
    pose proof (codec_jump cd Hcd) as Hj.
    destruct (cd_enc_jump cd) as [[n sg] c] eqn:Ej. destruct (cd_dec_jump cd) as [[len n'] sg'] eqn:Edj.
    destruct Hj as [J1 [J2 [J3 J4]]]. subst len n' sg'.
    bind_ok Hd r Hr. destruct r as [[val w] d1]. bind_ok Hr rem1 Hrem. bind_ok Hr p Hp'. destruct p as [v rest1]. inv Hr. inv Hd.
    assert (Hc : reenc_cast n sg c = true).
    { pose proof Hre as H0. unfold codec_reenc in H0. apply andb_split in H0. destruct H0 as [H0 _].
      apply andb_split in H0. destruct H0 as [_ H0]. now rewrite Ej in H0. }
    destruct (write_read_int _ _ c _ _ _ J1 Hb (reenc_cast_cases _ _ _ Hc) Hp') as [h [Hl [Hlen Hw]]].
    exists h. split; [assumption|]. cbn [encode_field]. rewrite Ej. cbn [expect_int a_val obind]. rewrite Hw. cbn [obind].
    repeat split.
  - unfold decode_field in Hd. cbn [contributes is_arg0 negb orb andb] in Hd.
    destruct (codec_float cd Hcd) as [F1 F2]. rewrite F2 in Hd.
    bind_ok Hd r Hr. destruct r as [[val w] d1]. bind_ok Hr rem1 Hrem. bind_ok Hr p Hp'. destruct p as [h rest1]. inv Hr. inv Hd.
    apply take_ok in Hp'. destruct Hp' as [-> Hlen]. apply bytes_ok_app in Hb. destruct Hb as [Hh _].
    exists h. split; [reflexivity|]. cbn [encode_field expect_float a_val obind]. rewrite F1, <- Hlen.
    rewrite le_bytes_le_val by assumption. repeat split.
Qed.



Lemma wrap32_interp_zero n sg u : width_ok n = true -> 0 <= u < 2 ^ (8 * Z.of_nat n) -> wrap32 (interp n sg u) = 0 -> u = 0.
Proof.
  intros Hw Hu H0. unfold width_ok in Hw. apply andb_split in Hw. destruct Hw as [Hn0 Hn4].
  apply Nat.ltb_lt in Hn0. apply Nat.leb_le in Hn4.
  assert (Hm : wrap32 (interp n sg u) mod 2 ^ (8 * Z.of_nat n) = u).
  { destruct (Nat.eq_dec n 4) as [->|Hne].
    - change (2 ^ (8 * Z.of_nat 4)) with two32 in *. rewrite wrap32_cong.
      change two32 with (2 ^ (8 * Z.of_nat 4)). apply interp_cong; [lia|exact Hu].
    - rewrite wrap32_id; [apply interp_cong; assumption|].
      apply (in_range_i32 n sg); [lia|left; lia|now apply interp_range]. }
  rewrite H0 in Hm. rewrite Z.mod_0_l in Hm by (apply Z.pow_nonzero; lia). now symmetry.
Qed.

Lemma drop_padding_length sig : forall args, (length (drop_padding sig args) <= length sig)%nat.
Proof.
  induction sig as [|e sig IH]; intros args; [cbn; lia|]. destruct args as [|a args]; [cbn; lia|].
  cbn [drop_padding]. destruct (is_pad e); cbn [length]; specialize (IH args); lia.
Qed.

Lemma mod_split mask n : 0 <= n -> mask mod 2 ^ (1 + n) = mask mod 2 + 2 * ((mask / 2) mod 2 ^ n).
Proof. intro Hn. rewrite Z.pow_add_r by lia. change (2 ^ 1) with 2. apply Z.rem_mul_r; [lia|]. apply Z.pow_pos_nonneg; lia. Qed.

Lemma codec_dec_pad size n sg : zassoc size (cd_dec_pad cd) = Some (n, sg) ->
  forall n', zassoc size (cd_enc_pad cd) = Some n' -> n' = n /\ Z.of_nat n = size /\ width_ok n = true.
Proof.
  intros Hd n' He. destruct (codec_pad cd Hcd _ _ He) as [Hsz [Hw [sg' Hd']]]. rewrite Hd in Hd'. inv Hd'. auto.
Qed.

Lemma loop_reencode : forall sig rest rem mask args rest' rem' mask' extra' k bit st,
  forallb plain_enc sig = true -> forallb (enc_known cd) sig = true -> bytes_ok rest ->
  dec_loop sjis_dec cd sig (rest, rem, mask, None) = Ok (args, [], (rest', rem', mask', extra')) ->
  padding_nonzero sig args = false ->
  mask_canonical cd sig mask = true -> 0 <= mask -> 0 <= k -> k + nparams sig <= cd_mask_bits cd ->
  (0 < nparams sig -> bit = 2 ^ k) ->
  exists b bit', rest = b ++ rest' /\ mask' = Z.shiftr mask (nparams sig) /\
    enc_loop sjis_enc cd sig (drop_padding sig args) bit st = Ok (b, (mask mod 2 ^ nparams sig) * 2 ^ k, [], st, bit').
Proof.
  induction sig as [|e sig' IH]; intros rest rem mask args rest' rem' mask' extra' k bit st Hpl Hkn Hb Hd Hpz Hcan Hm Hk Hkn' Hbit.
  - cbn [dec_loop] in Hd. inv Hd. exists [], bit. split; [reflexivity|]. split; [unfold nparams; cbn [count_if]; now rewrite ?Z.shiftr_0_r|].
    cbn [enc_loop drop_padding]. unfold nparams. cbn [count_if]. rewrite Z.pow_0_r, Z.mod_1_r. reflexivity.
  - cbn [forallb] in Hpl, Hkn. apply andb_split in Hpl, Hkn. destruct Hpl as [Hpl Hpl']. destruct Hkn as [Hke Hkn].
    cbn [dec_loop] in Hd. bind_ok Hd r1 Hf. destruct r1 as [[a w1] d1]. bind_ok Hd r2 Hl. destruct r2 as [[args' w2] d2]. inv Hd.
    match goal with H : w1 ++ w2 = [] |- _ => apply app_eq_nil in H; destruct H as [-> ->] end.
    rewrite nparams_cons in *. pose proof (nparams_nonneg sig') as Hnn.
    destruct (is_pad e) eqn:Ep.
    + (* padding: the bytes read were zeros *)
      destruct e as [| | |size| |]; try discriminate.
      cbn [padding_nonzero is_pad andb] in Hpz.
      unfold decode_field in Hf. bind_ok Hf rem1 Hrem.
      destruct (zassoc size (cd_dec_pad cd)) as [[n sg]|] eqn:Ez; [|discriminate].
      bind_ok Hf p Hp. destruct p as [v rest1]. inv Hf.
      cbn [a_val] in Hpz. apply orb_false_iff in Hpz. destruct Hpz as [Hv Hpz].
      assert (Hv0 : v = 0) by (destruct v; try discriminate; reflexivity).
      cbn [enc_known] in Hke. destruct (zassoc size (cd_enc_pad cd)) as [n'|] eqn:Ez'; [|discriminate].
      destruct (codec_dec_pad _ _ _ Ez _ Ez') as [-> [Hsz Hwn]].
      unfold read_int in Hp. bind_ok Hp q Hq. destruct q as [h t]. injection Hp as Hv1 Ht1. subst t.
      rewrite Hv0 in Hv1. clear Hv0 Hv.
      apply take_ok in Hq. destruct Hq as [-> Hlen]. apply bytes_ok_app in Hb. destruct Hb as [Hh Ht].
      assert (Hu : le_val h = 0).
      { eapply (wrap32_interp_zero n sg); [exact Hwn|rewrite <- Hlen; now apply le_val_bound|exact Hv1]. }
      assert (Hhz : h = le_bytes n 0) by (rewrite <- Hu, <- Hlen; symmetry; now apply le_bytes_le_val).
      cbn [mask_canonical is_pad] in Hcan.
      destruct (IH rest1 rem1 mask args' rest' rem' mask' extra' k bit st Hpl' Hkn Ht Hl Hpz Hcan Hm Hk ltac:(lia) ltac:(intro; apply Hbit; lia))
        as [b [bit' [Hr [Hm' He]]]].
      exists (h ++ b), bit'. split; [rewrite <- app_assoc; now f_equal|]. split; [replace (0 + nparams sig') with (nparams sig') by lia; exact Hm'|].
      cbn [drop_padding is_pad enc_loop]. rewrite Ez'. rewrite He. cbn [obind].
      replace (0 + nparams sig') with (nparams sig') by lia. now rewrite Hhz.
    + (* a parameter *)
      assert (Harm : match e with EInt size sg _ _ => exists arm, find_enc_arm cd size sg = Some arm | _ => True end).
      { destruct e as [size signed imm arg0| | | | |]; try exact I. unfold plain_enc in Hpl. cbn [is_str is_arg0 negb andb] in Hpl.
        destruct arg0; [discriminate|]. cbn [enc_known] in Hke. destruct (find_enc_arm cd size signed); [eauto|discriminate]. }
      destruct d1 as [[[rest1 rem1] mask1] extra1].
      destruct (field_reencode e rest rem mask None a rest1 rem1 mask1 extra1 st Ep Hpl Hb Harm Hf) as [b0 [Hr0 [He0 [Hreg [Hm1 Hx1]]]]].
      subst extra1 mask1.
      assert (Hb1 : bytes_ok rest1) by (rewrite Hr0 in Hb; apply bytes_ok_app in Hb; tauto).
      cbn [padding_nonzero] in Hpz. rewrite Ep in Hpz. cbn [andb orb] in Hpz.
      cbn [mask_canonical] in Hcan. rewrite Ep in Hcan. apply andb_split in Hcan. destruct Hcan as [Hc0 Hcan].
      assert (Hm1 : 0 <= Z.shiftr mask 1) by (apply Z.shiftr_nonneg; lia).
      set (mb := cd_mask_bits cd) in *.
      assert (Hb2 : bit = 2 ^ k) by (apply Hbit; lia).
      assert (Hpk : 0 < 2 ^ k) by (apply Z.pow_pos_nonneg; lia).
      destruct (IH rest1 rem1 (Z.shiftr mask 1) args' rest' rem' mask' extra' (k + 1) ((2 ^ k * 2) mod 2 ^ mb) st
                  Hpl' Hkn Hb1 Hl Hpz Hcan Hm1 ltac:(lia) ltac:(lia)) as [b [bit' [Hr [Hm' He]]]].
      { intro Hpos. replace (2 ^ k * 2) with (2 ^ (k + 1)) by (rewrite Z.pow_add_r by lia; ring).
        apply Z.mod_small. split; [apply Z.pow_nonneg; lia|]. apply Z.pow_lt_mono_r; lia. }
      exists (b0 ++ b), bit'. split; [rewrite Hr0, Hr; now rewrite app_assoc|].
      split; [rewrite Hm'; rewrite Z.shiftr_shiftr by lia; f_equal; lia|].
      cbn [drop_padding]. rewrite Ep. rewrite (enc_loop_nonpad sjis_enc cd) by assumption.
      rewrite (contributes_nonpad cd) by assumption. rewrite Hb2.
      replace (2 ^ k =? 0) with false by (symmetry; apply Z.eqb_neq; lia). rewrite !andb_false_r. cbv zeta.
      (* the low mask bit *)
      set (b1 := mask mod 2).
      assert (Hb1r : b1 = 0 \/ b1 = 1) by (unfold b1; pose proof (Z.mod_pos_bound mask 2 ltac:(lia)); lia).
      assert (Hland : Z.land mask 1 = b1) by (change 1 with (Z.ones 1); rewrite Z.land_ones by lia; reflexivity).
      assert (Hregb : (if a_reg a then 2 ^ k else 0) = b1 * 2 ^ k).
      { rewrite Hreg, Hland. destruct (always_imm cd e) eqn:Ei; cbn [negb andb orb] in *.
        - rewrite Hland in Hc0. apply Z.eqb_eq in Hc0. rewrite Hc0. lia.
        - destruct Hb1r as [E|E]; rewrite E; cbn [Z.eqb Pos.eqb]; lia. }
      assert (Himm : always_imm cd e && negb ((if a_reg a then 2 ^ k else 0) =? 0) = false).
      { destruct (a_reg a) eqn:Er; [|cbn; apply andb_false_r].
        rewrite Hreg in Er. destruct (always_imm cd e); [cbn in Er; discriminate|reflexivity]. }
      rewrite Himm. cbv iota. unfold mb in *. rewrite He0. cbn [obind]. rewrite He. cbn [obind app]. do 4 f_equal.
      rewrite Hregb. rewrite Z.shiftr_div_pow2 by lia. change (2 ^ 1) with 2.
      rewrite lor_bit by (try lia; apply Z.mod_pos_bound; apply Z.pow_pos_nonneg; lia).
      rewrite (mod_split mask (nparams sig')) by lia. reflexivity.
Qed.


(* C12, second half: a blob and mask that decode without any warning re-encode to exactly that blob and mask *)
Theorem encode_decode : forall has_regs sig blob mask args st,
  forallb plain_enc sig = true -> forallb (enc_known cd) sig = true -> bytes_ok blob -> 0 <= mask ->
  nparams sig <= cd_mask_bits cd -> mask_canonical cd sig mask = true ->
  decode_call sjis_dec cd sig (mkres blob mask None []) = Ok (args, []) ->
  has_regs = true \/ existsb a_reg args = false ->
  encode_args sjis_enc cd has_regs sig args st = Ok (mkres blob mask None [], st).
Proof.
  intros has_regs sig blob mask args st Hpl Hkn Hb Hm Hnp Hcan Hd Hregs.
  unfold decode_call in Hd. bind_ok Hd x Hx. destruct x as [[args_p w] ex].
  destruct (negb (length args_p =? length sig)%nat) eqn:El; [discriminate|].
  destruct (existsb bad_float_reg args_p); [discriminate|]. injection Hd as Hargs Hwarn. subst args.
  unfold decode_args in Hx. cbn [r_blob r_mask r_extra] in Hx. bind_ok Hx y Hy.
  destruct y as [[args_q w0] [[[rest rem'] mask'] extra']]. injection Hx as E1 E2 E3. subst args_p w ex.
  apply app_eq_nil in Hwarn. destruct Hwarn as [Hwarn Hpadw]. apply app_eq_nil in Hwarn. destruct Hwarn as [-> Hwarn].
  apply app_eq_nil in Hwarn. destruct Hwarn as [Hleft Hmaskw].
  assert (Hrest : rest = []) by (destruct rest; [reflexivity|discriminate]).
  assert (Hmask0 : mask' = 0) by (destruct (mask' =? 0) eqn:E; [now apply Z.eqb_eq|discriminate]).
  assert (Hpz : padding_nonzero sig args_q = false) by (destruct (padding_nonzero sig args_q); [discriminate|reflexivity]).
  subst rest mask'.
  destruct (loop_reencode sig _ _ _ _ _ _ _ _ 0 1 st Hpl Hkn Hb Hy Hpz Hcan Hm ltac:(lia) ltac:(lia) ltac:(intro; reflexivity))
    as [b [bit' [Hbl [Hsh He]]]].
  rewrite app_nil_r in Hbl. subst b.
  (* all mask bits were consumed *)
  assert (Hmm : mask mod 2 ^ nparams sig = mask).
  { pose proof (nparams_nonneg sig). symmetry in Hsh. rewrite Z.shiftr_div_pow2 in Hsh by lia.
    assert (0 < 2 ^ nparams sig) by (apply Z.pow_pos_nonneg; lia).
    apply Z.mod_small. split; [lia|]. apply Z.div_small_iff in Hsh; lia. }
  rewrite Hmm, Z.pow_0_r, Z.mul_1_r in He.
  unfold encode_args.
  assert (Hnr : negb has_regs && existsb a_reg (drop_padding sig args_q) = false).
  { destruct Hregs as [->|Hr]; [reflexivity|]. rewrite Hr. apply andb_false_r. }
  rewrite Hnr.
  assert (Hhead : (match sig with
                   | EInt _ _ _ true :: sig' =>
                       match drop_padding sig args_q with
                       | [] => Panic P_EXPECT
                       | a :: args' =>
                           if a_reg a then Panic P_ASSERT
                           else let '(n, sg, c) := cd_arg0 cd in
                                do v <- expect_int a; do b <- write_int n sg c v;
                                Ok (sig', args', Some (interp n sg (le_val b)))
                       end
                   | _ => Ok (sig, drop_padding sig args_q, None)
                   end) = Ok (sig, drop_padding sig args_q, @None Z)).
  { destruct sig as [|e sig']; [reflexivity|]. cbn [forallb] in Hpl. apply andb_split in Hpl. destruct Hpl as [Hpe _].
    destruct e as [size signed imm arg0| | | | |]; try reflexivity. unfold plain_enc in Hpe. cbn [is_str is_arg0 negb andb] in Hpe.
    destruct arg0; [discriminate|reflexivity]. }
  rewrite Hhead. cbn [obind].
  pose proof (drop_padding_length sig args_q) as Hlen.
  destruct (zlen sig <? zlen (drop_padding sig args_q)) eqn:Ez; [apply Z.ltb_lt in Ez; unfold zlen in Ez; lia|].
  rewrite He. cbn [obind]. reflexivity.
Qed.

End Reencode.
