(* Proofs/FmtExprParse.v -- the parser specification on printed expressions: for every printable expression,
   of arbitrary nesting, parsing the tokens the printer wrote gives back the expected tree [unfold e].
   Structural induction with explicit fuel bounds (the bounds are shown to be below the token count). *)
From TV Require Import Base.I32 Gen.FmtTables Model.Fmt Model.FmtLex Model.FmtParse Spec.Fmt
  Proofs.FmtLits Proofs.FmtLexP Proofs.FmtLitRT Proofs.FmtExprLex.
Open Scope Z_scope.
Opaque gen_unop_guard.

Section Tiers.
Variable pf : string -> Z.

Definition hd_in (ops : list string) (r : list token) : bool :=
  match r with TFix s :: _ => mem_str s ops | _ => false end.

Definition all_ops (tl : list (list string)) : list string := List.concat tl.

Lemma mem_str_app s a b : mem_str s (a ++ b) = mem_str s a || mem_str s b.
Proof. induction a as [|x a IH]; [reflexivity|]. cbn. rewrite IH, orb_assoc. reflexivity. Qed.

Lemma binloop_stop next ops m a r : hd_in ops r = false -> binloop next ops (S m) a r = Ok (a, r).
Proof.
  intros H. cbn [binloop]. destruct r as [|t r']; [reflexivity|].
  destruct t; try reflexivity. cbn in H. rewrite H. reflexivity.
Qed.

Lemma binloop_step next ops m a s r :
  binloop next ops (S m) a (TFix s :: r) =
  if mem_str s ops then (do p <- next r; let '(b, r') := p in binloop next ops m (FBin a s b) r') else Ok (a, TFix s :: r).
Proof. reflexivity. Qed.

(* an operand followed by something that is not an operator of these tiers *)
Lemma tiers_atom (base : parser) tl ts x rest :
  base ts = Ok (x, rest) -> hd_in (all_ops tl) rest = false ->
  tiers_from tl base ts = Ok (x, rest).
Proof.
  intros Hb. induction tl as [|ops tl IH]; intros Hh; [exact Hb|].
  cbn [tiers_from]. unfold bintier.
  unfold all_ops in Hh. cbn [List.concat] in Hh.
  assert (H1 : hd_in ops rest = false /\ hd_in (all_ops tl) rest = false).
  { destruct rest as [|t r]; [split; reflexivity|]. destruct t; try (split; reflexivity).
    cbn in *. rewrite mem_str_app in Hh. apply orb_false_iff in Hh. exact Hh. }
  destruct H1 as [H1 H2]. rewrite (IH H2). cbn [obind]. apply binloop_stop. exact H1.
Qed.

(* A op B *)
Lemma tiers_bin (base : parser) tl A B a b op rest :
  (forall r, hd_in ["++"; "--"; "["; "("; "."]%string r = false -> base (A ++ r) = Ok (a, r)) ->
  base (B ++ rest) = Ok (b, rest) -> B <> [] ->
  hd_in (all_ops tl) rest = false ->
  (exists t1 ops t2, tl = t1 ++ ops :: t2 /\ mem_str op ops = true /\ mem_str op (all_ops t1) = false /\ mem_str op (all_ops t2) = false) ->
  mem_str op ["++"; "--"; "["; "("; "."]%string = false ->
  tiers_from tl base (A ++ TFix op :: B ++ rest) = Ok (FBin a op b, rest).
Proof.
  intros HA HB HBne Hrest (t1 & ops & t2 & -> & Hin & Hn1 & Hn2) Hop.
  assert (HA' : base (A ++ TFix op :: B ++ rest) = Ok (a, TFix op :: B ++ rest)).
  { apply HA. cbn. exact Hop. }
  unfold all_ops in Hrest. rewrite concat_app in Hrest. cbn [List.concat] in Hrest.
  assert (Hr : hd_in (all_ops t1) rest = false /\ hd_in ops rest = false /\ hd_in (all_ops t2) rest = false).
  { destruct rest as [|t r]; [repeat split|]. destruct t; try (repeat split; reflexivity).
    cbn in *. rewrite !mem_str_app in Hrest. apply orb_false_iff in Hrest as [H1 H2]. apply orb_false_iff in H2 as [H2 H3]. auto. }
  destruct Hr as (Hr1 & Hr2 & Hr3).
  (* the tier of the operator *)
  assert (Hmid : tiers_from (ops :: t2) base (A ++ TFix op :: B ++ rest) = Ok (FBin a op b, rest)).
  { cbn [tiers_from]. unfold bintier.
    rewrite (tiers_atom base t2 _ a (TFix op :: B ++ rest) HA') by (cbn; exact Hn2).
    cbn [obind].
    destruct B as [|b0 B']; [congruence|].
    cbn [List.length]. rewrite binloop_step, Hin.
    rewrite (tiers_atom base t2 _ b rest HB Hr3). cbn [obind].
    cbn [app List.length]. apply binloop_stop. exact Hr2. }
  clear HA HA' HB Hrest.
  induction t1 as [|o1 t1 IH]; [exact Hmid|].
  cbn [app tiers_from]. unfold bintier.
  unfold all_ops in Hn1, Hr1. cbn [List.concat] in Hn1, Hr1.
  rewrite mem_str_app in Hn1. apply orb_false_iff in Hn1 as [Hn1a Hn1b].
  assert (Hr1' : hd_in o1 rest = false /\ hd_in (all_ops t1) rest = false).
  { destruct rest as [|t r]; [split; reflexivity|]. destruct t; try (split; reflexivity).
    cbn in *. rewrite mem_str_app in Hr1. apply orb_false_iff in Hr1. exact Hr1. }
  destruct Hr1' as [Hr1a Hr1b].
  rewrite (IH Hn1b Hr1b). cbn [obind]. apply binloop_stop. exact Hr1a.
Qed.

End Tiers.

(* ---------------------------------------------------------------------------------------- *)
(* the tokens of printed expressions *)

Lemma otoks_app a b : otoks (a ++ b) = otoks a ++ otoks b.
Proof. induction a as [|o a IH]; [reflexivity|]. destruct o; cbn [app otoks]; rewrite ?IH; reflexivity. Qed.

Definition paren_t (sup : bool) (l : list token) : list token :=
  if sup then l else TFix "(" :: l ++ [TFix ")"].

Lemma otoks_paren sup l : otoks (fl_paren sup l) = paren_t sup (otoks l).
Proof. destruct sup; [reflexivity|]. cbn [fl_paren paren_t otoks]. rewrite otoks_app. reflexivity. Qed.

Section Toks.
Variable fd : Z -> string.

Definition T (sup : bool) (e : fexpr) : list token := otoks (fl (pp fd sup e)).

Lemma T_expr_toks sup e : expr_toks fd sup e = T sup e.
Proof. reflexivity. Qed.

Lemma T_tern sup c l r :
  T sup (FTern c l r) = paren_t sup (T false c ++ [TFix "?"] ++ T false l ++ [TFix ":"] ++ T false r).
Proof.
  unfold T. cbn [pp]. rewrite fl_paren_eq, otoks_paren, !fl_app, !otoks_app. reflexivity.
Qed.

Lemma T_bin sup a op b :
  T sup (FBin a op b) = paren_t sup (T false a ++ [TFix op] ++ T false b).
Proof.
  unfold T. cbn [pp]. rewrite fl_paren_eq, otoks_paren, !fl_app, !otoks_app. reflexivity.
Qed.

Lemma T_un_fn sup op x : mem_str op prefix_unops = false ->
  exists t, fn_tok op = DT t /\ T sup (FUn op x) = [t; TFix "("] ++ T true x ++ [TFix ")"].
Proof.
  intros H. unfold T. cbn [pp]. rewrite H.
  assert (Ht : exists t, fn_tok op = DT t).
  { unfold fn_tok. destruct (String.eqb op "$" || String.eqb op "%"); eexists; reflexivity. }
  destruct Ht as [t Ht]. exists t. split; [exact Ht|].
  rewrite !fl_app, !otoks_app. cbn [fl flat_map]. rewrite Ht. reflexivity.
Qed.

Lemma T_un_prefix sup op x : mem_str op prefix_unops = true ->
  T sup (FUn op x) =
  paren_t sup (if gen_unop_guard && fuses op (first_char_docs (pp fd false x))
               then [TFix op; TFix "("] ++ T true x ++ [TFix ")"]
               else TFix op :: T false x).
Proof.
  intros H. unfold T. cbn [pp]. rewrite H, fl_paren_eq, otoks_paren.
  destruct (gen_unop_guard && fuses op (first_char_docs (pp fd false x))).
  - f_equal. rewrite !fl_app, !otoks_app. reflexivity.
  - reflexivity.
Qed.

End Toks.

(* ---------------------------------------------------------------------------------------- *)
(* terms *)

Definition postfix : list string := ["++"; "--"; "["; "("; "."]%string.

Lemma mem_str_false_neq s x l : mem_str x l = false -> In s l -> String.eqb x s = false.
Proof.
  induction l as [|y l IH]; [intros _ []|]. cbn. intros H [<-|Hin].
  - apply orb_false_iff in H. apply H.
  - apply orb_false_iff in H. apply IH; [apply H|exact Hin].
Qed.

Lemma next_is_not ops rest s : hd_in ops rest = false -> In s ops -> next_is s rest = false.
Proof.
  intros H Hin. destruct rest as [|t r]; [reflexivity|]. cbn. destruct t; try reflexivity.
  cbn in H. apply (mem_str_false_neq s _ ops); assumption.
Qed.

Lemma In_mem_str s l : In s l -> mem_str s l = true.
Proof.
  induction l as [|y l IH]; [intros []|]. cbn. intros [<-|H].
  - rewrite String.eqb_refl. reflexivity.
  - rewrite IH by exact H. apply orb_true_r.
Qed.

Section Terms.
Variable pf : string -> Z.
Variable pe : parser.

Lemma valid_ident_cases n : valid_ident n = true ->
  word_tok n = TIdent n \/ (word_tok n = TFix n /\ In n contextual).
Proof.
  unfold valid_ident. destruct n as [|c s]; [discriminate|]. intros H.
  apply andb_true_iff in H as [_ H]. unfold word_tok in *.
  destruct (mem_str (String c s) keywords); [|destruct (prefixb "ins_" (String c s)); [discriminate|left; reflexivity]].
  right. split; [reflexivity|]. cbn [ident_of] in H.
  destruct (mem_str (String c s) contextual) eqn:E; [|discriminate]. apply mem_str_In. exact E.
Qed.

Lemma ident_of_word_tok n : valid_ident n = true -> ident_of (word_tok n) = Some n.
Proof.
  intros H. destruct (valid_ident_cases n H) as [-> |[-> Hin]]; [reflexivity|].
  cbn [ident_of]. rewrite (In_mem_str _ _ Hin). reflexivity.
Qed.

Lemma pvar_named sg n rest : valid_ident n = true ->
  pvar (otoks (fl (pp_sigil sg)) ++ word_tok n :: rest) = Ok (VNamed sg n, rest).
Proof.
  intros Hv. pose proof (ident_of_word_tok n Hv) as Hi.
  assert (Hn : forall s, In s ["$"; "%"; "REG"]%string -> is_fix s (word_tok n) = false).
  { intros s Hs. destruct (valid_ident_cases n Hv) as [-> |[-> Hin]]; [reflexivity|].
    cbn [is_fix]. unfold contextual in Hin.
    repeat (destruct Hin as [<-|Hin]; [repeat (destruct Hs as [<-|Hs]; [reflexivity|]); destruct Hs|]). destruct Hin. }
  destruct sg as [[]|]; cbn [pp_sigil fl flat_map flat app fx otoks]; unfold pvar; cbn [next_is is_fix String.eqb Ascii.eqb Bool.eqb andb tl].
  - rewrite (Hn "REG"%string) by (right; right; left; reflexivity). rewrite Hi. reflexivity.
  - rewrite (Hn "REG"%string) by (right; right; left; reflexivity). rewrite Hi. reflexivity.
  - rewrite (Hn "$"%string), (Hn "%"%string), (Hn "REG"%string) by (cbn; auto). rewrite Hi. reflexivity.
Qed.

Definition nonwords : list string :=
  ["++"; "--"; "["; "("; "."; "$"; "%"; "REG"; "-"; ")"; ","; "="; "@"; ":"; "?"; "]"]%string.

Lemma is_fix_word_tok s n : valid_ident n = true -> In s nonwords -> is_fix s (word_tok n) = false.
Proof.
  intros Hv Hs. destruct (valid_ident_cases n Hv) as [-> |[-> Hin]]; [reflexivity|].
  cbn [is_fix]. unfold contextual in Hin. unfold nonwords in Hs.
  repeat (destruct Hin as [<-|Hin]; [repeat (destruct Hs as [<-|Hs]; [reflexivity|]); destruct Hs|]). destruct Hin.
Qed.

Lemma wrap_neg_mul r : in_i32 r -> r < 0 -> wrap32 (wrap32 (u32 (- r)) * -1) = r.
Proof. unfold in_i32, wrap32, u32, I32_MIN, I32_MAX, two31, two32. intros. lia. Qed.

Lemma otoks_signed_dec r :
  otoks (fl (signed_toks "" 10 r)) = if r <? 0 then [TFix "-"; TInt (digits 10 (u32 (- r)))] else [TInt (digits 10 r)].
Proof. unfold signed_toks. destruct (r <? 0); reflexivity. Qed.

Lemma pvar_reg sg r rest : in_i32 r ->
  pvar (otoks (fl (pp_sigil sg)) ++ otoks (fl (pp_reg r)) ++ rest) = Ok (VReg sg r, rest).
Proof.
  intros Hr.
  assert (Hreg : otoks (fl (pp_reg r)) = [TFix "REG"; TFix "["] ++ otoks (fl (signed_toks "" 10 r)) ++ [TFix "]"]).
  { unfold pp_reg. rewrite !fl_app, !otoks_app. reflexivity. }
  rewrite Hreg, otoks_signed_dec.
  destruct (r <? 0) eqn:E.
  - apply Z.ltb_lt in E. pose proof (u32_range (- r)) as Hu.
    destruct sg as [[]|]; cbn [pp_sigil fl flat_map flat app fx otoks]; unfold pvar;
      cbn [next_is is_fix String.eqb Ascii.eqb Bool.eqb andb tl app];
      rewrite (parse_int_dec pf) by exact Hu; cbn [obind]; rewrite wrap_neg_mul by assumption; reflexivity.
  - apply Z.ltb_ge in E.
    assert (Hu : 0 <= r < two32) by (unfold in_i32, I32_MAX, two32 in *; lia).
    destruct sg as [[]|]; cbn [pp_sigil fl flat_map flat app fx otoks]; unfold pvar;
      cbn [next_is is_fix String.eqb Ascii.eqb Bool.eqb andb tl app];
      rewrite (parse_int_dec pf) by exact Hu; cbn [obind]; rewrite wrap32_id by exact Hr; reflexivity.
Qed.

Definition var_toks (v : fvar) : list token := otoks (fl (pp_var v)).

Lemma pvar_var v rest : pr_var v = true -> pvar (var_toks v ++ rest) = Ok (v, rest).
Proof.
  unfold var_toks. destruct v as [sg n|sg r]; cbn [pr_var pp_var]; intros Hp; rewrite fl_app, otoks_app, <- app_assoc.
  - cbn [fl flat_map flat app wd otoks]. apply pvar_named. exact Hp.
  - apply pvar_reg. apply in_i32b_spec. exact Hp.
Qed.

Lemma after_var_stop v rest : hd_in postfix rest = false -> after_var v rest = Ok (FVar v, rest).
Proof.
  intros H. unfold after_var.
  rewrite (next_is_not postfix rest "++"), (next_is_not postfix rest "--"), (next_is_not postfix rest "[") by (auto; cbn; auto).
  reflexivity.
Qed.

(* the first token of a variable: a sigil, a word, or REG; pterm sends all of them to the variable branch *)
Lemma pterm_as_var v rest' :
  pr_var v = true ->
  (forall s, In s ["("; "."]%string -> next_is s rest' = false) ->
  pterm pf pe (var_toks v ++ rest') = (do p <- pvar (var_toks v ++ rest'); let '(v', r') := p in after_var v' r').
Proof.
  intros Hp Hn. unfold var_toks.
  destruct v as [sg n|sg r]; cbn [pr_var pp_var] in *; rewrite fl_app, otoks_app, <- app_assoc.
  - cbn [fl flat_map flat app wd otoks].
    assert (Hw : forall s, In s ["("; "."]%string -> is_fix s (word_tok n) = false).
    { intros s Hs. apply is_fix_word_tok; [exact Hp|]. unfold nonwords. cbn [In] in *. destruct Hs as [<-|[<-|[]]]; auto 10. }
    destruct sg as [[]|]; cbn [pp_sigil fl flat_map flat app fx otoks].
    + unfold pterm. cbn [String.eqb Ascii.eqb Bool.eqb andb next_is]. rewrite !Hw by (cbn; auto). reflexivity.
    + unfold pterm. cbn [String.eqb Ascii.eqb Bool.eqb andb next_is]. rewrite !Hw by (cbn; auto). reflexivity.
    + destruct (valid_ident_cases n Hp) as [E|[E Hin]]; rewrite E.
      * unfold pterm. rewrite !Hn by (cbn; auto). reflexivity.
      * unfold pterm. rewrite !Hn by (cbn; auto).
        unfold contextual in Hin. repeat (destruct Hin as [<-|Hin]; [reflexivity|]). destruct Hin.
  - assert (Hreg : otoks (fl (pp_reg r)) = TFix "REG" :: TFix "[" :: otoks (fl (signed_toks "" 10 r)) ++ [TFix "]"]).
    { unfold pp_reg. rewrite !fl_app, !otoks_app. reflexivity. }
    rewrite Hreg.
    destruct sg as [[]|]; cbn [pp_sigil fl flat_map flat app fx otoks]; unfold pterm; reflexivity.
Qed.

Lemma pterm_var v rest : pr_var v = true -> hd_in postfix rest = false ->
  pterm pf pe (var_toks v ++ rest) = Ok (FVar v, rest).
Proof.
  intros Hp Hr. rewrite pterm_as_var; [|exact Hp|].
  - rewrite pvar_var by exact Hp. cbn [obind]. apply after_var_stop. exact Hr.
  - intros s Hs. apply (next_is_not postfix); [exact Hr|]. unfold postfix. cbn in *. destruct Hs as [<-|[<-|[]]]; auto 10.
Qed.

Lemma pterm_xcr_post v (inc : bool) rest : pr_var v = true ->
  pterm pf pe (var_toks v ++ TFix (if inc then "++" else "--") :: rest) = Ok (FXcr false inc v, rest).
Proof.
  intros Hp. rewrite pterm_as_var; [|exact Hp|].
  - rewrite pvar_var by exact Hp. cbn [obind]. destruct inc; reflexivity.
  - intros s Hs. destruct inc; cbn in Hs; destruct Hs as [<-|[<-|[]]]; reflexivity.
Qed.

Lemma pterm_xcr_pre v (inc : bool) rest : pr_var v = true ->
  pterm pf pe (TFix (if inc then "++" else "--") :: var_toks v ++ rest) = Ok (FXcr true inc v, rest).
Proof.
  intros Hp. destruct inc; unfold pterm; cbn [String.eqb Ascii.eqb Bool.eqb andb]; rewrite pvar_var by exact Hp; reflexivity.
Qed.

(* literals *)
Lemma punary_tint s v rest : parse_int_text s = Ok v -> punary pf pe (TInt s :: rest) = Ok (FLitI v dec_fmt, rest).
Proof. intros H. cbn. rewrite H. reflexivity. Qed.
Lemma punary_neg_tint s v rest : parse_int_text s = Ok v ->
  punary pf pe (TFix "-" :: TInt s :: rest) = Ok (FUn "-" (FLitI v dec_fmt), rest).
Proof. intros H. cbn. rewrite H. reflexivity. Qed.

Lemma punary_named n rest : valid_ident n = true -> hd_in postfix rest = false ->
  punary pf pe (word_tok n :: rest) = Ok (named n, rest).
Proof.
  intros Hv Hr.
  assert (E : punary pf pe (word_tok n :: rest) = pterm pf pe (word_tok n :: rest)).
  { destruct (valid_ident_cases n Hv) as [-> |[-> Hin]]; [reflexivity|].
    unfold contextual in Hin. repeat (destruct Hin as [<-|Hin]; [reflexivity|]). destruct Hin. }
  rewrite E. change (word_tok n :: rest) with (var_toks (VNamed None n) ++ rest). apply pterm_var; assumption.
Qed.

Lemma signed_unary prefix r v rest :
  (forall n, 0 <= n < two32 -> parse_int_text (prefix ^^ digits r n) = Ok (wrap32 n)) ->
  in_i32 v ->
  punary pf pe (otoks (fl (signed_toks prefix r v)) ++ rest)
  = Ok ((if v <? 0 then FUn "-" (FLitI (wrap32 (u32 (- v))) dec_fmt) else FLitI v dec_fmt), rest).
Proof.
  intros Hparse Hv. unfold signed_toks. destruct (v <? 0) eqn:E.
  - cbn [fl flat_map flat app fx otoks]. apply punary_neg_tint. apply Hparse. apply u32_range.
  - apply Z.ltb_ge in E. cbn [fl flat_map flat app otoks].
    rewrite (punary_tint _ (wrap32 v)) by (apply Hparse; unfold in_i32, I32_MAX, two32 in *; lia).
    rewrite wrap32_id by exact Hv. reflexivity.
Qed.

Lemma unsigned_unary s v rest : parse_int_text s = Ok (wrap32 (u32 v)) -> in_i32 v ->
  punary pf pe (TInt s :: rest) = Ok (FLitI v dec_fmt, rest).
Proof. intros H Hv. rewrite (punary_tint _ _ _ H), wrap32_u32_id by exact Hv. reflexivity. Qed.

Lemma punary_int f v rest : in_i32 v -> hd_in postfix rest = false ->
  punary pf pe (otoks (fl (pp_int f v)) ++ rest) = Ok (unfold_int v f, rest).
Proof.
  intros Hv Hr. pose proof (u32_range v) as Hu.
  assert (Hsd : punary pf pe (otoks (fl (signed_toks "" 10 v)) ++ rest)
                = Ok ((if v <? 0 then FUn "-" (FLitI (wrap32 (u32 (- v))) dec_fmt) else FLitI v dec_fmt), rest))
    by (apply signed_unary; [apply (parse_int_dec pf)|exact Hv]).
  assert (Hux : punary pf pe (TInt ("0x" ^^ digits 16 (u32 v)) :: rest) = Ok (FLitI v dec_fmt, rest))
    by (apply unsigned_unary; [apply (parse_int_hex pf); exact Hu|exact Hv]).
  destruct f as [signed r]. destruct r; destruct signed; cbn [pp_int unfold_int].
  - exact Hsd.
  - cbn [fl flat_map flat app otoks]. apply unsigned_unary; [apply (parse_int_dec pf); exact Hu|exact Hv].
  - apply signed_unary; [apply (parse_int_hex pf)|exact Hv].
  - exact Hux.
  - apply signed_unary; [apply (parse_int_bin pf)|exact Hv].
  - cbn [fl flat_map flat app otoks]. apply unsigned_unary; [apply (parse_int_bin pf); exact Hu|exact Hv].
  - destruct (v =? 0); [apply punary_named; [reflexivity|exact Hr]|].
    destruct (v =? 1); [apply punary_named; [reflexivity|exact Hr]|]. exact Hsd.
  - destruct (v =? 0); [apply punary_named; [reflexivity|exact Hr]|].
    destruct (v =? 1); [apply punary_named; [reflexivity|exact Hr]|]. exact Hux.
Qed.

Lemma punary_str s rest : punary pf pe (TStr (print_string s) :: rest) = Ok (FLitS s, rest).
Proof. cbn -[parse_string_literal print_string]. rewrite string_literal_roundtrip. reflexivity. Qed.

Lemma pterm_enum a b rest : valid_ident a = true -> valid_ident b = true ->
  pterm pf pe (word_tok a :: TFix "." :: word_tok b :: rest) = Ok (FEnum a b, rest).
Proof.
  intros Ha Hb. pose proof (ident_of_word_tok b Hb) as Hib.
  destruct (valid_ident_cases a Ha) as [-> |[-> Hin]].
  - unfold pterm. cbn [next_is is_fix String.eqb Ascii.eqb Bool.eqb andb tl]. rewrite Hib. reflexivity.
  - unfold contextual in Hin.
    repeat (destruct Hin as [<-|Hin]; [unfold pterm; cbn [next_is is_fix String.eqb Ascii.eqb Bool.eqb andb tl ident_of mem_str contextual orb]; rewrite Hib; reflexivity|]).
    destruct Hin.
Qed.

Lemma pterm_label kw l rest : mem_str kw label_props = true -> valid_ident l = true ->
  pterm pf pe (word_tok kw :: TFix "(" :: word_tok l :: TFix ")" :: rest) = Ok (FLabelProp kw l, rest).
Proof.
  intros Hk Hl. pose proof (ident_of_word_tok l Hl) as Hil.
  apply mem_str_In in Hk. unfold label_props in Hk.
  repeat (destruct Hk as [<-|Hk]; [unfold pterm; cbn; rewrite Hil; reflexivity|]). destruct Hk.
Qed.

Lemma pterm_paren X x rest : pe (X ++ TFix ")" :: rest) = Ok (x, TFix ")" :: rest) ->
  pterm pf pe (TFix "(" :: X ++ TFix ")" :: rest) = Ok (x, rest).
Proof. intros H. unfold pterm. cbn [String.eqb Ascii.eqb Bool.eqb andb]. rewrite H. reflexivity. Qed.

Lemma pterm_fn op t X x rest : mem_str op fn_unops = true -> fn_tok op = DT t ->
  pe (X ++ TFix ")" :: rest) = Ok (x, TFix ")" :: rest) ->
  pterm pf pe (t :: TFix "(" :: X ++ TFix ")" :: rest) = Ok (FUn op x, rest).
Proof.
  intros Hop Ht H. apply mem_str_In in Hop. unfold fn_unops in Hop.
  repeat (destruct Hop as [<-|Hop]; [injection Ht as <-; unfold pterm; cbn; rewrite H; reflexivity|]). destruct Hop.
Qed.

Section Floats.
Variable fd : Z -> string.
Hypothesis pf_fd : forall a, 0 <= a < INF_BITS -> pf (float_text fd a) = a.

Lemma punary_float b rest : 0 <= b < two32 -> hd_in postfix rest = false ->
  punary pf pe (otoks (fl (pp_float fd b)) ++ rest) = Ok (unfold_float b, rest).
Proof.
  intros Hb Hr. unfold pp_float, unfold_float.
  destruct (f_is_nan b) eqn:Hnan; [apply punary_named; [reflexivity|exact Hr]|].
  unfold f_is_nan in Hnan. apply Z.ltb_ge in Hnan.
  assert (Habs : 0 <= f_abs b) by (unfold f_abs; apply Z.mod_pos_bound; lia).
  destruct (f_is_inf b) eqn:Einf.
  - destruct (f_sign b).
    + cbn [fl flat_map flat app fx wd otoks]. unfold punary. cbn [mem_str left_unops String.eqb Ascii.eqb Bool.eqb andb orb].
      change (word_tok "INF" :: rest) with (var_toks (VNamed None "INF") ++ rest).
      rewrite pterm_var by (auto; reflexivity). reflexivity.
    + apply punary_named; [reflexivity|exact Hr].
  - unfold f_is_inf in Einf. apply Z.eqb_neq in Einf.
    assert (Ha : 0 <= f_abs b < INF_BITS) by (unfold INF_BITS; lia).
    pose proof (pf_fd _ Ha) as Hp. unfold float_text in Hp.
    destruct (f_sign b); cbn [fl flat_map flat app fx otoks]; cbn; rewrite Hp; reflexivity.
Qed.
End Floats.

End Terms.

(* ---------------------------------------------------------------------------------------- *)
(* call arguments *)

Section Args.
Variable pf : string -> Z.
Variable pe : parser.

Definition closer (r : list token) : bool :=
  match r with [] => true | TFix s :: _ => String.eqb s ")" || String.eqb s "," | _ => false end.

(* an argument item: its tokens, and what pargs records for it *)
Definition item_ok (it : list token * (option string * fexpr)) : Prop :=
  let '(X, (k, v)) := it in
  match k with
  | None => X <> [] /\ next_is ")" X = false /\ next_is "@" X = false
            /\ forall r, closer r = true -> pe (X ++ r) = Ok (v, r)
  | Some kind => exists V, X = TFix "@" :: word_tok kind :: TFix "=" :: V
                 /\ mem_str kind pseudo_kinds = true
                 /\ forall r, closer r = true -> pe (V ++ r) = Ok (v, r)
  end.

Lemma next_is_app s X r : X <> [] -> next_is s (X ++ r) = next_is s X.
Proof. destruct X; [congruence|reflexivity]. Qed.

Lemma pseudo_kind_ident kind : mem_str kind pseudo_kinds = true -> ident_of (word_tok kind) = Some kind.
Proof.
  intros H. apply mem_str_In in H. unfold pseudo_kinds in H.
  repeat (destruct H as [<-|H]; [reflexivity|]). destruct H.
Qed.

Lemma pargs_item n it r acc k :
  item_ok it -> closer r = true ->
  (forall kv r', pargs pe n r' (kv :: acc) = k kv r') ->
  pargs pe (S n) (fst it ++ r) acc =
  (let kv := snd it in
   if next_is "," r then k kv (tl r) else if next_is ")" r then Ok (rev (kv :: acc), tl r) else Err E_PARSE).
Proof.
  destruct it as [X [kd v]]. cbn [fst snd item_ok]. intros Hit Hc Hk.
  destruct kd as [kind|].
  - destruct Hit as (V & -> & Hkind & Hpe).
    cbn [pargs app next_is is_fix String.eqb Ascii.eqb Bool.eqb andb tl].
    rewrite (pseudo_kind_ident kind Hkind), (Hpe r Hc). cbn [obind]. rewrite Hkind. cbn [obind].
    rewrite Hk. reflexivity.
  - destruct Hit as (Hne & H1 & H2 & Hpe).
    cbn [pargs]. rewrite !next_is_app by exact Hne. rewrite H1, H2, (Hpe r Hc). cbn [obind].
    rewrite Hk. reflexivity.
Qed.

Lemma pargs_items items : Forall item_ok items ->
  forall n acc rest, (List.length items < n)%nat ->
  pargs pe n (sep_by [TFix ","] (map fst items) ++ TFix ")" :: rest) acc
  = Ok (rev acc ++ map snd items, rest).
Proof.
  induction 1 as [|it items Hit Hall IH]; intros n acc rest Hn.
  - destruct n; [lia|]. cbn. rewrite app_nil_r. reflexivity.
  - destruct n as [|n]; [lia|]. cbn [List.length] in Hn.
    destruct items as [|it2 items'].
    + cbn [map sep_by].
      rewrite (pargs_item n it (TFix ")" :: rest) acc (fun kv r' => pargs pe n r' (kv :: acc))); [|exact Hit|reflexivity|reflexivity].
      cbn. reflexivity.
    + change (sep_by [TFix ","] (map fst (it :: it2 :: items')))
        with (fst it ++ [TFix ","] ++ sep_by [TFix ","] (map fst (it2 :: items'))).
      rewrite <- !app_assoc.
      rewrite (pargs_item n it _ acc (fun kv r' => pargs pe n r' (kv :: acc))); [|exact Hit|reflexivity|reflexivity].
      cbn [app next_is is_fix String.eqb Ascii.eqb Bool.eqb andb tl].
      rewrite IH by (cbn [List.length] in *; lia).
      cbn [rev]. rewrite <- app_assoc. reflexivity.
Qed.

Lemma split_args_ok (ps : list (string * fexpr)) (args : list fexpr) :
  split_args (map (fun p => (Some (fst p), snd p)) ps ++ map (fun a => (None, a)) args) = Ok (ps, args).
Proof.
  induction ps as [|[k v] ps IH].
  - cbn [map app]. destruct args as [|a args]; [reflexivity|].
    cbn [map split_args].
    assert (H : forallb (fun kv : option string * fexpr => is_none (fst kv)) (map (fun a => (None, a)) args) = true).
    { apply forallb_forall. intros x Hx. apply in_map_iff in Hx as (y & <- & _). reflexivity. }
    rewrite H. rewrite map_map. cbn. rewrite map_id. reflexivity.
  - cbn [map app split_args fst snd]. rewrite IH. reflexivity.
Qed.

Lemma pcall_ok n (ps : list (string * fexpr)) (args : list fexpr) items rest :
  Forall item_ok items ->
  map snd items = map (fun p => (Some (fst p), snd p)) ps ++ map (fun a => (None, a)) args ->
  pcall pe n (sep_by [TFix ","] (map fst items) ++ TFix ")" :: rest) = Ok (FCall n ps args, rest).
Proof.
  intros Hall Hres. unfold pcall.
  rewrite (pargs_items items Hall).
  - cbn [obind rev app]. rewrite Hres, split_args_ok. reflexivity.
  - (* fuel: every item has at least one token *)
    assert (Hlen : (List.length items <= List.length (sep_by [TFix ","] (map fst items)))%nat).
    { clear Hres. induction Hall as [|it l Hit Hl IHl]; [cbn; lia|].
      assert (Hne : fst it <> []).
      { destruct it as [X [[kind|] v]]; cbn in Hit |- *; [destruct Hit as (V & -> & _); discriminate|apply Hit]. }
      destruct l as [|it2 l'].
      - cbn. destruct (fst it); [congruence|cbn; lia].
      - change (sep_by [TFix ","] (map fst (it :: it2 :: l'))) with (fst it ++ [TFix ","] ++ sep_by [TFix ","] (map fst (it2 :: l'))).
        rewrite !app_length. cbn [List.length] in *. lia. }
    rewrite app_length. cbn [List.length]. lia.
Qed.

End Args.

(* ---------------------------------------------------------------------------------------- *)
(* difficulty switches and ternaries *)

Section Colon.
Variable nc : parser.

Definition dstop (r : list token) : bool := next_is ":" r || closer r.

Definition case_ok (c : option (list token * fexpr)) : Prop :=
  match c with
  | Some (X, x) => (exists t X', X = t :: X' /\ can_start_expr t = true)
                   /\ forall r, dstop r = true -> nc (X ++ r) = Ok (x, r)
  | None => True
  end.

Definition case_toks (c : option (list token * fexpr)) : list token :=
  match c with Some (X, _) => X | None => [] end.

Lemma closer_not_colon r : closer r = true -> next_is ":" r = false.
Proof.
  destruct r as [|t r]; [reflexivity|]. destruct t; try discriminate. cbn.
  intros H. apply orb_true_iff in H as [H|H]; apply String.eqb_eq in H; subst; reflexivity.
Qed.

Lemma closer_not_start r : closer r = true -> match r with t :: _ => can_start_expr t = false | [] => True end.
Proof.
  destruct r as [|t r]; [exact (fun _ => I)|]. destruct t; try discriminate. cbn [closer].
  intros H. apply orb_true_iff in H as [H|H]; apply String.eqb_eq in H; subst; reflexivity.
Qed.

Lemma diff_loop_ok cs : Forall case_ok cs ->
  forall m acc rest, closer rest = true -> (List.length cs < m)%nat ->
  diff_loop nc m acc (flat_map (fun c => TFix ":" :: case_toks c) cs ++ rest)
  = Ok (FDiff (rev acc ++ map (option_map snd) cs), rest).
Proof.
  induction 1 as [|c cs Hc Hcs IH]; intros m acc rest Hrest Hm.
  - destruct m; [lia|]. cbn [flat_map app diff_loop]. rewrite (closer_not_colon _ Hrest), app_nil_r. reflexivity.
  - destruct m as [|m]; [lia|]. cbn [List.length] in Hm.
    cbn [flat_map]. rewrite <- !app_assoc. cbn [app diff_loop next_is is_fix String.eqb Ascii.eqb Bool.eqb andb tl].
    assert (Hnext : dstop (flat_map (fun c => TFix ":" :: case_toks c) cs ++ rest) = true).
    { unfold dstop. destruct cs as [|c2 cs']; [cbn [flat_map app]; rewrite Hrest; apply orb_true_r|reflexivity]. }
    destruct c as [[X x]|].
    + destruct Hc as [(t & X' & -> & Hst) Hnc]. cbn [case_toks app]. rewrite Hst.
      change (t :: X' ++ flat_map (fun c => TFix ":" :: case_toks c) cs ++ rest)
        with ((t :: X') ++ flat_map (fun c => TFix ":" :: case_toks c) cs ++ rest).
      rewrite (Hnc _ Hnext). cbn [obind].
      rewrite IH by (auto; lia). cbn [rev map option_map snd]. rewrite <- app_assoc. reflexivity.
    + cbn [case_toks app].
      assert (Hns : match flat_map (fun c => TFix ":" :: case_toks c) cs ++ rest with
                    | t :: _ => can_start_expr t = false | [] => True end).
      { destruct cs as [|c2 cs']; [cbn [flat_map app]; apply closer_not_start; exact Hrest|reflexivity]. }
      destruct (flat_map (fun c => TFix ":" :: case_toks c) cs ++ rest) as [|t r] eqn:E.
      * rewrite <- E. rewrite IH by (auto; lia). cbn [rev map option_map]. rewrite <- app_assoc. reflexivity.
      * rewrite Hns. rewrite <- E. rewrite IH by (auto; lia). cbn [rev map option_map]. rewrite <- app_assoc. reflexivity.
Qed.

End Colon.

(* ---------------------------------------------------------------------------------------- *)
(* operator tiers *)

Fixpoint split_tier (op : string) (tl : list (list string)) : option (list (list string) * list string * list (list string)) :=
  match tl with
  | [] => None
  | ops :: r =>
      if mem_str op ops then Some ([], ops, r)
      else match split_tier op r with Some (a, o, b) => Some (ops :: a, o, b) | None => None end
  end.

Lemma split_tier_ok op tl a o b : split_tier op tl = Some (a, o, b) ->
  tl = a ++ o :: b /\ mem_str op o = true /\ mem_str op (all_ops a) = false.
Proof.
  revert a o b. induction tl as [|ops r IH]; intros a o b H; [discriminate|].
  cbn [split_tier] in H. destruct (mem_str op ops) eqn:E.
  - injection H as <- <- <-. auto.
  - destruct (split_tier op r) as [[[a' o'] b']|] eqn:Es; [|discriminate]. injection H as <- <- <-.
    destruct (IH _ _ _ eq_refl) as (-> & H1 & H2). repeat split; auto.
    unfold all_ops in *. cbn [List.concat]. rewrite mem_str_app, E, H2. reflexivity.
Qed.

Lemma tier_exists op : mem_str op binops = true ->
  exists t1 ops t2, tiers = t1 ++ ops :: t2 /\ mem_str op ops = true /\ mem_str op (all_ops t1) = false /\ mem_str op (all_ops t2) = false.
Proof.
  intros H.
  assert (Hall : forallb (fun op => match split_tier op tiers with
                                    | Some (a, o, b) => negb (mem_str op (all_ops b))
                                    | None => false end) binops = true) by (vm_compute; reflexivity).
  rewrite forallb_forall in Hall. specialize (Hall op (mem_str_In _ _ H)).
  destruct (split_tier op tiers) as [[[a o] b]|] eqn:E; [|discriminate].
  destruct (split_tier_ok _ _ _ _ _ E) as (H1 & H2 & H3).
  exists a, o, b. repeat split; auto. apply negb_true_iff. exact Hall.
Qed.

Lemma binop_not_postfix op : mem_str op binops = true -> mem_str op postfix = false.
Proof.
  intros H. apply mem_str_In in H. unfold binops in H.
  repeat (destruct H as [<-|H]; [reflexivity|]). destruct H.
Qed.

Lemma closer_facts r : closer r = true ->
  hd_in (all_ops tiers) r = false /\ hd_in postfix r = false /\ next_is "?" r = false /\ next_is ":" r = false.
Proof.
  destruct r as [|t r]; [repeat split|]. destruct t; try discriminate. cbn [closer].
  intros H. apply orb_true_iff in H as [H|H]; apply String.eqb_eq in H; subst; repeat split; reflexivity.
Qed.

Lemma dstop_facts r : dstop r = true -> hd_in (all_ops tiers) r = false /\ hd_in postfix r = false /\ next_is "?" r = false.
Proof.
  unfold dstop. intros H. apply orb_true_iff in H as [H|H].
  - destruct r as [|t r]; [discriminate|]. destruct t; try discriminate. cbn in H. apply String.eqb_eq in H. subst. repeat split; reflexivity.
  - destruct (closer_facts r H) as (H1 & H2 & H3 & _). auto.
Qed.

(* ---------------------------------------------------------------------------------------- *)
(* tokens of the remaining constructors *)

Lemma otoks_sep_comma ls : otoks (sep_by [OT (TFix ","); OS 1] ls) = sep_by [TFix ","] (map otoks ls).
Proof.
  destruct ls as [|x l]; [reflexivity|]. cbn [map]. rewrite !sep_by_cons', otoks_app. f_equal.
  induction l as [|y l IH]; [reflexivity|]. cbn [flat_map map]. rewrite !otoks_app, IH. reflexivity.
Qed.

Lemma otoks_sep_colon ls : otoks (sep_by [OS 1; OT (TFix ":"); OS 1] ls) = sep_by [TFix ":"] (map otoks ls).
Proof.
  destruct ls as [|x l]; [reflexivity|]. cbn [map]. rewrite !sep_by_cons', otoks_app. f_equal.
  induction l as [|y l IH]; [reflexivity|]. cbn [flat_map map]. rewrite !otoks_app, IH. reflexivity.
Qed.

Section Toks2.
Variable fd : Z -> string.
Notation TT := (T fd).

Definition item_toks_p (p : string * fexpr) : list token := TFix "@" :: word_tok (fst p) :: TFix "=" :: TT false (snd p).

Lemma T_call sup n ps args :
  exists nt, pp_cname n = DT nt /\
  TT sup (FCall n ps args) = nt :: TFix "(" :: sep_by [TFix ","] (map item_toks_p ps ++ map (TT false) args) ++ [TFix ")"].
Proof.
  assert (Hn : exists nt, pp_cname n = DT nt) by (destruct n; eexists; reflexivity).
  destruct Hn as [nt Hn]. exists nt. split; [exact Hn|].
  unfold T. cbn [pp fl flat_map]. rewrite Hn. cbn [flat app otoks].
  rewrite app_nil_r, otoks_app, otoks_sep_comma. cbn [otoks]. do 3 f_equal.
  rewrite !map_app, !map_map. f_equal.
Qed.

Lemma T_diff sup cs : head_none cs = false ->
  TT sup (FDiff cs) = paren_t sup (sep_by [TFix ":"] (map (fun c => match c with Some x => TT false x | None => [] end) cs)).
Proof.
  intros H. unfold T. cbn [pp]. rewrite H, fl_paren_eq, otoks_paren. f_equal.
  rewrite !fl_app, !otoks_app, fl_sep_by. cbn [fl flat_map app otoks].
  change (fl [sp1; fx ":"; sp1]) with [OS 1; OT (TFix ":"); OS 1].
  rewrite otoks_sep_colon, !map_map.
  assert (E : otoks (fl (if last_none cs then [sp1] else [])) = []) by (destruct (last_none cs); reflexivity).
  rewrite E, app_nil_r. f_equal. apply map_ext. intros [x|]; reflexivity.
Qed.

End Toks2.

(* ---------------------------------------------------------------------------------------- *)
(* the main induction *)

Section MainParse.
Variable pf : string -> Z.
Variable fd : Z -> string.
Hypothesis pf_fd : forall a, 0 <= a < INF_BITS -> pf (float_text fd a) = a.
Notation TT := (T fd).

Definition UP (n : nat) (e : fexpr) : Prop :=
  forall rest, hd_in postfix rest = false -> punary pf (pexpr pf n) (TT false e ++ rest) = Ok (unfold e, rest).
Definition EP (n : nat) (sup : bool) (e : fexpr) : Prop :=
  forall rest, closer rest = true -> pexpr pf (S n) (TT sup e ++ rest) = Ok (unfold e, rest).

(* the first token of an operand *)
Definition hd_ok (e : fexpr) : Prop :=
  exists t X', TT false e = t :: X' /\ can_start_expr t = true
    /\ (forall s, t = TFix s -> mem_str s left_unops = true -> nextc (print_expr fd false e) = Some "-"%char).

Definition good (e : fexpr) : Prop :=
  pr_expr fd e = true ->
  hd_ok e /\
  exists NU NS, (NU <= List.length (TT false e))%nat /\ (NS <= List.length (TT true e))%nat
    /\ (forall n, (NU <= n)%nat -> UP n e) /\ (forall n, (NS <= n)%nat -> EP n true e).

Lemma punary_pterm pe X r : match X with TFix s :: _ => mem_str s left_unops = false | _ :: _ => True | [] => False end ->
  punary pf pe (X ++ r) = pterm pf pe (X ++ r).
Proof.
  destruct X as [|t X']; [intros []|]. destruct t; try reflexivity. intros H. cbn [app punary]. rewrite H. reflexivity.
Qed.

(* an operand under the binary tiers *)
Lemma NC_of_UP n e r : UP n e -> hd_in (all_ops tiers) r = false -> hd_in postfix r = false ->
  nocolon pf (pexpr pf n) (TT false e ++ r) = Ok (unfold e, r).
Proof. intros H H1 H2. unfold nocolon. apply tiers_atom; [apply H; exact H2|exact H1]. Qed.

Lemma EPx_of_NC n X x : (forall r, closer r = true -> nocolon pf (pexpr pf n) (X ++ r) = Ok (x, r)) ->
  forall rest, closer rest = true -> pexpr pf (S n) (X ++ rest) = Ok (x, rest).
Proof.
  intros H rest Hc. cbn [pexpr]. rewrite (H rest Hc). cbn [obind].
  destruct (closer_facts rest Hc) as (_ & _ & H3 & H4). rewrite H3, H4. reflexivity.
Qed.

Lemma EP_false_of_UP n e : UP n e -> EP n false e.
Proof.
  intros H. unfold EP. apply EPx_of_NC. intros r Hc.
  destruct (closer_facts r Hc) as (H1 & H2 & _). apply NC_of_UP; assumption.
Qed.

(* atoms: the printed form does not depend on sup *)
Lemma good_atom e :
  (forall sup, TT sup e = TT false e) ->
  (pr_expr fd e = true -> hd_ok e) ->
  (pr_expr fd e = true -> forall n, UP n e) ->
  good e.
Proof.
  intros Hsup Hhd Hup Hp. split; [apply Hhd; exact Hp|].
  exists O, O. repeat split; try lia.
  - intros n _. apply Hup. exact Hp.
  - intros n _. unfold EP. rewrite Hsup. apply EP_false_of_UP. apply Hup. exact Hp.
Qed.

(* ---- first tokens ---- *)

Lemma can_start_valid n : valid_ident n = true -> can_start_expr (word_tok n) = true
  /\ (forall s, word_tok n = TFix s -> mem_str s left_unops = false).
Proof.
  intros Hv. destruct (valid_ident_cases n Hv) as [-> |[-> Hin]]; [split; [reflexivity|intros s [=]]|].
  unfold contextual in Hin. repeat (destruct Hin as [<-|Hin]; [split; [reflexivity|intros s [= <-]; reflexivity]|]). destruct Hin.
Qed.

Lemma hd_ok_intro e t X' : TT false e = t :: X' -> can_start_expr t = true ->
  (forall s, t = TFix s -> mem_str s left_unops = false) -> hd_ok e.
Proof.
  intros H1 H2 H3. exists t, X'. repeat split; auto. intros s Hs Hm. rewrite (H3 s Hs) in Hm. discriminate.
Qed.

Lemma var_toks_hd v : pr_var v = true -> exists t X', var_toks v = t :: X' /\ can_start_expr t = true
  /\ (forall s, t = TFix s -> mem_str s left_unops = false).
Proof.
  unfold var_toks. destruct v as [sg n|sg r]; cbn [pr_var pp_var]; intros Hp; rewrite fl_app, otoks_app.
  - destruct sg as [[]|]; cbn [pp_sigil fl flat_map flat app fx wd otoks].
    + eexists _, _. repeat split. intros s [= <-]. reflexivity.
    + eexists _, _. repeat split. intros s [= <-]. reflexivity.
    + destruct (can_start_valid n Hp) as [H1 H2]. eexists _, _. repeat split; eauto.
  - assert (Hreg : otoks (fl (pp_reg r)) = TFix "REG" :: TFix "[" :: otoks (fl (signed_toks "" 10 r)) ++ [TFix "]"]).
    { unfold pp_reg. rewrite !fl_app, !otoks_app. reflexivity. }
    rewrite Hreg. destruct sg as [[]|]; cbn [pp_sigil fl flat_map flat app fx otoks];
      eexists _, _; repeat split; intros s [= <-]; reflexivity.
Qed.

(* ---- atoms ---- *)

Lemma good_var v : good (FVar v).
Proof.
  apply good_atom.
  - reflexivity.
  - cbn [pr_expr]. intros Hp. destruct (var_toks_hd v Hp) as (t & X' & H1 & H2 & H3). eapply hd_ok_intro; eauto.
  - cbn [pr_expr]. intros Hp n rest Hr.
    change (TT false (FVar v)) with (var_toks v).
    destruct (var_toks_hd v Hp) as (t & X' & H1 & H2 & H3).
    rewrite punary_pterm by (rewrite H1; destruct t; auto).
    apply pterm_var; assumption.
Qed.

Lemma good_xcr pre inc v : good (FXcr pre inc v).
Proof.
  apply good_atom.
  - reflexivity.
  - cbn [pr_expr]. intros Hp. destruct pre.
    + eapply (hd_ok_intro _ (TFix (if inc then "++" else "--"))); [reflexivity|destruct inc; reflexivity|intros s [= <-]; destruct inc; reflexivity].
    + destruct (var_toks_hd v Hp) as (t & X' & H1 & H2 & H3).
      eapply (hd_ok_intro _ t (X' ++ [TFix (if inc then "++" else "--")])); auto.
      unfold T. cbn [pp]. rewrite fl_app, otoks_app. fold (var_toks v). rewrite H1. reflexivity.
  - cbn [pr_expr]. intros Hp n rest Hr. destruct pre.
    + change (TT false (FXcr true inc v)) with (TFix (if inc then "++" else "--") :: var_toks v).
      rewrite (punary_pterm _ (TFix (if inc then "++" else "--") :: var_toks v)) by (destruct inc; reflexivity).
      cbn [app]. apply pterm_xcr_pre. exact Hp.
    + assert (E : TT false (FXcr false inc v) = var_toks v ++ [TFix (if inc then "++" else "--")]).
      { unfold T. cbn [pp]. rewrite fl_app, otoks_app. reflexivity. }
      rewrite E. destruct (var_toks_hd v Hp) as (t & X' & H1 & H2 & H3).
      rewrite punary_pterm by (rewrite H1; destruct t; cbn [app]; auto).
      rewrite <- app_assoc. cbn [app]. apply pterm_xcr_post. exact Hp.
Qed.

Lemma good_lit_s s : good (FLitS s).
Proof.
  apply good_atom.
  - reflexivity.
  - intros _. eapply hd_ok_intro; [reflexivity|reflexivity|intros s0 [=]].
  - intros _ n rest Hr. apply punary_str.
Qed.

Lemma good_enum a b : good (FEnum a b).
Proof.
  apply good_atom.
  - reflexivity.
  - cbn [pr_expr]. intros Hp. apply andb_true_iff in Hp as [Ha Hb].
    destruct (can_start_valid a Ha) as [H1 H2]. eapply hd_ok_intro; [reflexivity|exact H1|exact H2].
  - cbn [pr_expr]. intros Hp n rest Hr. apply andb_true_iff in Hp as [Ha Hb].
    change (TT false (FEnum a b)) with [word_tok a; TFix "."; word_tok b].
    destruct (can_start_valid a Ha) as [H1 H2].
    rewrite punary_pterm by (cbn [app]; destruct (word_tok a) eqn:E; auto).
    cbn [app]. apply pterm_enum; assumption.
Qed.

Lemma good_label kw l : good (FLabelProp kw l).
Proof.
  apply good_atom.
  - reflexivity.
  - cbn [pr_expr]. intros Hp. apply andb_true_iff in Hp as [Hk Hl].
    apply mem_str_In in Hk. unfold label_props in Hk.
    destruct Hk as [<-|[<-|[]]]; (eapply hd_ok_intro; [reflexivity|reflexivity|intros s [= <-]; reflexivity]).
  - cbn [pr_expr]. intros Hp n rest Hr. apply andb_true_iff in Hp as [Hk Hl].
    change (TT false (FLabelProp kw l)) with [word_tok kw; TFix "("; word_tok l; TFix ")"].
    assert (Hm : forall s, word_tok kw = TFix s -> mem_str s left_unops = false).
    { pose proof Hk as Hk'. apply mem_str_In in Hk'. unfold label_props in Hk'. destruct Hk' as [<-|[<-|[]]]; intros s [= <-]; reflexivity. }
    rewrite punary_pterm by (cbn [app]; destruct (word_tok kw) eqn:E; auto).
    cbn [app]. apply pterm_label; assumption.
Qed.

(* ---- numeric literals ---- *)

(* the first token of a printed number: `-` (then the text starts with `-`) or the literal itself / a word *)
Definition lit_hd (l : list doc) : Prop :=
  exists t X', otoks (fl l) = t :: X' /\ can_start_expr t = true
    /\ (forall s, t = TFix s -> mem_str s left_unops = true -> nextc (concat_text (fl l)) = Some "-"%char).

Lemma lit_hd_signed prefix r v : lit_hd (signed_toks prefix r v).
Proof.
  unfold signed_toks. destruct (v <? 0).
  - eexists _, _. repeat split.
  - eexists _, _. repeat split. intros s [=].
Qed.

Lemma lit_hd_tok t : (forall s, t <> TFix s) -> can_start_expr t = true -> lit_hd [DT t].
Proof. intros H1 H2. exists t, []. repeat split; auto. intros s Hs. destruct (H1 s Hs). Qed.

Lemma lit_hd_word w : valid_ident w = true -> lit_hd [wd w].
Proof.
  intros Hv. destruct (can_start_valid w Hv) as [H1 H2].
  exists (word_tok w), []. repeat split; auto. intros s Hs Hm. rewrite (H2 s Hs) in Hm. discriminate.
Qed.

Lemma lit_hd_int f v : lit_hd (pp_int f v).
Proof.
  destruct f as [signed r]. destruct r; destruct signed; cbn [pp_int];
    try apply lit_hd_signed; try (apply lit_hd_tok; [intros s [=]|reflexivity]).
  - destruct (v =? 0); [apply lit_hd_word; reflexivity|]. destruct (v =? 1); [apply lit_hd_word; reflexivity|]. apply lit_hd_signed.
  - destruct (v =? 0); [apply lit_hd_word; reflexivity|]. destruct (v =? 1); [apply lit_hd_word; reflexivity|].
    apply lit_hd_tok; [intros s [=]|reflexivity].
Qed.

Lemma lit_hd_float b : lit_hd (pp_float fd b).
Proof.
  unfold pp_float. destruct (f_is_nan b); [apply lit_hd_word; reflexivity|].
  destruct (f_sign b).
  - destruct (f_is_inf b); eexists _, _; repeat split.
  - destruct (f_is_inf b); [apply lit_hd_word; reflexivity|apply lit_hd_tok; [intros s [=]|reflexivity]].
Qed.

Lemma good_lit_i v f : good (FLitI v f).
Proof.
  apply good_atom.
  - reflexivity.
  - intros _. exact (lit_hd_int f v).
  - cbn [pr_expr]. intros Hp n rest Hr. apply punary_int; [apply in_i32b_spec; exact Hp|exact Hr].
Qed.

Lemma good_lit_f b : good (FLitF b).
Proof.
  apply good_atom.
  - reflexivity.
  - intros _. exact (lit_hd_float b).
  - cbn [pr_expr]. intros Hp n rest Hr. apply andb_true_iff in Hp as [H1 H2]. apply Z.leb_le in H1. apply Z.ltb_lt in H2.
    apply (punary_float pf (pexpr pf n) fd pf_fd); [lia|exact Hr].
Qed.

(* ---- compound expressions ---- *)

Lemma UP_paren n e : EP n true e ->
  (forall sup, TT sup e = paren_t sup (TT true e)) -> UP (S n) e.
Proof.
  intros HE Hpar rest Hr. rewrite (Hpar false). cbn [paren_t].
  rewrite (punary_pterm _ (TFix "(" :: TT true e ++ [TFix ")"])) by reflexivity.
  cbn [app]. rewrite <- app_assoc. cbn [app]. apply pterm_paren. apply HE. reflexivity.
Qed.

Lemma hd_ok_paren e : (forall sup, TT sup e = paren_t sup (TT true e)) -> hd_ok e.
Proof. intros Hpar. eapply hd_ok_intro; [rewrite (Hpar false); reflexivity|reflexivity|intros s [= <-]; reflexivity]. Qed.


(* packaging a compound expression: from the S-form result *)
Lemma good_compound e NS :
  (forall sup, TT sup e = paren_t sup (TT true e)) ->
  (NS <= List.length (TT true e))%nat ->
  (forall n, (NS <= n)%nat -> EP n true e) ->
  hd_ok e /\
  exists NU NS', (NU <= List.length (TT false e))%nat /\ (NS' <= List.length (TT true e))%nat
    /\ (forall n, (NU <= n)%nat -> UP n e) /\ (forall n, (NS' <= n)%nat -> EP n true e).
Proof.
  intros Hpar Hb HE. split; [apply hd_ok_paren; exact Hpar|].
  exists (S NS), NS. repeat split; auto.
  - rewrite (Hpar false). cbn [paren_t List.length]. rewrite app_length. cbn [List.length]. lia.
  - intros n Hn. destruct n as [|n']; [lia|]. apply UP_paren; [apply HE; lia|exact Hpar].
Qed.

Lemma good_bin a op b : good a -> good b -> good (FBin a op b).
Proof.
  intros Ga Gb Hp. cbn [pr_expr] in Hp.
  apply andb_true_iff in Hp as [Hp Hpb]. apply andb_true_iff in Hp as [Hop Hpa].
  destruct (Ga Hpa) as [(ta & Xa & Hta & _) (NUa & NSa & Ba & _ & Ua & _)].
  destruct (Gb Hpb) as [(tb & Xb & Htb & _) (NUb & NSb & Bb & _ & Ub & _)].
  assert (Hpar : forall sup, TT sup (FBin a op b) = paren_t sup (TT true (FBin a op b))).
  { intros sup. rewrite !T_bin. reflexivity. }
  apply (good_compound _ (Nat.max NUa NUb) Hpar).
  - rewrite T_bin. cbn [paren_t]. rewrite !app_length. cbn [List.length]. lia.
  - intros n Hn. unfold EP. rewrite T_bin. cbn [paren_t]. apply EPx_of_NC. intros r Hc.
    destruct (closer_facts r Hc) as (H1 & H2 & _).
    rewrite <- !app_assoc. cbn [app]. unfold nocolon.
    apply tiers_bin.
    + intros r0 Hr0. apply Ua; [lia|exact Hr0].
    + apply Ub; [lia|exact H2].
    + rewrite Htb. discriminate.
    + exact H1.
    + apply tier_exists. exact Hop.
    + apply binop_not_postfix. exact Hop.
Qed.

Lemma prefix_is_left op : mem_str op prefix_unops = true -> mem_str op left_unops = true.
Proof. intros H. apply mem_str_In in H. unfold prefix_unops in H. destruct H as [<-|[<-|[<-|[]]]]; reflexivity. Qed.

Lemma punary_op pe op X : mem_str op left_unops = true ->
  punary pf pe (TFix op :: X) = (do p <- pterm pf pe X; let '(x, r') := p in Ok (FUn op x, r')).
Proof. intros H. cbn [punary]. rewrite H. reflexivity. Qed.

Lemma good_un op x : good x -> good (FUn op x).
Proof.
  intros Gx Hp. cbn [pr_expr] in Hp.
  destruct (mem_str op prefix_unops) eqn:Eop.
  - (* prefix operator *)
    apply andb_true_iff in Hp as [Hpx Hfol].
    destruct (Gx Hpx) as [(tx & Xx & Htx & Hcs & Hneg) (NUx & NSx & Bx & BSx & Ux & Ex)].
    pose proof (prefix_is_left op Eop) as Hleft.
    assert (Hpar : forall sup, TT sup (FUn op x) = paren_t sup (TT true (FUn op x))).
    { intros sup. rewrite !T_un_prefix by exact Eop. reflexivity. }
    destruct (gen_unop_guard && fuses op (first_char_docs (pp fd false x))) eqn:G.
    + (* the operand is parenthesized *)
      assert (HT : TT true (FUn op x) = [TFix op; TFix "("] ++ TT true x ++ [TFix ")"]).
      { rewrite T_un_prefix by exact Eop. rewrite G. reflexivity. }
      apply (good_compound _ (S NSx) Hpar).
      * rewrite HT. rewrite !app_length. cbn [List.length]. lia.
      * intros n Hn. destruct n as [|n']; [lia|]. unfold EP. rewrite HT. apply EPx_of_NC. intros r Hc.
        destruct (closer_facts r Hc) as (H1 & H2 & _).
        unfold nocolon. apply tiers_atom; [|exact H1].
        cbn [app]. rewrite punary_op by exact Hleft. rewrite <- app_assoc. cbn [app].
        rewrite pterm_paren with (x := unfold x); [reflexivity|]. apply Ex; [lia|reflexivity].
    + assert (HT : TT true (FUn op x) = TFix op :: TT false x).
      { rewrite T_un_prefix by exact Eop. rewrite G. reflexivity. }
      (* the operand does not start with a prefix operator *)
      assert (Hhead : forall s, tx = TFix s -> mem_str s left_unops = false).
      { intros s Hs. destruct (mem_str s left_unops) eqn:Em; [exfalso|reflexivity].
        pose proof (Hneg s Hs Em) as Hc.
        assert (Hfc : first_char_docs (pp fd false x) = Some "-"%char) by exact Hc.
        rewrite Hfc in G.
        destruct gen_unop_guard eqn:Eg.
        - cbn in G. discriminate.
        - cbn [orb] in Hfol. unfold follows_ok in Hfol.
          assert (Hf : first_char (print_expr fd false x) = Some "-"%char) by exact Hc.
          rewrite Hf in Hfol. cbn in Hfol. discriminate. }
      apply (good_compound _ NUx Hpar).
      * rewrite HT. cbn [List.length]. lia.
      * intros n Hn. unfold EP. rewrite HT. apply EPx_of_NC. intros r Hc.
        destruct (closer_facts r Hc) as (H1 & H2 & _).
        unfold nocolon. apply tiers_atom; [|exact H1].
        cbn [app]. rewrite punary_op by exact Hleft.
        rewrite <- (punary_pterm (pexpr pf n) (TT false x) r) by (rewrite Htx; destruct tx; auto).
        rewrite (Ux n Hn r H2). reflexivity.
  - (* function-style operator *)
    apply andb_true_iff in Hp as [Hfn Hpx].
    destruct (Gx Hpx) as [_ (NUx & NSx & Bx & BSx & Ux & Ex)].
    destruct (T_un_fn fd true op x Eop) as (t & Ht & HTt).
    assert (HT : forall sup, TT sup (FUn op x) = [t; TFix "("] ++ TT true x ++ [TFix ")"]).
    { intros sup. destruct (T_un_fn fd sup op x Eop) as (t' & Ht' & HT'). rewrite Ht in Ht'. injection Ht' as <-. exact HT'. }
    assert (Htok : can_start_expr t = true /\ forall s, t = TFix s -> mem_str s left_unops = false).
    { pose proof Hfn as Hfn'. apply mem_str_In in Hfn'. unfold fn_unops in Hfn'.
      repeat (destruct Hfn' as [<-|Hfn']; [injection Ht as <-; split; [reflexivity|intros s [= <-]; reflexivity]|]). destruct Hfn'. }
    destruct Htok as [Hcs Hnl].
    assert (HU : forall n, (S NSx <= n)%nat -> UP n (FUn op x)).
    { intros n Hn rest Hr. destruct n as [|n']; [lia|]. rewrite HT.
      rewrite (punary_pterm _ ([t; TFix "("] ++ TT true x ++ [TFix ")"])) by (cbn [app]; destruct t; auto).
      cbn [app]. rewrite <- app_assoc. cbn [app]. apply pterm_fn; [exact Hfn|exact Ht|]. apply Ex; [lia|reflexivity]. }
    split; [eapply hd_ok_intro; [rewrite HT; reflexivity|exact Hcs|exact Hnl]|].
    exists (S NSx), (S NSx). repeat split.
    + rewrite HT, !app_length. cbn [List.length]. lia.
    + rewrite HT, !app_length. cbn [List.length]. lia.
    + exact HU.
    + intros n Hn. unfold EP. rewrite (HT true), <- (HT false). apply EP_false_of_UP. apply HU. exact Hn.
Qed.

(* a list of operands: one fuel bound for all of them *)
Lemma operands_need xs : Forall good xs -> forallb (pr_expr fd) xs = true ->
  exists N, (N <= List.length (flat_map (TT false) xs))%nat
    /\ Forall (fun x => hd_ok x /\ forall n, (N <= n)%nat -> UP n x) xs.
Proof.
  induction 1 as [|x xs Gx _ IH]; intros Hp.
  - exists O. split; [cbn; lia|constructor].
  - cbn [forallb] in Hp. apply andb_true_iff in Hp as [Hpx Hps].
    destruct (Gx Hpx) as [Hh (NU & _ & B & _ & U & _)]. destruct (IH Hps) as (N & BN & F).
    exists (Nat.max NU N). split.
    + cbn [flat_map]. rewrite app_length. lia.
    + constructor.
      * split; [exact Hh|]. intros n Hn. apply U. lia.
      * eapply Forall_impl; [|exact F]. intros y [Hy1 Hy2]. split; [exact Hy1|]. intros n Hn. apply Hy2. lia.
Qed.

Lemma good_tern c l r : good c -> good l -> good r -> good (FTern c l r).
Proof.
  intros Gc Gl Gr Hp. cbn [pr_expr] in Hp.
  apply andb_true_iff in Hp as [Hp Hpr]. apply andb_true_iff in Hp as [Hpc Hpl].
  destruct (Gc Hpc) as [_ (NUc & _ & Bc & _ & Uc & _)].
  destruct (Gl Hpl) as [_ (NUl & _ & Bl & _ & Ul & _)].
  destruct (Gr Hpr) as [_ (NUr & _ & Br & _ & Ur & _)].
  assert (Hpar : forall sup, TT sup (FTern c l r) = paren_t sup (TT true (FTern c l r))).
  { intros sup. rewrite !T_tern. reflexivity. }
  apply (good_compound _ (Nat.max NUc (Nat.max (S NUl) (S NUr))) Hpar).
  - rewrite T_tern. cbn [paren_t]. rewrite !app_length. cbn [List.length]. lia.
  - intros n Hn rest Hc. rewrite T_tern. cbn [paren_t].
    destruct n as [|n']; [lia|].
    destruct (closer_facts rest Hc) as (H1 & H2 & H3 & H4).
    rewrite <- !app_assoc. cbn [app].
    cbn [pexpr].
    rewrite (NC_of_UP (S n') c) by (try reflexivity; apply Uc; lia).
    cbn [obind next_is is_fix String.eqb Ascii.eqb Bool.eqb andb tl].
    unfold tern_rest. cbn [trhs].
    rewrite (NC_of_UP n' l) by (try reflexivity; apply Ul; lia).
    cbn [obind next_is is_fix String.eqb Ascii.eqb Bool.eqb andb tl expect].
    rewrite (NC_of_UP n' r) by (auto; apply Ur; lia).
    cbn [obind]. rewrite H3. reflexivity.
Qed.

(* ---- difficulty switches ---- *)

Definition case_T (c : option fexpr) : list token := match c with Some x => TT false x | None => [] end.
Definition case_spec (c : option fexpr) : option (list token * fexpr) := option_map (fun x => (TT false x, unfold x)) c.

Lemma cases_need cs :
  Forall (fun c => match c with Some x => good x | None => True end) cs ->
  forallb (fun c => match c with Some x => pr_expr fd x | None => true end) cs = true ->
  exists N, (N <= List.length (flat_map case_T cs))%nat
    /\ Forall (fun c => match c with Some x => hd_ok x /\ (forall n, (N <= n)%nat -> UP n x) | None => True end) cs.
Proof.
  induction 1 as [|c cs Gc _ IH]; intros Hp.
  - exists O. split; [cbn; lia|constructor].
  - cbn [forallb] in Hp. apply andb_true_iff in Hp as [Hpc Hps]. destruct (IH Hps) as (N & BN & F).
    destruct c as [x|].
    + destruct (Gc Hpc) as [Hh (NU & _ & B & _ & U & _)].
      exists (Nat.max NU N). split.
      * cbn [flat_map case_T]. rewrite app_length. lia.
      * constructor; [split; [exact Hh|]; intros n Hn; apply U; lia|].
        eapply Forall_impl; [|exact F]. intros [y|]; [|auto]. intros [Hy1 Hy2]. split; [exact Hy1|]. intros n Hn. apply Hy2. lia.
    + exists N. split; [cbn [flat_map case_T app]; lia|]. constructor; [exact I|exact F].
Qed.

Lemma flat_map_cases (l : list (option fexpr)) :
  flat_map (fun y => [TFix ":"] ++ y) (map (fun c => match c with Some x => TT false x | None => [] end) l)
  = flat_map (fun c => TFix ":" :: case_T c) l.
Proof. induction l as [|y l IH]; [reflexivity|]. cbn [map flat_map]. rewrite IH. destruct y; reflexivity. Qed.

Lemma good_diff cs :
  Forall (fun c => match c with Some x => good x | None => True end) cs -> good (FDiff cs).
Proof.
  intros Gcs Hp. cbn [pr_expr] in Hp.
  destruct cs as [|[x0|] [|c1 cs']]; try discriminate.
  set (cs := Some x0 :: c1 :: cs') in *.
  assert (Hhn : head_none cs = false) by reflexivity.
  assert (Hpar : forall sup, TT sup (FDiff cs) = paren_t sup (TT true (FDiff cs))).
  { intros sup. rewrite !T_diff by exact Hhn. reflexivity. }
  assert (HT : TT true (FDiff cs) = TT false x0 ++ flat_map (fun c => TFix ":" :: case_T c) (c1 :: cs')).
  { rewrite T_diff by exact Hhn. cbn [paren_t]. unfold cs. rewrite map_cons, sep_by_cons', flat_map_cases. reflexivity. }
  destruct (cases_need cs Gcs Hp) as (N & BN & F).
  subst cs.
  inversion F as [|c0 l0 H0 Frest]; subst c0 l0. cbn beta iota in H0. destruct H0 as [Hh0 U0].
  apply (good_compound _ N Hpar).
  - rewrite HT. change (flat_map case_T (Some x0 :: c1 :: cs')) with (TT false x0 ++ flat_map case_T (c1 :: cs')) in BN.
    rewrite app_length in *.
    assert (Hle : forall l, (List.length (flat_map case_T l) <= List.length (flat_map (fun c => TFix ":" :: case_T c) l))%nat).
    { intros l. induction l as [|y l IHl]; [cbn; lia|]. cbn [flat_map]. rewrite !app_length. cbn [List.length]. lia. }
    specialize (Hle (c1 :: cs')). lia.
  - intros n Hn rest Hc. rewrite HT. rewrite <- app_assoc.
    set (tail := flat_map (fun c => TFix ":" :: case_T c) (c1 :: cs') ++ rest).
    assert (Htail : exists r', tail = TFix ":" :: r') by (subst tail; cbn [flat_map app]; eexists; reflexivity).
    destruct Htail as (r' & Er').
    cbn [pexpr].
    rewrite (NC_of_UP n x0 tail) by (try (apply U0; exact Hn); rewrite Er'; reflexivity).
    cbn [obind]. rewrite Er'. cbn [next_is is_fix String.eqb Ascii.eqb Bool.eqb andb]. rewrite <- Er'.
    subst tail.
    assert (Hspec : flat_map (fun c => TFix ":" :: case_T c) (c1 :: cs')
                    = flat_map (fun c => TFix ":" :: case_toks c) (map case_spec (c1 :: cs'))).
    { generalize (c1 :: cs'). intros l. induction l as [|y l IHl]; [reflexivity|].
      cbn [map flat_map]. rewrite IHl. destruct y; reflexivity. }
    rewrite Hspec.
    rewrite (diff_loop_ok (nocolon pf (pexpr pf n)) (map case_spec (c1 :: cs'))).
    + assert (Hm : forall l, map (option_map snd) (map case_spec l)
                             = map (fun c => match c with Some x => Some (unfold x) | None => None end) l)
        by (intros l; rewrite map_map; apply map_ext; intros [y|]; reflexivity).
      rewrite Hm. reflexivity.
    + apply Forall_forall. intros sp Hsp. apply in_map_iff in Hsp as (c & <- & Hin).
      rewrite Forall_forall in Frest. specialize (Frest c Hin).
      destruct c as [y|]; [|exact I]. destruct Frest as [(t & X' & Ht & Hcs & _) Uy].
      cbn [case_spec option_map case_ok]. split; [exists t, X'; auto|].
      intros r Hr. destruct (dstop_facts r Hr) as (H1 & H2 & _). apply NC_of_UP; [apply Uy; exact Hn|exact H1|exact H2].
    + exact Hc.
    + rewrite map_length, app_length.
      assert (Hl : (List.length (c1 :: cs') <= List.length (flat_map (fun c => TFix ":" :: case_toks c) (map case_spec (c1 :: cs'))))%nat).
      { generalize (c1 :: cs'). intros l. induction l as [|y l IHl]; [cbn; lia|].
        cbn [map flat_map List.length app]. rewrite app_length. cbn [List.length] in *. lia. }
      lia.
Qed.

(* ---- calls ---- *)

Lemma to_digits_first f n : 1 <= n < 10 ^ (Z.of_nat f + 1) ->
  exists c s, to_digits f 10 n = String c s /\ c <> "0"%char.
Proof.
  revert n. induction f as [|f IH]; intros n Hn.
  - change (Z.of_nat 0 + 1) with 1 in Hn. rewrite Z.pow_1_r in Hn. cbn [to_digits]. rewrite Z.mod_small by lia.
    assert (n = 1 \/ n = 2 \/ n = 3 \/ n = 4 \/ n = 5 \/ n = 6 \/ n = 7 \/ n = 8 \/ n = 9)
      as [-> | [-> | [-> | [-> | [-> | [-> | [-> | [-> | ->]]]]]]]] by lia; eexists _, _; split; try reflexivity; discriminate.
  - cbn [to_digits]. destruct (n <? 10) eqn:E.
    + apply Z.ltb_lt in E.
      assert (n = 1 \/ n = 2 \/ n = 3 \/ n = 4 \/ n = 5 \/ n = 6 \/ n = 7 \/ n = 8 \/ n = 9)
        as [-> | [-> | [-> | [-> | [-> | [-> | [-> | [-> | ->]]]]]]]] by lia; eexists _, _; split; try reflexivity; discriminate.
    + apply Z.ltb_ge in E.
      replace (Z.of_nat (S f) + 1) with (Z.succ (Z.of_nat f + 1)) in Hn by lia.
      rewrite Z.pow_succ_r in Hn by lia.
      set (P := 10 ^ (Z.of_nat f + 1)) in *. clearbody P.
      destruct (IH (n / 10)) as (c & s & Hs & Hc); [lia|].
      rewrite Hs. exists c, (s ^^ str1 (digit_char (n mod 10))). split; [reflexivity|exact Hc].
Qed.

Lemma parse_ins_digits op : 0 <= op < 65536 -> parse_ins ("ins_" ^^ digits 10 op) = Ok op.
Proof.
  intros Hop. unfold parse_ins. cbn [String.append drop].
  assert (Hr : radix_ok 10) by (right; left; reflexivity).
  assert (Hval : from_str_radix 65536 10 (digits 10 op) = Ok op).
  { unfold from_str_radix. destruct (digits_shape 10 op Hr) as [_ Hne]; [lia|].
    destruct (digits 10 op) eqn:E; [congruence|]. rewrite <- E.
    rewrite digits_val_digits by (auto; unfold two32; lia).
    destruct (op <? 65536) eqn:El; [reflexivity|]. apply Z.ltb_ge in El. lia. }
  destruct (Z.eq_dec op 0) as [-> |Hnz]; [reflexivity|].
  destruct (to_digits_first 32 op) as (c & s & Hs & Hc); [change (Z.of_nat 32 + 1) with 33; split; [lia|]; assert (65536 < 10 ^ 33) by (vm_compute; reflexivity); lia|].
  destruct (digits_shape 10 op Hr) as [Hall _]; [lia|].
  unfold digits in *. rewrite Hs in *.
  assert (Hd : all_chars is_digit (String c s) = true) by (apply (all_chars_impl _ _ _ rdigit10 Hall)).
  assert (Hcd : is_digit c = true) by (cbn in Hd; apply andb_true_iff in Hd; apply Hd).
  assert (Hsp : span is_digit (String c s) = (String c s, EmptyString)).
  { rewrite <- (append_nil_r (String c s)) at 1. apply span_app; [exact Hd|exact I]. }
  assert (Hcanon : (match String c s with
                    | String "0"%char EmptyString => true
                    | String c0 _ => is_digit c0 && negb (Ascii.eqb c0 "0") && (let (_, rest) := span is_digit (String c s) in String.eqb rest "")
                    | EmptyString => false
                    end) = true).
  { rewrite Hsp. apply Ascii.eqb_neq in Hc.
    destruct c as [[] [] [] [] [] [] [] []]; cbn in Hcd, Hc |- *; try discriminate; try reflexivity; destruct s; reflexivity. }
  rewrite Hcanon. exact Hval.
Qed.

Lemma can_start_not t : can_start_expr t = true -> is_fix ")" t = false /\ is_fix "@" t = false.
Proof.
  destruct t; try (split; reflexivity). cbn [is_fix]. intros H.
  split; (destruct (String.eqb s _) eqn:E; [apply String.eqb_eq in E; subst; discriminate|reflexivity]).
Qed.

Lemma length_sep_by_ge (ls : list (list token)) :
  (List.length (List.concat ls) <= List.length (sep_by [TFix ","] ls))%nat.
Proof.
  destruct ls as [|x l]; [cbn; lia|]. rewrite sep_by_cons'. cbn [List.concat]. rewrite !app_length.
  apply Nat.add_le_mono_l. induction l as [|y l IH]; [cbn; lia|]. cbn [List.concat flat_map]. rewrite !app_length. cbn [List.length]. lia.
Qed.

Lemma good_call n ps args :
  Forall (fun p => good (snd p)) ps -> Forall good args -> good (FCall n ps args).
Proof.
  intros Gps Gargs Hp. cbn [pr_expr] in Hp.
  apply andb_true_iff in Hp as [Hp Hpargs]. apply andb_true_iff in Hp as [Hname Hpps].
  (* all operands: pseudo-arg values, then arguments *)
  set (xs := map snd ps ++ args).
  assert (Gxs : Forall good xs).
  { subst xs. apply Forall_app. split; [|exact Gargs]. apply Forall_forall. intros x Hx. apply in_map_iff in Hx as (p & <- & Hin).
    rewrite Forall_forall in Gps. apply Gps. exact Hin. }
  assert (Hpxs : forallb (pr_expr fd) xs = true).
  { subst xs. rewrite forallb_app, Hpargs, andb_true_r. apply forallb_forall. intros x Hx. apply in_map_iff in Hx as (p & <- & Hin).
    rewrite forallb_forall in Hpps. specialize (Hpps p Hin). apply andb_true_iff in Hpps. apply Hpps. }
  destruct (operands_need xs Gxs Hpxs) as (N & BN & F).
  destruct (T_call fd true n ps args) as (nt & Hnt & _).
  assert (HT : forall sup, TT sup (FCall n ps args) = nt :: TFix "(" :: sep_by [TFix ","] (map (item_toks_p fd) ps ++ map (TT false) args) ++ [TFix ")"]).
  { intros sup. destruct (T_call fd sup n ps args) as (nt' & Hnt' & H). rewrite Hnt in Hnt'. injection Hnt' as <-. exact H. }
  (* the callee token *)
  assert (Hcallee : can_start_expr nt = true /\ (forall s, nt = TFix s -> mem_str s left_unops = false)
                    /\ forall pe X, pterm pf pe (nt :: TFix "(" :: X) = pcall pe n X).
  { destruct n as [s|op]; unfold pp_cname, wd in Hnt; injection Hnt as <-.
    - apply andb_true_iff in Hname as [Hv Hr].
      destruct (can_start_valid s Hv) as [H1 H2]. split; [exact H1|]. split; [exact H2|].
      intros pe X. destruct (valid_ident_cases s Hv) as [-> |[-> Hin]]; [reflexivity|].
      unfold contextual in Hin. repeat (destruct Hin as [<-|Hin]; [reflexivity|]). destruct Hin.
    - apply andb_true_iff in Hname as [H0 H1]. apply Z.leb_le in H0. apply Z.ltb_lt in H1.
      assert (Ew : forall d, word_tok ("ins_" ^^ d) = TInstr ("ins_" ^^ d)) by reflexivity.
      cbn [String.append] in Ew. rewrite Ew. split; [reflexivity|]. split; [intros s [=]|].
      intros pe X. unfold pterm. cbn [next_is is_fix String.eqb Ascii.eqb Bool.eqb andb tl].
      pose proof (parse_ins_digits op) as Hpi. cbn [String.append] in Hpi. rewrite Hpi by lia. reflexivity. }
  destruct Hcallee as (Hcs & Hnl & Hpt).
  (* the items *)
  set (items := map (fun p => (item_toks_p fd p, (Some (fst p), unfold (snd p)))) ps
                ++ map (fun a => (TT false a, (@None string, unfold a))) args).
  assert (Hfst : map fst items = map (item_toks_p fd) ps ++ map (TT false) args).
  { subst items. rewrite map_app, !map_map. reflexivity. }
  assert (Hsnd : map snd items = map (fun p => (Some (fst p), snd p)) (map (fun p => (fst p, unfold (snd p))) ps)
                                 ++ map (fun a => (None, a)) (map unfold args)).
  { subst items. rewrite map_app, !map_map. reflexivity. }
  assert (HU : forall m, (S N <= m)%nat -> UP m (FCall n ps args)).
  { intros m Hm rest Hr. destruct m as [|m']; [lia|]. rewrite HT.
    rewrite (punary_pterm _ (nt :: TFix "(" :: _ ++ [TFix ")"])) by (destruct nt; auto).
    cbn [app]. rewrite Hpt, <- app_assoc. cbn [app]. rewrite <- Hfst.
    rewrite (pcall_ok (pexpr pf (S m')) n (map (fun p => (fst p, unfold (snd p))) ps) (map unfold args) items); [reflexivity| |exact Hsnd].
    subst items. apply Forall_app. split.
    - apply Forall_forall. intros it Hit. apply in_map_iff in Hit as (p & <- & Hin).
      cbn [item_ok]. exists (TT false (snd p)). split; [reflexivity|].
      rewrite forallb_forall in Hpps. specialize (Hpps p Hin). apply andb_true_iff in Hpps as [Hk Hv].
      split; [exact Hk|].
      rewrite Forall_forall in F. destruct (F (snd p)) as [_ Up]; [subst xs; apply in_or_app; left; apply in_map; exact Hin|].
      apply EP_false_of_UP. apply Up. lia.
    - apply Forall_forall. intros it Hit. apply in_map_iff in Hit as (a & <- & Hin).
      cbn [item_ok].
      rewrite Forall_forall in F. destruct (F a) as [(t & X' & Ht & Hst & _) Ua]; [subst xs; apply in_or_app; right; exact Hin|].
      destruct (can_start_not t Hst) as [Hn1 Hn2].
      rewrite Ht. repeat split; [discriminate|exact Hn1|exact Hn2|].
      rewrite <- Ht. apply EP_false_of_UP. apply Ua. lia. }
  assert (Hlen : (S N <= List.length (TT false (FCall n ps args)))%nat).
  { rewrite HT. cbn [List.length]. rewrite app_length. cbn [List.length].
    pose proof (length_sep_by_ge (map (item_toks_p fd) ps ++ map (TT false) args)) as Hl.
    assert (Hc : (List.length (flat_map (TT false) xs) <= List.length (List.concat (map (item_toks_p fd) ps ++ map (TT false) args)))%nat).
    { subst xs. rewrite concat_app, flat_map_app, !app_length. apply Nat.add_le_mono.
      - clear. induction ps as [|p ps IH]; [cbn; lia|]. cbn [map flat_map List.concat]. rewrite !app_length. unfold item_toks_p at 1. cbn [List.length]. lia.
      - rewrite flat_map_concat_map. lia. }
    lia. }
  split; [eapply hd_ok_intro; [rewrite HT; reflexivity|exact Hcs|exact Hnl]|].
  exists (S N), (S N). repeat split.
  - exact Hlen.
  - rewrite (HT true), <- (HT false). exact Hlen.
  - exact HU.
  - intros m Hm. unfold EP. rewrite (HT true), <- (HT false). apply EP_false_of_UP. apply HU. exact Hm.
Qed.

(* ---- everything together ---- *)

Lemma all_good e : good e.
Proof.
  induction e using fexpr_ind2.
  - apply good_tern; assumption.
  - apply good_bin; assumption.
  - apply good_un; assumption.
  - apply good_xcr.
  - apply good_var.
  - apply good_call; assumption.
  - apply good_diff; assumption.
  - apply good_lit_i.
  - apply good_lit_f.
  - apply good_lit_s.
  - apply good_label.
  - apply good_enum.
Qed.

Theorem expr_parse : forall e sup, pr_expr fd e = true -> parse_tokens pf (expr_toks fd sup e) = Ok (unfold e).
Proof.
  intros e sup Hp. rewrite T_expr_toks. unfold parse_tokens.
  destruct (all_good e Hp) as [_ (NU & NS & BU & BS & U & E)].
  assert (H : pexpr pf (S (List.length (TT sup e))) (TT sup e ++ []) = Ok (unfold e, [])).
  { destruct sup.
    - apply E; [exact BS|reflexivity].
    - apply EP_false_of_UP; [apply U; exact BU|reflexivity]. }
  rewrite app_nil_r in H. rewrite H. reflexivity.
Qed.

End MainParse.
