(* Proofs/LowerJumps.v -- conditional jumps (comparisons, && || !, two-part compare+jump) and
   ternary assignments: the emitted code with its generated labels takes the jump exactly when the
   source condition says so, and assigns what the source ternary selects. *)
From TV Require Import Base.I32 Base.F32 Model.Ops Model.Expr Model.Lower Model.LowerSem
  Proofs.LowerSound Proofs.LowerShape.
Open Scope Z_scope.

Lemma label_eqb_eq a b : label_eqb a b = true <-> a = b.
Proof.
  destruct a, b; cbn; split; try congruence.
  - intros H. apply Nat.eqb_eq in H. congruence.
  - intros H. inversion H. apply Nat.eqb_refl.
  - intros H. apply andb_prop in H. destruct H as [H1 H2]. apply Nat.eqb_eq in H1, H2. congruence.
  - intros H. inversion H. rewrite !Nat.eqb_refl. reflexivity.
Qed.

Section Jumps.
  Variable T : optable.
  Variable libm : unop -> Z -> Z.
  Variable avail : ikind -> bool.
  Variable auto_casts : bool.
  Variable rty : Z -> ty.
  Variable lty : nat -> ty.
  Variable diff : nat.
  Variable time mask : Z.
  Hypothesis no_sigil_intrinsics : forall op t, sigil_of_unop op <> None -> avail (KUnOp op t) = false.

  Notation ety := (ety rty lty).
  Notation wt_pure := (wt_pure rty lty).
  Notation wt_cond := (wt_cond rty lty).
  Notation wt_tern := (wt_tern rty lty).
  Notation classify := (classify auto_casts rty lty).
  Notation lower := (lower avail auto_casts rty lty time mask).
  Notation run_pure := (run_pure T libm lty).
  Notation run_fwd := (run_fwd T libm lty).
  Notation exec_pure := (exec_pure T libm).
  Notation exec_step := (exec_step T libm).
  Notation eval_s := (eval_s T libm rty lty diff).
  Notation assign_s := (assign_s T libm rty lty diff).
  Notation fresh := (fresh lty).
  Notation te_agree := (te_agree lty).
  Notation seek_mem := (seek_mem lty).

  (* a jump target that no code generated from counter n on can define *)
  Definition label_ok (l : label) (n : nat) : Prop :=
    match l with LUser _ => True | LGen _ j => (j < n)%nat end.

  Lemma seek_skip l t : forall code rest m cmp,
    Forall (fun st => match st with LLabel _ l' => l' <> l | _ => True end) code ->
    run_fwd (code ++ rest) (Seek l t) m cmp = run_fwd rest (Seek l t) (seek_mem code m) cmp.
  Proof.
    induction code as [|st code IH]; intros rest m cmp H; [reflexivity|].
    inversion H as [|? ? Hst Hrest]; subst. destruct st; cbn [app LowerSem.run_fwd LowerShape.seek_mem]; try apply IH; try assumption.
    destruct (label_eqb l l0) eqn:E; [apply label_eqb_eq in E; congruence | apply IH; assumption].
  Qed.

  Lemma seek_through f c s code s' l t rest m cmp :
    lower f c s = Ok (code, s') -> fresh m (g s) -> label_ok l (g s) ->
    run_fwd (code ++ rest) (Seek l t) m cmp = run_fwd rest (Seek l t) m cmp.
  Proof.
    intros Hl Hf Hok.
    destruct (lower_shape avail auto_casts rty lty time mask f c s code s' Hl) as [G [L [N _]]].
    rewrite seek_skip.
    - rewrite (N m Hf). reflexivity.
    - eapply Forall_impl; [|exact L]. intros st Hst. destruct st; auto.
      cbn in Hst. destruct l0; [contradiction|]. intros E. subst l. cbn in Hok. lia.
  Qed.

  Lemma exec_step_pure i m m' cmp : exec_pure i m = Ok m' -> exec_step i m cmp = Ok (m', cmp, None).
  Proof.
    destruct i; cbn [LowerSem.exec_step LowerSem.exec_pure]; intros H; try discriminate; try (rewrite H; reflexivity).
  Qed.

  Lemma run_fwd_pure : forall code m m' rest cmp, run_pure code m = Ok m' ->
    run_fwd (code ++ rest) Exec m cmp = run_fwd rest Exec m' cmp.
  Proof.
    induction code as [|st code IH]; intros m m' rest cmp H; cbn [LowerSem.run_pure] in H.
    - inversion H. reflexivity.
    - destruct st; cbn [app LowerSem.run_fwd]; try (apply IH; exact H).
      destruct (LowerSem.exec_pure T libm i m) as [m1| | |] eqn:E; cbn [obind] in H; try discriminate.
      rewrite (exec_step_pure _ _ _ cmp E). apply IH. exact H.
  Qed.
  (* ---- what else the operator table must satisfy for conditions ---- *)
  Definition notnan (v : value) : Prop := match v with VFloat f => fis_nan f = false | _ => True end.

  Record T_ok2 : Prop := {
    T_land : forall a b, binop_eval T LogicAnd (VInt a) (VInt b) = Ok (VInt (if a =? 0 then 0 else b));
    T_lor : forall a b, binop_eval T LogicOr (VInt a) (VInt b) = Ok (VInt (if a =? 0 then b else a));
    T_not : forall a, unop_eval libm T Not (VInt a) = Ok (Some (VInt (b2z (a =? 0))));
    T_ne0 : forall a, binop_eval T Ne (VInt a) (VInt 0) = Ok (VInt (b2z (negb (a =? 0))));
    T_negcmp : forall op op' x y r b, negate_comparison op = Some op' -> notnan x -> notnan y ->
      binop_eval T op x y = Ok r -> truthy r = Ok b ->
      exists r', binop_eval T op' x y = Ok r' /\ truthy r' = Ok (negb b);
  }.

  Definition is_unless (k : kw) : bool := match k with KwUnless => true | KwIf => false end.

  Definition cond_s (te : tenv) (m : mem) (e : expr) : outcome bool := do v <- eval_s te m e; truthy v.

  (* the operands of every comparison that the condition evaluates are not NaN *)
  Fixpoint nonan (te : tenv) (m : mem) (e : expr) : Prop :=
    match e with
    | EBin a op b =>
        match op with
        | LogicAnd | LogicOr => nonan te m a /\ nonan te m b
        | _ => forall av bv, eval_s te m a = Ok av -> eval_s te m b = Ok bv -> notnan av /\ notnan bv
        end
    | EUn Not b => nonan te m b
    | _ => True
    end.

  Definition taken_sem (te : tenv) (m : mem) (c : call) : outcome bool :=
    match c with
    | CCondNonCount k e _ _ => do b <- cond_s te m e; Ok (xorb b (is_unless k))
    | CCondCmp k a op b _ _ => do b <- cond_s te m (EBin a op b); Ok (xorb b (is_unless k))
    | CCondLogic k a op b _ _ => do b <- cond_s te m (EBin a op b); Ok (xorb b (is_unless k))
    | _ => Panic P_UNIMPL
    end.

  Definition target (c : call) : label * option Z :=
    match c with
    | CCondNonCount _ _ l jt | CCondCmp _ _ _ _ l jt | CCondLogic _ _ _ _ l jt => (l, jt)
    | _ => (LUser 0, None)
    end.

  Definition wf_cond (n : nat) (te : tenv) (m : mem) (c : call) : Prop :=
    match c with
    | CCondNonCount k e l jt => wt_cond te e = true /\ locals_below n e = true /\ label_ok l n /\ nonan te m e
    | CCondCmp k a op b l jt =>
        is_comparison op = true /\ wt_pure te a = true /\ wt_pure te b = true /\ ety te a = ety te b /\
        locals_below n a = true /\ locals_below n b = true /\ label_ok l n /\
        (forall av bv, eval_s te m a = Ok av -> eval_s te m b = Ok bv -> notnan av /\ notnan bv)
    | CCondLogic k a op b l jt =>
        (op = LogicAnd \/ op = LogicOr) /\ wt_cond te a = true /\ wt_cond te b = true /\
        locals_below n a = true /\ locals_below n b = true /\ label_ok l n /\ nonan te m a /\ nonan te m b
    | _ => False
    end.

  Definition after (taken : bool) (c : call) : mode :=
    if taken then Seek (fst (target c)) (snd (target c)) else Exec.

  Definition CondIH (f : nat) : Prop :=
    forall c s code s', lower f c s = Ok (code, s') ->
    forall m taken, wf_cond (g s) (te s) m c -> fresh m (g s) -> taken_sem (te s) m c = Ok taken ->
    (forall rest cmp, exists cmp', run_fwd (code ++ rest) Exec m cmp = run_fwd rest (after taken c) m cmp') /\
    (g s <= g s')%nat /\ te_agree (g s) (te s) (te s').

  (* (lia made these lemmas depend on unused section variables of LowerSound; instantiate them) *)
  Definition fresh_upd := fresh_update libm rty lty time.
  Definition te_agree_trans' := te_agree_trans libm rty lty time.
  Definition te_agree_cons' := te_agree_cons libm rty lty time.
  Definition var_below_neq' := var_below_neq libm rty lty time.
  Definition locals_below_mono' := locals_below_mono libm rty lty time.
  Definition below_not_uses' := below_not_uses libm rty lty time.
  Definition var_below_mono' := var_below_mono libm avail rty lty time no_sigil_intrinsics.
  Definition eval_var_indep' := eval_var_indep T libm rty lty diff time.

  Lemma truthy_int v b : truthy v = Ok b -> exists z, v = VInt z /\ b = negb (z =? 0).
  Proof. destruct v as [z|x|x]; cbn; try discriminate. destruct z; intros H; inversion H; eexists; split; reflexivity. Qed.

  Lemma cond_s_int te m e b : cond_s te m e = Ok b -> exists z, eval_s te m e = Ok (VInt z) /\ b = negb (z =? 0).
  Proof.
    unfold cond_s. destruct (eval_s te m e) as [v| | |]; cbn [obind]; try discriminate.
    intros H. destruct (truthy_int _ _ H) as [z [-> ->]]. eauto.
  Qed.

  Lemma cond_ne0 (H2 : T_ok2) te m e b : cond_s te m e = Ok b -> cond_s te m (EBin e Ne (ELitI 0)) = Ok b.
  Proof.
    intros H. destruct (cond_s_int _ _ _ _ H) as [z [Hz ->]].
    unfold cond_s. rewrite eval_s_bin, Hz. cbn [obind]. change (eval_s te m (ELitI 0)) with (@Ok value (VInt 0)). cbn [obind].
    rewrite (T_ne0 H2). cbn [obind]. destruct (z =? 0); reflexivity.
  Qed.

  Lemma fresh_restore m d xv : fresh m d -> update (update m (VLoc d) xv) (VLoc d) (default_of (lty d)) = m.
  Proof.
    intros Hf. rewrite update_update_same. rewrite <- (Hf d) by lia. apply (update_lookup_id m (VLoc d)).
  Qed.

  (* "define a temporary, branch on a condition that reads it, free it" *)
  Lemma cond_bracket f (IHa : IHf T libm avail auto_casts rty lty diff time mask f) (IHc : CondIH f)
        s ea tmp_ty read_ty (K : expr -> call) code s' m taken xv :
    seq (ret [LAlloc (g s) tmp_ty] (mklst (S (g s)) ((g s, tmp_ty) :: te s))) (fun s2 =>
    seq (lower f (CAssignOp (mkvar (Some (sigil_of_ty tmp_ty)) (VLoc (g s))) None ea) s2) (fun s3 =>
    seq (lower f (K (read_as (mkvar (Some (sigil_of_ty tmp_ty)) (VLoc (g s))) read_ty)) s3) (fun s4 =>
    ret [LFree (g s)] s4))) = Ok (code, s') ->
    wt_pure (te s) ea = true -> locals_below (g s) ea = true -> fresh m (g s) ->
    eval_s (te s) m ea = Ok xv ->
    (forall s3, (S (g s) <= g s3)%nat -> te_agree (g s) (te s) (te s3) ->
       wf_cond (g s3) (te s3) (update m (VLoc (g s)) xv) (K (read_as (mkvar (Some (sigil_of_ty tmp_ty)) (VLoc (g s))) read_ty)) /\
       taken_sem (te s3) (update m (VLoc (g s)) xv) (K (read_as (mkvar (Some (sigil_of_ty tmp_ty)) (VLoc (g s))) read_ty)) = Ok taken) ->
    (forall rest cmp, exists cmp', run_fwd (code ++ rest) Exec m cmp =
        run_fwd rest (after taken (K (read_as (mkvar (Some (sigil_of_ty tmp_ty)) (VLoc (g s))) read_ty))) m cmp') /\
    (g s <= g s')%nat /\ te_agree (g s) (te s) (te s').
  Proof.
    intros Hl Hw Hb Hf He HK.
    apply seq_ok in Hl. destruct Hl as [c0 [s2 [cr [H0 [Hl Hcode]]]]].
    unfold ret in H0. inversion H0; subst c0 s2. clear H0.
    apply seq_ok in Hl. destruct Hl as [c1 [s3 [cr2 [H1 [Hl Hcode2]]]]].
    apply seq_ok in Hl. destruct Hl as [c2 [s4 [c3 [H2 [H3 Hcode3]]]]].
    unfold ret in H3. inversion H3; subst c3 s4. clear H3.
    destruct (temp_compute T libm avail auto_casts rty lty diff time mask f IHa s ea tmp_ty m xv c1 s3 Hw Hb Hf He H1) as [Hr1 [Hg1 Ht1]].
    destruct (HK s3 Hg1 Ht1) as [Hwf Hsem].
    destruct (IHc _ _ _ _ H2 (update m (VLoc (g s)) xv) taken Hwf) as [Hrun [Hg2 Ht2]];
      [apply fresh_upd; [intros d Hd'; apply Hf; lia | cbn; lia] | exact Hsem |].
    split; [|split].
    - intros rest cmp. subst code cr cr2.
        change ([LAlloc (g s) tmp_ty] ++ c1 ++ c2 ++ [LFree (g s)]) with ((LAlloc (g s) tmp_ty :: c1) ++ c2 ++ [LFree (g s)]).
        rewrite <- !app_assoc. rewrite (run_fwd_pure _ _ _ _ cmp Hr1).
        destruct (Hrun ([LFree (g s)] ++ rest) cmp) as [cmp' Hc]. exists cmp'. rewrite Hc.
        cbn [app]. destruct (after taken _); cbn [LowerSem.run_fwd]; rewrite fresh_restore by exact Hf; reflexivity.
    - lia.
    - eapply te_agree_trans'; [| exact Ht1 | exact Ht2]. lia.
  Qed.

  Lemma label_ok_mono l n n' : (n <= n')%nat -> label_ok l n -> label_ok l n'.
  Proof. unfold label_ok. destruct l; [auto | lia]. Qed.

  Lemma wt_cond_pure_int te : forall e, wt_cond te e = true -> wt_pure te e = true /\ ety te e = TInt.
  Proof.
    induction e; cbn [LowerSem.wt_cond]; intros H;
      try (apply andb_prop in H; destruct H as [H1 H2]; apply ty_eqb_eq in H2; split; assumption).
    - (* EUn *) destruct op; try (apply andb_prop in H; destruct H as [H1 H2]; apply ty_eqb_eq in H2; split; assumption).
      destruct (IHe H) as [Hp Hi]. split; [|reflexivity]. cbn [LowerSem.wt_pure]. rewrite Hp, Hi. reflexivity.
    - (* EBin *) destruct op; try (apply andb_prop in H; destruct H as [H1 H2]; apply ty_eqb_eq in H2; split; assumption).
      + apply andb_prop in H. destruct H as [Ha Hb]. destruct (IHe1 Ha) as [Hp1 Hi1]. destruct (IHe2 Hb) as [Hp2 Hi2].
        split; [|reflexivity]. cbn [LowerSem.wt_pure LowerSem.is_int_only]. rewrite Hp1, Hp2, Hi1, Hi2. reflexivity.
      + apply andb_prop in H. destruct H as [Ha Hb]. destruct (IHe1 Ha) as [Hp1 Hi1]. destruct (IHe2 Hb) as [Hp2 Hi2].
        split; [|reflexivity]. cbn [LowerSem.wt_pure LowerSem.is_int_only]. rewrite Hp1, Hp2, Hi1, Hi2. reflexivity.
  Qed.

  Lemma cond_bin_inv te m a op b r : cond_s te m (EBin a op b) = Ok r ->
    exists av bv rv, eval_s te m a = Ok av /\ eval_s te m b = Ok bv /\ binop_eval T op av bv = Ok rv /\ truthy rv = Ok r.
  Proof.
    unfold cond_s. rewrite eval_s_bin.
    destruct (eval_s te m a) as [av| | |]; cbn [obind]; try discriminate.
    destruct (eval_s te m b) as [bv| | |]; cbn [obind]; try discriminate.
    destruct (binop_eval T op av bv) as [rv| | |] eqn:E; cbn [obind]; try discriminate.
    intros H. exists av, bv, rv. auto.
  Qed.
  Lemma cond_bin_intro te m a op b av bv rv r : eval_s te m a = Ok av -> eval_s te m b = Ok bv ->
    binop_eval T op av bv = Ok rv -> truthy rv = Ok r -> cond_s te m (EBin a op b) = Ok r.
  Proof. intros Ha Hb Hr Ht. unfold cond_s. rewrite eval_s_bin, Ha, Hb. cbn [obind]. rewrite Hr. cbn [obind]. exact Ht. Qed.

  (* the instruction(s) that finally test and jump *)
  Lemma leaf_condjmp (H2 : T_ok2) s m k a op b la ta lb tb l jt code s' r :
    is_comparison op = true ->
    match (match k with KwIf => Some op | KwUnless => negate_comparison op end) with
    | None => Panic P_EXPECT
    | Some op' => condjmp_intrinsic avail time mask la ta op' lb tb l jt s
    end = Ok (code, s') ->
    read_arg m la = eval_s (te s) m a -> read_arg m lb = eval_s (te s) m b ->
    (forall av bv, eval_s (te s) m a = Ok av -> eval_s (te s) m b = Ok bv -> notnan av /\ notnan bv) ->
    cond_s (te s) m (EBin a op b) = Ok r ->
    (forall rest cmp, exists cmp', run_fwd (code ++ rest) Exec m cmp =
        run_fwd rest (if xorb r (is_unless k) then Seek l jt else Exec) m cmp') /\ s' = s.
  Proof.
    intros Hcmp Hl Ha Hb Hnn Hs.
    destruct (cond_bin_inv _ _ _ _ _ _ Hs) as [av [bv [rv [Hav [Hbv [Hr Ht]]]]]].
    destruct (Hnn av bv Hav Hbv) as [Hna Hnb].
    assert (Hop' : exists op' rv', (match k with KwIf => Some op | KwUnless => negate_comparison op end) = Some op' /\
                     binop_eval T op' av bv = Ok rv' /\ truthy rv' = Ok (xorb r (is_unless k))).
    { destruct k; cbn [is_unless].
      - exists op, rv. rewrite Bool.xorb_false_r. auto.
      - destruct (negate_comparison op) as [op'|] eqn:En; [|destruct op; discriminate].
        destruct (T_negcmp H2 op op' av bv rv r En Hna Hnb Hr Ht) as [rv' [Hr' Ht']].
        exists op', rv'. rewrite Bool.xorb_true_r. auto. }
    destruct Hop' as [op' [rv' [Eop [Hr' Ht']]]]. rewrite Eop in Hl.
    unfold condjmp_intrinsic in Hl. destruct (negb (ty_eqb ta tb)); [discriminate|].
    destruct (alt_condjmp_for avail op' ta) as [[|]|]; try discriminate.
    - unfold instr, ret in Hl. inversion Hl; subst code s'. split; [|reflexivity].
      intros rest cmp. exists cmp. cbn [app LowerSem.run_fwd LowerSem.exec_step].
      rewrite Ha, Hb, Hav, Hbv. cbn [obind]. rewrite Hr'. cbn [obind]. rewrite Ht'. cbn [obind].
      destruct (xorb r (is_unless k)); reflexivity.
    - unfold seq, instr, ret in Hl. inversion Hl; subst code s'. split; [|reflexivity].
      intros rest cmp. exists (Some (av, bv)). cbn [app LowerSem.run_fwd LowerSem.exec_step].
      rewrite Ha, Hb, Hav, Hbv. cbn [obind LowerSem.run_fwd LowerSem.exec_step]. rewrite Hr'. cbn [obind]. rewrite Ht'. cbn [obind].
      destruct (xorb r (is_unless k)); reflexivity.
  Qed.

  Lemma cond_val_int (HT : T_ok T libm) te m e v : wt_cond te e = true -> eval_s te m e = Ok v -> exists z, v = VInt z.
  Proof.
    intros Hw He. destruct (wt_cond_pure_int te e Hw) as [Hp Hi].
    pose proof (eval_ty T libm rty lty diff HT te m e v Hp He) as Hty. rewrite Hi in Hty.
    destruct v; cbn in Hty; inversion Hty. eauto.
  Qed.

  Lemma agree_wt_cond n te te' : te_agree n te te' -> forall e, locals_below n e = true -> wt_cond te' e = wt_cond te e.
  Proof.
    intros Ha. induction e; intros Hb; cbn [LowerSem.wt_cond]; try reflexivity;
      try (rewrite (agree_wt rty lty n te te' Ha _ Hb), (agree_ety rty lty n te te' Ha _ Hb); reflexivity).
    - destruct op; try (rewrite (agree_wt rty lty n te te' Ha _ Hb), (agree_ety rty lty n te te' Ha _ Hb); reflexivity).
      cbn [locals_below] in Hb. apply IHe. exact Hb.
    - assert (Hb' := Hb). cbn [locals_below] in Hb'. apply andb_prop in Hb'. destruct Hb' as [H1 H2].
      destruct op; try (rewrite (agree_wt rty lty n te te' Ha _ Hb), (agree_ety rty lty n te te' Ha _ Hb); reflexivity);
        rewrite IHe1, IHe2 by assumption; reflexivity.
  Qed.

  Lemma nonan_agree n te te' m : te_agree n te te' -> forall e, locals_below n e = true -> nonan te m e -> nonan te' m e.
  Proof.
    intros Ha. induction e; intros Hb Hn; cbn [nonan] in *; try exact I.
    - destruct op; try exact I. cbn [locals_below] in Hb. apply IHe; assumption.
    - assert (Hb' := Hb). cbn [locals_below] in Hb'. apply andb_prop in Hb'. destruct Hb' as [H1 H2].
      destruct op; try (intros av bv Hav Hbv;
        rewrite (agree_eval T libm rty lty diff n te te' m Ha _ H1) in Hav;
        rewrite (agree_eval T libm rty lty diff n te te' m Ha _ H2) in Hbv; apply Hn; assumption).
      + destruct Hn as [Hn1 Hn2]. split; [apply IHe1 | apply IHe2]; assumption.
      + destruct Hn as [Hn1 Hn2]. split; [apply IHe1 | apply IHe2]; assumption.
  Qed.

  Lemma label_eqb_refl l : label_eqb l l = true.
  Proof. apply label_eqb_eq. reflexivity. Qed.
  Lemma label_ok_neq l n k : label_ok l n -> label_eqb l (LGen k n) = false.
  Proof.
    intros H. destruct (label_eqb l (LGen k n)) eqn:E; [|reflexivity].
    apply label_eqb_eq in E. subst l. cbn in H. lia.
  Qed.
  Lemma fresh_mono m n n' : (n <= n')%nat -> fresh m n -> fresh m n'.
  Proof. intros Hn Hf d Hd. apply Hf. lia. Qed.

  Lemma cond_logic_inv (HT : T_ok T libm) (H2 : T_ok2) te m a op b b0 :
    (op = LogicAnd \/ op = LogicOr) -> wt_cond te a = true -> wt_cond te b = true ->
    cond_s te m (EBin a op b) = Ok b0 ->
    exists ta tb, cond_s te m a = Ok ta /\ cond_s te m b = Ok tb /\
                  b0 = match op with LogicAnd => ta && tb | _ => ta || tb end.
  Proof.
    intros Hop Hwa Hwb Hs. destruct (cond_bin_inv _ _ _ _ _ _ Hs) as [av [bv [rv [Hav [Hbv [Hr Ht]]]]]].
    destruct (cond_val_int HT _ _ _ _ Hwa Hav) as [za ->]. destruct (cond_val_int HT _ _ _ _ Hwb Hbv) as [zb ->].
    exists (negb (za =? 0)), (negb (zb =? 0)). unfold cond_s. rewrite Hav, Hbv. cbn [obind].
    split; [destruct za; reflexivity|]. split; [destruct zb; reflexivity|].
    destruct Hop as [-> | ->].
    - rewrite (T_land H2) in Hr. inversion Hr; subst rv. destruct (za =? 0) eqn:E; cbn in Ht |- *.
      + inversion Ht. reflexivity.
      + destruct zb; cbn in Ht |- *; inversion Ht; reflexivity.
    - rewrite (T_lor H2) in Hr. inversion Hr; subst rv. destruct (za =? 0) eqn:E; cbn in Ht |- *.
      + destruct zb; cbn in Ht |- *; inversion Ht; reflexivity.
      + destruct za; cbn in E, Ht |- *; try discriminate; inversion Ht; reflexivity.
  Qed.

  Theorem cond_sound (HT : T_ok T libm) (H2 : T_ok2) : forall f, CondIH f.
  Proof.
    pose proof (lower_sound T libm avail auto_casts rty lty diff time mask no_sigil_intrinsics HT) as HA.
    induction f as [|f IH]; intros c s code s' Hl m taken Hwf Hfr Hsem; [discriminate|].
    destruct c; try contradiction.
    - (* CCondNonCount *)
      destruct Hwf as [Hw [Hb [Hlab Hnn]]].
      cbn [taken_sem] in Hsem.
      destruct (cond_s (te s) m e) as [b0| | |] eqn:Ecs; cbn [obind] in Hsem; try discriminate.
      inversion Hsem; subst taken. clear Hsem.
      assert (Hne0 : wt_pure (te s) e = true -> ety (te s) e = TInt ->
                lower f (CCondCmp k e Ne (ELitI 0) l jt) s = Ok (code, s') ->
                (forall rest cmp, exists cmp', run_fwd (code ++ rest) Exec m cmp =
                    run_fwd rest (after (xorb b0 (is_unless k)) (CCondNonCount k e l jt)) m cmp') /\
                (g s <= g s')%nat /\ te_agree (g s) (te s) (te s')).
      { intros Hwp Hty Hl'.
        destruct (IH _ _ _ _ Hl' m (xorb b0 (is_unless k))) as [Hrun [Hg Ht]].
        - cbn [wf_cond]. split; [reflexivity|]. split; [exact Hwp|]. split; [reflexivity|]. split; [exact Hty|].
          split; [exact Hb|]. split; [reflexivity|]. split; [exact Hlab|].
          intros av bv Hav Hbv. split.
          + pose proof (eval_ty T libm rty lty diff HT _ _ _ _ Hwp Hav) as Hv. rewrite Hty in Hv. destruct av; cbn in Hv; try discriminate. exact I.
          + inversion Hbv. exact I.
        - exact Hfr.
        - cbn [taken_sem]. rewrite (cond_ne0 H2 _ _ _ _ Ecs). reflexivity.
        - split; [exact Hrun | split; assumption]. }
      assert (Hne0' : wt_pure (te s) e && ty_eqb (ety (te s) e) TInt = true ->
                (if negb (ty_eqb (ety (te s) e) TInt) then Panic P_TYPE else lower f (CCondCmp k e Ne (ELitI 0) l jt) s) = Ok (code, s') ->
                (forall rest cmp, exists cmp', run_fwd (code ++ rest) Exec m cmp =
                    run_fwd rest (after (xorb b0 (is_unless k)) (CCondNonCount k e l jt)) m cmp') /\
                (g s <= g s')%nat /\ te_agree (g s) (te s) (te s')).
      { intros Hwt Hl'. apply andb_prop in Hwt. destruct Hwt as [Hwp Hty]. rewrite Hty in Hl'. cbn [negb] in Hl'.
        apply ty_eqb_eq in Hty. apply Hne0; assumption. }
      cbn [Lower.lower] in Hl.
      destruct e; cbn [LowerSem.wt_cond] in Hw; try (cbn in Hw; discriminate); try (apply Hne0'; assumption).
      + (* EUn *)
        destruct op; try (apply Hne0'; assumption).
        (* Not *)
        destruct (cond_s_int _ _ _ _ Ecs) as [z [Hz Hb0]].
        unfold eval_s in Hz. fold (eval_s (te s) m (EUn Not e)) in Hz. rewrite eval_s_un in Hz. cbn [sigil_of_unop] in Hz.
        destruct (eval_s (te s) m e) as [bv| | |] eqn:Ebv; cbn [obind] in Hz; try discriminate.
        destruct (cond_val_int HT _ _ _ _ Hw Ebv) as [zb ->].
        rewrite (T_not H2) in Hz. cbn in Hz. inversion Hz; subst z.
        destruct (IH _ _ _ _ Hl m (xorb (negb (zb =? 0)) (is_unless (kw_negate k)))) as [Hrun [Hg Ht]].
        * cbn [wf_cond]. cbn [nonan] in Hnn. cbn [locals_below] in Hb. auto.
        * exact Hfr.
        * cbn [taken_sem]. unfold cond_s. rewrite Ebv. cbn [obind truthy]. destruct zb; reflexivity.
        * split; [|split; assumption].
          intros rest cmp. destruct (Hrun rest cmp) as [cmp' Hc]. exists cmp'. rewrite Hc.
          unfold after. cbn [target fst snd]. subst b0.
          replace (xorb (negb (b2z (zb =? 0) =? 0)) (is_unless k)) with (xorb (negb (zb =? 0)) (is_unless (kw_negate k))); [reflexivity|].
          destruct (zb =? 0), k; reflexivity.
      + (* EBin *)
        cbn [locals_below] in Hb. apply andb_prop in Hb. destruct Hb as [Hb1 Hb2].
        destruct op; cbn [is_comparison] in Hl; cbn [nonan] in Hnn;
          try (apply Hne0'; [assumption | exact Hl]);
          try (* comparisons *)
            (apply andb_prop in Hw; destruct Hw as [Hwp Hty];
             cbn [LowerSem.wt_pure] in Hwp; apply andb_prop in Hwp; destruct Hwp as [Hwp _];
             apply andb_prop in Hwp; destruct Hwp as [Hwp Hsame]; apply andb_prop in Hwp; destruct Hwp as [Hw1 Hw2];
             apply ty_eqb_eq in Hsame;
             destruct (IH _ _ _ _ Hl m (xorb b0 (is_unless k))) as [Hrun [Hg Ht]];
             [cbn [wf_cond]; repeat (split; [first [reflexivity | assumption]|]); assumption
             | exact Hfr | cbn [taken_sem]; rewrite Ecs; reflexivity | split; [exact Hrun | split; assumption]]).
        * (* LogicOr *)
          apply andb_prop in Hw. destruct Hw as [Hw1 Hw2]. destruct Hnn as [Hn1 Hn2].
          destruct (IH _ _ _ _ Hl m (xorb b0 (is_unless k))) as [Hrun [Hg Ht]];
            [cbn [wf_cond]; repeat (split; [first [right; reflexivity | assumption]|]); assumption
            | exact Hfr | cbn [taken_sem]; rewrite Ecs; reflexivity | split; [exact Hrun | split; assumption]].
        * (* LogicAnd *)
          apply andb_prop in Hw. destruct Hw as [Hw1 Hw2]. destruct Hnn as [Hn1 Hn2].
          destruct (IH _ _ _ _ Hl m (xorb b0 (is_unless k))) as [Hrun [Hg Ht]];
            [cbn [wf_cond]; repeat (split; [first [left; reflexivity | assumption]|]); assumption
            | exact Hfr | cbn [taken_sem]; rewrite Ecs; reflexivity | split; [exact Hrun | split; assumption]].
    - (* CCondCmp *)
      destruct Hwf as [Hcmp [Hwa [Hwb [Hsame [Hba [Hbb [Hlab Hnn]]]]]]].
      cbn [taken_sem] in Hsem.
      destruct (cond_s (te s) m (EBin a op b)) as [b0| | |] eqn:Ecs; cbn [obind] in Hsem; try discriminate.
      inversion Hsem; subst taken. clear Hsem.
      destruct (cond_bin_inv _ _ _ _ _ _ Ecs) as [av [bv [rv [Hav [Hbv [Hr Ht]]]]]].
      cbn [Lower.lower] in Hl.
      destruct (classify (te s) a) as [la ta | ea tmp_ty read_ty] eqn:Eca.
      + destruct (classify_simple T libm auto_casts rty lty diff (te s) m a la ta Hwa Eca) as [Hra Hta].
        destruct (classify (te s) b) as [lb tb | eb tmp_ty read_ty] eqn:Ecb.
        * destruct (classify_simple T libm auto_casts rty lty diff (te s) m b lb tb Hwb Ecb) as [Hrb Htb].
          destruct (leaf_condjmp H2 s m k a op b la ta lb tb l jt code s' b0 Hcmp Hl Hra Hrb Hnn Ecs) as [Hrun ->].
          split; [exact Hrun | split; [lia | apply te_agree_refl]].
        * destruct (classify_elab T libm auto_casts rty lty diff HT (te s) b eb tmp_ty read_ty Hwb Ecb) as [Hweb [Htmp [Hread [Huse [Hbel Hev]]]]].
          destruct (Hev m bv Hbv) as [xv [Hxv Hcast]].
          unfold alloc_temp in Hl.
          eapply (cond_bracket f (HA f) IH s eb tmp_ty read_ty (fun e => CCondCmp k a op e l jt));
            [exact Hl | exact Hweb | apply Hbel; exact Hbb | exact Hfr | exact Hxv |].
          intros s3 Hg3 Ht3.
          assert (Ea : eval_s (te s3) (update m (VLoc (g s)) xv) a = Ok av).
          { rewrite (agree_eval T libm rty lty diff (g s) (te s) (te s3) _ Ht3 a Hba).
            rewrite eval_update_indep; [exact Hav | exact Hwa | apply (below_not_uses' (g s)); [lia | exact Hba]]. }
          assert (Eb : eval_s (te s3) (update m (VLoc (g s)) xv) (read_as (mkvar (Some (sigil_of_ty tmp_ty)) (VLoc (g s))) read_ty) = Ok bv).
          { rewrite eval_read_as. cbn [v_id]. rewrite lookup_update_same, Hcast. reflexivity. }
          split.
          -- cbn [wf_cond]. split; [exact Hcmp|]. split; [rewrite (agree_wt rty lty (g s) (te s) (te s3) Ht3 a Hba); exact Hwa|].
             split; [apply wt_read_as|]. split; [rewrite ety_read_as, (agree_ety rty lty (g s) (te s) (te s3) Ht3 a Hba), Hread; exact Hsame|].
             split; [apply (locals_below_mono' (g s)); [lia | exact Hba]|].
             split; [apply below_read_as; unfold var_below; cbn; lia|].
             split; [apply (label_ok_mono l (g s)); [lia | exact Hlab]|].
             intros av' bv' Ha' Hb'. rewrite Ea in Ha'. rewrite Eb in Hb'. inversion Ha'; inversion Hb'; subst. apply (Hnn av' bv' Hav Hbv).
          -- cbn [taken_sem]. rewrite (cond_bin_intro _ _ _ _ _ _ _ _ _ Ea Eb Hr Ht). reflexivity.
      + destruct (classify_elab T libm auto_casts rty lty diff HT (te s) a ea tmp_ty read_ty Hwa Eca) as [Hwea [Htmp [Hread [Huse [Hbel Hev]]]]].
        destruct (Hev m av Hav) as [xv [Hxv Hcast]].
        unfold alloc_temp in Hl.
        eapply (cond_bracket f (HA f) IH s ea tmp_ty read_ty (fun e => CCondCmp k e op b l jt));
          [exact Hl | exact Hwea | apply Hbel; exact Hba | exact Hfr | exact Hxv |].
        intros s3 Hg3 Ht3.
        assert (Eb : eval_s (te s3) (update m (VLoc (g s)) xv) b = Ok bv).
        { rewrite (agree_eval T libm rty lty diff (g s) (te s) (te s3) _ Ht3 b Hbb).
          rewrite eval_update_indep; [exact Hbv | exact Hwb | apply (below_not_uses' (g s)); [lia | exact Hbb]]. }
        assert (Ea : eval_s (te s3) (update m (VLoc (g s)) xv) (read_as (mkvar (Some (sigil_of_ty tmp_ty)) (VLoc (g s))) read_ty) = Ok av).
        { rewrite eval_read_as. cbn [v_id]. rewrite lookup_update_same, Hcast. reflexivity. }
        split.
        * cbn [wf_cond]. split; [exact Hcmp|]. split; [apply wt_read_as|].
          split; [rewrite (agree_wt rty lty (g s) (te s) (te s3) Ht3 b Hbb); exact Hwb|].
          split; [rewrite ety_read_as, (agree_ety rty lty (g s) (te s) (te s3) Ht3 b Hbb), Hread; exact Hsame|].
          split; [apply below_read_as; unfold var_below; cbn; lia|].
          split; [apply (locals_below_mono' (g s)); [lia | exact Hbb]|].
          split; [apply (label_ok_mono l (g s)); [lia | exact Hlab]|].
          intros av' bv' Ha' Hb'. rewrite Ea in Ha'. rewrite Eb in Hb'. inversion Ha'; inversion Hb'; subst. apply (Hnn av' bv' Hav Hbv).
        * cbn [taken_sem]. rewrite (cond_bin_intro _ _ _ _ _ _ _ _ _ Ea Eb Hr Ht). reflexivity.
    - (* CCondLogic *)
      destruct Hwf as [Hop [Hwa [Hwb [Hba [Hbb [Hlab [Hna Hnb]]]]]]].
      cbn [taken_sem] in Hsem.
      destruct (cond_s (te s) m (EBin a op b)) as [b0| | |] eqn:Ecs; cbn [obind] in Hsem; try discriminate.
      inversion Hsem; subst taken. clear Hsem.
      destruct (cond_logic_inv HT H2 _ _ _ _ _ _ Hop Hwa Hwb Ecs) as [ta [tb [Hta [Htb Hb0]]]].
      cbn [Lower.lower] in Hl.
      assert (Heasy : forall (Hcase : xorb b0 (is_unless k) = (xorb ta (is_unless k)) || (xorb tb (is_unless k))),
                seq (lower f (CCondNonCount k a l jt) s) (fun s1 => lower f (CCondNonCount k b l jt) s1) = Ok (code, s') ->
                (forall rest cmp, exists cmp', run_fwd (code ++ rest) Exec m cmp =
                    run_fwd rest (after (xorb b0 (is_unless k)) (CCondLogic k a op b l jt)) m cmp') /\
                (g s <= g s')%nat /\ te_agree (g s) (te s) (te s')).
      { intros Hcase Hl'. apply seq_ok in Hl'. destruct Hl' as [c1 [s1 [c2 [H1 [H2' Hcode]]]]].
        destruct (IH _ _ _ _ H1 m (xorb ta (is_unless k))) as [Hr1 [Hg1 Ht1]];
          [cbn [wf_cond]; auto | exact Hfr | cbn [taken_sem]; rewrite Hta; reflexivity |].
        destruct (IH _ _ _ _ H2' m (xorb tb (is_unless k))) as [Hr2 [Hg2 Ht2]].
        - cbn [wf_cond]. split; [rewrite (agree_wt_cond (g s) (te s) (te s1) Ht1 b Hbb); exact Hwb|].
          split; [apply (locals_below_mono' (g s)); assumption|].
          split; [apply (label_ok_mono l (g s)); assumption|].
          apply (nonan_agree (g s) (te s) (te s1) m Ht1 b Hbb Hnb).
        - apply (fresh_mono m (g s)); assumption.
        - cbn [taken_sem]. unfold cond_s. rewrite (agree_eval T libm rty lty diff (g s) (te s) (te s1) m Ht1 b Hbb).
          fold (cond_s (te s) m b). rewrite Htb. reflexivity.
        - split; [|split; [lia | eapply te_agree_trans'; [| exact Ht1 | exact Ht2]; lia]].
          intros rest cmp. subst code. rewrite <- app_assoc.
          destruct (Hr1 (c2 ++ rest) cmp) as [cmp1 Hc1]. rewrite Hc1.
          unfold after in *. cbn [target fst snd] in *. rewrite Hcase.
          destruct (xorb ta (is_unless k)); cbn [orb].
          + exists cmp1. apply (seek_through f _ _ _ _ l jt rest m cmp1 H2');
              [apply (fresh_mono m (g s)); assumption | apply (label_ok_mono l (g s)); assumption].
          + destruct (Hr2 rest cmp1) as [cmp2 Hc2]. exists cmp2. exact Hc2. }
      assert (Hhard : forall (Hcase : xorb b0 (is_unless k) = negb (xorb ta (is_unless (kw_negate k))) && negb (xorb tb (is_unless (kw_negate k)))),
                (let '(skip, s1) := gen_label GK_SKIP s in
                 seq (lower f (CCondNonCount (kw_negate k) a skip None) s1) (fun s2 =>
                 seq (lower f (CCondNonCount (kw_negate k) b skip None) s2) (fun s3 =>
                 seq (need avail time mask KJmp (IJmp l jt) s3) (fun s4 => ret [LLabel time skip] s4)))) = Ok (code, s') ->
                (forall rest cmp, exists cmp', run_fwd (code ++ rest) Exec m cmp =
                    run_fwd rest (after (xorb b0 (is_unless k)) (CCondLogic k a op b l jt)) m cmp') /\
                (g s <= g s')%nat /\ te_agree (g s) (te s) (te s')).
      { intros Hcase Hl'. unfold gen_label in Hl'. cbn [fst snd] in Hl'.
        set (skip := LGen GK_SKIP (g s)) in *. set (s1 := mklst (S (g s)) (te s)) in *.
        apply seq_ok in Hl'. destruct Hl' as [c1 [s2 [r1 [H1 [Hl' Hc1]]]]].
        apply seq_ok in Hl'. destruct Hl' as [c2 [s3 [r2 [H2' [Hl' Hc2]]]]].
        apply seq_ok in Hl'. destruct Hl' as [c3 [s4 [r3 [H3 [H4 Hc3]]]]].
        unfold need, instr, ret in H3. destruct (avail KJmp); [|discriminate]. inversion H3; subst c3 s4. clear H3.
        unfold ret in H4. inversion H4; subst r3 s'. clear H4.
        assert (Hsk1 : label_ok skip (g s1)) by (cbn; lia).
        destruct (IH _ _ _ _ H1 m (xorb ta (is_unless (kw_negate k)))) as [Hr1 [Hg1 Ht1]].
        - cbn [wf_cond g te s1]. split; [exact Hwa|]. split; [apply (locals_below_mono' (g s)); [lia | exact Hba]|]. split; [exact Hsk1 | exact Hna].
        - apply (fresh_mono m (g s)); [cbn; lia | exact Hfr].
        - cbn [taken_sem te s1]. rewrite Hta. reflexivity.
        - cbn [g te s1] in Hg1, Ht1.
          assert (Ht1' : te_agree (g s) (te s) (te s2)).
          { intros d Hd. apply Ht1. lia. }
          destruct (IH _ _ _ _ H2' m (xorb tb (is_unless (kw_negate k)))) as [Hr2 [Hg2 Ht2]].
          + cbn [wf_cond]. split; [rewrite (agree_wt_cond (g s) (te s) (te s2) Ht1' b Hbb); exact Hwb|].
            split; [apply (locals_below_mono' (g s)); [lia | exact Hbb]|].
            split; [cbn; lia|].
            apply (nonan_agree (g s) (te s) (te s2) m Ht1' b Hbb Hnb).
          + apply (fresh_mono m (g s)); [lia | exact Hfr].
          + cbn [taken_sem]. unfold cond_s. rewrite (agree_eval T libm rty lty diff (g s) (te s) (te s2) m Ht1' b Hbb).
            fold (cond_s (te s) m b). rewrite Htb. reflexivity.
          + split; [|split; [lia | apply (te_agree_trans' (g s) (g s2) (te s) (te s2) (te s3)); [lia | exact Ht1' | exact Ht2]]].
            intros rest cmp. subst code r1 r2. rewrite <- !app_assoc.
            destruct (Hr1 (c2 ++ [LInstr time mask (IJmp l jt)] ++ [LLabel time skip] ++ rest) cmp) as [cmp1 Hc1']. rewrite Hc1'.
            unfold after in *. cbn [target fst snd] in *. rewrite Hcase.
            destruct (xorb ta (is_unless (kw_negate k))); cbn [negb andb].
            * exists cmp1.
              rewrite (seek_through f _ _ _ _ skip None _ m cmp1 H2');
                [| apply (fresh_mono m (g s)); [lia | exact Hfr] | cbn; lia].
              cbn [app LowerSem.run_fwd]. rewrite label_eqb_refl. reflexivity.
            * destruct (Hr2 ([LInstr time mask (IJmp l jt)] ++ [LLabel time skip] ++ rest) cmp1) as [cmp2 Hc2']. rewrite Hc2'.
              exists cmp2. destruct (xorb tb (is_unless (kw_negate k))); cbn [negb].
              -- cbn [app LowerSem.run_fwd]. rewrite label_eqb_refl. reflexivity.
              -- cbn [app LowerSem.run_fwd LowerSem.exec_step]. unfold skip. rewrite (label_ok_neq l (g s) GK_SKIP Hlab). reflexivity. }
      destruct Hop as [-> | ->]; destruct k; cbn [is_unless kw_negate] in *.
      + (* if (a && b) : hard *) apply Hhard; [subst b0; destruct ta, tb; reflexivity | exact Hl].
      + (* unless (a && b) : easy *) apply Heasy; [subst b0; destruct ta, tb; reflexivity | exact Hl].
      + (* if (a || b) : easy *) apply Heasy; [subst b0; destruct ta, tb; reflexivity | exact Hl].
      + (* unless (a || b) : hard *) apply Hhard; [subst b0; destruct ta, tb; reflexivity | exact Hl].
  Qed.

  (* ---- ternary assignments ---- *)
  Fixpoint nonan_t (te : tenv) (m : mem) (e : expr) : Prop :=
    match e with
    | ETern c l r => nonan te m c /\ nonan_t te m l /\ nonan_t te m r
    | _ => True
    end.

  Lemma eval_s_tern te m c l r :
    eval_s te m (ETern c l r) =
    (do cv <- eval_s te m c; match cv with VInt 0 => eval_s te m r | VInt _ => eval_s te m l | _ => Panic P_TYPE end).
  Proof. reflexivity. Qed.

  Lemma agree_wt_tern n te te' : te_agree n te te' -> forall e, locals_below n e = true -> wt_tern te' e = wt_tern te e.
  Proof.
    intros Ha. induction e; intros Hb; cbn [LowerSem.wt_tern]; try (apply (agree_wt rty lty n te te' Ha); exact Hb).
    cbn [locals_below] in Hb. apply andb_prop in Hb. destruct Hb as [Hb H3]. apply andb_prop in Hb. destruct Hb as [H1 H2].
    rewrite IHe2, IHe3 by assumption. rewrite (agree_wt_cond n te te' Ha e1 H1).
    rewrite (agree_ety rty lty n te te' Ha e2 H2), (agree_ety rty lty n te te' Ha e3 H3). reflexivity.
  Qed.

  Lemma nonan_t_agree n te te' m : te_agree n te te' -> forall e, locals_below n e = true -> nonan_t te m e -> nonan_t te' m e.
  Proof.
    intros Ha. induction e; intros Hb Hn; cbn [nonan_t] in *; try exact I.
    cbn [locals_below] in Hb. apply andb_prop in Hb. destruct Hb as [Hb H3]. apply andb_prop in Hb. destruct Hb as [H1 H2].
    destruct Hn as [Hc [Hl Hr]]. split; [apply (nonan_agree n te te' m Ha e1 H1 Hc)|]. split; [apply IHe2 | apply IHe3]; assumption.
  Qed.

  (* conditions do not depend on variables they do not mention *)
  Lemma nonan_indep te m x v : forall e, wt_cond te e = true -> uses_var x e = false -> nonan te m e -> nonan te (update m x v) e.
  Proof.
    induction e; intros Hw Hu Hn; cbn [nonan] in *; try exact I.
    - destruct op; try exact I. cbn [LowerSem.wt_cond uses_var] in *. apply IHe; assumption.
    - cbn [uses_var] in Hu. apply Bool.orb_false_elim in Hu. destruct Hu as [Hu1 Hu2].
      destruct op; cbn [LowerSem.wt_cond] in Hw;
        try (apply andb_prop in Hw; destruct Hw as [Hwp _]; cbn [LowerSem.wt_pure] in Hwp;
             apply andb_prop in Hwp; destruct Hwp as [Hwp _]; apply andb_prop in Hwp; destruct Hwp as [Hwp _];
             apply andb_prop in Hwp; destruct Hwp as [Hw1 Hw2];
             intros av bv Hav Hbv;
             rewrite (eval_update_indep T libm rty lty diff te x v e1 m Hw1 Hu1) in Hav;
             rewrite (eval_update_indep T libm rty lty diff te x v e2 m Hw2 Hu2) in Hbv; apply Hn; assumption).
      + apply andb_prop in Hw. destruct Hw as [Hw1 Hw2]. destruct Hn as [Hn1 Hn2]. split; [apply IHe1 | apply IHe2]; assumption.
      + apply andb_prop in Hw. destruct Hw as [Hw1 Hw2]. destruct Hn as [Hn1 Hn2]. split; [apply IHe1 | apply IHe2]; assumption.
  Qed.

  Definition tern_call (c : call) : option (var * expr) :=
    match c with
    | CAssignOp v None e => Some (v, e)
    | CTernary v c l r => Some (v, ETern c l r)
    | _ => None
    end.

  Definition TernIH (f : nat) : Prop :=
    forall c s code s' v e, lower f c s = Ok (code, s') -> tern_call c = Some (v, e) ->
    forall m m', wt_tern (te s) e = true -> locals_below (g s) e = true -> var_below (g s) v ->
    nonan_t (te s) m e -> fresh m (g s) -> assign_s (te s) m v None e = Ok m' ->
    (forall rest cmp, exists cmp', run_fwd (code ++ rest) Exec m cmp = run_fwd rest Exec m' cmp') /\
    (g s <= g s')%nat /\ te_agree (g s) (te s) (te s').

  Theorem tern_sound (HT : T_ok T libm) (H2 : T_ok2) : forall f, TernIH f.
  Proof.
    pose proof (lower_sound T libm avail auto_casts rty lty diff time mask no_sigil_intrinsics HT) as HA.
    pose proof (cond_sound HT H2) as HC.
    induction f as [|f IH]; intros c s code s' v e Hl Hc m m' Hw Hb Hv Hnn Hfr Hsem; [discriminate|].
    (* jump-free right-hand sides: the first theorem *)
    assert (Hpure : forall c0, wt_pure (te s) e = true -> lower (S f) c0 s = Ok (code, s') -> c0 = CAssignOp v None e ->
              (forall rest cmp, exists cmp', run_fwd (code ++ rest) Exec m cmp = run_fwd rest Exec m' cmp') /\
              (g s <= g s')%nat /\ te_agree (g s) (te s) (te s')).
    { intros c0 Hwp Hl0 ->.
      destruct (HA (S f) _ _ _ _ Hl0) with (m := m) (m' := m') as [Hr [Hg Ht]];
        [cbn [LowerSound.wf_call]; auto | exact Hfr | exact Hsem |].
      split; [|split; assumption]. intros rest cmp. exists cmp. apply run_fwd_pure. exact Hr. }
    assert (Htern : forall cnd l r, e = ETern cnd l r -> lower f (CTernary v cnd l r) s = Ok (code, s') ->
              (forall rest cmp, exists cmp', run_fwd (code ++ rest) Exec m cmp = run_fwd rest Exec m' cmp') /\
              (g s <= g s')%nat /\ te_agree (g s) (te s) (te s')).
    { intros cnd l r -> Hl0. eapply (IH (CTernary v cnd l r)); try eassumption. reflexivity. }
    destruct c; cbn [tern_call] in Hc; try discriminate.
    - (* CAssignOp v None e *)
      destruct aop; [discriminate|]. inversion Hc; subst v0 rhs. clear Hc.
      destruct e; try (eapply Hpure; [exact Hw | exact Hl | reflexivity]).
      (* ETern *)
      cbn [Lower.lower Lower.classify] in Hl. rewrite ty_eqb_refl in Hl. cbn [negb] in Hl.
      eapply Htern; [reflexivity | exact Hl].
    - (* CTernary *)
      inversion Hc; subst v0 e. clear Hc.
      rename c into cnd.
      cbn [LowerSem.wt_tern] in Hw. apply andb_prop in Hw. destruct Hw as [Hw Hsame].
      apply andb_prop in Hw. destruct Hw as [Hw Hwr]. apply andb_prop in Hw. destruct Hw as [Hwc Hwl].
      cbn [locals_below] in Hb. apply andb_prop in Hb. destruct Hb as [Hb Hbr]. apply andb_prop in Hb. destruct Hb as [Hbc Hbl].
      destruct Hnn as [Hnc [Hnl Hnr]].
      (* the source picks a branch *)
      unfold LowerSound.assign_s in Hsem. fold (eval_s (te s) m (ETern cnd l r)) in Hsem. rewrite eval_s_tern in Hsem.
      destruct (eval_s (te s) m cnd) as [cv| | |] eqn:Ecv; cbn [obind] in Hsem; try discriminate.
      destruct (cond_val_int HT _ _ _ _ Hwc Ecv) as [zc ->].
      set (tc := negb (zc =? 0)).
      assert (Hcs : cond_s (te s) m cnd = Ok tc) by (unfold cond_s; rewrite Ecv; cbn; unfold tc; destruct zc; reflexivity).
      cbn [Lower.lower] in Hl. unfold gen_label in Hl. cbn [fst snd g te] in Hl.
      set (lf := LGen GK_TERN_FALSE (g s)) in *. set (le := LGen GK_TERN_END (S (g s))) in *.
      set (s2 := mklst (S (S (g s))) (te s)) in *.
      apply seq_ok in Hl. destruct Hl as [cc [s3 [r1 [H1 [Hl Hc1]]]]].
      apply seq_ok in Hl. destruct Hl as [cl [s4 [r2 [H2' [Hl Hc2]]]]].
      apply seq_ok in Hl. destruct Hl as [cj [s5 [r3 [H3 [Hl Hc3]]]]].
      apply seq_ok in Hl. destruct Hl as [clf [s6 [r4 [H4 [Hl Hc4]]]]].
      apply seq_ok in Hl. destruct Hl as [cr [s7 [r5 [H5 [H6 Hc5]]]]].
      unfold need, instr, ret in H3. destruct (avail KJmp); [|discriminate]. inversion H3; subst cj s5. clear H3.
      unfold ret in H4. inversion H4; subst clf s6. clear H4.
      unfold ret in H6. inversion H6; subst r5 s'. clear H6.
      (* the condition *)
      destruct (HC f _ _ _ _ H1 m (xorb tc true)) as [Hrc [Hgc Htc]].
      { cbn [wf_cond g te s2]. split; [exact Hwc|]. split; [apply (locals_below_mono' (g s)); [lia | exact Hbc]|].
        split; [cbn; lia | exact Hnc]. }
      { apply (fresh_mono m (g s)); [cbn; lia | exact Hfr]. }
      { cbn [taken_sem te s2]. rewrite Hcs. reflexivity. }
      cbn [g te s2] in Hgc, Htc.
      assert (Htc' : te_agree (g s) (te s) (te s3)) by (intros d Hd; apply Htc; lia).
      (* the two branches, as assignments *)
      assert (Hbranch : forall (x : expr) cx sa sb mx, lower f (CAssignOp v None x) sa = Ok (cx, sb) ->
                (g s <= g sa)%nat -> te_agree (g s) (te s) (te sa) ->
                wt_tern (te s) x = true -> locals_below (g s) x = true -> nonan_t (te s) m x ->
                assign_s (te s) m v None x = Ok mx ->
                (forall rest cmp, exists cmp', run_fwd (cx ++ rest) Exec m cmp = run_fwd rest Exec mx cmp') /\
                (g sa <= g sb)%nat /\ te_agree (g sa) (te sa) (te sb)).
      { intros x cx sa sb mx Hlx Hga Hta Hwx Hbx Hnx Hsx.
        eapply (IH (CAssignOp v None x)); try exact Hlx; try reflexivity.
        - rewrite (agree_wt_tern (g s) (te s) (te sa) Hta x Hbx). exact Hwx.
        - apply (locals_below_mono' (g s)); assumption.
        - apply (var_below_mono' (g s)); assumption.
        - apply (nonan_t_agree (g s) (te s) (te sa) m Hta x Hbx Hnx).
        - apply (fresh_mono m (g s)); assumption.
        - unfold LowerSound.assign_s in *. rewrite (agree_eval T libm rty lty diff (g s) (te s) (te sa) m Hta x Hbx). exact Hsx. }
      (* static facts about the three pieces *)
      destruct (lower_shape avail auto_casts rty lty time mask f _ _ _ _ H2') as [Gl [_ [_ Tl]]].
      destruct (lower_shape avail auto_casts rty lty time mask f _ _ _ _ H5) as [Gr [_ [_ Tr]]].
      assert (Ht4 : te_agree (g s) (te s) (te s4)).
      { intros d Hd. rewrite Tl by lia. apply Htc'. exact Hd. }
      assert (Hfinal : (g s <= g s7)%nat /\ te_agree (g s) (te s) (te s7)).
      { split; [lia|]. intros d Hd. rewrite Tr by lia. apply Ht4. exact Hd. }
      assert (Hlf_le : label_eqb le lf = false) by reflexivity.
      subst code r1 r2 r3 r4.
      split; [|exact Hfinal].
      intros rest cmp. rewrite <- !app_assoc.
      destruct (Hrc (cl ++ [LInstr time mask (IJmp le None)] ++ [LLabel time lf] ++ cr ++ [LLabel time le] ++ rest) cmp) as [cmp1 Hc1]. rewrite Hc1.
      unfold after. cbn [target fst snd].
      destruct zc as [|pz|pz]; cbn in tc; subst tc; cbn [xorb].
      + (* condition false: skip the left branch, run the right one *)
        rewrite (seek_through f _ _ _ _ lf None _ m cmp1 H2');
          [| apply (fresh_mono m (g s)); [lia | exact Hfr] | cbn; lia].
        cbn [app LowerSem.run_fwd]. rewrite label_eqb_refl.
        assert (Hsr : assign_s (te s) m v None r = Ok m') by (unfold LowerSound.assign_s; exact Hsem).
        destruct (Hbranch r cr s4 s7 m' H5 ltac:(lia) Ht4 Hwr Hbr Hnr Hsr) as [Hrr _].
        destruct (Hrr (LLabel time le :: rest) cmp1) as [cmp2 Hc2]. rewrite Hc2. exists cmp2. reflexivity.
      + (* condition true: run the left branch, jump over the right one *)
        assert (Hsl : assign_s (te s) m v None l = Ok m') by (unfold LowerSound.assign_s; exact Hsem).
        destruct (Hbranch l cl s3 s4 m' H2' ltac:(lia) Htc' Hwl Hbl Hnl Hsl) as [Hrl _].
        destruct (Hrl ([LInstr time mask (IJmp le None)] ++ [LLabel time lf] ++ cr ++ [LLabel time le] ++ rest) cmp1) as [cmp2 Hc2]. rewrite Hc2.
        exists cmp2. cbn [app LowerSem.run_fwd LowerSem.exec_step]. rewrite Hlf_le.
        destruct (assign_s_shape T libm rty lty diff _ _ _ _ _ _ Hsl) as [rv Hm'].
        rewrite (seek_through f _ _ _ _ le None _ m' cmp2 H5).
        * cbn [app LowerSem.run_fwd]. rewrite label_eqb_refl. reflexivity.
        * subst m'. apply fresh_upd; [apply (fresh_mono m (g s)); [lia | exact Hfr]|].
          unfold var_below in Hv. destruct (v_id v); [exact I | lia].
        * cbn; lia.
      + (* condition true (negative value) *)
        assert (Hsl : assign_s (te s) m v None l = Ok m') by (unfold LowerSound.assign_s; exact Hsem).
        destruct (Hbranch l cl s3 s4 m' H2' ltac:(lia) Htc' Hwl Hbl Hnl Hsl) as [Hrl _].
        destruct (Hrl ([LInstr time mask (IJmp le None)] ++ [LLabel time lf] ++ cr ++ [LLabel time le] ++ rest) cmp1) as [cmp2 Hc2]. rewrite Hc2.
        exists cmp2. cbn [app LowerSem.run_fwd LowerSem.exec_step]. rewrite Hlf_le.
        destruct (assign_s_shape T libm rty lty diff _ _ _ _ _ _ Hsl) as [rv Hm'].
        rewrite (seek_through f _ _ _ _ le None _ m' cmp2 H5).
        * cbn [app LowerSem.run_fwd]. rewrite label_eqb_refl. reflexivity.
        * subst m'. apply fresh_upd; [apply (fresh_mono m (g s)); [lia | exact Hfr]|].
          unfold var_below in Hv. destruct (v_id v); [exact I | lia].
        * cbn; lia.
  Qed.

  (* ---- counting jumps: `if (--v) goto l`, `if (--v > 0) goto l`, and their `unless` forms ---- *)
  Definition count_taken (op : binop) (n' : Z) : bool := match op with Gt => 0 <? n' | _ => negb (n' =? 0) end.

  Theorem count_jump_sound k v op l jt s code s' m n :
    lower_count_jump avail rty lty time mask k v op l jt s = Ok (code, s') ->
    label_ok l (g s) ->
    eval_s (te s) m (var_expr v) = Ok (VInt n) ->
    forall rest cmp, run_fwd (code ++ rest) Exec m cmp =
      run_fwd rest (if xorb (count_taken op (wrap32 (n - 1))) (is_unless k) then Seek l jt else Exec)
              (update m (v_id v) (VInt (wrap32 (n - 1)))) cmp.
  Proof.
    unfold lower_count_jump. intros Hl Hlab Hv rest cmp.
    set (m' := update m (v_id v) (VInt (wrap32 (n - 1)))).
    set (taken := xorb (count_taken op (wrap32 (n - 1))) (is_unless k)).
    destruct (negb (avail (KCountJmp op))); [discriminate|].
    unfold var_arg in Hl. destruct (negb (ty_eqb (var_read_ty rty lty (te s) v) TInt)) eqn:Ety; [discriminate|].
    assert (Hread : read_arg m (TVar (var_read_ty rty lty (te s) v) (v_id v)) = Ok (VInt n)).
    { rewrite (read_dst T libm rty lty diff). exact Hv. }
    destruct k; cbn [is_unless] in taken.
    - unfold instr, ret in Hl. inversion Hl; subst code s'.
      cbn [app LowerSem.run_fwd LowerSem.exec_step]. rewrite Hread. cbn [obind LowerSem.write_arg].
      unfold taken, count_taken. rewrite Bool.xorb_false_r. fold m'.
      destruct op; try (destruct (wrap32 (n - 1) =? 0); reflexivity). destruct (0 <? wrap32 (n - 1)); reflexivity.
    - unfold gen_label in Hl. cbn [fst snd] in Hl.
      apply seq_ok in Hl. destruct Hl as [c1 [s1 [r1 [H1 [Hl Hc1]]]]].
      apply seq_ok in Hl. destruct Hl as [c2 [s2 [c3 [H2' [H3 Hc2]]]]].
      unfold instr, ret in H1. inversion H1; subst c1 s1. clear H1.
      unfold need, instr, ret in H2'. destruct (avail KJmp); [|discriminate]. inversion H2'; subst c2 s2. clear H2'.
      unfold ret in H3. inversion H3; subst c3 s'. clear H3. subst code r1.
      cbn [app LowerSem.run_fwd LowerSem.exec_step]. rewrite Hread. cbn [obind LowerSem.write_arg]. fold m'.
      unfold taken, count_taken. rewrite Bool.xorb_true_r.
      assert (Hskip : label_eqb l (LGen GK_SKIP (g s)) = false) by (apply label_ok_neq; exact Hlab).
      destruct op;
        try (destruct (wrap32 (n - 1) =? 0); cbn [negb LowerSem.run_fwd LowerSem.exec_step]; rewrite ?label_eqb_refl, ?Hskip; reflexivity).
      destruct (0 <? wrap32 (n - 1)); cbn [negb LowerSem.run_fwd LowerSem.exec_step]; rewrite ?label_eqb_refl, ?Hskip; reflexivity.
  Qed.
End Jumps.
