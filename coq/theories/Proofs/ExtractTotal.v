(* Proofs/ExtractTotal.v -- image extraction: a texture whose data length matches format and dimensions
   never panics; with the size guard an inconsistent texture is an error; without it, it panics. *)
From TV Require Import Base.I32 Model.BinScript Model.Texture Proofs.ReadTotal.
Open Scope Z_scope.

Definition cfmt_wf (c : cfmt) : bool := (0 <? cf_bpp c) && (negb (cf_ident c) || (cf_bpp c =? 4)).
Definition tbl_wf (tbl : list cfmt) : bool := forallb cfmt_wf tbl.

Lemma find_fmt_wf tbl n c : tbl_wf tbl = true -> find_fmt tbl n = Some c -> cfmt_wf c = true.
Proof.
  induction tbl as [|x t IH]; cbn [tbl_wf forallb find_fmt]; [discriminate|].
  rewrite andb_true_iff. intros [Hx Ht]. destruct (cf_num x =? n); [intros E; inversion E; subst; exact Hx|now apply IH].
Qed.

Lemma output_ok t : tex_in_range t ->
  (let ow := t_w t + t_ox t in
   let oh := t_h t + t_oy t in
   if (two32 <=? ow) || (two32 <=? oh) then Panic P_OVERFLOW
   else if USIZE <=? 4 * ow * oh then Panic P_OVERFLOW
   else if ISIZE_MAX <? 4 * ow * oh then Panic P_CAPACITY
   else if ALLOC_LIMIT <? 4 * ow * oh then Panic P_ALLOC
   else from_raw ow oh (4 * ow * oh)) = Ok tt.
Proof.
  intros (Hw & Hh & Hx & Hy & Bx & By & Ha). cbv zeta.
  set (ow := t_w t + t_ox t) in *. set (oh := t_h t + t_oy t) in *.
  assert (0 <= ow) by (unfold ow; lia). assert (0 <= oh) by (unfold oh; lia).
  unfold ALLOC_LIMIT in *.
  destruct (Z.leb_spec two32 ow) as [B1|B1]; [lia|]. destruct (Z.leb_spec two32 oh) as [B2|B2]; [lia|]. cbn [orb].
  assert (0 <= 4 * ow * oh) by nia.
  destruct (Z.leb_spec USIZE (4 * ow * oh)); [unfold USIZE in *; lia|].
  destruct (Z.ltb_spec ISIZE_MAX (4 * ow * oh)); [unfold ISIZE_MAX in *; lia|].
  destruct (Z.ltb_spec (2 ^ 31) (4 * ow * oh)); [lia|].
  unfold from_raw. destruct (Z.leb_spec (4 * ow * oh) (4 * ow * oh)); [reflexivity|lia].
Qed.

(* (1) a consistent texture is extracted, with or without the guard *)
Theorem extract_consistent_ok tbl guard t :
  tex_consistent tbl t -> tex_in_range t -> produce_image tbl guard t = Ok tt.
Proof.
  intros (c & Fc & Bp & Id & Len) R. unfold produce_image. rewrite Fc.
  destruct (Z.eqb_spec (t_len t) (cf_bpp c * t_w t * t_h t)) as [_|N]; [|contradiction]. rewrite andb_false_r.
  assert (Hwh : 0 <= t_w t * t_h t) by (destruct R as (? & ? & _); nia).
  assert (T : transcode_len c (t_len t) = Ok (4 * t_w t * t_h t)).
  { unfold transcode_len. destruct (cf_ident c) eqn:I.
    - rewrite Len, (Id eq_refl). reflexivity.
    - rewrite Len. replace (cf_bpp c * t_w t * t_h t) with ((t_w t * t_h t) * cf_bpp c) by ring.
      rewrite Z.mod_mul by lia. rewrite Z.eqb_refl, Z.div_mul by lia. f_equal. ring. }
  rewrite T. cbn [obind]. unfold from_raw at 1.
  destruct (Z.leb_spec (4 * t_w t * t_h t) (4 * t_w t * t_h t)); [|lia]. cbn [obind].
  now apply output_ok.
Qed.

(* (2) with the guard, an inconsistent texture is a diagnostic *)
Theorem extract_inconsistent_err tbl t c :
  find_fmt tbl (t_fmt t) = Some c -> t_len t <> cf_bpp c * t_w t * t_h t ->
  produce_image tbl true t = Err E_TEXSIZE.
Proof.
  intros Fc N. unfold produce_image. rewrite Fc.
  destruct (Z.eqb_spec (t_len t) (cf_bpp c * t_w t * t_h t)); [contradiction|reflexivity].
Qed.

(* (3) hence with the guard: Ok or Err for every format number, size and data length *)
Theorem extract_total_guarded tbl t :
  tbl_wf tbl = true -> tex_in_range t -> ok_or_err (produce_image tbl true t).
Proof.
  intros W R. destruct (find_fmt tbl (t_fmt t)) as [c|] eqn:Fc.
  - destruct (Z.eq_dec (t_len t) (cf_bpp c * t_w t * t_h t)) as [E|N].
    + rewrite (extract_consistent_ok tbl true t); [exact I| |exact R].
      pose proof (find_fmt_wf _ _ _ W Fc) as Wc. unfold cfmt_wf in Wc. rewrite andb_true_iff, orb_true_iff in Wc.
      destruct Wc as [P Q]. exists c. repeat split; auto. { now apply Z.ltb_lt. }
      intros Idn. destruct Q as [Q|Q]; [rewrite Idn in Q; discriminate|now apply Z.eqb_eq].
    + now rewrite (extract_inconsistent_err tbl t c Fc N).
  - unfold produce_image. rewrite Fc. exact I.
Qed.

(* (4) without the guard the two reproduced panics: a doubled width ("size error?!") and an odd data size
       (assert_eq! in ColorBytes::decode) *)
Definition tbl0 : list cfmt := [mkCF 1 4 true; mkCF 3 2 false; mkCF 5 2 false; mkCF 7 1 false].
Theorem extract_total_refuted :
  (produce_image tbl0 false (mkTex 1 4 2 16 0 0) = Panic P_EXPECT) /\
  (produce_image tbl0 false (mkTex 3 2 2 7 0 0) = Panic P_ASSERT) /\
  (produce_image tbl0 true (mkTex 1 4 2 16 0 0) = Err E_TEXSIZE) /\
  (produce_image tbl0 true (mkTex 3 2 2 7 0 0) = Err E_TEXSIZE).
Proof. repeat split; vm_compute; reflexivity. Qed.

(* unguarded, but consistent: fine (the guard only adds errors) *)
Example extract_nonvacuous : tex_consistent tbl0 (mkTex 3 2 2 8 1 1) /\ tex_in_range (mkTex 3 2 2 8 1 1) /\ tbl_wf tbl0 = true.
Proof.
  split; [|split].
  - exists (mkCF 3 2 false). cbn. split; [reflexivity|]. split; [lia|]. split; [discriminate|reflexivity].
  - unfold tex_in_range, ALLOC_LIMIT, two32. cbn. lia.
  - reflexivity.
Qed.
