(* Proofs/ExtractTotal.v -- image extraction: a texture whose data length matches format and dimensions
   never panics; with the size guard an inconsistent texture is an error; without it, it panics. *)
From TV Require Import Base.I32 Model.BinScript Model.Texture Proofs.ReadTotal.
Open Scope Z_scope.

Definition cfmt_wf (c : cfmt) : bool := (0 <? cf_bpp c) && (negb (cf_ident c) || (cf_bpp c =? 4)).
Definition tbl_wf (tbl : list cfmt) : bool := forallb cfmt_wf tbl.

Lemma find_fmt_wf tbl n c : tbl_wf tbl = true -> find_fmt tbl n = Some c -> cfmt_wf c = true.
Proof.
  induction tbl as [|x t IH]; cbn [tbl_wf forallb find_fmt]; [discriminate|].
  rewrite andb_true_iff. intros [Hx Ht]. destruct (cf_num x =? n); [intros E; inversion E; subst; exact Hx|now apply IH].
Qed.

Lemma output_ok t : tex_in_range t -> output_image None t = Ok tt.
Proof.
  intros (Hw & Hh & Hx & Hy & Bx & By & Ha). unfold output_image. cbv zeta.
  set (ow := t_w t + t_ox t) in *. set (oh := t_h t + t_oy t) in *.
  assert (0 <= ow) by (unfold ow; lia). assert (0 <= oh) by (unfold oh; lia).
  unfold ALLOC_LIMIT in *.
  destruct (Z.leb_spec two32 ow) as [B1|B1]; [lia|]. destruct (Z.leb_spec two32 oh) as [B2|B2]; [lia|]. cbn [orb].
  assert (0 <= 4 * ow * oh) by nia.
  destruct (Z.leb_spec USIZE (4 * ow * oh)); [unfold USIZE in *; lia|].
  destruct (Z.ltb_spec ISIZE_MAX (4 * ow * oh)); [unfold ISIZE_MAX in *; lia|].
  destruct (Z.ltb_spec (2 ^ 31) (4 * ow * oh)); [lia|].
  unfold from_raw. destruct (Z.leb_spec (4 * ow * oh) (4 * ow * oh)); [reflexivity|lia].
Qed.

(* with the pixel bound of fix d8a7ff5: whatever the offsets are, the padded image is produced or refused *)
Lemma output_bound_total b t : 0 <= b -> 4 * b <= ALLOC_LIMIT -> ok_or_err (output_image (Some b) t).
Proof.
  intros Hb Ha. unfold output_image. cbv zeta.
  set (ow := t_w t + t_ox t). set (oh := t_h t + t_oy t).
  destruct ((two32 <=? ow) || (two32 <=? oh) || (b <? ow * oh)) eqn:E; [exact I|].
  apply orb_false_iff in E. destruct E as [_ E]. apply Z.ltb_ge in E.
  destruct (Z.ltb_spec ALLOC_LIMIT (4 * ow * oh)); [lia|].
  unfold from_raw. destruct (Z.leb_spec (4 * ow * oh) (4 * ow * oh)); [exact I|lia].
Qed.
Lemma output_bound_ok b t : 4 * b <= ALLOC_LIMIT -> tex_dims_ok t ->
  t_w t + t_ox t < two32 -> t_h t + t_oy t < two32 -> (t_w t + t_ox t) * (t_h t + t_oy t) <= b ->
  output_image (Some b) t = Ok tt.
Proof.
  intros Ha _ B1 B2 Hp. unfold output_image. cbv zeta.
  set (ow := t_w t + t_ox t) in *. set (oh := t_h t + t_oy t) in *.
  destruct (Z.leb_spec two32 ow); [lia|]. destruct (Z.leb_spec two32 oh); [lia|]. cbn [orb].
  destruct (Z.ltb_spec b (ow * oh)); [lia|].
  destruct (Z.ltb_spec ALLOC_LIMIT (4 * ow * oh)); [lia|].
  unfold from_raw. destruct (Z.leb_spec (4 * ow * oh) (4 * ow * oh)); [reflexivity|lia].
Qed.

(* the common prefix: a consistent texture reaches the output step *)
Lemma consistent_prefix tbl guard bound t :
  tex_consistent tbl t -> 0 <= t_w t -> 0 <= t_h t -> produce_image tbl guard bound t = output_image bound t.
Proof.
  intros (c & Fc & Bp & Id & Len) Hw Hh. unfold produce_image. rewrite Fc.
  destruct (Z.eqb_spec (t_len t) (cf_bpp c * t_w t * t_h t)) as [_|N]; [|contradiction]. rewrite andb_false_r.
  assert (Hwh : 0 <= t_w t * t_h t) by nia.
  assert (T : transcode_len c (t_len t) = Ok (4 * t_w t * t_h t)).
  { unfold transcode_len. destruct (cf_ident c) eqn:I.
    - rewrite Len, (Id eq_refl). reflexivity.
    - rewrite Len. replace (cf_bpp c * t_w t * t_h t) with ((t_w t * t_h t) * cf_bpp c) by ring.
      rewrite Z.mod_mul by lia. rewrite Z.eqb_refl, Z.div_mul by lia. f_equal. ring. }
  rewrite T. cbn [obind]. unfold from_raw at 1.
  destruct (Z.leb_spec (4 * t_w t * t_h t) (4 * t_w t * t_h t)); [|lia]. reflexivity.
Qed.

(* (1) a consistent texture is extracted, with or without the guard (and, with the pixel bound, when it is within it) *)
Theorem extract_consistent_ok tbl guard t :
  tex_consistent tbl t -> tex_in_range t -> produce_image tbl guard None t = Ok tt.
Proof.
  intros C R. rewrite (consistent_prefix tbl guard None t C); [now apply output_ok | |]; destruct R as (? & ? & _); lia.
Qed.
Theorem extract_consistent_ok_bound tbl guard b t :
  4 * b <= ALLOC_LIMIT -> tex_consistent tbl t -> tex_dims_ok t ->
  t_w t + t_ox t < two32 -> t_h t + t_oy t < two32 -> (t_w t + t_ox t) * (t_h t + t_oy t) <= b ->
  produce_image tbl guard (Some b) t = Ok tt.
Proof.
  intros Ha C D B1 B2 Hp. rewrite (consistent_prefix tbl guard (Some b) t C); [now apply output_bound_ok | |]; destruct D as (? & ? & _); lia.
Qed.

(* (2) with the guard, an inconsistent texture is a diagnostic *)
Theorem extract_inconsistent_err tbl bound t c :
  find_fmt tbl (t_fmt t) = Some c -> t_len t <> cf_bpp c * t_w t * t_h t ->
  produce_image tbl true bound t = Err E_TEXSIZE.
Proof.
  intros Fc N. unfold produce_image. rewrite Fc.
  destruct (Z.eqb_spec (t_len t) (cf_bpp c * t_w t * t_h t)); [contradiction|reflexivity].
Qed.

(* (3) hence with the guard: Ok or Err for every format number, size and data length -- before fix d8a7ff5 for
   offsets whose padded image fits the address space, after it for every offset *)
Theorem extract_total_guarded tbl bound t :
  tbl_wf tbl = true -> bound_ok bound -> tex_ok_for bound t -> ok_or_err (produce_image tbl true bound t).
Proof.
  intros W Bk R. destruct (find_fmt tbl (t_fmt t)) as [c|] eqn:Fc.
  - destruct (Z.eq_dec (t_len t) (cf_bpp c * t_w t * t_h t)) as [E|N].
    + assert (C : tex_consistent tbl t).
      { pose proof (find_fmt_wf _ _ _ W Fc) as Wc. unfold cfmt_wf in Wc. rewrite andb_true_iff, orb_true_iff in Wc.
        destruct Wc as [P Q]. exists c. repeat split; auto. { now apply Z.ltb_lt. }
        intros Idn. destruct Q as [Q|Q]; [rewrite Idn in Q; discriminate|now apply Z.eqb_eq]. }
      destruct bound as [b|]; cbn [tex_ok_for bound_ok] in R, Bk.
      * rewrite (consistent_prefix tbl true (Some b) t C); [|destruct R as (? & ? & _); lia|destruct R as (? & ? & _); lia].
        destruct Bk. now apply output_bound_total.
      * rewrite (extract_consistent_ok tbl true t C R). exact I.
    + now rewrite (extract_inconsistent_err tbl bound t c Fc N).
  - unfold produce_image. rewrite Fc. exact I.
Qed.

(* the defect repaired by d8a7ff5, as a statement about the model: without the bound a large offset aborts *)
Theorem extract_offset_refuted :
  produce_image [mkCF 1 4 true] true None (mkTex 1 32 16 2048 2147483647 0) = Panic P_ALLOC /\
  produce_image [mkCF 1 4 true] true (Some 67108864) (mkTex 1 32 16 2048 2147483647 0) = Err E_TEXBOUND.
Proof. split; vm_compute; reflexivity. Qed.

(* (4) without the guard the two reproduced panics: a doubled width ("size error?!") and an odd data size
       (assert_eq! in ColorBytes::decode) *)
Definition tbl0 : list cfmt := [mkCF 1 4 true; mkCF 3 2 false; mkCF 5 2 false; mkCF 7 1 false].
Theorem extract_total_refuted :
  (produce_image tbl0 false None (mkTex 1 4 2 16 0 0) = Panic P_EXPECT) /\
  (produce_image tbl0 false None (mkTex 3 2 2 7 0 0) = Panic P_ASSERT) /\
  (produce_image tbl0 true None (mkTex 1 4 2 16 0 0) = Err E_TEXSIZE) /\
  (produce_image tbl0 true None (mkTex 3 2 2 7 0 0) = Err E_TEXSIZE).
Proof. repeat split; vm_compute; reflexivity. Qed.

(* unguarded, but consistent: fine (the guard only adds errors) *)
Example extract_nonvacuous : tex_consistent tbl0 (mkTex 3 2 2 8 1 1) /\ tex_in_range (mkTex 3 2 2 8 1 1) /\ tbl_wf tbl0 = true.
Proof.
  split; [|split].
  - exists (mkCF 3 2 false). cbn. split; [reflexivity|]. split; [lia|]. split; [discriminate|reflexivity].
  - unfold tex_in_range, ALLOC_LIMIT, two32. cbn. lia.
  - reflexivity.
Qed.
