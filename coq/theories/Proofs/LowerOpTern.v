(* Proofs/LowerOpTern.v -- compound assignment of a ternary, `v op= c ? a : b`:
   lower_assign_op elaborates the ternary into a temporary (define_temporary: RegAlloc, `tmp = c ? a : b` with its
   generated jumps), emits `v op= tmp` and frees the temporary.  Continuation-passing form over run_fwd, like
   LowerJumps.tern_sound; the temporary is computed by LowerArgsTern.temp_compute_tern, the rest is jump-free
   (LowerSound.lower_sound). *)
From TV Require Import Base.I32 Base.F32 Model.Ops Model.Expr Model.Lower Model.LowerSem
  Proofs.LowerSound Proofs.LowerShape Proofs.LowerJumps Proofs.LowerStatic Proofs.LowerArgs Proofs.LowerArgsTern.
Open Scope Z_scope.

Lemma vb_mono n n' v : (n <= n')%nat -> var_below n v -> var_below n' v.
Proof. unfold var_below. destruct (v_id v); [auto | lia]. Qed.
Lemma vb_neq n v d : var_below n v -> (n <= d)%nat -> v_id v <> VLoc d.
Proof. unfold var_below. destruct (v_id v); intros H Hd; [discriminate|]. intros E. inversion E. lia. Qed.
Lemma fresh_upd_loc lty m n d v : fresh lty m n -> (d < n)%nat -> fresh lty (update m (VLoc d) v) n.
Proof. intros Hf Hx d' Hd. cbn. destruct (Nat.eqb_spec d' d); [lia | apply Hf; assumption]. Qed.

Section OpTern.
  Variable T : optable.
  Variable libm : unop -> Z -> Z.
  Variable avail : ikind -> bool.
  Variable auto_casts : bool.
  Variable rty : Z -> ty.
  Variable lty : nat -> ty.
  Variable diff : nat.
  Variable time mask : Z.
  Hypothesis no_sigil_intrinsics : forall op t, sigil_of_unop op <> None -> avail (KUnOp op t) = false.
  Hypothesis HT : T_ok T libm.
  Hypothesis H2 : T_ok2 T libm.

  Notation ety := (ety rty lty).
  Notation wt_pure := (wt_pure rty lty).
  Notation wt_tern := (wt_tern rty lty).
  Notation lower := (lower avail auto_casts rty lty time mask).
  Notation run_pure := (run_pure T libm lty).
  Notation run_fwd := (run_fwd T libm lty).
  Notation eval_s := (eval_s T libm rty lty diff).
  Notation assign_s := (assign_s T libm rty lty diff).
  Notation nonan_t := (nonan_t T libm rty lty diff).
  Notation fresh := (fresh lty).
  Notation te_agree := (te_agree lty).

  Theorem opassign_tern_sound fuel v bop c l r s code s' m m' :
    lower fuel (CAssignOp v (Some bop) (ETern c l r)) s = Ok (code, s') ->
    wt_tern (te s) (ETern c l r) = true -> locals_below (g s) (ETern c l r) = true -> var_below (g s) v ->
    nonan_t (te s) m (ETern c l r) -> fresh m (g s) ->
    assign_s (te s) m v (Some bop) (ETern c l r) = Ok m' ->
    (forall rest cmp, exists cmp', run_fwd (code ++ rest) Exec m cmp = run_fwd rest Exec m' cmp') /\
    (g s <= g s')%nat /\ te_agree (g s) (te s) (te s').
  Proof.
    intros Hl Hw Hb Hv Hnn Hfr Hsem.
    destruct fuel as [|f]; [discriminate|].
    cbn [Lower.lower Lower.classify] in Hl.
    rewrite ty_eqb_refl in Hl. cbn [negb] in Hl. unfold alloc_temp in Hl.
    set (e := ETern c l r) in *.
    set (ty0 := ety (te s) e) in *.
    set (d := g s) in *. set (tv := mkvar (Some (sigil_of_ty ty0)) (VLoc d)) in *.
    apply seq_ok in Hl. destruct Hl as [c0 [s2 [cr [H0 [Hl Hcode]]]]].
    unfold ret in H0. inversion H0; subst c0 s2. clear H0.
    apply seq_ok in Hl. destruct Hl as [c1 [s3 [cr2 [H1 [Hl Hcode2]]]]].
    apply seq_ok in Hl. destruct Hl as [c2 [s4 [c3 [H2' [H3 Hcode3]]]]].
    unfold ret in H3. inversion H3; subst c3 s4. clear H3.
    destruct (assign_val T libm rty lty diff _ _ _ _ _ _ Hsem) as [xv Hxv].
    destruct (temp_compute_tern T libm avail auto_casts rty lty diff time mask no_sigil_intrinsics HT H2
                f s e ty0 m xv c1 s3 Hw Hb Hfr Hnn Hxv H1) as [Hr1 [Hg1 Ht1]].
    assert (Hty : vty xv = Some ty0) by (eapply (eval_ty_tern T libm rty lty diff HT); eassumption).
    destruct (assign_s_shape T libm rty lty diff _ _ _ _ _ _ Hsem) as [rv Hm'].
    assert (Hd : locs m' d = default_of (lty d)).
    { subst m'. unfold var_below in Hv. destruct (v_id v) as [r0|d0]; cbn; [apply Hfr; lia|].
      destruct (Nat.eqb_spec d d0); [lia | apply Hfr; lia]. }
    (* the jump-free rest: v op= tmp *)
    destruct (lower_sound T libm avail auto_casts rty lty diff time mask no_sigil_intrinsics HT f _ _ _ _ H2')
      with (m := update m (VLoc d) xv) (m' := update m' (VLoc d) xv) as [Hr2 [Hg2 Ht2]].
    - cbn [wf_call]. split; [apply wt_read_as | split].
      + apply below_read_as. unfold var_below. cbn. lia.
      + apply (vb_mono d); [lia | exact Hv].
    - apply fresh_upd_loc; [|lia]. intros d' Hd'. apply Hfr. fold d. lia.
    - cbn [sem_call].
      eapply assign_s_subst; [exact Hsem | apply (vb_neq d); [exact Hv | lia] | | ].
      + rewrite eval_read_as. cbn [v_id tv]. rewrite lookup_update_same. rewrite (cast_id _ _ Hty). cbn. symmetry. exact Hxv.
      + apply (eval_var_indep T libm rty lty diff 0 (te s) (te s3) d); [exact Ht1 | exact Hv | lia].
    - split; [|split].
      + intros rest cmp. subst code cr cr2.
        change (([LAlloc d ty0] ++ c1 ++ c2 ++ [LFree d]) ++ rest) with ((LAlloc d ty0 :: c1 ++ c2 ++ [LFree d]) ++ rest).
        replace ((LAlloc d ty0 :: c1 ++ c2 ++ [LFree d]) ++ rest) with ((LAlloc d ty0 :: c1) ++ (c2 ++ (LFree d :: rest)))
          by (cbn [app]; rewrite <- !app_assoc; reflexivity).
        fold d in Hr1. destruct (Hr1 (c2 ++ LFree d :: rest) cmp) as [cmp' E1]. exists cmp'. rewrite E1.
        rewrite (run_fwd_pure T libm lty c2 _ _ (LFree d :: rest) cmp' Hr2).
        cbn [LowerSem.run_fwd]. f_equal.
        rewrite update_update_same. rewrite <- Hd. apply (update_lookup_id m' (VLoc d)).
      + lia.
      + intros d' Hd'. rewrite (Ht2 d') by lia. apply Ht1. exact Hd'.
  Qed.
End OpTern.
