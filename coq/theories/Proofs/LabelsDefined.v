(* Proofs/LabelsDefined.v -- after generate_offset_labels succeeded, every label lookup performed by the
   raising passes hits a defined label; the label pass itself never panics (its indexing is in range). *)
From TV Require Import Base.I32 Model.BinScript Model.Labels Proofs.ReadTotal.
Open Scope Z_scope.

(* ---- a validated ABI has at most one 'o': "first" and "last" jump argument coincide ---- *)
Lemma last_arg_none_acc e encs : forall args acc,
  count_enc e encs = 0%nat -> (e = JOffset \/ e = JTime) -> last_arg e encs args acc = acc.
Proof.
  induction encs as [|c encs IH]; intros args acc C He; destruct args as [|a args]; cbn [last_arg]; try reflexivity.
  unfold count_enc in *. cbn [filter] in C.
  destruct He as [-> | ->]; destruct c; cbn in C; try discriminate; apply IH; auto.
Qed.

Lemma first_arg_none e encs : forall args,
  count_enc e encs = 0%nat -> (e = JOffset \/ e = JTime) -> first_arg e encs args = None.
Proof.
  induction encs as [|c encs IH]; intros args C He; destruct args as [|a args]; cbn [first_arg]; try reflexivity.
  unfold count_enc in *. cbn [filter] in C.
  destruct He as [-> | ->]; destruct c; cbn in C; try discriminate; apply IH; auto.
Qed.

Lemma first_eq_last_offset encs : forall args acc,
  (count_enc JOffset encs <= 1)%nat ->
  last_arg JOffset encs args acc = match first_arg JOffset encs args with Some a => Some a | None => acc end.
Proof.
  induction encs as [|c encs IH]; intros args acc C; destruct args as [|a args]; cbn [last_arg first_arg]; try reflexivity.
  unfold count_enc in C. cbn [filter] in C. destruct c; cbn in C.
  - (* this is the 'o' argument: none can follow *)
    assert (C0 : count_enc JOffset encs = 0%nat) by (unfold count_enc; lia).
    rewrite last_arg_none_acc; auto.
  - apply IH. exact C.
  - apply IH. exact C.
Qed.

Lemma abi_valid_offset l : abi_valid l = true -> (count_enc JOffset l <= 1)%nat.
Proof. unfold abi_valid. rewrite !andb_true_iff. intros [[H _] _]. now apply Nat.leb_le. Qed.

(* ---- the jump map contains the destination of every instruction that has one ---- *)
Lemma map_add_in o t m : exists s, assoc_z (map_add o t m) o = Some s.
Proof.
  induction m as [|[o' s] m IH]; cbn [map_add].
  - cbn. rewrite Z.eqb_refl. eauto.
  - destruct (Z.ltb_spec o o'). { cbn. rewrite Z.eqb_refl. eauto. }
    destruct (Z.eqb_spec o o'). { subst. cbn. rewrite Z.eqb_refl. eauto. }
    cbn [assoc_z]. destruct (Z.eqb_spec o o'); [contradiction|]. exact IH.
Qed.

Lemma map_add_keeps o t m k : (exists s, assoc_z m k = Some s) -> exists s, assoc_z (map_add o t m) k = Some s.
Proof.
  induction m as [|[o' s] m IH]; cbn [map_add]; intros [s0 H]. { discriminate. }
  destruct (Z.ltb_spec o o').
  { cbn [assoc_z]. destruct (k =? o); eauto. }
  destruct (Z.eqb_spec o o').
  { subst. cbn [assoc_z] in *. destruct (k =? o'); eauto. }
  cbn [assoc_z] in *. destruct (k =? o'); eauto.
Qed.

Definition has_key {A} (m : list (Z * A)) (k : Z) : Prop := exists v, assoc_z m k = Some v.

Lemma gather_jumps_keys k script : forall m m',
  gather_jumps k script m = Ok m' ->
  (forall o, has_key m o -> has_key m' o) /\
  (forall i o t, In i script -> extract_jump k i = Ok (Some (o, t)) -> has_key m' o).
Proof.
  induction script as [|i rest IH]; intros m m' H; cbn [gather_jumps] in H.
  - inversion H; subst. split; [auto|intros ? ? ? []].
  - destruct (extract_jump k i) as [j| | |] eqn:E; cbn [obind] in H; try discriminate.
    apply IH in H. destruct H as [K1 K2]. split.
    + intros o Ho. apply K1. destruct j as [[o' t']|]; [apply map_add_keeps|]; exact Ho.
    + intros i0 o t [->|Hin] E0.
      * rewrite E in E0. inversion E0; subst. apply K1. apply map_add_in.
      * eapply K2; eauto.
Qed.

(* ---- generate_offset_labels ---- *)
Lemma find_index_bound x l : forall n di, find_index x l n = Some di -> (n <= di < n + length l)%nat.
Proof.
  induction l as [|y t IH]; intros n di H; cbn [find_index] in H; [discriminate|].
  destruct (x =? y). { inversion H; subst. cbn; lia. }
  apply IH in H. cbn [length]. lia.
Qed.

Lemma gather_offsets_length sizes : forall cur, length (gather_offsets sizes cur) = S (length sizes).
Proof. induction sizes as [|s t IH]; intros cur; cbn; [reflexivity|now rewrite IH]. Qed.

Lemma last_some_nonempty {A} (l : list A) : l <> [] -> exists a, last (map Some l) None = Some a.
Proof.
  induction l as [|a t IH]; intros H; [contradiction|]. destruct t as [|b t']; cbn.
  - eauto.
  - apply IH. discriminate.
Qed.

Lemma generate_labels_spec script offsets : length offsets = S (length script) ->
  forall jumps, (jumps <> [] -> script <> []) ->
  match generate_offset_labels script offsets jumps with
  | Ok ls => forall o, has_key jumps o -> has_key ls o
  | Err _ => True
  | _ => False
  end.
Proof.
  intros L. induction jumps as [|[o targs] rest IH]; intros NE; cbn [generate_offset_labels].
  - intros o [v H]; discriminate.
  - destruct (find_index o offsets 0) as [di|] eqn:F; [|exact I].
    apply find_index_bound in F. cbn in F.
    assert (Hs : script <> []) by (apply NE; discriminate).
    assert (exists d, match nth_error script di with
                      | Some i => Ok i
                      | None => match last (map Some script) None with Some i => Ok i | None => Panic P_EXPECT end
                      end = Ok d) as [d ->].
    { destruct (nth_error script di); eauto. destruct (last_some_nonempty script Hs) as [a ->]. eauto. }
    cbn [obind]. unfold idx at 1.
    destruct (nth_error offsets di) as [noff|] eqn:En; [|apply nth_error_None in En; lia].
    cbn [obind].
    assert (exists p, match di with
                      | O => Ok (0, 0)
                      | S p => do po <- idx offsets p; do pi <- idx script p; Ok (po, ei_time pi)
                      end = Ok p) as [p ->].
    { destruct di as [|pdi]; [eauto|]. unfold idx.
      destruct (nth_error offsets pdi) eqn:E1; [|apply nth_error_None in E1; lia].
      destruct (nth_error script pdi) eqn:E2; [|apply nth_error_None in E2; lia]. cbn. eauto. }
    cbn [obind].
    assert (NE' : rest <> [] -> script <> []) by auto.
    specialize (IH NE').
    destruct (generate_offset_labels script offsets rest) as [ls| | |]; cbn [obind]; try exact I; try contradiction.
    intros k [v Hk]. cbn [assoc_z] in *. unfold has_key. cbn [assoc_z].
    destruct (k =? o); [eauto|]. apply IH. unfold has_key. eauto.
Qed.

Lemma gather_jumps_nonempty k script : forall m m', gather_jumps k script m = Ok m' -> m = [] -> m' <> [] -> script <> [].
Proof. intros m m' H -> Hm. destruct script; [cbn in H; inversion H; subst; contradiction|discriminate]. Qed.

Lemma gather_jumps_no_panic k : dl_safe k = true -> forall script m, no_panic (gather_jumps k script m) /\ gather_jumps k script m <> OutOfFuel.
Proof.
  intros D. induction script as [|i rest IH]; intros m; cbn [gather_jumps]. { split; [exact I|discriminate]. }
  unfold extract_jump. destruct (last_arg JOffset (ei_encs i) (ei_args i) None) as [bits|]; cbn [obind]; [|apply IH].
  destruct (decode_label_total k (ei_offset i) (u32 bits) D) as [o ->]. cbn [obind]. apply IH.
Qed.

(* the label pass never panics (for a language whose decode_label is total) ... *)
Theorem label_pass_total k script sizes :
  dl_safe k = true -> length sizes = length script -> ok_or_err (label_pass k script sizes).
Proof.
  intros D L. unfold label_pass.
  destruct (gather_jumps_no_panic k D script []) as [NP NF].
  destruct (gather_jumps k script []) as [jumps| | |] eqn:G; cbn [obind]; try exact I; try contradiction; try congruence.
  pose proof (generate_labels_spec script (gather_offsets sizes 0)
                ltac:(rewrite gather_offsets_length; congruence) jumps
                (fun H => gather_jumps_nonempty k script [] jumps G eq_refl H)) as S.
  destruct (generate_offset_labels script (gather_offsets sizes 0) jumps); auto.
Qed.

(* ... and when it succeeds, every later lookup of a jump destination finds its label *)
Theorem labels_defined k script sizes ls :
  length sizes = length script ->
  (forall i, In i script -> abi_valid (ei_encs i) = true) ->
  label_pass k script sizes = Ok ls ->
  forall i, In i script -> ok_or_err (lookup_jump_label k ls i) /\ lookup_jump_label k ls i <> Panic P_INDEX.
Proof.
  intros L V H i Hin. unfold label_pass in H.
  destruct (gather_jumps k script []) as [jumps| | |] eqn:G; cbn [obind] in H; try discriminate.
  pose proof (generate_labels_spec script (gather_offsets sizes 0)
                ltac:(rewrite gather_offsets_length; congruence) jumps
                (fun Hn => gather_jumps_nonempty k script [] jumps G eq_refl Hn)) as S.
  rewrite H in S.
  destruct (gather_jumps_keys k script [] jumps G) as [_ K].
  unfold lookup_jump_label.
  destruct (first_arg JOffset (ei_encs i) (ei_args i)) as [bits|] eqn:F; [|split; [exact I|discriminate]].
  (* the fold of extract_jump sees the same argument *)
  assert (E : last_arg JOffset (ei_encs i) (ei_args i) None = Some bits).
  { rewrite first_eq_last_offset by (apply abi_valid_offset, V, Hin). now rewrite F. }
  (* gather_jumps succeeded, so decode_label of this instruction did *)
  assert (exists o, decode_label k (ei_offset i) (u32 bits) = Ok o) as [o Ho].
  { clear - G Hin E. revert G. generalize (@nil (Z * list (option Z))). induction script as [|j rest IH]; intros m G; [destruct Hin|].
    cbn [gather_jumps] in G. destruct (extract_jump k j) as [x| | |] eqn:X; cbn [obind] in G; try discriminate.
    destruct Hin as [->|Hin]; [|eapply IH; eauto].
    unfold extract_jump in X. rewrite E in X. destruct (decode_label k (ei_offset i) (u32 bits)); cbn in X; try discriminate. eauto. }
  rewrite Ho. cbn [obind].
  assert (X : extract_jump k i = Ok (Some (o, last_arg JTime (ei_encs i) (ei_args i) None))).
  { unfold extract_jump. rewrite E, Ho. reflexivity. }
  destruct (S o (K i o _ Hin X)) as [l ->]. split; [exact I|discriminate].
Qed.

Theorem lookups_total k script sizes :
  dl_safe k = true -> length sizes = length script ->
  (forall i, In i script -> abi_valid (ei_encs i) = true) ->
  ok_or_err (label_pass_and_lookups k script sizes).
Proof.
  intros D L V. unfold label_pass_and_lookups.
  pose proof (label_pass_total k script sizes D L) as T.
  destruct (label_pass k script sizes) as [ls| | |] eqn:P; cbn [obind]; try exact I; try contradiction.
  pose proof (labels_defined k script sizes ls L V P) as LD.
  assert (forall sub, (forall i, In i sub -> In i script) -> ok_or_err (lookups k ls sub)) as HH.
  { induction sub as [|i rest IH]; intros Sub; cbn [lookups]; [exact I|].
    destruct (LD i (Sub i (or_introl eq_refl))) as [OE _].
    destruct (lookup_jump_label k ls i); cbn [obind]; try exact I; try contradiction.
    apply IH. intros j Hj. apply Sub. now right. }
  apply HH. auto.
Qed.

(* without the validation the lookup can miss: two 'o' arguments, the map is built from the last, the
   intrinsic from the first *)
Lemma labels_undefined_without_validation :
  let i := mkEI 0 0 [JOffset; JOffset] [8; 0] in
  abi_valid (ei_encs i) = false /\
  label_pass_and_lookups DL_abs [i] [8] = Panic P_INDEX.
Proof. split; vm_compute; reflexivity. Qed.

(* the u32 multiplication of the TH06-TH09 STD hooks: a jump index of 0x10000000 *)
Lemma label_pass_mul20_refuted :
  label_pass DL_mul20_u32 [mkEI 0 0 [JOffset; JTime; JOther] [268435456; 0; 0]] [20] = Panic P_OVERFLOW.
Proof. vm_compute. reflexivity. Qed.
