(* Proofs/ConstVm.v -- the compile-time const evaluator agrees with the run-time evaluator:
   whatever value the DFS evaluator (Evaluator::_const_eval) gives a const expression, the VM's
   evaluator (AstVm::eval over the const cache) gives the same expression; in particular every
   cached const value is what its defining expression evaluates to at run time, whatever the order
   in which the consts were declared or reached. *)
From TV Require Import Base.I32 Base.F32 Model.Ops Model.Expr Gen.OpTable Proofs.ConstDfs.
Open Scope Z_scope.

Section ConstVm.
  Variable T : optable.
  Variable libm : unop -> Z -> Z.
  Variable defs : nat -> option expr.
  Variable cs : nat -> option value.

  Notation ceval := (ceval T libm defs).

  (* sigil operators, where the const evaluator can evaluate them, are the sigil casts *)
  Hypothesis Hsig : forall op sg v r, sigil_of_unop op = Some sg ->
    unop_eval libm T op v = Ok (Some r) -> cast_by_sigil (Some sg) v = Some r.

  (* the cache holds the value of every const the DFS can evaluate *)
  Definition cache_complete : Prop :=
    forall f st id d v, defs id = Some d -> ceval f (id :: st) d = Ok v -> cs id = Some v.

  Theorem ceval_agrees_with_eval (Hc : cache_complete) regs locals diff :
    forall f st e v, ceval f st e = Ok v -> eval T libm regs locals cs diff e = Ok v.
  Proof.
    induction f as [|f IH]; intros st e v H; [discriminate|].
    destruct e; cbn [Expr.ceval] in H; cbn [Expr.eval]; try discriminate; try exact H.
    - (* EVar *)
      destruct (on_stack id st); [discriminate|].
      destruct (defs id) as [d|] eqn:Ed; [|discriminate].
      destruct (Expr.ceval T libm defs f (id :: st) d) as [v'| | |] eqn:Ev; cbn [obind] in H; try discriminate.
      rewrite (Hc f st id d v' Ed Ev). exact H.
    - (* EEnum *)
      destruct (on_stack id st); [discriminate|].
      destruct (defs id) as [d|] eqn:Ed; [|discriminate].
      rewrite (Hc f st id d v Ed H). reflexivity.
    - (* EUn *)
      destruct (Expr.ceval T libm defs f st e) as [bv| | |] eqn:Eb; cbn [obind] in H; try discriminate.
      rewrite (IH st e bv Eb). cbn [obind].
      destruct (unop_eval libm T op bv) as [[r|]| | |] eqn:Eu; cbn [obind] in H; try discriminate.
      inversion H; subst r.
      destruct (sigil_of_unop op) as [sg|] eqn:Es.
      + rewrite (Hsig op sg bv v Es Eu). reflexivity.
      + reflexivity.
    - (* EBin *)
      destruct (Expr.ceval T libm defs f st e1) as [av| | |] eqn:Ea; cbn [obind] in H; try discriminate.
      destruct (Expr.ceval T libm defs f st e2) as [bv| | |] eqn:Eb; cbn [obind] in H; try discriminate.
      rewrite (IH st e1 av Ea), (IH st e2 bv Eb). cbn [obind].
      destruct (undefined_binop op bv); [discriminate | exact H].
    - (* ETern *)
      destruct (Expr.ceval T libm defs f st e1) as [cv| | |] eqn:Ec; cbn [obind] in H; try discriminate.
      destruct (Expr.ceval T libm defs f st e2) as [lv| | |] eqn:El; cbn [obind] in H; try discriminate.
      destruct (Expr.ceval T libm defs f st e3) as [rv| | |] eqn:Er; cbn [obind] in H; try discriminate.
      rewrite (IH st e1 cv Ec). cbn [obind].
      destruct cv as [z|x|s0]; try discriminate. destruct z; inversion H; subst.
      + apply (IH st e3 v Er).
      + apply (IH st e2 v El).
      + apply (IH st e2 v El).
  Qed.
End ConstVm.

(* the cache built by do_deferred_evaluations is complete *)
Section Cache.
  Variable T : optable.
  Variable libm : unop -> Z -> Z.
  Variable dl : list (nat * expr).
  Hypothesis Hnd : NoDup (map fst dl).

  Notation defs := (assoc dl).
  Notation ceval := (ceval T libm defs).

  Lemma assoc_some_in {A} (l : list (nat * A)) k v : assoc l k = Some v -> In k (map fst l).
  Proof.
    induction l as [|[k' v'] l IH]; cbn; [discriminate|]. destruct (Nat.eqb_spec k k'); [left; congruence|].
    intros H. right. apply IH. exact H.
  Qed.

  Lemma ceval_var_unfold f id d : defs id = Some d ->
    ceval (S f) [] (EVar None id) = (do v <- ceval f [id] d; expect (cast_by_sigil None v)).
  Proof. intros Hd. cbn [Expr.ceval on_stack existsb]. rewrite Hd. reflexivity. Qed.

  Theorem deferred_cache_complete fuel cache :
    eval_deferred T libm defs fuel (map fst dl) [] = Ok cache ->
    cache_complete T libm defs (assoc cache).
  Proof.
    intros He f st id d v Hd Hv.
    pose proof (eval_deferred_spec T libm defs fuel (map fst dl) []) as S. rewrite He in S.
    destruct S as [Hall [vs [Hout [Hk Hvs]]]]. rewrite app_nil_r in Hout. subst cache.
    assert (Hin : In id (map fst dl)) by (eapply assoc_some_in; exact Hd).
    destruct (Hall id Hin) as [w Hw].
    (* the cached value is w *)
    assert (Hnd' : NoDup (map fst vs)) by (rewrite Hk; apply NoDup_rev; exact Hnd).
    assert (Hinv : In id (map fst vs)) by (rewrite Hk, <- in_rev; exact Hin).
    apply in_map_iff in Hinv. destruct Hinv as [[id' w'] [Eid Hiw]]. cbn in Eid. subst id'.
    rewrite (assoc_in_nodup vs id w' Hnd' Hiw). f_equal.
    pose proof (Hvs id w' Hiw) as Hw'.
    (* both w' and v are the value of the const at large fuel *)
    assert (Hv0 : ceval f [id] d = Ok v).
    { apply (ceval_stack_irrelevant T libm defs f (id :: st) d v Hv). intros x [Hx|[]]. left. exact Hx. }
    assert (Hbig : ceval (S (Nat.max f fuel)) [] (EVar None id) = Ok v).
    { rewrite (ceval_var_unfold _ id d Hd).
      rewrite (ceval_fuel_mono T libm defs f [id] d) by (try (rewrite Hv0; discriminate); lia).
      rewrite Hv0. reflexivity. }
    assert (Hbig' : ceval (S (Nat.max f fuel)) [] (EVar None id) = Ok w').
    { rewrite (ceval_fuel_mono T libm defs fuel [] (EVar None id)) by (try (rewrite Hw'; discriminate); lia). exact Hw'. }
    congruence.
  Qed.
End Cache.

(* instantiated with the operator table read from the source *)
Lemma gen_sigil_ops libm : forall op sg v r, sigil_of_unop op = Some sg ->
  unop_eval libm gen_optable op v = Ok (Some r) -> cast_by_sigil (Some sg) v = Some r.
Proof.
  intros op sg v r Hs Hu. destruct op; cbn in Hs; try discriminate; inversion Hs; subst sg;
    destruct v; cbn in Hu; try discriminate; inversion Hu; reflexivity.
Qed.

Theorem const_cache_agrees_with_vm : forall libm fuel (dl : list (nat * expr)) cache,
  NoDup (map fst dl) ->
  eval_deferred gen_optable libm (assoc dl) fuel (map fst dl) [] = Ok cache ->
  (* every const expression that the compile-time evaluator can evaluate ... *)
  (forall f st e v regs locals diff, ceval gen_optable libm (assoc dl) f st e = Ok v ->
     eval gen_optable libm regs locals (assoc cache) diff e = Ok v) /\
  (* ... in particular every cached const: its definition evaluates, at run time, to the cached value *)
  (forall id d v regs locals diff, In (id, d) dl -> assoc cache id = Some v ->
     eval gen_optable libm regs locals (assoc cache) diff (EVar None id) = Ok v /\
     eval gen_optable libm regs locals (assoc cache) diff d = Ok v).
Proof.
  intros libm fuel dl cache Hnd He.
  pose proof (deferred_cache_complete gen_optable libm dl Hnd fuel cache He) as Hc.
  split.
  - intros f st e v regs locals diff H.
    exact (ceval_agrees_with_eval gen_optable libm (assoc dl) (assoc cache) (gen_sigil_ops libm) Hc regs locals diff f st e v H).
  - intros id d v regs locals diff Hin Hcv.
    split; [cbn [Expr.eval]; rewrite Hcv; reflexivity|].
    pose proof (eval_deferred_spec gen_optable libm (assoc dl) fuel (map fst dl) []) as S. rewrite He in S.
    destruct S as [Hall _].
    assert (Hd : assoc dl id = Some d) by (apply assoc_in_nodup; assumption).
    assert (Hi : In id (map fst dl)) by (apply in_map_iff; exists (id, d); split; [reflexivity | exact Hin]).
    destruct (Hall id Hi) as [w Hw].
    destruct fuel as [|fuel]; [discriminate|].
    rewrite (ceval_var_unfold gen_optable libm dl fuel id d Hd) in Hw.
    destruct (ceval gen_optable libm (assoc dl) fuel [id] d) as [w0| | |] eqn:E0; cbn [obind] in Hw; try discriminate.
    cbn in Hw. inversion Hw; subst w0.
    assert (Hcw : assoc cache id = Some w) by (eapply (Hc fuel [] id d w Hd); exact E0).
    assert (v = w) by congruence. subst w.
    exact (ceval_agrees_with_eval gen_optable libm (assoc dl) (assoc cache) (gen_sigil_ops libm) Hc regs locals diff fuel [id] d v E0).
Qed.
