(* Proofs/FmtLitRT.v -- every i32 in every IntFormat prints to text that lexes and parses back to
   the same value (after folding the sign the parser keeps as a unary minus). *)
From TV Require Import Base.I32 Model.Fmt Model.FmtLex Model.FmtParse Spec.Fmt Proofs.FmtLits Proofs.FmtLexP.
Open Scope Z_scope.

Section IntRT.
Variable pf : string -> Z.

Lemma tiers_from_atom pe tl ts e :
  punary pf pe ts = Ok (e, []) -> tiers_from tl (punary pf pe) ts = Ok (e, []).
Proof.
  intros H. induction tl as [|ops tl IH]; [exact H|].
  cbn [tiers_from]. unfold bintier. rewrite IH. reflexivity.
Qed.

Lemma parse_atom ts e :
  (forall pe, punary pf pe ts = Ok (e, [])) -> parse_tokens pf ts = Ok e.
Proof.
  intros H. unfold parse_tokens. cbn [pexpr]. unfold nocolon. rewrite (tiers_from_atom _ _ _ e) by apply H. reflexivity.
Qed.

(* the digit strings *)
Lemma digits_shape r n : radix_ok r -> 0 <= n -> all_chars (is_rdigit r) (digits r n) = true /\ digits r n <> EmptyString.
Proof. intros. apply to_digits_shape; assumption. Qed.

Lemma from_str_radix_digits r n : radix_ok r -> 0 <= n < two32 -> from_str_radix two32 r (digits r n) = Ok n.
Proof.
  intros Hr Hn. unfold from_str_radix.
  destruct (digits_shape r n Hr) as [_ Hne]; [lia|].
  destruct (digits r n) eqn:E; [congruence|]. rewrite <- E.
  rewrite digits_val_digits by assumption.
  destruct (n <? two32) eqn:El; [reflexivity|]. apply Z.ltb_ge in El. lia.
Qed.

Lemma digit_not_xb c : is_digit c = true -> is_x c = false /\ is_b c = false.
Proof. intros H. destruct c as [[] [] [] [] [] [] [] []]; cbn in *; try discriminate; split; reflexivity. Qed.

Lemma parse_int_text_digits s : all_chars is_digit s = true ->
  parse_int_text s = (do v <- from_str_radix two32 10 s; Ok (wrap32 v)).
Proof.
  intros Hall. destruct s as [|a [|b t]]; try reflexivity.
  - unfold parse_int_text. destruct a as [[] [] [] [] [] [] [] []]; reflexivity.
  - assert (Hb : is_digit b = true).
    { cbn in Hall. apply andb_true_iff in Hall as [_ Hall]. apply andb_true_iff in Hall as [Hall _]. exact Hall. }
    destruct (digit_not_xb b Hb) as [Hx Hbb].
    unfold parse_int_text.
    destruct a as [[] [] [] [] [] [] [] []]; try reflexivity.
    rewrite Hx, Hbb. reflexivity.
Qed.

Lemma parse_int_dec n : 0 <= n < two32 -> parse_int_text (digits 10 n) = Ok (wrap32 n).
Proof.
  intros Hn.
  assert (Hr : radix_ok 10) by (right; left; reflexivity).
  destruct (digits_shape 10 n Hr) as [Hall _]; [lia|].
  rewrite parse_int_text_digits by (apply (all_chars_impl _ _ _ rdigit10 Hall)).
  rewrite from_str_radix_digits by assumption. reflexivity.
Qed.

Lemma parse_int_hex n : 0 <= n < two32 -> parse_int_text ("0x" ^^ digits 16 n) = Ok (wrap32 n).
Proof.
  intros Hn. unfold parse_int_text. cbn [String.append].
  change (is_x "x") with true. cbn iota.
  rewrite from_str_radix_digits; [reflexivity|right; right; reflexivity|assumption].
Qed.

Lemma parse_int_bin n : 0 <= n < two32 -> parse_int_text ("0b" ^^ digits 2 n) = Ok (wrap32 n).
Proof.
  intros Hn. unfold parse_int_text. cbn [String.append].
  change (is_x "b") with false. change (is_b "b") with true. cbn iota.
  rewrite from_str_radix_digits; [reflexivity|left; reflexivity|assumption].
Qed.

(* shapes for the lexer *)
Lemma int_shape_dec n : 0 <= n -> int_shape (digits 10 n) = true.
Proof.
  intros Hn. destruct (digits_shape 10 n) as [Hall Hne]; [right; left; reflexivity|exact Hn|].
  unfold int_shape. apply orb_true_iff. left.
  rewrite (all_chars_impl _ _ _ rdigit10 Hall), andb_true_r.
  destruct (digits 10 n); [congruence|reflexivity].
Qed.
Lemma int_shape_hex n : 0 <= n -> int_shape ("0x" ^^ digits 16 n) = true.
Proof.
  intros Hn. destruct (digits_shape 16 n) as [Hall Hne]; [right; right; reflexivity|exact Hn|].
  unfold int_shape. apply orb_true_iff. right. cbn [String.append].
  rewrite (all_chars_impl _ _ _ rdigit16 Hall), andb_true_r.
  destruct (digits 16 n); [congruence|reflexivity].
Qed.
Lemma int_shape_bin n : 0 <= n -> int_shape ("0b" ^^ digits 2 n) = true.
Proof.
  intros Hn. destruct (digits_shape 2 n) as [Hall Hne]; [left; reflexivity|exact Hn|].
  unfold int_shape. apply orb_true_iff. right. cbn [String.append].
  rewrite (all_chars_impl _ _ _ rdigit2 Hall), andb_true_r.
  destruct (digits 2 n); [congruence|reflexivity].
Qed.

(* the first character of a number is a digit, and `-` followed by a digit stays `-` *)
Lemma safe_minus_digit c : is_digit c = true -> safe (TFix "-") (Some c) = true.
Proof. intros H. destruct c as [[] [] [] [] [] [] [] []]; cbn in H; try discriminate; vm_compute; reflexivity. Qed.

Lemma nextc_digits n : 0 <= n -> exists c, nextc (digits 10 n) = Some c /\ is_digit c = true.
Proof.
  intros Hn. destruct (digits_shape 10 n) as [Hall Hne]; [right; left; reflexivity|exact Hn|].
  destruct (digits 10 n) as [|c s]; [congruence|]. exists c. split; [reflexivity|].
  cbn in Hall. apply andb_true_iff in Hall as [Hc _]. apply rdigit10. exact Hc.
Qed.

(* one unsigned literal token *)
Lemma one_int_token s v : int_shape s = true -> parse_int_text s = Ok v ->
  lex s = Ok [TInt s] /\ parse_tokens pf [TInt s] = Ok (FLitI v dec_fmt).
Proof.
  intros Hs Hp. split.
  - pose proof (lex_ok_seq [OT (TInt s)]) as H. cbn [concat_text otext otoks text] in H.
    rewrite append_nil_r in H. apply H. cbn. unfold safe_int. rewrite Hs. reflexivity.
  - apply parse_atom. intros pe. cbn. rewrite Hp. reflexivity.
Qed.

(* `-` followed by one literal token whose text starts with a digit *)
Lemma neg_int_token s v : int_shape s = true -> parse_int_text s = Ok v ->
  (exists c, nextc s = Some c /\ is_digit c = true) ->
  lex ("-" ^^ s) = Ok [TFix "-"; TInt s] /\ parse_tokens pf [TFix "-"; TInt s] = Ok (FUn "-" (FLitI v dec_fmt)).
Proof.
  intros Hs Hp (c & Hc & Hd). split.
  - pose proof (lex_ok_seq [OT (TFix "-"); OT (TInt s)]) as H. cbn [concat_text otext otoks text] in H.
    rewrite append_nil_r in H. apply H. cbn [ok_seq concat_text otext text]. rewrite append_nil_r, Hc.
    rewrite (safe_minus_digit c Hd). cbn. unfold safe_int. rewrite Hs. reflexivity.
  - apply parse_atom. intros pe. cbn. rewrite Hp. reflexivity.
Qed.


Definition rt_ok (text : string) (v : Z) : Prop :=
  exists e, parse_text pf text = Ok e /\ fold e = FLitI v dec_fmt.

Lemma rt_unsigned s n v : int_shape s = true -> parse_int_text s = Ok (wrap32 n) -> wrap32 n = v ->
  rt_ok (concat_text (flat (DSeq [DT (TInt s)]))) v.
Proof.
  intros Hs Hp Hv. destruct (one_int_token s _ Hs Hp) as [Hl Hq].
  exists (FLitI (wrap32 n) dec_fmt). split.
  - unfold parse_text. cbn [flat flat_map app concat_text otext text]. rewrite !append_nil_r, Hl. exact Hq.
  - cbn. rewrite Hv. reflexivity.
Qed.

Lemma wrap_neg v : in_i32 v -> v < 0 -> wrap32 (- wrap32 (u32 (- v))) = v.
Proof. unfold in_i32, wrap32, u32, I32_MIN, I32_MAX, two31, two32. intros. lia. Qed.

Lemma rt_signed prefix r v :
  (forall n, 0 <= n -> int_shape (prefix ^^ digits r n) = true) ->
  (forall n, 0 <= n < two32 -> parse_int_text (prefix ^^ digits r n) = Ok (wrap32 n)) ->
  (forall n, 0 <= n -> exists c, nextc (prefix ^^ digits r n) = Some c /\ is_digit c = true) ->
  in_i32 v -> rt_ok (concat_text (flat (DSeq (signed_toks prefix r v)))) v.
Proof.
  intros Hshape Hparse Hfirst Hv. unfold signed_toks.
  destruct (v <? 0) eqn:E.
  - apply Z.ltb_lt in E. pose proof (u32_range (- v)) as Hu. unfold in_u32 in Hu.
    set (s := prefix ^^ digits r (u32 (- v))).
    destruct (neg_int_token s _ (Hshape _ (proj1 Hu)) (Hparse _ Hu) (Hfirst _ (proj1 Hu))) as [Hl Hq].
    exists (FUn "-" (FLitI (wrap32 (u32 (- v))) dec_fmt)). split.
    + unfold parse_text, fx. cbn [flat flat_map app concat_text otext text]. rewrite !append_nil_r.
      fold s. rewrite Hl. exact Hq.
    + cbn. rewrite wrap_neg by assumption. reflexivity.
  - apply Z.ltb_ge in E. apply (rt_unsigned _ v).
    + apply Hshape. exact E.
    + apply Hparse. unfold in_i32, I32_MAX, two32 in *. lia.
    + apply wrap32_id. exact Hv.
Qed.

Lemma first_dec n : 0 <= n -> exists c, nextc ("" ^^ digits 10 n) = Some c /\ is_digit c = true.
Proof. apply nextc_digits. Qed.
Lemma first_0x n : 0 <= n -> exists c, nextc ("0x" ^^ digits 16 n) = Some c /\ is_digit c = true.
Proof. intros _. exists "0"%char. split; reflexivity. Qed.
Lemma first_0b n : 0 <= n -> exists c, nextc ("0b" ^^ digits 2 n) = Some c /\ is_digit c = true.
Proof. intros _. exists "0"%char. split; reflexivity. Qed.

Theorem int_literal_roundtrip : forall f v, in_i32 v -> rt_ok (print_int f v) v.
Proof.
  intros [signed r] v Hv. unfold print_int.
  pose proof (u32_range v) as Hu. unfold in_u32 in Hu.
  assert (Hsd : rt_ok (concat_text (flat (DSeq (signed_toks "" 10 v)))) v).
  { apply rt_signed; [apply int_shape_dec|apply parse_int_dec|apply first_dec|exact Hv]. }
  assert (Hux : rt_ok (concat_text (flat (DSeq [DT (TInt ("0x" ^^ digits 16 (u32 v)))]))) v).
  { apply (rt_unsigned _ (u32 v)); [apply int_shape_hex; lia|apply parse_int_hex; exact Hu|apply wrap32_u32_id; exact Hv]. }
  destruct r; destruct signed; cbn [pp_int].
  - exact Hsd.
  - apply (rt_unsigned _ (u32 v)); [apply int_shape_dec; lia|apply parse_int_dec; exact Hu|apply wrap32_u32_id; exact Hv].
  - apply rt_signed; [apply int_shape_hex|apply parse_int_hex|apply first_0x|exact Hv].
  - exact Hux.
  - apply rt_signed; [apply int_shape_bin|apply parse_int_bin|apply first_0b|exact Hv].
  - apply (rt_unsigned _ (u32 v)); [apply int_shape_bin; lia|apply parse_int_bin; exact Hu|apply wrap32_u32_id; exact Hv].
  - destruct (v =? 0) eqn:E0; [apply Z.eqb_eq in E0; subst v; exists (named "false"); split; vm_compute; reflexivity|].
    destruct (v =? 1) eqn:E1; [apply Z.eqb_eq in E1; subst v; exists (named "true"); split; vm_compute; reflexivity|].
    exact Hsd.
  - destruct (v =? 0) eqn:E0; [apply Z.eqb_eq in E0; subst v; exists (named "false"); split; vm_compute; reflexivity|].
    destruct (v =? 1) eqn:E1; [apply Z.eqb_eq in E1; subst v; exists (named "true"); split; vm_compute; reflexivity|].
    exact Hux.
Qed.


(* ---------------------------------------------------------------------------------------- *)
(* f32: Rust's shortest round-trip Display and str::parse::<f32> are hypotheses *)

Variable fd : Z -> string.
Definition float_text (a : Z) : string := let s := fd a in if has_dot s then s else s ^^ ".0".
Hypothesis fd_shape : forall a, 0 <= a < INF_BITS -> float_shape (float_text a) = true.
Hypothesis pf_fd : forall a, 0 <= a < INF_BITS -> pf (float_text a) = a.

Lemma float_first s : float_shape s = true -> exists c, nextc s = Some c /\ is_digit c = true.
Proof.
  unfold float_shape. pose proof (span_spec is_digit s) as H. destruct (span is_digit s) as [d1 r].
  destruct H as (-> & Hd & _). intros H. apply andb_true_iff in H as [H _]. apply negb_true_iff in H.
  destruct d1 as [|c d]; [discriminate|]. exists c. split; [reflexivity|].
  cbn in Hd. apply andb_true_iff in Hd. apply Hd.
Qed.

Definition frt_ok (text : string) (b : Z) : Prop :=
  exists e, parse_text pf text = Ok e /\ fold e = FLitF b.

Theorem float_bits_roundtrip : forall b, 0 <= b < two32 -> f_is_nan b = false ->
  frt_ok (concat_text (flat (DSeq (pp_float fd b)))) b.
Proof.
  intros b Hb Hnan. unfold pp_float. rewrite Hnan.
  unfold f_is_nan in Hnan. apply Z.ltb_ge in Hnan.
  assert (Habs : 0 <= f_abs b < 2147483648) by (unfold f_abs; apply Z.mod_pos_bound; lia).
  assert (Hsplit : b = f_abs b + (if f_sign b then 2147483648 else 0)).
  { unfold f_abs, f_sign, two32 in *. destruct (2147483648 <=? b) eqn:E; [apply Z.leb_le in E|apply Z.leb_gt in E]; lia. }
  destruct (f_is_inf b) eqn:Einf.
  - unfold f_is_inf in Einf. apply Z.eqb_eq in Einf.
    destruct (f_sign b) eqn:Es.
    + exists (FUn "-" (named "INF")). split; [vm_compute; reflexivity|].
      cbn. f_equal. unfold INF_BITS. lia.
    + exists (named "INF"). split; [vm_compute; reflexivity|]. cbn. f_equal. unfold INF_BITS. lia.
  - unfold f_is_inf in Einf. apply Z.eqb_neq in Einf.
    assert (Ha : 0 <= f_abs b < INF_BITS) by (unfold INF_BITS; lia).
    fold (float_text (f_abs b)). set (s := float_text (f_abs b)).
    pose proof (fd_shape _ Ha) as Hs. fold s in Hs. pose proof (pf_fd _ Ha) as Hp. fold s in Hp.
    assert (Hnn : f_is_nan (f_abs b) = false) by (unfold f_is_nan, f_abs; rewrite Z.mod_mod by lia; apply Z.ltb_ge; exact Hnan).
    destruct (f_sign b) eqn:Es.
    + exists (FUn "-" (FLitF (f_abs b))). split.
      * unfold parse_text, fx. cbn [flat flat_map app concat_text otext text]. rewrite !append_nil_r.
        pose proof (lex_ok_seq [OT (TFix "-"); OT (TFloat s)]) as Hl. cbn [concat_text otext otoks text] in Hl.
        rewrite append_nil_r in Hl. rewrite Hl.
        -- apply parse_atom. intros pe. cbn. rewrite Hp. reflexivity.
        -- cbn [ok_seq concat_text otext text]. rewrite append_nil_r.
           destruct (float_first s Hs) as (c & Hc & Hd). rewrite Hc, (safe_minus_digit c Hd).
           cbn. unfold safe_float. rewrite Hs. reflexivity.
      * cbn [fold]. cbn [String.eqb Ascii.eqb Bool.eqb]. cbn iota. cbn [fold]. unfold fold_neg. rewrite Hnn.
        assert (Hsa : f_sign (f_abs b) = false) by (unfold f_sign; apply Z.leb_gt; lia).
        rewrite Hsa. f_equal. lia.
    + exists (FLitF (f_abs b)). split.
      * unfold parse_text. cbn [flat flat_map app concat_text otext text]. rewrite !append_nil_r.
        pose proof (lex_ok_seq [OT (TFloat s)]) as Hl. cbn [concat_text otext otoks text] in Hl.
        rewrite append_nil_r in Hl. rewrite Hl.
        -- apply parse_atom. intros pe. cbn. rewrite Hp. reflexivity.
        -- cbn. unfold safe_float. rewrite Hs. reflexivity.
      * cbn [fold]. f_equal. lia.
Qed.

End IntRT.
