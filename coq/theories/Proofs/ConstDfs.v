(* Proofs/ConstDfs.v -- properties of the DFS evaluator of const definitions: more fuel never
   changes a result, a successful evaluation does not depend on the evaluation stack (hence not on
   which const it was reached from), and the set of cached values does not depend on the order in
   which the definitions are evaluated. *)
From TV Require Import Base.I32 Base.F32 Model.Ops Model.Expr.
From Coq Require Import Permutation.
Open Scope Z_scope.

Section Dfs.
  Variable T : optable.
  Variable libm : unop -> Z -> Z.
  Variable defs : nat -> option expr.

  Notation ceval := (ceval T libm defs).

  Definition final {A} (r : outcome A) : Prop := r <> OutOfFuel.

  (* a bind whose result is final has a final first component *)
  Lemma bind_final {A B} (m : outcome A) (k : A -> outcome B) :
    final (obind m k) -> final m.
  Proof. destruct m; cbn; unfold final; congruence. Qed.

  Lemma ceval_fuel_mono : forall f st e, final (ceval f st e) ->
    forall f', (f <= f')%nat -> ceval f' st e = ceval f st e.
  Proof.
    induction f as [|f IH]; intros st e Hfin f' Hle.
    - cbn in Hfin. unfold final in Hfin. congruence.
    - destruct f' as [|f']; [lia|]. assert (Hle' : (f <= f')%nat) by lia.
      destruct e; cbn [Expr.ceval] in *; try reflexivity.
      + (* EVar *)
        destruct (on_stack id st); [reflexivity|].
        destruct (defs id) as [d|]; [|reflexivity].
        pose proof (bind_final _ _ Hfin) as H1. rewrite (IH _ _ H1 _ Hle'). reflexivity.
      + (* EEnum *)
        destruct (on_stack id st); [reflexivity|].
        destruct (defs id) as [d|]; [|reflexivity].
        apply IH; assumption.
      + (* EUn *)
        pose proof (bind_final _ _ Hfin) as H1. rewrite (IH _ _ H1 _ Hle'). reflexivity.
      + (* EBin *)
        pose proof (bind_final _ _ Hfin) as H1. rewrite (IH _ _ H1 _ Hle').
        destruct (Expr.ceval T libm defs f st e1) as [av| | |]; cbn [obind] in *; try reflexivity.
        pose proof (bind_final _ _ Hfin) as H2. rewrite (IH _ _ H2 _ Hle'). reflexivity.
      + (* ETern *)
        pose proof (bind_final _ _ Hfin) as H1. rewrite (IH _ _ H1 _ Hle').
        destruct (Expr.ceval T libm defs f st e1) as [cv| | |]; cbn [obind] in *; try reflexivity.
        pose proof (bind_final _ _ Hfin) as H2. rewrite (IH _ _ H2 _ Hle').
        destruct (Expr.ceval T libm defs f st e2) as [lv| | |]; cbn [obind] in *; try reflexivity.
        pose proof (bind_final _ _ Hfin) as H3. rewrite (IH _ _ H3 _ Hle'). reflexivity.
  Qed.

  Lemma on_stack_incl id st st' : incl st' st -> on_stack id st = false -> on_stack id st' = false.
  Proof.
    unfold on_stack. intros Hi H.
    destruct (existsb (Nat.eqb id) st') eqn:E; [|reflexivity].
    apply existsb_exists in E. destruct E as [x [Hx Hx']].
    assert (existsb (Nat.eqb id) st = true) by (apply existsb_exists; exists x; split; auto).
    congruence.
  Qed.

  (* A successful evaluation never hit the cycle check, so a smaller stack gives the same value:
     the value of a const does not depend on where the DFS reached it from. *)
  Lemma ceval_stack_irrelevant : forall f st e v, ceval f st e = Ok v ->
    forall st', incl st' st -> ceval f st' e = Ok v.
  Proof.
    induction f as [|f IH]; intros st e v H st' Hi; [discriminate|].
    destruct e; cbn [Expr.ceval] in *; try assumption.
    - (* EVar *)
      destruct (on_stack id st) eqn:Eo; [discriminate|].
      rewrite (on_stack_incl _ _ _ Hi Eo).
      destruct (defs id) as [d|]; [|discriminate].
      destruct (Expr.ceval T libm defs f (id :: st) d) as [dv| | |] eqn:Ed; cbn [obind] in *; try discriminate.
      rewrite (IH _ _ _ Ed (id :: st')); [assumption|].
      intros x [->|Hx]; [left; reflexivity | right; apply Hi; assumption].
    - (* EEnum *)
      destruct (on_stack id st) eqn:Eo; [discriminate|].
      rewrite (on_stack_incl _ _ _ Hi Eo).
      destruct (defs id) as [d|]; [|discriminate].
      apply (IH _ _ _ H). intros x [->|Hx]; [left; reflexivity | right; apply Hi; assumption].
    - (* EUn *)
      destruct (Expr.ceval T libm defs f st e) as [bv| | |] eqn:Eb; cbn [obind] in *; try discriminate.
      rewrite (IH _ _ _ Eb _ Hi). assumption.
    - (* EBin *)
      destruct (Expr.ceval T libm defs f st e1) as [av| | |] eqn:Ea; cbn [obind] in *; try discriminate.
      destruct (Expr.ceval T libm defs f st e2) as [bv| | |] eqn:Eb; cbn [obind] in *; try discriminate.
      rewrite (IH _ _ _ Ea _ Hi), (IH _ _ _ Eb _ Hi). assumption.
    - (* ETern *)
      destruct (Expr.ceval T libm defs f st e1) as [cv| | |] eqn:Ec; cbn [obind] in *; try discriminate.
      destruct (Expr.ceval T libm defs f st e2) as [lv| | |] eqn:El; cbn [obind] in *; try discriminate.
      destruct (Expr.ceval T libm defs f st e3) as [rv| | |] eqn:Er; cbn [obind] in *; try discriminate.
      rewrite (IH _ _ _ Ec _ Hi), (IH _ _ _ El _ Hi), (IH _ _ _ Er _ Hi). assumption.
  Qed.

  (* eval_deferred succeeds iff every deferred const evaluates, and then caches exactly those values *)
  Lemma eval_deferred_spec : forall fuel ids acc,
    match eval_deferred T libm defs fuel ids acc with
    | Ok out => (forall id, In id ids -> exists v, ceval fuel [] (EVar None id) = Ok v) /\
                exists vs, out = vs ++ acc /\ map fst vs = rev ids /\
                           forall id v, In (id, v) vs -> ceval fuel [] (EVar None id) = Ok v
    | _ => exists id, In id ids /\ forall v, ceval fuel [] (EVar None id) <> Ok v
    end.
  Proof.
    intros fuel ids. induction ids as [|id rest IH]; intros acc; cbn [eval_deferred].
    - split; [intros ? []|]. exists []. repeat split. intros ? ? [].
    - destruct (Expr.ceval T libm defs fuel [] (EVar None id)) as [v| | |] eqn:E; cbn [obind].
      + specialize (IH ((id, v) :: acc)).
        destruct (eval_deferred T libm defs fuel rest ((id, v) :: acc)) as [out| | |].
        * destruct IH as [Hall [vs [Hout [Hk Hv]]]]. split.
          -- intros i [<-|Hi]; [exists v; assumption | apply Hall; assumption].
          -- exists (vs ++ [(id, v)]). rewrite <- app_assoc. split; [assumption|]. split.
             ++ rewrite map_app, Hk. reflexivity.
             ++ intros i w Hin. apply in_app_or in Hin. destruct Hin as [Hin|[Hin|[]]]; [apply Hv; assumption|].
                inversion Hin; subst. assumption.
        * destruct IH as [i [Hi Hn]]. exists i. split; [right; assumption | assumption].
        * destruct IH as [i [Hi Hn]]. exists i. split; [right; assumption | assumption].
        * destruct IH as [i [Hi Hn]]. exists i. split; [right; assumption | assumption].
      + exists id. split; [left; reflexivity | intros v; congruence].
      + exists id. split; [left; reflexivity | intros v; congruence].
      + exists id. split; [left; reflexivity | intros v; congruence].
  Qed.

  Lemma assoc_in_nodup {A} (l : list (nat * A)) k v :
    NoDup (map fst l) -> In (k, v) l -> assoc l k = Some v.
  Proof.
    induction l as [|[k' v'] t IH]; intros Hnd Hin; [destruct Hin|].
    cbn [assoc]. cbn [map fst] in Hnd. inversion Hnd; subst.
    destruct Hin as [Heq|Hin].
    - inversion Heq; subst. rewrite Nat.eqb_refl. reflexivity.
    - destruct (Nat.eqb_spec k k') as [->|]; [|apply IH; assumption].
      exfalso. apply H1. apply in_map_iff. exists (k', v). split; [reflexivity | assumption].
  Qed.

  Lemma assoc_not_in {A} (l : list (nat * A)) k : ~ In k (map fst l) -> assoc l k = None.
  Proof.
    induction l as [|[k' v'] t IH]; intros Hn; [reflexivity|].
    cbn [assoc]. cbn [map fst] in Hn.
    destruct (Nat.eqb_spec k k') as [->|]; [exfalso; apply Hn; left; reflexivity|].
    apply IH. intros H. apply Hn. right. assumption.
  Qed.

  (* Order independence: evaluating the deferred consts in any order gives the same cache. *)
  Theorem eval_deferred_order_independent : forall fuel ids ids' out,
    NoDup ids -> Permutation ids ids' ->
    eval_deferred T libm defs fuel ids [] = Ok out ->
    exists out', eval_deferred T libm defs fuel ids' [] = Ok out' /\
                 forall k, assoc out' k = assoc out k.
  Proof.
    intros fuel ids ids' out Hnd Hp H.
    pose proof (eval_deferred_spec fuel ids []) as S. rewrite H in S.
    destruct S as [Hall [vs [Hout [Hk Hv]]]]. rewrite app_nil_r in Hout. subst out.
    pose proof (eval_deferred_spec fuel ids' []) as S'.
    destruct (eval_deferred T libm defs fuel ids' []) as [out'| | |].
    - destruct S' as [Hall' [vs' [Hout' [Hk' Hv']]]]. rewrite app_nil_r in Hout'. subst out'.
      exists vs'. split; [reflexivity|]. intros k.
      assert (Hnd1 : NoDup (map fst vs)).
      { rewrite Hk. apply NoDup_rev. assumption. }
      assert (Hnd2 : NoDup (map fst vs')).
      { rewrite Hk'. apply NoDup_rev. eapply Permutation_NoDup; eassumption. }
      destruct (in_dec Nat.eq_dec k ids) as [Hin|Hnin].
      + destruct (Hall k Hin) as [v Hvk].
        assert (In k (map fst vs)) by (rewrite Hk; apply -> in_rev; assumption).
        assert (In k (map fst vs')) by (rewrite Hk'; apply -> in_rev; eapply Permutation_in; eassumption).
        apply in_map_iff in H0. destruct H0 as [[k1 v1] [Hf1 Hi1]]. cbn in Hf1. subst k1.
        apply in_map_iff in H1. destruct H1 as [[k2 v2] [Hf2 Hi2]]. cbn in Hf2. subst k2.
        rewrite (assoc_in_nodup _ _ _ Hnd1 Hi1), (assoc_in_nodup _ _ _ Hnd2 Hi2).
        pose proof (Hv _ _ Hi1). pose proof (Hv' _ _ Hi2). congruence.
      + rewrite !assoc_not_in; [reflexivity| |].
        * rewrite Hk. intros Hx. apply in_rev in Hx. contradiction.
        * rewrite Hk'. intros Hx. apply in_rev in Hx. apply Hnin.
          eapply Permutation_in; [apply Permutation_sym; eassumption | assumption].
    - destruct S' as [i [Hi Hn]]. exfalso.
      destruct (Hall i) as [v Hvi]; [eapply Permutation_in; [apply Permutation_sym; eassumption|assumption]|].
      apply (Hn v). assumption.
    - destruct S' as [i [Hi Hn]]. exfalso.
      destruct (Hall i) as [v Hvi]; [eapply Permutation_in; [apply Permutation_sym; eassumption|assumption]|].
      apply (Hn v). assumption.
    - destruct S' as [i [Hi Hn]]. exfalso.
      destruct (Hall i) as [v Hvi]; [eapply Permutation_in; [apply Permutation_sym; eassumption|assumption]|].
      apply (Hn v). assumption.
  Qed.

  (* a const that (transitively) refers to itself is an error, never a value *)
  Theorem self_reference_is_error : forall fuel id sg,
    defs id = Some (EVar sg id) -> forall v, ceval fuel [] (EVar None id) <> Ok v.
  Proof.
    intros fuel id sg Hd v.
    destruct fuel as [|[|f]]; cbn [Expr.ceval on_stack existsb]; try discriminate.
    - rewrite Hd. cbn. discriminate.
    - rewrite Hd. cbn [Expr.ceval on_stack existsb]. rewrite Nat.eqb_refl. cbn. discriminate.
  Qed.
End Dfs.
