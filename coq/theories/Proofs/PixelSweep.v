(* Proofs/PixelSweep.v -- C17: every pixel value of RGB_565, ARGB_4444 and GRAY_8 survives decode/encode and the
   trip through ARGB_8888 (exhaustive vm_compute over the whole finite domain of the generated table, lifted with
   forallb_forall); all 2^32 ARGB_8888 values by byte reasoning. *)
From TV Require Import Base.I32 Base.F32 Model.Pixel Gen.Pixel.
Open Scope Z_scope.

Definition T := gen_pixtable.

Fixpoint zrange (n : nat) (s : Z) : list Z := match n with O => [] | S k => s :: zrange k (s + 1) end.

Lemma zrange_In n : forall s p, s <= p < s + Z.of_nat n -> In p (zrange n s).
Proof.
  induction n as [|n IH]; intros s p H; [lia|].
  cbn [zrange]. destruct (Z.eq_dec s p); [now left|right]. apply IH. lia.
Qed.

(* ------------------------------------------------------------------------------------------ *)
(* pixels: exhaustive checks over the generated table, lifted with forallb_forall *)

Definition comps_eqb (a b : comps) : bool :=
  (red a =? red b) && (green a =? green b) && (blue a =? blue b) && (alpha a =? alpha b).

Lemma comps_eqb_eq a b : comps_eqb a b = true -> a = b.
Proof.
  destruct a, b; unfold comps_eqb; cbn. rewrite !andb_true_iff, !Z.eqb_eq. intros [[[-> ->] ->] ->]. reflexivity.
Qed.

(* decode p, encode back (lossless); and through ARGB_8888 and back (what a PNG carries) *)
Definition px_ok (f : cformat) (p : Z) : bool :=
  match dec_px T f p with
  | Ok c =>
      match enc_px T f c with Ok p' => p' =? p | _ => false end &&
      match enc8888 T c with
      | Ok q => (0 <=? q) && (q <? 2 ^ 32) && match dec8888 T q with Ok c' => comps_eqb c' c | _ => false end
      | _ => false
      end
  | _ => false
  end.

Definition px_good (f : cformat) (p : Z) : Prop :=
  exists c q, dec_px T f p = Ok c /\ enc_px T f c = Ok p /\ enc8888 T c = Ok q /\ 0 <= q < 2 ^ 32 /\ dec8888 T q = Ok c.

Lemma px_ok_good f p : px_ok f p = true -> px_good f p.
Proof.
  unfold px_ok, px_good. destruct (dec_px T f p) as [c| | |] eqn:E1; try discriminate.
  destruct (enc_px T f c) as [p'| | |] eqn:E2; try discriminate.
  destruct (enc8888 T c) as [q| | |] eqn:E3; try (rewrite andb_false_r; discriminate).
  destruct (dec8888 T q) as [c'| | |] eqn:E4; try (rewrite !andb_false_r; discriminate).
  rewrite !andb_true_iff, Z.eqb_eq, Z.leb_le, Z.ltb_lt. intros (-> & (Hq1 & Hq2) & E).
  apply comps_eqb_eq in E. subst c'. exists c, q. repeat split; auto.
Qed.

Lemma sweep_565 : forallb (px_ok Rgb565) (zrange (Z.to_nat 65536) 0) = true.
Proof. vm_cast_no_check (eq_refl true). Qed.
Lemma sweep_4444 : forallb (px_ok Argb4444) (zrange (Z.to_nat 65536) 0) = true.
Proof. vm_cast_no_check (eq_refl true). Qed.
Lemma sweep_gray : forallb (px_ok Gray8) (zrange (Z.to_nat 256) 0) = true.
Proof. vm_cast_no_check (eq_refl true). Qed.

Lemma good_565 p : 0 <= p < 65536 -> px_good Rgb565 p.
Proof. intros H. apply px_ok_good. apply (proj1 (forallb_forall _ _) sweep_565). apply zrange_In. lia. Qed.
Lemma good_4444 p : 0 <= p < 65536 -> px_good Argb4444 p.
Proof. intros H. apply px_ok_good. apply (proj1 (forallb_forall _ _) sweep_4444). apply zrange_In. lia. Qed.
Lemma good_gray p : 0 <= p < 256 -> px_good Gray8 p.
Proof. intros H. apply px_ok_good. apply (proj1 (forallb_forall _ _) sweep_gray). apply zrange_In. lia. Qed.

(* all 2^32 ARGB_8888 values, by byte reasoning *)
Lemma argb8888_lossless p : 0 <= p < 2 ^ 32 ->
  exists c, dec8888 T p = Ok c /\ enc8888 T c = Ok p /\
            0 <= red c < 256 /\ 0 <= green c < 256 /\ 0 <= blue c < 256 /\ 0 <= alpha c < 256.
Proof.
  intros H. unfold dec8888, enc8888. cbn.
  eexists. split; [reflexivity|]. cbn. unfold be_byte. cbn.
  change (2 ^ 32) with 4294967296 in H.
  change (2 ^ 24) with 16777216. change (2 ^ 16) with 65536. change (2 ^ 8) with 256. change (2 ^ 0) with 1.
  repeat split; try lia. f_equal. lia.
Qed.

Definition pixel_bound (f : cformat) : Z := 256 ^ pt_bpp T f.

Lemma good_all f p : f <> Argb8888 -> 0 <= p < pixel_bound f -> px_good f p.
Proof.
  destruct f; intros Hf H; try congruence.
  - apply good_565. exact H.
  - apply good_4444. exact H.
  - apply good_gray. exact H.
Qed.

