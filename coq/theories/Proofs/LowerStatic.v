(* Proofs/LowerStatic.v -- two static facts about everything [lower] emits, used by the whole-body
   theorem (Proofs/LowerProg.v):
   - every jump carries either no time argument or is the jump to the statement's own destination
     with the statement's own time argument, and no instruction call is emitted ([lower_instr_ok]);
   - the code contains at least one instruction or label ([lower_touches]), so the VM waits for the
     statement's time when it enters the code. *)
From TV Require Import Base.I32 Base.F32 Model.Ops Model.Expr Model.Lower Model.LowerSem Proofs.LowerSound.
Open Scope Z_scope.

Definition jump_of (i : tinstr) : option (label * option Z) :=
  match i with
  | ICondJmp _ _ _ _ l jt | ICmpJmp _ l jt | ICountJmp _ _ l jt | IJmp l jt => Some (l, jt)
  | _ => None
  end.
Definition is_call (i : tinstr) : bool := match i with ICall _ _ => true | _ => false end.

Definition instr_ok (d : option (label * option Z)) (st : lstmt) : Prop :=
  match st with
  | LInstr _ _ i =>
      is_call i = false /\
      match jump_of i with Some (l, jt) => jt = None \/ d = Some (l, jt) | None => True end
  | _ => True
  end.

Definition dest (c : call) : option (label * option Z) :=
  match c with
  | CCondNonCount _ _ l jt | CCondCmp _ _ _ _ l jt | CCondLogic _ _ _ _ l jt => Some (l, jt)
  | _ => None
  end.

Definition weak (x d : option (label * option Z)) : Prop :=
  x = d \/ x = None \/ exists l, x = Some (l, None).

Lemma instr_ok_weak x d st : weak x d -> instr_ok x st -> instr_ok d st.
Proof.
  intros W H. destruct st as [t m i| | |]; cbn [instr_ok] in *; try exact I.
  destruct H as [Hc H]. split; [exact Hc|]. destruct (jump_of i) as [[l jt]|]; [|exact I].
  destruct H as [H|H]; [left; exact H|].
  destruct W as [W|[W|[l' W]]].
  - right. rewrite <- W. exact H.
  - rewrite W in H. discriminate.
  - rewrite W in H. inversion H. left. reflexivity.
Qed.

Definition is_touch (st : lstmt) : bool := match st with LInstr _ _ _ | LLabel _ _ => true | _ => false end.
Definition touches (code : list lstmt) : Prop := existsb is_touch code = true.

Lemma touches_app_l a b : touches a -> touches (a ++ b).
Proof. unfold touches. rewrite existsb_app. intros ->. reflexivity. Qed.
Lemma touches_app_r a b : touches b -> touches (a ++ b).
Proof. unfold touches. rewrite existsb_app. intros ->. apply Bool.orb_true_r. Qed.

Section Static.
  Variable avail : ikind -> bool.
  Variable auto_casts : bool.
  Variable rty : Z -> ty.
  Variable lty : nat -> ty.
  Variable time mask : Z.
  Notation lower := (lower avail auto_casts rty lty time mask).

  (* ---------------- instr_ok ---------------- *)
  Lemma seq_ok_all d (a : res) (k : lst -> res) code s' :
    (forall c s, a = Ok (c, s) -> Forall (instr_ok d) c) -> (forall s1 c s, k s1 = Ok (c, s) -> Forall (instr_ok d) c) ->
    seq a k = Ok (code, s') -> Forall (instr_ok d) code.
  Proof.
    intros Ha Hk H. unfold seq in H. destruct a as [[c1 s1]| | |]; try discriminate.
    destruct (k s1) as [[c2 s2]| | |] eqn:Ek; try discriminate. inversion H; subst.
    apply Forall_app. split; [eapply Ha; reflexivity | eapply Hk; exact Ek].
  Qed.

  Ltac ok1 :=
    cbn [instr_ok is_call jump_of];
    first [exact I | split; [reflexivity | first [exact I | left; reflexivity | right; reflexivity]]].
  Ltac oks := repeat (apply Forall_cons; [ok1|]); apply Forall_nil.
  Ltac leaf :=
    cbv beta in *;
    match goal with
    | H : ret _ _ = Ok _ |- _ => unfold ret in H; inversion H; subst; oks
    | H : instr _ _ _ _ = Ok _ |- _ => unfold instr, ret in H; inversion H; subst; oks
    | H : need _ _ _ _ _ _ = Ok _ |- _ => unfold need, instr, ret in H; destruct (avail _); inversion H; subst; oks
    end.
  Ltac wk := first [left; reflexivity | right; left; reflexivity | right; right; eexists; reflexivity].

  Lemma lower_instr_ok : forall f c s code s', lower f c s = Ok (code, s') -> Forall (instr_ok (dest c)) code.
  Proof.
    induction f as [|f IH]; intros c s code s' H; [discriminate|].
    assert (Hrec : forall c s code s' d, lower f c s = Ok (code, s') -> weak (dest c) d -> Forall (instr_ok d) code).
    { intros c0 s0 code0 s0' d H0 W. eapply Forall_impl; [|eapply IH; exact H0]. intros st. apply instr_ok_weak. exact W. }
    assert (Htemp : forall dd tmp_ty (s : lst) (ea : expr) (k : nat -> var -> lst -> res) code s',
              (forall d tv s1 c s2, k d tv s1 = Ok (c, s2) -> Forall (instr_ok dd) c) ->
              (let '(d, tv, s1) := alloc_temp tmp_ty s in
               seq (ret [LAlloc d tmp_ty] s1) (fun s2 => seq (lower f (CAssignOp tv None ea) s2) (fun s3 => k d tv s3))) = Ok (code, s') ->
              Forall (instr_ok dd) code).
    { intros dd tmp_ty s0 ea k code0 s0' Hk H0. unfold alloc_temp in H0.
      eapply seq_ok_all; [| | exact H0].
      - intros c1 s1 E. unfold ret in E. inversion E. oks.
      - intros s1 c1 s2 E. eapply seq_ok_all; [| | exact E].
        + intros c2 s3 E2. eapply Hrec; [exact E2 | wk].
        + intros s3 c2 s4 E2. eapply Hk. exact E2. }
    destruct c; cbn [Lower.lower dest] in H |- *.
    - (* CAssignOp *)
      destruct (classify auto_casts rty lty (te s) rhs) as [a ta|ea tmp_ty read_ty].
      + unfold assign_intrinsic in H. destruct (var_arg rty lty s v) as [dst tv].
        destruct (negb _); [discriminate|]. destruct (alt_assign_for avail aop tv) as [[|b]|]; try discriminate; leaf.
      + assert (Ht : (let '(d, tv, s1) := alloc_temp tmp_ty s in
               seq (ret [LAlloc d tmp_ty] s1) (fun s2 => seq (lower f (CAssignOp tv None ea) s2)
                 (fun s3 => seq (lower f (CAssignOp v aop (read_as tv read_ty)) s3) (fun s4 => ret [LFree d] s4)))) = Ok (code, s') ->
               Forall (instr_ok None) code).
        { intros H0. eapply (Htemp None tmp_ty s ea (fun d tv s3 => seq (lower f (CAssignOp v aop (read_as tv read_ty)) s3) (fun s4 => ret [LFree d] s4))); [|exact H0].
          intros d tv s1 c s2 E. eapply seq_ok_all; [| | exact E]; [intros; eapply Hrec; [eassumption | wk] | intros; leaf]. }
        destruct (negb _); [apply Ht; exact H|].
        destruct aop; [apply Ht; exact H|].
        destruct ea; try discriminate; (eapply Hrec; [exact H | wk]).
    - (* CBinop *)
      destruct (classify auto_casts rty lty (te s) a) as [la ta|ea tmp_ty read_ty].
      + destruct (classify auto_casts rty lty (te s) b) as [lb tb|eb tmp_ty read_ty].
        * destruct (var_arg rty lty s v) as [dst tv]. destruct (negb _); [discriminate|]. leaf.
        * destruct (_ && _ && _).
          -- eapply seq_ok_all; [| | exact H]; intros; (eapply Hrec; [eassumption | wk]).
          -- eapply (Htemp None tmp_ty s eb (fun d tv s3 => seq (lower f (CBinop v a op (read_as tv read_ty)) s3) (fun s4 => ret [LFree d] s4))); [|exact H].
             intros d tv s1 c s2 E. eapply seq_ok_all; [| | exact E]; [intros; eapply Hrec; [eassumption | wk] | intros; leaf].
      + destruct (_ && _ && _).
        * eapply seq_ok_all; [| | exact H]; intros; (eapply Hrec; [eassumption | wk]).
        * eapply (Htemp None tmp_ty s ea (fun d tv s3 => seq (lower f (CBinop v (read_as tv read_ty) op b) s3) (fun s4 => ret [LFree d] s4))); [|exact H].
          intros d tv s1 c s2 E. eapply seq_ok_all; [| | exact E]; [intros; eapply Hrec; [eassumption | wk] | intros; leaf].
    - (* CUnop *)
      destruct (classify auto_casts rty lty (te s) b) as [lb tb|eb tmp_ty read_ty].
      + destruct (var_arg rty lty s v) as [dst tv]. destruct (negb _); [discriminate|].
        unfold unop_intrinsic in H. destruct (alt_unop_for avail op tb) as [[|c bop]|]; try discriminate; leaf.
      + destruct (_ && _).
        * eapply seq_ok_all; [| | exact H]; intros; (eapply Hrec; [eassumption | wk]).
        * eapply (Htemp None tmp_ty s eb (fun d tv s3 => seq (lower f (CUnop v op (read_as tv read_ty)) s3) (fun s4 => ret [LFree d] s4))); [|exact H].
          intros d tv s1 c s2 E. eapply seq_ok_all; [| | exact E]; [intros; eapply Hrec; [eassumption | wk] | intros; leaf].
    - (* CTernary *)
      unfold gen_label in H. cbn [fst snd g te] in H.
      eapply seq_ok_all; [| | exact H]; [intros; eapply Hrec; [eassumption | wk]|].
      intros s3 c3 s4 E3. cbv beta in E3. eapply seq_ok_all; [| | exact E3]; [intros; eapply Hrec; [eassumption | wk]|].
      intros s5 c5 s6 E5. cbv beta in E5. eapply seq_ok_all; [| | exact E5]; [intros; leaf|].
      intros s7 c7 s8 E7. cbv beta in E7. eapply seq_ok_all; [| | exact E7]; [intros; leaf|].
      intros s9 c9 s10 E9. cbv beta in E9. eapply seq_ok_all; [| | exact E9]; [intros; eapply Hrec; [eassumption | wk] | intros; leaf].
    - (* CCondNonCount *)
      destruct e; try (destruct (negb _); [discriminate | eapply Hrec; [exact H | wk]]).
      + destruct op; try (destruct (negb _); [discriminate | eapply Hrec; [exact H | wk]]). eapply Hrec; [exact H | wk].
      + destruct (is_comparison op); [eapply Hrec; [exact H | wk]|].
        destruct op; try (destruct (negb _); [discriminate | eapply Hrec; [exact H | wk]]); (eapply Hrec; [exact H | wk]).
    - (* CCondCmp *)
      destruct (classify auto_casts rty lty (te s) a) as [la ta|ea tmp_ty read_ty].
      + destruct (classify auto_casts rty lty (te s) b) as [lb tb|eb tmp_ty read_ty].
        * destruct (match k with KwIf => Some op | KwUnless => negate_comparison op end); [|discriminate].
          unfold condjmp_intrinsic in H. destruct (negb _); [discriminate|].
          destruct (alt_condjmp_for avail b0 ta) as [[|]|]; try discriminate; [leaf|].
          eapply seq_ok_all; [| | exact H]; intros; leaf.
        * eapply (Htemp (Some (l, jt)) tmp_ty s eb (fun d tv s3 => seq (lower f (CCondCmp k a op (read_as tv read_ty) l jt) s3) (fun s4 => ret [LFree d] s4))); [|exact H].
          intros d tv s1 c s2 E. eapply seq_ok_all; [| | exact E]; [intros; eapply Hrec; [eassumption | wk] | intros; leaf].
      + eapply (Htemp (Some (l, jt)) tmp_ty s ea (fun d tv s3 => seq (lower f (CCondCmp k (read_as tv read_ty) op b l jt) s3) (fun s4 => ret [LFree d] s4))); [|exact H].
        intros d tv s1 c s2 E. eapply seq_ok_all; [| | exact E]; [intros; eapply Hrec; [eassumption | wk] | intros; leaf].
    - (* CCondLogic *)
      destruct (match k, op with KwIf, LogicOr | KwUnless, LogicAnd => Some true | KwIf, LogicAnd | KwUnless, LogicOr => Some false | _, _ => None end) as [[|]|]; try discriminate.
      + eapply seq_ok_all; [| | exact H]; intros; (eapply Hrec; [eassumption | wk]).
      + unfold gen_label in H. cbn [fst snd g te] in H.
        eapply seq_ok_all; [| | exact H]; [intros; eapply Hrec; [eassumption | wk]|].
        intros s3 c3 s4 E3. cbv beta in E3. eapply seq_ok_all; [| | exact E3]; [intros; eapply Hrec; [eassumption | wk]|].
        intros s5 c5 s6 E5. cbv beta in E5. eapply seq_ok_all; [| | exact E5]; intros; leaf.
  Qed.

  (* ---------------- touches ---------------- *)
  Lemma seq_touch_l (a : res) (k : lst -> res) code s' :
    (forall c s, a = Ok (c, s) -> touches c) -> seq a k = Ok (code, s') -> touches code.
  Proof.
    intros Ha H. unfold seq in H. destruct a as [[c1 s1]| | |]; try discriminate.
    destruct (k s1) as [[c2 s2]| | |] eqn:Ek; try discriminate. inversion H; subst.
    apply touches_app_l. eapply Ha. reflexivity.
  Qed.
  Lemma seq_touch_r (a : res) (k : lst -> res) code s' :
    (forall s1 c s, k s1 = Ok (c, s) -> touches c) -> seq a k = Ok (code, s') -> touches code.
  Proof.
    intros Hk H. unfold seq in H. destruct a as [[c1 s1]| | |]; try discriminate.
    destruct (k s1) as [[c2 s2]| | |] eqn:Ek; try discriminate. inversion H; subst.
    apply touches_app_r. eapply Hk. exact Ek.
  Qed.

  Ltac tleaf :=
    cbv beta in *;
    match goal with
    | H : instr _ _ _ _ = Ok _ |- _ => unfold instr, ret in H; inversion H; subst; reflexivity
    | H : need _ _ _ _ _ _ = Ok _ |- _ => unfold need, instr, ret in H; destruct (avail _); inversion H; subst; reflexivity
    end.

  Lemma lower_touches : forall f c s code s', lower f c s = Ok (code, s') -> touches code.
  Proof.
    induction f as [|f IH]; intros c s code s' H; [discriminate|].
    assert (Hrec : forall c s code s', lower f c s = Ok (code, s') -> touches code) by exact IH.
    assert (Htemp : forall tmp_ty (s : lst) (ea : expr) (k : nat -> var -> lst -> res) code s',
              (let '(d, tv, s1) := alloc_temp tmp_ty s in
               seq (ret [LAlloc d tmp_ty] s1) (fun s2 => seq (lower f (CAssignOp tv None ea) s2) (fun s3 => k d tv s3))) = Ok (code, s') ->
              touches code).
    { intros tmp_ty s0 ea k code0 s0' H0. unfold alloc_temp in H0.
      eapply seq_touch_r; [|exact H0]. intros s1 c1 s2 E. eapply seq_touch_l; [|exact E].
      intros c2 s3 E2. eapply Hrec. exact E2. }
    destruct c; cbn [Lower.lower] in H.
    - (* CAssignOp *)
      destruct (classify auto_casts rty lty (te s) rhs) as [a ta|ea tmp_ty read_ty].
      + unfold assign_intrinsic in H. destruct (var_arg rty lty s v) as [dst tv].
        destruct (negb _); [discriminate|]. destruct (alt_assign_for avail aop tv) as [[|b]|]; try discriminate; tleaf.
      + assert (Ht : (let '(d, tv, s1) := alloc_temp tmp_ty s in
               seq (ret [LAlloc d tmp_ty] s1) (fun s2 => seq (lower f (CAssignOp tv None ea) s2)
                 (fun s3 => seq (lower f (CAssignOp v aop (read_as tv read_ty)) s3) (fun s4 => ret [LFree d] s4)))) = Ok (code, s') ->
               touches code).
        { intros H0. eapply (Htemp tmp_ty s ea (fun d tv s3 => seq (lower f (CAssignOp v aop (read_as tv read_ty)) s3) (fun s4 => ret [LFree d] s4))). exact H0. }
        destruct (negb _); [apply Ht; exact H|].
        destruct aop; [apply Ht; exact H|].
        destruct ea; try discriminate; eapply Hrec; exact H.
    - (* CBinop *)
      destruct (classify auto_casts rty lty (te s) a) as [la ta|ea tmp_ty read_ty].
      + destruct (classify auto_casts rty lty (te s) b) as [lb tb|eb tmp_ty read_ty].
        * destruct (var_arg rty lty s v) as [dst tv]. destruct (negb _); [discriminate|]. tleaf.
        * destruct (_ && _ && _).
          -- eapply seq_touch_l; [|exact H]; intros; eapply Hrec; eassumption.
          -- eapply (Htemp tmp_ty s eb (fun d tv s3 => seq (lower f (CBinop v a op (read_as tv read_ty)) s3) (fun s4 => ret [LFree d] s4))). exact H.
      + destruct (_ && _ && _).
        * eapply seq_touch_l; [|exact H]; intros; eapply Hrec; eassumption.
        * eapply (Htemp tmp_ty s ea (fun d tv s3 => seq (lower f (CBinop v (read_as tv read_ty) op b) s3) (fun s4 => ret [LFree d] s4))). exact H.
    - (* CUnop *)
      destruct (classify auto_casts rty lty (te s) b) as [lb tb|eb tmp_ty read_ty].
      + destruct (var_arg rty lty s v) as [dst tv]. destruct (negb _); [discriminate|].
        unfold unop_intrinsic in H. destruct (alt_unop_for avail op tb) as [[|c bop]|]; try discriminate; tleaf.
      + destruct (_ && _).
        * eapply seq_touch_l; [|exact H]; intros; eapply Hrec; eassumption.
        * eapply (Htemp tmp_ty s eb (fun d tv s3 => seq (lower f (CUnop v op (read_as tv read_ty)) s3) (fun s4 => ret [LFree d] s4))). exact H.
    - (* CTernary *)
      unfold gen_label in H. cbn [fst snd g te] in H.
      eapply seq_touch_l; [|exact H]. intros; eapply Hrec; eassumption.
    - (* CCondNonCount *)
      destruct e; try (destruct (negb _); [discriminate | eapply Hrec; exact H]).
      + destruct op; try (destruct (negb _); [discriminate | eapply Hrec; exact H]). eapply Hrec; exact H.
      + destruct (is_comparison op); [eapply Hrec; exact H|].
        destruct op; try (destruct (negb _); [discriminate | eapply Hrec; exact H]); eapply Hrec; exact H.
    - (* CCondCmp *)
      destruct (classify auto_casts rty lty (te s) a) as [la ta|ea tmp_ty read_ty].
      + destruct (classify auto_casts rty lty (te s) b) as [lb tb|eb tmp_ty read_ty].
        * destruct (match k with KwIf => Some op | KwUnless => negate_comparison op end); [|discriminate].
          unfold condjmp_intrinsic in H. destruct (negb _); [discriminate|].
          destruct (alt_condjmp_for avail b0 ta) as [[|]|]; try discriminate; [tleaf|].
          eapply seq_touch_l; [|exact H]; intros; tleaf.
        * eapply (Htemp tmp_ty s eb (fun d tv s3 => seq (lower f (CCondCmp k a op (read_as tv read_ty) l jt) s3) (fun s4 => ret [LFree d] s4))). exact H.
      + eapply (Htemp tmp_ty s ea (fun d tv s3 => seq (lower f (CCondCmp k (read_as tv read_ty) op b l jt) s3) (fun s4 => ret [LFree d] s4))). exact H.
    - (* CCondLogic *)
      destruct (match k, op with KwIf, LogicOr | KwUnless, LogicAnd => Some true | KwIf, LogicAnd | KwUnless, LogicOr => Some false | _, _ => None end) as [[|]|]; try discriminate.
      + eapply seq_touch_l; [|exact H]; intros; eapply Hrec; eassumption.
      + unfold gen_label in H. cbn [fst snd g te] in H.
        eapply seq_touch_l; [|exact H]. intros; eapply Hrec; eassumption.
  Qed.
End Static.
