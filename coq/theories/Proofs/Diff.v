(* Proofs/Diff.v -- lemmas for property C14 (difficulty labels and switches). *)
From TV Require Import Base.I32 Gen.DiffFlags Model.Diff.
From Coq Require Import NArith.

(* ------------------------------------------------------------------------------------------ *)
(* 1. labels *)
Open Scope N_scope.

Lemma table_is_ok : table_ok = true. Proof. vm_compute. reflexivity. Qed.
Lemma num_bits_8 : NUM_BITS = 8%nat. Proof. reflexivity. Qed.
Lemma all_bits_255 : ALL_BITS = 255. Proof. reflexivity. Qed.

Lemma special_not_flag c : is_flag_char c = true -> (c =? CH_MINUS) = false /\ (c =? CH_PLUS) = false /\ (c =? CH_STAR) = false.
Proof.
  intros H. pose proof table_is_ok as T. unfold table_ok in T. rewrite !andb_true_iff in T.
  destruct T as [[[_ A] B] C]. rewrite negb_true_iff in A, B, C.
  repeat split; apply N.eqb_neq; intros ->; congruence.
Qed.

Definition setall (L : list nat) (v : bool) (out : N) : N := fold_left (fun o b => set_bit o b v) L out.

Lemma testbit_set_bit m i v k :
  N.testbit (set_bit m i v) k = if k =? N.of_nat i then v else N.testbit m k.
Proof.
  unfold set_bit. destruct v.
  - rewrite N.setbit_eqb. rewrite (N.eqb_sym k). destruct (N.of_nat i =? k); reflexivity.
  - rewrite N.clearbit_eqb. rewrite (N.eqb_sym k). destruct (N.of_nat i =? k); cbn; auto. apply andb_false_r. apply andb_true_r.
Qed.

Lemma testbit_setall L v : forall out k,
  N.testbit (setall L v out) k = if existsb (fun i => k =? N.of_nat i) L then v else N.testbit out k.
Proof.
  induction L as [|i L IH]; intros out k; [reflexivity|].
  cbn [setall fold_left existsb]. fold (setall L v (set_bit out i v)). rewrite IH, testbit_set_bit.
  destruct (k =? N.of_nat i); cbn [orb]; [|reflexivity]. now destruct (existsb _ L).
Qed.

Lemma high_bits m k : m <= 255 -> 8 <= k -> N.testbit m k = false.
Proof.
  intros Hm Hk. destruct (N.eq_dec m 0) as [->|Hz]; [apply N.bits_0|].
  apply N.bits_above_log2. apply N.lt_le_trans with 8; [|exact Hk].
  apply N.log2_lt_pow2; [lia|]. change (2 ^ 8) with 256. lia.
Qed.

Lemma testbit_255 k : N.testbit 255 k = (k <? 8).
Proof.
  change 255 with (N.ones 8). destruct (N.ltb_spec k 8).
  - now apply N.ones_spec_low.
  - now apply N.ones_spec_high.
Qed.

Lemma testbit_complement m k : N.testbit (complement m) k = (k <? 8) && negb (N.testbit m k).
Proof. unfold complement. rewrite all_bits_255, N.ldiff_spec, testbit_255. reflexivity. Qed.

Lemma in_bits_of m i : In i (bits_of m) <-> (i < 8)%nat /\ N.testbit m (N.of_nat i) = true.
Proof. unfold bits_of. rewrite filter_In, in_seq, num_bits_8. unfold bit. intuition lia. Qed.

Lemma existsb_bits_of m k : existsb (fun i => k =? N.of_nat i) (bits_of m) = (k <? 8) && N.testbit m k.
Proof.
  apply eq_true_iff_eq. rewrite existsb_exists, andb_true_iff, N.ltb_lt. split.
  - intros (i & Hi & E). apply N.eqb_eq in E. subst k. apply in_bits_of in Hi. split; [lia|tauto].
  - intros [Hk Hb]. exists (N.to_nat k). rewrite N2Nat.id. split; [|apply N.eqb_refl].
    apply in_bits_of. rewrite N2Nat.id. split; [lia|exact Hb].
Qed.

Section WithDefs.
Variable fd : flagdefs.
Hypothesis HC : Consistent fd.

Lemma enable_le : fd_enable fd <= 255.
Proof. destruct HC as [H _]. now rewrite all_bits_255 in H. Qed.

Lemma parse_names : forall L, (forall b, In b L -> (b < 8)%nat) ->
  exists s, names fd L = Ok s /\
    forall out en rest, parse_go fd out en (s ++ rest) = parse_go fd (setall L en out) en rest.
Proof.
  induction L as [|b L IH]; intros HL.
  - exists []. split; reflexivity.
  - destruct IH as (s & Hs & Hp). { intros; apply HL; now right. }
    destruct HC as [_ Hb]. destruct (Hb b) as (c & Hf & Hc & Hn). { rewrite num_bits_8. apply HL. now left. }
    exists (c :: s). split.
    + cbn [names]. rewrite Hf, Hs. reflexivity.
    + intros out en rest. cbn [app parse_go].
      destruct (special_not_flag c Hc) as (A & B & C). rewrite A, B, C, Hc, Hn. rewrite Hp. reflexivity.
Qed.

Lemma bits_of_lt m : forall b, In b (bits_of m) -> (b < 8)%nat.
Proof. intros b H. apply in_bits_of in H. tauto. Qed.

Theorem label_roundtrip_sec : forall m, m <= 255 ->
  exists s, mask_to_label fd m = Ok s /\ parse_label fd s = Ok m.
Proof.
  intros m Hm. unfold mask_to_label, parse_label.
  set (E := fd_enable fd). set (D := difficulty_bits fd).
  set (me := N.land m D). set (md := N.land (complement m) (aux_bits fd)).
  destruct (parse_names (bits_of me) (bits_of_lt me)) as (s1 & Hs1 & Hp1).
  destruct (parse_names (bits_of md) (bits_of_lt md)) as (s2 & Hs2 & Hp2).
  (* the first part and its effect *)
  assert (H1 : exists t1 out1, (if me =? D then Ok [CH_STAR] else names fd (bits_of me)) = Ok t1 /\
            (forall rest, parse_go fd E true (t1 ++ rest) = parse_go fd out1 true rest) /\
            (forall k, N.testbit out1 k = (k <? 8) && (N.testbit E k || N.testbit me k))).
  { destruct (N.eqb_spec me D) as [Heq|Hne].
    - exists [CH_STAR], ALL_BITS. split; [reflexivity|]. split.
      + intros rest. cbn [app parse_go].
        assert (X : (CH_STAR =? CH_MINUS) = false) by reflexivity. assert (Y : (CH_STAR =? CH_PLUS) = false) by reflexivity.
        rewrite X, Y, N.eqb_refl. reflexivity.
      + intros k. rewrite all_bits_255, testbit_255, Heq. unfold D, difficulty_bits. rewrite testbit_complement.
        fold E. destruct (k <? 8), (N.testbit E k); reflexivity.
    - exists s1, (setall (bits_of me) true E). split; [exact Hs1|]. split; [intros; apply Hp1|].
      intros k. rewrite testbit_setall, existsb_bits_of.
      destruct (N.ltb_spec k 8) as [Hk|Hk]; cbn [andb].
      + destruct (N.testbit me k), (N.testbit E k); reflexivity.
      + apply high_bits; [apply enable_le|exact Hk].
  }
  destruct H1 as (t1 & out1 & Ht1 & Hpar1 & Hbits1). rewrite Ht1. cbn [obind].
  assert (H2 : exists t2 out2, (if md =? 0 then Ok [] else do n <- names fd (bits_of md); Ok (CH_MINUS :: n)) = Ok t2 /\
            parse_go fd out1 true t2 = Ok out2 /\
            (forall k, N.testbit out2 k = if N.testbit md k then false else N.testbit out1 k)).
  { destruct (N.eqb_spec md 0) as [Hz|Hnz].
    - exists [], out1. split; [reflexivity|]. split; [reflexivity|]. intros k. rewrite Hz, N.bits_0. reflexivity.
    - exists (CH_MINUS :: s2), (setall (bits_of md) false out1). rewrite Hs2. split; [reflexivity|]. split.
      + cbn [parse_go]. rewrite N.eqb_refl. rewrite <- (app_nil_r s2), Hp2. reflexivity.
      + intros k. rewrite testbit_setall, existsb_bits_of.
        destruct (N.ltb_spec k 8) as [Hk|Hk]; cbn [andb]; [reflexivity|].
        assert (Z : N.testbit md k = false).
        { unfold md. rewrite N.land_spec, testbit_complement. destruct (N.ltb_spec k 8); [lia|reflexivity]. }
        now rewrite Z.
  }
  destruct H2 as (t2 & out2 & Ht2 & Hpar2 & Hbits2). rewrite Ht2. cbn [obind].
  exists (t1 ++ t2). split; [reflexivity|]. rewrite Hpar1, Hpar2. f_equal.
  apply N.bits_inj. intros k. rewrite Hbits2, Hbits1.
  unfold md, me, D, difficulty_bits, aux_bits. rewrite !N.land_spec, !testbit_complement. fold E.
  destruct (N.ltb_spec k 8) as [Hk|Hk]; cbn [andb].
  - destruct (N.testbit m k), (N.testbit E k); reflexivity.
  - rewrite (high_bits m k Hm Hk). reflexivity.
Qed.
End WithDefs.

(* ------------------------------------------------------------------------------------------ *)
(* 2. switch values *)
Open Scope nat_scope.

(* flat switches: the difficulty parameter only matters through the position *)
Lemma flat_eval_indep : forall cs k d1 d2 cur, flat_cases cs = true ->
  eval_cases cs k d1 cur = eval_cases cs k d2 cur.
Proof.
  induction cs as [|a r IH|r IH]; intros k d1 d2 cur F.
  - reflexivity.
  - destruct a as [v|cs']; [|discriminate]. cbn [flat_cases] in F. cbn [eval_cases eval_arg].
    destruct k; [reflexivity|]. now apply IH.
  - cbn [flat_cases] in F. cbn [eval_cases]. destruct k; [reflexivity|]. now apply IH.
Qed.

Definition hole_at (cs : cases) (j : nat) : Prop := nth j (explicit_list cs) false = false.

Lemma holes_prefix : forall cs k d cur, k < clen cs -> (forall j, j <= k -> hole_at cs j) ->
  eval_cases cs k d cur = cur.
Proof.
  induction cs as [|a r IH|r IH]; intros k d cur Hk Hh.
  - cbn in Hk. lia.
  - specialize (Hh 0 (Nat.le_0_l k)). discriminate.
  - cbn [eval_cases]. destruct k; [reflexivity|]. apply IH.
    + cbn [clen] in Hk. lia.
    + intros j Hj. specialize (Hh (S j)). unfold hole_at in *. cbn [explicit_list nth] in Hh. apply Hh. lia.
Qed.

Lemma holes_between : forall cs s d d' cur, s <= d -> d < clen cs ->
  (forall j, s < j <= d -> hole_at cs j) ->
  eval_cases cs d d' cur = eval_cases cs s d' cur.
Proof.
  induction cs as [|a r IH|r IH]; intros s d d' cur Hsd Hd Hh.
  - reflexivity.
  - cbn [clen] in Hd. destruct d as [|d1].
    + assert (s = 0) by lia. subst. reflexivity.
    + destruct s as [|s1].
      * cbn [eval_cases]. apply holes_prefix; [lia|].
        intros j Hj. specialize (Hh (S j)). unfold hole_at in *. cbn [explicit_list nth] in Hh. apply Hh. lia.
      * cbn [eval_cases]. apply IH; [lia|lia|].
        intros j Hj. specialize (Hh (S j)). unfold hole_at in *. cbn [explicit_list nth] in Hh. apply Hh. lia.
  - cbn [clen] in Hd. destruct d as [|d1].
    + assert (s = 0) by lia. subst. reflexivity.
    + destruct s as [|s1].
      * cbn [eval_cases]. apply holes_prefix; [lia|].
        intros j Hj. specialize (Hh (S j)). unfold hole_at in *. cbn [explicit_list nth] in Hh. apply Hh. lia.
      * cbn [eval_cases]. apply IH; [lia|lia|].
        intros j Hj. specialize (Hh (S j)). unfold hole_at in *. cbn [explicit_list nth] in Hh. apply Hh. lia.
Qed.

(* totality for flat well-formed switches *)
Lemma flat_total : forall cs k d cur, flat_cases cs = true -> k < clen cs ->
  (exists v, cur = Ok v) -> exists v, eval_cases cs k d cur = Ok v.
Proof.
  induction cs as [|a r IH|r IH]; intros k d cur F Hk Hc.
  - cbn in Hk. lia.
  - destruct a as [v|cs']; [|discriminate]. cbn [flat_cases] in F. cbn [eval_cases eval_arg clen] in *.
    destruct k; [now exists v|]. apply IH; [exact F|lia|now exists v].
  - cbn [flat_cases] in F. cbn [eval_cases clen] in *. destruct k; [exact Hc|]. apply IH; [exact F|lia|exact Hc].
Qed.

Lemma wf_flat_total a n d : well_formed_arg n a = true -> flat_arg a = true -> d < n ->
  exists v, eval_arg a d = Ok v.
Proof.
  destruct a as [v|cs]; intros W F Hd; [now exists v|].
  cbn [well_formed_arg] in W. apply andb_true_iff in W. destruct W as [L Hf]. apply Nat.eqb_eq in L.
  destruct cs as [|a r|r]; try discriminate. cbn [flat_arg flat_cases] in F. destruct a as [v|cs']; [|discriminate].
  cbn [eval_arg eval_cases]. cbn [clen] in L. destruct d; [now exists v|]. apply flat_total; [exact F|lia|now exists v].
Qed.

(* the value at the start of a range is the value at every difficulty of the range *)
Lemma wf_flat_range a n s d : well_formed_arg n a = true -> flat_arg a = true -> s <= d -> d < n ->
  (forall j, s < j <= d -> match a with ASw cs => hole_at cs j | AVal _ => True end) ->
  eval_arg a s = eval_arg a d.
Proof.
  destruct a as [v|cs]; intros W F Hsd Hd Hh; [reflexivity|].
  cbn [well_formed_arg] in W. apply andb_true_iff in W. destruct W as [L _]. apply Nat.eqb_eq in L.
  cbn [eval_arg]. cbn [flat_arg] in F.
  rewrite (flat_eval_indep cs s s d _ F). symmetry. apply holes_between; [exact Hsd|lia|exact Hh].
Qed.

(* ------------------------------------------------------------------------------------------ *)
(* 3. the range structure of explicit_case_bitmasks: a finite check over all 8-bit masks and all
      explicit-position patterns of 2..8 cases (vm_compute, lifted by forallb_forall) *)

Definition nd (x : N) (r : nat * nat) : N := N.land x (range_mask r).

Definition hits (x : N) (d : nat) (r : nat * nat) : bool := negb (N.eqb (nd x r) 0) && bit (nd x r) d.

Definition check1 (x : N) (expl : list bool) (d : nat) : bool :=
  let rs := case_ranges expl in
  forallb (fun r => fst r <? length expl) rs &&
  (negb (bit x d) ||
   match filter (hits x d) rs with
   | [r] => (fst r <=? d) &&
            forallb (fun j => (j <=? fst r) || (d <? j) || negb (nth j expl false)) (seq 0 (length expl))
   | _ => false
   end).

Fixpoint all_lists (k : nat) : list (list bool) :=
  match k with O => [[]] | S k' => flat_map (fun l => [true :: l; false :: l]) (all_lists k') end.

Lemma in_all_lists : forall k l, length l = k -> In l (all_lists k).
Proof.
  induction k as [|k IH]; intros l H.
  - destruct l; [now left|discriminate].
  - destruct l as [|b l]; [discriminate|]. cbn [all_lists]. apply in_flat_map. exists l. split; [apply IH; now inversion H|].
    destruct b; [now left|right; now left].
Qed.

Definition all_masks : list N := map N.of_nat (seq 0 256).
Lemma in_all_masks x : (x <= 255)%N -> In x all_masks.
Proof. intros H. unfold all_masks. rewrite <- (N2Nat.id x). apply in_map, in_seq. lia. Qed.

Definition chk_x (expl : list bool) (x : N) : bool := forallb (check1 x expl) (seq 0 (length expl)).
Definition chk_l (l : list bool) : bool := forallb (chk_x (true :: l)) all_masks.
Definition chk_k (k : nat) : bool := forallb chk_l (all_lists k).
Definition check_all : bool := forallb chk_k (seq 1 7).

Lemma check_all_ok : forallb chk_k (seq 1 7) = true.
Proof. vm_compute. reflexivity. Qed.

Lemma check1_ok x expl d : (x <= 255)%N -> 2 <= length expl <= 8 -> hd false expl = true -> d < length expl ->
  check1 x expl d = true.
Proof.
  intros Hx Hn Hh Hd. destruct expl as [|b l]; [cbn in Hn; lia|]. cbn in Hh. subst b.
  assert (Hin : In (length l) (seq 1 7)) by (apply in_seq; cbn [length] in Hn; lia).
  pose proof (proj1 (forallb_forall chk_k (seq 1 7)) check_all_ok (length l) Hin) as H1.
  pose proof (proj1 (forallb_forall chk_l (all_lists (length l))) H1 l (in_all_lists _ l eq_refl)) as H2.
  pose proof (proj1 (forallb_forall (chk_x (true :: l)) all_masks) H2 x (in_all_masks x Hx)) as H3.
  assert (Hd' : In d (seq 0 (length (true :: l)))) by (apply in_seq; lia).
  exact (proj1 (forallb_forall (check1 x (true :: l)) (seq 0 (length (true :: l)))) H3 d Hd').
Qed.

(* ------------------------------------------------------------------------------------------ *)
(* 4. elaboration *)

(* --- meta_of --- *)
Lemma nth_orb_lists : forall a b j, nth j (orb_lists a b) false = nth j a false || nth j b false.
Proof.
  induction a as [|x a IH]; intros b j.
  - cbn. destruct b; destruct j; reflexivity.
  - destruct b as [|y b]; cbn [orb_lists].
    + destruct j; cbn; now rewrite orb_false_r.
    + destruct j; cbn [nth]; [reflexivity|apply IH].
Qed.

Lemma length_orb_lists : forall a b, length (orb_lists a b) = Nat.max (length a) (length b).
Proof.
  induction a as [|x a IH]; intros b; [destruct b; reflexivity|].
  destruct b as [|y b]; cbn [orb_lists length]; [reflexivity|]. now rewrite IH.
Qed.

Lemma length_explicit_list cs : length (explicit_list cs) = clen cs.
Proof. induction cs; cbn; congruence. Qed.

Definition expl_at (a : arg) (j : nat) : bool := match a with ASw cs => nth j (explicit_list cs) false | AVal _ => false end.
Definition meta_step (acc : list bool) (a : arg) : list bool :=
  match a with ASw cs => orb_lists acc (explicit_list cs) | AVal _ => acc end.

Lemma nth_meta_fold : forall args acc j,
  nth j (fold_left meta_step args acc) false = nth j acc false || existsb (fun a => expl_at a j) args.
Proof.
  induction args as [|a args IH]; intros acc j; cbn [fold_left existsb]; [now rewrite orb_false_r|].
  rewrite IH. destruct a as [v|cs]; cbn [meta_step expl_at]; [reflexivity|]. rewrite nth_orb_lists. now rewrite orb_assoc.
Qed.

Lemma length_meta_fold : forall args acc n, (forall a, In a args -> well_formed_arg n a = true) ->
  (length acc = 0 \/ length acc = n) ->
  length (fold_left meta_step args acc) = if existsb (fun a => match a with ASw _ => true | _ => false end) args then n else length acc.
Proof.
  induction args as [|a args IH]; intros acc n W Hacc; cbn [fold_left existsb]; [reflexivity|].
  assert (Wa := W a (or_introl eq_refl)). assert (W' : forall a', In a' args -> well_formed_arg n a' = true) by (intros; apply W; now right).
  destruct a as [v|cs]; cbn [meta_step orb].
  - apply IH; assumption.
  - cbn [well_formed_arg] in Wa. apply andb_true_iff in Wa. destruct Wa as [L _]. apply Nat.eqb_eq in L.
    assert (Hl : length (orb_lists acc (explicit_list cs)) = n).
    { rewrite length_orb_lists, length_explicit_list, L. destruct Hacc as [-> | ->]; lia. }
    rewrite (IH _ n W' (or_intror Hl)). rewrite Hl. now destruct (existsb _ args).
Qed.

Lemma orb_lists_nil_r l : orb_lists l [] = l.
Proof. destruct l; reflexivity. Qed.

Lemma flat_cases_deep_nil : forall cs, flat_cases cs = true -> expl_cases_deep cs = [].
Proof.
  induction cs as [|a r IH|r IH]; intros F; [reflexivity| |].
  - destruct a as [v|cs']; [|discriminate]. cbn [flat_cases] in F. cbn [expl_cases_deep expl_arg_deep]. now rewrite (IH F).
  - cbn [flat_cases] in F. cbn [expl_cases_deep]. now apply IH.
Qed.

Lemma flat_expl_arg a acc : flat_arg a = true -> orb_lists acc (expl_arg a) = meta_step acc a.
Proof.
  intros F. unfold expl_arg. destruct gen_nested_meta.
  - destruct a as [v|cs]; cbn [expl_arg_deep meta_step]; [apply orb_lists_nil_r|].
    cbn [flat_arg] in F. now rewrite (flat_cases_deep_nil cs F), orb_lists_nil_r.
  - destruct a as [v|cs]; cbn [meta_step]; [apply orb_lists_nil_r|reflexivity].
Qed.

Lemma meta_of_fold_gen : forall args acc, (forall a, In a args -> flat_arg a = true) ->
  fold_left (fun acc a => orb_lists acc (expl_arg a)) args acc = fold_left meta_step args acc.
Proof.
  induction args as [|a args IH]; intros acc F; [reflexivity|]. cbn [fold_left].
  rewrite (flat_expl_arg a acc (F a (or_introl eq_refl))). apply IH. intros a' Ha'. apply F. now right.
Qed.

Lemma meta_of_fold args : (forall a, In a args -> flat_arg a = true) -> meta_of args = fold_left meta_step args [].
Proof. intros F. unfold meta_of. now apply meta_of_fold_gen. Qed.

Definition has_switch (args : list arg) : bool := existsb (fun a => match a with ASw _ => true | _ => false end) args.

Lemma meta_hd args n : (forall a, In a args -> well_formed_arg n a = true) -> (forall a, In a args -> flat_arg a = true) ->
  has_switch args = true -> 1 <= n ->
  hd false (meta_of args) = true.
Proof.
  intros W FL H Hn. assert (E : nth 0 (meta_of args) false = true).
  { rewrite (meta_of_fold args FL), nth_meta_fold. cbn [nth orb]. unfold has_switch in H. rewrite existsb_exists in *.
    destruct H as (a & Ha & Hs). exists a. split; [exact Ha|]. destruct a as [v|cs]; [discriminate|].
    specialize (W _ Ha). cbn [well_formed_arg] in W. apply andb_true_iff in W. destruct W as [_ F].
    destruct cs; try discriminate. reflexivity. }
  destruct (meta_of args); [discriminate|exact E].
Qed.

(* --- elab_ranges as a flat_map --- *)
Definition evalv (args : list arg) (d : nat) : list Z := match eval_args args d with Ok v => v | _ => [] end.

Section Elab.
Variable fd : flagdefs.
Variable m : N.
Variable args : list arg.
Let x := N.land m (difficulty_bits fd).
Let aux := N.land m (aux_bits fd).
Definition copies_of (r : nat * nat) : list (N * list Z) :=
  if N.eqb (nd x r) 0 then [] else [(N.lor (nd x r) aux, evalv args (fst r))].

Lemma elab_ranges_flat : forall rs, (forall r, In r rs -> exists vs, eval_args args (fst r) = Ok vs) ->
  elab_ranges fd m args rs = Ok (flat_map copies_of rs).
Proof.
  induction rs as [|r rs IH]; intros H; [reflexivity|].
  cbn [elab_ranges flat_map]. unfold copies_of at 1. fold x. fold aux. unfold nd at 1 2.
  assert (IH' := IH (fun r' Hr => H r' (or_intror Hr))).
  destruct (N.eqb_spec (N.land x (range_mask r)) 0) as [E|E].
  - exact IH'.
  - destruct (H r (or_introl eq_refl)) as [vs Hvs]. rewrite Hvs, IH'. cbn [obind app]. unfold evalv. now rewrite Hvs.
Qed.

Lemma filter_copies d rs : bit aux d = false ->
  filter (fun c => bit (fst c) d) (flat_map copies_of rs) = flat_map copies_of (filter (hits x d) rs).
Proof.
  intros Ha. induction rs as [|r rs IH]; [reflexivity|].
  cbn [flat_map filter]. rewrite filter_app, IH. unfold copies_of at 1. unfold hits at 2.
  destruct (N.eqb_spec (nd x r) 0) as [E|E]; cbn [negb andb app filter]; [reflexivity|].
  cbn [fst]. assert (B : bit (N.lor (nd x r) aux) d = bit (nd x r) d).
  { unfold bit in *. rewrite N.lor_spec, Ha. apply orb_false_r. }
  rewrite B. destruct (bit (nd x r) d); cbn [flat_map app]; [|reflexivity].
  unfold copies_of at 2. destruct (N.eqb_spec (nd x r) 0); [contradiction|reflexivity].
Qed.
End Elab.

Lemma le_255_of_high_bits a : (forall k, (8 <= k)%N -> N.testbit a k = false) -> (a <= 255)%N.
Proof.
  intros H. destruct (N.eq_dec a 0) as [->|Hz]; [lia|].
  assert (L : (N.log2 a < 8)%N).
  { destruct (N.lt_ge_cases (N.log2 a) 8) as [L|G]; [exact L|].
    specialize (H _ G). rewrite N.bit_log2 in H by exact Hz. discriminate. }
  apply N.log2_lt_pow2 in L; [|lia]. change (2 ^ 8)%N with 256%N in L. lia.
Qed.

Lemma land_le_255 a b : (a <= 255)%N -> (N.land a b <= 255)%N.
Proof. intros H. apply le_255_of_high_bits. intros k Hk. rewrite N.land_spec, (high_bits a k H Hk). reflexivity. Qed.

Lemma eval_args_ext : forall args s d, (forall a, In a args -> eval_arg a s = eval_arg a d) ->
  eval_args args s = eval_args args d.
Proof.
  induction args as [|a args IH]; intros s d H; [reflexivity|].
  cbn [eval_args]. rewrite (H a (or_introl eq_refl)), (IH s d (fun a' Ha => H a' (or_intror Ha))). reflexivity.
Qed.

Lemma eval_args_total : forall args n d, (forall a, In a args -> well_formed_arg n a = true /\ flat_arg a = true) -> d < n ->
  exists vs, eval_args args d = Ok vs.
Proof.
  induction args as [|a args IH]; intros n d W Hd; [now exists []|].
  destruct (W a (or_introl eq_refl)) as [Wa Fa]. destruct (wf_flat_total a n d Wa Fa Hd) as [v Hv].
  destruct (IH n d (fun a' Ha => W a' (or_intror Ha)) Hd) as [vs Hvs]. exists (v :: vs). cbn [eval_args]. now rewrite Hv, Hvs.
Qed.

Theorem elaborate_exactly_one_lem : forall fd m args n d,
  (fd_enable fd <= 255)%N -> (m <= 255)%N -> 2 <= n <= 8 ->
  (forall a, In a args -> well_formed_arg n a = true /\ flat_arg a = true) -> has_switch args = true ->
  d < n -> bit (N.land m (difficulty_bits fd)) d = true ->
  exists copies mask vs, elaborate fd m args = Ok copies /\
    filter (fun c => bit (fst c) d) copies = [(mask, vs)] /\ eval_args args d = Ok vs /\
    (forall c, In c copies -> N.land (fst c) (aux_bits fd) = N.land m (aux_bits fd)).
Proof.
  intros fd m args n d HE Hm Hn W Hs Hd Hbit.
  set (x := N.land m (difficulty_bits fd)) in *. set (aux := N.land m (aux_bits fd)).
  assert (W1 : forall a, In a args -> well_formed_arg n a = true) by (intros a Ha; apply (W a Ha)).
  assert (FL : forall a, In a args -> flat_arg a = true) by (intros a Ha; apply (W a Ha)).
  assert (Hlen : length (meta_of args) = n).
  { rewrite (meta_of_fold args FL), (length_meta_fold args [] n W1 (or_introl eq_refl)). unfold has_switch in Hs. now rewrite Hs. }
  assert (Hhd : hd false (meta_of args) = true) by (apply (meta_hd args n W1 FL Hs); lia).
  assert (Hx : (x <= 255)%N) by (apply land_le_255, Hm).
  pose proof (check1_ok x (meta_of args) d Hx) as C. rewrite Hlen in C. specialize (C Hn Hhd Hd).
  unfold check1 in C. apply andb_true_iff in C. destruct C as [Cst C]. rewrite Hbit in C. cbn [negb orb] in C.
  rewrite forallb_forall in Cst.
  (* totality *)
  assert (Htot : forall r, In r (case_ranges (meta_of args)) -> exists vs, eval_args args (fst r) = Ok vs).
  { intros r Hr. apply (eval_args_total args n); [exact W|]. specialize (Cst r Hr). apply Nat.ltb_lt in Cst. rewrite Hlen in Cst. exact Cst. }
  unfold elaborate. rewrite Hlen. assert (Hl2 : Nat.ltb n 2 = false) by (apply Nat.ltb_ge; lia). rewrite Hl2.
  rewrite (elab_ranges_flat fd m args _ Htot).
  (* the aux bit at d is clear *)
  assert (Ha : bit (N.land m (aux_bits fd)) d = false).
  { unfold bit in *. unfold x, difficulty_bits in Hbit. rewrite N.land_spec, testbit_complement in Hbit.
    rewrite N.land_spec. unfold aux_bits. destruct (N.testbit (fd_enable fd) (N.of_nat d)); [|apply andb_false_r].
    rewrite !andb_false_r in Hbit. discriminate. }
  destruct (filter (hits x d) (case_ranges (meta_of args))) as [|r [|r2 rest]] eqn:EF; try discriminate.
  apply andb_true_iff in C. destruct C as [Csd Choles]. apply Nat.leb_le in Csd. rewrite forallb_forall in Choles. rewrite Hlen in Choles.
  assert (Hr : In r (filter (hits x d) (case_ranges (meta_of args)))) by (rewrite EF; now left).
  apply filter_In in Hr. destruct Hr as [Hrin Hhit].
  destruct (Htot r Hrin) as [vs Hvs].
  exists (flat_map (copies_of fd m args) (case_ranges (meta_of args))), (N.lor (nd x r) aux), vs.
  split; [reflexivity|]. split; [|split].
  - rewrite (filter_copies fd m args d _ Ha). fold x. rewrite EF. cbn [flat_map]. rewrite app_nil_r.
    unfold copies_of. fold x. fold aux. unfold hits in Hhit. apply andb_true_iff in Hhit. destruct Hhit as [Hnz _].
    apply negb_true_iff in Hnz. rewrite Hnz. unfold evalv. now rewrite Hvs.
  - rewrite <- Hvs. symmetry. apply eval_args_ext. intros a Ha'. destruct (W a Ha') as [Wa Fa].
    apply (wf_flat_range a n); [exact Wa|exact Fa|exact Csd|exact Hd|].
    intros j Hj. destruct a as [v|cs]; [exact I|]. unfold hole_at.
    assert (Hjn : In j (seq 0 n)) by (apply in_seq; lia).
    specialize (Choles j Hjn). rewrite !orb_true_iff in Choles.
    destruct Choles as [[Cj|Cj]|Cj]; [apply Nat.leb_le in Cj; lia|apply Nat.ltb_lt in Cj; lia|].
    apply negb_true_iff in Cj. rewrite (meta_of_fold args FL), nth_meta_fold in Cj. cbn [nth orb] in Cj.
    destruct j; cbn [nth orb] in Cj.
    + lia.
    + assert (X : forall l, existsb (fun a => expl_at a (S j)) l = false -> In (ASw cs) l -> expl_at (ASw cs) (S j) = false).
      { intros l E Hin. destruct (expl_at (ASw cs) (S j)) eqn:Q; [|reflexivity].
        assert (existsb (fun a => expl_at a (S j)) l = true) by (apply existsb_exists; now exists (ASw cs)). congruence. }
      apply (X args Cj Ha').
  - intros c Hc. apply in_flat_map in Hc. destruct Hc as (r' & _ & Hc). unfold copies_of in Hc. fold x in Hc. fold aux in Hc.
    destruct (N.eqb (nd x r') 0); [destruct Hc|]. destruct Hc as [<-|[]]. cbn [fst].
    apply N.bits_inj. intros k. unfold aux, nd, x, difficulty_bits, aux_bits.
    rewrite !N.land_spec, N.lor_spec, !N.land_spec, testbit_complement.
    destruct (N.testbit (fd_enable fd) k), (N.testbit m k), (k <? 8)%N; cbn; try reflexivity; now rewrite ?andb_false_r.
Qed.

(* ------------------------------------------------------------------------------------------ *)
(* 5. the Consistent invariant, and the two defects *)

Lemma consistentb_sound fd : consistentb fd = true -> Consistent fd.
Proof.
  unfold consistentb, Consistent. rewrite andb_true_iff, forallb_forall. intros [L H]. split; [now apply N.leb_le|].
  intros b Hb. specialize (H b). rewrite in_seq in H. specialize (H (conj (Nat.le_0_l b) Hb)).
  destruct (by_flag fd b) as [c|]; [|discriminate]. exists c. apply andb_true_iff in H. destruct H as [Hc Hn].
  destruct (by_name fd c) as [b'|]; [|discriminate]. apply Nat.eqb_eq in Hn. subst. auto.
Qed.

Lemma default_defs_consistent : exists fd, default_defs = Ok fd /\ Consistent fd.
Proof. eexists. split; [vm_compute; reflexivity|]. apply consistentb_sound. vm_compute. reflexivity. Qed.

Lemma set_bit_le_255 m i v : (m <= 255)%N -> i < 8 -> (set_bit m i v <= 255)%N.
Proof.
  intros Hm Hi. apply le_255_of_high_bits. intros k Hk. rewrite testbit_set_bit.
  destruct (N.eqb_spec k (N.of_nat i)); [lia|]. apply high_bits; assumption.
Qed.

Lemma define_preserves_consistent fd c i e fd' :
  Consistent fd -> no_repoint fd c i -> define_flag fd c i e = Ok fd' -> Consistent fd'.
Proof.
  intros [HE HC] NR D. unfold define_flag in D.
  destruct (Nat.ltb_spec i NUM_BITS) as [Hi|Hi]; cbn [negb] in D; [|discriminate].
  destruct (is_flag_char c) eqn:Fc; cbn [negb] in D; [|discriminate].
  inversion D; subst fd'; clear D. rewrite num_bits_8 in Hi. split.
  - cbn [fd_enable]. rewrite all_bits_255 in *. now apply set_bit_le_255.
  - intros b Hb. unfold by_flag, by_name. cbn [fd_by_flag fd_by_name lookup_flag lookup_name].
    destruct (Nat.eqb_spec i b) as [->|Hne].
    + exists c. rewrite N.eqb_refl. auto.
    + destruct (HC b Hb) as (c' & Hf & Hc' & Hn'). exists c'. split; [exact Hf|]. split; [exact Hc'|].
      destruct (N.eqb_spec c c') as [->|_]; [|exact Hn'].
      exfalso. apply (NR b Hb); [congruence|exact Hf].
Qed.

(* a sequence of mapfile definitions, none of which re-points a name that another bit prints as *)
Fixpoint ops_no_repoint (fd : flagdefs) (ops : list (Z * list chr)) : Prop :=
  match ops with
  | [] => True
  | (i, s) :: r =>
      match define_flag_from_mapfile fd i s with
      | Ok fd' => match s with c :: _ => no_repoint fd c (Z.to_nat i) | [] => True end /\ ops_no_repoint fd' r
      | _ => True
      end
  end.

Lemma mapfile_ops_preserve_consistent : forall ops fd fd',
  Consistent fd -> ops_no_repoint fd ops -> apply_mapfile_ops fd ops = Ok fd' -> Consistent fd'.
Proof.
  induction ops as [|[i s] ops IH]; intros fd fd' HC NR A.
  - inversion A. now subst.
  - cbn [apply_mapfile_ops] in A. cbn [ops_no_repoint] in NR.
    destruct (define_flag_from_mapfile fd i s) as [fd1| | |] eqn:D; try discriminate. cbn [obind] in A.
    destruct NR as [NR1 NR2]. apply (IH fd1 fd'); [|exact NR2|exact A].
    unfold define_flag_from_mapfile in D.
    destruct (negb _) in D; [discriminate|].
    destruct s as [|c [|pm [|]]]; try discriminate.
    destruct (negb _) in D; [discriminate|]. destruct (negb _) in D; [discriminate|].
    unfold repoint_guard in D.
    destruct (pm =? CH_MINUS)%N.
    { destruct (gen_repoint_check && _) in D; [discriminate|]. apply (define_preserves_consistent fd c (Z.to_nat i) false); assumption. }
    destruct (pm =? CH_PLUS)%N; [|discriminate].
    destruct (gen_repoint_check && _) in D; [discriminate|]. apply (define_preserves_consistent fd c (Z.to_nat i) true); assumption.
Qed.

Lemma no_repointb_sound fd c i : no_repointb fd c i = true -> no_repoint fd c i.
Proof.
  unfold no_repointb, no_repoint. rewrite forallb_forall. intros H b Hb Hne Hf.
  specialize (H b). rewrite in_seq in H. specialize (H (conj (Nat.le_0_l b) Hb)).
  apply orb_true_iff in H. destruct H as [H|H]; [apply Nat.eqb_eq in H; contradiction|].
  rewrite Hf in H. apply negb_true_iff in H. rewrite N.eqb_refl in H. discriminate.
Qed.

(* when the source rejects re-pointing definitions (gen_repoint_check), every accepted sequence of
   definitions preserves the invariant *)
Lemma mapfile_ops_consistent_checked : gen_repoint_check = true -> forall ops fd fd',
  Consistent fd -> apply_mapfile_ops fd ops = Ok fd' -> Consistent fd'.
Proof.
  intros G. induction ops as [|[i s] ops IH]; intros fd fd' HC A.
  - inversion A. now subst.
  - cbn [apply_mapfile_ops] in A.
    destruct (define_flag_from_mapfile fd i s) as [fd1| | |] eqn:D; try discriminate A. cbn [obind] in A.
    apply (IH fd1 fd'); [|exact A].
    unfold define_flag_from_mapfile in D.
    destruct (negb _) in D; [discriminate D|].
    destruct s as [|c [|pm [|]]]; try discriminate D.
    destruct (negb _) in D; [discriminate D|]. destruct (negb _) in D; [discriminate D|].
    unfold repoint_guard in D. rewrite G in D. cbn [andb] in D.
    destruct (pm =? CH_MINUS)%N.
    { destruct (no_repointb fd c (Z.to_nat i)) eqn:NR; cbn [negb] in D; [|discriminate D].
      apply (define_preserves_consistent fd c (Z.to_nat i) false); [exact HC|now apply no_repointb_sound|exact D]. }
    destruct (pm =? CH_PLUS)%N; [|discriminate D].
    destruct (no_repointb fd c (Z.to_nat i)) eqn:NR; cbn [negb] in D; [|discriminate D].
    apply (define_preserves_consistent fd c (Z.to_nat i) true); [exact HC|now apply no_repointb_sound|exact D].
Qed.

Lemma label_roundtrip_reachable : gen_repoint_check = true -> forall ops fd0 fd,
  default_defs = Ok fd0 -> apply_mapfile_ops fd0 ops = Ok fd ->
  forall m, (m <= 255)%N -> exists s, mask_to_label fd m = Ok s /\ parse_label fd s = Ok m.
Proof.
  intros G ops fd0 fd E0 A. apply label_roundtrip_sec.
  apply (mapfile_ops_consistent_checked G ops fd0 fd); [|exact A].
  destruct default_defs_consistent as (fd0' & E0' & HC). rewrite E0 in E0'. inversion E0'. now subst.
Qed.

(* known defect #10: a mapfile may give two bits one name *)
Definition dup_ops : list (Z * list chr) := [(0%Z, [69; 45]%N); (4%Z, [69; 45]%N)].   (* `0 E-`, `4 E-` *)

Lemma label_roundtrip_all_defs_refuted : gen_repoint_check = false ->
  exists fd0 fd m s, default_defs = Ok fd0 /\ apply_mapfile_ops fd0 dup_ops = Ok fd /\ (m <= 255)%N /\
    mask_to_label fd m = Ok s /\ parse_label fd s <> Ok m.
Proof.
  intros G. first [ vm_compute in G; discriminate G
                  | eexists; eexists; exists 1%N, [69%N];
                    (split; [vm_compute; reflexivity|]); (split; [vm_compute; reflexivity|]); (split; [lia|]);
                    (split; [vm_compute; reflexivity|]); vm_compute; intros X; discriminate X ].
Qed.

(* nested switches: the copy that applies on difficulty 1 carries the value of difficulty 0 *)
Definition nested_arg : arg :=
  ASw (CSome (ASw (CSome (AVal 1) (CSome (AVal 2) (CSome (AVal 3) (CSome (AVal 4) CNil))))) (CNone (CNone (CNone CNil)))).

Lemma elaborate_nested_refuted : gen_nested_meta = false ->
  exists fd copies, default_defs = Ok fd /\ elaborate fd 255 [nested_arg] = Ok copies /\
    filter (fun c => bit (fst c) 1) copies = [(15%N, [1%Z])] /\ meaning nested_arg 1 = Ok 2%Z.
Proof.
  intros G. first [ vm_compute in G; discriminate G
                  | eexists; eexists; (split; [vm_compute; reflexivity|]); (split; [vm_compute; reflexivity|]); split; vm_compute; reflexivity ].
Qed.

(* with the fix (gen_nested_meta) the nested statement of the witness is elaborated as it means *)
Lemma elaborate_nested_fixed_example : gen_nested_meta = true ->
  exists fd, default_defs = Ok fd /\
    elaborate fd 255 [nested_arg] = Ok [(1%N, [1%Z]); (2%N, [2%Z]); (4%N, [3%Z]); (8%N, [4%Z])].
Proof.
  intros G. first [ vm_compute in G; discriminate G | eexists; split; vm_compute; reflexivity ].
Qed.
