(* Proofs/PixelSources.v -- C17: image sources.  Entries sharing a path are matched in order of appearance,
   the last source that has an image for an entry wins, an ANM source's texture is copied verbatim. *)
From TV Require Import Base.I32 Base.F32 Model.Pixel Gen.Pixel Spec.ImageSources Proofs.PixelSweep Proofs.Pixel.
Open Scope Z_scope.

Section Src.
  Variable pngfile : Type.
  Notation wentry := (wentry pngfile).
  Notation source := (source pngfile).
  Notation apply_anm := (apply_anm pngfile).
  Notation apply_source := (apply_source pngfile).
  Notation apply_sources := (apply_sources pngfile).
  Notation update_from_anm := (update_from_anm pngfile).
  Notation update_from_dir := (update_from_dir pngfile).

  Definition pfilter (p : nat) (q : list sentry) := filter (fun s => Nat.eqb (se_path s) p) q.

  Lemma pop_path_some p : forall q s q', pop_path p q = Some (s, q') ->
    pfilter p q = s :: pfilter p q' /\ forall p', p' <> p -> pfilter p' q' = pfilter p' q.
  Proof.
    induction q as [|x q IH]; intros s q' H; cbn [pop_path] in H; [discriminate|].
    destruct (Nat.eqb_spec (se_path x) p) as [E|E].
    - inversion H; subst. unfold pfilter. cbn [filter]. rewrite Nat.eqb_refl. split; auto.
      intros p' Hp. destruct (Nat.eqb_spec (se_path s) p'); [congruence|reflexivity].
    - destruct (pop_path p q) as [[y t']|] eqn:Ep; [|discriminate]. inversion H; subst.
      destruct (IH _ _ eq_refl) as [A B]. unfold pfilter in *. cbn [filter].
      destruct (Nat.eqb_spec (se_path x) p); [congruence|]. split; auto.
      intros p' Hp. destruct (Nat.eqb (se_path x) p'); [f_equal|]; auto.
  Qed.

  Lemma pop_path_none p : forall q, pop_path p q = None -> pfilter p q = [].
  Proof.
    induction q as [|x q IH]; intros H; cbn [pop_path] in H; auto.
    unfold pfilter in *. cbn [filter].
    destruct (Nat.eqb (se_path x) p); [discriminate|].
    destruct (pop_path p q) as [[y t']|]; [discriminate|]. auto.
  Qed.

  Lemma update_from_anm_path d s : we_path _ (update_from_anm d s) = we_path _ d.
  Proof. reflexivity. Qed.

  Lemma rank_cons p0 paths i :
    rank (p0 :: paths) (S i) = ((if Nat.eq_dec p0 (nth i paths O) then 1 else 0) + rank paths i)%nat.
  Proof. unfold rank. cbn [firstn nth count_occ]. destruct (Nat.eq_dec p0 (nth i paths O)); reflexivity. Qed.

  (* entries sharing a path are matched to source entries in order of appearance *)
  Theorem same_path_matched_in_order : forall ds q i d,
    nth_error ds i = Some d ->
    nth_error (apply_anm q ds) i =
      Some (match matched q (map (we_path _) ds) i with Some s => update_from_anm d s | None => d end).
  Proof.
    induction ds as [|d0 ds IH]; intros q i d H; [destruct i; discriminate|].
    destruct i as [|i].
    - cbn in H. inversion H; subst d0. cbn [apply_anm map].
      unfold matched, rank. cbn [nth firstn count_occ]. fold (pfilter (we_path _ d) q).
      destruct (pop_path (we_path _ d) q) as [[s q']|] eqn:Ep.
      + destruct (pop_path_some _ _ _ _ Ep) as [A _]. rewrite A. reflexivity.
      + rewrite (pop_path_none _ _ Ep). reflexivity.
    - cbn [nth_error] in H. cbn [apply_anm map].
      assert (M : forall q'', (match pop_path (we_path _ d0) q with Some (_, q') => q' | None => q end) = q'' ->
                  matched q (we_path _ d0 :: map (we_path _) ds) (S i) = matched q'' (map (we_path _) ds) i).
      { intros q'' Hq. unfold matched. rewrite rank_cons. cbn [nth].
        set (p := nth i (map (we_path _) ds) O). fold (pfilter p q). fold (pfilter p q'').
        destruct (pop_path (we_path _ d0) q) as [[s q']|] eqn:Ep; subst q''.
        - destruct (pop_path_some _ _ _ _ Ep) as [A B].
          destruct (Nat.eq_dec (we_path _ d0) p) as [E|E].
          + rewrite <- E, A. reflexivity.
          + rewrite B by auto. reflexivity.
        - destruct (Nat.eq_dec (we_path _ d0) p) as [E|E]; [|reflexivity].
          rewrite <- E, (pop_path_none _ _ Ep). cbn. destruct (rank (map (we_path _) ds) i); reflexivity. }
      destruct (pop_path (we_path _ d0) q) as [[s q']|] eqn:Ep; cbn [nth_error];
        rewrite (IH _ _ _ H), (M _ eq_refl); reflexivity.
  Qed.

  Lemma apply_anm_paths : forall ds q, map (we_path _) (apply_anm q ds) = map (we_path _) ds.
  Proof.
    induction ds as [|d ds IH]; intros q; cbn [apply_anm map]; auto.
    destruct (pop_path (we_path _ d) q) as [[s q']|]; cbn [map]; now rewrite IH.
  Qed.

  Lemma update_from_dir_path fs d : we_path _ (update_from_dir fs d) = we_path _ d.
  Proof. unfold Pixel.update_from_dir. destruct (lookup_file _ _ fs); reflexivity. Qed.

  Lemma apply_source_paths ds s : map (we_path _) (apply_source ds s) = map (we_path _) ds.
  Proof.
    destruct s as [q|fs]; cbn [Pixel.apply_source]. { apply apply_anm_paths. }
    rewrite map_map. apply map_ext. apply update_from_dir_path.
  Qed.

  Lemma apply_sources_paths srcs : forall ds, map (we_path _) (apply_sources srcs ds) = map (we_path _) ds.
  Proof.
    induction srcs as [|s srcs IH]; intros ds; cbn; auto.
    unfold Pixel.apply_sources in *. cbn [fold_left]. now rewrite IH, apply_source_paths.
  Qed.

  (* one source, entry by entry *)
  Lemma apply_source_nth ds s i d : nth_error ds i = Some d ->
    nth_error (apply_source ds s) i = Some (source_update _ s (map (we_path _) ds) i d).
  Proof.
    intros H. destruct s as [q|fs]; cbn [Pixel.apply_source source_update].
    - now apply same_path_matched_in_order.
    - now rewrite nth_error_map, H.
  Qed.

  Lemma nth_path ds i (d : wentry) : nth_error ds i = Some d -> nth i (map (we_path _) ds) O = we_path _ d.
  Proof.
    revert i. induction ds as [|x ds IH]; intros [|i] H; try discriminate; cbn in *.
    - now inversion H.
    - now apply IH.
  Qed.

  Lemma same_paths_nth (ds ds' : list wentry) i d : map (we_path _) ds' = map (we_path _) ds ->
    nth_error ds i = Some d -> exists d', nth_error ds' i = Some d'.
  Proof.
    intros E H. destruct (nth_error ds' i) eqn:N; eauto.
    apply nth_error_None in N. assert (L : length ds' = length ds) by (rewrite <- (map_length (we_path _) ds'), E; apply map_length).
    assert (i < length ds)%nat by (apply nth_error_Some; congruence). lia.
  Qed.

  Lemma loaded_update s paths i (d : wentry) : nth i paths O = we_path _ d ->
    we_loaded _ (source_update _ s paths i d) =
      match supplies _ s paths i with Some l => l | None => we_loaded _ d end.
  Proof.
    intros Hp. destruct s as [q|fs]; cbn [source_update supplies].
    - destruct (matched q paths i) as [se|]; auto. unfold Pixel.update_from_anm. cbn. destruct (se_tex se); reflexivity.
    - unfold Pixel.update_from_dir. rewrite Hp. destruct (lookup_file _ _ fs); reflexivity.
  Qed.

  Lemma no_match_update s paths i (d : wentry) : nth i paths O = we_path _ d ->
    no_match _ s paths i -> source_update _ s paths i d = d.
  Proof.
    intros Hp H. destruct s as [q|fs]; cbn [source_update no_match] in *.
    - now rewrite H.
    - unfold Pixel.update_from_dir. now rewrite <- Hp, H.
  Qed.

  Lemma apply_sources_app a b ds : apply_sources (a ++ b) ds = apply_sources b (apply_sources a ds).
  Proof. unfold Pixel.apply_sources. apply fold_left_app. Qed.

  (* later sources that have no image for the entry leave its loaded texture alone *)
  Lemma later_sources_keep_loaded srcs : forall ds i d,
    nth_error ds i = Some d ->
    (forall s', In s' srcs -> supplies _ s' (map (we_path _) ds) i = None) ->
    exists d', nth_error (apply_sources srcs ds) i = Some d' /\ we_loaded _ d' = we_loaded _ d.
  Proof.
    induction srcs as [|s srcs IH]; intros ds i d H Hn; [exists d; auto|].
    unfold Pixel.apply_sources. cbn [fold_left]. fold (apply_sources srcs (apply_source ds s)).
    pose proof (apply_source_nth ds s i d H) as N1.
    destruct (IH _ _ _ N1) as (d' & A & B).
    { intros s' Hs. rewrite apply_source_paths. apply Hn. now right. }
    exists d'. split; auto. rewrite B, loaded_update by (now apply nth_path).
    now rewrite (Hn s (or_introl eq_refl)).
  Qed.

  (* when several image sources supply the same entry, the last one wins *)
  Theorem last_source_wins srcs1 s srcs2 ds i d l :
    nth_error ds i = Some d ->
    supplies _ s (map (we_path _) ds) i = Some l ->
    (forall s', In s' srcs2 -> supplies _ s' (map (we_path _) ds) i = None) ->
    exists d', nth_error (apply_sources (srcs1 ++ s :: srcs2) ds) i = Some d' /\ we_loaded _ d' = l.
  Proof.
    intros H Hs Hn.
    rewrite apply_sources_app. change (s :: srcs2) with ([s] ++ srcs2). rewrite apply_sources_app.
    set (ds1 := apply_sources srcs1 ds).
    assert (P1 : map (we_path _) ds1 = map (we_path _) ds) by apply apply_sources_paths.
    destruct (same_paths_nth ds ds1 i d P1 H) as (d1 & N1).
    assert (N2 := apply_source_nth ds1 s i d1 N1).
    change (apply_sources [s] ds1) with (apply_source ds1 s).
    destruct (later_sources_keep_loaded srcs2 _ _ _ N2) as (d' & A & B).
    { intros s' Hs'. rewrite apply_source_paths, P1. now apply Hn. }
    exists d'. split; auto. rewrite B, loaded_update by (now apply nth_path). now rewrite P1, Hs.
  Qed.

  (* later sources that have nothing for the entry leave it untouched *)
  Lemma later_sources_keep_entry srcs : forall ds i d,
    nth_error ds i = Some d ->
    (forall s', In s' srcs -> no_match _ s' (map (we_path _) ds) i) ->
    nth_error (apply_sources srcs ds) i = Some d.
  Proof.
    induction srcs as [|s srcs IH]; intros ds i d H Hn; auto.
    unfold Pixel.apply_sources. cbn [fold_left]. fold (apply_sources srcs (apply_source ds s)).
    apply IH.
    - rewrite (apply_source_nth ds s i d H). f_equal. apply no_match_update; [now apply nth_path|].
      apply Hn. now left.
    - intros s' Hs. rewrite apply_source_paths. apply Hn. now right.
  Qed.

  (* explicit fields are never changed by sources *)
  Definition expl {A} (s : soft A) : option A := match s with Explicit v => Some v | _ => None end.
  Definition expl_specs (sp : wspecs) :=
    (expl (s_w sp), expl (s_h sp), expl (s_fmt sp), expl (s_has sp), expl (s_ox sp), expl (s_oy sp)).

  Lemma expl_set_soft {A} (s : soft A) v : expl (set_soft s v) = expl s.
  Proof. destruct s; reflexivity. Qed.

  Lemma expl_update s paths i (d : wentry) :
    expl_specs (we_specs _ (source_update _ s paths i d)) = expl_specs (we_specs _ d).
  Proof.
    destruct s as [q|fs]; cbn [source_update].
    - destruct (matched q paths i) as [se|]; auto.
      unfold Pixel.update_from_anm, expl_specs. cbn. destruct (se_tex se); now rewrite ?expl_set_soft.
    - unfold Pixel.update_from_dir. destruct (lookup_file _ _ fs); reflexivity.
  Qed.

  Lemma expl_sources srcs : forall ds i d d',
    nth_error ds i = Some d -> nth_error (apply_sources srcs ds) i = Some d' ->
    expl_specs (we_specs _ d') = expl_specs (we_specs _ d).
  Proof.
    induction srcs as [|s srcs IH]; intros ds i d d' H H'.
    - cbn in H'. congruence.
    - unfold Pixel.apply_sources in H'. cbn [fold_left] in H'. fold (apply_sources srcs (apply_source ds s)) in H'.
      rewrite (IH _ _ _ _ (apply_source_nth ds s i d H) H'). apply expl_update.
  Qed.

  Lemma agrees_expl {A} (s s' : soft A) v : expl s' = expl s -> soft_agrees s v -> soft_agrees s' v.
  Proof. destruct s, s'; cbn; intros E H; try discriminate; auto. inversion E. congruence. Qed.

  Variable png_dec : pngfile -> option image.

  (* using an ANM file as image source copies textures verbatim: whatever the earlier sources did, if the last source
     with a match for the entry is an ANM file whose matched entry has a texture, and the script does not explicitly
     ask for something else, exactly that THTX section is written -- any format number, any bytes *)
  Theorem anm_source_verbatim srcs1 q srcs2 ds i d se t :
    nth_error ds i = Some d ->
    matched q (map (we_path _) ds) i = Some se -> se_tex se = Some t ->
    (forall s', In s' srcs2 -> no_match _ s' (map (we_path _) ds) i) ->
    soft_agrees (s_w (we_specs _ d)) (t_w t) -> soft_agrees (s_h (we_specs _ d)) (t_h t) ->
    soft_agrees (s_fmt (we_specs _ d)) (t_fmt t) -> soft_agrees (s_has (we_specs _ d)) true ->
    exists d', nth_error (apply_sources (srcs1 ++ SAnm q :: srcs2) ds) i = Some d' /\
               finalize_entry _ png_dec T d' = Ok (Some t).
  Proof.
    intros H Hm Ht Hn Aw Ah Af Ahas.
    rewrite apply_sources_app. change (SAnm q :: srcs2) with ([SAnm q] ++ srcs2). rewrite apply_sources_app.
    set (ds1 := apply_sources srcs1 ds).
    assert (P1 : map (we_path _) ds1 = map (we_path _) ds) by apply apply_sources_paths.
    destruct (same_paths_nth ds ds1 i d P1 H) as (d1 & N1).
    assert (N2 := apply_source_nth ds1 (SAnm q) i d1 N1).
    change (apply_sources [SAnm q] ds1) with (apply_source ds1 (SAnm q)).
    cbn [source_update] in N2. rewrite P1, Hm in N2.
    eexists. split.
    - apply later_sources_keep_entry; [exact N2|]. intros s' Hs. rewrite apply_source_paths, P1. now apply Hn.
    - pose proof (expl_sources srcs1 ds i d d1 H N1) as E. unfold expl_specs in E.
      inversion E as [[Ew Eh Ef Ehas Eox Eoy]]. clear E.
      pose proof (agrees_expl _ _ _ Ew Aw) as Bw. pose proof (agrees_expl _ _ _ Eh Ah) as Bh.
      pose proof (agrees_expl _ _ _ Ef Af) as Bf. pose proof (agrees_expl _ _ _ Ehas Ahas) as Bhas.
      unfold finalize_entry, Pixel.update_from_anm. rewrite Ht. cbn [we_specs we_loaded s_w s_h s_fmt s_has s_ox s_oy].
      unfold validate_and_transcode. cbn [s_w s_h s_fmt].
      rewrite (check_dim_ok _ _ Bw), (check_dim_ok _ _ Bh). cbn [obind].
      assert (Ff : into_option (set_soft_if_missing (set_soft (s_fmt (we_specs _ d1)) (t_fmt t)) (pt_fmt_num T Argb8888)) = Some (t_fmt t)).
      { destruct (s_fmt (we_specs _ d1)); cbn in *; congruence. }
      assert (Fh : into_option (set_soft_if_missing (set_soft (s_has (we_specs _ d1)) true) true) = Some true).
      { destruct (s_has (we_specs _ d1)); cbn in *; congruence. }
      rewrite Ff, Z.eqb_refl. cbn [obind fst snd s_has s_w s_h s_fmt]. rewrite Fh, Ff.
      rewrite (set_soft_agrees _ _ Bw), (set_soft_agrees _ _ Bh). cbn [opt_nat opt_z]. destruct t; reflexivity.
  Qed.

  (* an explicit `has_data: false` in the script is never overridden by a source *)
  Theorem explicit_beats_source srcs ds i d d' r :
    nth_error ds i = Some d -> s_has (we_specs _ d) = Explicit false ->
    nth_error (apply_sources srcs ds) i = Some d' ->
    finalize_entry _ png_dec T d' = Ok r -> r = None.
  Proof.
    intros H Hh H' F.
    pose proof (expl_sources srcs ds i d d' H H') as E. unfold expl_specs in E. inversion E as [[A1 A2 A3 Ehas A5 A6]].
    rewrite Hh in Ehas. cbn in Ehas.
    assert (Eh : s_has (we_specs _ d') = Explicit false) by (destruct (s_has (we_specs _ d')); cbn in Ehas; congruence).
    unfold finalize_entry in F. rewrite Eh in F. cbn [set_soft_if_missing] in F.
    destruct (we_loaded _ d') as [|t|f]; cbn [obind fst snd s_has into_option] in F.
    - now inversion F.
    - destruct (validate_and_transcode T _ t); cbn [obind fst snd s_has into_option] in F; try discriminate. now inversion F.
    - unfold load_img in F. cbn [s_has s_ox s_oy s_w s_h into_option] in F.
      destruct (png_dec f); [|discriminate].
      destruct (_ || _)%bool; [discriminate|]. destruct (negb _); [discriminate|].
      cbn [obind fst snd s_has into_option] in F. now inversion F.
  Qed.
End Src.
