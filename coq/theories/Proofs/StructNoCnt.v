(* Proofs/StructNoCnt.v -- once count jumps are excluded from cond-chain reconstruction (guard g_if_cnt,
   truth commit 9533770), no cond block ever tests a negated count jump. *)
From TV Require Import Base.I32 Model.Structure Proofs.StructBasics Proofs.StructLoop Proofs.StructBreak.
Open Scope nat_scope.

Definition is_cnt (c : cond) : bool := match c with CCnt _ _ _ => true | _ => false end.
Definition cb_ok (cb : cblock) : Prop := is_cnt (cb_cond cb) = false.

Lemma neg_cond_cnt N c nc : neg_cond N c = Some nc -> is_cnt nc = is_cnt c.
Proof.
  destruct c as [op a b|op a b|n]; cbn; try discriminate;
    destruct (N op); try discriminate; intros H; inversion H; reflexivity.
Qed.

(* sub-lists *)
Lemma forallb_firstn {A} (p : A -> bool) n l : forallb p l = true -> forallb p (firstn n l) = true.
Proof.
  revert n; induction l as [|x t IH]; intros [|n] H; cbn in *; auto.
  apply andb_true_iff in H as [Hx Ht]. now rewrite Hx, IH.
Qed.
Lemma forallb_skipn {A} (p : A -> bool) n l : forallb p l = true -> forallb p (skipn n l) = true.
Proof.
  revert n; induction l as [|x t IH]; intros [|n] H; cbn in *; auto.
  apply andb_true_iff in H as [Hx Ht]. now apply IH.
Qed.
Lemma forallb_tl {A} (p : A -> bool) l : forallb p l = true -> forallb p (tl l) = true.
Proof. destruct l; cbn; auto. intros H. apply andb_true_iff in H as [_ Ht]. exact Ht. Qed.
Lemma forallb_removelast {A} (p : A -> bool) l : forallb p l = true -> forallb p (removelast l) = true.
Proof.
  induction l as [|x t IH]; cbn; auto. intros H. apply andb_true_iff in H as [Hx Ht].
  destruct t; cbn in *; auto. now rewrite Hx, IH.
Qed.
Lemma forallb_nth (p : stmt -> bool) n l : forallb p l = true -> p SNo = true -> p (nth n l SNo) = true.
Proof.
  revert n; induction l as [|x t IH]; intros [|n] H H0; cbn in *; auto;
    apply andb_true_iff in H as [Hx Ht]; auto.
Qed.
Lemma forallb_slice (p : stmt -> bool) blk a b : forallb p blk = true -> forallb p (slice blk a b) = true.
Proof. intros H. unfold slice. now apply forallb_firstn, forallb_skipn. Qed.

Section NoCnt.
  Variable N : binop -> option binop.
  Variable G : guards.
  Hypothesis Gcnt : g_if_cnt G = true.

  Lemma gather_nocnt : forall fuel ji src known acc info,
    gather N G fuel ji src known acc = Some info -> Forall cb_ok acc -> Forall cb_ok (ci_chain info).
  Proof.
    induction fuel as [|fuel IH]; intros ji src known acc info H Hacc; [discriminate|].
    cbn [gather] in H.
    destruct (ji src) as [ifj|]; [|discriminate].
    destruct (g_if_time G && negb (is_none (j_time ifj))); [discriminate|].
    destruct (g_if_dir G && negb (src <? j_dest ifj)); [discriminate|].
    destruct (j_kind ifj) as [|c]; [discriminate|].
    rewrite Gcnt in H. cbn [andb] in H.
    destruct (match c with CCnt _ _ _ => true | _ => false end) eqn:Hc; [discriminate|].
    destruct (neg_cond N c) as [nc|] eqn:Hneg; [|discriminate].
    assert (Hch : Forall cb_ok (acc ++ [{| cb_cond := nc; cb_if := src; cb_label := j_dest ifj |}])).
    { apply Forall_app. split; auto. constructor; [|constructor]. unfold cb_ok. cbn.
      rewrite (neg_cond_cnt _ _ _ Hneg). exact Hc. }
    destruct (if Nat.eqb src (j_dest ifj - 1) then None else ji (j_dest ifj - 1)) as [uj|].
    - destruct (g_if_rc G && (1 <? j_rc ifj)); [discriminate|].
      destruct (g_un_time G && negb (is_none (j_time uj))); [discriminate|].
      destruct (g_un_kind G && match j_kind uj with JU => false | JC _ => true end); [discriminate|].
      destruct (g_un_dir G && negb (j_dest ifj - 1 <? j_dest uj)); [discriminate|].
      destruct (g_end_same G && negb (Nat.eqb (match known with Some e => e | None => j_dest uj end) (j_dest uj))); [discriminate|].
      assert (Hfin : (if g_else_order G && (match known with Some e => e | None => j_dest uj end <? j_dest ifj + 1) then None
                      else Some {| ci_chain := acc ++ [{| cb_cond := nc; cb_if := src; cb_label := j_dest ifj |}];
                                   ci_else := Some (j_dest ifj + 1);
                                   ci_end := match known with Some e => e | None => j_dest uj end |}) = Some info ->
                     Forall cb_ok (ci_chain info)).
      { destruct (g_else_order G && _); [discriminate|]. intros Hi; inversion Hi; subst; exact Hch. }
      destruct (ji (j_dest ifj + 1)) as [[d2 r2 t2 [|c2]]|]; try (apply Hfin; exact H).
      eapply IH; eauto.
    - destruct known as [e0|].
      + destruct (g_end_last G && negb (Nat.eqb (j_dest ifj) e0)); [discriminate|]. inversion H; subst; exact Hch.
      + inversion H; subst; exact Hch.
  Qed.

  Lemma build_chain_nocnt blk info :
    no_cnt_chain blk = true -> Forall cb_ok (ci_chain info) -> no_cnt_chain_s (build_chain blk info) = true.
  Proof.
    intros Hb Hc. unfold build_chain. cbn [no_cnt_chain_s]. apply andb_true_iff. split.
    - rewrite forallb_forall. intros cbx Hin. apply in_map_iff in Hin as (cb & <- & Hcb).
      rewrite Forall_forall in Hc. specialize (Hc cb Hcb). unfold cb_ok in Hc. cbn [fst snd].
      apply andb_true_iff. split.
      + destruct (cb_cond cb); try reflexivity; discriminate.
      + cbn [forallb no_cnt_chain_s]. rewrite forallb_app. cbn. rewrite andb_true_r.
        apply forallb_tl. destruct (Nat.eqb (cb_label cb) (ci_end info)).
        * rewrite forallb_app. cbn. rewrite andb_true_r. apply andb_true_iff. split.
          -- now apply forallb_slice.
          -- now apply forallb_nth.
        * apply forallb_removelast. now apply forallb_slice.
    - destruct (ci_else info) as [es|]; [|reflexivity].
      cbn [forallb no_cnt_chain_s]. rewrite forallb_app. cbn. rewrite !andb_true_r.
      apply andb_true_iff. split; [now apply forallb_slice|now apply forallb_nth].
  Qed.

  Lemma scan_nocnt blk ji intrs : no_cnt_chain blk = true -> forall fuel index,
    no_cnt_chain (ifelse_scan N G fuel blk ji intrs index) = true.
  Proof.
    intros Hb. induction fuel as [|fuel IH]; intros index; cbn [ifelse_scan].
    - now apply forallb_skipn.
    - destruct (length blk <=? index); [reflexivity|].
      destruct (gather_checked N G (length blk) ji intrs index) as [info|] eqn:Hg.
      + unfold gather_checked in Hg.
        destruct (gather N G (length blk) ji index None []) as [i0|] eqn:Hg0; [|discriminate].
        destruct (g_chain_intr G && _); [discriminate|]. inversion Hg; subst i0.
        cbn [no_cnt_chain forallb]. fold (no_cnt_chain (ifelse_scan N G fuel blk ji intrs (S (ci_end info)))).
        rewrite IH, andb_true_r. apply build_chain_nocnt; auto.
        eapply gather_nocnt; eauto.
      + cbn [no_cnt_chain forallb]. fold (no_cnt_chain (ifelse_scan N G fuel blk ji intrs (S index))).
        rewrite IH, andb_true_r. now apply forallb_nth.
  Qed.

  Lemma block_nocnt rc : forall fuel blk, no_cnt_chain blk = true -> no_cnt_chain (ifelse_block N G fuel rc blk) = true.
  Proof.
    induction fuel as [|fuel IH]; intros blk Hb; [exact Hb|].
    cbn [ifelse_block].
    pose proof (scan_nocnt blk (block_ji G rc blk) (intr_indices blk) Hb (S (length blk)) 0) as Hs.
    revert Hs. generalize (ifelse_scan N G (S (length blk)) blk (block_ji G rc blk) (intr_indices blk) 0).
    intros l Hl. unfold no_cnt_chain in *. rewrite forallb_forall in *. intros x Hx.
    apply in_map_iff in Hx as (y & <- & Hy). specialize (Hl y Hy).
    destruct y; auto.
    - cbn [no_cnt_chain_s] in *. apply IH. exact Hl.
    - cbn [no_cnt_chain_s] in *. apply andb_true_iff in Hl as [Hbs Hels]. apply andb_true_iff. split.
      + rewrite forallb_forall in *. intros cb Hcb. apply in_map_iff in Hcb as (cb0 & <- & Hcb0).
        specialize (Hbs cb0 Hcb0). apply andb_true_iff in Hbs as [Hc Hb0]. cbn [fst snd].
        rewrite Hc. cbn [andb]. apply IH. exact Hb0.
      + destruct els as [b|]; [|reflexivity]. apply IH. exact Hels.
  Qed.
End NoCnt.

(* the break pass and the unused-label pass do not touch conditions *)
Lemma break_nocnt G allends b : forall cur, no_cnt_chain b = true -> no_cnt_chain (break_block G allends cur b) = true.
Proof.
  assert (Hblk : forall l, Forall (fun s => forall cur nxt, no_cnt_chain_s s = true ->
                                            no_cnt_chain_s (break_s G allends cur nxt s) = true) l ->
                 forall cur, forallb no_cnt_chain_s l = true ->
                             forallb no_cnt_chain_s (break_block G allends cur l) = true).
  { induction 1 as [|x t Hx _ IH]; intros cur Hok; cbn in *; auto.
    apply andb_true_iff in Hok as [H1 H2]. rewrite Hx, IH; auto. }
  assert (Hs : forall s cur nxt, no_cnt_chain_s s = true -> no_cnt_chain_s (break_s G allends cur nxt s) = true).
  { induction s using stmt_ind2; intros cur nxt Hok; try exact Hok.
    - cbn. destruct cur; auto. destruct (g_brk_time G && _); auto. destruct (if g_brk_same G then _ else _); auto.
    - rewrite break_s_loop. cbn [no_cnt_chain_s] in *. now apply Hblk.
    - rewrite break_s_chain. cbn [no_cnt_chain_s] in *. apply andb_true_iff in Hok as [Hbs Hels]. apply andb_true_iff. split.
      + rewrite forallb_forall in *. intros cb Hcb. apply in_map_iff in Hcb as (cb0 & <- & Hcb0).
        specialize (Hbs cb0 Hcb0). apply andb_true_iff in Hbs as [Hc Hb0]. cbn [fst snd].
        rewrite Hc. cbn [andb]. rewrite Forall_forall in H. apply Hblk; auto.
      + destruct els as [b0|]; [|reflexivity]. now apply Hblk. }
  intros cur Hok. apply Hblk; auto. rewrite Forall_forall. intros x _. apply Hs.
Qed.

Lemma unused_nocnt rc b : no_cnt_chain b = true -> no_cnt_chain (unused_block rc b) = true.
Proof.
  assert (Hblk : forall l, Forall (fun s => no_cnt_chain_s s = true -> no_cnt_chain_s (unused_s rc s) = true) l ->
                           forallb no_cnt_chain_s l = true -> forallb no_cnt_chain_s (filter (keep_s rc) (map (unused_s rc) l)) = true).
  { induction 1 as [|x t Hx _ IH]; cbn; auto. intros Hok. apply andb_true_iff in Hok as [H1 H2].
    destruct (keep_s rc (unused_s rc x)); cbn; rewrite ?Hx, ?IH; auto. }
  assert (Hs : forall s, no_cnt_chain_s s = true -> no_cnt_chain_s (unused_s rc s) = true).
  { induction s using stmt_ind2; intros Hok; try exact Hok.
    - cbn [unused_s no_cnt_chain_s] in *. now apply Hblk.
    - cbn [unused_s no_cnt_chain_s] in *. apply andb_true_iff in Hok as [Hbs Hels]. apply andb_true_iff. split.
      + rewrite forallb_forall in *. intros cb Hcb. apply in_map_iff in Hcb as (cb0 & <- & Hcb0).
        specialize (Hbs cb0 Hcb0). apply andb_true_iff in Hbs as [Hc Hb0]. cbn [fst snd].
        rewrite Forall_forall in H. rewrite Hc. cbn. apply Hblk; auto.
      + destruct els as [b0|]; auto. }
  intros Hok. apply Hblk; auto. rewrite Forall_forall. intros x _. apply Hs.
Qed.

Theorem structure_no_cnt N G f :
  g_if_cnt G = true -> g_diff G = true -> g_loop_time G = true -> is_flat f = true -> well_labelled f ->
  no_cnt_chain (structure_with N G [PLoop; PIfElse; PBreak; PUnused] f) = true.
Proof.
  intros Gc Gd Gt Hf Hwl. cbn [structure_with fold_left run_pass].
  apply unused_nocnt. apply break_nocnt. apply block_nocnt; auto.
  exact (loop_pass_no_cnt N true (lookup (lenv st0 f)) st0 G f Gd Gt Hf (well_labelled_consistent f Hwl)).
Qed.
