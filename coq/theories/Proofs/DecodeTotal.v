(* Proofs/DecodeTotal.v -- decode_args_with_abi never panics on a signature the parser can produce:
   `remaining_len` and the cursor position stay in step, so every `.expect("already checked len")` holds,
   every size has a match arm, and `pseudo_arg0.take().expect(..)` finds its argument. *)
From TV Require Import Base.I32 Model.BinScript Model.DecodeArgs Proofs.ReadTotal.
Open Scope Z_scope.

Section Proofs.
  Variable str_ok : list Z -> bool.
  Variable int_sizes pad_sizes : list Z.

  Definition inv (blob : list Z) (st : Z * Z * bool) : Prop :=
    let '(pos, rem, _) := st in 0 <= pos /\ 0 <= rem /\ pos + rem = Z.of_nat (length blob).

  Lemma cursor_read_ok blob pos n rem rem' :
    0 <= pos -> pos + rem = Z.of_nat (length blob) -> decrease_len rem n = Ok rem' ->
    exists b, cursor_read blob pos n = Ok b.
  Proof.
    unfold decrease_len, cursor_read. intros Hp Hl. destruct (Z.ltb_spec rem n); [discriminate|]. intros _.
    destruct (Z.leb_spec (pos + n) (Z.of_nat (length blob))); [eauto|lia].
  Qed.

  Lemma decrease_len_spec rem n : match decrease_len rem n with Ok r => r = rem - n /\ n <= rem | Err _ => True | _ => False end.
  Proof. unfold decrease_len. destruct (Z.ltb_spec rem n); [exact I|split; lia]. Qed.

  Lemma le_val_nonneg l : 0 <= le_val l.
  Proof. pose proof (le_val_range l). lia. Qed.

  Ltac dec rem n :=
    let H := fresh "D" in let r := fresh "r" in
    pose proof (decrease_len_spec rem n) as H;
    destruct (decrease_len rem n) as [r| | |] eqn:?; cbn [obind]; try exact I; try contradiction.

  Lemma decode_one_safe blob e pos rem extra :
    enc_ok int_sizes pad_sizes e = true -> (is_arg0 e = true -> extra = true) -> inv blob (pos, rem, extra) ->
    match decode_one str_ok int_sizes pad_sizes blob e (pos, rem, extra) with
    | Ok st' => inv blob st'
    | Err _ => True
    | _ => False
    end.
  Proof.
    intros OK A0 (Hp & Hr & Hl). destruct e as [size|size arg0| | |s]; cbn [decode_one enc_ok is_arg0] in *.
    - apply andb_true_iff in OK. destruct OK as [M P]. apply Z.ltb_lt in P.
      dec rem size. rewrite M.
      destruct (cursor_read_ok blob pos size rem r Hp Hl Heqo) as [b ->]. cbn [obind]. cbn. lia.
    - destruct arg0.
      + rewrite (A0 eq_refl). cbn. lia.
      + apply andb_true_iff in OK. destruct OK as [M P]. apply Z.ltb_lt in P. rewrite M.
        dec rem size. destruct (cursor_read_ok blob pos size rem r Hp Hl Heqo) as [b ->]. cbn [obind]. cbn. lia.
    - dec rem 4. destruct (cursor_read_ok blob pos 4 rem r Hp Hl Heqo) as [b ->]. cbn [obind]. cbn. lia.
    - dec rem 4. destruct (cursor_read_ok blob pos 4 rem r Hp Hl Heqo) as [b ->]. cbn [obind]. cbn. lia.
    - destruct s as [| |len].
      + cbn [obind]. dec rem rem. destruct (cursor_read_ok blob pos rem rem r Hp Hl Heqo) as [b ->]. cbn [obind].
        destruct (str_ok b); [cbn; lia|exact I].
      + dec rem 4. destruct (cursor_read_ok blob pos 4 rem r Hp Hl Heqo) as [b ->]. cbn [obind].
        pose proof (le_val_nonneg b).
        dec r (le_val b).
        assert (Hl' : pos + 4 + r = Z.of_nat (length blob)) by lia.
        destruct (cursor_read_ok blob (pos + 4) (le_val b) r r0 ltac:(lia) Hl' Heqo0) as [b' ->]. cbn [obind].
        destruct (str_ok b'); [cbn; lia|exact I].
      + apply Z.leb_le in OK. cbn [obind]. dec rem len.
        destruct (cursor_read_ok blob pos len rem r Hp Hl Heqo) as [b ->]. cbn [obind].
        destruct (str_ok b); [cbn; lia|exact I].
  Qed.

  Lemma decode_one_extra blob e pos rem extra pos' rem' extra' :
    decode_one str_ok int_sizes pad_sizes blob e (pos, rem, extra) = Ok (pos', rem', extra') -> True.
  Proof. trivial. Qed.

  Lemma decode_all_safe blob : forall es st,
    forallb (enc_ok int_sizes pad_sizes) es = true ->
    match es with
    | [] => True
    | e :: t => (is_arg0 e = true -> snd st = true) /\ existsb is_arg0 t = false
    end ->
    inv blob st ->
    ok_or_err (decode_all str_ok int_sizes pad_sizes blob es st).
  Proof.
    induction es as [|e t IH]; intros [[pos rem] extra] OK A I0; cbn [decode_all]; [exact I|].
    cbn [forallb] in OK. apply andb_true_iff in OK. destruct OK as [Oe Ot]. destruct A as [A1 A2]. cbn [snd] in A1.
    pose proof (decode_one_safe blob e pos rem extra Oe A1 I0) as S1.
    destruct (decode_one str_ok int_sizes pad_sizes blob e (pos, rem, extra)) as [st'| | |]; cbn [obind]; try exact I; try contradiction.
    apply IH; auto.
    destruct t as [|e2 t2]; [exact I|]. cbn [existsb] in A2. apply orb_false_iff in A2. destruct A2 as [B1 B2].
    split; [rewrite B1; discriminate|exact B2].
  Qed.

  Theorem decode_total blob es has_extra :
    encs_valid int_sizes pad_sizes es has_extra = true ->
    ok_or_err (decode_args str_ok int_sizes pad_sizes blob es has_extra).
  Proof.
    unfold encs_valid, decode_args. rewrite andb_true_iff. intros [OK A].
    assert (S1 : ok_or_err (decode_all str_ok int_sizes pad_sizes blob es (0, Z.of_nat (length blob), has_extra))).
    { apply decode_all_safe; auto.
      - destruct es as [|e t]; [exact I|]. apply andb_true_iff in A. destruct A as [A1 A2]. cbn [snd]. split.
        + intros H. rewrite H in A1. cbn in A1. exact A1.
        + now apply negb_true_iff in A2.
      - cbn. lia. }
    destruct (decode_all str_ok int_sizes pad_sizes blob es (0, Z.of_nat (length blob), has_extra)); cbn [obind]; auto.
  Qed.
End Proofs.

(* a size without a decoder arm, or an arg0 argument in a language without one, panics *)
Lemma decode_unvalidated_refuted :
  decode_args (fun _ => true) [1; 2; 4] [1; 4] [0; 0; 0] [EncInt 3 false] false = Panic P_UNREACH /\
  decode_args (fun _ => true) [1; 2; 4] [1; 4] [0; 0] [EncInt 2 true] false = Panic P_EXPECT /\
  decode_args (fun _ => true) [1; 2; 4] [1; 4] [0; 0] [EncInt 2 true; EncInt 2 true] true = Panic P_EXPECT.
Proof. repeat split; vm_compute; reflexivity. Qed.

Example decode_nonvacuous :
  encs_valid [1; 2; 4] [1; 4] [EncInt 2 true; EncInt 4 false; EncPad 1; EncStr StrPascal] true = true /\
  decode_args (fun _ => true) [1; 2; 4] [1; 4] [1;0;0;0; 0; 2;0;0;0; 65;66] [EncInt 2 true; EncInt 4 false; EncPad 1; EncStr StrPascal] true = Ok tt /\
  decode_args (fun _ => true) [1; 2; 4] [1; 4] [1;0;0;0; 0; 9;0;0;0; 65;66] [EncInt 2 true; EncInt 4 false; EncPad 1; EncStr StrPascal] true = Err E_NOTENOUGH.
Proof. repeat split; vm_compute; reflexivity. Qed.
