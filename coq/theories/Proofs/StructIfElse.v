(* Proofs/StructIfElse.v -- decompile_if_else preserves the canonical stream (for a compiler that can lower
   the negation of every condition the pass negates; the count-jump exception is handled in StructTop.v). *)
From TV Require Import Base.I32 Model.Structure Proofs.StructBasics Proofs.StructRel Proofs.StructLoop.
Open Scope nat_scope.

(* ------------------------------------------------------------------------------------------ *)
(* slices *)

Lemma skipn_skipn' {A} (l : list A) a b : skipn a (skipn b l) = skipn (a + b) l.
Proof.
  revert l; induction b as [|b IH]; intros l; cbn.
  - now rewrite Nat.add_0_r.
  - destruct l as [|x l]; cbn.
    + now rewrite !skipn_nil.
    + rewrite IH. replace (a + S b) with (S (a + b)) by lia. reflexivity.
Qed.

Lemma firstn_add' {A} (l : list A) a b : firstn (a + b) l = firstn a l ++ firstn b (skipn a l).
Proof.
  revert l; induction a as [|a IH]; intros l; cbn; [reflexivity|].
  destruct l as [|x l]; cbn; [now rewrite firstn_nil|]. now rewrite IH.
Qed.

Lemma slice_split (blk : list stmt) a b c : a <= b -> b <= c -> slice blk a c = slice blk a b ++ slice blk b c.
Proof.
  intros Hab Hbc. unfold slice.
  replace (c - a) with ((b - a) + (c - b)) by lia.
  rewrite firstn_add'. f_equal. rewrite skipn_skipn'. now replace (b - a + a) with b by lia.
Qed.

Lemma slice_one (blk : list stmt) i x : nth_error blk i = Some x -> slice blk i (S i) = [x].
Proof.
  intros H. unfold slice. replace (S i - i) with 1 by lia.
  rewrite (nth_error_split _ _ _ H) at 1. rewrite skipn_app.
  assert (Hlen : length (firstn i blk) = i).
  { apply firstn_length_le. apply Nat.lt_le_incl. apply nth_error_Some. congruence. }
  rewrite Hlen, Nat.sub_diag. rewrite skipn_all2 by lia. reflexivity.
Qed.

Lemma skipn_slice (blk : list stmt) i j : i <= j -> skipn i blk = slice blk i j ++ skipn j blk.
Proof.
  intros Hij. unfold slice. rewrite <- (firstn_skipn (j - i) (skipn i blk)) at 1. f_equal.
  rewrite skipn_skipn'. now replace (j - i + i) with j by lia.
Qed.

Lemma firstn_slice (blk : list stmt) i j : i <= j -> firstn j blk = firstn i blk ++ slice blk i j.
Proof.
  intros Hij. unfold slice. replace j with (i + (j - i)) at 1 by lia. apply firstn_add'.
Qed.

Lemma slice_nil (blk : list stmt) i : slice blk i i = [].
Proof. unfold slice. now rewrite Nat.sub_diag. Qed.

Lemma nth_nth_error (blk : list stmt) i x : nth_error blk i = Some x -> nth i blk SNo = x.
Proof. intros H. now apply nth_error_nth. Qed.

(* ------------------------------------------------------------------------------------------ *)
(* the relation used for this pass: same stream, labels may disappear, but only labels with at most one
   reference in the whole function, and together with a reference *)

Definition cntl (L : list nat) (l : nat) : nat := count_occ Nat.eq_dec L l.
Lemma cntl_app a b l : cntl (a ++ b) l = cntl a l + cntl b l.
Proof. apply count_occ_app. Qed.

Definition mono (R R' : list nat) : Prop := forall l, cntl R' l <= cntl R l.

Lemma mono_refl R : mono R R. Proof. intros l; lia. Qed.
Lemma mono_app a a' b b' : mono a a' -> mono b b' -> mono (a ++ b) (a' ++ b').
Proof. intros Ha Hb l. rewrite !cntl_app. specialize (Ha l). specialize (Hb l). lia. Qed.
Lemma mono_trans a b c : mono a b -> mono b c -> mono a c.
Proof. intros Hab Hbc l. specialize (Hab l). specialize (Hbc l). lia. Qed.
Lemma mono_in R R' l : mono R R' -> In l R' -> In l R.
Proof.
  intros H Hin. apply (count_occ_In Nat.eq_dec) in Hin. apply (count_occ_In Nat.eq_dec).
  specialize (H l). unfold cntl in H. lia.
Qed.

Section Drops.
  Variable rc : nat -> nat.

  Definition drops (L L' : list (nat * state)) (R R' : list nat) : Prop :=
    forall l, In l (map fst L) -> ~ In l (map fst L') -> rc l <= 1 /\ cntl R' l < cntl R l.

  Lemma drops_refl L R : drops L L R R.
  Proof. intros l H1 H2. contradiction. Qed.

  Lemma drops_app L1 L1' L2 L2' R1 R1' R2 R2' :
    mono R1 R1' -> mono R2 R2' -> drops L1 L1' R1 R1' -> drops L2 L2' R2 R2' ->
    drops (L1 ++ L2) (L1' ++ L2') (R1 ++ R2) (R1' ++ R2').
  Proof.
    intros M1 M2 D1 D2 l Hin Hnot. rewrite map_app in *. rewrite !cntl_app.
    assert (Hn1 : ~ In l (map fst L1')) by (intros H; apply Hnot, in_or_app; auto).
    assert (Hn2 : ~ In l (map fst L2')) by (intros H; apply Hnot, in_or_app; auto).
    specialize (M1 l). specialize (M2 l).
    apply in_app_or in Hin as [Hin|Hin].
    - destruct (D1 l Hin Hn1). split; auto. lia.
    - destruct (D2 l Hin Hn2). split; auto. lia.
  Qed.

  Lemma drops_trans L L' L'' R R' R'' :
    mono R R' -> mono R' R'' -> drops L L' R R' -> drops L' L'' R' R'' -> drops L L'' R R''.
  Proof.
    intros M1 M2 D1 D2 l Hin Hnot. specialize (M1 l). specialize (M2 l).
    destruct (in_dec Nat.eq_dec l (map fst L')) as [Hmid|Hmid].
    - destruct (D2 l Hmid Hnot). split; auto. lia.
    - destruct (D1 l Hin Hmid). split; auto. lia.
  Qed.
End Drops.

Section IRel.
  Variable N : binop -> option binop.
  Variable E : env.
  Variable rc : nat -> nat.
  Let nokeep : nat -> Prop := fun _ => False.

  Definition irel (brk : option state) (st : state) (b b' : list stmt) : Prop :=
    brel N true E nokeep brk st b b' /\ mono (refs b) (refs b') /\ drops rc (lenv st b) (lenv st b') (refs b) (refs b').
  Definition isrel (brk : option state) (st : state) (s s' : stmt) : Prop :=
    srel N true E nokeep brk st s s' /\ mono (refs_s s) (refs_s s')
    /\ drops rc (lenv_s st s) (lenv_s st s') (refs_s s) (refs_s s').

  Lemma irel_refl brk st b : irel brk st b b.
  Proof. split; [apply brel_refl|split; [apply mono_refl|apply drops_refl]]. Qed.
  Lemma isrel_refl brk st s : isrel brk st s s.
  Proof. split; [apply srel_refl|split; [apply mono_refl|apply drops_refl]]. Qed.

  Lemma refs_cons x t : refs (x :: t) = refs_s x ++ refs t. Proof. reflexivity. Qed.
  Lemma refs_app a b : refs (a ++ b) = refs a ++ refs b. Proof. apply flat_map_app. Qed.

  Lemma irel_cons brk st x x' t t' :
    isrel brk st x x' -> irel brk (adv_s st x) t t' -> irel brk st (x :: t) (x' :: t').
  Proof.
    intros (Hs & Ms & Ds) (Hb & Mb & Db). split; [|split].
    - now apply brel_cons.
    - rewrite !refs_cons. now apply mono_app.
    - rewrite !refs_cons, !lenv_cons. destruct Hs as (Ha & _). rewrite Ha. now apply drops_app.
  Qed.

  Lemma irel_app brk st a a' b b' :
    irel brk st a a' -> irel brk (adv st a) b b' -> irel brk st (a ++ b) (a' ++ b').
  Proof.
    intros (Hs & Ms & Ds) (Hb & Mb & Db). split; [|split].
    - now apply brel_app.
    - rewrite !refs_app. now apply mono_app.
    - rewrite !refs_app, !lenv_app. destruct Hs as (Ha & _). rewrite Ha. now apply drops_app.
  Qed.

  Lemma irel_trans brk st a b c : irel brk st a b -> irel brk st b c -> irel brk st a c.
  Proof.
    intros (H1 & M1 & D1) (H2 & M2 & D2). split; [|split].
    - eapply brel_trans; eauto.
    - eapply mono_trans; eauto.
    - eapply drops_trans; eauto.
  Qed.

  Lemma isrel_loop brk st k b b' :
    irel (Some (real (adv st b))) st b b' -> isrel brk st (SLoop k b) (SLoop k b').
  Proof. intros (H & M & D). split; [|split]; auto. now apply srel_loop. Qed.

  Lemma consistent_sub st b b' : sub (lenv st b') (lenv st b) -> consistent E st b -> consistent E st b'.
  Proof. intros Hs Hc l s Hin. apply Hc. eapply sub_in; eauto. Qed.

  (* ---- chains ---- *)
  Lemma chain_rel_impl (R R' : state -> list stmt -> list stmt -> Prop) en :
    (forall st b b', R st b b' -> R' st b b') ->
    forall bs bs' st, chain_rel R en st bs bs' -> chain_rel R' en st bs bs'.
  Proof.
    intros HR. induction bs as [|[c b] t IH]; intros [|[c' b'] t'] st H; cbn in *; try tauto.
    destruct H as (Hc & Hb & Hrest). repeat split; auto.
  Qed.

  Definition blocks_refs (bs : list (cond * list stmt)) : list nat := flat_map (fun cb => refs (snd cb)) bs.

  Lemma chain_rel_md brk en : forall bs bs' st,
    chain_rel (irel brk) en st bs bs' ->
    mono (blocks_refs bs) (blocks_refs bs') /\
    drops rc (chain_cat adv lenv (fun _ _ _ => []) (fun _ => []) en st bs)
             (chain_cat adv lenv (fun _ _ _ => []) (fun _ => []) en st bs') (blocks_refs bs) (blocks_refs bs').
  Proof.
    induction bs as [|[c b] t IH]; intros [|[c' b'] t'] st H; cbn in H; try tauto.
    - split; [apply mono_refl|apply drops_refl].
    - destruct H as (-> & (Hb & Mb & Db) & Hrest).
      pose proof (chain_rel_nil _ _ _ _ _ Hrest) as Hnil.
      destruct Hb as (Ha & _). unfold chain_next in Hrest.
      cbn [chain_cat blocks_refs flat_map snd]. rewrite Hnil, Ha. cbn [app].
      assert (IH' := IH t' (if is_nil t && en then adv (real st) b else real (adv (real st) b)) Hrest).
      destruct IH' as (Mt & Dt). split.
      + apply mono_app; auto.
      + destruct (is_nil t && en); cbn [app]; apply drops_app; auto.
  Qed.

  Lemma isrel_chain brk st bs bs' els els' :
    chain_rel (irel brk) (is_none els) st bs bs' ->
    match els, els' with
    | None, None => True
    | Some b, Some b' => irel brk (chain_adv adv (is_none els) st bs) b b'
    | _, _ => False
    end ->
    isrel brk st (SChain bs els) (SChain bs' els').
  Proof.
    intros Hc He.
    destruct (chain_rel_md _ _ _ _ _ Hc) as (Mc & Dc).
    assert (Hc' : chain_rel (brel N true E nokeep brk) (is_none els) st bs bs')
      by (eapply chain_rel_impl; [|exact Hc]; intros ? ? ? (H & _); exact H).
    assert (Hen : is_none els' = is_none els) by (destruct els, els'; cbn in *; tauto).
    split; [|split].
    - apply srel_chain; auto. destruct els as [b|], els' as [b'|]; cbn in *; try tauto. destruct He as (H & _); exact H.
    - change (refs_s (SChain bs els)) with (blocks_refs bs ++ match els with None => [] | Some b => refs b end).
      change (refs_s (SChain bs' els')) with (blocks_refs bs' ++ match els' with None => [] | Some b => refs b end).
      apply mono_app; auto. destruct els as [b|], els' as [b'|]; cbn in *; try tauto; [|apply mono_refl].
      destruct He as (_ & M & _); exact M.
    - change (refs_s (SChain bs els)) with (blocks_refs bs ++ match els with None => [] | Some b => refs b end).
      change (refs_s (SChain bs' els')) with (blocks_refs bs' ++ match els' with None => [] | Some b => refs b end).
      rewrite !lenv_s_chain, Hen. rewrite (chain_rel_adv _ _ _ _ _ _ _ _ _ Hc').
      destruct els as [b|], els' as [b'|]; cbn in He; try tauto; cbn [is_none] in *.
      + destruct He as ((Ha & _) & M & D). apply drops_app; auto.
      + apply drops_app; auto using mono_refl, drops_refl.
  Qed.
End IRel.

(* ------------------------------------------------------------------------------------------ *)
(* one cond chain inside a block *)

Lemma bookend_adv st b : adv st (SNo :: b ++ [SNo]) = adv st b.
Proof. now autorewrite with struct. Qed.
Lemma bookend_lenv st b : lenv st (SNo :: b ++ [SNo]) = lenv st b.
Proof. now autorewrite with struct. Qed.
Lemma bookend_sem N C E brk st b : sem N C E brk st (SNo :: b ++ [SNo]) = sem N C E brk st b.
Proof. now autorewrite with struct. Qed.
Lemma bookend_refs b : refs (SNo :: b ++ [SNo]) = refs b.
Proof. unfold refs. cbn. rewrite flat_map_app. cbn. now rewrite app_nil_r. Qed.

Lemma mono_skip x R R' : mono R R' -> mono (x :: R) R'.
Proof. intros H l. specialize (H l). unfold cntl in *. cbn. destruct (Nat.eq_dec x l); lia. Qed.
Lemma mono_cons x R R' : mono R R' -> mono (x :: R) (x :: R').
Proof. intros H l. specialize (H l). unfold cntl in *. cbn. destruct (Nat.eq_dec x l); lia. Qed.

Lemma cntl_cons x R l : cntl (x :: R) l = (if Nat.eq_dec x l then 1 else 0) + cntl R l.
Proof. unfold cntl. cbn. destruct (Nat.eq_dec x l); lia. Qed.
Lemma refs_head c lA lE body :
  refs (SJump None (JC c) lA None :: body ++ [SJump None JU lE None; SLabel lA]) = lA :: refs body ++ [lE].
Proof. unfold refs. cbn. rewrite flat_map_app. reflexivity. Qed.

Section Site.
  Variable N : binop -> option binop.
  Hypothesis Ninv : forall op op', N op = Some op' -> N op' = Some op.
  Variable E : env.
  Variable rc : nat -> nat.
  Variable blk : list stmt.
  Variable sB : state.
  Variable brk : option state.
  Hypothesis Hcons : consistent E sB blk.

  (* the position of the i-th statement of the block *)
  Definition P (i : nat) : state := adv sB (firstn i blk).

  Lemma P_slice i j : i <= j -> P j = adv (P i) (slice blk i j).
  Proof. intros H. unfold P. now rewrite (firstn_slice blk i j H), adv_app. Qed.

  Lemma label_state i l : nth_error blk i = Some (SLabel l) -> E l = Some (P i).
  Proof.
    intros H. apply Hcons. rewrite (nth_error_split _ _ _ H). apply lenv_in_app_label.
  Qed.

  Lemma k_unless_neg c nc : neg_cond N c = Some nc -> k_unless N true nc = KIf c.
  Proof.
    destruct c as [op a b|op a b|n]; cbn; try discriminate;
      destruct (N op) as [op'|] eqn:Hop; try discriminate; intros H; inversion H; subst; cbn;
      now rewrite (Ninv _ _ Hop).
  Qed.

  Definition mkb (e : nat) (cb : cblock) : cond * list stmt :=
    let inner := slice blk (cb_if cb) (cb_label cb) in
    let inner1 := if Nat.eqb (cb_label cb) e then inner ++ [nth (cb_label cb) blk SNo] else removelast inner in
    (cb_cond cb, SNo :: tl inner1 ++ [SNo]).
  Definition mkelse (e : nat) (els : option nat) : option (list stmt) :=
    match els with None => None | Some es => Some (SNo :: slice blk es e ++ [nth e blk SNo; SNo]) end.

  Lemma build_chain_eq info :
    build_chain blk info = SChain (map (mkb (ci_end info)) (ci_chain info)) (mkelse (ci_end info) (ci_else info)).
  Proof. reflexivity. Qed.

  (* the chain as laid out from some block on (the jumps to the very end go to [ste]) *)
  Definition ch_adv (st : state) (bs : list (cond * list stmt)) (eb : option (list stmt)) : state :=
    match eb with None => chain_adv adv true st bs | Some b => adv (chain_adv adv false st bs) b end.
  Definition ch_lenv (st : state) (bs : list (cond * list stmt)) (eb : option (list stmt)) : list (nat * state) :=
    chain_cat adv lenv (fun _ _ _ => []) (fun _ => []) (is_none eb) st bs
    ++ match eb with None => [] | Some b => lenv (chain_adv adv (is_none eb) st bs) b end.
  Definition ch_sem (ste : state) (st : state) (bs : list (cond * list stmt)) (eb : option (list stmt)) : list citem :=
    chain_cat adv (sem N true E brk)
              (fun st c tgt => [(snd st, None, BJump (k_unless N true c) (Some tgt) None)])
              (fun st' => [(snd st', None, BJump KU (Some ste) None)]) (is_none eb) st bs
    ++ match eb with None => [] | Some b => sem N true E brk (chain_adv adv (is_none eb) st bs) b end.
  Definition ch_refs (bs : list (cond * list stmt)) (eb : option (list stmt)) : list nat :=
    blocks_refs bs ++ match eb with None => [] | Some b => refs b end.

  Section Shape.
    Variable e lE : nat.
    Hypothesis Hend : nth_error blk e = Some (SLabel lE).

    Inductive shape : nat -> list cblock -> option nat -> Prop :=
    | sh_last src c nc :
        nth_error blk src = Some (SJump None (JC c) lE None) -> src < e -> neg_cond N c = Some nc ->
        shape src [{| cb_cond := nc; cb_if := src; cb_label := e |}] None
    | sh_else src c nc lA dA :
        nth_error blk src = Some (SJump None (JC c) lA None) -> S src < dA ->
        nth_error blk (dA - 1) = Some (SJump None JU lE None) -> nth_error blk dA = Some (SLabel lA) ->
        neg_cond N c = Some nc -> rc lA <= 1 -> S dA <= e ->
        shape src [{| cb_cond := nc; cb_if := src; cb_label := dA |}] (Some (S dA))
    | sh_elif src c nc lA dA rest els :
        nth_error blk src = Some (SJump None (JC c) lA None) -> S src < dA ->
        nth_error blk (dA - 1) = Some (SJump None JU lE None) -> nth_error blk dA = Some (SLabel lA) ->
        neg_cond N c = Some nc -> rc lA <= 1 ->
        shape (S dA) rest els ->
        shape src ({| cb_cond := nc; cb_if := src; cb_label := dA |} :: rest) els.

    Lemma shape_lt src cbs els : shape src cbs els -> src < e.
    Proof. induction 1; lia. Qed.
    Lemma shape_nonempty src cbs els : shape src cbs els -> cbs <> [].
    Proof. destruct 1; discriminate. Qed.
    Lemma shape_first src cbs els : shape src cbs els -> exists cb t, cbs = cb :: t /\ cb_if cb = src.
    Proof. destruct 1; eauto. Qed.

    (* a non-final block *)
    Lemma head_slices src X J lA dA :
      nth_error blk src = Some X -> S src < dA -> nth_error blk (dA - 1) = Some J -> nth_error blk dA = Some (SLabel lA) ->
      slice blk src dA = X :: slice blk (S src) (dA - 1) ++ [J] /\
      slice blk src (S dA) = X :: slice blk (S src) (dA - 1) ++ [J; SLabel lA].
    Proof.
      intros HX Hlt HJ HL.
      assert (H1 : slice blk src dA = X :: slice blk (S src) (dA - 1) ++ [J]).
      { rewrite (slice_split blk src (S src) dA) by lia. rewrite (slice_one _ _ _ HX). cbn [app]. f_equal.
        rewrite (slice_split blk (S src) (dA - 1) dA) by lia. f_equal.
        replace dA with (S (dA - 1)) at 2 by lia. now apply slice_one. }
      split; auto.
      rewrite (slice_split blk src dA (S dA)) by lia. rewrite H1, (slice_one _ _ _ HL).
      cbn [app]. f_equal. now rewrite <- app_assoc.
    Qed.

    Lemma mkb_head src X J lA dA nc :
      nth_error blk src = Some X -> S src < dA -> nth_error blk (dA - 1) = Some J -> nth_error blk dA = Some (SLabel lA) ->
      dA <> e ->
      mkb e {| cb_cond := nc; cb_if := src; cb_label := dA |} = (nc, SNo :: slice blk (S src) (dA - 1) ++ [SNo]).
    Proof.
      intros HX Hlt HJ HL Hne. unfold mkb. cbn [cb_cond cb_if cb_label].
      destruct (Nat.eqb dA e) eqn:Heq; [apply Nat.eqb_eq in Heq; contradiction|].
      destruct (head_slices src X J lA dA HX Hlt HJ HL) as (-> & _).
      change (X :: slice blk (S src) (dA - 1) ++ [J]) with ((X :: slice blk (S src) (dA - 1)) ++ [J]).
      rewrite removelast_snoc. reflexivity.
    Qed.

    Lemma mkb_last src X nc :
      nth_error blk src = Some X -> src < e ->
      mkb e {| cb_cond := nc; cb_if := src; cb_label := e |} = (nc, SNo :: (slice blk (S src) e ++ [SLabel lE]) ++ [SNo]) /\
      slice blk src (S e) = X :: slice blk (S src) e ++ [SLabel lE] /\
      slice blk src e = X :: slice blk (S src) e.
    Proof.
      intros HX Hlt. unfold mkb. cbn [cb_cond cb_if cb_label]. rewrite Nat.eqb_refl.
      rewrite (nth_nth_error _ _ _ Hend).
      assert (H1 : slice blk src e = X :: slice blk (S src) e).
      { rewrite (slice_split blk src (S src) e) by lia. now rewrite (slice_one _ _ _ HX). }
      split; [|split; [|exact H1]].
      - rewrite H1. reflexivity.
      - rewrite (slice_split blk src e (S e)) by lia. rewrite H1, (slice_one _ _ _ Hend). reflexivity.
    Qed.

    Lemma P_end : P (S e) = P e.
    Proof. rewrite (P_slice e (S e)) by lia. rewrite (slice_one _ _ _ Hend). now autorewrite with struct. Qed.

    Definition site_ok (src : nat) (cbs : list cblock) (els : option nat) : Prop :=
      let eb := mkelse e els in
      let bs := map (mkb e) cbs in
      let old := slice blk src (S e) in
      ch_adv (P src) bs eb = P e /\
      ch_sem (P e) (P src) bs eb = sem N true E brk (P src) old /\
      sub (ch_lenv (P src) bs eb) (lenv (P src) old) /\
      mono (refs old) (ch_refs bs eb) /\
      drops rc (lenv (P src) old) (ch_lenv (P src) bs eb) (refs old) (ch_refs bs eb).

    Lemma site_last src c nc :
      nth_error blk src = Some (SJump None (JC c) lE None) -> src < e -> neg_cond N c = Some nc ->
      site_ok src [{| cb_cond := nc; cb_if := src; cb_label := e |}] None.
    Proof.
      intros HX Hlt Hneg. destruct (mkb_last src _ nc HX Hlt) as (Hmk & Hold & Hold').
      unfold site_ok. cbn [map mkelse]. rewrite Hmk, Hold.
      set (body := slice blk (S src) e) in *.
      assert (HPe : P e = adv (real (P src)) body).
      { rewrite (P_slice src e) by lia. rewrite Hold'. now autorewrite with struct. }
      unfold ch_adv, ch_sem, ch_lenv, ch_refs, blocks_refs.
      cbn [chain_adv chain_cat is_none is_nil andb flat_map snd app].
      rewrite !bookend_adv, !bookend_lenv, !bookend_sem, !bookend_refs.
      autorewrite with struct. rewrite <- HPe.
      rewrite (k_unless_neg _ _ Hneg), (label_state _ _ Hend).
      repeat split.
      - apply sub_refl.
      - cbn [refs flat_map refs_s app]. apply mono_skip. unfold refs. rewrite flat_map_app. cbn. rewrite !app_nil_r. apply mono_refl.
      - contradiction.
      - contradiction.
    Qed.

    Definition ch_tail (eb : option (list stmt)) (st : state) : state :=
      match eb with None => st | Some b => adv st b end.
    Lemma ch_adv_alt st bs eb : ch_adv st bs eb = ch_tail eb (chain_adv adv (is_none eb) st bs).
    Proof. destruct eb; reflexivity. Qed.

    (* a non-final block in front of the rest of a chain *)
    Lemma site_head src c nc lA dA (t : list (cond * list stmt)) (eb : option (list stmt)) :
      nth_error blk src = Some (SJump None (JC c) lA None) -> S src < dA ->
      nth_error blk (dA - 1) = Some (SJump None JU lE None) -> nth_error blk dA = Some (SLabel lA) ->
      neg_cond N c = Some nc -> rc lA <= 1 -> S dA <= e ->
      is_nil t && is_none eb = false ->
      let rest := slice blk (S dA) (S e) in
      ch_adv (P (S dA)) t eb = P e ->
      ch_sem (P e) (P (S dA)) t eb = sem N true E brk (P (S dA)) rest ->
      sub (ch_lenv (P (S dA)) t eb) (lenv (P (S dA)) rest) ->
      mono (refs rest) (ch_refs t eb) ->
      drops rc (lenv (P (S dA)) rest) (ch_lenv (P (S dA)) t eb) (refs rest) (ch_refs t eb) ->
      let bs := mkb e {| cb_cond := nc; cb_if := src; cb_label := dA |} :: t in
      let old := slice blk src (S e) in
      ch_adv (P src) bs eb = P e /\
      ch_sem (P e) (P src) bs eb = sem N true E brk (P src) old /\
      sub (ch_lenv (P src) bs eb) (lenv (P src) old) /\
      mono (refs old) (ch_refs bs eb) /\
      drops rc (lenv (P src) old) (ch_lenv (P src) bs eb) (refs old) (ch_refs bs eb).
    Proof.
      intros HX Hlt HJ HL Hneg Hrc Hle Hnl rest Radv Rsem Rsub Rmono Rdrops bs old.
      assert (Hne : dA <> e) by lia.
      destruct (head_slices src _ _ lA dA HX Hlt HJ HL) as (Hs1 & Hs2).
      set (body := slice blk (S src) (dA - 1)) in *.
      assert (Hold : old = (SJump None (JC c) lA None :: body ++ [SJump None JU lE None; SLabel lA]) ++ rest).
      { unfold old, rest. rewrite (slice_split blk src (S dA) (S e)) by lia. now rewrite Hs2. }
      assert (HP3 : P (S dA) = real (adv (real (P src)) body)).
      { rewrite (P_slice src (S dA)) by lia. rewrite Hs2. now autorewrite with struct. }
      assert (HPd : P dA = real (adv (real (P src)) body)).
      { rewrite (P_slice src dA) by lia. rewrite Hs1. now autorewrite with struct. }
      unfold bs. rewrite (mkb_head src _ _ lA dA nc HX Hlt HJ HL Hne). fold body.
      rewrite Hold. rewrite ch_adv_alt in *.
      unfold ch_sem, ch_lenv, ch_refs, blocks_refs in *.
      cbn [chain_adv chain_cat flat_map snd]. rewrite Hnl.
      rewrite !bookend_adv, !bookend_lenv, !bookend_sem, !bookend_refs.
      rewrite <- HP3.
      rewrite refs_app, lenv_app, sem_app.
      replace (adv (P src) (SJump None (JC c) lA None :: body ++ [SJump None JU lE None; SLabel lA])) with (P (S dA))
        by (rewrite HP3; now autorewrite with struct).
      split; [exact Radv|]. split; [|split; [|split]].
      - rewrite <- !app_assoc. rewrite Rsem. autorewrite with struct. cbn [app].
        rewrite (k_unless_neg _ _ Hneg), (label_state _ _ HL), (label_state _ _ Hend), HPd, <- HP3.
        rewrite <- !app_assoc. reflexivity.
      - autorewrite with struct. cbn [app]. rewrite <- !app_assoc. apply sub_app; [apply sub_refl|].
        cbn [app]. apply sub_skip. exact Rsub.
      - rewrite refs_head. intros l. specialize (Rmono l). rewrite !cntl_app, cntl_cons in *. rewrite !cntl_app.
        cbn [cntl count_occ]. lia.
      - autorewrite with struct. cbn [app]. rewrite refs_head.
        intros l Hin Hnot. rewrite !map_app, !in_app_iff in Hin, Hnot. cbn [map fst In] in Hin.
        assert (Hnr : ~ In l (map fst (chain_cat adv lenv (fun _ _ _ => []) (fun _ => []) (is_none eb) (P (S dA)) t ++
                                          match eb with None => [] | Some b => lenv (chain_adv adv (is_none eb) (P (S dA)) t) b end)))
          by (rewrite map_app, in_app_iff; tauto).
        specialize (Rmono l). rewrite !cntl_app, cntl_cons in *. rewrite !cntl_app. cbn [cntl count_occ].
        destruct Hin as [[Hin|[Heq|[]]]|Hin]; [tauto| |].
        + subst l. destruct (Nat.eq_dec lA lA); [|congruence]. split; [exact Hrc|]. lia.
        + destruct (Rdrops l Hin Hnr) as (Hr & Hc). rewrite !cntl_app in Hc.
          split; [exact Hr|]. destruct (Nat.eq_dec lA l); lia.
    Qed.

    Lemma shape_site src cbs els : shape src cbs els -> site_ok src cbs els.
    Proof.
      induction 1 as [src c nc HX Hlt Hneg | src c nc lA dA HX Hlt HJ HL Hneg Hrc Hle
                     | src c nc lA dA rest els HX Hlt HJ HL Hneg Hrc Hsh IH].
      - apply (site_last src c nc); auto.
      - unfold site_ok. cbn [map mkelse].
        assert (Hrest : slice blk (S dA) (S e) = slice blk (S dA) e ++ [SLabel lE]).
        { rewrite (slice_split blk (S dA) e (S e)) by lia. now rewrite (slice_one _ _ _ Hend). }
        assert (Hb : SNo :: slice blk (S dA) e ++ [nth e blk SNo; SNo] = SNo :: slice blk (S dA) (S e) ++ [SNo]).
        { rewrite (nth_nth_error _ _ _ Hend), Hrest, <- app_assoc. reflexivity. }
        rewrite Hb.
        apply (site_head src c nc lA dA [] _ HX Hlt HJ HL Hneg Hrc Hle); try reflexivity.
        + unfold ch_adv. cbn [chain_adv]. rewrite bookend_adv. rewrite <- P_end. symmetry. apply P_slice. lia.
        + unfold ch_sem. cbn [chain_cat chain_adv is_none app]. now rewrite bookend_sem.
        + unfold ch_lenv. cbn [chain_cat chain_adv is_none app]. rewrite bookend_lenv. apply sub_refl.
        + unfold ch_refs, blocks_refs. cbn [flat_map app]. rewrite bookend_refs. apply mono_refl.
        + unfold ch_lenv, ch_refs. cbn [chain_cat chain_adv is_none app]. rewrite bookend_lenv. intros l H1 H2. contradiction.
      - unfold site_ok in *. cbn [map].
        destruct IH as (Ia & Is & Isub & Im & Id).
        assert (Hle : S dA <= e) by (apply shape_lt in Hsh; lia).
        apply (site_head src c nc lA dA _ _ HX Hlt HJ HL Hneg Hrc Hle); auto.
        apply shape_nonempty in Hsh. destruct rest; [congruence|reflexivity].
    Qed.
  End Shape.
End Site.

(* ------------------------------------------------------------------------------------------ *)
(* what _gather_cond_chain returns has the shape above *)

Section Gather.
  Variable N : binop -> option binop.
  Variable rc : nat -> nat.
  Variable G : guards.
  Variable blk : list stmt.
  Hypothesis Gdiff : g_diff G = true.
  Hypothesis Giftime : g_if_time G = true.
  Hypothesis Gifdir : g_if_dir G = true.
  Hypothesis Gifrc : g_if_rc G = true.
  Hypothesis Guntime : g_un_time G = true.
  Hypothesis Gunkind : g_un_kind G = true.
  Hypothesis Gundir : g_un_dir G = true.
  Hypothesis Gendsame : g_end_same G = true.
  Hypothesis Gendlast : g_end_last G = true.
  Hypothesis Gelse : g_else_order G = true.

  Let ji := block_ji G rc blk.

  Lemma block_ji_spec i j : ji i = Some j ->
    exists l, nth_error blk i = Some (SJump None (j_kind j) l (j_time j)) /\
              nth_error blk (j_dest j) = Some (SLabel l) /\ j_rc j = rc l.
  Proof.
    unfold ji, block_ji. destruct (nth_error blk i) as [s|] eqn:Hi; [|discriminate].
    unfold jmp_of. destruct s as [| | | | | d k l t | | |]; try discriminate.
    rewrite Gdiff. destruct d as [d|]; [discriminate|]. cbn.
    destruct (label_index blk l) as [dest|] eqn:Hl; [|discriminate].
    intros H; inversion H; subst j; cbn. exists l. repeat split; auto. now apply label_index_spec.
  Qed.

  Lemma gather_shape : forall fuel src known acc info,
    gather N G fuel ji src known acc = Some info ->
    exists lE cbs,
      nth_error blk (ci_end info) = Some (SLabel lE) /\
      ci_chain info = acc ++ cbs /\
      shape N rc blk (ci_end info) lE src cbs (ci_else info) /\
      (forall e0, known = Some e0 -> ci_end info = e0).
  Proof.
    induction fuel as [|fuel IH]; intros src known acc info H; [discriminate|].
    cbn [gather] in H.
    destruct (ji src) as [ifj|] eqn:Hif; [|discriminate].
    rewrite Giftime, Gifdir in H. cbn [andb] in H.
    destruct (j_time ifj) as [tm|] eqn:Htm; [discriminate|]. cbn [is_none negb] in H.
    destruct (src <? j_dest ifj) eqn:Hdir; [|discriminate]. cbn [negb] in H. apply Nat.ltb_lt in Hdir.
    destruct (j_kind ifj) as [|c] eqn:Hk; [discriminate|].
    destruct (g_if_cnt G && match c with CCnt _ _ _ => true | _ => false end); [discriminate|].
    destruct (neg_cond N c) as [nc|] eqn:Hneg; [|discriminate].
    destruct (block_ji_spec _ _ Hif) as (lA & HX & HL & Hrc). rewrite Hk, Htm in HX.
    set (dA := j_dest ifj) in *.
    set (cb := {| cb_cond := nc; cb_if := src; cb_label := dA |}) in *.
    destruct (if Nat.eqb src (dA - 1) then None else ji (dA - 1)) as [uj|] eqn:Hun.
    - (* there is a jump to the end before the label *)
      assert (Hsrc : src <> dA - 1 /\ ji (dA - 1) = Some uj).
      { destruct (Nat.eqb src (dA - 1)) eqn:Heq; [discriminate|]. apply Nat.eqb_neq in Heq. auto. }
      destruct Hsrc as (Hsrc & Huj).
      rewrite Gifrc, Guntime, Gunkind, Gundir, Gendsame, Gelse in H. cbn [andb] in H.
      destruct (1 <? j_rc ifj) eqn:Hrc1; [discriminate|]. apply Nat.ltb_ge in Hrc1.
      destruct (j_time uj) as [tu|] eqn:Htu; [discriminate|]. cbn [is_none negb] in H.
      destruct (j_kind uj) as [|cu] eqn:Hku; [|discriminate].
      destruct (dA - 1 <? j_dest uj) eqn:Hudir; [|discriminate]. cbn [negb] in H. apply Nat.ltb_lt in Hudir.
      destruct (block_ji_spec _ _ Huj) as (lE & HJ & HLE & _). rewrite Hku, Htu in HJ.
      set (e := match known with Some e => e | None => j_dest uj end) in *.
      destruct (Nat.eqb e (j_dest uj)) eqn:He; [|discriminate]. cbn [negb] in H. apply Nat.eqb_eq in He.
      assert (Hlt : S src < dA) by lia.
      assert (Hrc' : rc lA <= 1) by (rewrite <- Hrc; exact Hrc1).
      assert (Hknown : forall e0, known = Some e0 -> e = e0) by (intros e0 ->; reflexivity).
      replace (dA + 1) with (S dA) in H by lia.
      assert (Helse : (if e <? S dA then None
                       else Some {| ci_chain := acc ++ [cb]; ci_else := Some (S dA); ci_end := e |}) = Some info ->
                      exists lE cbs, nth_error blk (ci_end info) = Some (SLabel lE) /\ ci_chain info = acc ++ cbs /\
                                     shape N rc blk (ci_end info) lE src cbs (ci_else info) /\
                                     (forall e0, known = Some e0 -> ci_end info = e0)).
      { destruct (e <? S dA) eqn:Hord; [discriminate|]. apply Nat.ltb_ge in Hord.
        intros Hi; inversion Hi; subst info; cbn [ci_end ci_chain ci_else].
        exists lE, [cb]. rewrite He. split; [exact HLE|]. split; [reflexivity|]. split.
        - apply (sh_else N rc blk (j_dest uj) lE src c nc lA dA); auto. lia.
        - intros e0 Hk0. rewrite <- He. auto. }
      destruct (ji (S dA)) as [[d2 r2 t2 [|c2]]|] eqn:Hnext; try (apply Helse; exact H).
      (* else if *)
      apply IH in H as (lE' & cbs' & Hend' & Hchain & Hshape & Hke).
      specialize (Hke e eq_refl).
      assert (lE' = lE) by (rewrite Hke, He, HLE in Hend'; now inversion Hend'). subst lE'.
      exists lE, (cb :: cbs'). split; [exact Hend'|]. split; [|split].
      + rewrite Hchain, <- app_assoc. reflexivity.
      + apply (sh_elif N rc blk (ci_end info) lE src c nc lA dA cbs' (ci_else info)); auto.
      + intros e0 Hk0. rewrite Hke. auto.
    - (* no else: this was the last block *)
      rewrite Gendlast in H. cbn [andb] in H.
      assert (Hres : ci_end info = dA /\ ci_chain info = acc ++ [cb] /\ ci_else info = None /\
                     (forall e0, known = Some e0 -> dA = e0)).
      { destruct known as [e0|].
        - destruct (Nat.eqb dA e0) eqn:He; [|discriminate]. apply Nat.eqb_eq in He. cbn [negb] in H.
          inversion H; subst info; cbn. repeat split; auto. intros e1 Hk1; inversion Hk1; subst; auto.
        - inversion H; subst info; cbn. repeat split; auto. discriminate. }
      destruct Hres as (He & Hc & Hel & Hk0).
      exists lA, [cb]. rewrite He, Hel. split; [exact HL|]. split; [exact Hc|]. split.
      + apply (sh_last N rc blk dA lA src c nc); auto.
      + exact Hk0.
  Qed.
End Gather.

(* ------------------------------------------------------------------------------------------ *)
(* the scan of one block, the recursion into inner blocks, the whole pass *)

Lemma skipn_cons_nth {A} (l : list A) i x : nth_error l i = Some x -> skipn i l = x :: skipn (S i) l.
Proof.
  revert i; induction l as [|y t IH]; intros [|i] H; cbn in *; try discriminate.
  - now inversion H.
  - now apply IH.
Qed.

Section Pass.
  Variable N : binop -> option binop.
  Hypothesis Ninv : forall op op', N op = Some op' -> N op' = Some op.
  Variable E : env.
  Variable rc : nat -> nat.
  Variable G : guards.
  Hypothesis Gdiff : g_diff G = true.
  Hypothesis Giftime : g_if_time G = true.
  Hypothesis Gifdir : g_if_dir G = true.
  Hypothesis Gifrc : g_if_rc G = true.
  Hypothesis Guntime : g_un_time G = true.
  Hypothesis Gunkind : g_un_kind G = true.
  Hypothesis Gundir : g_un_dir G = true.
  Hypothesis Gendsame : g_end_same G = true.
  Hypothesis Gendlast : g_end_last G = true.
  Hypothesis Gelse : g_else_order G = true.

  Notation irel' := (irel N E rc).

  Lemma site_irel blk sB brk (Hcons : consistent E sB blk) e lE src cbs els :
    nth_error blk e = Some (SLabel lE) -> shape N rc blk e lE src cbs els ->
    irel' brk (P blk sB src) (slice blk src (S e)) [SChain (map (mkb blk e) cbs) (mkelse blk e els)].
  Proof.
    intros Hend Hsh.
    destruct (shape_site N Ninv E rc blk sB brk Hcons e lE Hend src cbs els Hsh) as (Ha & Hs & Hsub & Hm & Hd).
    assert (Hlt : src < e) by (eapply shape_lt; eauto).
    assert (Hadv : adv (P blk sB src) (slice blk src (S e)) = P blk sB e).
    { rewrite <- (P_slice blk sB src (S e)) by lia. eapply P_end; eauto. }
    set (bs := map (mkb blk e) cbs) in *. set (eb := mkelse blk e els) in *.
    assert (Hce : chain_end (P blk sB src) bs eb = P blk sB e) by exact Ha.
    split; [split; [|split; [split|]]|split].
    - autorewrite with struct. rewrite adv_s_chain, Hce. now rewrite Hadv.
    - autorewrite with struct. rewrite lenv_s_chain. exact Hsub.
    - intros l s _ [].
    - autorewrite with struct. rewrite sem_s_chain, Hce. exact Hs.
    - change (refs [SChain bs eb]) with (refs_s (SChain bs eb) ++ []). rewrite app_nil_r. exact Hm.
    - change (refs [SChain bs eb]) with (refs_s (SChain bs eb) ++ []). rewrite app_nil_r.
      autorewrite with struct. rewrite lenv_s_chain. exact Hd.
  Qed.

  Lemma gather_checked_gather fuel ji intrs start info :
    gather_checked N G fuel ji intrs start = Some info -> gather N G fuel ji start None [] = Some info.
  Proof.
    unfold gather_checked. destruct (gather N G fuel ji start None []) as [i0|]; [|discriminate].
    destruct (g_chain_intr G && _); [discriminate|]. auto.
  Qed.

  Lemma scan_irel blk sB brk (Hcons : consistent E sB blk) : forall fuel index, index <= length blk ->
    irel' brk (P blk sB index) (skipn index blk)
          (ifelse_scan N G fuel blk (block_ji G rc blk) (intr_indices blk) index).
  Proof.
    induction fuel as [|fuel IH]; intros index Hle; cbn [ifelse_scan]; [apply irel_refl|].
    destruct (length blk <=? index) eqn:Hlen.
    - apply Nat.leb_le in Hlen. rewrite skipn_all2 by lia. apply irel_refl.
    - apply Nat.leb_gt in Hlen.
      destruct (nth_error blk index) as [x|] eqn:Hx; [|apply nth_error_None in Hx; lia].
      assert (HPS : P blk sB (S index) = adv_s (P blk sB index) x).
      { rewrite (P_slice blk sB index (S index)) by lia. rewrite (slice_one _ _ _ Hx). now autorewrite with struct. }
      destruct (gather_checked N G (length blk) (block_ji G rc blk) (intr_indices blk) index) as [info|] eqn:Hg.
      + apply gather_checked_gather in Hg.
        destruct (gather_shape N rc G blk Gdiff Giftime Gifdir Gifrc Guntime Gunkind Gundir Gendsame Gendlast Gelse
                    _ _ _ _ _ Hg) as (lE & cbs & Hend & Hchain & Hsh & _).
        cbn [app] in Hchain.
        assert (Hlt : index < ci_end info) by (eapply shape_lt; eauto).
        assert (He : ci_end info < length blk) by (apply nth_error_Some; congruence).
        rewrite (skipn_slice blk index (S (ci_end info))) by lia.
        change (build_chain blk info :: ?t) with ([build_chain blk info] ++ t).
        rewrite build_chain_eq, Hchain.
        apply irel_app.
        * eapply site_irel; eauto.
        * rewrite <- (P_slice blk sB index (S (ci_end info))) by lia. apply IH. lia.
      + rewrite (skipn_cons_nth _ _ _ Hx), (nth_nth_error _ _ _ Hx).
        apply irel_cons; [apply isrel_refl|]. rewrite <- HPS. apply IH. lia.
  Qed.

  Definition rec_s (fuel : nat) (s : stmt) : stmt :=
    match s with
    | SLoop k b => SLoop k (ifelse_block N G fuel rc b)
    | SChain bs els =>
        SChain (map (fun cb => (fst cb, ifelse_block N G fuel rc (snd cb))) bs)
               (match els with None => None | Some b => Some (ifelse_block N G fuel rc b) end)
    | _ => s
    end.

  Lemma ifelse_block_S fuel blk :
    ifelse_block N G (S fuel) rc blk =
    map (rec_s fuel) (ifelse_scan N G (S (length blk)) blk (block_ji G rc blk) (intr_indices blk) 0).
  Proof. reflexivity. Qed.

  Lemma rec_irel fuel :
    (forall blk st brk, consistent E st blk -> irel' brk st blk (ifelse_block N G fuel rc blk)) ->
    forall b st brk, consistent E st b -> irel' brk st b (map (rec_s fuel) b).
  Proof.
    intros IH. induction b as [|x t IHt]; intros st brk Hc; cbn [map]; [apply irel_refl|].
    apply consistent_cons in Hc as [Hcx Hct].
    apply irel_cons; [|apply IHt; exact Hct].
    destruct x; try apply isrel_refl.
    - (* loop *) cbn [rec_s]. apply isrel_loop. apply IH. exact Hcx.
    - (* chain *) cbn [rec_s]. apply consistent_s_chain in Hcx as [Hall Hels].
      apply isrel_chain.
      + apply chain_rel_map with (P := consistent E) (F := ifelse_block N G fuel rc); auto.
        rewrite Forall_forall. intros cb _ st' Hc'. apply IH. exact Hc'.
      + destruct els as [b|]; auto.
  Qed.

  Theorem ifelse_block_irel : forall fuel blk st brk,
    consistent E st blk -> irel' brk st blk (ifelse_block N G fuel rc blk).
  Proof.
    induction fuel as [|fuel IH]; intros blk st brk Hc; [apply irel_refl|].
    rewrite ifelse_block_S.
    pose proof (scan_irel blk st brk Hc (S (length blk)) 0 (Nat.le_0_l _)) as Hscan.
    change (P blk st 0) with st in Hscan. change (skipn 0 blk) with blk in Hscan.
    eapply irel_trans; [exact Hscan|].
    apply rec_irel; auto.
    destruct Hscan as ((_ & (Hsub & _) & _) & _). eapply consistent_sub; eauto.
  Qed.
End Pass.

Theorem ifelse_pass_canon N G p :
  (forall op op', N op = Some op' -> N op' = Some op) ->
  g_diff G = true -> g_if_time G = true -> g_if_dir G = true -> g_if_rc G = true -> g_un_time G = true ->
  g_un_kind G = true -> g_un_dir G = true -> g_end_same G = true -> g_end_last G = true -> g_else_order G = true ->
  well_labelled p ->
  let p' := ifelse_pass N G p in
  well_labelled p' /\ canon_of N true p' = canon_of N true p /\
  (forall l, In l (refs p') -> lookup (lenv st0 p') l = lookup (lenv st0 p) l) /\
  (forall l, In l (refs p') -> In l (refs p)).
Proof.
  intros Ninv G1 G2 G3 G4 G5 G6 G7 G8 G9 G10 Hwl p'.
  pose proof (ifelse_block_irel N Ninv (lookup (lenv st0 p)) (refcount p) G G1 G2 G3 G4 G5 G6 G7 G8 G9 G10
                (S (size p)) p st0 None (well_labelled_consistent p Hwl)) as Hrel.
  fold (ifelse_pass N G p) in Hrel. fold p' in Hrel.
  destruct Hrel as ((Ha & (Hsub & _) & Hsem) & Hm & Hd).
  assert (Hwl' : well_labelled p') by (unfold well_labelled; eapply sub_NoDup; [|exact Hwl]; now apply sub_map).
  assert (Hsame : forall l, In l (refs p') -> lookup (lenv st0 p') l = lookup (lenv st0 p) l).
  { intros l Hl. destruct (lookup (lenv st0 p) l) as [s|] eqn:HL.
    - apply lookup_some_in in HL as Hin.
      destruct (in_dec Nat.eq_dec l (map fst (lenv st0 p'))) as [Hdef|Hndef].
      + apply lookup_defined in Hdef as (s' & Hs'). rewrite Hs'. f_equal.
        apply lookup_some_in in Hs'. eapply sub_in in Hs'; [|exact Hsub].
        apply (lookup_In _ _ _ Hwl) in Hs'. congruence.
      + exfalso. assert (Hin' : In l (map fst (lenv st0 p))) by (change l with (fst (l, s)); now apply in_map).
        destruct (Hd l Hin' Hndef) as (Hrc & Hc). unfold refcount in Hrc. fold (cntl (refs p) l) in Hrc.
        apply (count_occ_In Nat.eq_dec) in Hl. unfold cntl in *. lia.
    - destruct (lookup (lenv st0 p') l) as [s'|] eqn:HL'; auto.
      apply lookup_some_in in HL'. eapply sub_in in HL'; [|exact Hsub].
      apply lookup_none in HL. exfalso. apply HL. change l with (fst (l, s')). now apply in_map. }
  repeat split; auto.
  - unfold canon_of. rewrite <- Hsem. apply sem_env_ext. exact Hsame.
  - intros l Hl. eapply mono_in; eauto.
Qed.
