(* Proofs/TypingSound.v -- statements: the visitor accepts exactly the well-typed programs, for
   every nesting, on the part of a program whose statement kinds have correct dispatch rows. *)
From TV Require Import Base.I32 Model.Ops Model.Expr Model.TypeCheck Spec.TypingRules Proofs.TypingExpr.
Open Scope Z_scope.

(* ---- induction principle for stmt (nested lists) ---- *)
Section StmtInd.
  Variable P : stmt -> Prop.
  Definition Pob (b : option (list stmt)) : Prop := match b with Some b => Forall P b | None => True end.
  Hypothesis HFunc : forall ret code, Pob code -> P (SFunc ret code).
  Hypothesis HScript : forall code, Forall P code -> P (SScript code).
  Hypothesis HMeta : forall es, P (SMeta es).
  Hypothesis HConst : forall kw vars, P (SConst kw vars).
  Hypothesis HJump : P SJump.
  Hypothesis HCondJump : forall c, P (SCondJump c).
  Hypothesis HReturn : forall v, P (SReturn v).
  Hypothesis HCondChain : forall cbs els, Forall (fun cb => Forall P (snd cb)) cbs -> Pob els -> P (SCondChain cbs els).
  Hypothesis HLoop : forall b, Forall P b -> P (SLoop b).
  Hypothesis HWhile : forall c b, Forall P b -> P (SWhile c b).
  Hypothesis HTimes : forall clob n b, Forall P b -> P (STimes clob n b).
  Hypothesis HExpr : forall e, P (SExpr e).
  Hypothesis HBlock : forall b, Forall P b -> P (SBlock b).
  Hypothesis HAssign : forall v op e, P (SAssign v op e).
  Hypothesis HDecl : forall kw vars, P (SDecl kw vars).
  Hypothesis HCallSub : forall args, P (SCallSub args).
  Hypothesis HInterrupt : forall e, P (SInterrupt e).
  Hypothesis HAbsTime : P SAbsTime.
  Hypothesis HRelTime : forall e, P (SRelTime e).
  Hypothesis HLabel : P SLabel.
  Hypothesis HScopeEnd : P SScopeEnd.
  Hypothesis HNoInstr : P SNoInstr.

  Fixpoint stmt_ind2 (s : stmt) : P s :=
    let blk := fix go (l : list stmt) : Forall P l :=
                 match l with [] => Forall_nil _ | x :: t => Forall_cons x (stmt_ind2 x) (go t) end in
    let oblk (b : option (list stmt)) : Pob b :=
      match b return Pob b with Some b => blk b | None => I end in
    match s with
    | SFunc ret code => HFunc ret code (oblk code)
    | SScript code => HScript code (blk code)
    | SMeta es => HMeta es
    | SConst kw vars => HConst kw vars
    | SJump => HJump
    | SCondJump c => HCondJump c
    | SReturn v => HReturn v
    | SCondChain cbs els =>
        HCondChain cbs els
          ((fix go (l : list (texpr * list stmt)) : Forall (fun cb => Forall P (snd cb)) l :=
              match l with
              | [] => Forall_nil _
              | (c, b) :: t => Forall_cons (c, b) (blk b) (go t)
              end) cbs)
          (oblk els)
    | SLoop b => HLoop b (blk b)
    | SWhile c b => HWhile c b (blk b)
    | STimes clob n b => HTimes clob n b (blk b)
    | SExpr e => HExpr e
    | SBlock b => HBlock b (blk b)
    | SAssign v op e => HAssign v op e
    | SDecl kw vars => HDecl kw vars
    | SCallSub args => HCallSub args
    | SInterrupt e => HInterrupt e
    | SAbsTime => HAbsTime
    | SRelTime e => HRelTime e
    | SLabel => HLabel
    | SScopeEnd => HScopeEnd
    | SNoInstr => HNoInstr
    end.
End StmtInd.

(* ---- results of the visitor ---- *)
Lemma join_ok a b : join a b = TOk <-> a = TOk /\ b = TOk.
Proof. destruct a, b; simpl; split; intros H; try discriminate; try tauto; destruct H; discriminate. Qed.

Lemma joinmap_ok {A} (f : A -> tcres) l : joinmap f l = TOk <-> Forall (fun x => f x = TOk) l.
Proof.
  induction l as [|x l IH]; simpl.
  - split; auto.
  - rewrite join_ok, IH. split; intros H.
    + destruct H; constructor; auto.
    + inversion H; auto.
Qed.

Lemma of_outcome_ok (o : outcome unit) : of_outcome o = TOk <-> o = Ok tt.
Proof. destruct o as [[]| | |]; simpl; split; intros H; try discriminate; auto. Qed.
Lemma of_outcome_ok' {A} (o : outcome A) : of_outcome o = TOk <-> exists v, o = Ok v.
Proof. destruct o; simpl; split; intros H; try discriminate; eauto; destruct H; discriminate. Qed.

Lemma allok_ok {A} (f : A -> outcome unit) l : allok f l = Ok tt <-> Forall (fun x => f x = Ok tt) l.
Proof.
  induction l as [|x l IH]; simpl.
  - split; auto.
  - split; intros H.
    + bind_inv H u Hu. destruct u. constructor; auto. apply IH; auto.
    + inversion H as [|? ? Hx Hl]; subst. rewrite Hx. cbn [obind]. apply IH; auto.
Qed.

Lemma wt_block_Forall G cur b : wt_block G cur b <-> Forall (wt_stmt G cur) b.
Proof.
  induction b as [|s b IH]; split; intros H; try constructor.
  - inversion H; auto.
  - apply IH. inversion H; auto.
  - inversion H; auto.
  - apply IH. inversion H; auto.
Qed.

(* ---- pointwise form of the operator-table side condition ---- *)
Lemma forallb_In {A} (f : A -> bool) l : forallb f l = true -> forall x, In x l -> f x = true.
Proof. intros H x Hx. rewrite forallb_forall in H. auto. Qed.

Lemma opclass_eqb_eq a b : opclass_eqb a b = true -> a = b.
Proof. destruct a, b; simpl; intros; try discriminate; auto. Qed.
Lemma req_eqb_eq a b : req_eqb a b = true -> a = b.
Proof. destruct a, b; simpl; intros; try discriminate; auto. Qed.
Lemma res_eqb_eq a b : res_eqb a b = true -> a = b.
Proof. destruct a, b; simpl; intros; try discriminate; auto. Qed.
Lemma binop_eqb_eq a b : binop_eqb a b = true -> a = b.
Proof. destruct a, b; simpl; intros; try discriminate; auto. Qed.
Lemma obinop_eqb_eq a b : obinop_eqb a b = true -> a = b.
Proof. destruct a, b; simpl; intros H; try discriminate; auto. apply binop_eqb_eq in H. congruence. Qed.
Lemma checkfn_eqb_eq a b : checkfn_eqb a b = true -> a = b.
Proof. destruct a, b; simpl; intros; try discriminate; auto. Qed.
Lemma drow_eqb_eq a b : drow_eqb a b = true -> a = b.
Proof.
  destruct a, b; simpl; intros H; try discriminate; auto.
  apply andb_true_iff in H. destruct H as [H1 H2]. apply checkfn_eqb_eq in H1. apply Bool.eqb_prop in H2. congruence.
Qed.
Lemma irow_eqb_eq a b : irow_eqb a b = true -> a = b.
Proof. destruct a, b; simpl; intros H; try discriminate; auto. apply checkfn_eqb_eq in H. congruence. Qed.

Lemma in_all_binops op : In op all_binops. Proof. destruct op; simpl; tauto. Qed.
Lemma in_all_unops op : In op all_unops. Proof. destruct op; simpl; tauto. Qed.
Lemma in_all_pseudos k : In k all_pseudos. Proof. destruct k; simpl; tauto. Qed.
Lemma in_all_assignops op : In op all_assignops. Proof. destruct op; simpl; tauto. Qed.
Lemma in_all_skinds k : In k all_skinds. Proof. destruct k; simpl; tauto. Qed.
Lemma in_all_ikinds k : In k all_ikinds. Proof. destruct k; simpl; tauto. Qed.

Record optypes_pointwise (T : optypes) : Prop := {
  pw_bc : forall op, ot_bin_class T op = spec_bin_class op;
  pw_breq : forall op, ot_bin_req T (spec_bin_class op) = spec_bin_req (spec_bin_class op);
  pw_bres : forall op, ot_bin_res T (spec_bin_class op) = spec_bin_res (spec_bin_class op);
  pw_ureq : forall op, ot_un_req T op = spec_un_req op;
  pw_ures : forall op, ot_un_res T op = spec_un_res op;
  pw_ps : forall k, ot_pseudo_req T k = spec_pseudo_req k;
  pw_as : forall op, ot_assign_binop T op = spec_assign_binop op;
}.

Lemma optypes_ok_pointwise T : optypes_ok T = true -> optypes_pointwise T.
Proof.
  unfold optypes_ok. intros H.
  apply andb_true_iff in H. destruct H as [H H8].
  apply andb_true_iff in H. destruct H as [H H7].
  apply andb_true_iff in H. destruct H as [H H6].
  apply andb_true_iff in H. destruct H as [H H5].
  apply andb_true_iff in H. destruct H as [H H4].
  apply andb_true_iff in H. destruct H as [H H3].
  apply andb_true_iff in H. destruct H as [H1 H2].
  constructor; intros x.
  - apply opclass_eqb_eq. apply (forallb_In _ _ H1). apply in_all_binops.
  - apply req_eqb_eq. apply (forallb_In _ _ H3 x). apply in_all_binops.
  - apply res_eqb_eq. apply (forallb_In _ _ H4 x). apply in_all_binops.
  - apply req_eqb_eq. apply (forallb_In _ _ H5 x). apply in_all_unops.
  - apply res_eqb_eq. apply (forallb_In _ _ H6 x). apply in_all_unops.
  - apply req_eqb_eq. apply (forallb_In _ _ H7 x). apply in_all_pseudos.
  - apply obinop_eqb_eq. apply (forallb_In _ _ H8 x). apply in_all_assignops.
Qed.

Section Stmt.
  Variable T : optypes.
  Variable G : env.
  Variable D : tctable.
  Hypothesis HT : optypes_pointwise T.

  Let eg := eguard T G.

  (* the guard of a program: every statement kind it uses has a correct row in the dispatch
     tables, and its expressions satisfy eguard.  [top]: an item of the file (the K_Item row
     of visit_stmt is not consulted for those) *)
  Fixpoint sguard (top : bool) (s : stmt) : bool :=
    (top || srow_ok (kind_of s) (tc_stmt D (kind_of s))) &&
    match s with
    | SFunc _ code =>
        irow_ok IK_Func (tc_item D IK_Func) &&
        match code with Some b => forallb (sguard false) b | None => true end
    | SScript code => irow_ok IK_Script (tc_item D IK_Script) && forallb (sguard false) code
    | SMeta es => irow_ok IK_Meta (tc_item D IK_Meta) && forallb eg es
    | SConst _ vars => irow_ok IK_ConstVar (tc_item D IK_ConstVar) && forallb (fun p => eg (snd p)) vars
    | SJump | SAbsTime | SLabel | SScopeEnd | SNoInstr => true
    | SCondJump c => eg c
    | SReturn v => match v with Some e => eg e | None => true end
    | SCondChain cbs els =>
        forallb (fun cb => eg (fst cb) && forallb (sguard false) (snd cb)) cbs &&
        match els with Some b => forallb (sguard false) b | None => true end
    | SLoop b => forallb (sguard false) b
    | SWhile c b => eg c && forallb (sguard false) b
    | STimes _ n b => eg n && forallb (sguard false) b
    | SExpr e => eg e
    | SBlock b => forallb (sguard false) b
    | SAssign _ _ e => eg e
    | SDecl _ vars => forallb (fun p => match snd p with Some e => eg e | None => true end) vars
    | SCallSub args => forallb eg args
    | SInterrupt e => eg e
    | SRelTime e => eg e
    end.

  Definition file_guard (items : list stmt) : bool := forallb (sguard true) items.

  Lemma cei e : eg e = true -> forall t, check_expr T G e = Ok t <-> has_type G e t.
  Proof. destruct HT. apply check_expr_iff; auto. Qed.

  Lemma cav_ok e : eg e = true -> forall t, check_expr_as_value T G e = Ok t <-> has_type G e (Value t).
  Proof. intros Hg. apply (cav_iff T G e (cei e Hg)). Qed.

  Lemma visit_expr_ok e : eg e = true -> (visit_expr T G e = TOk <-> exists t, has_type G e t).
  Proof.
    intros Hg. unfold visit_expr. rewrite of_outcome_ok'. split; intros [t H]; exists t; apply (cei e Hg); auto.
  Qed.

  Lemma check_cond_ok e : eg e = true -> (check_cond T G e = Ok tt <-> has_type G e (Value TInt)).
  Proof.
    intros Hg. unfold check_cond. split; intros H.
    - bind_inv H t Ht. destruct t; simpl in H; try discriminate. apply (cav_ok e Hg). exact Ht.
    - apply (cav_ok e Hg) in H. rewrite H. reflexivity.
  Qed.

  Lemma visit_cond_ok e : eg e = true -> (visit_cond T G e = TOk <-> has_type G e (Value TInt)).
  Proof. intros Hg. unfold visit_cond. rewrite of_outcome_ok. apply check_cond_ok; auto. Qed.

  Lemma check_var_weak_ok v : check_var_weak G v = Ok tt <-> sigil_ok G v.
  Proof.
    destruct v as [sg n]. unfold check_var_weak, var_sigil, sigil_ok. rewrite var_inherent_eq.
    destruct sg; destruct (inherent G n) as [|[]]; simpl; split; intros H; try discriminate; auto; try congruence.
  Qed.

  Lemma check_var_split v t :
    check_var G v = Ok t <-> (check_var_weak G v = Ok tt /\ var_read_ty G v = Typed t).
  Proof.
    unfold check_var. split; intros H.
    - bind_inv H u Hu. destruct u. split; auto. destruct (var_read_ty G v); inversion H; auto.
    - destruct H as [H1 H2]. rewrite H1, H2. reflexivity.
  Qed.

  Lemma ety_eqb_value a b : ety_eqb (Value a) (Value b) = true <-> a = b.
  Proof. simpl. apply sty_eqb_eq. Qed.

  Lemma decl_ok kw v init :
    match init with Some e => eg e = true | None => True end ->
    (check_single_var_decl T G kw v init = Ok tt <-> wt_declarator G kw v init).
  Proof.
    intros Hg. unfold check_single_var_decl, wt_declarator. split; intros H.
    - bind_inv H u Hw. destruct u. bind_inv H dt Hdt. bind_inv H u Hd. destruct u.
      assert (Hkw : kw <> KwVoid) by (destruct kw; simpl in Hdt; congruence).
      split; auto. split; [apply check_var_weak_ok; auto|]. split.
      + intros t Hk. apply check_var_ok. apply check_var_split. split; auto.
        destruct kw; simpl in Hk, Hdt; inversion Hk; inversion Hdt; subst;
          (destruct (var_read_ty G v) as [|vt]; [discriminate Hd|]);
          unfold require_exact in Hd; simpl in Hd;
          (destruct vt; simpl in Hd; try discriminate; reflexivity).
      + intros e He. subst init. bind_inv H vt Hvt. bind_inv H et Het. bind_inv H t Ht.
        apply as_value_ok in Ht. subst et. unfold require_exact in H.
        destruct (ety_eqb (Value t) (Value vt)) eqn:E; try discriminate. apply ety_eqb_value in E. subst vt.
        exists t. split; [apply check_var_ok; auto | apply (cei e Hg); auto].
    - destruct H as (Hkw & Hs & Hk & Hi).
      apply check_var_weak_ok in Hs. rewrite Hs. cbn [obind].
      assert (Hd : (do dt <- kw_var_ty kw;
                    do u_ <- match dt with
                             | Typed decl_ty => match var_read_ty G v with
                                                | Typed vt => require_exact (Value decl_ty) (Value vt)
                                                | Untyped => Panic P_EXPECT end
                             | Untyped => Ok tt end; Ok tt) = Ok tt).
      { destruct kw; try congruence; simpl; auto.
        all: match goal with |- context [TInt] => specialize (Hk TInt eq_refl)
                           | |- context [TFloat] => specialize (Hk TFloat eq_refl)
                           | |- context [TString] => specialize (Hk TString eq_refl) end;
          apply check_var_ok in Hk; apply check_var_split in Hk; destruct Hk as [_ Hk]; rewrite Hk; reflexivity. }
      destruct (kw_var_ty kw) as [dt| | |] eqn:Hdt; simpl in Hd; try discriminate. cbn [obind].
      destruct (match dt with
                | Typed decl_ty => match var_read_ty G v with
                                   | Typed vt => require_exact (Value decl_ty) (Value vt)
                                   | Untyped => Panic P_EXPECT end
                | Untyped => Ok tt end) as [[]| | |]; simpl in Hd; try discriminate. cbn [obind].
      destruct init as [e|]; auto.
      destruct (Hi e eq_refl) as (t & Hv & He).
      apply check_var_ok in Hv. rewrite Hv. cbn [obind].
      apply (cei e Hg) in He. rewrite He. cbn [obind as_value]. unfold require_exact. simpl.
      rewrite sty_eqb_refl. reflexivity.
  Qed.

  Lemma assign_ok cur v op e : eg e = true ->
    (check_stmt_assignment T G v op e = Ok tt <-> wt_stmt G cur (SAssign v op e)).
  Proof.
    intros Hg. unfold check_stmt_assignment. rewrite (pw_as T HT). split; intros H.
    - bind_inv H vt Hvt. bind_inv H et Het. apply check_var_ok in Hvt. apply (cav_ok e Hg) in Het.
      destruct op; simpl in H.
      { bind_inv H r Hr. apply require_same_ok in Hr. destruct Hr as [-> _]. eapply WT_assign; eauto. }
      all: apply (binop_check_ex T (pw_bc T HT) (pw_breq T HT)) in H; destruct H as [-> [r Hr]];
        eapply WT_assign_op; eauto; reflexivity.
    - inversion H as [| | | | | | | | | | | | | | | | |? ? ? t Hv He|? ? ? bop ? t r Hop Hv He Hbt| | | | | | |]; subst.
      + apply check_var_ok in Hv. rewrite Hv. cbn [obind]. apply (cav_ok e Hg) in He. rewrite He. cbn [obind].
        simpl. unfold require_same. rewrite sty_eqb_refl. reflexivity.
      + apply check_var_ok in Hv. rewrite Hv. cbn [obind]. apply (cav_ok e Hg) in He. rewrite He. cbn [obind].
        rewrite Hop. destruct op; try discriminate Hop.
        all: apply (binop_check_ex T (pw_bc T HT) (pw_breq T HT)); split; eauto.
  Qed.

  Lemma expr_stmt_ok e : eg e = true -> (check_stmt_expr T G e = Ok tt <-> has_type G e Void).
  Proof.
    intros Hg. unfold check_stmt_expr. split; intros H.
    - bind_inv H t Ht. destruct t; try discriminate. apply (cei e Hg). exact Ht.
    - apply (cei e Hg) in H. rewrite H. reflexivity.
  Qed.

  Lemma times_ok clob n : eg n = true ->
    (check_stmt_times T G clob n = Ok tt <->
     (has_type G n (Value TInt) /\ match clob with Some v => var_has_type G v TInt | None => True end)).
  Proof.
    intros Hg. unfold check_stmt_times. split; intros H.
    - bind_inv H t Ht. bind_inv H u Hu. destruct t; simpl in Hu; try discriminate.
      apply (cav_ok n Hg) in Ht. split; auto.
      destruct clob as [v|]; auto. bind_inv H vt Hvt. bind_inv H r Hr.
      apply require_same_ok in Hr. destruct Hr as [-> _]. apply check_var_ok. exact Hvt.
    - destruct H as [Hn Hc]. apply (cav_ok n Hg) in Hn. rewrite Hn. cbn [obind require].
      destruct clob as [v|]; auto. apply check_var_ok in Hc. rewrite Hc. reflexivity.
  Qed.

  Lemma return_ok cur v : match v with Some e => eg e = true | None => True end ->
    (check_stmt_return T G cur v = Ok tt <-> wt_stmt G cur (SReturn v)).
  Proof.
    intros Hg. unfold check_stmt_return. split; intros H.
    - destruct cur as [ret|]; try discriminate. destruct v as [e|].
      + bind_inv H et Het. bind_inv H t Ht. apply as_value_ok in Ht. subst.
        unfold require_exact in H. destruct (ety_eqb (Value t) ret) eqn:E; try discriminate.
        destruct ret as [|rt]; simpl in E; try discriminate. apply sty_eqb_eq in E. subst.
        constructor. apply (cei e Hg). exact Het.
      + unfold require_exact in H. destruct ret; simpl in H; try discriminate. constructor.
    - inversion H as [| | | | | | |Hcur|t e He| | | | | | | | | | | | | | | | |]; subst.
      + reflexivity.
      + apply (cei e Hg) in He. rewrite He. cbn [obind as_value]. unfold require_exact. simpl.
        rewrite sty_eqb_refl. reflexivity.
  Qed.

  Lemma Forall_iff {A} (P Q : A -> Prop) l : Forall (fun x => P x <-> Q x) l -> (Forall P l <-> Forall Q l).
  Proof.
    induction 1 as [|x l Hx Hl IH]; split; intros H; try constructor; inversion H; subst; try tauto.
  Qed.

  Lemma decls_ok kw (vars : list (var * option texpr)) :
    forallb (fun p => match snd p with Some e => eg e | None => true end) vars = true ->
    (check_stmt_declaration T G kw vars = Ok tt <-> Forall (fun p => wt_declarator G kw (fst p) (snd p)) vars).
  Proof.
    intros Hg. unfold check_stmt_declaration. rewrite allok_ok. apply Forall_iff.
    rewrite forallb_forall in Hg. apply Forall_forall. intros [v init] Hin. simpl.
    apply decl_ok. specialize (Hg _ Hin). simpl in Hg. destruct init; auto.
  Qed.

  Lemma consts_ok kw (vars : list (var * texpr)) :
    forallb (fun p => eg (snd p)) vars = true ->
    (check_const_item T G kw vars = Ok tt <-> Forall (fun p => wt_declarator G kw (fst p) (Some (snd p))) vars).
  Proof.
    intros Hg. unfold check_const_item. rewrite allok_ok. apply Forall_iff.
    rewrite forallb_forall in Hg. apply Forall_forall. intros [v e] Hin. simpl.
    apply decl_ok. apply (Hg _ Hin).
  Qed.

  (* blocks, given the statement-level induction hypothesis *)
  Definition IHs (s : stmt) : Prop :=
    sguard false s = true -> forall cur, check_stmt T G D cur s = TOk <-> wt_stmt G cur s.

  Lemma block_ok b : Forall IHs b -> forallb (sguard false) b = true ->
    forall cur, joinmap (check_stmt T G D cur) b = TOk <-> wt_block G cur b.
  Proof.
    intros HI Hg cur. rewrite joinmap_ok, wt_block_Forall. apply Forall_iff.
    rewrite forallb_forall in Hg. rewrite Forall_forall in HI. apply Forall_forall.
    intros s Hin. apply (HI s Hin). apply Hg; auto.
  Qed.

  Lemma srow_spec k : srow_ok k (tc_stmt D k) = true ->
    match k with
    | K_Jump | K_AbsTimeLabel | K_Label | K_ScopeEnd | K_NoInstruction => tc_stmt D k = D_Walk \/ tc_stmt D k = D_Skip
    | K_CallSub => tc_stmt D k = D_Reject \/ tc_stmt D k = D_Unimpl
    | _ => tc_stmt D k = spec_srow k
    end.
  Proof.
    unfold srow_ok. destruct k; intros H;
      try (apply drow_eqb_eq in H; exact H);
      apply orb_true_iff in H; destruct H as [H|H]; apply drow_eqb_eq in H; auto.
  Qed.

  Lemma irow_spec k : irow_ok k (tc_item D k) = true -> tc_item D k = spec_irow k.
  Proof. unfold irow_ok. apply irow_eqb_eq. Qed.

  Lemma oblock_ok (b : option (list stmt)) :
    Pob IHs b -> match b with Some b => forallb (sguard false) b | None => true end = true ->
    forall cur, match b with Some b => joinmap (check_stmt T G D cur) b | None => TOk end = TOk <->
                match b with Some b => wt_block G cur b | None => True end.
  Proof.
    destruct b as [b|]; simpl; intros HI Hg cur.
    - apply block_ok; auto.
    - tauto.
  Qed.

  Lemma condblocks_ok cbs :
    Forall (fun cb => Forall IHs (snd cb)) cbs ->
    forallb (fun cb => eg (fst cb) && forallb (sguard false) (snd cb)) cbs = true ->
    forall cur,
    joinmap (fun cb => join (visit_cond T G (fst cb)) (joinmap (check_stmt T G D cur) (snd cb))) cbs = TOk <->
    wt_condblocks G cur cbs.
  Proof.
    induction 1 as [|[c b] cbs Hb Hcbs IH]; intros Hg cur; simpl.
    - split; auto. constructor.
    - simpl in Hg. apply andb_true_iff in Hg. destruct Hg as [Hg Hg3]. apply andb_true_iff in Hg. destruct Hg as [Hg1 Hg2].
      simpl in Hb. rewrite !join_ok, (visit_cond_ok c Hg1), (block_ok b Hb Hg2 cur), (IH Hg3 cur).
      split; intros H.
      + destruct H as [[H1 H2] H3]. constructor; auto.
      + inversion H; subst; auto.
  Qed.

  Theorem check_stmt_iff : forall s, IHs s.
  Proof.
    induction s using stmt_ind2; unfold IHs; intros Hg cur; cbn [sguard kind_of orb] in Hg;
      apply andb_true_iff in Hg; destruct Hg as [Hrow Hg]; apply srow_spec in Hrow; cbn [spec_srow] in Hrow.
    - (* func *) simpl. rewrite Hrow. apply andb_true_iff in Hg. destruct Hg as [Hi Hg].
      apply irow_spec in Hi. rewrite Hi. cbn [spec_irow].
      rewrite (oblock_ok code H Hg (Some ret)). destruct code as [b|]; split; intros Hw; try constructor; auto.
      inversion Hw; auto.
    - (* script *) simpl. rewrite Hrow. apply andb_true_iff in Hg. destruct Hg as [Hi Hg].
      apply irow_spec in Hi. rewrite Hi. cbn [spec_irow].
      rewrite (block_ok code H Hg cur). split; intros Hw; [constructor; auto | inversion Hw; auto].
    - (* meta *) simpl. rewrite Hrow. apply andb_true_iff in Hg. destruct Hg as [Hi Hg].
      apply irow_spec in Hi. rewrite Hi. cbn [spec_irow]. rewrite joinmap_ok.
      assert (HF : Forall (fun x => visit_expr T G x = TOk) es <-> Forall (fun e => exists t, has_type G e t) es).
      { apply Forall_iff. rewrite forallb_forall in Hg. apply Forall_forall. intros e Hin. apply visit_expr_ok. apply Hg; auto. }
      rewrite HF. split; intros Hw; [constructor; auto | inversion Hw; auto].
    - (* const *) simpl. rewrite Hrow. apply andb_true_iff in Hg. destruct Hg as [Hi Hg].
      apply irow_spec in Hi. rewrite Hi. cbn [spec_irow apply_check]. rewrite of_outcome_ok.
      rewrite (consts_ok kw vars Hg). split; intros Hw; [constructor; auto | inversion Hw; auto].
    - (* jump *) simpl. destruct Hrow as [Hrow|Hrow]; rewrite Hrow; split; intros; auto; constructor.
    - (* condjump *) simpl. rewrite Hrow. rewrite (visit_cond_ok c Hg).
      split; intros Hw; [constructor; auto | inversion Hw; auto].
    - (* return *) simpl. rewrite Hrow. cbn [apply_check]. rewrite join_ok, of_outcome_ok.
      rewrite (return_ok cur v). 2:{ destruct v; auto. } tauto.
    - (* condchain *) simpl. rewrite Hrow. apply andb_true_iff in Hg. destruct Hg as [Hg1 Hg2].
      rewrite join_ok. rewrite (condblocks_ok cbs H Hg1 cur). rewrite (oblock_ok els H0 Hg2 cur).
      destruct els as [b|]; split; intros Hw.
      + destruct Hw. constructor; auto.
      + inversion Hw; auto.
      + destruct Hw. constructor; auto.
      + inversion Hw; auto.
    - (* loop *) simpl. rewrite Hrow. rewrite (block_ok b H Hg cur).
      split; intros Hw; [constructor; auto | inversion Hw; auto].
    - (* while *) simpl. rewrite Hrow. apply andb_true_iff in Hg. destruct Hg as [Hg1 Hg2].
      rewrite join_ok, (visit_cond_ok c Hg1), (block_ok b H Hg2 cur).
      split; intros Hw; [destruct Hw; constructor; auto | inversion Hw; auto].
    - (* times *) simpl. rewrite Hrow. apply andb_true_iff in Hg. destruct Hg as [Hg1 Hg2]. cbn [apply_check].
      rewrite join_ok, of_outcome_ok, (times_ok clob n Hg1), (block_ok b H Hg2 cur).
      destruct clob as [v|]; split; intros Hw.
      + destruct Hw as [[H1 H2] H3]. constructor; auto.
      + inversion Hw; auto.
      + destruct Hw as [[H1 H2] H3]. constructor; auto.
      + inversion Hw; auto.
    - (* expr *) simpl. rewrite Hrow. cbn [apply_check]. rewrite join_ok, of_outcome_ok, (expr_stmt_ok e Hg).
      split; intros Hw; [destruct Hw; constructor; auto | inversion Hw; auto].
    - (* block *) simpl. rewrite Hrow. rewrite (block_ok b H Hg cur).
      split; intros Hw; [constructor; auto | inversion Hw; auto].
    - (* assign *) simpl. rewrite Hrow. cbn [apply_check]. rewrite join_ok, of_outcome_ok, (assign_ok cur v op e Hg). tauto.
    - (* decl *) simpl. rewrite Hrow. cbn [apply_check]. rewrite join_ok, of_outcome_ok, (decls_ok kw vars Hg).
      split; intros Hw; [destruct Hw; constructor; auto | inversion Hw; auto].
    - (* callsub *) simpl. destruct Hrow as [Hrow|Hrow]; rewrite Hrow; split; intros Hw; try discriminate; inversion Hw.
    - (* interrupt *) simpl. rewrite Hrow. cbn [apply_check]. rewrite join_ok, of_outcome_ok, (check_cond_ok e Hg).
      split; intros Hw; [destruct Hw; constructor; auto | inversion Hw; auto].
    - (* abstime *) simpl. destruct Hrow as [Hrow|Hrow]; rewrite Hrow; split; intros; auto; constructor.
    - (* reltime *) simpl. rewrite Hrow. cbn [apply_check]. rewrite join_ok, of_outcome_ok, (check_cond_ok e Hg).
      split; intros Hw; [destruct Hw; constructor; auto | inversion Hw; auto].
    - (* label *) simpl. destruct Hrow as [Hrow|Hrow]; rewrite Hrow; split; intros; auto; constructor.
    - (* scopeend *) simpl. destruct Hrow as [Hrow|Hrow]; rewrite Hrow; split; intros; auto; constructor.
    - (* noinstr *) simpl. destruct Hrow as [Hrow|Hrow]; rewrite Hrow; split; intros; auto; constructor.
  Qed.
End Stmt.

(* ---- items of a file, files, and the closed forms ---- *)
Section File.
  Variable T : optypes.
  Variable G : env.
  Variable D : tctable.
  Hypothesis HT : optypes_pointwise T.

  Lemma all_IHs b : Forall (IHs T G D) b.
  Proof. apply Forall_forall. intros s _. apply check_stmt_iff; auto. Qed.

  Lemma check_item_iff cur s : sguard T G D true s = true ->
    (check_item T G D cur s = TOk <-> (is_item s /\ wt_stmt G cur s)).
  Proof.
    intros Hg. unfold is_item.
    destruct s; cbn [sguard orb andb] in Hg; simpl;
      try (split; [discriminate | intros [Hi _]; exfalso; apply Hi; reflexivity]).
    - (* func *) apply andb_true_iff in Hg. destruct Hg as [Hi Hg]. apply irow_spec in Hi. rewrite Hi. cbn [spec_irow].
      destruct code as [b|].
      + unfold check_block. rewrite (block_ok T G D b (all_IHs b) Hg (Some ret)).
        split; intros Hw; [split; [discriminate | constructor; auto] | destruct Hw as [_ Hw]; inversion Hw; auto].
      + split; intros; auto. split; [discriminate | constructor].
    - (* script *) apply andb_true_iff in Hg. destruct Hg as [Hi Hg]. apply irow_spec in Hi. rewrite Hi. cbn [spec_irow].
      unfold check_block. rewrite (block_ok T G D code (all_IHs code) Hg cur).
      split; intros Hw; [split; [discriminate | constructor; auto] | destruct Hw as [_ Hw]; inversion Hw; auto].
    - (* meta *) apply andb_true_iff in Hg. destruct Hg as [Hi Hg]. apply irow_spec in Hi. rewrite Hi. cbn [spec_irow].
      rewrite joinmap_ok.
      assert (HF : Forall (fun x => visit_expr T G x = TOk) es <-> Forall (fun e => exists t, has_type G e t) es).
      { apply Forall_iff. rewrite forallb_forall in Hg. apply Forall_forall. intros e Hin. apply visit_expr_ok; auto. }
      rewrite HF. split; intros Hw; [split; [discriminate | constructor; auto] | destruct Hw as [_ Hw]; inversion Hw; auto].
    - (* const *) apply andb_true_iff in Hg. destruct Hg as [Hi Hg]. apply irow_spec in Hi. rewrite Hi. cbn [spec_irow apply_check].
      rewrite of_outcome_ok. rewrite (consts_ok T G HT kw vars Hg).
      split; intros Hw; [split; [discriminate | constructor; auto] | destruct Hw as [_ Hw]; inversion Hw; auto].
  Qed.

  Theorem check_file_iff items : file_guard T G D items = true ->
    (check_file T G D items = TOk <-> wt_file G items).
  Proof.
    intros Hg. unfold check_file, wt_file. rewrite joinmap_ok. apply Forall_iff.
    unfold file_guard in Hg. rewrite forallb_forall in Hg. apply Forall_forall. intros s Hin.
    apply check_item_iff. apply Hg; auto.
  Qed.
End File.

(* when every table is as specified, every program satisfies the guard *)
Section AllGuard.
  Variable T : optypes.
  Variable G : env.
  Variable D : tctable.
  Hypothesis Hct : ot_ct_enum T = CT_enum_ty.
  Hypothesis Hcz : ot_call_zip T = CZ_nondefault.
  Hypothesis HD : dispatch_complete D = true.

  Lemma eguard_all e : eguard T G e = true.
  Proof.
    induction e using texpr_ind2; simpl; auto.
    - unfold enum_ok. rewrite Hct. reflexivity.
    - rewrite IHe1, IHe2. reflexivity.
    - rewrite IHe1, IHe2, IHe3. reflexivity.
    - rewrite IHe. simpl. apply forallb_forall. intros [x|] Hin; auto.
      rewrite Forall_forall in H. apply (H _ Hin).
    - unfold call_ok. rewrite Hcz. simpl. apply andb_true_iff. split.
      + apply forallb_forall. intros p Hin. rewrite Forall_forall in H. apply (H _ Hin).
      + apply forallb_forall. intros a Hin. rewrite Forall_forall in H0. apply (H0 _ Hin).
  Qed.

  Lemma srow_all k : srow_ok k (tc_stmt D k) = true.
  Proof.
    unfold dispatch_complete in HD. apply andb_true_iff in HD. destruct HD as [H1 _].
    apply (forallb_In _ _ H1 k). apply in_all_skinds.
  Qed.
  Lemma irow_all k : irow_ok k (tc_item D k) = true.
  Proof.
    unfold dispatch_complete in HD. apply andb_true_iff in HD. destruct HD as [_ H2].
    apply (forallb_In _ _ H2 k). apply in_all_ikinds.
  Qed.

  Lemma forallb_all {A} (f : A -> bool) l : Forall (fun x => f x = true) l -> forallb f l = true.
  Proof. intros H. apply forallb_forall. rewrite Forall_forall in H. auto. Qed.
  Lemma forallb_true {A} (f : A -> bool) l : (forall x, f x = true) -> forallb f l = true.
  Proof. intros H. apply forallb_forall. auto. Qed.

  Lemma sguard_all s : forall top, sguard T G D top s = true.
  Proof.
    induction s using stmt_ind2; intros top; cbn [sguard]; rewrite srow_all, orb_true_r; cbn [andb];
      rewrite ?irow_all; cbn [andb]; rewrite ?eguard_all; cbn [andb]; auto.
    - destruct code as [b|]; auto. simpl in H. apply forallb_all. eapply Forall_impl; [|exact H]. auto.
    - apply forallb_all. eapply Forall_impl; [|exact H]. auto.
    - apply forallb_true. intros e. apply eguard_all.
    - apply forallb_true. intros p. apply eguard_all.
    - destruct v; auto. apply eguard_all.
    - apply andb_true_iff. split.
      + apply forallb_all. eapply Forall_impl; [|exact H]. intros [c b] Hb. simpl in *. rewrite eguard_all. simpl.
        apply forallb_all. eapply Forall_impl; [|exact Hb]. auto.
      + destruct els as [b|]; auto. simpl in H0. apply forallb_all. eapply Forall_impl; [|exact H0]. auto.
    - apply forallb_all. eapply Forall_impl; [|exact H]. auto.
    - apply forallb_all. eapply Forall_impl; [|exact H]. auto.
    - apply forallb_all. eapply Forall_impl; [|exact H]. auto.
    - apply forallb_all. eapply Forall_impl; [|exact H]. auto.
    - apply forallb_true. intros [v [e|]]; simpl; auto. apply eguard_all.
    - apply forallb_true. intros e. apply eguard_all.
  Qed.
End AllGuard.

Theorem check_iff_wt_tables T D :
  optypes_ok T = true -> dispatch_complete D = true ->
  ot_ct_enum T = CT_enum_ty -> ot_call_zip T = CZ_nondefault ->
  forall G items, check_file T G D items = TOk <-> wt_file G items.
Proof.
  intros HT HD Hct Hcz G items. apply check_file_iff.
  - apply optypes_ok_pointwise; auto.
  - unfold file_guard. apply forallb_forall. intros s _. apply sguard_all; auto.
Qed.

Theorem check_iff_wt_guarded T D :
  optypes_ok T = true ->
  forall G items, file_guard T G D items = true -> (check_file T G D items = TOk <-> wt_file G items).
Proof. intros HT G items Hg. apply check_file_iff; auto. apply optypes_ok_pointwise; auto. Qed.

(* the reference typer: the checker instantiated with the specified tables decides wt *)
Theorem reference_typer_decides_wt G items :
  check_file spec_optypes G spec_tctable items = TOk <-> wt_file G items.
Proof. apply check_iff_wt_tables; reflexivity. Qed.

Theorem reference_expr_typer G e t : check_expr spec_optypes G e = Ok t <-> has_type G e t.
Proof.
  assert (HP := optypes_ok_pointwise spec_optypes eq_refl). destruct HP.
  apply (check_expr_iff spec_optypes G); auto. apply eguard_all; reflexivity.
Qed.

Theorem compute_ty_agrees_guarded T :
  optypes_ok T = true ->
  forall G e t, eguard T G e = true -> check_expr T G e = Ok t -> compute_ty T G e = Ok t.
Proof. intros HT G e t. apply compute_ty_agrees. Qed.

Theorem compute_ty_agrees_tables T :
  optypes_ok T = true -> ot_ct_enum T = CT_enum_ty -> ot_call_zip T = CZ_nondefault ->
  forall G e t, check_expr T G e = Ok t -> compute_ty T G e = Ok t.
Proof. intros HT Hct Hcz G e t. apply compute_ty_agrees. apply eguard_all; auto. Qed.
