(* Proofs/BytesRoundtrip.v -- the script part of decompile-then-recompile at the level of BYTES, for every
   script the writer can emit: the container model of C03 (write_instrs / read_instrs over the regenerated
   header tables) composed with the instruction-stream round trip of C01 (difficulty labels, time labels,
   argument codec).  The interface between the two models -- which header fields feed which part of the
   stream -- is [to_instr] / [of_instr]. *)
From TV Require Import Base.I32 Model.Abi Model.Diff Model.Time Model.Stream Model.Container Spec.AbiFit
  Proofs.AbiReencode Proofs.Diff Proofs.Time Proofs.StreamRoundtrip Proofs.ContainerScript Gen.ArgCodec.
Open Scope Z_scope.

(* RawInstr <-> what the decompiler works on: time, difficulty mask, (by opcode) signature, blob + param mask *)
Definition to_instr (opc : Z) (r : rinstr) : instr :=
  mkInstr (ri_time r) opc (r_mask (ri_res r)) (r_blob (ri_res r)) (Z.of_N (ri_mask r)) 0 0 0.
Definition of_instr (sig_of : Z -> list enc) (i : instr) : rinstr :=
  mkri (i_time i) (Z.to_N (i_diff i)) (sig_of (i_opcode i)) (mkres (i_args i) (i_mask i) None []).

Lemma of_to sig_of opc r : sig_of opc = ri_sig r -> r_extra (ri_res r) = None -> r_warn (ri_res r) = [] ->
  of_instr sig_of (to_instr opc r) = r.
Proof.
  destruct r as [t m sg [blob mask extra warn]]. cbn [ri_sig ri_res r_extra r_warn]. intros H1 H2' H3. subst extra warn.
  unfold of_instr, to_instr. cbn. rewrite N2Z.id, H1. reflexivity.
Qed.

Fixpoint zipw {A B C} (f : A -> B -> C) (la : list A) (lb : list B) : list C :=
  match la, lb with a :: ta, b :: tb => f a b :: zipw f ta tb | _, _ => [] end.

Lemma zipw_to_instr (xs : list (Z * rinstr)) :
  zipw to_instr (map i_opcode (map (fun p => to_instr (fst p) (snd p)) xs)) (map snd xs)
  = map (fun p => to_instr (fst p) (snd p)) xs.
Proof. induction xs as [|[o r] xs IH]; [reflexivity|]. cbn. f_equal. exact IH. Qed.

Section Bytes.
  Variable sjis_enc : list Z -> option bytes.
  Variable sjis_dec : bytes -> option (list Z).
  Variable has_regs : bool.
  Variable fd : flagdefs.
  Hypothesis Hfd : Consistent fd.

  (* one statement for the three terminal conventions: [readback] is the C03 read-back fact of the format *)
  Lemma bytes_roundtrip_from_readback f sig_of (xs : list (Z * rinstr)) rest start endo jumps bs :
    let l := map (fun p => to_instr (fst p) (snd p)) xs in
    write_instrs f l = Ok bs -> read_instrs f (bs ++ rest) start endo = Ok l ->
    Forall (fun p => sig_of (fst p) = ri_sig (snd p)) xs ->
    Forall in_i32 (map ri_time (map snd xs)) -> Forall (instr_ok sjis_dec has_regs) (map snd xs) ->
    forall l', read_instrs f (bs ++ rest) start endo = Ok l' ->
    forall x, decompile_script sjis_dec gen_codec fd jumps (map (of_instr sig_of) l') = Ok x ->
    exists rs, compile_script sjis_enc gen_codec has_regs fd x = Ok rs /\
               write_instrs f (zipw to_instr (map i_opcode l') rs) = Ok bs.
  Proof.
    intros l Hw Hr Hsig Ht Hok l' Hr' x Hd.
    assert (l' = l) by congruence. subst l'.
    assert (Hof : map (of_instr sig_of) l = map snd xs).
    { unfold l. rewrite map_map. clear -Hsig Hok. induction xs as [|[o r] xs0 IH]; [reflexivity|]. cbn [map fst snd].
      pose proof (Forall_inv Hsig) as Hs. pose proof (Forall_inv Hok) as Ho. cbn [fst snd map] in Hs, Ho.
      destruct Ho as (_ & _ & _ & _ & _ & _ & _ & He & Hwn & _).
      rewrite (of_to sig_of o r Hs He Hwn). f_equal. apply IH; [exact (Forall_inv_tail Hsig) | exact (Forall_inv_tail Hok)]. }
    rewrite Hof in Hd.
    exists (map snd xs). split.
    - exact (stream_roundtrip sjis_enc sjis_dec has_regs fd Hfd jumps (map snd xs) x Ht Hok Hd).
    - unfold l. rewrite zipw_to_instr. exact Hw.
  Qed.

  Theorem script_bytes_roundtrip_terminal f sig_of (xs : list (Z * rinstr)) rest start endo jumps :
    let l := map (fun p => to_instr (fst p) (snd p)) xs in
    fmt_ok f = true -> f_tkind f = TTerminal -> Forall (fun i => fitsb f i = true) l ->
    end_allows endo (start + size_seq f l) ->
    Forall (fun p => sig_of (fst p) = ri_sig (snd p)) xs ->
    Forall in_i32 (map ri_time (map snd xs)) -> Forall (instr_ok sjis_dec has_regs) (map snd xs) ->
    exists bs, write_instrs f l = Ok bs /\
      forall l', read_instrs f (bs ++ rest) start endo = Ok l' ->
      forall x, decompile_script sjis_dec gen_codec fd jumps (map (of_instr sig_of) l') = Ok x ->
      exists rs, compile_script sjis_enc gen_codec has_regs fd x = Ok rs /\
                 write_instrs f (zipw to_instr (map i_opcode l') rs) = Ok bs.
  Proof.
    intros l OK K Hl He Hsig Ht Hok.
    destruct (script_readback_terminal f l rest start endo OK K Hl He) as [bs [Hw Hr]].
    exists bs. split; [exact Hw|].
    exact (bytes_roundtrip_from_readback f sig_of xs rest start endo jumps bs Hw Hr Hsig Ht Hok).
  Qed.
End Bytes.
