(* Proofs/ReadTotal.v -- the script reader terminates (by a measure: every instruction consumes at
   least one byte) and, for formats with checked size arithmetic on an unsigned size field, never panics. *)
From TV Require Import Base.I32 Model.BinScript.
Open Scope Z_scope.

Definition ok_or_err {A} (x : outcome A) : Prop :=
  match x with Ok _ | Err _ => True | _ => False end.
Definition no_panic {A} (x : outcome A) : Prop :=
  match x with Panic _ => False | _ => True end.

Lemma take_bytes_len n bs l rest :
  take_bytes n bs = Some (l, rest) -> (length l = n /\ length bs = n + length rest)%nat.
Proof.
  unfold take_bytes. destruct (Nat.leb_spec n (length bs)) as [H|H]; [|discriminate].
  intros E. inversion E; subst. rewrite firstn_length, skipn_length. lia.
Qed.

Lemma fld_bytes_pos f : (1 <= fld_bytes f)%nat.
Proof. destruct f; cbn; lia. Qed.

(* ---- consumption ---- *)
Lemma read_hdr_len F fs : forall vals bs o rest,
  read_hdr F fs vals bs = Ok (o, rest) -> (length rest <= length bs)%nat.
Proof.
  induction fs as [|f fs IH]; intros vals bs o rest H; cbn [read_hdr] in H.
  - destruct (early_term F vals); inversion H; subst; lia.
  - destruct (early_term F vals). { inversion H; subst; lia. }
    destruct (take_bytes (fld_bytes f) bs) as [[l r]|] eqn:T; [|discriminate].
    apply take_bytes_len in T. apply IH in H. lia.
Qed.

Lemma read_hdr_consumes F f fs vals bs vals' rest :
  read_hdr F (f :: fs) vals bs = Ok (Some vals', rest) -> (length rest < length bs)%nat.
Proof.
  cbn [read_hdr]. destruct (early_term F vals); [discriminate|].
  destruct (take_bytes (fld_bytes f) bs) as [[l r]|] eqn:T; [|discriminate].
  intros H. apply take_bytes_len in T. apply read_hdr_len in H. pose proof (fld_bytes_pos f). lia.
Qed.

Lemma read_byte_vec_len n bs a : read_byte_vec n bs = Ok a -> (length (snd a) <= length bs)%nat.
Proof.
  unfold read_byte_vec. destruct (ISIZE_MAX <? n); [discriminate|].
  destruct (take_bytes (Z.to_nat n) bs) as [[l r]|] eqn:T; [|discriminate].
  intros E; inversion E; subst. apply take_bytes_len in T. cbn. lia.
Qed.

Definition is_instr (k : rkind) : bool := match k with RInstr _ | RMaybe _ => true | _ => false end.

Lemma read_instr_consumes F bs k rest :
  fmt_wf F = true -> read_instr F bs = Ok (k, rest) -> is_instr k = true -> (length rest < length bs)%nat.
Proof.
  unfold fmt_wf, read_instr. intros WF.
  destruct (f_fields F) as [|f fs] eqn:EF; [discriminate|].
  destruct (f_eof_first F && match bs with [] => true | _ => false end).
  { intros E; inversion E; subst; discriminate. }
  destruct (read_hdr F (f :: fs) [] bs) as [[[vals|] r1]| | |] eqn:H; cbn [obind]; try discriminate.
  2:{ intros E; inversion E; subst; discriminate. }
  apply read_hdr_consumes in H.
  destruct (args_size F vals) as [n| | |]; cbn [obind]; try discriminate.
  destruct (read_byte_vec n r1) as [a| | |] eqn:B; cbn [obind]; try discriminate.
  apply read_byte_vec_len in B.
  intros E K.
  assert (rest = snd a) as ->.
  { destruct (Nat.eqb (f_term_pos F) (S (length (f :: fs))) && cond_holds vals (f_term_cond F));
      [destruct (f_term_kind F)|]; inversion E; reflexivity. }
  lia.
Qed.

(* ---- termination: the fuel `length bs + 1` suffices ---- *)
Lemma read_instrs_fuel F : fmt_wf F = true ->
  forall fuel bs cur endo pt acc, (length bs < fuel)%nat ->
  read_instrs F fuel bs cur endo pt acc <> OutOfFuel.
Proof.
  intros WF. induction fuel as [|fuel IH]; intros bs cur endo pt acc L; [lia|].
  cbn [read_instrs].
  set (at_end := match endo with Some e => if cur <? e then 0 else if cur =? e then 1 else 2 | None => 0 end).
  destruct (at_end =? 1); [discriminate|]. destruct (at_end =? 2); [discriminate|].
  destruct (read_instr F bs) as [[k rest]| | |] eqn:R; cbn [obind]; try discriminate.
  - destruct k as [i|i| |]; try discriminate.
    + apply IH. eapply read_instr_consumes in R; eauto. lia.
    + apply IH. eapply read_instr_consumes in R; eauto. lia.
  - (* read_instr itself has no fuel *)
    exfalso. revert R. unfold read_instr.
    destruct (f_eof_first F && _); [discriminate|].
    assert (HH : forall fs vals b, read_hdr F fs vals b <> OutOfFuel).
    { induction fs as [|f fs IHf]; intros vals b; cbn [read_hdr]; destruct (early_term F vals); try discriminate.
      destruct (take_bytes (fld_bytes f) b) as [[l r]|]; [apply IHf|discriminate]. }
    destruct (read_hdr F (f_fields F) [] bs) as [[[vals|] r1]| | |] eqn:H; cbn [obind]; try discriminate.
    2:{ exfalso; eapply HH; eauto. }
    unfold args_size. destruct (f_size F); cbn [obind];
      repeat match goal with |- context [if ?c then _ else _] => destruct c; cbn [obind] end; try discriminate;
      unfold read_byte_vec;
      repeat match goal with
             | |- context [if ?c then _ else _] => destruct c; cbn [obind]
             | |- context [match take_bytes ?n ?b with _ => _ end] => destruct (take_bytes n b); cbn [obind]
             | |- context [match f_term_kind F with _ => _ end] => destruct (f_term_kind F)
             end; discriminate.
Qed.

Theorem read_script_terminates F bs endo :
  fmt_wf F = true -> read_script F bs endo <> OutOfFuel.
Proof. intros WF. unfold read_script. apply read_instrs_fuel; auto. Qed.

(* ---- header values of unsigned fields are small non-negative numbers ---- *)
Lemma le_val_range l : 0 <= le_val l < 256 ^ Z.of_nat (length l).
Proof.
  induction l as [|b t IH]; cbn [le_val length]. { cbn; lia. }
  rewrite Nat2Z.inj_succ, Z.pow_succ_r by lia.
  pose proof (Z.mod_pos_bound b 256 ltac:(lia)). nia.
Qed.

Definition fld_rel (f : fld) (v : Z) : Prop := fld_signed f = false -> 0 <= v < two32.

Lemma decode_fld_rel f l : length l = fld_bytes f -> fld_rel f (decode_fld f l).
Proof.
  intros L U. unfold decode_fld. rewrite U. pose proof (le_val_range l) as R. rewrite L in R.
  destruct f; cbn in U; try discriminate; cbn in R; unfold two32; lia.
Qed.

Lemma read_hdr_vals F fs : forall done vals bs vals' rest,
  Forall2 fld_rel done vals ->
  read_hdr F fs vals bs = Ok (Some vals', rest) ->
  Forall2 fld_rel (done ++ fs) vals'.
Proof.
  induction fs as [|f fs IH]; intros done vals bs vals' rest Inv H; cbn [read_hdr] in H.
  - destruct (early_term F vals); inversion H; subst. now rewrite app_nil_r.
  - destruct (early_term F vals); [discriminate|].
    destruct (take_bytes (fld_bytes f) bs) as [[l r]|] eqn:T; [|discriminate].
    apply take_bytes_len in T. destruct T as [T _].
    replace (done ++ f :: fs) with ((done ++ [f]) ++ fs) by (rewrite <- app_assoc; reflexivity).
    eapply IH; [|exact H]. apply Forall2_app; auto. constructor; [|constructor]. now apply decode_fld_rel.
Qed.

Lemma Forall2_nth_error {A B} (R : A -> B -> Prop) l1 l2 i a :
  Forall2 R l1 l2 -> nth_error l1 i = Some a -> exists b, nth_error l2 i = Some b /\ R a b.
Proof.
  intros H; revert i; induction H as [|x y l1 l2 Hxy H IH]; intros [|i] E; cbn in *; try discriminate.
  - inversion E; subst; eauto.
  - now apply IH.
Qed.

Lemma unsigned_field_value F vals i f :
  Forall2 fld_rel (f_fields F) vals -> nth_error (f_fields F) i = Some f -> fld_unsigned f = true ->
  0 <= nth i vals 0 < two32.
Proof.
  intros Inv E U. destruct (Forall2_nth_error _ _ _ _ _ Inv E) as [v [Ev Rv]].
  rewrite (nth_error_nth _ _ 0 Ev). apply Rv. unfold fld_unsigned in U. now destruct (fld_signed f).
Qed.

Lemma args_size_safe F vals :
  size_safe F = true -> Forall2 fld_rel (f_fields F) vals -> 0 <= f_hdr F ->
  match args_size F vals with Ok n => 0 <= n < two32 | Err _ => True | _ => False end.
Proof.
  unfold size_safe, args_size. intros S Inv Hh.
  destruct (f_size F) as [i|i|i|i|i|i]; try discriminate;
    [| |destruct (nth i vals 0 =? 12); [unfold two32; lia|exact I]];
    destruct (nth_error (f_fields F) i) as [f|] eqn:E; try discriminate;
    pose proof (unsigned_field_value F vals i f Inv E S) as R;
    unfold as_usize; destruct (Z.ltb_spec (nth i vals 0) 0); try lia.
  destruct (Z.ltb_spec (nth i vals 0) (f_hdr F)); [exact I|]. unfold two32 in *. lia.
Qed.

Lemma read_byte_vec_small n bs : 0 <= n < two32 -> ok_or_err (read_byte_vec n bs).
Proof.
  intros R. unfold read_byte_vec. destruct (Z.ltb_spec ISIZE_MAX n).
  - unfold ISIZE_MAX, two32 in *. lia.
  - destruct (take_bytes (Z.to_nat n) bs); exact I.
Qed.

Lemma read_hdr_ok_or_err F fs : forall vals bs, ok_or_err (read_hdr F fs vals bs).
Proof.
  induction fs as [|f fs IH]; intros vals bs; cbn [read_hdr]; destruct (early_term F vals); try exact I.
  destruct (take_bytes (fld_bytes f) bs) as [[l r]|]; [apply IH|exact I].
Qed.

Lemma read_instr_safe F bs :
  size_safe F = true -> 0 <= f_hdr F -> ok_or_err (read_instr F bs).
Proof.
  intros SS Hh. unfold read_instr.
  destruct (f_eof_first F && _); [exact I|].
  pose proof (read_hdr_ok_or_err F (f_fields F) [] bs) as OE.
  destruct (read_hdr F (f_fields F) [] bs) as [[[vals|] r1]| | |] eqn:H; cbn [obind]; try exact I; try contradiction.
  pose proof (read_hdr_vals F (f_fields F) [] [] bs vals r1 (Forall2_nil _) H) as Inv. cbn [app] in Inv.
  pose proof (args_size_safe F vals SS Inv Hh) as A.
  destruct (args_size F vals) as [n| | |]; cbn [obind]; try exact I; try contradiction.
  pose proof (read_byte_vec_small n r1 A) as B.
  destruct (read_byte_vec n r1) as [a| | |]; cbn [obind]; try exact I; try contradiction.
  destruct (Nat.eqb (f_term_pos F) (S (length (f_fields F))) && cond_holds vals (f_term_cond F));
    [destruct (f_term_kind F)|]; exact I.
Qed.

Lemma read_instrs_safe F : size_safe F = true -> 0 <= f_hdr F ->
  forall fuel bs cur endo pt acc, no_panic (read_instrs F fuel bs cur endo pt acc).
Proof.
  intros SS Hh. induction fuel as [|fuel IH]; intros bs cur endo pt acc; cbn [read_instrs]; [exact I|].
  set (at_end := match endo with Some e => if cur <? e then 0 else if cur =? e then 1 else 2 | None => 0 end).
  destruct (at_end =? 1); [exact I|]. destruct (at_end =? 2); [exact I|].
  pose proof (read_instr_safe F bs SS Hh) as R.
  destruct (read_instr F bs) as [[k rest]| | |]; cbn [obind]; try exact I; try contradiction.
  destruct k; try exact I; apply IH.
Qed.

(* the script reader: Ok or Err for every byte string, every start offset convention and end offset *)
Theorem read_total F bs endo :
  fmt_wf F = true -> size_safe F = true -> 0 <= f_hdr F -> ok_or_err (read_script F bs endo).
Proof.
  intros WF SS Hh. pose proof (read_script_terminates F bs endo WF) as T.
  pose proof (read_instrs_safe F SS Hh (S (length bs)) bs 0 endo None []) as P.
  unfold read_script in *. destruct (read_instrs F (S (length bs)) bs 0 endo None []); cbn in *; auto; congruence.
Qed.

(* ---- the unsafe shapes panic: concrete rows (the layouts present in the tree the proofs were written
        against) and concrete scripts ---- *)
Definition row_unchecked_u16 : ifmt :=   (* StdHooks10 *)
  {| f_hdr := 8; f_fields := [FI32; FI16; FU16]; f_eof_first := false; f_time := 0; f_opcode := 1; f_mask := None;
     f_size := SzUncheckedSub 2; f_term_pos := 3; f_term_cond := [(1%nat, (-1))]; f_term_kind := TTerminal; f_has_terminal := true |}.
Definition row_unchecked_i16 : ifmt :=   (* OldeEclHooks *)
  {| f_hdr := 12; f_fields := [FI32; FU16; FI16; FU8; FU8; FU16]; f_eof_first := false; f_time := 0; f_opcode := 1; f_mask := Some 5%nat;
     f_size := SzUncheckedSub 2; f_term_pos := 7; f_term_cond := [(1%nat, 65535)]; f_term_kind := TTerminal; f_has_terminal := true |}.
Definition row_checked_i16 : ifmt :=     (* TimelineFormat06 *)
  {| f_hdr := 8; f_fields := [FI16; FI16; FU16; FI16]; f_eof_first := false; f_time := 0; f_opcode := 2; f_mask := None;
     f_size := SzCheckedSub 3; f_term_pos := 2; f_term_cond := [(0%nat, (-1)); (1%nat, 4)]; f_term_kind := TTerminal; f_has_terminal := true |}.
Definition row_assert12 : ifmt :=        (* StdHooks06 *)
  {| f_hdr := 8; f_fields := [FI32; FI16; FU16]; f_eof_first := false; f_time := 0; f_opcode := 1; f_mask := None;
     f_size := SzAssert12 2; f_term_pos := 3; f_term_cond := [(1%nat, (-1))]; f_term_kind := TTerminal; f_has_terminal := true |}.

Lemma unchecked_sub_refuted : read_script row_unchecked_u16 [0;0;0;0; 5;0; 7;0] None = Panic P_OVERFLOW.
Proof. vm_compute. reflexivity. Qed.
Lemma unchecked_sub_signed_refuted :
  read_script row_unchecked_i16 [0;0;0;0; 5;0; 11;0; 0;255;255;0] None = Panic P_OVERFLOW
  /\ read_script row_unchecked_i16 [0;0;0;0; 5;0; 0;128; 0;255;255;0] None = Panic P_CAPACITY.
Proof. split; vm_compute; reflexivity. Qed.
Lemma checked_sub_signed_refuted : read_script row_checked_i16 [0;0; 0;0; 5;0; 255;255] None = Panic P_CAPACITY.
Proof. vm_compute. reflexivity. Qed.
Lemma assert12_refuted : read_script row_assert12 [0;0;0;0; 5;0; 8;0] None = Panic P_ASSERT.
Proof. vm_compute. reflexivity. Qed.

(* ---- decode_label ---- *)
Lemma decode_label_total k cur bits : dl_safe k = true -> exists o, decode_label k cur bits = Ok o.
Proof. destruct k; cbn; try discriminate; eauto. Qed.

Lemma decode_label_mul20_refuted : decode_label DL_mul20_u32 0 268435456 = Panic P_OVERFLOW.
Proof. vm_compute. reflexivity. Qed.

Lemma decode_label_mul20_guarded cur bits : 0 <= bits * 20 < two32 -> decode_label DL_mul20_u32 cur bits = Ok (bits * 20).
Proof. intros H. cbn. destruct (Z.ltb_spec (bits * 20) two32); [reflexivity|lia]. Qed.
