(* Proofs/StreamRoundtrip.v -- decompile then compile is the identity on instruction streams:
   composition of the argument-codec, difficulty-label and time-label theorems. *)
From TV Require Import Base.I32 Model.Abi Model.Diff Model.Time Model.Stream Spec.AbiFit
  Proofs.AbiReencode Proofs.Diff Proofs.Time Props.C12 Props.C13 Props.C14 Gen.ArgCodec.
Open Scope Z_scope.

Section RT.
  Variable sjis_enc : list Z -> option bytes.
  Variable sjis_dec : bytes -> option (list Z).
  Variable has_regs : bool.
  Variable fd : flagdefs.
  Hypothesis Hfd : Consistent fd.

  Notation decompile_instr := (decompile_instr sjis_dec gen_codec fd).
  Notation compile_instr := (compile_instr sjis_enc gen_codec has_regs fd).

  (* an instruction whose arguments re-encode (C12_encode_decode's side conditions) *)
  Definition instr_ok (ri : rinstr) : Prop :=
    (ri_mask ri <= 255)%N /\
    forallb plain_enc (ri_sig ri) = true /\ forallb (enc_known gen_codec) (ri_sig ri) = true /\
    bytes_ok (r_blob (ri_res ri)) /\ 0 <= r_mask (ri_res ri) /\
    nparams (ri_sig ri) <= cd_mask_bits gen_codec /\ mask_canonical gen_codec (ri_sig ri) (r_mask (ri_res ri)) = true /\
    r_extra (ri_res ri) = None /\ r_warn (ri_res ri) = [] /\
    (has_regs = true \/ forall args w, decode_call sjis_dec gen_codec (ri_sig ri) (ri_res ri) = Ok (args, w) -> existsb a_reg args = false).

  Lemma instr_roundtrip ri di t : instr_ok ri -> decompile_instr ri = Ok di ->
    compile_instr t di = Ok (mkri t (ri_mask ri) (ri_sig ri) (ri_res ri)).
  Proof.
    intros (Hm & Hp & Hk & Hb & Hm0 & Hn & Hc & Hx & Hw & Hr) Hd.
    unfold Stream.decompile_instr in Hd.
    destruct (mask_to_label fd (ri_mask ri)) as [lbl| | |] eqn:El; cbn [obind] in Hd; try discriminate.
    destruct (decode_call sjis_dec gen_codec (ri_sig ri) (ri_res ri)) as [[args w]| | |] eqn:Ed; cbn [obind snd fst] in Hd; try discriminate.
    destruct w; [|discriminate]. inversion Hd; subst di. clear Hd.
    unfold Stream.compile_instr. cbn [di_label di_sig di_args].
    destruct (C14_label_roundtrip fd Hfd (ri_mask ri) Hm) as [s [Hs Hp']]. rewrite El in Hs. inversion Hs; subst s.
    rewrite Hp'. cbn [obind].
    destruct (ri_res ri) as [blob mask extra warn] eqn:Er. cbn [r_blob r_mask r_extra r_warn] in *. subst extra warn.
    rewrite (C12_encode_decode sjis_enc sjis_dec has_regs (ri_sig ri) blob mask args None Hp Hk Hb Hm0 Hn Hc Ed).
    - reflexivity.
    - destruct Hr as [Hr|Hr]; [left; exact Hr | right; exact (Hr args [] eq_refl)].
  Qed.

  Lemma rec_times_instr_times l : rec_times l = instr_times l.
  Proof. induction l as [|[g t] r IH]; [reflexivity|]. destruct g; cbn; rewrite ?IH; reflexivity. Qed.

  Lemma ozip_roundtrip : forall (is : list rinstr) ds, Forall instr_ok is ->
    omap decompile_instr is = Ok ds ->
    ozip compile_instr (map ri_time is) ds = Ok is.
  Proof.
    induction is as [|ri is IH]; intros ds Hok Hd; cbn [omap] in Hd.
    - inversion Hd. reflexivity.
    - inversion Hok as [|? ? Hri Hrest]; subst.
      destruct (decompile_instr ri) as [di| | |] eqn:Ed; cbn [obind] in Hd; try discriminate.
      destruct (omap decompile_instr is) as [ds'| | |] eqn:Eds; cbn [obind] in Hd; try discriminate.
      inversion Hd; subst ds. cbn [map ozip].
      rewrite (instr_roundtrip ri di (ri_time ri) Hri Ed). cbn [obind].
      rewrite (IH ds' Hrest eq_refl). cbn [obind]. destruct ri; reflexivity.
  Qed.

  Theorem stream_roundtrip : forall jumps (is : list rinstr) x,
    Forall in_i32 (map ri_time is) -> Forall instr_ok is ->
    decompile_script sjis_dec gen_codec fd jumps is = Ok x ->
    compile_script sjis_enc gen_codec has_regs fd x = Ok is.
  Proof.
    intros jumps is x Ht Hok Hd. unfold decompile_script in Hd.
    destruct (C13_decompile_script_times (map ri_time is) jumps Ht) as [es [r [He [Hr [Hf Hi]]]]].
    rewrite He in Hd. cbn [obind] in Hd.
    destruct (omap decompile_instr is) as [ds| | |] eqn:Eds; cbn [obind] in Hd; try discriminate.
    inversion Hd; subst x. unfold compile_script. cbn [fst snd]. rewrite Hr. cbn [obind].
    rewrite rec_times_instr_times, Hi. apply ozip_roundtrip; assumption.
  Qed.
End RT.

(* ---- a concrete script: non-vacuity of stream_roundtrip ---- *)
Definition ex_sig1 : list enc := [EInt 4 true false false; EFloat false; EPad 4].
Definition ex_is : list rinstr :=
  [mkri 0 255%N ex_sig1 (mkres [5;0;0;0; 0;0;128;63; 0;0;0;0] 0 None []);
   mkri (-30) 241%N ex_sig1 (mkres [232;3;0;0; 0;0;0;64; 0;0;0;0] 1 None []);
   mkri 10 255%N [EInt 2 false false false; EInt 2 true false false] (mkres [255;255; 0;128] 0 None [])].
Lemma ex_run :
  match default_defs with
  | Ok fd => match decompile_script (fun b => Some b) gen_codec fd [(2%nat, None)] ex_is with
             | Ok x => compile_script (fun s => Some s) gen_codec true fd x
             | _ => Panic 0%nat
             end
  | _ => Panic 0%nat
  end = Ok ex_is.
Proof. vm_compute. reflexivity. Qed.
Lemma ex_ok : Forall (instr_ok (fun b => Some b) true) ex_is.
Proof.
  assert (Hok : forall t (k : N) sg bl mk, (k <= 255)%N -> forallb plain_enc sg = true ->
            forallb (enc_known gen_codec) sg = true -> bytes_ok bl -> 0 <= mk ->
            nparams sg <= cd_mask_bits gen_codec -> mask_canonical gen_codec sg mk = true ->
            instr_ok (fun b => Some b) true (mkri t k sg (mkres bl mk None []))).
  { intros. unfold instr_ok. cbn [ri_mask ri_sig ri_res r_blob r_mask r_extra r_warn]. repeat split; auto. }
  unfold ex_is, ex_sig1.
  constructor; [apply Hok; [vm_compute; discriminate | vm_compute; reflexivity | vm_compute; reflexivity | repeat constructor; lia | lia | vm_compute; discriminate | vm_compute; reflexivity]|].
  constructor; [apply Hok; [vm_compute; discriminate | vm_compute; reflexivity | vm_compute; reflexivity | repeat constructor; lia | lia | vm_compute; discriminate | vm_compute; reflexivity]|].
  constructor; [apply Hok; [vm_compute; discriminate | vm_compute; reflexivity | vm_compute; reflexivity | repeat constructor; lia | lia | vm_compute; discriminate | vm_compute; reflexivity]|].
  constructor.
Qed.
