(* Proofs/IntrinsicPlace.v -- IntrinsicBuilder::into_vec cannot panic once it allocates for the indices
   that IntrinsicInstrAbiParts::from_abi computes (which count padding). *)
From Coq Require Import Permutation.
From TV Require Import Base.I32 Model.Abi Model.Intrinsic Spec.AbiFit Proofs.AbiBytes Proofs.AbiRoundtrip.
Open Scope Z_scope.

(* ---- the positions from_abi hands out ---- *)
Definition jump_positions (j : option (nat * jorder)) : list nat :=
  match j with
  | None => []
  | Some (i, Loc) => [i]
  | Some (i, _) => [i; S i]
  end.
Definition parts_indices (p : parts) : list nat :=
  jump_positions (ap_jump p) ++ ap_plain p ++ map fst (ap_outputs p).

Definition nonpad_enum (sig : list enc) : list ienc := filter (fun q => negb (is_pad (snd q))) (enumerate_from 0 sig).

Lemma remove_first_some f l x r : remove_first f l = (Some x, r) -> Permutation l (x :: r).
Proof.
  revert r. induction l as [|y l IH]; intros r H; cbn [remove_first] in H; [discriminate|].
  destruct (f y).
  - inv H. apply Permutation_refl.
  - destruct (remove_first f l) as [o t] eqn:E. inv H. specialize (IH _ eq_refl).
    eapply perm_trans; [apply perm_skip; exact IH|apply perm_swap].
Qed.

Lemma remove_first_none f l r : remove_first f l = (None, r) -> r = l.
Proof.
  revert r. induction l as [|y l IH]; intros r H; cbn [remove_first] in H; [now inv H|].
  destruct (f y); [discriminate|]. destruct (remove_first f l) as [o t] eqn:E. inv H. f_equal. now apply IH.
Qed.

Lemma jump_perm l i o r : find_and_remove_jump l = Ok (i, o, r) ->
  Permutation (map fst l) (jump_positions (Some (i, o)) ++ map fst r).
Proof.
  unfold find_and_remove_jump. destruct (remove_first (fun p => is_off (snd p)) l) as [oo l1] eqn:E1.
  destruct (remove_first (fun p => is_time (snd p)) l1) as [tt l2] eqn:E2.
  destruct oo as [[oi oe]|]; [|discriminate]. apply remove_first_some in E1.
  destruct tt as [[ti te]|].
  - apply remove_first_some in E2.
    assert (Hp : Permutation (map fst l) (oi :: ti :: map fst l2)).
    { eapply perm_trans; [apply Permutation_map; exact E1|]. cbn [map fst]. apply perm_skip.
      apply (Permutation_map fst) in E2. exact E2. }
    destruct (ti =? oi + 1)%nat eqn:Ea.
    + intro H. inv H. apply Nat.eqb_eq in Ea. subst ti. cbn [jump_positions app].
      replace (S i) with (i + 1)%nat by lia. exact Hp.
    + destruct (ti + 1 =? oi)%nat eqn:Eb; [|discriminate]. intro H. inv H. apply Nat.eqb_eq in Eb. subst oi.
      cbn [jump_positions app]. replace (S i) with (i + 1)%nat by lia.
      eapply perm_trans; [exact Hp|apply perm_swap].
  - apply remove_first_none in E2. subst l2. intro H. inv H. cbn [jump_positions app].
    apply (Permutation_map fst) in E1. exact E1.
Qed.

Lemma out_arg_shape l ty i m r : remove_out_arg l ty = Ok (i, m, r) -> map fst l = i :: map fst r.
Proof.
  unfold remove_out_arg. destruct l as [|[j e] t]; [discriminate|].
  destruct ty; [destruct (is_eint e)|destruct (is_efloat e); [|destruct (is_eint e)]|]; intro H; inv H; reflexivity.
Qed.

Lemma plain_arg_shape l ty i r : remove_plain_arg l ty = Ok (i, r) -> map fst l = i :: map fst r.
Proof.
  unfold remove_plain_arg. destruct l as [|[j e] t]; [discriminate|].
  destruct ty; [destruct (is_eint e)|destruct (is_efloat e)|]; intro H; inv H; reflexivity.
Qed.

Lemma perm_of_eq {A} (l1 l2 : list A) : l1 = l2 -> Permutation l1 l2.
Proof. intros ->. apply Permutation_refl. Qed.

Lemma from_abi_facts k sig p : from_abi k sig = Ok p ->
  Permutation (map fst (nonpad_enum sig)) (parts_indices p)
  /\ ap_num p = length (nonpad_enum sig)
  /\ ap_padding p = map fst (filter (fun q => is_pad (snd q)) (enumerate_from 0 sig)).
Proof.
  unfold from_abi. fold (nonpad_enum sig). set (l := nonpad_enum sig).
  set (pads := map fst (filter (fun q => is_pad (snd q)) (enumerate_from 0 sig))).
  intro H. unfold parts_indices.
  assert (Hfin : forall (r : list ienc) (q p' : parts), match r with [] => Ok q | _ => Err E_BADABI end = Ok p' -> r = [] /\ p' = q).
  { intros r q p' Hr. destruct r; [inv Hr; auto|discriminate]. }
  destruct k.
  - (* Jmp *) bind_ok H x Hx. destruct x as [[i o] r]. apply Hfin in H. destruct H as [-> ->]. cbn.
    apply jump_perm in Hx. rewrite !app_nil_r in *. repeat split. exact Hx.
  - (* InterruptLabel *) bind_ok H x Hx. destruct x as [i r]. apply Hfin in H. destruct H as [-> ->]. cbn.
    apply plain_arg_shape in Hx. repeat split. apply perm_of_eq. exact Hx.
  - (* AssignOp *) bind_ok H x Hx. destruct x as [[oi m] r1]. bind_ok H y Hy. destruct y as [pi r2].
    apply Hfin in H. destruct H as [-> ->]. cbn. apply out_arg_shape in Hx. apply plain_arg_shape in Hy.
    repeat split. rewrite Hx, Hy. cbn [map]. apply perm_swap.
  - (* BinOp *) bind_ok H x Hx. destruct x as [[oi m] r1]. bind_ok H y Hy. destruct y as [p1 r2].
    bind_ok H z Hz. destruct z as [p2 r3]. apply Hfin in H. destruct H as [-> ->]. cbn.
    apply out_arg_shape in Hx. apply plain_arg_shape in Hy, Hz. repeat split. rewrite Hx, Hy, Hz. cbn [map].
    apply (Permutation_cons_append [p1; p2] oi).
  - (* UnOp *) bind_ok H x Hx. destruct x as [[oi m] r1]. bind_ok H y Hy. destruct y as [p1 r2].
    apply Hfin in H. destruct H as [-> ->]. cbn. apply out_arg_shape in Hx. apply plain_arg_shape in Hy.
    repeat split. rewrite Hx, Hy. cbn [map]. apply perm_swap.
  - (* CountJmp *) bind_ok H x Hx. destruct x as [[i o] r1]. bind_ok H y Hy. destruct y as [[oi m] r2].
    apply Hfin in H. destruct H as [-> ->]. cbn [ap_jump ap_plain ap_outputs ap_num ap_padding map fst app].
    apply jump_perm in Hx. apply out_arg_shape in Hy. repeat split. rewrite Hy in Hx. exact Hx.
  - (* CondJmp *) bind_ok H x Hx. destruct x as [[i o] r1]. bind_ok H y Hy. destruct y as [p1 r2].
    bind_ok H z Hz. destruct z as [p2 r3]. apply Hfin in H. destruct H as [-> ->].
    cbn [ap_jump ap_plain ap_outputs ap_num ap_padding map fst app].
    apply jump_perm in Hx. apply plain_arg_shape in Hy, Hz. repeat split. rewrite Hy, Hz in Hx. cbn [map] in Hx.
    rewrite ?app_nil_r. exact Hx.
  - (* CondJmp2A *) bind_ok H y Hy. destruct y as [p1 r2]. bind_ok H z Hz. destruct z as [p2 r3].
    apply Hfin in H. destruct H as [-> ->]. cbn. apply plain_arg_shape in Hy, Hz. repeat split.
    rewrite Hy, Hz. cbn [map]. apply Permutation_refl.
  - (* CondJmp2B *) bind_ok H x Hx. destruct x as [[i o] r]. apply Hfin in H. destruct H as [-> ->]. cbn.
    apply jump_perm in Hx. rewrite !app_nil_r in *. repeat split. exact Hx.
Qed.

(* ---- enumerate ---- *)
Lemma enumerate_from_fst {A} (l : list A) n : map fst (enumerate_from n l) = seq n (length l).
Proof. revert n. induction l as [|x l IH]; intro n; cbn [enumerate_from map fst length seq]; [reflexivity|]. now rewrite IH. Qed.

Lemma enumerate_from_length {A} (l : list A) n : length (enumerate_from n l) = length l.
Proof. revert n. induction l as [|x l IH]; intro n; cbn [enumerate_from length]; [reflexivity|]. now rewrite IH. Qed.

Lemma NoDup_map_filter {A} (f : A -> bool) (g : A -> nat) l : NoDup (map g l) -> NoDup (map g (filter f l)).
Proof.
  induction l as [|x l IH]; cbn [map filter]; intro H; [constructor|]. inv H.
  destruct (f x); [cbn [map]; constructor; [|now apply IH]|now apply IH].
  intro Hin. apply H2. apply in_map_iff in Hin. destruct Hin as [y [Hy Hin]]. apply filter_In in Hin.
  apply in_map_iff. exists y. tauto.
Qed.

Lemma nonpad_enum_nodup sig : NoDup (map fst (nonpad_enum sig)).
Proof. unfold nonpad_enum. apply NoDup_map_filter. rewrite enumerate_from_fst. apply seq_NoDup. Qed.

Lemma nonpad_enum_bound sig i : In i (map fst (nonpad_enum sig)) -> (i < length sig)%nat.
Proof.
  unfold nonpad_enum. intro H. apply in_map_iff in H. destruct H as [[j e] [Hj Hin]]. cbn [fst] in Hj. subst j.
  apply filter_In in Hin. destruct Hin as [Hin _].
  assert (In i (map fst (enumerate_from 0 sig))) by (apply in_map_iff; exists (i, e); auto).
  rewrite enumerate_from_fst in H. apply in_seq in H. lia.
Qed.

(* every position is padding or a parameter *)
Lemma position_cases sig i : (i < length sig)%nat ->
  In i (map fst (filter (fun q => is_pad (snd q)) (enumerate_from 0 sig))) \/ In i (map fst (nonpad_enum sig)).
Proof.
  intro Hi. assert (Hin : In i (map fst (enumerate_from 0 sig))) by (rewrite enumerate_from_fst; apply in_seq; lia).
  apply in_map_iff in Hin. destruct Hin as [[j e] [Hj Hin]]. cbn [fst] in Hj. subst j.
  destruct (is_pad e) eqn:Ep.
  - left. apply in_map_iff. exists (i, e). split; [reflexivity|]. apply filter_In. auto.
  - right. unfold nonpad_enum. apply in_map_iff. exists (i, e). split; [reflexivity|]. apply filter_In. cbn [snd]. now rewrite Ep.
Qed.

(* ---- filling slots ---- *)
Definition filled (l : list (option arg)) (i : nat) : bool :=
  match nth_error l i with Some (Some _) => true | _ => false end.

Lemma set_slot_ok : forall l i v, (i < length l)%nat -> filled l i = false ->
  exists l', set_slot l i v = Ok l' /\ length l' = length l /\ forall j, filled l' j = (Nat.eqb j i || filled l j).
Proof.
  induction l as [|x l IH]; intros i v Hi Hf; [cbn in Hi; lia|].
  destruct i as [|i].
  - unfold filled in Hf. cbn [nth_error] in Hf. destruct x; [discriminate|]. cbn [set_slot].
    eexists. split; [reflexivity|]. split; [reflexivity|]. intros [|j]; reflexivity.
  - cbn [length] in Hi. destruct (IH i v ltac:(lia) Hf) as [l' [Hs [Hl Hj]]].
    assert (Hset : set_slot (x :: l) (S i) v = Ok (x :: l')) by (destruct x; cbn [set_slot]; rewrite Hs; reflexivity).
    exists (x :: l'). split; [exact Hset|]. split; [cbn [length]; now rewrite Hl|].
    intros [|j]; [reflexivity|]. unfold filled in *. cbn [nth_error]. apply Hj.
Qed.

Lemma set_slots_ok : forall ivs l, NoDup (map fst ivs) ->
  (forall i, In i (map fst ivs) -> (i < length l)%nat /\ filled l i = false) ->
  exists l', set_slots l ivs = Ok l' /\ length l' = length l /\
             forall j, filled l' j = (existsb (Nat.eqb j) (map fst ivs) || filled l j).
Proof.
  induction ivs as [|[i v] ivs IH]; intros l Hnd Hall.
  - exists l. split; [reflexivity|]. split; [reflexivity|]. intro j. reflexivity.
  - cbn [map fst] in Hnd. inv Hnd. destruct (Hall i (or_introl eq_refl)) as [Hi Hf].
    destruct (set_slot_ok l i v Hi Hf) as [l1 [Hs [Hl Hj]]].
    destruct (IH l1 H2) as [l' [Hs' [Hl' Hj']]].
    { intros k Hk. destruct (Hall k (or_intror Hk)) as [Hk1 Hk2]. split; [lia|].
      rewrite Hj, Hk2. replace (k =? i)%nat with false; [reflexivity|]. symmetry. apply Nat.eqb_neq. intro. subst. contradiction. }
    exists l'. split; [cbn [set_slots]; rewrite Hs; exact Hs'|]. split; [lia|].
    intro j. rewrite Hj', Hj. cbn [map fst existsb]. destruct (j =? i)%nat, (existsb (Nat.eqb j) (map fst ivs)); reflexivity.
Qed.

Lemma collect_slots_ok : forall l i0 skip,
  (forall j, (j < length l)%nat -> existsb (Nat.eqb (i0 + j)) skip = true \/ filled l j = true) ->
  exists r, collect_slots l i0 skip = Ok r.
Proof.
  induction l as [|x l IH]; intros i0 skip H; [eexists; reflexivity|].
  cbn [collect_slots].
  assert (Hrest : forall j, (j < length l)%nat -> existsb (Nat.eqb (S i0 + j)) skip = true \/ filled l j = true).
  { intros j Hj. specialize (H (S j) ltac:(cbn [length]; lia)). replace (S i0 + j)%nat with (i0 + S j)%nat by lia. exact H. }
  destruct (IH (S i0) skip Hrest) as [r Hr].
  destruct (existsb (Nat.eqb i0) skip) eqn:Es; [eauto|].
  specialize (H O ltac:(cbn [length]; lia)). rewrite Nat.add_0_r, Es in H. destruct H as [H|H]; [discriminate|].
  unfold filled in H. cbn [nth_error] in H. destruct x; [|discriminate]. rewrite Hr. eexists. reflexivity.
Qed.

Lemma filled_repeat n j : filled (repeat (@None arg) n) j = false.
Proof. unfold filled. revert j. induction n as [|n IH]; intros [|j]; cbn [repeat nth_error]; try reflexivity. apply IH. Qed.

Lemma set_slots_app l a b : set_slots l (a ++ b) = do l' <- set_slots l a; set_slots l' b.
Proof.
  revert l. induction a as [|[i v] a IH]; intro l; cbn [app set_slots obind]; [reflexivity|].
  destruct (set_slot l i v); cbn [obind]; try reflexivity. apply IH.
Qed.

Lemma existsb_eqb_in j l : existsb (Nat.eqb j) l = true <-> In j l.
Proof. rewrite existsb_exists. split; [intros [x [Hx He]]; apply Nat.eqb_eq in He; now subst|intro; exists j; split; [assumption|apply Nat.eqb_refl]]. Qed.

Lemma zip_outputs_fst : forall vals infos outs, length vals = length infos ->
  zip_outputs vals infos = Ok outs -> map fst outs = map fst infos.
Proof.
  induction vals as [|v vals IH]; intros [|[i m] infos] outs Hl H; cbn [zip_outputs] in H; try discriminate; [now inv H|].
  bind_ok H v' Hv. bind_ok H r Hr. inv H. cbn [map fst]. f_equal. apply IH; [cbn [length] in Hl; lia|assumption].
Qed.

Lemma map_fst_combine {A B} (l1 : list A) (l2 : list B) : length l1 = length l2 -> map fst (combine l1 l2) = l1.
Proof. revert l2. induction l1 as [|x l1 IH]; intros [|y l2] H; cbn in *; try reflexivity; try discriminate. f_equal. apply IH. lia. Qed.

(* with only trailing padding the parameters sit at positions 0 .. n-1 *)
Lemma trailing_positions sig : trailing_pad_only sig = true ->
  map fst (nonpad_enum sig) = seq 0 (length (nonpad_enum sig)).
Proof.
  unfold nonpad_enum. generalize 0%nat. induction sig as [|e sig IH]; intros n Ht; [reflexivity|].
  cbn [trailing_pad_only] in Ht. cbn [enumerate_from filter snd]. destruct (is_pad e) eqn:Ep; cbn [negb].
  - assert (Hn : filter (fun q : nat * enc => negb (is_pad (snd q))) (enumerate_from (S n) sig) = []).
    { clear -Ht. generalize (S n). induction sig as [|x sig IH]; intro k; [reflexivity|]. cbn [forallb] in Ht.
      apply andb_true_iff in Ht. destruct Ht as [Hx Ht]. cbn [enumerate_from filter snd]. rewrite Hx. cbn [negb]. now apply IH. }
    rewrite Hn. reflexivity.
  - cbn [map fst length seq]. f_equal. now apply IH.
Qed.

(* C12: placement is total when the vector is allocated for the positions that from_abi hands out
   (the repaired code), and also -- on the code as it is -- when no padding precedes a parameter *)
Theorem into_vec_total cd k sig p b t :
  cd_place_with_padding cd = true \/ trailing_pad_only sig = true ->
  from_abi k sig = Ok p ->
  (match b_jump b with Some _ => true | None => false end) = (match ap_jump p with Some _ => true | None => false end) ->
  length (b_plain b) = length (ap_plain p) -> length (b_outputs b) = length (ap_outputs p) ->
  (exists outs, zip_outputs (b_outputs b) (ap_outputs p) = Ok outs) ->
  exists args, into_vec cd p b t = Ok args.
Proof.
  intros Hflag Habi Hj Hpl Hol [outs Hzip].
  destruct (from_abi_facts _ _ _ Habi) as [Hperm [Hnum Hpad]].
  unfold into_vec. rewrite Hj, Bool.eqb_reflx. cbn [negb].
  rewrite Hpl, Hol, !Nat.eqb_refl. cbn [negb].
  (* the allocation covers every position of the signature *)
  assert (Hn : (ap_num p + length (ap_padding p))%nat = length sig).
  { rewrite Hnum, Hpad, map_length. unfold nonpad_enum.
    assert (Hgen : forall (l : list ienc), (length (filter (fun q => negb (is_pad (snd q))) l) + length (filter (fun q => is_pad (snd q)) l))%nat = length l).
    { induction l as [|x l IH]; [reflexivity|]. cbn [filter]. destruct (is_pad (snd x)); cbn [negb length]; lia. }
    rewrite Hgen. apply enumerate_from_length. }
  (* n slots, positions in [skip] need no argument *)
  assert (Hfinish : forall n skip,
    (forall i, In i (parts_indices p) -> (i < n)%nat) ->
    (forall j, (j < n)%nat -> In j skip \/ In j (parts_indices p)) ->
    forall jl, map fst jl = jump_positions (ap_jump p) ->
    exists args, (do out1 <- set_slots (repeat None n) jl;
                  do out2 <- set_slots out1 (combine (ap_plain p) (b_plain b));
                  do outs' <- zip_outputs (b_outputs b) (ap_outputs p);
                  do out3 <- set_slots out2 outs';
                  collect_slots out3 0 skip) = Ok args).
  { intros n skip Hbound Hcover jl Hjl.
    assert (Hall : map fst (jl ++ combine (ap_plain p) (b_plain b) ++ outs) = parts_indices p).
    { rewrite !map_app, Hjl, map_fst_combine by (symmetry; exact Hpl). unfold parts_indices. repeat f_equal.
      eapply zip_outputs_fst; [exact Hol|exact Hzip]. }
    assert (Hnd : NoDup (map fst (jl ++ combine (ap_plain p) (b_plain b) ++ outs))).
    { rewrite Hall. eapply Permutation_NoDup; [exact Hperm|apply nonpad_enum_nodup]. }
    destruct (set_slots_ok _ (repeat None n) Hnd) as [l' [Hs [Hl Hf]]].
    { intros i Hi. rewrite Hall in Hi. split; [|apply filled_repeat]. rewrite repeat_length. now apply Hbound. }
    rewrite set_slots_app in Hs.
    bind_ok Hs l1 H1. rewrite H1. cbn [obind]. rewrite set_slots_app in Hs. bind_ok Hs l2 H2. rewrite H2. cbn [obind].
    rewrite Hzip. cbn [obind]. rewrite Hs. cbn [obind].
    apply collect_slots_ok. intros j Hjlt. rewrite Hl, repeat_length in Hjlt. cbn [Nat.add].
    destruct (Hcover j Hjlt) as [Hp|Hp].
    - left. now apply existsb_eqb_in.
    - right. rewrite Hf. apply orb_true_iff. left. apply existsb_eqb_in. rewrite Hall. exact Hp. }
  assert (Hjumps : forall la ti ji jo, ap_jump p = Some (ji, jo) ->
    map fst (map (fun q : nat * arg => ((ji + fst q)%nat, snd q))
      (enumerate_from 0 (match jo with
                         | LocTime => [la; match ti with Some t0 => t0 | None => t end]
                         | TimeLoc => [match ti with Some t0 => t0 | None => t end; la]
                         | Loc => [la]
                         end))) = jump_positions (ap_jump p)).
  { intros la ti ji jo ->. destruct jo; cbn; repeat f_equal; lia. }
  destruct (cd_place_with_padding cd) eqn:Ef.
  - (* allocated with padding *)
    rewrite Hn.
    assert (Hb : forall i, In i (parts_indices p) -> (i < length sig)%nat).
    { intros i Hi. apply nonpad_enum_bound. eapply Permutation_in; [apply Permutation_sym; exact Hperm|exact Hi]. }
    assert (Hc : forall j, (j < length sig)%nat -> In j (ap_padding p) \/ In j (parts_indices p)).
    { intros j Hjlt. destruct (position_cases sig j Hjlt) as [Hp|Hp]; [left; now rewrite Hpad|right].
      eapply Permutation_in; [exact Hperm|exact Hp]. }
    destruct (b_jump b) as [[la ti]|] eqn:Ebj; destruct (ap_jump p) as [[ji jo]|] eqn:Eaj; try discriminate.
    + apply (Hfinish _ _ Hb Hc). now apply Hjumps.
    + apply (Hfinish _ _ Hb Hc []). reflexivity.
  - (* allocated without padding: fine when padding is only trailing *)
    destruct Hflag as [Hflag|Hflag]; [discriminate|].
    pose proof (trailing_positions _ Hflag) as Hpos.
    assert (Hb : forall i, In i (parts_indices p) -> (i < ap_num p)%nat).
    { intros i Hi. assert (Hin : In i (map fst (nonpad_enum sig))) by (eapply Permutation_in; [apply Permutation_sym; exact Hperm|exact Hi]).
      rewrite Hpos in Hin. apply in_seq in Hin. lia. }
    assert (Hc : forall j, (j < ap_num p)%nat -> In j (@nil nat) \/ In j (parts_indices p)).
    { intros j Hjlt. right. eapply Permutation_in; [exact Hperm|]. rewrite Hpos. apply in_seq. lia. }
    destruct (b_jump b) as [[la ti]|] eqn:Ebj; destruct (ap_jump p) as [[ji jo]|] eqn:Eaj; try discriminate.
    + apply (Hfinish _ _ Hb Hc). now apply Hjumps.
    + apply (Hfinish _ _ Hb Hc []). reflexivity.
Qed.
