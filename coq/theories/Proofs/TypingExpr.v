(* Proofs/TypingExpr.v -- expressions: the checker's check_expr decides the declarative relation
   has_type; compute_ty agrees with check_expr on accepted expressions. *)
From TV Require Import Base.I32 Model.Ops Model.Expr Model.TypeCheck Spec.TypingRules.
Open Scope Z_scope.

(* ---- induction principle for texpr (nested lists) ---- *)
Section TexprInd.
  Variable P : texpr -> Prop.
  Hypothesis HLitI : forall z, P (TLitI z).
  Hypothesis HLitF : forall b, P (TLitF b).
  Hypothesis HLitS : forall s, P (TLitS s).
  Hypothesis HVar : forall v, P (TVar v).
  Hypothesis HEnum : forall en id, P (TEnum en id).
  Hypothesis HBin : forall a op b, P a -> P b -> P (TBin a op b).
  Hypothesis HUn : forall op x, P x -> P (TUn op x).
  Hypothesis HXcr : forall v, P (TXcr v).
  Hypothesis HTern : forall c l r, P c -> P l -> P r -> P (TTern c l r).
  Hypothesis HDiff : forall first rest, P first ->
    Forall (fun c => match c with Some x => P x | None => True end) rest -> P (TDiff first rest).
  Hypothesis HLabel : P TLabelProp.
  Hypothesis HCall : forall f ps args, Forall (fun p => P (snd p)) ps -> Forall P args -> P (TCall f ps args).

  Fixpoint texpr_ind2 (e : texpr) : P e :=
    match e with
    | TLitI z => HLitI z
    | TLitF b => HLitF b
    | TLitS s => HLitS s
    | TVar v => HVar v
    | TEnum en id => HEnum en id
    | TBin a op b => HBin a op b (texpr_ind2 a) (texpr_ind2 b)
    | TUn op x => HUn op x (texpr_ind2 x)
    | TXcr v => HXcr v
    | TTern c l r => HTern c l r (texpr_ind2 c) (texpr_ind2 l) (texpr_ind2 r)
    | TDiff first rest =>
        HDiff first rest (texpr_ind2 first)
          ((fix go (l : list (option texpr)) : Forall (fun c => match c with Some x => P x | None => True end) l :=
              match l with
              | [] => Forall_nil _
              | None :: t => Forall_cons None I (go t)
              | Some x :: t => Forall_cons (Some x) (texpr_ind2 x) (go t)
              end) rest)
    | TLabelProp => HLabel
    | TCall f ps args =>
        HCall f ps args
          ((fix go (l : list (pseudo * texpr)) : Forall (fun p => P (snd p)) l :=
              match l with
              | [] => Forall_nil _
              | (k, x) :: t => Forall_cons (k, x) (texpr_ind2 x) (go t)
              end) ps)
          ((fix go (l : list texpr) : Forall P l :=
              match l with
              | [] => Forall_nil _
              | x :: t => Forall_cons x (texpr_ind2 x) (go t)
              end) args)
    end.
End TexprInd.

(* ---- the outcome monad ---- *)
Lemma obind_ok {A B} (m : outcome A) (f : A -> outcome B) v :
  obind m f = Ok v <-> exists x, m = Ok x /\ f x = Ok v.
Proof.
  destruct m; simpl; split; intros H; try discriminate; eauto.
  - destruct H as (x & H1 & H2). inversion H1; subst; auto.
  - destruct H as (x & H1 & _); discriminate.
  - destruct H as (x & H1 & _); discriminate.
  - destruct H as (x & H1 & _); discriminate.
Qed.

Ltac inv_ok :=
  repeat match goal with
  | H : obind _ _ = Ok _ |- _ => apply obind_ok in H; destruct H as (? & ? & ?)
  | H : Ok _ = Ok _ |- _ => inversion H; subst; clear H
  | H : (if ?c then _ else _) = Ok _ |- _ => destruct c eqn:?; try discriminate
  end.

Ltac bind_inv H x Hx := apply obind_ok in H; destruct H as (x & Hx & H).

Lemma sty_eqb_eq a b : sty_eqb a b = true <-> a = b.
Proof. destruct a, b; simpl; split; intros; try discriminate; auto. Qed.
Lemma sty_eqb_refl a : sty_eqb a a = true.
Proof. destruct a; reflexivity. Qed.

Lemma as_value_ok x t : as_value x = Ok t <-> x = Value t.
Proof. destruct x; simpl; split; intros H; try discriminate; inversion H; auto. Qed.
Lemma require_same_ok a b t : require_same a b = Ok t <-> a = b /\ t = a.
Proof.
  unfold require_same. destruct (sty_eqb a b) eqn:E.
  - apply sty_eqb_eq in E. subst. split; intros H; [inversion H; auto | destruct H; subst; auto].
  - split; intros H; try discriminate. destruct H as [H _]. apply sty_eqb_eq in H. congruence.
Qed.

(* ---- the side conditions, pointwise ---- *)
Definition padding_last (s : sig) : Prop :=
  firstn (min_args s) (sg_params s) = filter nondefault (sg_params s).
Definition list_vtyb_eqb (a b : list (vty * bool)) : bool :=
  (fix go a b := match a, b with
                 | [], [] => true
                 | (x, d) :: a', (y, d') :: b' => vty_eqb x y && Bool.eqb d d' && go a' b'
                 | _, _ => false
                 end) a b.
Definition padding_lastb (s : sig) : bool :=
  list_vtyb_eqb (firstn (min_args s) (sg_params s)) (filter nondefault (sg_params s)).

Lemma vty_eqb_eq a b : vty_eqb a b = true -> a = b.
Proof. destruct a, b; simpl; intros H; try discriminate; auto. apply sty_eqb_eq in H. congruence. Qed.
Lemma list_vtyb_eqb_eq a : forall b, list_vtyb_eqb a b = true -> a = b.
Proof.
  induction a as [|[x d] a IH]; intros [|[y d'] b] H; simpl in H; try discriminate; auto.
  apply andb_true_iff in H. destruct H as [H H3]. apply andb_true_iff in H. destruct H as [H1 H2].
  apply vty_eqb_eq in H1. apply Bool.eqb_prop in H2. subst. f_equal. apply IH. exact H3.
Qed.
Lemma padding_lastb_ok s : padding_lastb s = true -> padding_last s.
Proof. apply list_vtyb_eqb_eq. Qed.

Section Expr.
  Variable T : optypes.
  Variable G : env.

  (* the guard of an expression: the part of the program the two open defects of the tables
     (compute_ty of enum consts, arguments zipped with padding parameters) do not touch *)
  Definition enum_ok (en : nat) : bool :=
    match ot_ct_enum T with
    | CT_enum_ty => true
    | CT_enum_int => sty_eqb (enum_ty G en) TInt
    | CT_enum_unrec => false
    end.
  Definition call_ok (f : fname) : bool :=
    match ot_call_zip T with
    | CZ_nondefault => true
    | CZ_all => match fn_sig G f with Some s => padding_lastb s | None => true end
    | CZ_unrec => false
    end.
  Fixpoint eguard (e : texpr) : bool :=
    match e with
    | TLitI _ | TLitF _ | TLitS _ | TVar _ | TXcr _ | TLabelProp => true
    | TEnum en _ => enum_ok en
    | TBin a _ b => eguard a && eguard b
    | TUn _ x => eguard x
    | TTern c l r => eguard c && eguard l && eguard r
    | TDiff first rest =>
        eguard first && forallb (fun c => match c with Some x => eguard x | None => true end) rest
    | TCall f ps args => call_ok f && forallb (fun p => eguard (snd p)) ps && forallb eguard args
    end.

  Hypothesis Hbc : forall op, ot_bin_class T op = spec_bin_class op.
  Hypothesis Hbreq : forall op, ot_bin_req T (spec_bin_class op) = spec_bin_req (spec_bin_class op).
  Hypothesis Hbres : forall op, ot_bin_res T (spec_bin_class op) = spec_bin_res (spec_bin_class op).
  Hypothesis Hureq : forall op, ot_un_req T op = spec_un_req op.
  Hypothesis Hures : forall op, ot_un_res T op = spec_un_res op.
  Hypothesis Hps0 : forall k, ot_pseudo_req T k = spec_pseudo_req k.

  Lemma var_inherent_eq sg n : var_inherent G (Var sg n) = inherent G n.
  Proof. destruct n; reflexivity. Qed.

  Lemma check_var_ok v t : check_var G v = Ok t <-> var_has_type G v t.
  Proof.
    destruct v as [sg n]. unfold check_var, check_var_weak, var_read_ty, var_sigil.
    rewrite !var_inherent_eq.
    destruct sg as [sg|]; destruct (inherent G n) as [|[]] eqn:E; simpl; split; intros H;
      try discriminate; try (inversion H; subst; clear H);
      try (constructor; congruence); try congruence; auto.
  Qed.

  Lemma check_var_read v t : check_var G v = Ok t -> var_read_ty G v = Typed t.
  Proof.
    unfold check_var. intros H. inv_ok. destruct (var_read_ty G v); inversion H0; auto.
  Qed.

  Lemma bin_ok op ta tb r :
    (binop_check T op ta tb = Ok tt /\ res_ty (ot_bin_res T (ot_bin_class T op)) (Ok ta) = Ok r)
    <-> (ta = tb /\ bin_typing op ta r).
  Proof.
    unfold binop_check, bin_typing, numeric. rewrite Hbc, Hbreq, Hbres.
    destruct (spec_bin_class op) eqn:C; try (destruct op; discriminate C).
    all: destruct ta, tb; simpl; split; intros [H1 H2]; try discriminate;
      try (inversion H2; subst); try (destruct H2 as [H2 H3]; subst); auto;
      try (destruct H2; discriminate); try discriminate.
    all: split; auto; try tauto.
  Qed.

  Lemma binop_check_ex op ta tb :
    binop_check T op ta tb = Ok tt <-> (ta = tb /\ exists r, bin_typing op ta r).
  Proof.
    unfold binop_check, bin_typing, numeric. rewrite Hbc, Hbreq.
    destruct (spec_bin_class op) eqn:C; try (destruct op; discriminate C).
    all: destruct ta, tb; simpl; split; intros H; try discriminate; try (split; auto; eexists; eauto; fail).
    all: try (destruct H as [H1 [r H2]]; try discriminate; try reflexivity; destruct H2 as [H2 H3];
              try discriminate; destruct H2; discriminate).
  Qed.

  Lemma un_ok op t r :
    (require (ot_un_req T op) t = Ok tt /\ res_ty (ot_un_res T op) (Ok t) = Ok r) <-> un_typing op t r.
  Proof.
    unfold un_typing, numeric. rewrite Hureq, Hures.
    destruct op, t; simpl; split; intros H; try (destruct H as [H1 H2]); try discriminate;
      try (inversion H2; subst); subst; auto; try tauto;
      try (destruct H1; discriminate).
  Qed.

  Lemma diff_go_same (f : texpr -> outcome ety) rest : forall t0 t,
    diff_go f rest t0 = Ok t -> t = t0.
  Proof.
    induction rest as [|[x|] rest IH]; intros t0 t H; simpl in H.
    - inversion H; auto.
    - bind_inv H tx Htx. bind_inv H t' Ht'. apply require_same_ok in Ht'. destruct Ht'; subst. eauto.
    - eauto.
  Qed.

  (* compute_ty agrees with check_expr on every accepted expression (the code only
     debug_asserts this) *)
  Lemma compute_ty_agrees : forall e t, eguard e = true ->
    check_expr T G e = Ok t -> compute_ty T G e = Ok t.
  Proof.
    induction e using texpr_ind2; intros t Hg Hc; simpl in *; auto.
    - (* var *) bind_inv Hc t0 Ht0. inversion Hc; subst. apply check_var_read in Ht0. rewrite Ht0. reflexivity.
    - (* enum *) unfold enum_ok in Hg. inversion Hc; subst.
      destruct (ot_ct_enum T); try discriminate; auto.
      apply sty_eqb_eq in Hg. rewrite Hg. reflexivity.
    - (* bin *) bind_inv Hc ta Hta. bind_inv Hc tb Htb. bind_inv Hc u Hu. bind_inv Hc r Hr.
      unfold binop_ty in Hr. rewrite Hr. exact Hc.
    - (* un *) bind_inv Hc tx Htx. bind_inv Hc u Hu. bind_inv Hc r Hr.
      unfold unop_ty in Hr. rewrite Hr. exact Hc.
    - (* xcr *) bind_inv Hc t0 Ht0. bind_inv Hc u Hu. inversion Hc; subst.
      destruct t0; simpl in Hu; try discriminate. reflexivity.
    - (* tern *) apply andb_true_iff in Hg. destruct Hg as [Hg Hg3]. apply andb_true_iff in Hg. destruct Hg as [Hg1 Hg2].
      bind_inv Hc tyl Htyl. bind_inv Hc tyr Htyr. bind_inv Hc tyc Htyc. bind_inv Hc u Hu. bind_inv Hc r Hr.
      inversion Hc; subst.
      apply require_same_ok in Hr. destruct Hr; subst.
      bind_inv Htyl xl Hxl. apply as_value_ok in Htyl. subst. apply IHe2; auto.
    - (* diff *) apply andb_true_iff in Hg. destruct Hg as [Hg1 Hg2].
      bind_inv Hc t0 Ht0. bind_inv Hc r Hr. inversion Hc; subst.
      apply diff_go_same in Hr. subst.
      bind_inv Ht0 x0 Hx0. apply as_value_ok in Ht0. subst. apply IHe; auto.
    - (* call *)
      bind_inv Hc u Hu.
      destruct (negb (fn_is_ins G f) && negb match ps with [] => true | _ => false end); try discriminate.
      destruct (has_blob ps).
      + destruct args; try discriminate. auto.
      + destruct (fn_sig G f); try discriminate.
        destruct (negb (length args =? min_args s)%nat); try discriminate.
        bind_inv Hc params Hp. bind_inv Hc u1 Hu1. bind_inv Hc u2 Hu2. exact Hc.
  Qed.

  (* ---- check_expr decides has_type ---- *)
  Definition cav (e : texpr) : outcome sty := do x <- check_expr T G e; as_value x.

  Lemma cav_iff e : (forall t, check_expr T G e = Ok t <-> has_type G e t) ->
    forall t, cav e = Ok t <-> has_type G e (Value t).
  Proof.
    intros IH t. unfold cav. split; intros H.
    - bind_inv H x Hx. apply as_value_ok in H. subst. apply IH. exact Hx.
    - apply IH in H. rewrite H. reflexivity.
  Qed.

  Lemma diff_go_iff rest :
    Forall (fun c => match c with
                     | Some x => eguard x = true -> forall t, check_expr T G x = Ok t <-> has_type G x t
                     | None => True end) rest ->
    forallb (fun c => match c with Some x => eguard x | None => true end) rest = true ->
    forall t0 t, diff_go (check_expr T G) rest t0 = Ok t <-> (t = t0 /\ cases_typed G rest t0).
  Proof.
    induction 1 as [|c rest Hc Hrest IH]; intros Hg t0 t; simpl.
    - split; intros H; [inversion H; split; auto; constructor | destruct H; subst; auto].
    - simpl in Hg. apply andb_true_iff in Hg. destruct Hg as [Hg1 Hg2].
      destruct c as [x|].
      + specialize (Hc Hg1). split; intros H.
        * bind_inv H tx Htx. bind_inv H t' Ht'. apply require_same_ok in Ht'. destruct Ht'; subst.
          apply (IH Hg2) in H. destruct H as [-> H]. split; auto.
          constructor; auto. apply (cav_iff x Hc). exact Htx.
        * destruct H as [-> H]. inversion H as [| |? ? ? Hhx Hhr]; subst.
          fold (cav x). apply (cav_iff x Hc) in Hhx. rewrite Hhx. cbn [obind].
          unfold require_same. rewrite sty_eqb_refl. cbn [obind]. apply (IH Hg2). auto.
      + rewrite (IH Hg2). split; intros [-> H]; split; auto; [constructor; auto | inversion H; auto].
  Qed.

  Lemma pseudos_go_iff ps :
    Forall (fun p => eguard (snd p) = true -> forall t, check_expr T G (snd p) = Ok t <-> has_type G (snd p) t) ps ->
    forallb (fun p => eguard (snd p)) ps = true ->
    (pseudos_go T (check_expr T G) ps = Ok tt <-> pseudos_typed G ps).
  Proof.
    induction 1 as [|[k x] ps Hx Hps IH]; intros Hg; simpl.
    - split; intros; auto. constructor.
    - simpl in Hg. apply andb_true_iff in Hg. destruct Hg as [Hg1 Hg2]. simpl in Hx. specialize (Hx Hg1).
      rewrite Hps0. split; intros H.
      + bind_inv H tx Htx. bind_inv H u Hu. constructor.
        * apply (cav_iff x Hx) in Htx.
          destruct k, tx; simpl in Hu; try discriminate; exact Htx.
        * apply IH; auto.
      + inversion H as [|? ? ? Hhx Hhps]; subst. fold (cav x). apply (cav_iff x Hx) in Hhx. rewrite Hhx. cbn [obind].
        replace (require (spec_pseudo_req k) (spec_pseudo_ty k)) with (Ok tt : outcome unit) by (destruct k; reflexivity).
        cbn [obind]. apply IH; auto.
  Qed.

  Lemma zip_go_firstn (f : texpr -> outcome ety) args : forall ps,
    zip_go f args ps = zip_go f args (firstn (length args) ps).
  Proof.
    induction args as [|a args IH]; intros [|p ps]; simpl; auto.
    destruct (do y <- f a; as_value y); simpl; auto.
    destruct (param_accepts (fst p) a0); simpl; auto.
  Qed.

  Lemma zip_all (f : texpr -> outcome ety) args : forall ps, length args = length ps ->
    zip_go f args ps = Ok tt -> all_go f args = Ok tt.
  Proof.
    induction args as [|a args IH]; intros [|p ps] Hl H; simpl in *; try discriminate; auto.
    bind_inv H ta Hta. bind_inv H u Hu. bind_inv Hta y Hy. rewrite Hy. cbn [obind].
    apply (IH ps); auto.
  Qed.

  Lemma args_typed_length args ps : args_typed G args ps -> length args = length ps.
  Proof. induction 1; simpl; auto. Qed.

  Lemma param_accepts_ok p t : param_accepts p t = Ok tt <-> (p = Untyped \/ p = Typed t).
  Proof.
    destruct p as [|pt]; simpl.
    - split; auto.
    - destruct (sty_eqb t pt) eqn:E.
      + apply sty_eqb_eq in E. subst. split; auto.
      + split; intros H; try discriminate. destruct H as [H|H]; try discriminate.
        inversion H; subst. rewrite sty_eqb_refl in E. discriminate.
  Qed.

  Lemma zip_go_iff args :
    Forall (fun a => eguard a = true -> forall t, check_expr T G a = Ok t <-> has_type G a t) args ->
    forallb eguard args = true ->
    forall ps, length args = length ps ->
    (zip_go (check_expr T G) args ps = Ok tt <-> args_typed G args ps).
  Proof.
    induction 1 as [|a args Ha Hargs IH]; intros Hg [|p ps] Hl; simpl in *; try discriminate.
    - split; intros; auto. constructor.
    - apply andb_true_iff in Hg. destruct Hg as [Hg1 Hg2]. specialize (Ha Hg1).
      split; intros H.
      + bind_inv H ta Hta. bind_inv H u Hu. destruct u. apply (cav_iff a Ha) in Hta. apply param_accepts_ok in Hu.
        econstructor; eauto. apply IH; auto.
      + inversion H as [|? ? ? ? t Hha Hp Hrest]; subst. fold (cav a).
        apply (cav_iff a Ha) in Hha. rewrite Hha. cbn [obind].
        apply param_accepts_ok in Hp. rewrite Hp. cbn [obind]. apply IH; auto.
  Qed.

  Lemma check_expr_iff : forall e, eguard e = true ->
    forall t, (check_expr T G e = Ok t <-> has_type G e t).
  Proof.
    induction e using texpr_ind2; intros Hg t.
    - simpl; split; intros Hc; inversion Hc; subst; constructor.
    - simpl; split; intros Hc; inversion Hc; subst; constructor.
    - simpl; split; intros Hc; inversion Hc; subst; constructor.
    - (* var *) simpl. split; intros Hc.
      + bind_inv Hc t0 Ht0. inversion Hc; subst. constructor. apply check_var_ok. exact Ht0.
      + inversion Hc as [| | |? ? Hv| | | | | | | | |]; subst. apply check_var_ok in Hv. rewrite Hv. reflexivity.
    - (* enum *) simpl; split; intros Hc; inversion Hc; subst; constructor.
    - (* bin *) simpl in Hg. apply andb_true_iff in Hg. destruct Hg as [Hg1 Hg2].
      assert (I1 := IHe1 Hg1). assert (I2 := IHe2 Hg2).
      change (check_expr T G (TBin e1 op e2)) with
        (do ta <- cav e1; do tb <- cav e2; do u_ <- binop_check T op ta tb; do r <- binop_ty T G op e1; Ok (Value r)).
      split; intros Hc.
      + bind_inv Hc ta Hta. bind_inv Hc tb Htb. bind_inv Hc u Hu. bind_inv Hc r Hr. inversion Hc; subst.
        assert (Hca : compute_ty T G e1 = Ok (Value ta)).
        { apply compute_ty_agrees; auto. unfold cav in Hta. bind_inv Hta y Hy. apply as_value_ok in Hta. subst. exact Hy. }
        unfold binop_ty in Hr. rewrite Hca in Hr. cbn [obind expect_value] in Hr.
        destruct u. destruct (proj1 (bin_ok op ta tb r) (conj Hu Hr)) as [-> Hbt].
        apply (cav_iff e1 I1) in Hta. apply (cav_iff e2 I2) in Htb.
        econstructor; eauto.
      + inversion Hc as [| | | | |? ? ? t0 r Hha Hhb Hbt| | | | | | |]; subst.
        assert (Hca : compute_ty T G e1 = Ok (Value t0)).
        { apply compute_ty_agrees; auto. apply I1. exact Hha. }
        apply (cav_iff e1 I1) in Hha. apply (cav_iff e2 I2) in Hhb. rewrite Hha, Hhb. cbn [obind].
        destruct (proj2 (bin_ok op t0 t0 r) (conj eq_refl Hbt)) as [Hu Hr].
        rewrite Hu. cbn [obind]. unfold binop_ty. rewrite Hca. cbn [obind expect_value]. rewrite Hr. reflexivity.
    - (* un *) simpl in Hg. assert (I1 := IHe Hg).
      change (check_expr T G (TUn op e)) with
        (do tx <- cav e; do u_ <- require (ot_un_req T op) tx; do r <- unop_ty T G op e; Ok (Value r)).
      split; intros Hc.
      + bind_inv Hc tx Htx. bind_inv Hc u Hu. bind_inv Hc r Hr. inversion Hc; subst.
        assert (Hca : compute_ty T G e = Ok (Value tx)).
        { apply compute_ty_agrees; auto. unfold cav in Htx. bind_inv Htx y Hy. apply as_value_ok in Htx. subst. exact Hy. }
        unfold unop_ty in Hr. rewrite Hca in Hr. cbn [obind expect_value] in Hr.
        destruct u. apply (cav_iff e I1) in Htx. econstructor; eauto. apply un_ok. split; auto.
      + inversion Hc as [| | | | | |? ? t0 r Hhx Hut| | | | | |]; subst.
        assert (Hca : compute_ty T G e = Ok (Value t0)).
        { apply compute_ty_agrees; auto. apply I1. exact Hhx. }
        apply (cav_iff e I1) in Hhx. rewrite Hhx. cbn [obind].
        apply un_ok in Hut. destruct Hut as [Hu Hr]. rewrite Hu. cbn [obind].
        unfold unop_ty. rewrite Hca. cbn [obind expect_value]. rewrite Hr. reflexivity.
    - (* xcr *) simpl. split; intros Hc.
      + bind_inv Hc t0 Ht0. bind_inv Hc u Hu. inversion Hc; subst.
        destruct t0; simpl in Hu; try discriminate. constructor. apply check_var_ok. exact Ht0.
      + inversion Hc as [| | | | | | |? Hv| | | | |]; subst. apply check_var_ok in Hv. rewrite Hv. reflexivity.
    - (* tern *) simpl in Hg. apply andb_true_iff in Hg. destruct Hg as [Hg Hg3]. apply andb_true_iff in Hg. destruct Hg as [Hg1 Hg2].
      assert (I1 := IHe1 Hg1). assert (I2 := IHe2 Hg2). assert (I3 := IHe3 Hg3).
      change (check_expr T G (TTern e1 e2 e3)) with
        (do tyl <- cav e2; do tyr <- cav e3; do tyc <- cav e1; do u_ <- require RQ_int tyc; do r <- require_same tyl tyr; Ok (Value r)).
      split; intros Hc.
      + bind_inv Hc tyl Htyl. bind_inv Hc tyr Htyr. bind_inv Hc tyc Htyc. bind_inv Hc u Hu. bind_inv Hc r Hr.
        inversion Hc; subst. apply require_same_ok in Hr. destruct Hr; subst.
        destruct tyc; simpl in Hu; try discriminate.
        apply (cav_iff e1 I1) in Htyc. apply (cav_iff e2 I2) in Htyl. apply (cav_iff e3 I3) in Htyr.
        constructor; auto.
      + inversion Hc as [| | | | | | | |? ? ? t0 Hhc Hhl Hhr| | | |]; subst.
        apply (cav_iff e1 I1) in Hhc. apply (cav_iff e2 I2) in Hhl. apply (cav_iff e3 I3) in Hhr.
        rewrite Hhc, Hhl, Hhr. cbn [obind require]. unfold require_same. rewrite sty_eqb_refl. reflexivity.
    - (* diff *) simpl in Hg. apply andb_true_iff in Hg. destruct Hg as [Hg1 Hg2].
      assert (I1 := IHe Hg1).
      change (check_expr T G (TDiff e rest)) with
        (do t0 <- cav e; do r <- diff_go (check_expr T G) rest t0; Ok (Value r)).
      assert (HD := diff_go_iff rest H Hg2).
      split; intros Hc.
      + bind_inv Hc t0 Ht0. bind_inv Hc r Hr. inversion Hc; subst.
        apply HD in Hr. destruct Hr as [-> Hr]. apply (cav_iff e I1) in Ht0. constructor; auto.
      + inversion Hc as [| | | | | | | | |? ? t0 Hhf Hhr| | |]; subst.
        apply (cav_iff e I1) in Hhf. rewrite Hhf. cbn [obind].
        rewrite (proj2 (HD t0 t0) (conj eq_refl Hhr)). reflexivity.
    - (* label *) simpl; split; intros Hc; inversion Hc; subst; constructor.
    - (* call *)
      simpl in Hg. apply andb_true_iff in Hg. destruct Hg as [Hg Hg3]. apply andb_true_iff in Hg. destruct Hg as [Hg1 Hg2].
      assert (HP := pseudos_go_iff ps H Hg2).
      assert (HZ := zip_go_iff args H0 Hg3).
      change (check_expr T G (TCall f ps args)) with
        (do u_ <- pseudos_go T (check_expr T G) ps;
         if negb (fn_is_ins G f) && negb (match ps with [] => true | _ => false end) then Err E_TYPE
         else if has_blob ps then match args with [] => Ok Void | _ :: _ => Err E_TYPE end
         else match fn_sig G f with
              | None => Err E_TYPE
              | Some s =>
                  if negb (Nat.eqb (length args) (min_args s)) then Err E_TYPE
                  else do params <- zip_params T s;
                       do u_ <- zip_go (check_expr T G) args params;
                       do u_ <- all_go (check_expr T G) args;
                       Ok (sg_ret s)
              end).
      split; intros Hc.
      + bind_inv Hc u Hu. destruct u. apply HP in Hu.
        destruct (negb (fn_is_ins G f) && negb match ps with [] => true | _ => false end) eqn:C1; try discriminate.
        destruct (has_blob ps) eqn:HB.
        * destruct args; try discriminate. inversion Hc; subst. constructor; auto.
          destruct ps; [discriminate HB|]. simpl in C1. rewrite andb_true_r in C1.
          destruct (fn_is_ins G f); auto; discriminate.
        * destruct (fn_sig G f) as [s|] eqn:HS; try discriminate.
          destruct (Nat.eqb (length args) (min_args s)) eqn:HL; simpl in Hc; try discriminate.
          apply Nat.eqb_eq in HL.
          bind_inv Hc params Hp. bind_inv Hc u1 Hu1. bind_inv Hc u2 Hu2. inversion Hc; subst.
          destruct u1. econstructor; eauto.
          { intros Hne. destruct ps; [congruence|]. simpl in C1. rewrite andb_true_r in C1.
            destruct (fn_is_ins G f); auto; discriminate. }
          unfold zip_params in Hp. unfold call_ok in Hg1. unfold min_args in HL.
          destruct (ot_call_zip T); try discriminate.
          -- inversion Hp; subst. rewrite HS in Hg1. apply padding_lastb_ok in Hg1.
             rewrite zip_go_firstn in Hu1. rewrite HL in Hu1. unfold padding_last, min_args in Hg1.
             rewrite Hg1 in Hu1. apply HZ; auto.
          -- inversion Hp; subst. apply HZ; auto.
      + inversion Hc as [| | | | | | | | | | |? ? Hps Hins Hbl|? ? ? s Hps Hins Hbl Hs Hargs]; subst.
        * apply HP in Hps. rewrite Hps. cbn [obind]. rewrite Hins, Hbl. reflexivity.
        * apply HP in Hps. rewrite Hps. cbn [obind].
          assert (C1 : negb (fn_is_ins G f) && negb match ps with [] => true | _ => false end = false).
          { destruct ps; simpl; [apply andb_false_r|]. rewrite Hins by congruence. reflexivity. }
          rewrite C1, Hbl, Hs.
          assert (HL := args_typed_length _ _ Hargs).
          unfold min_args. rewrite <- HL. rewrite Nat.eqb_refl. cbn [negb].
          unfold zip_params. unfold call_ok in Hg1.
          destruct (ot_call_zip T); try discriminate; cbn [obind].
          -- rewrite Hs in Hg1. apply padding_lastb_ok in Hg1. unfold padding_last, min_args in Hg1.
             assert (HZ' : zip_go (check_expr T G) args (sg_params s) = Ok tt).
             { rewrite zip_go_firstn. rewrite HL. rewrite Hg1. apply HZ; auto. }
             rewrite HZ'. cbn [obind].
             rewrite (zip_all _ args (filter nondefault (sg_params s)) HL).
             ++ reflexivity.
             ++ apply HZ; auto.
          -- rewrite (proj2 (HZ _ HL) Hargs). cbn [obind].
             rewrite (zip_all _ args _ HL (proj2 (HZ _ HL) Hargs)). reflexivity.
  Qed.
End Expr.
