(* Proofs/TypingExpr.v -- expressions: the checker's check_expr decides the declarative relation
   has_type; compute_ty agrees with check_expr on accepted expressions. *)
From TV Require Import Base.I32 Model.Ops Model.Expr Model.Typing Spec.TypingRules.
Open Scope Z_scope.

(* ---- induction principle for texpr (nested lists) ---- *)
Section TexprInd.
  Variable P : texpr -> Prop.
  Hypothesis HLitI : forall z, P (TLitI z).
  Hypothesis HLitF : forall b, P (TLitF b).
  Hypothesis HLitS : forall s, P (TLitS s).
  Hypothesis HVar : forall v, P (TVar v).
  Hypothesis HEnum : forall en id, P (TEnum en id).
  Hypothesis HBin : forall a op b, P a -> P b -> P (TBin a op b).
  Hypothesis HUn : forall op x, P x -> P (TUn op x).
  Hypothesis HXcr : forall v, P (TXcr v).
  Hypothesis HTern : forall c l r, P c -> P l -> P r -> P (TTern c l r).
  Hypothesis HDiff : forall first rest, P first ->
    Forall (fun c => match c with Some x => P x | None => True end) rest -> P (TDiff first rest).
  Hypothesis HLabel : P TLabelProp.
  Hypothesis HCall : forall f ps args, Forall (fun p => P (snd p)) ps -> Forall P args -> P (TCall f ps args).

  Fixpoint texpr_ind2 (e : texpr) : P e :=
    match e with
    | TLitI z => HLitI z
    | TLitF b => HLitF b
    | TLitS s => HLitS s
    | TVar v => HVar v
    | TEnum en id => HEnum en id
    | TBin a op b => HBin a op b (texpr_ind2 a) (texpr_ind2 b)
    | TUn op x => HUn op x (texpr_ind2 x)
    | TXcr v => HXcr v
    | TTern c l r => HTern c l r (texpr_ind2 c) (texpr_ind2 l) (texpr_ind2 r)
    | TDiff first rest =>
        HDiff first rest (texpr_ind2 first)
          ((fix go (l : list (option texpr)) : Forall (fun c => match c with Some x => P x | None => True end) l :=
              match l with
              | [] => Forall_nil _
              | None :: t => Forall_cons None I (go t)
              | Some x :: t => Forall_cons (Some x) (texpr_ind2 x) (go t)
              end) rest)
    | TLabelProp => HLabel
    | TCall f ps args =>
        HCall f ps args
          ((fix go (l : list (pseudo * texpr)) : Forall (fun p => P (snd p)) l :=
              match l with
              | [] => Forall_nil _
              | (k, x) :: t => Forall_cons (k, x) (texpr_ind2 x) (go t)
              end) ps)
          ((fix go (l : list texpr) : Forall P l :=
              match l with
              | [] => Forall_nil _
              | x :: t => Forall_cons x (texpr_ind2 x) (go t)
              end) args)
    end.
End TexprInd.

(* ---- the outcome monad ---- *)
Lemma obind_ok {A B} (m : outcome A) (f : A -> outcome B) v :
  obind m f = Ok v <-> exists x, m = Ok x /\ f x = Ok v.
Proof.
  destruct m; simpl; split; intros H; try discriminate; eauto.
  - destruct H as (x & H1 & H2). inversion H1; subst; auto.
  - destruct H as (x & H1 & _); discriminate.
  - destruct H as (x & H1 & _); discriminate.
  - destruct H as (x & H1 & _); discriminate.
Qed.

Ltac inv_ok :=
  repeat match goal with
  | H : obind _ _ = Ok _ |- _ => apply obind_ok in H; destruct H as (? & ? & ?)
  | H : Ok _ = Ok _ |- _ => inversion H; subst; clear H
  | H : (if ?c then _ else _) = Ok _ |- _ => destruct c eqn:?; try discriminate
  end.

Ltac bind_inv H x Hx := apply obind_ok in H; destruct H as (x & Hx & H).

Lemma sty_eqb_eq a b : sty_eqb a b = true <-> a = b.
Proof. destruct a, b; simpl; split; intros; try discriminate; auto. Qed.
Lemma sty_eqb_refl a : sty_eqb a a = true.
Proof. destruct a; reflexivity. Qed.

Lemma as_value_ok x t : as_value x = Ok t <-> x = Value t.
Proof. destruct x; simpl; split; intros H; try discriminate; inversion H; auto. Qed.
Lemma require_same_ok a b t : require_same a b = Ok t <-> a = b /\ t = a.
Proof.
  unfold require_same. destruct (sty_eqb a b) eqn:E.
  - apply sty_eqb_eq in E. subst. split; intros H; [inversion H; auto | destruct H; subst; auto].
  - split; intros H; try discriminate. destruct H as [H _]. apply sty_eqb_eq in H. congruence.
Qed.

(* ---- the side conditions, pointwise ---- *)
Definition padding_last (s : sig) : Prop :=
  firstn (min_args s) (sg_params s) = filter nondefault (sg_params s).
Definition list_vtyb_eqb (a b : list (vty * bool)) : bool :=
  (fix go a b := match a, b with
                 | [], [] => true
                 | (x, d) :: a', (y, d') :: b' => vty_eqb x y && Bool.eqb d d' && go a' b'
                 | _, _ => false
                 end) a b.
Definition padding_lastb (s : sig) : bool :=
  list_vtyb_eqb (firstn (min_args s) (sg_params s)) (filter nondefault (sg_params s)).

Lemma vty_eqb_eq a b : vty_eqb a b = true -> a = b.
Proof. destruct a, b; simpl; intros H; try discriminate; auto. apply sty_eqb_eq in H. congruence. Qed.
Lemma list_vtyb_eqb_eq a : forall b, list_vtyb_eqb a b = true -> a = b.
Proof.
  induction a as [|[x d] a IH]; intros [|[y d'] b] H; simpl in H; try discriminate; auto.
  apply andb_true_iff in H. destruct H as [H H3]. apply andb_true_iff in H. destruct H as [H1 H2].
  apply vty_eqb_eq in H1. apply Bool.eqb_prop in H2. subst. f_equal. apply IH. exact H3.
Qed.
Lemma padding_lastb_ok s : padding_lastb s = true -> padding_last s.
Proof. apply list_vtyb_eqb_eq. Qed.

Section Expr.
  Variable T : optypes.
  Variable G : env.

  (* the guard of an expression: the part of the program the two open defects of the tables
     (compute_ty of enum consts, arguments zipped with padding parameters) do not touch *)
  Definition enum_ok (en : nat) : bool :=
    match ot_ct_enum T with
    | CT_enum_ty => true
    | CT_enum_int => sty_eqb (enum_ty G en) TInt
    | CT_enum_unrec => false
    end.
  Definition call_ok (f : fname) : bool :=
    match ot_call_zip T with
    | CZ_nondefault => true
    | CZ_all => match fn_sig G f with Some s => padding_lastb s | None => true end
    | CZ_unrec => false
    end.
  Fixpoint eguard (e : texpr) : bool :=
    match e with
    | TLitI _ | TLitF _ | TLitS _ | TVar _ | TXcr _ | TLabelProp => true
    | TEnum en _ => enum_ok en
    | TBin a _ b => eguard a && eguard b
    | TUn _ x => eguard x
    | TTern c l r => eguard c && eguard l && eguard r
    | TDiff first rest =>
        eguard first && forallb (fun c => match c with Some x => eguard x | None => true end) rest
    | TCall f ps args => call_ok f && forallb (fun p => eguard (snd p)) ps && forallb eguard args
    end.

  Hypothesis Hbc : forall op, ot_bin_class T op = spec_bin_class op.
  Hypothesis Hbreq : forall op, ot_bin_req T (spec_bin_class op) = spec_bin_req (spec_bin_class op).
  Hypothesis Hbres : forall op, ot_bin_res T (spec_bin_class op) = spec_bin_res (spec_bin_class op).
  Hypothesis Hureq : forall op, ot_un_req T op = spec_un_req op.
  Hypothesis Hures : forall op, ot_un_res T op = spec_un_res op.
  Hypothesis Hps0 : forall k, ot_pseudo_req T k = spec_pseudo_req k.

  Lemma var_inherent_eq sg n : var_inherent G (Var sg n) = inherent G n.
  Proof. destruct n; reflexivity. Qed.

  Lemma check_var_ok v t : check_var G v = Ok t <-> var_has_type G v t.
  Proof.
    destruct v as [sg n]. unfold check_var, check_var_weak, var_read_ty, var_sigil.
    rewrite !var_inherent_eq.
    destruct sg as [sg|]; destruct (inherent G n) as [|[]] eqn:E; simpl; split; intros H;
      try discriminate; try (inversion H; subst; clear H);
      try (constructor; congruence); try congruence; auto.
  Qed.

  Lemma check_var_read v t : check_var G v = Ok t -> var_read_ty G v = Typed t.
  Proof.
    unfold check_var. intros H. inv_ok. destruct (var_read_ty G v); inversion H0; auto.
  Qed.

  Lemma bin_ok op ta tb r :
    (binop_check T op ta tb = Ok tt /\ res_ty (ot_bin_res T (ot_bin_class T op)) (Ok ta) = Ok r)
    <-> (ta = tb /\ bin_typing op ta r).
  Proof.
    unfold binop_check, bin_typing, numeric. rewrite Hbc, Hbreq, Hbres.
    destruct (spec_bin_class op) eqn:C; try (destruct op; discriminate C).
    all: destruct ta, tb; simpl; split; intros [H1 H2]; try discriminate;
      try (inversion H2; subst); try (destruct H2 as [H2 H3]; subst); auto;
      try (destruct H2; discriminate); try discriminate.
    all: split; auto; try tauto.
  Qed.

  Lemma un_ok op t r :
    (require (ot_un_req T op) t = Ok tt /\ res_ty (ot_un_res T op) (Ok t) = Ok r) <-> un_typing op t r.
  Proof.
    unfold un_typing, numeric. rewrite Hureq, Hures.
    destruct op, t; simpl; split; intros H; try (destruct H as [H1 H2]); try discriminate;
      try (inversion H2; subst); subst; auto; try tauto;
      try (destruct H1; discriminate).
  Qed.

  Lemma diff_go_same (f : texpr -> outcome ety) rest : forall t0 t,
    diff_go f rest t0 = Ok t -> t = t0.
  Proof.
    induction rest as [|[x|] rest IH]; intros t0 t H; simpl in H.
    - inversion H; auto.
    - bind_inv H tx Htx. bind_inv H t' Ht'. apply require_same_ok in Ht'. destruct Ht'; subst. eauto.
    - eauto.
  Qed.

  (* compute_ty agrees with check_expr on every accepted expression (the code only
     debug_asserts this) *)
  Lemma compute_ty_agrees : forall e t, eguard e = true ->
    check_expr T G e = Ok t -> compute_ty T G e = Ok t.
  Proof.
    induction e using texpr_ind2; intros t Hg Hc; simpl in *; auto.
    - (* var *) bind_inv Hc t0 Ht0. inversion Hc; subst. apply check_var_read in Ht0. rewrite Ht0. reflexivity.
    - (* enum *) unfold enum_ok in Hg. inversion Hc; subst.
      destruct (ot_ct_enum T); try discriminate; auto.
      apply sty_eqb_eq in Hg. rewrite Hg. reflexivity.
    - (* bin *) bind_inv Hc ta Hta. bind_inv Hc tb Htb. bind_inv Hc u Hu. bind_inv Hc r Hr.
      unfold binop_ty in Hr. rewrite Hr. exact Hc.
    - (* un *) bind_inv Hc tx Htx. bind_inv Hc u Hu. bind_inv Hc r Hr.
      unfold unop_ty in Hr. rewrite Hr. exact Hc.
    - (* xcr *) bind_inv Hc t0 Ht0. bind_inv Hc u Hu. inversion Hc; subst.
      destruct t0; simpl in Hu; try discriminate. reflexivity.
    - (* tern *) apply andb_true_iff in Hg. destruct Hg as [Hg Hg3]. apply andb_true_iff in Hg. destruct Hg as [Hg1 Hg2].
      bind_inv Hc tyl Htyl. bind_inv Hc tyr Htyr. bind_inv Hc tyc Htyc. bind_inv Hc u Hu. bind_inv Hc r Hr.
      inversion Hc; subst.
      apply require_same_ok in Hr. destruct Hr; subst.
      bind_inv Htyl xl Hxl. apply as_value_ok in Htyl. subst. apply IHe2; auto.
    - (* diff *) apply andb_true_iff in Hg. destruct Hg as [Hg1 Hg2].
      bind_inv Hc t0 Ht0. bind_inv Hc r Hr. inversion Hc; subst.
      apply diff_go_same in Hr. subst.
      bind_inv Ht0 x0 Hx0. apply as_value_ok in Ht0. subst. apply IHe; auto.
    - (* call *)
      bind_inv Hc u Hu.
      destruct (negb (fn_is_ins G f) && negb match ps with [] => true | _ => false end); try discriminate.
      destruct (has_blob ps).
      + destruct args; try discriminate. auto.
      + destruct (fn_sig G f); try discriminate.
        destruct (negb (length args =? min_args s)%nat); try discriminate.
        bind_inv Hc params Hp. bind_inv Hc u1 Hu1. bind_inv Hc u2 Hu2. exact Hc.
  Qed.

  (* ---- check_expr decides has_type ---- *)
  Definition cav (e : texpr) : outcome sty := do x <- check_expr T G e; as_value x.

  Lemma cav_iff e : (forall t, check_expr T G e = Ok t <-> has_type G e t) ->
    forall t, cav e = Ok t <-> has_type G e (Value t).
  Proof.
    intros IH t. unfold cav. split; intros H.
    - bind_inv H x Hx. apply as_value_ok in H. subst. apply IH. exact Hx.
    - apply IH in H. rewrite H. reflexivity.
  Qed.

  Lemma diff_go_iff rest :
    Forall (fun c => match c with
                     | Some x => eguard x = true -> forall t, check_expr T G x = Ok t <-> has_type G x t
                     | None => True end) rest ->
    forallb (fun c => match c with Some x => eguard x | None => true end) rest = true ->
    forall t0 t, diff_go (check_expr T G) rest t0 = Ok t <-> (t = t0 /\ cases_typed G rest t0).
  Proof.
    induction 1 as [|c rest Hc Hrest IH]; intros Hg t0 t; simpl.
    - split; intros H; [inversion H; split; auto; constructor | destruct H; subst; auto].
    - simpl in Hg. apply andb_true_iff in Hg. destruct Hg as [Hg1 Hg2].
      destruct c as [x|].
      + specialize (Hc Hg1). split; intros H.
        * bind_inv H tx Htx. bind_inv H t' Ht'. apply require_same_ok in Ht'. destruct Ht'; subst.
          apply (IH Hg2) in H. destruct H as [-> H]. split; auto.
          constructor; auto. apply (cav_iff x Hc). exact Htx.
        * destruct H as [-> H]. inversion H as [| |? ? ? Hhx Hhr]; subst.
          fold (cav x). apply (cav_iff x Hc) in Hhx. rewrite Hhx. cbn [obind].
          unfold require_same. rewrite sty_eqb_refl. cbn [obind]. apply (IH Hg2). auto.
      + rewrite (IH Hg2). split; intros [-> H]; split; auto; [constructor; auto | inversion H; auto].
  Qed.

  Lemma pseudos_go_iff ps :
    Forall (fun p => eguard (snd p) = true -> forall t, check_expr T G (snd p) = Ok t <-> has_type G (snd p) t) ps ->
    forallb (fun p => eguard (snd p)) ps = true ->
    (pseudos_go T (check_expr T G) ps = Ok tt <-> pseudos_typed G ps).
  Proof.
    induction 1 as [|[k x] ps Hx Hps IH]; intros Hg; simpl.
    - split; intros; auto. constructor.
    - simpl in Hg. apply andb_true_iff in Hg. destruct Hg as [Hg1 Hg2]. simpl in Hx. specialize (Hx Hg1).
      rewrite Hps0. split; intros H.
      + bind_inv H tx Htx. bind_inv H u Hu. constructor.
        * apply (cav_iff x Hx) in Htx.
          destruct k, tx; simpl in Hu; try discriminate; exact Htx.
        * apply IH; auto.
      + inversion H as [|? ? ? Hhx Hhps]; subst. fold (cav x). apply (cav_iff x Hx) in Hhx. rewrite Hhx. cbn [obind].
        replace (require (spec_pseudo_req k) (spec_pseudo_ty k)) with (Ok tt : outcome unit) by (destruct k; reflexivity).
        cbn [obind]. apply IH; auto.
  Qed.
End Expr.
