(* Proofs/LowerProgGen.v -- the whole-body theorem instantiated with the operator table read from the
   source, and a body on which its premises hold (a loop through a backward counting jump, a compound
   assignment through a temporary, a ternary, an `unless (.. || ..)` jump with an explicit time, calls). *)
From TV Require Import Base.I32 Base.F32 Model.Ops Model.Expr Model.Lower Model.LowerSem Model.LowerProg
  Gen.OpTable Proofs.LowerSound Proofs.LowerGenTable Proofs.LowerJumps Proofs.LowerJumpsGen Proofs.LowerStatic Proofs.LowerProg.
Open Scope Z_scope.

Theorem body_correct_gen :
  forall libm avail auto_casts rty lty diff dsel n0 fuel body code s',
  (forall op t, sigil_of_unop op <> None -> avail (KUnOp op t) = false) ->
  lower_body avail auto_casts rty lty fuel body (mklst n0 []) = Ok (code, s') ->
  wf_body rty lty n0 body ->
  forall fs st st', fresh lty (p_mem st) n0 ->
  sprog gen_optable libm rty lty diff dsel true fs body Exec st = Ok st' ->
  wprog gen_optable libm lty dsel fs code Exec st None = Ok st'.
Proof.
  intros libm avail auto_casts rty lty diff dsel n0 fuel body code s' Hns Hl Hwf fs st st' Hfr Hs.
  exact (prog_sim gen_optable libm avail auto_casts rty lty diff dsel Hns (gen_T_ok libm) (gen_T_ok2 libm)
           n0 fuel body code s' Hl Hwf fs Exec st None st' I Hfr Hs).
Qed.

Definition ex_avail (k : ikind) : bool :=
  match k with KAssignOp None _ | KBinOp _ _ | KCountJmp Gt | KJmp | KCondJmp _ _ => true | _ => false end.
Definition ex_R (r : Z) := EReg None r.
(*   0:  I0 = 3;
     10: L0:  ins_7(I0 * 2 + 1, 2, I1 - I0);
     20: I1 += I0 * 2 + (I1 - 1);   if (--I0 > 0) goto L0;
     30: I2 = I1 > 10 ? 1 : I1 * 5;   I2 += I1 < 0 ? 7 : 0;   unless (I2 == 1 || I1 < 0) goto L1 @ 30;
     40: ins_8();  L1:  int x = I2 == 1 ? I1 + 1 : 0;  {"H"}: ins_8();  ins_9(x, I1 >= 27 ? I2 + 2 : 0);  (end of x's scope)  ;
         int y;  (end of y's scope)  int y2, z = I1 + 1;  ins_9(z, y2);  (end of z's, y2's scope)     *)
Definition ex_body : list (Z * Z * sstmt) := [
  (0, 255, SAssign (mkvar None (VReg 1010)) None (ELitI 3));
  (10, 255, SLabel (LUser 0));
  (10, 255, SCall 7 [EBin (EBin (ex_R 1010) Mul (ELitI 2)) Add (ELitI 1); ELitI 2; EBin (ex_R 1011) Sub (ex_R 1010)]);
  (20, 255, SAssign (mkvar None (VReg 1011)) (Some Add) (EBin (EBin (ex_R 1010) Mul (ELitI 2)) Add (EBin (ex_R 1011) Sub (ELitI 1))));
  (20, 255, SCondJmp KwIf (CPredecCmp (mkvar None (VReg 1010)) Gt) (LUser 0) None);
  (30, 255, SAssign (mkvar None (VReg 1012)) None (ETern (EBin (ex_R 1011) Gt (ELitI 10)) (ELitI 1) (EBin (ex_R 1011) Mul (ELitI 5))));
  (30, 255, SAssign (mkvar None (VReg 1012)) (Some Add) (ETern (EBin (ex_R 1011) Lt (ELitI 0)) (ELitI 7) (ELitI 0)));
  (30, 255, SCondJmp KwUnless (CExpr (EBin (EBin (ex_R 1012) Eq (ELitI 1)) LogicOr (EBin (ex_R 1011) Lt (ELitI 0)))) (LUser 1) (Some 30));
  (40, 255, SCall 8 []);
  (40, 255, SLabel (LUser 1));
  (40, 255, SDecl TInt [(0%nat, Some (ETern (EBin (ex_R 1012) Eq (ELitI 1)) (EBin (ex_R 1011) Add (ELitI 1)) (ELitI 0)))]);
  (40, 4, SCall 8 []);
  (40, 255, SCall 9 [EVar None 0%nat; ETern (EBin (ex_R 1011) Ge (ELitI 27)) (EBin (ex_R 1012) Add (ELitI 2)) (ELitI 0)]);
  (40, 255, SScopeEnd 0%nat);
  (40, 255, SNop);
  (40, 255, SDecl TInt [(0%nat, None)]);
  (40, 255, SScopeEnd 0%nat);
  (40, 255, SDecl TInt [(0%nat, None); (1%nat, Some (EBin (ex_R 1011) Add (ELitI 1)))]);
  (40, 255, SCall 9 [EVar None 1%nat; EVar None 0%nat]);
  (40, 255, SScopeEnd 1%nat);
  (40, 255, SScopeEnd 0%nat)
].
Definition ex_st0 := mkpst (mkmem (fun _ => VInt 0) (fun _ => VInt 0)) 0 0 [].

Lemma body_example :
  let rty := fun _ : Z => TInt in let lty := fun _ : nat => TInt in let libm := fun (_ : unop) (_ : Z) => 0 in
  exists code s' st',
    lower_body ex_avail true rty lty 20 ex_body (mklst 2 []) = Ok (code, s') /\ length code = 66%nat /\
    wf_body rty lty 2 ex_body /\ fresh lty (p_mem ex_st0) 2 /\
    sprog gen_optable libm rty lty 0 (Some 0%nat) true 10 ex_body Exec ex_st0 = Ok st' /\
    p_time st' = 40 /\ p_real st' = 60 /\ length (p_log st') = 6%nat /\ regs (p_mem st') 1011 = VInt 27 /\
    wprog gen_optable libm lty (Some 0%nat) 10 code Exec ex_st0 None = Ok st'.
Proof.
  cbv zeta.
  assert (El : exists code s', lower_body ex_avail true (fun _ => TInt) (fun _ => TInt) 20 ex_body (mklst 2 []) = Ok (code, s'))
    by (vm_compute; eexists; eexists; reflexivity).
  destruct El as [code [s' El]].
  assert (Es : exists st', sprog gen_optable (fun _ _ => 0) (fun _ => TInt) (fun _ => TInt) 0 (Some 0%nat) true 10 ex_body Exec ex_st0 = Ok st')
    by (vm_compute; eexists; reflexivity).
  destruct Es as [st' Es].
  assert (Hwf : wf_body (fun _ => TInt) (fun _ => TInt) 2 ex_body).
  { unfold wf_body, ex_body.
    apply Forall_cons. { cbn [snd wf_stmt]. split; [exact I|]. split; [reflexivity|]. left. reflexivity. }
    apply Forall_cons. { exact I. }
    apply Forall_cons. { cbn [snd wf_stmt]. apply Forall_cons; [split; reflexivity|].
                         apply Forall_cons; [split; reflexivity|]. apply Forall_cons; [split; reflexivity|]. apply Forall_nil. }
    apply Forall_cons. { cbn [snd wf_stmt]. split; [exact I|]. split; [reflexivity|]. left. reflexivity. }
    apply Forall_cons. { cbn [snd wf_stmt]. split; exact I. }
    apply Forall_cons. { cbn [snd wf_stmt]. split; [exact I|]. split; [reflexivity|]. right. reflexivity. }
    apply Forall_cons. { cbn [snd wf_stmt]. split; [exact I|]. split; [reflexivity|]. right. reflexivity. }
    apply Forall_cons. { cbn [snd wf_stmt]. split; [reflexivity|]. split; [reflexivity | exact I]. }
    apply Forall_cons. { cbn [snd wf_stmt]. apply Forall_nil. }
    apply Forall_cons. { exact I. }
    apply Forall_cons. { cbn [snd wf_stmt]. left. exists 0%nat. eexists. split; [reflexivity|]. split; [lia|]. split; [reflexivity|]. right. reflexivity. }
    apply Forall_cons. { cbn [snd wf_stmt]. apply Forall_nil. }
    apply Forall_cons. { cbn [snd wf_stmt]. apply Forall_cons; [split; reflexivity|]. apply Forall_cons; [split; reflexivity|]. apply Forall_nil. }
    apply Forall_cons. { cbn [snd wf_stmt]. lia. }
    apply Forall_cons. { exact I. }
    apply Forall_cons. { cbn [snd wf_stmt]. right. apply Forall_cons; [|apply Forall_nil]. split; [cbn; lia|]. intros e He; discriminate. }
    apply Forall_cons. { cbn [snd wf_stmt]. lia. }
    apply Forall_cons. { cbn [snd wf_stmt]. right. apply Forall_cons; [split; [cbn; lia|]; intros e He; discriminate|].
                         apply Forall_cons; [|apply Forall_nil]. split; [cbn; lia|]. intros e He. cbn in He. inversion He; subst e. split; reflexivity. }
    apply Forall_cons. { cbn [snd wf_stmt]. apply Forall_cons; [split; reflexivity|]. apply Forall_cons; [split; reflexivity|]. apply Forall_nil. }
    apply Forall_cons. { cbn [snd wf_stmt]. lia. }
    apply Forall_cons. { cbn [snd wf_stmt]. lia. }
    apply Forall_nil. }
  assert (Hfr : fresh (fun _ => TInt) (p_mem ex_st0) 2) by (intros d _; reflexivity).
  exists code, s', st'.
  split; [exact El|].
  split; [vm_compute in El; inversion El; reflexivity|].
  split; [exact Hwf|]. split; [exact Hfr|]. split; [exact Es|].
  split; [vm_compute in Es; inversion Es; reflexivity|].
  split; [vm_compute in Es; inversion Es; reflexivity|].
  split; [vm_compute in Es; inversion Es; reflexivity|].
  split; [vm_compute in Es; inversion Es; reflexivity|].
  eapply body_correct_gen; [| exact El | exact Hwf | exact Hfr | exact Es].
  intros op t H. destruct op; cbn in H; try contradiction; reflexivity.
Qed.
