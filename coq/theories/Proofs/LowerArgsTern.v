(* Proofs/LowerArgsTern.v -- call arguments through temporaries, including arguments that are ternaries
   (`ins(c ? a : b, x + 1)`): the generalisation of Proofs/LowerArgs.v from jump-free code (run_pure) to
   code with the generated jumps of ternaries (run_fwd, continuation-passing form). *)
From TV Require Import Base.I32 Base.F32 Model.Ops Model.Expr Model.Lower Model.LowerSem
  Proofs.LowerSound Proofs.LowerShape Proofs.LowerJumps Proofs.LowerStatic Proofs.LowerArgs.
Open Scope Z_scope.

Section ArgsTern.
  Variable T : optable.
  Variable libm : unop -> Z -> Z.
  Variable avail : ikind -> bool.
  Variable auto_casts : bool.
  Variable rty : Z -> ty.
  Variable lty : nat -> ty.
  Variable diff : nat.
  Variable time mask : Z.
  Hypothesis no_sigil_intrinsics : forall op t, sigil_of_unop op <> None -> avail (KUnOp op t) = false.
  Hypothesis HT : T_ok T libm.
  Hypothesis H2 : T_ok2 T libm.

  Notation ety := (ety rty lty).
  Notation wt_pure := (wt_pure rty lty).
  Notation wt_cond := (wt_cond rty lty).
  Notation wt_tern := (wt_tern rty lty).
  Notation classify := (classify auto_casts rty lty).
  Notation lower := (lower avail auto_casts rty lty time mask).
  Notation lower_args := (lower_args avail auto_casts rty lty time mask).
  Notation run_pure := (run_pure T libm lty).
  Notation run_fwd := (run_fwd T libm lty).
  Notation eval_s := (eval_s T libm rty lty diff).
  Notation assign_s := (assign_s T libm rty lty diff).
  Notation nonan := (nonan T libm rty lty diff).
  Notation nonan_t := (nonan_t T libm rty lty diff).
  Notation fresh := (fresh lty).
  Notation te_agree := (te_agree lty).

  (* a condition is a jump-free int expression *)
  Lemma wt_cond_pure te : forall e, wt_cond te e = true -> wt_pure te e = true /\ ety te e = TInt.
  Proof.
    assert (Hgen : forall e, wt_pure te e && ty_eqb (ety te e) TInt = true -> wt_pure te e = true /\ ety te e = TInt).
    { intros e H. apply andb_prop in H. destruct H as [H1 H2']. split; [exact H1 | apply ty_eqb_eq; exact H2']. }
    induction e; intros H; cbn [LowerSem.wt_cond] in H; try (apply Hgen; exact H).
    - (* EUn *) destruct op; try (apply Hgen; exact H).
      destruct (IHe H) as [Hp Ht]. split; [|reflexivity]. cbn [LowerSem.wt_pure]. rewrite Hp, Ht. reflexivity.
    - (* EBin *) destruct op; try (apply Hgen; exact H);
        (apply andb_prop in H; destruct H as [Ha Hb]; destruct (IHe1 Ha) as [Hp1 Ht1]; destruct (IHe2 Hb) as [Hp2 Ht2];
         split; [cbn [LowerSem.wt_pure is_int_only]; rewrite Hp1, Hp2, Ht1, Ht2; reflexivity | reflexivity]).
  Qed.

  Lemma wt_tern_plain te e : (forall c l r, e <> ETern c l r) -> wt_tern te e = wt_pure te e.
  Proof. destruct e; intros H; try reflexivity. exfalso. eapply H. reflexivity. Qed.

  Lemma eval_indep_tern te x v : forall e m, wt_tern te e = true -> uses_var x e = false ->
    eval_s te (update m x v) e = eval_s te m e.
  Proof.
    induction e; intros m Hw Hu; try (apply (eval_update_indep T libm rty lty diff te x v); [exact Hw | exact Hu]).
    cbn [LowerSem.wt_tern] in Hw. cbn [uses_var] in Hu.
    apply andb_prop in Hw. destruct Hw as [Hw Hty]. apply andb_prop in Hw. destruct Hw as [Hw Hw3]. apply andb_prop in Hw. destruct Hw as [Hw1 Hw2].
    apply Bool.orb_false_elim in Hu. destruct Hu as [Hu Hu3]. apply Bool.orb_false_elim in Hu. destruct Hu as [Hu1 Hu2].
    rewrite !eval_s_tern.
    rewrite (eval_update_indep T libm rty lty diff te x v e1 m (proj1 (wt_cond_pure te e1 Hw1)) Hu1).
    rewrite (IHe2 m Hw2 Hu2), (IHe3 m Hw3 Hu3). reflexivity.
  Qed.

  Lemma eval_ty_tern te m : forall e v, wt_tern te e = true -> eval_s te m e = Ok v -> vty v = Some (ety te e).
  Proof.
    induction e; intros v Hw Hv; try (eapply (eval_ty T libm rty lty diff HT); [exact Hw | exact Hv]).
    cbn [LowerSem.wt_tern] in Hw.
    apply andb_prop in Hw. destruct Hw as [Hw Hty]. apply andb_prop in Hw. destruct Hw as [Hw Hw3]. apply andb_prop in Hw. destruct Hw as [Hw1 Hw2].
    rewrite eval_s_tern in Hv. destruct (eval_s te m e1) as [cv| | |]; cbn [obind] in Hv; try discriminate.
    cbn [Lower.ety]. apply ty_eqb_eq in Hty.
    destruct cv as [z|f|s0]; try discriminate. destruct z; [rewrite Hty; apply IHe3; assumption | apply IHe2; assumption | apply IHe2; assumption].
  Qed.

  (* NaN-freedom of conditions is stable under changes of memory / typing that leave jump-free expressions alone *)
  Section Transfer.
    Variable te te' : tenv.
    Variable m m' : mem.
    Variable n : nat.
    Hypothesis Heq : forall a, wt_pure te a = true -> locals_below n a = true -> eval_s te' m' a = eval_s te m a.

    Lemma nonan_transfer : forall e, wt_cond te e = true -> locals_below n e = true -> nonan te m e -> nonan te' m' e.
    Proof.
      induction e; intros Hw Hb H; cbn [LowerJumps.nonan] in *; try exact I.
      - destruct op; try exact I. cbn [LowerSem.wt_cond locals_below] in Hw, Hb. apply IHe; assumption.
      - cbn [locals_below] in Hb. apply andb_prop in Hb. destruct Hb as [Hb1 Hb2].
        assert (Hcmp : wt_pure te (EBin e1 op e2) && ty_eqb (ety te (EBin e1 op e2)) TInt = true ->
                       (forall av bv, eval_s te m e1 = Ok av -> eval_s te m e2 = Ok bv -> notnan av /\ notnan bv) ->
                       forall av bv, eval_s te' m' e1 = Ok av -> eval_s te' m' e2 = Ok bv -> notnan av /\ notnan bv).
        { intros Hwp Hn av bv Ha Hb'. apply andb_prop in Hwp. destruct Hwp as [Hwp _]. cbn [LowerSem.wt_pure] in Hwp.
          apply andb_prop in Hwp. destruct Hwp as [Hwp _]. apply andb_prop in Hwp. destruct Hwp as [Hwp _].
          apply andb_prop in Hwp. destruct Hwp as [Hp1 Hp2].
          rewrite (Heq e1 Hp1 Hb1) in Ha. rewrite (Heq e2 Hp2 Hb2) in Hb'. exact (Hn av bv Ha Hb'). }
        destruct op; cbn [LowerSem.wt_cond] in Hw; try (apply Hcmp; [exact Hw | exact H]);
          (apply andb_prop in Hw; destruct Hw as [Hw1 Hw2]; destruct H as [H1 H2']; split; [apply IHe1 | apply IHe2]; assumption).
    Qed.

    Lemma nonan_t_transfer : forall e, wt_tern te e = true -> locals_below n e = true -> nonan_t te m e -> nonan_t te' m' e.
    Proof.
      induction e; intros Hw Hb H; cbn [LowerJumps.nonan_t] in *; try exact I.
      cbn [LowerSem.wt_tern] in Hw. cbn [locals_below] in Hb.
      apply andb_prop in Hw. destruct Hw as [Hw Hty]. apply andb_prop in Hw. destruct Hw as [Hw Hw3]. apply andb_prop in Hw. destruct Hw as [Hw1 Hw2].
      apply andb_prop in Hb. destruct Hb as [Hb Hb3]. apply andb_prop in Hb. destruct Hb as [Hb1 Hb2].
      destruct H as [H1 [H2' H3]]. split; [apply nonan_transfer; assumption|]. split; [apply IHe2 | apply IHe3]; assumption.
    Qed.
  End Transfer.

  (* allocate a temporary and compute a (possibly ternary) expression into it *)
  Lemma temp_compute_tern fuel s ea tmp_ty m xv c1 s2 :
    wt_tern (te s) ea = true -> locals_below (g s) ea = true -> fresh m (g s) -> nonan_t (te s) m ea ->
    eval_s (te s) m ea = Ok xv ->
    lower fuel (CAssignOp (mkvar (Some (sigil_of_ty tmp_ty)) (VLoc (g s))) None ea)
          (mklst (S (g s)) ((g s, tmp_ty) :: te s)) = Ok (c1, s2) ->
    (forall rest cmp, exists cmp', run_fwd ((LAlloc (g s) tmp_ty :: c1) ++ rest) Exec m cmp =
                                   run_fwd rest Exec (update m (VLoc (g s)) xv) cmp') /\
    (S (g s) <= g s2)%nat /\ te_agree (g s) (te s) (te s2).
  Proof.
    intros Hw Hb Hf Hnn He Hl.
    set (d := g s) in *. set (te1 := (d, tmp_ty) :: te s) in *.
    assert (Ha : te_agree d (te s) te1).
    { intros d' Hd'. unfold te1, loc_ty. cbn [assoc]. destruct (Nat.eqb_spec d' d); [lia | reflexivity]. }
    set (m0 := update m (VLoc d) (default_of tmp_ty)).
    assert (Heq : forall a, wt_pure (te s) a = true -> locals_below d a = true -> eval_s te1 m0 a = eval_s (te s) m a).
    { intros a Hp Hba. rewrite (agree_eval T libm rty lty diff d (te s) te1 m0 Ha a Hba). unfold m0.
      apply eval_update_indep; [exact Hp|]. apply (below_not_uses libm rty lty 0 d d); [lia | exact Hba]. }
    assert (Hev : eval_s te1 m0 ea = Ok xv).
    { rewrite (agree_eval T libm rty lty diff d (te s) te1 m0 Ha ea Hb). unfold m0.
      rewrite eval_indep_tern; [exact He | exact Hw|]. apply (below_not_uses libm rty lty 0 d d); [lia | exact Hb]. }
    destruct (tern_sound T libm avail auto_casts rty lty diff time mask no_sigil_intrinsics HT H2 fuel
                (CAssignOp (mkvar (Some (sigil_of_ty tmp_ty)) (VLoc d)) None ea) (mklst (S d) te1) c1 s2
                (mkvar (Some (sigil_of_ty tmp_ty)) (VLoc d)) ea Hl eq_refl m0 (update m (VLoc d) xv)) as [Hr [Hg Hte]].
    - cbn [te]. rewrite (agree_wt_tern rty lty d (te s) te1 Ha ea Hb). exact Hw.
    - cbn [g]. apply (locals_below_mono libm rty lty 0 d (S d)); [lia | exact Hb].
    - unfold var_below. cbn. lia.
    - cbn [te]. apply (nonan_t_transfer (te s) te1 m m0 d Heq ea Hw Hb Hnn).
    - cbn [g]. intros d' Hd'. unfold m0. cbn. destruct (Nat.eqb_spec d' d); [lia|]. apply Hf. fold d. lia.
    - cbn [te]. unfold LowerSound.assign_s. rewrite Hev. cbn [obind v_id]. f_equal. unfold m0. apply update_update_same.
    - cbn [g te] in Hg, Hte. split; [|split; [exact Hg|]].
      + intros rest cmp. cbn [app LowerSem.run_fwd]. fold m0. apply Hr.
      + intros d' Hd'. rewrite (Hte d') by lia. apply Ha. exact Hd'.
  Qed.

  Lemma mapM_ext_in2 {A B} (f h : A -> outcome B) l : (forall x, In x l -> f x = h x) -> mapM f l = mapM h l.
  Proof.
    induction l as [|x l IH]; intros H; [reflexivity|]. cbn [mapM].
    rewrite (H x (or_introl eq_refl)). rewrite IH; [reflexivity|]. intros y Hy. apply H. right. exact Hy.
  Qed.

  (* memory: the generalisation of LowerArgs.args_sound *)
  Lemma args_sound_tern n0 fuel : forall args s c la ds s',
    lower_args fuel args s = Ok (c, la, ds, s') ->
    Forall (fun e => wt_tern (te s) e = true /\ locals_below n0 e = true) args -> (n0 <= g s)%nat ->
    forall m vs, fresh m (g s) -> Forall (nonan_t (te s) m) args -> mapM (eval_s (te s) m) args = Ok vs ->
    exists m', (forall rest cmp, exists cmp', run_fwd (c ++ rest) Exec m cmp = run_fwd rest Exec m' cmp') /\
               mapM (read_arg m') la = Ok vs /\ frame (g s) m m' /\
               free_all lty (rev ds) m' = m /\ (g s <= g s')%nat /\ te_agree (g s) (te s) (te s').
  Proof.
    pose proof (lower_sound T libm avail auto_casts rty lty diff time mask no_sigil_intrinsics HT fuel) as IHl.
    induction args as [|e args IH]; intros s c la ds s' Hl Hwf Hn m vs Hfr Hnn Hev.
    - cbn in Hl. inversion Hl; subst. cbn in Hev. inversion Hev; subst. exists m.
      split; [intros rest cmp; exists cmp; reflexivity|]. split; [reflexivity|]. split; [apply frame_refl|]. split; [reflexivity|]. split; [lia|].
      intros d _. reflexivity.
    - pose proof (Forall_inv Hwf) as [Hw Hb]. pose proof (Forall_inv_tail Hwf) as Hwf'.
      pose proof (Forall_inv Hnn) as Hnne. pose proof (Forall_inv_tail Hnn) as Hnn'.
      assert (Hbg : locals_below (g s) e = true) by (eapply (locals_below_mono libm rty lty 0 n0 (g s)); eassumption).
      cbn [mapM] in Hev. destruct (eval_s (te s) m e) as [v| | |] eqn:Ee; cbn [obind] in Hev; try discriminate.
      destruct (mapM (eval_s (te s) m) args) as [vs'| | |] eqn:Ers; cbn [obind] in Hev; try discriminate.
      inversion Hev; subst vs. clear Hev.
      cbn [Lower.lower_args] in Hl.
      destruct (classify (te s) e) as [a ta|ea tmp_ty read_ty] eqn:Ec.
      + (* simple argument: not a ternary *)
        assert (Hwp : wt_pure (te s) e = true).
        { rewrite <- wt_tern_plain; [exact Hw|]. intros c0 l0 r0 ->. cbn in Ec. discriminate. }
        destruct (lower_args fuel args s) as [[[[c0 la0] ds0] s0]| | |] eqn:El; try discriminate.
        inversion Hl; subst c la ds s'. clear Hl.
        destruct (IH s c0 la0 ds0 s0 El Hwf' Hn m vs' Hfr Hnn' Ers) as [m' [Hr [Hm [Hf [Hfree [Hg Ht]]]]]].
        exists m'. split; [exact Hr|]. split; [|auto].
        cbn [mapM]. rewrite (read_arg_frame (g s) m m' a Hf (classify_simple_low auto_casts rty lty _ _ _ _ _ Ec Hbg)).
        destruct (classify_simple T libm auto_casts rty lty diff (te s) m e a ta Hwp Ec) as [Hra _].
        rewrite Hra, Ee. cbn [obind]. rewrite Hm. reflexivity.
      + (* through a temporary *)
        unfold alloc_temp in Hl.
        destruct (lower fuel (CAssignOp (mkvar (Some (sigil_of_ty tmp_ty)) (VLoc (g s))) None ea)
                    (mklst (S (g s)) ((g s, tmp_ty) :: te s))) as [[c1 s2]| | |] eqn:El1; try discriminate.
        destruct (lower_args fuel args s2) as [[[[c2 la2] ds2] s3]| | |] eqn:El2; try discriminate.
        inversion Hl; subst c la ds s'. clear Hl.
        (* what is computed into the temporary, and how reading it back gives the argument's value *)
        assert (Htmp : exists xv,
                  (forall rest cmp, exists cmp', run_fwd ((LAlloc (g s) tmp_ty :: c1) ++ rest) Exec m cmp =
                                                 run_fwd rest Exec (update m (VLoc (g s)) xv) cmp') /\
                  (S (g s) <= g s2)%nat /\ te_agree (g s) (te s) (te s2) /\
                  cast_by_sigil (Some (sigil_of_ty read_ty)) xv = Some v).
        { destruct e as [z|f|str|sg r|sg d0|id|op b|a0 op b|cnd l r|cs|fn al|o];
            try (cbn in Ec; discriminate).
          - (* EUn *)
            assert (Hwp : wt_pure (te s) (EUn op b) = true) by exact Hw.
            destruct (classify_elab T libm auto_casts rty lty diff HT (te s) _ ea tmp_ty read_ty Hwp Ec) as [Hwa [_ [_ [_ [Hba Hval]]]]].
            destruct (Hval m v Ee) as [xv [Eea Hcast]]. exists xv.
            destruct (temp_compute T libm avail auto_casts rty lty diff time mask fuel IHl s ea tmp_ty m xv c1 s2 Hwa (Hba _ Hbg) Hfr Eea El1) as [Hr1 [Hg1 Ht1]].
            split; [|auto]. intros rest cmp. exists cmp. apply run_fwd_pure. exact Hr1.
          - (* EBin *)
            assert (Hwp : wt_pure (te s) (EBin a0 op b) = true) by exact Hw.
            destruct (classify_elab T libm auto_casts rty lty diff HT (te s) _ ea tmp_ty read_ty Hwp Ec) as [Hwa [_ [_ [_ [Hba Hval]]]]].
            destruct (Hval m v Ee) as [xv [Eea Hcast]]. exists xv.
            destruct (temp_compute T libm avail auto_casts rty lty diff time mask fuel IHl s ea tmp_ty m xv c1 s2 Hwa (Hba _ Hbg) Hfr Eea El1) as [Hr1 [Hg1 Ht1]].
            split; [|auto]. intros rest cmp. exists cmp. apply run_fwd_pure. exact Hr1.
          - (* ETern: the whole ternary goes into the temporary *)
            cbn [Lower.classify] in Ec. inversion Ec; subst ea tmp_ty read_ty. clear Ec.
            exists v.
            destruct (temp_compute_tern fuel s (ETern cnd l r) (ety (te s) (ETern cnd l r)) m v c1 s2 Hw Hbg Hfr Hnne Ee El1) as [Hr1 [Hg1 Ht1]].
            split; [exact Hr1|]. split; [exact Hg1|]. split; [exact Ht1|].
            apply cast_id. exact (eval_ty_tern (te s) m (ETern cnd l r) v Hw Ee).
        }
        destruct Htmp as [xv [Hr1 [Hg1 [Ht1 Hcast]]]].
        set (d := g s) in *. set (m1 := update m (VLoc d) xv) in *.
        assert (Hwf2 : Forall (fun e0 => wt_tern (te s2) e0 = true /\ locals_below n0 e0 = true) args).
        { eapply Forall_impl; [|exact Hwf']. intros e0 [Hw0 Hb0]. split; [|exact Hb0].
          rewrite (agree_wt_tern rty lty d (te s) (te s2) Ht1 e0); [exact Hw0|].
          eapply (locals_below_mono libm rty lty 0 n0 d); eassumption. }
        assert (Hfr1 : fresh m1 (g s2)).
        { intros d' Hd'. unfold m1. cbn. destruct (Nat.eqb_spec d' d); [lia|]. apply Hfr. fold d. lia. }
        assert (Heq : forall a, wt_pure (te s) a = true -> locals_below d a = true -> eval_s (te s2) m1 a = eval_s (te s) m a).
        { intros a Hp Hba. rewrite (agree_eval T libm rty lty diff d (te s) (te s2) m1 Ht1 a Hba). unfold m1.
          apply eval_update_indep; [exact Hp|]. apply (below_not_uses libm rty lty 0 d d); [lia | exact Hba]. }
        assert (Hev2 : mapM (eval_s (te s2) m1) args = Ok vs').
        { rewrite <- Ers. apply mapM_ext_in2. intros e0 Hin.
          rewrite Forall_forall in Hwf'. destruct (Hwf' e0 Hin) as [Hw0 Hb0].
          assert (Hb0' : locals_below d e0 = true) by (eapply (locals_below_mono libm rty lty 0 n0 d); eassumption).
          rewrite (agree_eval T libm rty lty diff d (te s) (te s2) m1 Ht1 e0 Hb0').
          unfold m1. apply eval_indep_tern; [exact Hw0|].
          apply (below_not_uses libm rty lty 0 d d); [lia | exact Hb0']. }
        assert (Hnn2 : Forall (nonan_t (te s2) m1) args).
        { rewrite Forall_forall. intros e0 Hin. rewrite Forall_forall in Hwf', Hnn'. destruct (Hwf' e0 Hin) as [Hw0 Hb0].
          apply (nonan_t_transfer (te s) (te s2) m m1 d Heq e0 Hw0); [|exact (Hnn' e0 Hin)].
          eapply (locals_below_mono libm rty lty 0 n0 d); eassumption. }
        destruct (IH s2 c2 la2 ds2 s3 El2 Hwf2 ltac:(lia) m1 vs' Hfr1 Hnn2 Hev2) as [m' [Hr [Hm [Hf [Hfree [Hg Ht]]]]]].
        exists m'. split; [|split; [|split; [|split; [|split]]]].
        * intros rest cmp.
          change ((LAlloc d tmp_ty :: c1 ++ c2) ++ rest) with (LAlloc d tmp_ty :: (c1 ++ c2) ++ rest).
          rewrite <- app_assoc. change (LAlloc d tmp_ty :: c1 ++ c2 ++ rest) with ((LAlloc d tmp_ty :: c1) ++ (c2 ++ rest)).
          destruct (Hr1 (c2 ++ rest) cmp) as [cmp1 E1]. rewrite E1. fold m1. apply Hr.
        * cbn [mapM LowerSem.read_arg lookup]. destruct Hf as [_ Lf]. rewrite (Lf d) by lia.
          unfold m1. cbn [update locs]. rewrite Nat.eqb_refl. rewrite Hcast. cbn [expect obind]. rewrite Hm. reflexivity.
        * eapply frame_trans; [| apply (frame_update_high d m d xv); lia | exact Hf]. lia.
        * cbn [rev]. unfold free_all. rewrite fold_left_app. fold (free_all lty (rev ds2) m'). rewrite Hfree.
          cbn [fold_left]. unfold m1. rewrite update_update_same. rewrite <- (Hfr d) by (fold d; lia).
          apply (update_lookup_id m (VLoc d)).
        * lia.
        * intros d' Hd'. rewrite (Ht d') by lia. apply Ht1. exact Hd'.
  Qed.
End ArgsTern.
