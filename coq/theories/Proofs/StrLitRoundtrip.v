(* Proofs/StrLitRoundtrip.v -- a string literal printed by the formatter is lexed as one token and unescapes
   to the same string (C15, text side). *)
From TV Require Import Base.I32 Model.StrLit.
Open Scope Z_scope.

Section Table.
Variable t : esc_table.
Hypothesis Hok : table_ok t = true.

Lemma table_facts :
  (exists q, zassoc1 QUOTE (et_fmt t) = Some q) /\ (exists b, zassoc1 BACKSLASH (et_fmt t) = Some b) /\
  forall c e, zassoc1 c (et_fmt t) = Some e -> zassoc1 e (et_parse t) = Some c /\ e <> NEWLINE.
Proof.
  unfold table_ok in Hok. destruct (zassoc1 QUOTE (et_fmt t)) as [q|] eqn:Eq; [|discriminate].
  destruct (zassoc1 BACKSLASH (et_fmt t)) as [b|] eqn:Eb; [|discriminate].
  split; [eauto|]. split; [eauto|]. intros c e H.
  assert (Hin : In (c, e) (et_fmt t)).
  { clear -H. induction (et_fmt t) as [|[k v] l IH]; cbn [zassoc1] in H; [discriminate|].
    destruct (c =? k) eqn:E; [apply Z.eqb_eq in E; injection H as <-; subst; now left|right; now apply IH]. }
  rewrite forallb_forall in Hok. specialize (Hok _ Hin). cbn [fst snd] in Hok.
  apply andb_true_iff in Hok. destruct Hok as [H1 H2].
  destruct (zassoc1 e (et_parse t)) as [c'|]; [|discriminate]. apply Z.eqb_eq in H1. subst c'.
  split; [reflexivity|]. apply negb_true_iff in H2. now apply Z.eqb_neq.
Qed.

Theorem literal_roundtrip : forall s rest,
  lex_body (escape t s ++ QUOTE :: rest) = Some (escape t s, rest) /\ unescape t (escape t s) false = Some s.
Proof.
  destruct table_facts as [[q Hq] [[b Hb] Hinv]].
  induction s as [|c s IH]; intro rest.
  - cbn [escape app lex_body unescape]. rewrite Z.eqb_refl. split; reflexivity.
  - destruct (IH rest) as [IH1 IH2]. cbn [escape]. destruct (zassoc1 c (et_fmt t)) as [e|] eqn:Ec.
    + destruct (Hinv _ _ Ec) as [Hp Hn].
      cbn [app lex_body unescape]. change (BACKSLASH =? QUOTE) with false. rewrite Z.eqb_refl.
      replace (e =? NEWLINE) with false by (symmetry; now apply Z.eqb_neq).
      rewrite IH1, Hp, IH2. split; reflexivity.
    + assert (Hcq : c <> QUOTE) by (intro; subst; congruence).
      assert (Hcb : c <> BACKSLASH) by (intro; subst; congruence).
      cbn [app lex_body unescape].
      replace (c =? QUOTE) with false by (symmetry; now apply Z.eqb_neq).
      replace (c =? BACKSLASH) with false by (symmetry; now apply Z.eqb_neq).
      rewrite IH1, IH2. split; reflexivity.
Qed.

Corollary print_read_literal s rest : read_literal t (print_literal t s ++ rest) = Some (s, rest).
Proof.
  unfold print_literal, read_literal. cbn [app]. rewrite Z.eqb_refl. rewrite <- app_assoc. cbn [app].
  destruct (literal_roundtrip s rest) as [H1 H2]. now rewrite H1, H2.
Qed.

End Table.
