(* Proofs/ResolveSpec.v -- C10: the rib-stack visitor computes exactly the environment-passing
   scoping rules of Spec/Scope.v (for every program, every global environment, every language pair). *)
From TV Require Import Base.I32 Model.ResolveSyntax Gen.RibTable Model.Resolve Spec.Scope.
Open Scope Z_scope.

Scheme stmt_mut := Induction for stmt Sort Prop
with block_mut := Induction for block Sort Prop
with item_mut := Induction for item Sort Prop.
Combined Scheme syntax_mutind from stmt_mut, block_mut, item_mut.

(* ---- tie 1: the generated tables are the ones the model and the proofs are written for ---- *)

Lemma rib_tables_as_modelled :
  gen_recognised = true
  /\ gen_holds_locals = [TLocals; TParams]
  /\ gen_barriers = [TLocalBarrier]
  /\ gen_initial_ribs = [GInsAliases; GRegAliases; GBuiltinConsts; GEnumConsts]
  /\ gen_file_ribs = [(TVars, TItems); (TFuncs, TItems)]
  /\ gen_block_ribs = [(TFuncs, TItems); (TVars, TItems); (TVars, TLocals)]
  /\ gen_func_ribs = [(TVars, TLocalBarrier); (TVars, TParams)]
  /\ gen_const_ribs = [(TVars, TLocalBarrier)]
  /\ gen_script_ribs = []
  /\ gen_file_items_first = true /\ gen_block_items_first = true /\ gen_decl_init_first = true
  /\ gen_barrier_checked_first = true /\ gen_params_before_body = true /\ gen_resolve_conditions = true.
Proof. vm_compute. repeat split. Qed.
(* [gen_excess_mode] and [gen_zip_skips_padding] are not pinned: the model follows them, see Proofs/ResolveScoping.v *)

Lemma holds_locals_Locals : holds_locals TLocals = true. Proof. reflexivity. Qed.
Lemma holds_locals_Params : holds_locals TParams = true. Proof. reflexivity. Qed.
Lemma holds_locals_Items : holds_locals TItems = false. Proof. reflexivity. Qed.
Lemma holds_locals_Barrier : holds_locals TLocalBarrier = false. Proof. reflexivity. Qed.
Lemma is_barrier_Locals : is_barrier TLocals = false. Proof. reflexivity. Qed.
Lemma is_barrier_Params : is_barrier TParams = false. Proof. reflexivity. Qed.
Lemma is_barrier_Items : is_barrier TItems = false. Proof. reflexivity. Qed.
Lemma is_barrier_Barrier : is_barrier TLocalBarrier = true. Proof. reflexivity. Qed.

(* ---- association lists as environments ---- *)

Definition ents_env (ents : list (ident * def)) (base : env) : env :=
  fun x => match assoc x ents with Some d => LFound d | None => base x end.

Lemma assoc_in {A} x (l : list (ident * A)) d : assoc x l = Some d -> In (x, d) l.
Proof.
  induction l as [|[y a] t IH]; cbn [assoc]; [discriminate|].
  destruct (Z.eqb_spec x y) as [->|_]; intro H.
  - inversion H; subst. now left.
  - right. auto.
Qed.

Lemma assoc_some_iff {A} x (l : list (ident * A)) : (exists d, assoc x l = Some d) <-> In x (map fst l).
Proof.
  induction l as [|[y a] t IH]; cbn [assoc map fst In].
  - split; [intros [d H]; discriminate | tauto].
  - destruct (Z.eqb_spec x y) as [->|N].
    + split; eauto.
    + rewrite IH. split; [tauto|]. intros [E|H]; [congruence|exact H].
Qed.

Lemma bind_occs_ext mk os : forall e1 e2, (forall x, e1 x = e2 x) -> forall x, bind_occs mk e1 os x = bind_occs mk e2 os x.
Proof.
  induction os as [|o t IH]; intros e1 e2 H x; cbn [bind_occs]; [apply H|].
  apply IH. intro y. unfold bind. now rewrite H.
Qed.

Lemma bind_funcs_ext fs : forall e1 e2, (forall x, e1 x = e2 x) -> forall x, bind_funcs e1 fs x = bind_funcs e2 fs x.
Proof.
  induction fs as [|[f n] t IH]; intros e1 e2 H x; cbn [bind_funcs]; [apply H|].
  apply IH. intro y. unfold bind. now rewrite H.
Qed.

Lemma ents_env_cons y d ents base x : ents_env ((y, d) :: ents) base x = bind (ents_env ents base) y d x.
Proof. unfold ents_env, bind. cbn [assoc]. destruct (x =? y); reflexivity. Qed.

(* ---- events ---- *)

Lemma res_events_app a b : res_events (a ++ b) = res_events a ++ res_events b.
Proof. apply filter_app. Qed.

Lemma res_events_all l : (forall e, In e l -> is_res e = true) -> res_events l = l.
Proof.
  induction l as [|e t IH]; intro H; cbn; [reflexivity|].
  rewrite (H e (or_introl eq_refl)). f_equal. apply IH. intros; apply H; now right.
Qed.

Lemma res_events_uses g lv lf al us : res_events (map (use_event g lv lf al) us) = map (use_event g lv lf al) us.
Proof. apply res_events_all. intros e H. apply in_map_iff in H as [u [<- _]]. reflexivity. Qed.

Lemma res_events_declare ents o d : res_events (fst (declare ents o d)) = [EvRes (oid o) (ROk d)].
Proof. unfold declare. cbn. destruct (assoc (oname o) ents); reflexivity. Qed.

Definition ents_local (ents : list (ident * def)) : Prop := forall x d, In (x, d) ents -> is_local_def d = true.
Definition ents_item (ents : list (ident * def)) : Prop := forall x d, In (x, d) ents -> is_local_def d = false.

Lemma declare_all_spec mk os : forall ents evs ents',
  declare_all mk ents os = (evs, ents') ->
  res_events evs = map (fun o => self_event (mk o) o) os
  /\ (forall base x, ents_env ents' base x = bind_occs mk (ents_env ents base) os x)
  /\ (forall P : def -> Prop, (forall o, P (mk o)) -> (forall x d, In (x, d) ents -> P d) -> forall x d, In (x, d) ents' -> P d).
Proof.
  induction os as [|o t IH]; intros ents evs ents' H; cbn [declare_all] in H.
  - inversion H; subst. repeat split; auto.
  - destruct (declare ents o (mk o)) as [e1 ents1] eqn:E1.
    destruct (declare_all mk ents1 t) as [e2 ents2] eqn:E2. inversion H; subst; clear H.
    destruct (IH _ _ _ E2) as [H1 [H2 H3]].
    assert (Hents1 : ents1 = (oname o, mk o) :: ents) by (unfold declare in E1; now inversion E1).
    split; [|split].
    + rewrite res_events_app, H1. cbn [map].
      change e1 with (fst (e1, ents1)). rewrite <- E1, res_events_declare. reflexivity.
    + intros base x. rewrite H2. cbn [bind_occs]. apply bind_occs_ext. intro y. subst ents1. apply ents_env_cons.
    + intros P Hmk Hents. apply H3; [exact Hmk|]. subst ents1. intros x d [E|Hin]; [inversion E; subst; apply Hmk | eauto].
Qed.

Lemma declare_funcs_spec fs : forall ents evs ents',
  declare_funcs ents fs = (evs, ents') ->
  res_events evs = map (fun fn => self_event (DFunc (oid (fst fn)) (snd fn)) (fst fn)) fs
  /\ (forall base x, ents_env ents' base x = bind_funcs (ents_env ents base) fs x)
  /\ (ents_item ents -> ents_item ents').
Proof.
  induction fs as [|[f n] t IH]; intros ents evs ents' H; cbn [declare_funcs] in H.
  - inversion H; subst. repeat split; auto.
  - destruct (declare ents f (DFunc (oid f) n)) as [e1 ents1] eqn:E1.
    destruct (declare_funcs ents1 t) as [e2 ents2] eqn:E2. inversion H; subst; clear H.
    destruct (IH _ _ _ E2) as [H1 [H2 H3]].
    assert (Hents1 : ents1 = (oname f, DFunc (oid f) n) :: ents) by (unfold declare in E1; now inversion E1).
    split; [|split].
    + rewrite res_events_app, H1. cbn [map fst snd].
      change e1 with (fst (e1, ents1)). rewrite <- E1, res_events_declare. reflexivity.
    + intros base x. rewrite H2. cbn [bind_funcs]. apply bind_funcs_ext. intro y. subst ents1. apply ents_env_cons.
    + intro Hi. apply H3. subst ents1. intros x d [E|Hin]; [inversion E; reflexivity | eauto].
Qed.

Lemma ents_env_nil base x : ents_env [] base x = base x.
Proof. reflexivity. Qed.

Lemma declare_items_spec its e cents fents :
  declare_items its = (e, cents, fents) ->
  res_events e = item_self_events its
  /\ (forall base x, ents_env cents base x = enter_v base its x)
  /\ (forall base x, ents_env fents base x = enter_f base its x)
  /\ ents_item cents /\ ents_item fents.
Proof.
  unfold declare_items. intro H.
  destruct (declare_all mk_const [] (const_occs its)) as [ec cents0] eqn:Ec.
  destruct (declare_funcs [] (func_occs its)) as [ef fents0] eqn:Ef.
  inversion H; subst; clear H.
  destruct (declare_all_spec _ _ _ _ _ Ec) as [C1 [C2 C3]].
  destruct (declare_funcs_spec _ _ _ _ Ef) as [F1 [F2 F3]].
  repeat split.
  - rewrite res_events_app, C1, F1. reflexivity.
  - intros base x. rewrite C2. unfold enter_v. apply bind_occs_ext. intro; apply ents_env_nil.
  - intros base x. rewrite F2. unfold enter_f. apply bind_funcs_ext. intro; apply ents_env_nil.
  - intros x d Hin. apply (C3 (fun d => is_local_def d = false)) with (x := x); [reflexivity | intros ? ? [] | exact Hin].
  - apply F3. intros ? ? [].
Qed.

(* ---- stacks denote environments ---- *)

Definition denotes (st : stack) (e : env) : Prop := forall x, lookup st x false = e x.

Definition rib_ok (r : rib) : Prop :=
  match rkind r with
  | TLocals | TParams => ents_local (rents r)
  | TItems => ents_item (rents r)
  | TLocalBarrier => rents r = []
  | _ => False
  end.
Definition kinds_ok (st : stack) : Prop := Forall rib_ok st.

Lemma hide_res_idem r : hide_res (hide_res r) = hide_res r.
Proof. destruct r as [d|d|]; cbn; [destruct (is_local_def d) eqn:E; cbn; now rewrite ?E | reflexivity..]. Qed.

Lemma lookup_crossed st : kinds_ok st -> forall x, lookup st x true = hide_res (lookup st x false).
Proof.
  induction 1 as [|r st Hr Hst IH]; intro x; [reflexivity|].
  destruct r as [k ents]. unfold rib_ok in Hr. cbn [rkind rents] in Hr. cbn [lookup rkind rents].
  destruct k; try contradiction.
  - (* Locals *) rewrite holds_locals_Locals, is_barrier_Locals. cbn [orb andb].
    destruct (assoc x ents) as [d|] eqn:E; [|apply IH].
    cbn [hide_res]. now rewrite (Hr x d (assoc_in _ _ _ E)).
  - (* Params *) rewrite holds_locals_Params, is_barrier_Params. cbn [orb andb].
    destruct (assoc x ents) as [d|] eqn:E; [|apply IH].
    cbn [hide_res]. now rewrite (Hr x d (assoc_in _ _ _ E)).
  - (* Barrier *) subst ents. rewrite is_barrier_Barrier. cbn [assoc orb]. rewrite IH. now rewrite hide_res_idem.
  - (* Items *) rewrite holds_locals_Items, is_barrier_Items. cbn [orb andb].
    destruct (assoc x ents) as [d|] eqn:E; [|apply IH].
    cbn [hide_res]. now rewrite (Hr x d (assoc_in _ _ _ E)).
Qed.

Lemma lookup_items st ents x c : lookup (Rib TItems ents :: st) x c = match assoc x ents with Some d => LFound d | None => lookup st x c end.
Proof. cbn [lookup rkind rents]. rewrite holds_locals_Items, is_barrier_Items, orb_false_r. reflexivity. Qed.

Lemma lookup_locals st ents x : lookup (Rib TLocals ents :: st) x false = match assoc x ents with Some d => LFound d | None => lookup st x false end.
Proof. cbn [lookup rkind rents]. rewrite is_barrier_Locals. cbn [orb]. now rewrite andb_false_r. Qed.

Lemma lookup_params st ents x : lookup (Rib TParams ents :: st) x false = match assoc x ents with Some d => LFound d | None => lookup st x false end.
Proof. cbn [lookup rkind rents]. rewrite is_barrier_Params. cbn [orb]. now rewrite andb_false_r. Qed.

Lemma lookup_barrier st x c : lookup (Rib TLocalBarrier [] :: st) x c = lookup st x true.
Proof. cbn [lookup rkind rents assoc]. rewrite is_barrier_Barrier. now rewrite orb_true_r. Qed.

Lemma denotes_items st e ents : denotes st e -> denotes (Rib TItems ents :: st) (ents_env ents e).
Proof. intros H x. rewrite lookup_items. unfold ents_env. now rewrite H. Qed.

Lemma denotes_locals st e ents : denotes st e -> denotes (Rib TLocals ents :: st) (ents_env ents e).
Proof. intros H x. rewrite lookup_locals. unfold ents_env. now rewrite H. Qed.

Lemma denotes_params st e ents : denotes st e -> denotes (Rib TParams ents :: st) (ents_env ents e).
Proof. intros H x. rewrite lookup_params. unfold ents_env. now rewrite H. Qed.

Lemma denotes_barrier st e : kinds_ok st -> denotes st e -> denotes (Rib TLocalBarrier [] :: st) (hide e).
Proof. intros K H x. rewrite lookup_barrier, lookup_crossed by exact K. unfold hide. now rewrite H. Qed.

Lemma denotes_ext st e e' : denotes st e -> (forall x, e x = e' x) -> denotes st e'.
Proof. intros H E x. now rewrite H. Qed.

Lemma denotes_nil : denotes [] env0.
Proof. intro x. reflexivity. Qed.

(* ---- one use depends on the environments only pointwise ---- *)

Lemma callee_sig_ext g lf lf' al c : (forall x, lf x = lf' x) -> callee_sig g lf al c = callee_sig g lf' al c.
Proof. intro H. destruct c as [o|op]; cbn [callee_sig]; [|reflexivity]. unfold lookup_fun. now rewrite H. Qed.

Lemma visited_ext g lf lf' al gs : (forall x, lf x = lf' x) -> visited g lf al gs = visited g lf' al gs.
Proof. intro H. induction gs as [|gd t IH]; cbn [visited]; [reflexivity|]. now rewrite IH, (callee_sig_ext g lf lf' al _ H). Qed.

Lemma colour_ext g lf lf' al gs : (forall x, lf x = lf' x) -> colour g lf al gs = colour g lf' al gs.
Proof. intro H. induction gs as [|gd t IH]; cbn [colour]; [reflexivity|]. now rewrite IH, (callee_sig_ext g lf lf' al _ H). Qed.

Lemma use_event_ext g lv lv' lf lf' al u :
  (forall x, lv x = lv' x) -> (forall x, lf x = lf' x) -> use_event g lv lf al u = use_event g lv' lf' al u.
Proof.
  intros Hv Hf. unfold use_event, resolve_use. f_equal.
  rewrite (visited_ext g lf lf' al _ Hf), (colour_ext g lf lf' al _ Hf).
  unfold lookup_var, lookup_fun. now rewrite Hv, Hf.
Qed.

Lemma uses_events_spec g cv cf ve fe al us :
  denotes cv ve -> denotes cf fe -> uses_events g cv cf al us = s_uses g ve fe al us.
Proof. intros Hv Hf. unfold uses_events, s_uses. apply map_ext. intro u. apply use_event_ext; [apply Hv | apply Hf]. Qed.

(* ---- the visitor ---- *)

Section Refine.
  Variable g : genv.
  Variables fl sl : lang.


  (* unfolding equations (cbn on the mutual fixpoints exposes the other body as a bare fix) *)
  Lemma vs_uses locals cv cf al us rest : visit_stmts g fl sl locals cv cf al (BCons (SUses us) rest)
    = uses_events g (Rib TLocals locals :: cv) cf al us ++ visit_stmts g fl sl locals cv cf al rest.
  Proof. reflexivity. Qed.
  Lemma vs_decl locals cv cf al vars rest : visit_stmts g fl sl locals cv cf al (BCons (SDecl vars) rest)
    = let '(e, locals') := decl_events g locals cv cf al vars in e ++ visit_stmts g fl sl locals' cv cf al rest.
  Proof. reflexivity. Qed.
  Lemma vs_block locals cv cf al b' rest : visit_stmts g fl sl locals cv cf al (BCons (SBlock b') rest)
    = let '(e, cents, fents) := declare_items (block_items b') in
      e ++ visit_stmts g fl sl [] (Rib TItems cents :: Rib TLocals locals :: cv) (Rib TItems fents :: cf) al b'
        ++ visit_stmts g fl sl locals cv cf al rest.
  Proof. reflexivity. Qed.
  Lemma vs_item locals cv cf al i rest : visit_stmts g fl sl locals cv cf al (BCons (SItem i) rest)
    = visit_item g fl sl (Rib TLocals locals :: cv) cf i ++ visit_stmts g fl sl locals cv cf al rest.
  Proof. reflexivity. Qed.
  Lemma vi_const cv cf vars : visit_item g fl sl cv cf (IConst vars) = const_events g cv cf vars.
  Proof. reflexivity. Qed.
  Lemma vi_func cv cf q f ps body : visit_item g fl sl cv cf (IFunc q f ps body)
    = let '(ep, pents) := declare_all mk_param [] ps in
      let '(e, cents, fents) := declare_items (block_items body) in
      ep ++ e ++ visit_stmts g fl sl [] (Rib TItems cents :: Rib TParams pents :: Rib TLocalBarrier [] :: cv)
                             (Rib TItems fents :: cf) (func_lang fl q) body.
  Proof. reflexivity. Qed.
  Lemma vi_funcdecl cv cf q f ps : visit_item g fl sl cv cf (IFuncDecl q f ps) = map (fun p => EvRes (oid p) RSkipped) ps.
  Proof. reflexivity. Qed.
  Lemma vi_script cv cf b : visit_item g fl sl cv cf (IScript b)
    = let '(e, cents, fents) := declare_items (block_items b) in
      e ++ visit_stmts g fl sl [] (Rib TItems cents :: cv) (Rib TItems fents :: cf) (Some sl) b.
  Proof. reflexivity. Qed.
  Lemma vi_meta cv cf us : visit_item g fl sl cv cf (IMeta us) = uses_events g cv cf None us.
  Proof. reflexivity. Qed.

  Lemma ss_uses ve fe al us rest : s_stmts g fl sl ve fe al (BCons (SUses us) rest) = s_uses g ve fe al us ++ s_stmts g fl sl ve fe al rest.
  Proof. reflexivity. Qed.
  Lemma ss_decl ve fe al vars rest : s_stmts g fl sl ve fe al (BCons (SDecl vars) rest)
    = let '(e, ve') := s_decls g ve fe al vars in e ++ s_stmts g fl sl ve' fe al rest.
  Proof. reflexivity. Qed.
  Lemma ss_block ve fe al b' rest : s_stmts g fl sl ve fe al (BCons (SBlock b') rest)
    = item_self_events (block_items b')
      ++ s_stmts g fl sl (enter_v ve (block_items b')) (enter_f fe (block_items b')) al b'
      ++ s_stmts g fl sl ve fe al rest.
  Proof. reflexivity. Qed.
  Lemma ss_item ve fe al i rest : s_stmts g fl sl ve fe al (BCons (SItem i) rest) = s_item g fl sl ve fe i ++ s_stmts g fl sl ve fe al rest.
  Proof. reflexivity. Qed.
  Lemma si_const ve fe vars : s_item g fl sl ve fe (IConst vars) = flat_map (fun v => s_uses g (hide ve) fe None (snd v)) vars.
  Proof. reflexivity. Qed.
  Lemma si_func ve fe q f ps body : s_item g fl sl ve fe (IFunc q f ps body)
    = map (fun p => self_event (mk_param p) p) ps
      ++ item_self_events (block_items body)
      ++ s_stmts g fl sl (enter_v (bind_occs mk_param (hide ve) ps) (block_items body)) (enter_f fe (block_items body)) (func_lang fl q) body.
  Proof. reflexivity. Qed.
  Lemma si_funcdecl ve fe q f ps : s_item g fl sl ve fe (IFuncDecl q f ps) = map (fun p => EvRes (oid p) RSkipped) ps.
  Proof. reflexivity. Qed.
  Lemma si_script ve fe b : s_item g fl sl ve fe (IScript b)
    = item_self_events (block_items b) ++ s_stmts g fl sl (enter_v ve (block_items b)) (enter_f fe (block_items b)) (Some sl) b.
  Proof. reflexivity. Qed.
  Lemma si_meta ve fe us : s_item g fl sl ve fe (IMeta us) = s_uses g ve fe None us.
  Proof. reflexivity. Qed.

  Lemma decl_events_spec vars : forall locals cv cf ve fe al evs locals',
    denotes (Rib TLocals locals :: cv) ve -> denotes cf fe -> ents_local locals ->
    decl_events g locals cv cf al vars = (evs, locals') ->
    res_events evs = fst (s_decls g ve fe al vars)
    /\ denotes (Rib TLocals locals' :: cv) (snd (s_decls g ve fe al vars))
    /\ ents_local locals'.
  Proof.
    induction vars as [|[o init] t IH]; intros locals cv cf ve fe al evs locals' Hv Hf Hl H; cbn [decl_events s_decls] in *.
    - inversion H; subst. auto.
    - destruct (declare locals o (mk_local o)) as [e1 locals1] eqn:E1.
      destruct (decl_events g locals1 cv cf al t) as [e2 locals2] eqn:E2. inversion H; subst; clear H.
      assert (Hl1 : locals1 = (oname o, mk_local o) :: locals) by (unfold declare in E1; now inversion E1).
      assert (Hv1 : denotes (Rib TLocals locals1 :: cv) (bind ve (oname o) (mk_local o))).
      { subst locals1. intro x. rewrite lookup_locals. specialize (Hv x). rewrite lookup_locals in Hv.
        unfold bind. cbn [assoc]. destruct (x =? oname o); [reflexivity | exact Hv]. }
      assert (Hl1' : ents_local locals1).
      { subst locals1. intros x d [E|Hin]; [inversion E; reflexivity | eauto]. }
      destruct (IH _ _ _ _ _ _ _ _ Hv1 Hf Hl1' E2) as [R1 [R2 R3]].
      destruct (s_decls g (bind ve (oname o) (mk_local o)) fe al t) as [s2 ve2] eqn:Es. cbn [fst snd] in *.
      split; [|split; assumption].
      rewrite !res_events_app, R1. rewrite (uses_events_spec g _ _ ve fe al init Hv Hf).
      unfold s_uses at 1. rewrite res_events_uses. f_equal.
      change e1 with (fst (e1, locals1)). rewrite <- E1, res_events_declare. reflexivity.
  Qed.

  Definition Qb (b : block) : Prop := forall locals cv cf ve fe al,
    denotes (Rib TLocals locals :: cv) ve -> denotes cf fe -> kinds_ok (Rib TLocals locals :: cv) ->
    res_events (visit_stmts g fl sl locals cv cf al b) = s_stmts g fl sl ve fe al b.
  Definition Qs (s : stmt) : Prop := forall rest, Qb rest -> Qb (BCons s rest).
  Definition Qi (i : item) : Prop := forall cv cf ve fe,
    denotes cv ve -> denotes cf fe -> kinds_ok cv ->
    res_events (visit_item g fl sl cv cf i) = s_item g fl sl ve fe i.

  (* entering a block whose items are [its], below which the stack denotes ve / fe *)
  Lemma enter_block_ok b cv cf ve fe al e cents fents :
    Qb b -> denotes cv ve -> denotes cf fe -> kinds_ok cv ->
    declare_items (block_items b) = (e, cents, fents) ->
    res_events (e ++ visit_stmts g fl sl [] (Rib TItems cents :: cv) (Rib TItems fents :: cf) al b)
    = item_self_events (block_items b) ++ s_stmts g fl sl (enter_v ve (block_items b)) (enter_f fe (block_items b)) al b.
  Proof.
    intros HQ Hv Hf K D. destruct (declare_items_spec _ _ _ _ D) as [R [Cv [Cf [Ic If_]]]].
    rewrite res_events_app, R. f_equal. apply HQ.
    - eapply denotes_ext; [apply denotes_locals, denotes_items, Hv|]. intro x. cbn. apply Cv.
    - eapply denotes_ext; [apply denotes_items, Hf|]. intro x. apply Cf.
    - constructor; [intros ? ? [] | constructor; [exact Ic | exact K]].
  Qed.

  Lemma refine_all : (forall s, Qs s) /\ (forall b, Qb b) /\ (forall i, Qi i).
  Proof.
    apply syntax_mutind.
    - (* SUses *) intros us rest IH locals cv cf ve fe al Hv Hf K. rewrite vs_uses, ss_uses.
      rewrite res_events_app. rewrite (uses_events_spec g _ _ ve fe al us Hv Hf). unfold s_uses at 1.
      rewrite res_events_uses. f_equal. now apply IH.
    - (* SDecl *) intros vars rest IH locals cv cf ve fe al Hv Hf K. rewrite vs_decl, ss_decl.
      destruct (decl_events g locals cv cf al vars) as [e locals'] eqn:E.
      assert (Hl : ents_local locals) by (inversion K as [|? ? Hr ?]; exact Hr).
      destruct (decl_events_spec _ _ _ _ _ _ _ _ _ Hv Hf Hl E) as [R1 [R2 R3]].
      destruct (s_decls g ve fe al vars) as [se ve'] eqn:Es. cbn [fst snd] in *.
      rewrite res_events_app, R1. f_equal. apply IH; [exact R2 | exact Hf|].
      inversion K; subst. constructor; assumption.
    - (* SBlock *) intros b' IHb rest IH locals cv cf ve fe al Hv Hf K. rewrite vs_block, ss_block.
      destruct (declare_items (block_items b')) as [[e cents] fents] eqn:D.
      rewrite app_assoc, res_events_app. rewrite (enter_block_ok b' _ _ ve fe al e cents fents IHb Hv Hf K D).
      rewrite <- app_assoc. do 2 f_equal. now apply IH.
    - (* SItem *) intros i IHi rest IH locals cv cf ve fe al Hv Hf K. rewrite vs_item, ss_item.
      rewrite res_events_app. rewrite (IHi _ _ ve fe Hv Hf K). f_equal. now apply IH.
    - (* BNil *) intros locals cv cf ve fe al _ _ _. reflexivity.
    - (* BCons *) intros s IHs b IHb. now apply IHs.
    - (* IConst *) intros vars cv cf ve fe Hv Hf K. rewrite vi_const, si_const. unfold const_events.
      induction vars as [|v t IHt]; cbn [flat_map]; [reflexivity|].
      rewrite res_events_app, IHt.
      rewrite (uses_events_spec g _ _ (hide ve) fe None (snd v) (denotes_barrier _ _ K Hv) Hf).
      unfold s_uses at 1. now rewrite res_events_uses.
    - (* IFunc *) intros q f ps body IHb cv cf ve fe Hv Hf K. rewrite vi_func, si_func.
      destruct (declare_all mk_param [] ps) as [ep pents] eqn:Ep.
      destruct (declare_items (block_items body)) as [[e cents] fents] eqn:D.
      destruct (declare_all_spec _ _ _ _ _ Ep) as [P1 [P2 P3]].
      rewrite res_events_app, P1. f_equal.
      apply (enter_block_ok body _ _ (bind_occs mk_param (hide ve) ps) fe (func_lang fl q) e cents fents IHb); [| exact Hf | | exact D].
      + eapply denotes_ext; [apply denotes_params, denotes_barrier; [exact K | exact Hv]|].
        intro x. rewrite P2. apply bind_occs_ext. intro; apply ents_env_nil.
      + constructor; [|constructor; [reflexivity | exact K]].
        unfold rib_ok. cbn [rkind rents]. intros x d Hin.
        apply (P3 (fun d => is_local_def d = true)) with (x := x); [reflexivity | intros ? ? [] | exact Hin].
    - (* IFuncDecl *) intros q f ps cv cf ve fe _ _ _. rewrite vi_funcdecl, si_funcdecl.
      apply res_events_all. intros e H. apply in_map_iff in H as [p [<- _]]. reflexivity.
    - (* IScript *) intros b IHb cv cf ve fe Hv Hf K. rewrite vi_script, si_script.
      destruct (declare_items (block_items b)) as [[e cents] fents] eqn:D.
      apply (enter_block_ok b _ _ ve fe (Some sl) e cents fents IHb Hv Hf K D).
    - (* IMeta *) intros us cv cf ve fe Hv Hf K. rewrite vi_meta, si_meta.
      rewrite (uses_events_spec g _ _ ve fe None us Hv Hf). unfold s_uses. apply res_events_uses.
  Qed.

  Theorem resolve_sound_complete : forall p, res_events (resolve g fl sl p) = scope_spec g fl sl p.
  Proof.
    destruct refine_all as [_ [HQb HQi]].
    intros [items|b]; cbn [resolve scope_spec].
    - destruct (declare_items items) as [[e cents] fents] eqn:D.
      destruct (declare_items_spec _ _ _ _ D) as [R [Cv [Cf [Ic If_]]]].
      rewrite res_events_app, R. f_equal.
      assert (Hv : denotes [Rib TItems cents] (enter_v env0 items)).
      { eapply denotes_ext; [apply denotes_items, denotes_nil|]. intro x. apply Cv. }
      assert (Hf : denotes [Rib TItems fents] (enter_f env0 items)).
      { eapply denotes_ext; [apply denotes_items, denotes_nil|]. intro x. apply Cf. }
      assert (K : kinds_ok [Rib TItems cents]) by (constructor; [exact Ic | constructor]).
      assert (A : forall its, res_events (flat_map (visit_item g fl sl [Rib TItems cents] [Rib TItems fents]) its)
                              = flat_map (s_item g fl sl (enter_v env0 items) (enter_f env0 items)) its).
      { induction its as [|i t IH]; cbn [flat_map]; [reflexivity|].
        rewrite res_events_app, IH. f_equal. now apply HQi. }
      apply A.
    - unfold visit_block, s_block.
      destruct (declare_items (block_items b)) as [[e cents] fents] eqn:D.
      apply (enter_block_ok b [] [] env0 env0 (Some fl) e cents fents (HQb b) denotes_nil denotes_nil); [constructor | exact D].
  Qed.
End Refine.

(* ---- what the global lookups can return ---- *)

Definition not_user (r : res) : Prop :=
  match r with ROk d => user_id d = None | RBarrier _ | RSkipped => False | _ => True end.

Lemma global_fun_in_kind g ribs al x : not_user (global_fun_in ribs g al x).
Proof.
  induction ribs as [|r t IH]; cbn [global_fun_in]; [exact I|].
  destruct r; try exact IH. destruct al as [l|]; [|exact IH]. destruct (ins_opcode g l x); [reflexivity | exact IH].
Qed.

Lemma enum_unqualified_kind g col x : not_user (enum_unqualified g col x).
Proof.
  unfold enum_unqualified.
  assert (U : not_user match enums_with g x with [e] => ROk (DEnum e x) | _ => RAmbiguous end).
  { destruct (enums_with g x) as [|e [|e' t]]; cbn; auto. }
  destruct col as [e|]; [destruct (enum_has g e x); [reflexivity | exact U] | exact U].
Qed.

Lemma global_var_in_kind g ribs al col x : not_user (global_var_in ribs g al col x).
Proof.
  induction ribs as [|r t IH]; cbn [global_var_in]; [exact I|].
  destruct r; try exact IH.
  - destruct al as [l|]; [|exact IH]. destruct (has_reg g l x); [reflexivity | exact IH].
  - destruct (memz x (ge_builtins g)); [reflexivity | exact IH].
  - destruct (enums_with g x); [exact IH | apply enum_unqualified_kind].
Qed.

Lemma enum_qualified_kind g e x : not_user (enum_qualified g e x).
Proof. unfold enum_qualified. destruct (enum_declared g e); [destruct (enum_has g e x)|]; cbn; auto. Qed.
