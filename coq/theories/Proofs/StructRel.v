(* Proofs/StructRel.v -- "same stream" relation between a block and its rewriting, congruence
   through loops and cond chains, and the step from a pass-level relation to equality of the
   canonical streams of whole function bodies. *)
From TV Require Import Base.I32 Model.Structure Proofs.StructBasics.
Open Scope nat_scope.

(* ------------------------------------------------------------------------------------------ *)
(* order-preserving sublists *)

Inductive sub {A : Type} : list A -> list A -> Prop :=
| sub_nil : sub [] []
| sub_cons x l1 l2 : sub l1 l2 -> sub (x :: l1) (x :: l2)
| sub_skip x l1 l2 : sub l1 l2 -> sub l1 (x :: l2).

Lemma sub_refl {A} (l : list A) : sub l l.
Proof. induction l; constructor; auto. Qed.
Lemma sub_nil_l {A} (l : list A) : sub [] l.
Proof. induction l; constructor; auto. Qed.
Lemma sub_app {A} (a a' b b' : list A) : sub a a' -> sub b b' -> sub (a ++ b) (a' ++ b').
Proof. induction 1; cbn; intros; auto; constructor; auto. Qed.
Lemma sub_in {A} (a b : list A) x : sub a b -> In x a -> In x b.
Proof. induction 1; cbn; intros H'; auto. destruct H'; auto. Qed.
Lemma sub_map {A B} (f : A -> B) (a b : list A) : sub a b -> sub (map f a) (map f b).
Proof. induction 1; cbn; constructor; auto. Qed.
Lemma sub_trans {A} (a b c : list A) : sub a b -> sub b c -> sub a c.
Proof.
  intros Hab Hbc. revert a Hab. induction Hbc; intros a Hab.
  - exact Hab.
  - inversion Hab; subst; constructor; auto.
  - constructor; auto.
Qed.
Lemma sub_NoDup {A} (a b : list A) : sub a b -> NoDup b -> NoDup a.
Proof.
  induction 1; intros Hnd; auto.
  - inversion Hnd; subst. constructor; auto. intros Hin. eauto using sub_in.
  - inversion Hnd; auto.
Qed.

(* ------------------------------------------------------------------------------------------ *)

Section Rel.
  Variable N : binop -> option binop.
  Variable C : bool.
  Variable E : env.
  (* labels that must survive the rewriting (those still mentioned afterwards) *)
  Variable keep : nat -> Prop.

  (* [kept L L']: every label of L that must survive is in L', at the same position *)
  Definition kept (L L' : list (nat * state)) : Prop := forall l s, In (l, s) L -> keep l -> In (l, s) L'.

  Definition brel (brk : option state) (st : state) (b b' : list stmt) : Prop :=
    adv st b' = adv st b /\ (sub (lenv st b') (lenv st b) /\ kept (lenv st b) (lenv st b'))
    /\ sem N C E brk st b' = sem N C E brk st b.
  Definition srel (brk : option state) (st : state) (s s' : stmt) : Prop :=
    adv_s st s' = adv_s st s /\ (sub (lenv_s st s') (lenv_s st s) /\ kept (lenv_s st s) (lenv_s st s'))
    /\ sem_s N C E brk st s' = sem_s N C E brk st s.

  Lemma kept_refl L : kept L L.
  Proof. intros l s H _. exact H. Qed.
  Lemma kept_app a a' b b' : kept a a' -> kept b b' -> kept (a ++ b) (a' ++ b').
  Proof. intros Ha Hb l s Hin Hk. apply in_app_or in Hin as [?|?]; apply in_or_app; [left|right]; auto. Qed.
  Lemma kept_trans a b c : kept a b -> kept b c -> kept a c.
  Proof. intros Hab Hbc l s Hin Hk. auto. Qed.
  Lemma kept_nil L : kept [] L.
  Proof. intros l s []. Qed.

  Lemma brel_refl brk st b : brel brk st b b.
  Proof. repeat split; auto using sub_refl, kept_refl. Qed.
  Lemma srel_refl brk st s : srel brk st s s.
  Proof. repeat split; auto using sub_refl, kept_refl. Qed.

  Lemma brel_nil brk st : brel brk st [] [].
  Proof. apply brel_refl. Qed.

  Lemma brel_cons brk st x x' t t' :
    srel brk st x x' -> brel brk (adv_s st x) t t' -> brel brk st (x :: t) (x' :: t').
  Proof.
    intros (Ha & (Hl & Hk) & Hs) (Ha' & (Hl' & Hk') & Hs'). unfold brel.
    rewrite !adv_cons, !lenv_cons, !sem_cons, Ha, Ha', Hs, Hs'.
    repeat split; auto using sub_app, kept_app.
  Qed.

  Lemma brel_drop_label brk st l t t' : ~ keep l -> brel brk st t t' -> brel brk st (SLabel l :: t) t'.
  Proof.
    intros Hnk (Ha & (Hl & Hk) & Hs). unfold brel. autorewrite with struct. repeat split; auto.
    - now constructor.
    - intros l' s [Heq|Hin] Hkl; [inversion Heq; subst; contradiction | auto].
  Qed.

  Lemma brel_app brk st a a' b b' :
    brel brk st a a' -> brel brk (adv st a) b b' -> brel brk st (a ++ b) (a' ++ b').
  Proof.
    intros (Ha & (Hl & Hk) & Hs) (Ha' & (Hl' & Hk') & Hs'). unfold brel.
    rewrite !adv_app, !lenv_app, !sem_app, Ha, Ha', Hs, Hs'.
    repeat split; auto using sub_app, kept_app.
  Qed.

  Lemma brel_trans brk st a b c : brel brk st a b -> brel brk st b c -> brel brk st a c.
  Proof.
    intros (Ha & (Hl & Hk) & Hs) (Ha' & (Hl' & Hk') & Hs'). unfold brel. rewrite Ha', Ha, Hs', Hs.
    repeat split; eauto using sub_trans, kept_trans.
  Qed.

  Lemma srel_loop brk st k b b' :
    brel (Some (real (adv st b))) st b b' -> srel brk st (SLoop k b) (SLoop k b').
  Proof.
    intros (Ha & (Hl & Hk) & Hs). unfold srel. autorewrite with struct. rewrite Ha, Hs. repeat split; auto.
  Qed.

  (* ---- chains ---- *)

  Definition chain_next (en : bool) (st : state) (b : list stmt) (t : list (cond * list stmt)) : state :=
    let st2 := adv (real st) b in if is_nil t && en then st2 else real st2.

  Fixpoint chain_all (P : state -> list stmt -> Prop) (en : bool) (st : state) (bs : list (cond * list stmt)) : Prop :=
    match bs with
    | [] => True
    | (c, b) :: t => P (real st) b /\ chain_all P en (chain_next en st b t) t
    end.

  Fixpoint chain_rel (R : state -> list stmt -> list stmt -> Prop) (en : bool) (st : state)
      (bs bs' : list (cond * list stmt)) : Prop :=
    match bs, bs' with
    | [], [] => True
    | (c, b) :: t, (c', b') :: t' => c' = c /\ R (real st) b b' /\ chain_rel R en (chain_next en st b t) t t'
    | _, _ => False
    end.

  Lemma chain_rel_nil (R : state -> list stmt -> list stmt -> Prop) en st bs bs' : chain_rel R en st bs bs' -> is_nil bs' = is_nil bs.
  Proof. destruct bs as [|[? ?] ?], bs' as [|[? ?] ?]; cbn; tauto. Qed.

  Lemma chain_rel_map (F : list stmt -> list stmt) (P : state -> list stmt -> Prop)
      (R : state -> list stmt -> list stmt -> Prop) (en : bool) : forall bs st,
    Forall (fun cb => forall st, P st (snd cb) -> R st (snd cb) (F (snd cb))) bs ->
    chain_all P en st bs ->
    chain_rel R en st bs (map (fun cb => (fst cb, F (snd cb))) bs).
  Proof.
    induction bs as [|[c b] t IH]; intros st HF Hall; cbn; auto.
    inversion HF as [|? ? Hx Ht]; subst. destruct Hall as [Hp Hall]. cbn in Hx.
    repeat split; auto.
  Qed.

  Lemma chain_rel_adv brk en : forall bs bs' st,
    chain_rel (brel brk) en st bs bs' -> chain_adv adv en st bs' = chain_adv adv en st bs.
  Proof.
    induction bs as [|[c b] t IH]; intros [|[c' b'] t'] st H; cbn in H; try tauto; cbn.
    destruct H as (-> & (Ha & _ & _) & Hrest). rewrite (chain_rel_nil _ _ _ _ _ Hrest), Ha.
    apply IH. exact Hrest.
  Qed.

  Lemma chain_rel_lenv brk en : forall bs bs' st,
    chain_rel (brel brk) en st bs bs' ->
    sub (chain_cat adv lenv (fun _ _ _ => []) (fun _ => []) en st bs')
        (chain_cat adv lenv (fun _ _ _ => []) (fun _ => []) en st bs).
  Proof.
    induction bs as [|[c b] t IH]; intros [|[c' b'] t'] st H; cbn in H; try tauto; cbn; [constructor|].
    destruct H as (-> & (Ha & (Hl & _) & _) & Hrest). rewrite (chain_rel_nil _ _ _ _ _ Hrest), Ha.
    apply sub_app; [exact Hl|]. unfold chain_next in Hrest. destruct (is_nil t && en); cbn; apply IH; exact Hrest.
  Qed.

  Lemma chain_rel_kept brk en : forall bs bs' st,
    chain_rel (brel brk) en st bs bs' ->
    kept (chain_cat adv lenv (fun _ _ _ => []) (fun _ => []) en st bs)
         (chain_cat adv lenv (fun _ _ _ => []) (fun _ => []) en st bs').
  Proof.
    induction bs as [|[c b] t IH]; intros [|[c' b'] t'] st H; cbn in H; try tauto; cbn; [apply kept_nil|].
    destruct H as (-> & (Ha & (_ & Hk) & _) & Hrest). rewrite (chain_rel_nil _ _ _ _ _ Hrest), Ha.
    apply kept_app; [exact Hk|]. unfold chain_next in Hrest. destruct (is_nil t && en); cbn; apply IH; exact Hrest.
  Qed.

  Lemma chain_rel_sem brk en ste : forall bs bs' st,
    chain_rel (brel brk) en st bs bs' ->
    chain_cat adv (sem N C E brk)
              (fun st c tgt => [(snd st, None, BJump (k_unless N C c) (Some tgt) None)])
              (fun st => [(snd st, None, BJump KU (Some ste) None)]) en st bs'
    = chain_cat adv (sem N C E brk)
              (fun st c tgt => [(snd st, None, BJump (k_unless N C c) (Some tgt) None)])
              (fun st => [(snd st, None, BJump KU (Some ste) None)]) en st bs.
  Proof.
    induction bs as [|[c b] t IH]; intros [|[c' b'] t'] st H; cbn in H; try tauto; cbn.
    destruct H as (-> & (Ha & _ & Hs) & Hrest). rewrite (chain_rel_nil _ _ _ _ _ Hrest), Ha, Hs.
    do 3 f_equal. apply IH. exact Hrest.
  Qed.

  Definition opt_brel (brk : option state) (st : state) (e e' : option (list stmt)) : Prop :=
    match e, e' with
    | None, None => True
    | Some b, Some b' => brel brk st b b'
    | _, _ => False
    end.

  Lemma srel_chain brk st bs bs' els els' :
    chain_rel (brel brk) (is_none els) st bs bs' ->
    opt_brel brk (chain_adv adv (is_none els) st bs) els els' ->
    srel brk st (SChain bs els) (SChain bs' els').
  Proof.
    intros Hc He.
    assert (Hen : is_none els' = is_none els) by (destruct els, els'; cbn in *; tauto).
    pose proof (chain_rel_adv _ _ _ _ _ Hc) as Hadv.
    pose proof (chain_rel_lenv _ _ _ _ _ Hc) as Hlenv.
    pose proof (chain_rel_kept _ _ _ _ _ Hc) as Hkept.
    unfold srel. rewrite !adv_s_chain, !lenv_s_chain, !sem_s_chain. unfold chain_end. rewrite Hen.
    destruct els as [b|], els' as [b'|]; cbn in He; try tauto; cbn [is_none] in *.
    - destruct He as (Ha & (Hl & Hk) & Hs). rewrite Hadv, Ha, Hs.
      rewrite (chain_rel_sem brk false _ _ _ _ Hc). repeat split; auto.
      + apply sub_app; auto.
      + apply kept_app; auto.
    - rewrite Hadv. rewrite (chain_rel_sem brk true _ _ _ _ Hc). repeat split; auto.
      + apply sub_app; auto. constructor.
      + apply kept_app; auto. apply kept_nil.
  Qed.

  (* consistency of the environment with a chain reaches each of its blocks *)
  Lemma consistent_chain en : forall bs st,
    (forall l s, In (l, s) (chain_cat adv lenv (fun _ _ _ => []) (fun _ => []) en st bs) -> E l = Some s) ->
    chain_all (consistent E) en st bs.
  Proof.
    induction bs as [|[c b] t IH]; intros st H; cbn; auto. cbn in H. split.
    - intros l s Hin. apply H. apply in_or_app. now left.
    - apply IH. intros l s Hin. apply H. apply in_or_app. right. unfold chain_next in Hin.
      destruct (is_nil t && en); cbn; exact Hin.
  Qed.

  Lemma consistent_s_chain st bs els :
    consistent_s E st (SChain bs els) ->
    chain_all (consistent E) (is_none els) st bs /\
    match els with None => True | Some b => consistent E (chain_adv adv (is_none els) st bs) b end.
  Proof.
    intros H. unfold consistent_s in H. rewrite lenv_s_chain in H. split.
    - apply consistent_chain. intros l s Hin. apply H. apply in_or_app. now left.
    - destruct els as [b|]; auto. intros l s Hin. apply H. apply in_or_app. now right.
  Qed.
End Rel.

(* ------------------------------------------------------------------------------------------ *)
(* the stream depends on the environment only through the labels the program mentions *)

Lemma sem_s_env_ext N C E E' s : (forall l, In l (refs_s s) -> E l = E' l) ->
  forall brk st, sem_s N C E brk st s = sem_s N C E' brk st s.
Proof.
  induction s using stmt_ind2; intros Hagree brk st; cbn in *; try reflexivity.
  - do 3 f_equal. apply map_ext_in. auto.
  - rewrite Hagree; auto.
  - f_equal. apply cat_l_ext. rewrite Forall_forall in *. intros x Hx st'. apply H; auto.
    intros l Hl. apply Hagree. apply in_flat_map. eauto.
  - f_equal.
    + apply chain_cat_ext; auto. rewrite Forall_forall in *. intros cb Hcb st'.
      apply cat_l_ext. specialize (H cb Hcb). rewrite Forall_forall in *. intros x Hx st''. apply H; auto.
      intros l Hl. apply Hagree. apply in_or_app. left. apply in_flat_map. exists cb. split; auto.
      apply in_flat_map. eauto.
    + destruct els as [b|]; auto. apply cat_l_ext. rewrite Forall_forall in *. intros x Hx st'. apply H0; auto.
      intros l Hl. apply Hagree. apply in_or_app. right. apply in_flat_map. eauto.
Qed.

Lemma sem_env_ext N C E E' p : (forall l, In l (refs p) -> E l = E' l) ->
  forall brk st, sem N C E brk st p = sem N C E' brk st p.
Proof.
  intros H brk st. apply cat_l_ext. rewrite Forall_forall. intros x Hx st'. apply sem_s_env_ext.
  intros l Hl. apply H. apply in_flat_map. eauto.
Qed.

(* ------------------------------------------------------------------------------------------ *)
(* from a pass-level relation to whole-program canonical streams *)

Lemma lookup_some_in (L : list (nat * state)) l s : lookup L l = Some s -> In (l, s) L.
Proof.
  induction L as [|[k v] L IH]; cbn; [discriminate|]. destruct (Nat.eqb l k) eqn:Hlk; intros H.
  - apply Nat.eqb_eq in Hlk; subst. inversion H. now left.
  - right. auto.
Qed.
Lemma lookup_none (L : list (nat * state)) l : lookup L l = None -> ~ In l (map fst L).
Proof.
  induction L as [|[k v] L IH]; cbn; auto. destruct (Nat.eqb l k) eqn:Hlk; [discriminate|].
  intros H [Heq|Hin]; [subst; now rewrite Nat.eqb_refl in Hlk | now apply IH].
Qed.
Lemma lookup_defined (L : list (nat * state)) l : In l (map fst L) -> exists s, lookup L l = Some s.
Proof.
  destruct (lookup L l) eqn:H; eauto. intros Hin. now apply lookup_none in H.
Qed.

Definition defined (p : list stmt) (l : nat) : Prop := In l (map fst (lenv st0 p)).

Theorem pass_canon N C (keep : nat -> Prop) p p' :
  well_labelled p ->
  brel N C (lookup (lenv st0 p)) keep None st0 p p' ->
  (forall l, In l (refs p') -> keep l) ->
  well_labelled p' /\ canon_of N C p' = canon_of N C p /\
  (forall l, In l (refs p') -> lookup (lenv st0 p') l = lookup (lenv st0 p) l).
Proof.
  intros Hwl (Ha & (Hsub & Hkept) & Hsem) Hdef.
  assert (Hwl' : well_labelled p') by (unfold well_labelled; eapply sub_NoDup; [|exact Hwl]; now apply sub_map).
  assert (Hsame : forall l, In l (refs p') -> lookup (lenv st0 p') l = lookup (lenv st0 p) l).
  { intros l Hl. destruct (lookup (lenv st0 p) l) as [s|] eqn:HL.
    + apply lookup_some_in in HL as Hin.
      assert (Hin' : In (l, s) (lenv st0 p')) by (apply Hkept; auto).
      apply lookup_In; auto.
    + destruct (lookup (lenv st0 p') l) as [s'|] eqn:HL'; auto.
      apply lookup_some_in in HL'. eapply sub_in in HL'; [|exact Hsub].
      apply lookup_none in HL. exfalso. apply HL. change l with (fst (l, s')). now apply in_map. }
  repeat split; auto.
  unfold canon_of. rewrite <- Hsem. apply sem_env_ext. exact Hsame.
Qed.
