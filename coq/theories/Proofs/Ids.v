(* Proofs/Ids.v -- C20: the number a name compiles to is the id/index/offset its target has in the output. *)
From Coq Require Import Permutation.
From TV Require Import Base.I32 Model.Ids Gen.Ids.
Open Scope Z_scope.

Definition T := gen_idtable.

(* ------------------------------------------------------------------------------------------ *)
(* generic *)

Lemma omap_nth {A B} (f : A -> outcome B) : forall l r j x,
  omap f l = Ok r -> nth_error l j = Some x -> exists y, f x = Ok y /\ nth_error r j = Some y.
Proof.
  induction l as [|a l IH]; intros r j x H Hn; [destruct j; discriminate|].
  cbn [omap] in H. destruct (f a) as [y| | |] eqn:Fa; try discriminate. cbn [obind] in H.
  destruct (omap f l) as [r'| | |] eqn:Fl; try discriminate. cbn [obind] in H. inversion H; subst r.
  destruct j as [|j]; cbn in *.
  - inversion Hn; subst. eauto.
  - eapply IH; eauto.
Qed.

Lemma omap_length {A B} (f : A -> outcome B) : forall l r, omap f l = Ok r -> length r = length l.
Proof.
  induction l as [|a l IH]; intros r H; cbn [omap] in H; [inversion H; reflexivity|].
  destruct (f a); try discriminate. cbn [obind] in H. destruct (omap f l) eqn:E; try discriminate.
  cbn [obind] in H. inversion H; subst. cbn. f_equal. now apply IH.
Qed.

Definition ok_or_err {A} (x : outcome A) : Prop := match x with Ok _ | Err _ => True | _ => False end.

Lemma omap_ok_or_err {A B} (f : A -> outcome B) l : (forall x, ok_or_err (f x)) -> ok_or_err (omap f l).
Proof.
  intros Hf. induction l as [|a l IH]; cbn [omap]; [exact I|].
  specialize (Hf a). destruct (f a); cbn in *; auto. destruct (omap f l); cbn in *; auto.
Qed.

Lemma existsb_eqb_In x l : existsb (Nat.eqb x) l = true <-> In x l.
Proof.
  rewrite existsb_exists. split.
  - intros (y & Hy & E). apply Nat.eqb_eq in E. now subst.
  - intros H. exists x. split; auto. apply Nat.eqb_refl.
Qed.

Lemma has_dup_NoDup l : has_dup l = false -> NoDup l.
Proof.
  induction l as [|x l IH]; intros H; [constructor|].
  cbn [has_dup] in H. apply orb_false_iff in H. destruct H as [H1 H2]. constructor; auto.
  intros Hin. apply existsb_eqb_In in Hin. congruence.
Qed.

Lemma index_of_nth n : forall l i, index_of n l = Some i -> nth_error l i = Some n.
Proof.
  induction l as [|x l IH]; intros i H; cbn [index_of] in H; [discriminate|].
  destruct (Nat.eqb_spec x n).
  - inversion H; subst. reflexivity.
  - destruct (index_of n l) eqn:E; [|discriminate]. inversion H; subst. cbn. now apply IH.
Qed.

(* ------------------------------------------------------------------------------------------ *)
(* references by position: ANM scripts, old-ECL subs, STD objects *)

Theorem position_value_is_table_index names uses args :
  compile_positions PosIndex names uses = Ok args ->
  forall j u, nth_error uses j = Some u ->
    exists i, nth_error names i = Some u /\ nth_error args j = Some (Z.of_nat i) /\
              forall i', nth_error names i' = Some u -> i' = i.
Proof.
  unfold compile_positions. destruct (has_dup names) eqn:D; [discriminate|]. intros H j u Hu.
  destruct (omap_nth _ _ _ _ _ H Hu) as (y & Fy & Ny). unfold pos_const in Fy.
  destruct (index_of u names) as [i|] eqn:E; [|discriminate]. inversion Fy; subst y.
  pose proof (index_of_nth _ _ _ E) as Ni. exists i. repeat split; auto.
  intros i' Hi'. pose proof (has_dup_NoDup _ D) as ND.
  eapply (proj1 (NoDup_nth_error names) ND); [apply nth_error_Some; congruence|congruence].
Qed.

Theorem missing_or_duplicate_is_error names uses :
  (has_dup names = true \/ exists u, In u uses /\ ~ In u names) ->
  exists e, compile_positions PosIndex names uses = Err e.
Proof.
  unfold compile_positions. intros [D|(u & Hu & Hn)]; [rewrite D; eauto|].
  destruct (has_dup names); [eauto|].
  induction uses as [|x uses IH]; [destruct Hu|]. cbn [omap].
  destruct (pos_const PosIndex names x) as [y| | |] eqn:P.
  - destruct Hu as [->|Hu].
    + unfold pos_const in P. destruct (index_of u names) eqn:E; [|discriminate].
      apply index_of_nth in E. apply nth_error_In in E. contradiction.
    + destruct (IH Hu) as (e & He). rewrite He. cbn. eauto.
  - cbn. eauto.
  - unfold pos_const in P. destruct (index_of x names); discriminate.
  - unfold pos_const in P. destruct (index_of x names); discriminate.
Qed.

(* ------------------------------------------------------------------------------------------ *)
(* ANM sprites: the compile-time constant is the id the writer assigns *)

Lemma u32_succ z : u32 (u32 z + 1) = u32 (z + 1).
Proof. unfold u32, two32. lia. Qed.

Lemma const_vs_written wraps : forall l base k next w,
  u32 (base + k) = next ->
  written_ids wraps 1 next l = Ok w ->
  exists cs, const_ids SeqAdd 0 base k l = Ok cs /\ map (fun p => u32 (snd p)) cs = w /\ map fst cs = map sd_name l.
Proof.
  induction l as [|s l IH]; intros base k next w Hn H.
  - cbn in H. inversion H. exists []. auto.
  - cbn [written_ids] in H. cbn [const_ids seq_apply].
    set (id := match sd_id s with Some e => u32 e | None => next end) in *.
    destruct (negb wraps && (two32 <=? id + 1))%bool; [discriminate|].
    destruct (written_ids wraps 1 (u32 (id + 1)) l) as [r| | |] eqn:W; try discriminate. cbn [obind] in H. inversion H; subst w. clear H.
    destruct (sd_id s) as [e|] eqn:Es.
    + subst id. destruct (IH e (0 + 1) (u32 (u32 e + 1)) r) as (cs & C1 & C2 & C3); auto.
      { rewrite Z.add_0_l. symmetry. apply u32_succ. }
      rewrite C1. cbn [obind]. eexists. split; [reflexivity|]. cbn [map fst snd]. rewrite C2, C3.
      rewrite u32_wrap32, Z.add_0_r. auto.
    + subst id. destruct (IH base (k + 1) (u32 (next + 1)) r) as (cs & C1 & C2 & C3); auto.
      { rewrite Z.add_assoc, <- Hn. symmetry. apply u32_succ. }
      rewrite C1. cbn [obind]. eexists. split; [reflexivity|]. cbn [map fst snd]. rewrite C2, C3.
      rewrite u32_wrap32, Hn. auto.
Qed.

Lemma lookup_const_In n : forall l v, lookup_const n l = Some v -> In (n, v) l.
Proof.
  induction l as [|[k x] l IH]; intros v H; cbn [lookup_const] in H; [discriminate|].
  destruct (Nat.eqb_spec k n).
  - inversion H; subst. now left.
  - right. auto.
Qed.

Lemma consistent_spec l : consistent l = true ->
  forall n v v', In (n, v) l -> In (n, v') l -> v = v'.
Proof.
  unfold consistent. intros H n v v' H1 H2.
  rewrite forallb_forall in H. specialize (H _ H1). rewrite forallb_forall in H. specialize (H _ H2).
  cbn [fst snd] in H. rewrite Nat.eqb_refl in H. cbn in H. now apply Z.eqb_eq.
Qed.

Lemma nth_error_map_inv {A B} (f : A -> B) l i y : nth_error (map f l) i = Some y -> exists x, nth_error l i = Some x /\ f x = y.
Proof. rewrite nth_error_map. destruct (nth_error l i); cbn; intros H; inversion H; eauto. Qed.

(* the value a sprite name has is the id of every sprite of that name in the written table *)
Lemma sprite_lookup_is_table_value wraps decls consts w :
  const_ids SeqAdd 0 0 0 decls = Ok consts -> written_ids wraps 1 0 decls = Ok w -> consistent consts = true ->
  map fst consts = map sd_name decls /\ length w = length decls /\
  forall n v, lookup_const n consts = Some v ->
    (exists i d, nth_error decls i = Some d /\ sd_name d = n) /\
    (forall i d, nth_error decls i = Some d -> sd_name d = n -> nth_error w i = Some (u32 v)).
Proof.
  intros C W Cs. destruct (const_vs_written wraps decls 0 0 0 w eq_refl W) as (cs & C1 & C2 & C3).
  rewrite C in C1. inversion C1; subst cs. clear C1.
  split; [exact C3|]. split. { rewrite <- C2, map_length, <- (map_length fst), C3, map_length. reflexivity. }
  intros n v L. pose proof (lookup_const_In _ _ _ L) as Hin. split.
  - apply In_nth_error in Hin. destruct Hin as (i & Hi).
    assert (Hn : nth_error (map fst consts) i = Some n) by (now rewrite nth_error_map, Hi).
    rewrite C3 in Hn. apply nth_error_map_inv in Hn. destruct Hn as (d & Hd & Hdn). eauto.
  - intros i d Hd Hdn.
    assert (Hn : nth_error (map fst consts) i = Some n) by (rewrite C3, nth_error_map, Hd; cbn; now rewrite Hdn).
    apply nth_error_map_inv in Hn. destruct Hn as ([n' v'] & Hc & Hf). cbn in Hf. subst n'.
    assert (v' = v) by (eapply consistent_spec; eauto using nth_error_In). subst v'.
    rewrite <- C2, nth_error_map, Hc. reflexivity.
Qed.

Lemma lookup_const_none n : forall l, lookup_const n l = None -> ~ In n (map fst l).
Proof.
  induction l as [|[k x] l IH]; cbn [lookup_const map fst]; intros H; [tauto|].
  destruct (Nat.eqb_spec k n); [discriminate|]. intros [E|E]; [congruence|]. now apply IH.
Qed.

Lemma index_of_none n : forall l, index_of n l = None -> ~ In n l.
Proof.
  induction l as [|x l IH]; cbn [index_of]; intros H; [tauto|].
  destruct (Nat.eqb_spec x n); [discriminate|]. destruct (index_of n l); [discriminate|].
  intros [E|E]; [congruence|]. now apply IH.
Qed.

Theorem anm_name_value_is_table_value inp tbl args :
  compile_anm T inp = Ok (tbl, args) ->
  length tbl = length (concat (ai_entries inp)) /\
  (forall j n, nth_error (ai_uses inp) j = Some (USprite n) ->
     exists a, nth_error args j = Some a /\
       (exists i d, nth_error (concat (ai_entries inp)) i = Some d /\ sd_name d = n) /\
       (forall i d, nth_error (concat (ai_entries inp)) i = Some d -> sd_name d = n -> nth_error tbl i = Some a)) /\
  (forall j n, nth_error (ai_uses inp) j = Some (UScript n) ->
     exists i, nth_error (ai_scripts inp) i = Some n /\ nth_error args j = Some (u32 (Z.of_nat i)) /\
               forall i', nth_error (ai_scripts inp) i' = Some n -> i' = i).
Proof.
  unfold compile_anm. intros H. set (decls := concat (ai_entries inp)) in *.
  destruct (has_dup (ai_scripts inp)) eqn:D; [discriminate|].
  change (it_const_restart T && it_writer_carry T)%bool with true in H. cbn [negb] in H.
  change (getz (it_const_base0 T)) with (Ok 0 : outcome Z) in H. change (getz (it_const_k0 T)) with (Ok 0 : outcome Z) in H.
  change (getz (it_writer_next0 T)) with (Ok 0 : outcome Z) in H. change (getz (it_writer_step T)) with (Ok 1 : outcome Z) in H.
  change (it_const_op T) with SeqAdd in H. change (it_script_const T) with PosIndex in H. cbn [obind] in H.
  destruct (const_ids SeqAdd 0 0 0 decls) as [consts| | |] eqn:C; try discriminate. cbn [obind] in H.
  match type of H with (do args <- omap ?f ?l; _) = _ => destruct (omap f l) as [args0| | |] eqn:A; try discriminate end.
  cbn [obind] in H. destruct (consistent consts) eqn:Cs; [|discriminate]. cbn [negb] in H.
  destruct (written_ids (it_writer_wraps T) 1 0 decls) as [w| | |] eqn:W; try discriminate. cbn [obind] in H. inversion H; subst tbl args. clear H.
  destruct (const_vs_written _ decls 0 0 0 w eq_refl W) as (cs & C1 & C2 & C3).
  rewrite C in C1. inversion C1; subst cs. clear C1.
  assert (Lw : length w = length decls).
  { rewrite <- C2, map_length, <- (map_length fst), C3, map_length. reflexivity. }
  split; [exact Lw|]. split.
  - intros j n Hu. destruct (omap_nth _ _ _ _ _ A Hu) as (v & Fv & Nv). cbn in Fv.
    destruct (lookup_const n consts) as [v0|] eqn:L; [|discriminate]. inversion Fv; subst v0. clear Fv.
    exists (u32 v). split; [now rewrite nth_error_map, Nv|].
    pose proof (lookup_const_In _ _ _ L) as Hin. split.
    + apply In_nth_error in Hin. destruct Hin as (i & Hi).
      assert (Hn : nth_error (map fst consts) i = Some n) by (now rewrite nth_error_map, Hi).
      rewrite C3 in Hn. apply nth_error_map_inv in Hn. destruct Hn as (d & Hd & Hdn). eauto.
    + intros i d Hd Hdn.
      assert (Hn : nth_error (map fst consts) i = Some n) by (rewrite C3, nth_error_map, Hd; cbn; now rewrite Hdn).
      apply nth_error_map_inv in Hn. destruct Hn as ([n' v'] & Hc & Hf). cbn in Hf. subst n'.
      assert (v' = v) by (eapply consistent_spec; eauto using nth_error_In). subst v'.
      rewrite <- C2, nth_error_map, Hc. reflexivity.
  - intros j n Hu. destruct (omap_nth _ _ _ _ _ A Hu) as (v & Fv & Nv). cbn in Fv.
    destruct (index_of n (ai_scripts inp)) as [i|] eqn:E; [|discriminate]. inversion Fv; subst v. clear Fv.
    pose proof (index_of_nth _ _ _ E) as Ni. exists i. repeat split; auto.
    + now rewrite nth_error_map, Nv.
    + intros i' Hi'. pose proof (has_dup_NoDup _ D) as ND.
      eapply (proj1 (NoDup_nth_error _) ND); [apply nth_error_Some; congruence|congruence].
Qed.

(* two sprites with one name and different ids, or a name that is not defined, are errors *)
Theorem anm_ambiguous_or_missing_is_error inp consts :
  has_dup (ai_scripts inp) = false ->
  const_ids SeqAdd 0 0 0 (concat (ai_entries inp)) = Ok consts ->
  (consistent consts = false \/ exists n, In (USprite n) (ai_uses inp) /\ lookup_const n consts = None) ->
  exists e, compile_anm T inp = Err e.
Proof.
  intros D C Hbad. unfold compile_anm. rewrite D.
  change (it_const_restart T && it_writer_carry T)%bool with true. cbn [negb].
  change (getz (it_const_base0 T)) with (Ok 0 : outcome Z). change (getz (it_const_k0 T)) with (Ok 0 : outcome Z).
  change (getz (it_writer_next0 T)) with (Ok 0 : outcome Z). change (getz (it_writer_step T)) with (Ok 1 : outcome Z).
  change (it_const_op T) with SeqAdd. change (it_script_const T) with PosIndex. cbn [obind]. rewrite C. cbn [obind].
  match goal with |- exists e, (do args <- omap ?f ?l; _) = _ => destruct (omap f l) as [args0| | |] eqn:A end; cbn [obind]; eauto.
  - destruct Hbad as [Hc|(n & Hin & Hl)]; [rewrite Hc; cbn; eauto|].
    apply In_nth_error in Hin. destruct Hin as (j & Hj).
    destruct (omap_nth _ _ _ _ _ A Hj) as (v & Fv & _). cbn in Fv. rewrite Hl in Fv. discriminate.
  - exfalso. match type of A with omap ?f ?l = _ => assert (X : ok_or_err (omap f l)) end.
    { apply omap_ok_or_err. intros [n|n]; cbn.
      + destruct (lookup_const n consts); cbn; auto.
      + destruct (index_of n (ai_scripts inp)); cbn; auto. }
    rewrite A in X. exact X.
  - exfalso. match type of A with omap ?f ?l = _ => assert (X : ok_or_err (omap f l)) end.
    { apply omap_ok_or_err. intros [n|n]; cbn.
      + destruct (lookup_const n consts); cbn; auto.
      + destruct (index_of n (ai_scripts inp)); cbn; auto. }
    rewrite A in X. exact X.
Qed.

(* defect #18 of DESIGN section 6 (repaired in /repo by b32efe8: wrapping_add): the wrapping writer never fails, so with
   the current table a compile can only fail with a diagnostic *)
Lemma written_ids_wrapping_total : forall l step next, exists w, written_ids true step next l = Ok w.
Proof.
  induction l as [|s l IH]; intros step next; [exists []; reflexivity|].
  cbn [written_ids negb andb].
  destruct (IH step (u32 (match sd_id s with Some e => u32 e | None => next end + step))) as (w & Hw).
  rewrite Hw. cbn. eauto.
Qed.

Theorem sprite_writer_is_total decls : exists w, written_ids (it_writer_wraps T) 1 0 decls = Ok w.
Proof. change (it_writer_wraps T) with true. apply written_ids_wrapping_total. Qed.

(* the positive side of the guard: with explicit ids in [0, B) and B + (number of sprites) below 2^32 the writer
   does not overflow (ids_below_2_31 of DESIGN is the instance B = 2^31) *)
Lemma written_ids_ok B : forall l next c,
  0 <= next <= B + c -> 0 <= c -> B + c + Z.of_nat (length l) < two32 ->
  (forall d e, In d l -> sd_id d = Some e -> 0 <= e < B) ->
  exists w, written_ids false 1 next l = Ok w.
Proof.
  induction l as [|s l IH]; intros next c Hn Hc Hb He; [exists []; reflexivity|].
  cbn [written_ids negb andb]. cbn [length] in Hb. rewrite Nat2Z.inj_succ in Hb.
  set (id := match sd_id s with Some e => u32 e | None => next end).
  assert (Hid : 0 <= id <= B + c).
  { subst id. destruct (sd_id s) as [e|] eqn:Es; [|lia].
    specialize (He s e (or_introl eq_refl) Es). unfold u32, two32 in *. rewrite Z.mod_small; lia. }
  destruct (Z.leb_spec two32 (id + 1)); [lia|].
  assert (Hu : u32 (id + 1) = id + 1) by (unfold u32, two32 in *; rewrite Z.mod_small; lia).
  rewrite Hu. destruct (IH (id + 1) (c + 1)) as (w & Hw); try lia.
  { intros d e Hd. apply He. now right. }
  rewrite Hw. cbn. eauto.
Qed.

Theorem sprite_ids_below_bound_no_overflow B decls :
  0 <= B -> B + Z.of_nat (length decls) < two32 ->
  (forall d e, In d decls -> sd_id d = Some e -> 0 <= e < B) ->
  exists w, written_ids false 1 0 decls = Ok w.
Proof. intros HB Hb He. apply (written_ids_ok B decls 0 0); auto; lia. Qed.

(* ------------------------------------------------------------------------------------------ *)
(* MSG *)

Lemma onat_eqb_eq a b : onat_eqb a b = true -> a = b.
Proof. destruct a, b; cbn; intros H; try discriminate; auto. apply Nat.eqb_eq in H. now subst. Qed.

Lemma tentry_eqb_eq a b : tentry_eqb a b = true -> a = b.
Proof.
  destruct a, b. unfold tentry_eqb. cbn. rewrite andb_true_iff, Z.eqb_eq. intros [H1 H2].
  apply onat_eqb_eq in H1. now subst.
Qed.

Lemma lookup_filter_none {A} (P : nat * A -> bool) i : forall (l : list A) s, (i < s)%nat ->
  lookup_nat i (filter P (combine (seq s (length l)) l)) = None.
Proof.
  induction l as [|x l IH]; intros s Hs; cbn; auto.
  destruct (P (s, x)); cbn [lookup_nat].
  - destruct (Nat.eqb_spec s i); [lia|]. apply IH. lia.
  - apply IH. lia.
Qed.

Lemma densify_filter {A} (P : nat * A -> bool) (dflt : A) :
  (forall i e, P (i, e) = false -> e = dflt) ->
  forall (l : list A) s,
  map (fun i => match lookup_nat i (filter P (combine (seq s (length l)) l)) with Some e => e | None => dflt end)
      (seq s (length l)) = l.
Proof.
  intros HP. induction l as [|x l IH]; intros s; cbn [length seq combine filter map]; auto.
  destruct (P (s, x)) eqn:Px.
  - cbn [lookup_nat]. rewrite Nat.eqb_refl. f_equal.
    rewrite <- (IH (S s)) at 2. apply map_ext_in. intros i Hi. apply in_seq in Hi.
    destruct (Nat.eqb_spec s i); [lia|reflexivity].
  - rewrite (lookup_filter_none P s l (S s)) by lia. f_equal; [symmetry; eauto|].
    apply IH.
Qed.

Theorem densify_sparsify l : densify T (sparsify l) = Ok l.
Proof.
  unfold densify. change (it_msg_densify T) with DensGetOrDefault. cbv iota. f_equal.
  unfold sparsify. cbn [sp_len sp_tbl sp_default].
  set (dflt := match dedup (filter (fun e : tentry => Nat.ltb 1 (count_entry e l)) l) with [e] => e | _ => default_entry end).
  apply (densify_filter _ dflt).
  intros i e H. cbn [fst snd] in H.
  apply orb_false_iff in H. destruct H as [H _]. apply negb_false_iff in H. now apply tentry_eqb_eq.
Qed.

Fixpoint sum_sizes (l : list (nat * Z)) : Z := match l with [] => 0 | (_, s) :: t => s + sum_sizes t end.

Lemma offsets_from_spec n : forall scripts pos o,
  lookup_nat n (offsets_from pos scripts) = Some o ->
  exists k size, nth_error scripts k = Some (n, size) /\ o = pos + sum_sizes (firstn k scripts).
Proof.
  induction scripts as [|[m sz] scripts IH]; intros pos o H; cbn [offsets_from lookup_nat] in H; [discriminate|].
  destruct (Nat.eqb_spec m n).
  - inversion H; subst. exists O, sz. cbn. split; auto. lia.
  - destruct (IH _ _ H) as (k & size & Hk & Ho). exists (S k), size. cbn [nth_error firstn sum_sizes]. split; auto. lia.
Qed.

(* a table entry naming a script holds that script's offset in the written file: the header and table,
   followed by the scripts in file order *)
Theorem msg_name_value_is_table_value hf s scripts tbl :
  compile_msg T hf s scripts = Ok tbl ->
  exists dense, densify T s = Ok dense /\ length tbl = length dense /\
  forall i e, nth_error dense i = Some e ->
    exists o, nth_error tbl i = Some (o, if hf then te_flags e else 0) /\
      match te_script e with
      | None => o = 0
      | Some n => exists k size, nth_error scripts k = Some (n, size) /\
                    o = msg_header_size hf (length dense) + sum_sizes (firstn k scripts) /\
                    forall k' size', nth_error scripts k' = Some (n, size') -> k' = k
      end.
Proof.
  unfold compile_msg. destruct (has_dup (map fst scripts)) eqn:D; [discriminate|].
  change (it_msg_offsets T) with true. cbn [negb]. intros H.
  destruct (densify T s) as [dense| | |] eqn:Dn; try discriminate. cbn [obind] in H.
  exists dense. split; auto. split; [now apply omap_length in H|].
  intros i e Hi. destruct (omap_nth _ _ _ _ _ H Hi) as (y & Fy & Ny). cbn in Fy.
  destruct (te_script e) as [n|] eqn:Es.
  - destruct (lookup_nat n (offsets_from _ scripts)) as [o|] eqn:L; [|discriminate]. inversion Fy; subst y.
    exists o. split; auto. destruct (offsets_from_spec _ _ _ _ L) as (k & size & Hk & Ho).
    exists k, size. repeat split; auto. intros k' size' Hk'.
    pose proof (has_dup_NoDup _ D) as ND.
    eapply (proj1 (NoDup_nth_error _) ND).
    + apply nth_error_Some. rewrite nth_error_map, Hk'. discriminate.
    + now rewrite !nth_error_map, Hk, Hk'.
  - inversion Fy; subst y. exists 0. auto.
Qed.

(* ------------------------------------------------------------------------------------------ *)
(* old-ECL timeline indices *)

Lemma assign_length : forall l a r, assign_timelines a l = Some r -> length r = length l.
Proof.
  induction l as [|[z|] l IH]; intros a r H; cbn [assign_timelines] in H.
  - inversion H. reflexivity.
  - destruct (z <? 0); [discriminate|]. destruct (assign_timelines a l) eqn:E; [|discriminate]. inversion H; subst. cbn. f_equal. eauto.
  - destruct (assign_timelines (S a) l) eqn:E; [|discriminate]. inversion H; subst. cbn. f_equal. eauto.
Qed.

Definition autos_before (l : list (option Z)) (i : nat) : nat :=
  length (filter (fun o : option Z => match o with None => true | Some _ => false end) (firstn i l)).

Lemma assign_spec : forall l a r, assign_timelines a l = Some r ->
  forall i, match nth_error l i with
            | Some (Some z) => 0 <= z /\ nth_error r i = Some (Z.to_nat z)
            | Some None => nth_error r i = Some (a + autos_before l i)%nat
            | None => True
            end.
Proof.
  induction l as [|[z|] l IH]; intros a r H i; cbn [assign_timelines] in H.
  - destruct i; exact I.
  - destruct (Z.ltb_spec z 0); [discriminate|]. destruct (assign_timelines a l) as [r'|] eqn:E; [|discriminate]. inversion H; subst r.
    destruct i as [|i]; cbn [nth_error]; [split; auto|].
    specialize (IH _ _ E i). unfold autos_before in *. cbn [firstn filter]. exact IH.
  - destruct (assign_timelines (S a) l) as [r'|] eqn:E; [|discriminate]. inversion H; subst r.
    destruct i as [|i]; cbn [nth_error]; [unfold autos_before; cbn; f_equal; lia|].
    specialize (IH _ _ E i). unfold autos_before in *. cbn [firstn filter length].
    destruct (nth_error l i) as [[z|]|]; auto. rewrite IH. f_equal. lia.
Qed.

Lemma le_fold_max x l : In x l -> (x <= fold_right Nat.max O l)%nat.
Proof. induction l as [|y l IH]; intros H; [destruct H|]. cbn. destruct H as [->|H]; [lia|]. specialize (IH H). lia. Qed.

Theorem timeline_indices_are_a_permutation numbers idxs :
  timeline_indices T numbers = Ok idxs ->
  Permutation idxs (seq 0 (length numbers)) /\
  forall i, match nth_error numbers i with
            | Some (Some z) => 0 <= z /\ nth_error idxs i = Some (Z.to_nat z)      (* an explicit index is kept *)
            | Some None => nth_error idxs i = Some (autos_before numbers i)        (* automatic ones count 0, 1, 2, .. *)
            | None => True
            end.
Proof.
  unfold timeline_indices. change (it_timeline T) with TlAutoCountsAutos.
  destruct (assign_timelines O numbers) as [r|] eqn:A; [|discriminate].
  destruct (Nat.eqb_spec (length (nodup Nat.eq_dec r)) (match r with [] => O | _ => S (fold_right Nat.max O r) end)) as [E|]; [|discriminate].
  cbn [negb]. destruct (has_dup r) eqn:D; [discriminate|]. intros H; inversion H; subst idxs. clear H.
  pose proof (has_dup_NoDup _ D) as ND. rewrite (nodup_fixed_point Nat.eq_dec ND) in E.
  pose proof (assign_length _ _ _ A) as L. split.
  - rewrite <- L. apply NoDup_Permutation_bis; auto.
    + now rewrite seq_length.
    + intros x Hx. apply in_seq. split; [lia|]. cbn. rewrite E. destruct r as [|y r]; [destruct Hx|].
      pose proof (le_fold_max x (y :: r) Hx). lia.
  - intros i. pose proof (assign_spec _ _ _ A i) as S. destruct (nth_error numbers i) as [[z|]|]; auto.
Qed.
