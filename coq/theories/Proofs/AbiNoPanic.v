(* Proofs/AbiNoPanic.v -- a call accepted by the front end (check_call) never makes encode_args panic,
   on signatures where arguments and parameters are matched up correctly and block sizes are nonzero. *)
From TV Require Import Base.I32 Model.Abi Spec.AbiFit Proofs.AbiBytes Proofs.AbiRoundtrip.
Open Scope Z_scope.

Lemma np_bind {A B} (m : outcome A) (f : A -> outcome B) :
  is_panic m = false -> (forall a, m = Ok a -> is_panic (f a) = false) -> is_panic (obind m f) = false.
Proof. destruct m; cbn [obind is_panic]; intros H1 H2; try reflexivity; try discriminate. now apply H2. Qed.

(* ---- check_call against typed_call ---- *)
Lemma typed_call_spec sig : forall args,
  typed_call sig args = (length (nonpad sig) =? length args)%nat && check_pairs (nonpad sig) args.
Proof.
  induction sig as [|e sig IH]; intro args.
  - destruct args; reflexivity.
  - cbn [typed_call]. unfold nonpad in *. cbn [filter]. destruct (is_pad e); cbn [negb].
    + apply IH.
    + destruct args as [|a args]; [reflexivity|]. cbn [length check_pairs Nat.eqb]. rewrite IH.
      unfold typed_pair.
      destruct (aty_eqb (ty_of_enc e) (ty_of_arg a)), (reg_ok e || negb (a_reg a)), (length (filter (fun e0 => negb (is_pad e0)) sig) =? length args)%nat; reflexivity.
Qed.

Lemma check_pairs_trailing sig : forall args, trailing_pad_only sig = true ->
  length (nonpad sig) = length args -> check_pairs sig args = check_pairs (nonpad sig) args.
Proof.
  induction sig as [|e sig IH]; intros args Ht Hl; [reflexivity|].
  cbn [trailing_pad_only] in Ht. unfold nonpad in *. cbn [filter] in *. destruct (is_pad e) eqn:Ep; cbn [negb] in *.
  - assert (Hn : filter (fun e0 => negb (is_pad e0)) sig = []).
    { clear -Ht. induction sig as [|x sig IH]; [reflexivity|]. cbn [forallb] in Ht. apply andb_true_iff in Ht.
      destruct Ht as [Hx Ht]. cbn [filter]. rewrite Hx. cbn [negb]. now apply IH. }
    rewrite Hn in *. destruct args; [|discriminate]. reflexivity.
  - destruct args as [|a args]; [discriminate|]. cbn [check_pairs length] in *. f_equal. apply IH; [assumption|lia].
Qed.

Lemma check_call_typed cd sig args :
  cd_match_skips_padding cd = true \/ trailing_pad_only sig = true ->
  check_call cd sig args = true -> typed_call sig args = true.
Proof.
  intros Hg Hc. unfold check_call in Hc. apply andb_true_iff in Hc. destruct Hc as [Hl Hp].
  rewrite typed_call_spec. rewrite Hl. cbn [andb]. unfold matched_params in Hp.
  destruct (cd_match_skips_padding cd); [exact Hp|].
  destruct Hg as [Hg|Hg]; [discriminate|]. rewrite <- check_pairs_trailing; [exact Hp|exact Hg|]. now apply Nat.eqb_eq.
Qed.

(* ---- signatures built from mapfile characters use known arms and (when checked) nonzero block sizes ---- *)
Lemma zassoc_in {B} k (l : list (Z * B)) b : zassoc k l = Some b -> In (k, b) l.
Proof.
  induction l as [|[k' b'] l IH]; cbn [zassoc]; [discriminate|].
  destruct (k =? k') eqn:E; intro H; [apply Z.eqb_eq in E; inv H; now left|right; now apply IH].
Qed.

Lemma params_known cd : chars_covered cd = true -> forall ps sig,
  encs_of_params cd ps = Some sig -> forallb (enc_known cd) sig = true.
Proof.
  intros Hc. unfold chars_covered in Hc. apply andb_true_iff in Hc. destruct Hc as [Hc1 Hc2].
  rewrite forallb_forall in Hc1, Hc2.
  induction ps as [|p ps IH]; intros sig H; cbn [encs_of_params] in H; [inv H; reflexivity|].
  destruct (enc_of_param cd p) as [e|] eqn:Ee; [|discriminate].
  destruct (encs_of_params cd ps) as [es|]; [|discriminate]. inv H.
  cbn [forallb]. rewrite (IH es eq_refl), andb_true_r.
  destruct p as [c imm arg0|imm| | |c|sz m v a f]; cbn [enc_of_param] in Ee.
  - destruct (zassoc c (cd_chars cd)) as [[size signed]|] eqn:Ez; [|discriminate].
    destruct (arg0 && negb ((1 <=? size) && (size <=? cd_arg0_maxsize cd))); [discriminate|]. inv Ee.
    cbn [enc_known]. destruct arg0; [reflexivity|]. apply zassoc_in in Ez. apply (Hc1 _ Ez).
  - inv Ee. reflexivity.
  - inv Ee. reflexivity.
  - inv Ee. reflexivity.
  - destruct (zassoc c (cd_pad_chars cd)) as [s|] eqn:Ez; [|discriminate]. inv Ee.
    cbn [enc_known]. apply zassoc_in in Ez. apply (Hc2 _ Ez).
  - destruct sz as [len nl|bs|bs];
      [destruct (cd_nulless_furibug_rejected cd && nl && f)|destruct (cd_bs_checked cd && (bs =? 0))|destruct (cd_bs_checked cd && (bs =? 0))];
      try discriminate; inv Ee; reflexivity.
Qed.

Lemma params_bs_ok cd : cd_bs_checked cd = true -> forall ps sig,
  encs_of_params cd ps = Some sig -> forallb bs_ok sig = true.
Proof.
  intros Hb. induction ps as [|p ps IH]; intros sig H; cbn [encs_of_params] in H; [inv H; reflexivity|].
  destruct (enc_of_param cd p) as [e|] eqn:Ee; [|discriminate].
  destruct (encs_of_params cd ps) as [es|]; [|discriminate]. inv H.
  cbn [forallb]. rewrite (IH es eq_refl), andb_true_r.
  destruct p as [c imm arg0|imm| | |c|sz m v a f]; cbn [enc_of_param] in Ee.
  - destruct (zassoc c (cd_chars cd)) as [[size signed]|]; [|discriminate].
    destruct (arg0 && negb ((1 <=? size) && (size <=? cd_arg0_maxsize cd))); [discriminate|]. inv Ee. reflexivity.
  - inv Ee. reflexivity.
  - inv Ee. reflexivity.
  - inv Ee. reflexivity.
  - destruct (zassoc c (cd_pad_chars cd)); [|discriminate]. inv Ee. reflexivity.
  - rewrite Hb in Ee. destruct sz as [len nl|bs|bs]; cbn [andb] in Ee.
    + destruct (cd_nulless_furibug_rejected cd && nl && f); [discriminate|]. inv Ee. reflexivity.
    + destruct (bs =? 0) eqn:E0; [discriminate|]. inv Ee. cbn [bs_ok]. now rewrite E0.
    + destruct (bs =? 0) eqn:E0; [discriminate|]. inv Ee. cbn [bs_ok]. now rewrite E0.
Qed.

Lemma params_str_ok cd : cd_bs_checked cd = true -> cd_nulless_furibug_rejected cd = true -> forall ps sig,
  params_nonneg ps = true -> encs_of_params cd ps = Some sig -> forallb str_ok sig = true.
Proof.
  intros Hb Hnf. induction ps as [|p ps IH]; intros sig Hnn H; cbn [encs_of_params] in H; [inv H; reflexivity|].
  cbn [params_nonneg forallb] in Hnn. apply andb_true_iff in Hnn. destruct Hnn as [Hp Hnn].
  destruct (enc_of_param cd p) as [e|] eqn:Ee; [|discriminate].
  destruct (encs_of_params cd ps) as [es|]; [|discriminate]. inv H.
  cbn [forallb]. rewrite (IH es Hnn eq_refl), andb_true_r.
  destruct p as [c imm arg0|imm| | |c|sz m v a f]; cbn [enc_of_param] in Ee.
  - destruct (zassoc c (cd_chars cd)) as [[size signed]|]; [|discriminate].
    destruct (arg0 && negb ((1 <=? size) && (size <=? cd_arg0_maxsize cd))); [discriminate|]. inv Ee. reflexivity.
  - inv Ee. reflexivity.
  - inv Ee. reflexivity.
  - inv Ee. reflexivity.
  - destruct (zassoc c (cd_pad_chars cd)); [|discriminate]. inv Ee. reflexivity.
  - rewrite Hb, Hnf in Ee. destruct sz as [len nl|bs|bs]; cbn [andb] in Ee.
    + destruct (nl && f) eqn:E; [discriminate|]. inv Ee. cbn [str_ok]. now rewrite E.
    + destruct (bs =? 0) eqn:E0; [discriminate|]. inv Ee. cbn [str_ok]. apply Z.leb_le in Hp. apply Z.eqb_neq in E0. apply Z.ltb_lt. lia.
    + destruct (bs =? 0) eqn:E0; [discriminate|]. inv Ee. cbn [str_ok]. apply Z.leb_le in Hp. apply Z.eqb_neq in E0. apply Z.ltb_lt. lia.
Qed.

Section NoPanic.
Variable sjis_enc : list Z -> option bytes.
Variable cd : codec.
Hypothesis Hcd : codec_ok cd = true.

Lemma write_int_np n sg c v : cast_rec c = true -> is_panic (write_int n sg c v) = false.
Proof. destruct c; cbn [cast_rec write_int]; intro H; try reflexivity; try discriminate. now destruct (in_range n sg v). Qed.

Lemma codec_casts : (forall arm size sg, find_enc_arm cd size sg = Some arm -> cast_rec (ea_cast arm) = true)
  /\ (let '(_, _, c) := cd_enc_jump cd in cast_rec c = true) /\ (let '(_, _, c) := cd_arg0 cd in cast_rec c = true).
Proof.
  pose proof Hcd as H0. unfold codec_ok in H0. repeat (apply andb_split in H0; destruct H0 as [H0 ?]).
  split; [|split].
  - intros arm size sg Hf. unfold find_enc_arm in Hf. apply find_some in Hf. destruct Hf as [Hin _].
    rewrite forallb_forall in H0. specialize (H0 _ Hin). unfold enc_arm_ok in H0.
    destruct (find_dec_arm cd (ea_size arm) (ea_signed arm)); [|discriminate].
    repeat (apply andb_split in H0; destruct H0 as [H0 ?]). assumption.
  - destruct (cd_enc_jump cd) as [[n sg] c]. destruct (cd_dec_jump cd) as [[len n'] sg'].
    repeat match goal with H : _ && _ = true |- _ => apply andb_split in H; destruct H end. assumption.
  - destruct (cd_arg0 cd) as [[n sg] c].
    repeat match goal with H : _ && _ = true |- _ => apply andb_split in H; destruct H end. assumption.
Qed.

Lemma string_field_np sz m v a fb s st : bs_ok (EStr sz m v a fb) = true ->
  is_panic (string_field sjis_enc cd sz m v a fb s st) = false.
Proof.
  intro Hb. unfold string_field. destruct (sjis_enc s) as [e0|]; [|reflexivity].
  assert (Hgen : forall e2 (st1 : option bytes),
    is_panic (do e3 <- match sz with
                       | SBlock bs | SPascal bs => if bs =? 0 then Panic P_DIV0 else if zlen e2 mod bs =? 0 then Ok e2 else null_pad e2 bs
                       | SFixed len _ => if len <? zlen e2 then Err E_TOOLARGE else Ok (resize e2 len)
                       end;
              let e4 := apply_mask e3 m v a in
              let st2 := if fb && match s with 124 :: _ => true | _ => false end then Some e4 else st1 in
              let pre := match sz with SPascal _ => le_bytes (cd_pascal_prefix cd) (zlen e4) | _ => [] end in
              Ok (pre ++ e4, st2)) = false).
  { intros e2 st1. apply np_bind; [|intros; reflexivity].
    destruct sz as [len nl|bs|bs]; cbn [bs_ok] in Hb.
    - destruct (len <? zlen e2); reflexivity.
    - apply negb_true_iff in Hb. rewrite Hb. destruct (zlen e2 mod bs =? 0); [reflexivity|].
      unfold null_pad. rewrite Hb. reflexivity.
    - apply negb_true_iff in Hb. rewrite Hb. destruct (zlen e2 mod bs =? 0); [reflexivity|].
      unfold null_pad. rewrite Hb. reflexivity. }
  destruct fb; [destruct st|]; apply Hgen.
Qed.

Lemma encode_field_np e a st : is_pad e = false -> is_arg0 e = false -> bs_ok e = true -> enc_known cd e = true ->
  typed_pair e a = true -> is_panic (encode_field sjis_enc cd e a st) = false.
Proof.
  intros Hp Ha Hb Hk Ht. destruct codec_casts as [C1 [C2 C3]].
  unfold typed_pair in Ht. apply andb_true_iff in Ht. destruct Ht as [Hty _].
  destruct e as [size signed imm arg0| | |size|imm|sz m v acc fb]; try discriminate;
    destruct a as [[z|bits|s] reg]; cbn [ty_of_enc ty_of_arg a_val aty_eqb] in Hty; try discriminate.
  - destruct arg0; [discriminate|]. cbn [encode_field enc_known] in *.
    destruct (find_enc_arm cd size signed) as [arm|] eqn:Ea; [|discriminate].
    cbn [expect_int a_val obind]. apply np_bind; [apply write_int_np; eapply C1; eassumption|intros; reflexivity].
  - cbn [encode_field]. destruct (cd_enc_jump cd) as [[n sg] c]. cbn [expect_int a_val obind].
    apply np_bind; [now apply write_int_np|intros; reflexivity].
  - cbn [encode_field]. destruct (cd_enc_jump cd) as [[n sg] c]. cbn [expect_int a_val obind].
    apply np_bind; [now apply write_int_np|intros; reflexivity].
  - reflexivity.
  - cbn [encode_field expect_string a_val obind]. now apply string_field_np.
Qed.

Lemma typed_call_length sig : forall args, typed_call sig args = true -> (length args <= length sig)%nat.
Proof.
  induction sig as [|e sig IH]; intros args H; cbn [typed_call] in H.
  - destruct args; [cbn; lia|discriminate].
  - destruct (is_pad e).
    + specialize (IH _ H). cbn [length]. lia.
    + destruct args as [|a args]; [discriminate|]. apply andb_true_iff in H. destruct H as [_ H].
      specialize (IH _ H). cbn [length]. lia.
Qed.

Lemma enc_loop_np : forall sig args bit st,
  existsb is_arg0 sig = false -> forallb bs_ok sig = true -> forallb (enc_known cd) sig = true ->
  typed_call sig args = true -> is_panic (enc_loop sjis_enc cd sig args bit st) = false.
Proof.
  induction sig as [|e sig' IH]; intros args bit st Ha Hb Hk Ht; [reflexivity|].
  cbn [existsb] in Ha. apply orb_false_iff in Ha. destruct Ha as [Ha Ha'].
  cbn [forallb] in Hb, Hk. apply andb_true_iff in Hb, Hk. destruct Hb as [Hb Hb']. destruct Hk as [Hk Hk'].
  cbn [typed_call] in Ht. destruct (is_pad e) eqn:Ep.
  - destruct e as [| | |size| |]; try discriminate. cbn [enc_loop]. cbn [enc_known] in Hk.
    destruct (zassoc size (cd_enc_pad cd)); [|discriminate].
    apply np_bind; [now apply IH|]. intros [[[[b m] w] st'] bit'] _. reflexivity.
  - destruct args as [|a args']; [discriminate|]. apply andb_true_iff in Ht. destruct Ht as [Hta Ht].
    rewrite (enc_loop_nonpad sjis_enc cd) by assumption.
    destruct (cd_mask_overflow_checked cd && a_reg a && contributes cd e && (bit =? 0)); [reflexivity|].
    cbv zeta.
    destruct (contributes cd e); [destruct (always_imm cd e && negb ((if a_reg a then bit else 0) =? 0))|];
      (apply np_bind; [now apply encode_field_np|]; intros [b0 st1] _;
       apply np_bind; [now apply IH|]; intros [[[[b m] w] st'] bit'] _; reflexivity).
Qed.

(* C12: an accepted call never makes encode_args panic *)
Theorem encode_no_panic : forall has_regs sig args st,
  existsb is_arg0 (tl sig) = false -> forallb bs_ok sig = true -> forallb (enc_known cd) sig = true ->
  typed_call sig args = true -> is_panic (encode_args sjis_enc cd has_regs sig args st) = false.
Proof.
  intros has_regs sig args st Ha Hb Hk Ht. destruct codec_casts as [_ [_ C3]].
  unfold encode_args. destruct (negb has_regs && existsb a_reg args); [reflexivity|].
  destruct sig as [|e sig1].
  - cbn [obind]. destruct args; [|discriminate]. cbn. reflexivity.
  - cbn [tl] in Ha. cbn [forallb] in Hb, Hk. apply andb_true_iff in Hb, Hk. destruct Hb as [Hb Hb']. destruct Hk as [Hk Hk'].
    destruct (is_arg0 e) eqn:Ea0.
    + destruct e as [size signed imm arg0| | | | |]; try discriminate. destruct arg0; [|discriminate].
      cbn [typed_call is_pad] in Ht. destruct args as [|a args1]; [discriminate|].
      apply andb_true_iff in Ht. destruct Ht as [Hta Ht1].
      unfold typed_pair in Hta. apply andb_true_iff in Hta. destruct Hta as [Hty Hreg].
      cbn [reg_ok orb] in Hreg. apply negb_true_iff in Hreg. rewrite Hreg.
      destruct (cd_arg0 cd) as [[n sgn] c].
      destruct a as [[z|bits|s] reg]; cbn [ty_of_enc ty_of_arg a_val aty_eqb] in Hty; try discriminate.
      cbn [expect_int a_val obind].
      apply np_bind.
      * apply np_bind; [now apply write_int_np|intros; reflexivity].
      * intros [[sg1 ar1] ex] Hh. apply obind_ok in Hh. destruct Hh as [bv [_ Hh]]. inv Hh.
        pose proof (typed_call_length _ _ Ht1) as Hlen.
        match goal with |- context [zlen ?s <? zlen ?a] => destruct (zlen s <? zlen a) eqn:El end;
          [apply Z.ltb_lt in El; unfold zlen in El; lia|].
        apply np_bind; [now apply enc_loop_np|]. intros [[[[b m] w] st'] bit'] _. reflexivity.
    + assert (Hh : (match e :: sig1 with
                    | EInt _ _ _ true :: sig' =>
                        match args with
                        | [] => Panic P_EXPECT
                        | a :: args' =>
                            if a_reg a then Panic P_ASSERT
                            else let '(n, sg, c) := cd_arg0 cd in
                                 do v <- expect_int a; do b <- write_int n sg c v;
                                 Ok (sig', args', Some (interp n sg (le_val b)))
                        end
                    | _ => Ok (e :: sig1, args, None)
                    end) = Ok (e :: sig1, args, @None Z)).
      { destruct e as [size signed imm arg0| | | | |]; try reflexivity. destruct arg0; [discriminate|reflexivity]. }
      rewrite Hh. cbn [obind].
      pose proof (typed_call_length _ _ Ht) as Hlen.
      destruct (zlen (e :: sig1) <? zlen args) eqn:El; [apply Z.ltb_lt in El; unfold zlen in El; lia|].
      apply np_bind.
      * apply enc_loop_np; try assumption.
        { cbn [existsb]. now rewrite Ea0. } { cbn [forallb]. now rewrite Hb. } { cbn [forallb]. now rewrite Hk. }
      * intros [[[[b m] w] st'] bit'] _. reflexivity.
Qed.

End NoPanic.
