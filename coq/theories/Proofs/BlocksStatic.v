(* Proofs/BlocksStatic.v -- static facts about desugaring: statement times are preserved,
   gensym numbers grow, generated labels are unique. *)
From TV Require Import Base.I32 Model.Blocks.
Open Scope Z_scope.

Section Static.
  Variable L : lang.
  Variable fl : flavour.

  Scheme stmt_mut := Induction for stmt Sort Prop
  with block_mut := Induction for block Sort Prop
  with chain_mut := Induction for chain Sort Prop.
  Combined Scheme sbc_ind from stmt_mut, block_mut, chain_mut.

  (* unfolding equations (cbn does not refold mutual fixpoints) *)
  Lemma desugar_SAtom a g : desugar_stmt L fl (SAtom a) g = ([FAtom a], g).
  Proof. reflexivity. Qed.
  Lemma desugar_SBreak id g : desugar_stmt L fl (SBreak id) g = ([FGoto (LLoopEnd id)], g).
  Proof. reflexivity. Qed.
  Lemma desugar_SCondBreak k c id g :
    desugar_stmt L fl (SCondBreak k c id) g = ([FCondGoto k (CExpr c) (LLoopEnd id)], g).
  Proof. reflexivity. Qed.
  Lemma desugar_SBlock b g : desugar_stmt L fl (SBlock b) g = desugar_block L fl b g.
  Proof. reflexivity. Qed.
  Lemma desugar_SCond k c b rest g :
    desugar_stmt L fl (SCond k c b rest) g =
    (FCondGoto (negate k) (CExpr c) (LCond (S g)) :: fst (desugar_block L fl b (S (S g)))
       ++ jump_over L (LCondEnd g) rest ++ [FLabel (LCond (S g))]
       ++ fst (desugar_chain L fl (LCondEnd g) rest (snd (desugar_block L fl b (S (S g)))))
       ++ [FLabel (LCondEnd g)],
     snd (desugar_chain L fl (LCondEnd g) rest (snd (desugar_block L fl b (S (S g)))))).
  Proof. reflexivity. Qed.
  Lemma desugar_SLoop id b g :
    desugar_stmt L fl (SLoop id b) g =
    (FLabel (LLoop g) :: fst (desugar_block L fl b (S g)) ++ [FGoto (LLoop g); FLabel (LLoopEnd id)],
     snd (desugar_block L fl b (S g))).
  Proof. reflexivity. Qed.
  Lemma desugar_SDoWhile id c b g :
    desugar_stmt L fl (SDoWhile id c b) g =
    (FLabel (LLoop g) :: fst (desugar_block L fl b (S g))
       ++ [FCondGoto KIf (CExpr c) (LLoop g); FLabel (LLoopEnd id)],
     snd (desugar_block L fl b (S g))).
  Proof. reflexivity. Qed.
  Lemma desugar_SWhile id c b g :
    desugar_stmt L fl (SWhile id c b) g =
    (FCondGoto KUnless (CExpr c) (LCond g) :: FLabel (LLoop (S g)) :: fst (desugar_block L fl b (S (S g)))
       ++ [FCondGoto KIf (CExpr c) (LLoop (S g)); FLabel (LCond g); FLabel (LLoopEnd id)],
     snd (desugar_block L fl b (S (S g)))).
  Proof. reflexivity. Qed.
  Lemma desugar_STimesN id count b g :
    desugar_stmt L fl (STimes id None count b) g =
    (FDeclTemp g :: FSet (FTemp g) count
       :: (if zero_test (const_int L count) then [FCondGoto KIf (CIsZero (FTemp g)) (LTimesZero (S g))] else [])
       ++ FLabel (LLoop (S (S g))) :: fst (desugar_block L fl b (S (S (S g))))
       ++ [FCondGoto KIf (count_cond L fl (FTemp g)) (LLoop (S (S g))); FLabel (LTimesZero (S g));
           FScopeEndTemp g; FLabel (LLoopEnd id)],
     snd (desugar_block L fl b (S (S (S g))))).
  Proof. reflexivity. Qed.
  Lemma desugar_STimesC id u count b g :
    desugar_stmt L fl (STimes id (Some u) count b) g =
    (FSet (FUser u) count
       :: (if zero_test (const_int L count) then [FCondGoto KIf (CIsZero (FUser u)) (LTimesZero g)] else [])
       ++ FLabel (LLoop (S g)) :: fst (desugar_block L fl b (S (S g)))
       ++ [FCondGoto KIf (count_cond L fl (FUser u)) (LLoop (S g)); FLabel (LTimesZero g);
           FLabel (LLoopEnd id)],
     snd (desugar_block L fl b (S (S g)))).
  Proof. reflexivity. Qed.
  Lemma desugar_BNil g : desugar_stmts L fl BNil g = ([], g).
  Proof. reflexivity. Qed.
  Lemma desugar_BCons s b g :
    desugar_stmts L fl (BCons s b) g =
    (fst (desugar_stmt L fl s g) ++ fst (desugar_stmts L fl b (snd (desugar_stmt L fl s g))),
     snd (desugar_stmts L fl b (snd (desugar_stmt L fl s g)))).
  Proof. reflexivity. Qed.
  Lemma desugar_CEnd ve g : desugar_chain L fl ve CEnd g = ([], g).
  Proof. reflexivity. Qed.
  Lemma desugar_CElse ve b g : desugar_chain L fl ve (CElse b) g = desugar_block L fl b g.
  Proof. reflexivity. Qed.
  Lemma desugar_CElif ve k c b rest g :
    desugar_chain L fl ve (CElif k c b rest) g =
    (FCondGoto (negate k) (CExpr c) (LCond g) :: fst (desugar_block L fl b (S g))
       ++ jump_over L ve rest ++ [FLabel (LCond g)]
       ++ fst (desugar_chain L fl ve rest (snd (desugar_block L fl b (S g)))),
     snd (desugar_chain L fl ve rest (snd (desugar_block L fl b (S g))))).
  Proof. reflexivity. Qed.
  Lemma desugar_block_eq b g :
    desugar_block L fl b g = (fst (desugar_stmts L fl b g) ++ scope_ends L b, snd (desugar_stmts L fl b g)).
  Proof. reflexivity. Qed.

  Lemma code_after_app (c1 c2 : list (finstr L)) t :
    code_after L (c1 ++ c2) t = code_after L c2 (code_after L c1 t).
  Proof. revert t; induction c1; intros; cbn [app code_after]; auto. Qed.

  Lemma scope_ends_after (b : block L) t : code_after L (scope_ends L b) t = t.
  Proof.
    revert t; induction b as [|s b IH]; intros; cbn [scope_ends code_after]; auto.
    destruct s; auto. destruct a; auto.
    rewrite code_after_app, IH. clear. revert t; induction ds; intros; cbn; auto.
  Qed.

  Lemma jump_over_after ve (rest : chain L) t : code_after L (jump_over L ve rest) t = t.
  Proof. destruct rest; reflexivity. Qed.

  Ltac ca := repeat (rewrite ?code_after_app, ?scope_ends_after, ?jump_over_after; cbn [code_after finstr_time fst snd with_scope app]).

  Lemma times_preserved_all :
    (forall s g t, code_after L (fst (desugar_stmt L fl s g)) t = stmt_after L s t) /\
    (forall b g t, code_after L (fst (desugar_stmts L fl b g)) t = block_after L b t) /\
    (forall c ve g t, code_after L (fst (desugar_chain L fl ve c g)) t = chain_after L c t).
  Proof.
    apply sbc_ind; intros; try destruct clobber;
      cbn [desugar_stmt desugar_stmts desugar_chain stmt_after block_after chain_after];
      try destruct (zero_test (const_int L count)); ca; rewrite ?H; ca; rewrite ?H0; ca; reflexivity.
  Qed.

  Lemma times_preserved_block b g t : code_after L (fst (desugar_block L fl b g)) t = block_after L b t.
  Proof.
    rewrite desugar_block_eq. cbn [fst]. rewrite code_after_app, scope_ends_after.
    apply times_preserved_all.
  Qed.

  Lemma desugar_block_snd b g : snd (desugar_block L fl b g) = snd (desugar_stmts L fl b g).
  Proof. reflexivity. Qed.

  (* gensym numbers only grow *)
  Lemma gensym_mono :
    (forall s g, (g <= snd (desugar_stmt L fl s g))%nat) /\
    (forall b g, (g <= snd (desugar_stmts L fl b g))%nat) /\
    (forall c ve g, (g <= snd (desugar_chain L fl ve c g))%nat).
  Proof.
    apply sbc_ind; intros; try destruct clobber;
      rewrite ?desugar_SAtom, ?desugar_SBreak, ?desugar_SCondBreak, ?desugar_SBlock, ?desugar_SCond,
        ?desugar_SLoop, ?desugar_SDoWhile, ?desugar_SWhile, ?desugar_STimesN, ?desugar_STimesC,
        ?desugar_BNil, ?desugar_BCons, ?desugar_CEnd, ?desugar_CElse, ?desugar_CElif;
      cbn [fst snd]; rewrite ?desugar_block_snd; auto.
    - pose proof (H (S (S g))). pose proof (H0 (LCondEnd g) (snd (desugar_stmts L fl b (S (S g))))). lia.
    - pose proof (H (S g)). lia.
    - pose proof (H (S (S g))). lia.
    - pose proof (H (S g)). lia.
    - pose proof (H (S (S g))). lia.
    - pose proof (H (S (S (S g)))). lia.
    - pose proof (H g). pose proof (H0 (snd (desugar_stmt L fl s g))). lia.
    - pose proof (H (S g)). pose proof (H0 ve (snd (desugar_stmts L fl b (S g)))). lia.
  Qed.
End Static.

Ltac dsg :=
  rewrite ?desugar_SAtom, ?desugar_SBreak, ?desugar_SCondBreak, ?desugar_SBlock, ?desugar_SCond,
    ?desugar_SLoop, ?desugar_SDoWhile, ?desugar_SWhile, ?desugar_STimesN, ?desugar_STimesC,
    ?desugar_BNil, ?desugar_BCons, ?desugar_CEnd, ?desugar_CElse, ?desugar_CElif.
