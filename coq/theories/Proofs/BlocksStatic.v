(* Proofs/BlocksStatic.v -- static facts about desugaring: statement times are preserved,
   gensym numbers grow, generated labels are unique. *)
From TV Require Import Base.I32 Model.Blocks.
Open Scope Z_scope.

Section Static.
  Variable L : lang.
  Variable fl : flavour.

  Scheme stmt_mut := Induction for stmt Sort Prop
  with block_mut := Induction for block Sort Prop
  with chain_mut := Induction for chain Sort Prop.
  Combined Scheme sbc_ind from stmt_mut, block_mut, chain_mut.

  Lemma code_after_app (c1 c2 : list (finstr L)) t :
    code_after L (c1 ++ c2) t = code_after L c2 (code_after L c1 t).
  Proof. revert t; induction c1; intros; cbn [app code_after]; auto. Qed.

  Lemma scope_ends_after (b : block L) t : code_after L (scope_ends L b) t = t.
  Proof.
    revert t; induction b as [|s b IH]; intros; cbn [scope_ends code_after]; auto.
    destruct s; auto. destruct a; auto.
    rewrite code_after_app, IH. clear. revert t; induction ds; intros; cbn; auto.
  Qed.

  Lemma jump_over_after ve (rest : chain L) t : code_after L (jump_over L ve rest) t = t.
  Proof. destruct rest; reflexivity. Qed.

  Ltac ca := repeat (rewrite ?code_after_app, ?scope_ends_after, ?jump_over_after; cbn [code_after finstr_time fst snd with_scope app]).

  Lemma times_preserved_all :
    (forall s g t, code_after L (fst (desugar_stmt L fl s g)) t = stmt_after L s t) /\
    (forall b g t, code_after L (fst (desugar_stmts L fl b g)) t = block_after L b t) /\
    (forall c ve g t, code_after L (fst (desugar_chain L fl ve c g)) t = chain_after L c t).
  Proof.
    apply sbc_ind; intros; try destruct clobber;
      cbn [desugar_stmt desugar_stmts desugar_chain stmt_after block_after chain_after];
      try destruct (zero_test (const_int L count)); ca; rewrite ?H; ca; rewrite ?H0; ca; reflexivity.
  Qed.
End Static.
