(* Proofs/BlocksStatic.v -- static facts about desugaring: statement times are preserved,
   gensym numbers grow, generated labels are unique. *)
From TV Require Import Base.I32 Model.Blocks.
Open Scope Z_scope.

Section Static.
  Variable L : lang.
  Variable fl : flavour.

  Scheme stmt_mut := Induction for stmt Sort Prop
  with block_mut := Induction for block Sort Prop
  with chain_mut := Induction for chain Sort Prop.
  Combined Scheme sbc_ind from stmt_mut, block_mut, chain_mut.

  (* unfolding equations (cbn does not refold mutual fixpoints) *)
  Lemma desugar_SAtom a g : desugar_stmt L fl (SAtom a) g = ([FAtom a], g).
  Proof. reflexivity. Qed.
  Lemma desugar_SBreak id g : desugar_stmt L fl (SBreak id) g = ([FGoto (LLoopEnd id)], g).
  Proof. reflexivity. Qed.
  Lemma desugar_SCondBreak k c id g :
    desugar_stmt L fl (SCondBreak k c id) g = ([FCondGoto k (CExpr c) (LLoopEnd id)], g).
  Proof. reflexivity. Qed.
  Lemma desugar_SBlock b g : desugar_stmt L fl (SBlock b) g = desugar_block L fl b g.
  Proof. reflexivity. Qed.
  Lemma desugar_SCond k c b rest g :
    desugar_stmt L fl (SCond k c b rest) g =
    (FCondGoto (negate k) (CExpr c) (LCond (S g)) :: fst (desugar_block L fl b (S (S g)))
       ++ jump_over L (LCondEnd g) rest ++ [FLabel (LCond (S g))]
       ++ fst (desugar_chain L fl (LCondEnd g) rest (snd (desugar_block L fl b (S (S g)))))
       ++ [FLabel (LCondEnd g)],
     snd (desugar_chain L fl (LCondEnd g) rest (snd (desugar_block L fl b (S (S g)))))).
  Proof. reflexivity. Qed.
  Lemma desugar_SLoop id b g :
    desugar_stmt L fl (SLoop id b) g =
    (FLabel (LLoop g) :: fst (desugar_block L fl b (S g)) ++ [FGoto (LLoop g); FLabel (LLoopEnd id)],
     snd (desugar_block L fl b (S g))).
  Proof. reflexivity. Qed.
  Lemma desugar_SDoWhile id c b g :
    desugar_stmt L fl (SDoWhile id c b) g =
    (FLabel (LLoop g) :: fst (desugar_block L fl b (S g))
       ++ [FCondGoto KIf (CExpr c) (LLoop g); FLabel (LLoopEnd id)],
     snd (desugar_block L fl b (S g))).
  Proof. reflexivity. Qed.
  Lemma desugar_SWhile id c b g :
    desugar_stmt L fl (SWhile id c b) g =
    (FCondGoto KUnless (CExpr c) (LCond g) :: FLabel (LLoop (S g)) :: fst (desugar_block L fl b (S (S g)))
       ++ [FCondGoto KIf (CExpr c) (LLoop (S g)); FLabel (LCond g); FLabel (LLoopEnd id)],
     snd (desugar_block L fl b (S (S g)))).
  Proof. reflexivity. Qed.
  Lemma desugar_STimesN id count b g :
    desugar_stmt L fl (STimes id None count b) g =
    (FDeclTemp g :: FSet (FTemp g) count
       :: (if zero_test (const_int L count) then [FCondGoto KIf (CIsZero (FTemp g)) (LTimesZero (S g))] else [])
       ++ FLabel (LLoop (S (S g))) :: fst (desugar_block L fl b (S (S (S g))))
       ++ [FCondGoto KIf (count_cond L fl (FTemp g)) (LLoop (S (S g))); FLabel (LTimesZero (S g));
           FScopeEndTemp g; FLabel (LLoopEnd id)],
     snd (desugar_block L fl b (S (S (S g))))).
  Proof. reflexivity. Qed.
  Lemma desugar_STimesC id u count b g :
    desugar_stmt L fl (STimes id (Some u) count b) g =
    (FSet (FUser u) count
       :: (if zero_test (const_int L count) then [FCondGoto KIf (CIsZero (FUser u)) (LTimesZero g)] else [])
       ++ FLabel (LLoop (S g)) :: fst (desugar_block L fl b (S (S g)))
       ++ [FCondGoto KIf (count_cond L fl (FUser u)) (LLoop (S g)); FLabel (LTimesZero g);
           FLabel (LLoopEnd id)],
     snd (desugar_block L fl b (S (S g)))).
  Proof. reflexivity. Qed.
  Lemma desugar_BNil g : desugar_stmts L fl BNil g = ([], g).
  Proof. reflexivity. Qed.
  Lemma desugar_BCons s b g :
    desugar_stmts L fl (BCons s b) g =
    (fst (desugar_stmt L fl s g) ++ fst (desugar_stmts L fl b (snd (desugar_stmt L fl s g))),
     snd (desugar_stmts L fl b (snd (desugar_stmt L fl s g)))).
  Proof. reflexivity. Qed.
  Lemma desugar_CEnd ve g : desugar_chain L fl ve CEnd g = ([], g).
  Proof. reflexivity. Qed.
  Lemma desugar_CElse ve b g : desugar_chain L fl ve (CElse b) g = desugar_block L fl b g.
  Proof. reflexivity. Qed.
  Lemma desugar_CElif ve k c b rest g :
    desugar_chain L fl ve (CElif k c b rest) g =
    (FCondGoto (negate k) (CExpr c) (LCond g) :: fst (desugar_block L fl b (S g))
       ++ jump_over L ve rest ++ [FLabel (LCond g)]
       ++ fst (desugar_chain L fl ve rest (snd (desugar_block L fl b (S g)))),
     snd (desugar_chain L fl ve rest (snd (desugar_block L fl b (S g))))).
  Proof. reflexivity. Qed.
  Lemma desugar_block_eq b g :
    desugar_block L fl b g = (fst (desugar_stmts L fl b g) ++ scope_ends L b, snd (desugar_stmts L fl b g)).
  Proof. reflexivity. Qed.

  Lemma code_after_app (c1 c2 : list (finstr L)) t :
    code_after L (c1 ++ c2) t = code_after L c2 (code_after L c1 t).
  Proof. revert t; induction c1; intros; cbn [app code_after]; auto. Qed.

  Lemma scope_ends_after (b : block L) t : code_after L (scope_ends L b) t = t.
  Proof.
    revert t; induction b as [|s b IH]; intros; cbn [scope_ends code_after]; auto.
    destruct s; auto. destruct a; auto.
    rewrite code_after_app, IH. clear. revert t; induction ds; intros; cbn; auto.
  Qed.

  Lemma jump_over_after ve (rest : chain L) t : code_after L (jump_over L ve rest) t = t.
  Proof. destruct rest; reflexivity. Qed.

  Ltac ca := repeat (rewrite ?code_after_app, ?scope_ends_after, ?jump_over_after; cbn [code_after finstr_time fst snd with_scope app]).

  Lemma times_preserved_all :
    (forall s g t, code_after L (fst (desugar_stmt L fl s g)) t = stmt_after L s t) /\
    (forall b g t, code_after L (fst (desugar_stmts L fl b g)) t = block_after L b t) /\
    (forall c ve g t, code_after L (fst (desugar_chain L fl ve c g)) t = chain_after L c t).
  Proof.
    apply sbc_ind; intros; try destruct clobber;
      cbn [desugar_stmt desugar_stmts desugar_chain stmt_after block_after chain_after];
      try destruct (zero_test (const_int L count)); ca; rewrite ?H; ca; rewrite ?H0; ca; reflexivity.
  Qed.

  Lemma times_preserved_block b g t : code_after L (fst (desugar_block L fl b g)) t = block_after L b t.
  Proof.
    rewrite desugar_block_eq. cbn [fst]. rewrite code_after_app, scope_ends_after.
    apply times_preserved_all.
  Qed.

  Lemma desugar_block_snd b g : snd (desugar_block L fl b g) = snd (desugar_stmts L fl b g).
  Proof. reflexivity. Qed.

  (* gensym numbers only grow *)
  Lemma gensym_mono :
    (forall s g, (g <= snd (desugar_stmt L fl s g))%nat) /\
    (forall b g, (g <= snd (desugar_stmts L fl b g))%nat) /\
    (forall c ve g, (g <= snd (desugar_chain L fl ve c g))%nat).
  Proof.
    apply sbc_ind; intros; try destruct clobber;
      rewrite ?desugar_SAtom, ?desugar_SBreak, ?desugar_SCondBreak, ?desugar_SBlock, ?desugar_SCond,
        ?desugar_SLoop, ?desugar_SDoWhile, ?desugar_SWhile, ?desugar_STimesN, ?desugar_STimesC,
        ?desugar_BNil, ?desugar_BCons, ?desugar_CEnd, ?desugar_CElse, ?desugar_CElif;
      cbn [fst snd]; rewrite ?desugar_block_snd; auto.
    - pose proof (H (S (S g))). pose proof (H0 (LCondEnd g) (snd (desugar_stmts L fl b (S (S g))))). lia.
    - pose proof (H (S g)). lia.
    - pose proof (H (S (S g))). lia.
    - pose proof (H (S g)). lia.
    - pose proof (H (S (S g))). lia.
    - pose proof (H (S (S (S g)))). lia.
    - pose proof (H g). pose proof (H0 (snd (desugar_stmt L fl s g))). lia.
    - pose proof (H (S g)). pose proof (H0 ve (snd (desugar_stmts L fl b (S g)))). lia.
  Qed.
End Static.

Ltac dsg :=
  rewrite ?desugar_SAtom, ?desugar_SBreak, ?desugar_SCondBreak, ?desugar_SBlock, ?desugar_SCond,
    ?desugar_SLoop, ?desugar_SDoWhile, ?desugar_SWhile, ?desugar_STimesN, ?desugar_STimesC,
    ?desugar_BNil, ?desugar_BCons, ?desugar_CEnd, ?desugar_CElse, ?desugar_CElif.

Section Atoms.
  Variable L : lang.
  Variable fl : flavour.

  Lemma code_atoms_app (c1 c2 : list (finstr L)) t :
    code_atoms L (c1 ++ c2) t = code_atoms L c1 t ++ code_atoms L c2 (code_after L c1 t).
  Proof.
    revert t; induction c1 as [|i c1 IH]; intros; cbn [app code_atoms code_after]; auto.
    destruct i; cbn [finstr_time]; rewrite IH; reflexivity.
  Qed.

  Lemma scope_ends_atoms (b : block L) t : code_atoms L (scope_ends L b) t = [].
  Proof.
    revert t; induction b as [|s b IH]; intros; cbn [scope_ends code_atoms]; auto.
    destruct s; auto. destruct a; auto.
    rewrite code_atoms_app, IH, app_nil_r. clear. revert t; induction ds; intros; cbn; auto.
  Qed.
  Lemma jump_over_atoms ve (rest : chain L) t : code_atoms L (jump_over L ve rest) t = [].
  Proof. destruct rest; reflexivity. Qed.

  (* every original statement, in order, with the time the time pass gives it: unchanged *)
  Lemma atoms_preserved_all :
    (forall s g t, code_atoms L (fst (desugar_stmt L fl s g)) t = stmt_atoms L s t) /\
    (forall b g t, code_atoms L (fst (desugar_stmts L fl b g)) t = block_atoms L b t) /\
    (forall c ve g t, code_atoms L (fst (desugar_chain L fl ve c g)) t = chain_atoms L c t).
  Proof.
    apply sbc_ind; intros; try destruct clobber; dsg; rewrite ?desugar_block_eq; cbn [fst snd];
      try destruct (zero_test (const_int L count));
      repeat (rewrite ?code_atoms_app, ?code_after_app, ?scope_ends_atoms, ?scope_ends_after, ?jump_over_atoms,
                ?jump_over_after, ?app_nil_r; cbn [code_atoms code_after finstr_time app]);
      rewrite ?H, ?H0, ?(proj1 (times_preserved_all L fl)), ?(proj1 (proj2 (times_preserved_all L fl))), ?app_nil_r;
      try reflexivity.
  Qed.
End Atoms.

Section Labels.
  Variable L : lang.
  Variable fl : flavour.

  Definition labels_of (c : list (finstr L)) : list label :=
    flat_map (fun i => match i with FLabel l => [l] | _ => [] end) c.

  Lemma labels_app c1 c2 : labels_of (c1 ++ c2) = labels_of c1 ++ labels_of c2.
  Proof. unfold labels_of. apply flat_map_app. Qed.

  Lemma labels_scope_ends (b : block L) : labels_of (scope_ends L b) = [].
  Proof.
    induction b as [|s b IH]; cbn [scope_ends]; auto. destruct s; auto. destruct a; auto.
    rewrite labels_app, IH, app_nil_r. clear. induction ds; cbn; auto.
  Qed.
  Lemma labels_jump_over ve (rc : chain L) : labels_of (jump_over L ve rc) = [].
  Proof. destruct rc; reflexivity. Qed.

  Definition lab_num (l : label) : option nat :=
    match l with LLoopEnd _ => None | LCondEnd n | LCond n | LTimesZero n | LLoop n => Some n end.
  Definition lab_ids (l : label) : list nat := match l with LLoopEnd id => [id] | _ => [] end.

  Definition lab_ok (P : nat -> Prop) (ids : list nat) (l : label) : Prop :=
    match l with
    | LLoopEnd id => In id ids
    | LCondEnd n | LCond n | LTimesZero n | LLoop n => P n
    end.

  Lemma NoDup_app_intro {A} (a b : list A) :
    NoDup a -> NoDup b -> (forall x, In x a -> In x b -> False) -> NoDup (a ++ b).
  Proof.
    induction 1 as [|x a N _ IH]; intros Nb D; cbn; auto.
    constructor. rewrite in_app_iff. intros [H|H]; [contradiction|]. eapply D; eauto. left; auto.
    apply IH; auto. intros y Ha Hb. eapply D; eauto. right; auto.
  Qed.
  Lemma NoDup_app_inv {A} (a b : list A) :
    NoDup (a ++ b) -> NoDup a /\ NoDup b /\ (forall x, In x a -> In x b -> False).
  Proof.
    induction a as [|x a IH]; cbn; intros H. repeat split; auto. constructor.
    inversion H; subst. destruct (IH H3) as (Na & Nb & D). rewrite in_app_iff in H2.
    repeat split; auto. constructor; auto.
    intros y [->|Ha] Hb; eauto.
  Qed.

  Definition labs_ok (P : nat -> Prop) (ids : list nat) (c : list (finstr L)) : Prop :=
    (forall l, In l (labels_of c) -> lab_ok P ids l) /\ (NoDup ids -> NoDup (labels_of c)).

  Lemma labs_ok_nolabel c : labels_of c = [] -> labs_ok (fun _ => False) [] c.
  Proof. intros E. split; rewrite E. intros l []. constructor. Qed.

  Lemma labs_ok_label l : labs_ok (fun n => lab_num l = Some n) (lab_ids l) [FLabel l].
  Proof.
    split; cbn. intros l' [<-|[]]. destruct l; cbn; auto. intros _. repeat constructor. intros [].
  Qed.

  Lemma labs_ok_app (P1 P2 : nat -> Prop) ids1 ids2 c1 c2 :
    (forall n, P1 n -> P2 n -> False) ->
    labs_ok P1 ids1 c1 -> labs_ok P2 ids2 c2 ->
    labs_ok (fun n => P1 n \/ P2 n) (ids1 ++ ids2) (c1 ++ c2).
  Proof.
    intros D [M1 N1] [M2 N2]. split.
    - intros l H. rewrite labels_app, in_app_iff in H. destruct H as [H|H].
      + apply M1 in H. destruct l; cbn in *; auto. apply in_or_app; auto.
      + apply M2 in H. destruct l; cbn in *; auto. apply in_or_app; auto.
    - intros ND. apply NoDup_app_inv in ND. destruct ND as (Na & Nb & DI).
      rewrite labels_app. apply NoDup_app_intro; auto.
      intros l H1 H2. apply M1 in H1. apply M2 in H2. destruct l; cbn in *; eauto.
  Qed.

  Lemma labs_ok_weaken (P Q : nat -> Prop) ids ids' c :
    (forall n, P n -> Q n) -> ids = ids' -> labs_ok P ids c -> labs_ok Q ids' c.
  Proof. intros I <- [M N]. split; auto. intros l H. apply M in H. destruct l; cbn in *; auto. Qed.

  Lemma labs_ok_ext (P : nat -> Prop) ids c c' : labels_of c = labels_of c' -> labs_ok P ids c -> labs_ok P ids c'.
  Proof. unfold labs_ok. intros <-. auto. Qed.

  Lemma labels_block b g : labels_of (fst (desugar_stmts L fl b g)) = labels_of (fst (desugar_block L fl b g)).
  Proof. rewrite desugar_block_eq. cbn [fst]. rewrite labels_app, labels_scope_ends, app_nil_r. reflexivity. Qed.

  Ltac some_inv :=
    repeat match goal with
           | H : Some _ = Some _ |- _ => inversion H; clear H; subst
           | H : False |- _ => contradiction
           | H : None = Some _ |- _ => discriminate H
           | H : _ \/ _ |- _ => destruct H
           end.
  Lemma labs_ok_app' (P1 P2 : nat -> Prop) ids1 ids2 c1 c2 :
    labs_ok P1 ids1 c1 -> labs_ok P2 ids2 c2 -> (forall n, P1 n -> P2 n -> False) ->
    labs_ok (fun n => P1 n \/ P2 n) (ids1 ++ ids2) (c1 ++ c2).
  Proof. intros. apply labs_ok_app; auto. Qed.

  Ltac piece :=
    first [ apply labs_ok_label
          | apply labs_ok_nolabel; first [reflexivity | apply labels_jump_over | (destruct (zero_test _); reflexivity)]
          | eassumption ].
  Ltac disj := cbn beta; cbn [lab_num]; intros n H1 H2; some_inv; lia.
  Ltac build := first [ eapply labs_ok_app'; [ piece | build | disj ] | piece ].
  Ltac fin1 := cbn beta; cbn [lab_num]; intros n H; some_inv; lia.
  Ltac fin2 := cbn [app lab_ids]; rewrite ?app_nil_r; reflexivity.

  Lemma labels_all :
    (forall s g, labs_ok (fun n => (g <= n < snd (desugar_stmt L fl s g))%nat) (loop_ids_stmt L s) (fst (desugar_stmt L fl s g))) /\
    (forall b g, labs_ok (fun n => (g <= n < snd (desugar_stmts L fl b g))%nat) (loop_ids L b) (fst (desugar_stmts L fl b g))) /\
    (forall c ve g, labs_ok (fun n => (g <= n < snd (desugar_chain L fl ve c g))%nat) (loop_ids_chain L c) (fst (desugar_chain L fl ve c g))).
  Proof.
    apply sbc_ind.
    - intros a g. rewrite desugar_SAtom. eapply labs_ok_weaken; [| |apply labs_ok_nolabel; reflexivity]; [intros n []|reflexivity].
    - intros id g. rewrite desugar_SBreak. eapply labs_ok_weaken; [| |apply labs_ok_nolabel; reflexivity]; [intros n []|reflexivity].
    - intros k c id g. rewrite desugar_SCondBreak. eapply labs_ok_weaken; [| |apply labs_ok_nolabel; reflexivity]; [intros n []|reflexivity].
    - intros b IH g. rewrite desugar_SBlock. rewrite desugar_block_snd.
      eapply labs_ok_ext; [apply labels_block|]. apply IH.
    - intros k c b IHb rc IHc g. rewrite desugar_SCond. cbn [fst snd]. rewrite !desugar_block_snd.
      pose proof (proj1 (proj2 (gensym_mono L fl)) b (S (S g))) as G1.
      pose proof (proj2 (proj2 (gensym_mono L fl)) rc (LCondEnd g) (snd (desugar_stmts L fl b (S (S g))))) as G2.
      specialize (IHb (S (S g))). apply (labs_ok_ext _ _ _ _ (labels_block b (S (S g)))) in IHb.
      specialize (IHc (LCondEnd g) (snd (desugar_stmts L fl b (S (S g))))).
      change (FCondGoto (negate k) (CExpr c) (LCond (S g)) :: ?x) with ([FCondGoto (negate k) (CExpr c) (LCond (S g))] ++ x).
      eapply labs_ok_weaken; [| |build]; [fin1|fin2].
    - (* loop *) intros id b IHb g. rewrite desugar_SLoop. cbn [fst snd]. rewrite !desugar_block_snd.
      pose proof (proj1 (proj2 (gensym_mono L fl)) b (S g)) as G1.
      specialize (IHb (S g)). apply (labs_ok_ext _ _ _ _ (labels_block b (S g))) in IHb.
      change (FLabel (LLoop g) :: ?x ++ [?j; ?e]) with ([FLabel (LLoop g)] ++ x ++ [j] ++ [e]).
      eapply labs_ok_weaken; [| |build]; [fin1|fin2].
    - (* while *) intros id c b IHb g. rewrite desugar_SWhile. cbn [fst snd]. rewrite !desugar_block_snd.
      pose proof (proj1 (proj2 (gensym_mono L fl)) b (S (S g))) as G1.
      specialize (IHb (S (S g))). apply (labs_ok_ext _ _ _ _ (labels_block b (S (S g)))) in IHb.
      change (?c0 :: FLabel (LLoop (S g)) :: ?x ++ [?j; ?s; ?e]) with ([c0] ++ [FLabel (LLoop (S g))] ++ x ++ [j] ++ [s] ++ [e]).
      eapply labs_ok_weaken; [| |build]; [fin1|fin2].
    - (* do while *) intros id c b IHb g. rewrite desugar_SDoWhile. cbn [fst snd]. rewrite !desugar_block_snd.
      pose proof (proj1 (proj2 (gensym_mono L fl)) b (S g)) as G1.
      specialize (IHb (S g)). apply (labs_ok_ext _ _ _ _ (labels_block b (S g))) in IHb.
      change (FLabel (LLoop g) :: ?x ++ [?j; ?e]) with ([FLabel (LLoop g)] ++ x ++ [j] ++ [e]).
      eapply labs_ok_weaken; [| |build]; [fin1|fin2].
    - (* times *) intros id clob count b IHb g. destruct clob as [u|].
      + rewrite desugar_STimesC. cbn [fst snd]. rewrite !desugar_block_snd.
        pose proof (proj1 (proj2 (gensym_mono L fl)) b (S (S g))) as G1.
        specialize (IHb (S (S g))). apply (labs_ok_ext _ _ _ _ (labels_block b (S (S g)))) in IHb.
        change (?c0 :: ?zt ++ FLabel (LLoop (S g)) :: ?x ++ [?j; ?s; ?e]) with ([c0] ++ zt ++ [FLabel (LLoop (S g))] ++ x ++ [j] ++ [s] ++ [e]).
        eapply labs_ok_weaken; [| |build]; [fin1|fin2].
      + rewrite desugar_STimesN. cbn [fst snd]. rewrite !desugar_block_snd.
        pose proof (proj1 (proj2 (gensym_mono L fl)) b (S (S (S g)))) as G1.
        specialize (IHb (S (S (S g)))). apply (labs_ok_ext _ _ _ _ (labels_block b (S (S (S g))))) in IHb.
        change (?d :: ?c0 :: ?zt ++ FLabel (LLoop (S (S g))) :: ?x ++ [?j; ?s; ?se; ?e]) with ([d] ++ [c0] ++ zt ++ [FLabel (LLoop (S (S g)))] ++ x ++ [j] ++ [s] ++ [se] ++ [e]).
        eapply labs_ok_weaken; [| |build]; [fin1|fin2].
    - (* BNil *) intros g. rewrite desugar_BNil. eapply labs_ok_weaken; [| |apply labs_ok_nolabel; reflexivity]; [intros n []|reflexivity].
    - (* BCons *) intros s IHs b IHb g. rewrite desugar_BCons. cbn [fst snd].
      pose proof (proj1 (gensym_mono L fl) s g) as G1.
      pose proof (proj1 (proj2 (gensym_mono L fl)) b (snd (desugar_stmt L fl s g))) as G2.
      specialize (IHs g). specialize (IHb (snd (desugar_stmt L fl s g))).
      eapply labs_ok_weaken; [| |build]; [fin1|fin2].
    - (* CEnd *) intros ve g. rewrite desugar_CEnd. eapply labs_ok_weaken; [| |apply labs_ok_nolabel; reflexivity]; [intros n []|reflexivity].
    - (* CElse *) intros b IH ve g. rewrite desugar_CElse. rewrite desugar_block_snd.
      eapply labs_ok_ext; [apply labels_block|]. apply IH.
    - (* CElif *) intros k c b IHb rc IHc ve g. rewrite desugar_CElif. cbn [fst snd]. rewrite !desugar_block_snd.
      pose proof (proj1 (proj2 (gensym_mono L fl)) b (S g)) as G1.
      pose proof (proj2 (proj2 (gensym_mono L fl)) rc ve (snd (desugar_stmts L fl b (S g)))) as G2.
      specialize (IHb (S g)). apply (labs_ok_ext _ _ _ _ (labels_block b (S g))) in IHb.
      specialize (IHc ve (snd (desugar_stmts L fl b (S g)))).
      change (?c0 :: ?x) with ([c0] ++ x).
      eapply labs_ok_weaken; [| |build]; [fin1|fin2].
  Qed.

  Lemma label_eqb_eq a b : label_eqb a b = true -> a = b.
  Proof. destruct a, b; cbn; try discriminate; intros H; apply Nat.eqb_eq in H; subst; reflexivity. Qed.
  Lemma label_eqb_refl a : label_eqb a a = true.
  Proof. destruct a; cbn; apply Nat.eqb_refl. Qed.

  Lemma find_label_ok (c : list (finstr L)) t :
    NoDup (labels_of c) ->
    forall c1 l c2, c = c1 ++ FLabel l :: c2 -> find_label L c t l = Some (code_after L c1 t, c2).
  Proof.
    intros ND c1. revert c t ND. induction c1 as [|i c1 IH]; intros c t ND l c2 ->.
    - cbn [app find_label code_after]. rewrite label_eqb_refl. reflexivity.
    - cbn [app find_label code_after].
      assert (IN : In l (labels_of (c1 ++ FLabel l :: c2))).
      { rewrite labels_app, in_app_iff. right. cbn. auto. }
      destruct i; try (apply IH; auto; exact ND).
      cbn [app labels_of flat_map] in ND. inversion ND; subst.
      destruct (label_eqb l l0) eqn:E.
      + apply label_eqb_eq in E. subst. contradiction.
      + apply IH; auto.
  Qed.

  Lemma nodupb_NoDup l : nodupb l = true -> NoDup l.
  Proof.
    induction l as [|x l IH]; cbn; intros H. constructor.
    apply andb_prop in H. destruct H as [H1 H2]. constructor; auto.
    intros IN. apply negb_true_iff in H1. rewrite <- not_true_iff_false in H1. apply H1.
    apply existsb_exists. exists x. split; auto. apply Nat.eqb_refl.
  Qed.

  Lemma desugar_labels_nodup p : nodupb (loop_ids L p) = true -> NoDup (labels_of (desugar L fl p)).
  Proof.
    intros H. unfold desugar. rewrite <- labels_block.
    apply (proj2 (proj1 (proj2 labels_all) p O)). apply nodupb_NoDup; auto.
  Qed.
End Labels.
