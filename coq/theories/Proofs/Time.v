(* Proofs/Time.v -- lemmas for property C13 (time labels). *)
From TV Require Import Base.I32 Model.Time.
Open Scope Z_scope.

Lemma source_shape_is_modelled : source_shape_ok = true.
Proof. vm_compute. reflexivity. Qed.

(* ------------------------------------------------------------------------------------------ *)
(* 1. the nested pass is the label arithmetic over the pre-order listing *)

Definition tp_scan_stmt (s : stmt) : Prop := forall cur stk rest,
  scan cur stk (flatten_stmt s ++ rest) = snd (fst (tp_stmt cur s)) ++ scan (fst (fst (tp_stmt cur s))) stk rest.
Definition tp_scan_stmts (l : stmts) : Prop := forall cur stk rest,
  scan cur stk (flatten_stmts l ++ rest) = snd (fst (tp_stmts cur l)) ++ scan (fst (fst (tp_stmts cur l))) stk rest.
Definition tp_scan_blocks (bs : blocks) : Prop := forall cur stk rest,
  scan cur stk (flatten_blocks bs ++ rest) = snd (fst (tp_blocks cur bs)) ++ scan (fst (fst (tp_blocks cur bs))) stk rest.

Lemma tp_scan_all :
  (forall s, tp_scan_stmt s) /\ (forall l, tp_scan_stmts l) /\ (forall bs, tp_scan_blocks bs).
Proof.
  apply stmt_mutind; unfold tp_scan_stmt, tp_scan_stmts, tp_scan_blocks.
  - intros; reflexivity.
  - intros; reflexivity.
  - intros; reflexivity.
  - intros; reflexivity.
  - intros k bs IH cur stk rest. cbn [flatten_stmt tp_stmt app scan].
    rewrite IH. destruct (tp_blocks cur bs) as [[c r] ok]. reflexivity.
  - intros b IH cur stk rest. cbn [flatten_stmt tp_stmt app scan].
    rewrite <- app_assoc. rewrite IH. destruct (tp_stmts 0 b) as [[c r] ok]. cbn [fst snd app scan]. reflexivity.
  - intros; reflexivity.
  - intros s IHs r IHr cur stk rest. cbn [flatten_stmts tp_stmts]. rewrite <- app_assoc, IHs.
    destruct (tp_stmt cur s) as [[c1 r1] ok1]. cbn [fst snd]. rewrite IHr.
    destruct (tp_stmts c1 r) as [[c2 r2] ok2]. cbn [fst snd]. now rewrite app_assoc.
  - intros; reflexivity.
  - intros b IHb r IHr cur stk rest. cbn [flatten_blocks tp_blocks]. rewrite <- app_assoc, IHb.
    destruct (tp_stmts cur b) as [[c1 r1] ok1]. cbn [fst snd]. rewrite IHr.
    destruct (tp_blocks c1 r) as [[c2 r2] ok2]. cbn [fst snd]. now rewrite app_assoc.
Qed.

Definition records (l : stmts) : list rec := snd (fst (tp_stmts 0 l)).

Lemma time_pass_is_label_arithmetic : forall l, records l = scan 0 [] (flatten_stmts l).
Proof.
  intros l. destruct tp_scan_all as [_ [H _]]. specialize (H l 0 [] []).
  rewrite app_nil_r in H. rewrite H. cbn [scan]. now rewrite app_nil_r.
Qed.

Lemma time_pass_ok_records : forall l r, time_pass l = Ok r -> r = records l.
Proof.
  unfold time_pass, records. intros l r. destruct (tp_stmts 0 l) as [[c rs] ok]. destruct ok; now inversion 1.
Qed.

(* ------------------------------------------------------------------------------------------ *)
(* 2. desugaring blocks does not change the time of any instruction or label *)

Definition sig (r : list rec) : list rec := filter not_aux r.

Lemma sig_app a b : sig (a ++ b) = sig a ++ sig b.
Proof. apply filter_app. Qed.

Lemma tp_app : forall a b cur,
  tp_stmts cur (app_stmts a b) =
  let '(c1, r1, ok1) := tp_stmts cur a in
  let '(c2, r2, ok2) := tp_stmts c1 b in (c2, r1 ++ r2, ok1 && ok2).
Proof.
  induction a as [|s a IH]; intros b cur.
  - cbn [app_stmts tp_stmts]. destruct (tp_stmts cur b) as [[c r] ok]. reflexivity.
  - cbn [app_stmts tp_stmts]. destruct (tp_stmt cur s) as [[c1 r1] ok1]. rewrite IH.
    destruct (tp_stmts c1 a) as [[c2 r2] ok2]. destruct (tp_stmts c2 b) as [[c3 r3] ok3].
    now rewrite app_assoc, andb_assoc.
Qed.

Definition triple : Type := (Z * list rec * bool)%type.
Definition eqv (x y : triple) : Prop :=
  fst (fst x) = fst (fst y) /\ snd x = snd y /\ sig (snd (fst x)) = sig (snd (fst y)).
Definition seq (x : triple) (f : Z -> triple) : triple :=
  let '(c1, r1, ok1) := x in let '(c2, r2, ok2) := f c1 in (c2, r1 ++ r2, ok1 && ok2).

Lemma eqv_refl x : eqv x x. Proof. now repeat split. Qed.
Lemma eqv_trans x y z : eqv x y -> eqv y z -> eqv x z.
Proof. unfold eqv. intros (A&B&C) (D&E&F). repeat split; congruence. Qed.

Lemma eqv_seq x1 x2 f1 f2 : eqv x1 x2 -> (forall c, eqv (f1 c) (f2 c)) -> eqv (seq x1 f1) (seq x2 f2).
Proof.
  destruct x1 as [[c1 r1] o1], x2 as [[c2 r2] o2]. unfold eqv at 1. cbn [fst snd]. intros (A&B&C) H.
  subst c2 o2. unfold seq. specialize (H c1). destruct (f1 c1) as [[c3 r3] o3], (f2 c1) as [[c4 r4] o4].
  unfold eqv in *. cbn [fst snd] in *. destruct H as (D&E&F). subst. repeat split. rewrite !sig_app. congruence.
Qed.

Lemma tp_app' a b cur : tp_stmts cur (app_stmts a b) = seq (tp_stmts cur a) (fun c => tp_stmts c b).
Proof. apply tp_app. Qed.

Lemma tp_cons s r cur : tp_stmts cur (SCons s r) = seq (tp_stmt cur s) (fun c => tp_stmts c r).
Proof. reflexivity. Qed.
Lemma tp_bcons b r cur : tp_blocks cur (BCons b r) = seq (tp_stmts cur b) (fun c => tp_blocks c r).
Proof. reflexivity. Qed.

Lemma seq_aux_l cur f : eqv (seq (tp_stmts cur aux1) f) (f cur).
Proof. cbn. destruct (f cur) as [[c r] o]. now repeat split. Qed.
Lemma seq_aux_r x : eqv (seq x (fun c => tp_stmts c aux1)) x.
Proof. destruct x as [[c r] o]. cbn. repeat split; cbn [fst snd]. apply andb_true_r. rewrite sig_app. cbn. apply app_nil_r. Qed.
Lemma seq_nil_r x : eqv (seq x (fun c => tp_stmts c SNil)) x.
Proof. destruct x as [[c r] o]. cbn. repeat split; cbn [fst snd]. apply andb_true_r. now rewrite app_nil_r. Qed.

Definition ds_ok_stmt (s : stmt) := forall cur, eqv (tp_stmts cur (ds_stmt s)) (tp_stmt cur s).
Definition ds_ok_stmts (l : stmts) := forall cur, eqv (tp_stmts cur (ds_stmts l)) (tp_stmts cur l).
Definition ds_ok_blocks (bs : blocks) :=
  (forall cur, eqv (tp_stmts cur (ds_blocks_plain bs)) (tp_blocks cur bs)) /\
  (forall e cur, eqv (tp_stmts cur (ds_cond e bs)) (tp_blocks cur bs)).

Lemma nest_eqv k bs cur : eqv (tp_blocks cur bs) (tp_stmt cur (SNest k bs)).
Proof. cbn [tp_stmt]. destruct (tp_blocks cur bs) as [[c r] o]. now repeat split. Qed.

Lemma leaf_eqv s cur : (forall k bs, s <> SNest k bs) -> ds_stmt s = SCons s SNil ->
  eqv (tp_stmts cur (ds_stmt s)) (tp_stmt cur s).
Proof. intros _ ->. rewrite tp_cons. apply seq_nil_r. Qed.

Lemma ds_ok_all : (forall s, ds_ok_stmt s) /\ (forall l, ds_ok_stmts l) /\ (forall bs, ds_ok_blocks bs).
Proof.
  apply stmt_mutind; unfold ds_ok_stmt, ds_ok_stmts, ds_ok_blocks.
  - intros. apply leaf_eqv; [discriminate|reflexivity].
  - intros. apply leaf_eqv; [discriminate|reflexivity].
  - intros. apply leaf_eqv; [discriminate|reflexivity].
  - intros. apply leaf_eqv; [discriminate|reflexivity].
  - intros k bs [IHp IHc] cur. eapply eqv_trans; [|apply nest_eqv].
    destruct k; cbn [ds_stmt].
    + apply IHp.
    + rewrite tp_app'. eapply eqv_trans; [apply seq_aux_r|apply IHp].
    + rewrite tp_app'. eapply eqv_trans; [apply seq_aux_r|apply IHp].
    + rewrite tp_app'. eapply eqv_trans; [apply seq_aux_l|]. rewrite tp_app'. eapply eqv_trans; [apply seq_aux_r|apply IHp].
    + rewrite tp_app'. eapply eqv_trans; [apply seq_aux_l|]. rewrite tp_app'. eapply eqv_trans; [apply seq_aux_r|apply IHp].
    + apply IHc.
  - intros. apply leaf_eqv; [discriminate|reflexivity].
  - intros. apply eqv_refl.
  - intros s IHs r IHr cur. cbn [ds_stmts]. rewrite tp_app', tp_cons. apply eqv_seq; auto.
  - split; intros; apply eqv_refl.
  - intros b IHb r [IHp IHc]. split.
    + intros cur. cbn [ds_blocks_plain]. rewrite tp_app', tp_bcons. apply eqv_seq; auto.
    + intros e cur. rewrite tp_bcons. cbn [ds_cond]. destruct r as [|b2 r2].
      * eapply eqv_trans; [|apply eqv_seq; [apply IHb|intros; apply eqv_refl]].
        destruct e.
        -- cbn [tp_blocks]. apply eqv_trans with (tp_stmts cur (ds_stmts b)); [apply eqv_refl|].
           destruct (tp_stmts cur (ds_stmts b)) as [[c r] o]. cbn. repeat split; cbn [fst snd]. now rewrite andb_true_r. now rewrite app_nil_r.
        -- rewrite tp_app'. eapply eqv_trans; [apply seq_aux_l|].
           destruct (tp_stmts cur (ds_stmts b)) as [[c r] o]. cbn. repeat split; cbn [fst snd]. now rewrite andb_true_r. now rewrite app_nil_r.
      * rewrite tp_app'. eapply eqv_trans; [apply seq_aux_l|]. rewrite tp_app'. apply eqv_seq; [apply IHb|].
        intros c. rewrite tp_app'. eapply eqv_trans; [apply seq_aux_l|]. apply IHc.
Qed.

Lemma desugar_preserves_times : forall l,
  match time_pass l, time_pass (ds_stmts l) with
  | Ok r, Ok r' => sig r' = sig r
  | Err _, Err _ => True
  | _, _ => False
  end.
Proof.
  intros l. destruct ds_ok_all as [_ [H _]]. specialize (H l 0). unfold time_pass.
  destruct (tp_stmts 0 (ds_stmts l)) as [[c' r'] ok'], (tp_stmts 0 l) as [[c r] ok].
  destruct H as (_ & B & C). cbn [fst snd] in *. subst ok'. destruct ok; auto.
Qed.

(* ------------------------------------------------------------------------------------------ *)
(* 3. the labels emitted by the decompiler reproduce every stored time *)

Lemma in_i32_0' : in_i32 0. Proof. unfold in_i32, I32_MIN, I32_MAX. lia. Qed.

Definition nt (r : list rec) : list rec := filter not_time r.
Lemma nt_app a b : nt (a ++ b) = nt a ++ nt b. Proof. apply filter_app. Qed.

Fixpoint app_e (a : list estmt) (b : stmts) : stmts :=
  match a with [] => b | x :: r => SCons (match x with ELabel id => SLeaf (TLabel id) | EAbs t => SAbs t | ERel d => SRel d | EInstr id => SLeaf (TInstr id) end) (app_e r b) end.

Lemma to_stmts_app a b : to_stmts (a ++ b) = app_stmts (to_stmts a) (to_stmts b).
Proof. induction a as [|x a IH]; [reflexivity|]. destruct x; cbn [to_stmts app app_stmts]; now rewrite IH. Qed.

(* the time-label part of emit_one *)
Definition tl_part (prev time : Z) : list estmt :=
  if time =? prev then []
  else if (prev <? 0) && (0 <=? time) then EAbs 0 :: (if 0 <? time then [ERel time] else [])
  else if time <? prev then [EAbs time]
  else [ERel (wrap32 (time - prev))].

Lemma tl_part_pass prev time : in_i32 prev -> in_i32 time ->
  exists r, tp_stmts prev (to_stmts (tl_part prev time)) = (time, r, true) /\ nt r = [].
Proof.
  intros Hp Ht. unfold tl_part.
  destruct (Z.eqb_spec time prev) as [->|Hne].
  { exists []. now split. }
  destruct (Z.ltb_spec prev 0) as [Hneg|Hnn]; destruct (Z.leb_spec 0 time) as [Htn|Htneg]; cbn [andb].
  - destruct (Z.ltb_spec 0 time) as [Hpos|Hz].
    + eexists. cbn [to_stmts tp_stmts tp_stmt app andb]. rewrite Z.add_0_l, (wrap32_id time Ht). split; reflexivity.
    + assert (time = 0) by lia. subst. eexists. cbn [to_stmts tp_stmts tp_stmt app andb]. split; reflexivity.
  - destruct (Z.ltb_spec time prev) as [Hlt|Hge].
    + eexists. cbn [to_stmts tp_stmts tp_stmt app andb]. split; reflexivity.
    + eexists. cbn [to_stmts tp_stmts tp_stmt app andb]. rewrite wrap32_add_r.
      replace (prev + (time - prev)) with time by lia. rewrite (wrap32_id time Ht). split; reflexivity.
  - destruct (Z.ltb_spec time prev) as [Hlt|Hge].
    + eexists. cbn [to_stmts tp_stmts tp_stmt app andb]. split; reflexivity.
    + eexists. cbn [to_stmts tp_stmts tp_stmt app andb]. rewrite wrap32_add_r.
      replace (prev + (time - prev)) with time by lia. rewrite (wrap32_id time Ht). split; reflexivity.
  - destruct (Z.ltb_spec time prev) as [Hlt|Hge].
    + eexists. cbn [to_stmts tp_stmts tp_stmt app andb]. split; reflexivity.
    + eexists. cbn [to_stmts tp_stmts tp_stmt app andb]. rewrite wrap32_add_r.
      replace (prev + (time - prev)) with time by lia. rewrite (wrap32_id time Ht). split; reflexivity.
Qed.

Definition lab_rec (lbl : option lab) : list rec :=
  match lbl with Some lb => [(TLabel (l_id lb), l_time lb)] | None => [] end.

Lemma emit_one_pass prev lbl time : in_i32 prev -> in_i32 time ->
  match lbl with Some lb => l_time lb = prev \/ l_time lb = time | None => True end ->
  exists e r, emit_one prev lbl time = Ok e /\
    tp_stmts prev (to_stmts e) = (time, r, true) /\ nt r = lab_rec lbl.
Proof.
  intros Hp Ht Hl. destruct (tl_part_pass prev time Hp Ht) as (r & Hr & Hnt).
  unfold emit_one. fold (tl_part prev time).
  destruct lbl as [lb|].
  - destruct (Z.eqb_spec (l_time lb) prev) as [E1|N1].
    + (* label before the time labels *)
      eexists. eexists. split; [reflexivity|]. cbn [app to_stmts tp_stmts tp_stmt]. rewrite app_nil_r, Hr.
      split; [reflexivity|]. cbn [app nt filter not_time fst lab_rec]. fold (nt r). rewrite Hnt. now rewrite E1.
    + destruct Hl as [E|E]; [contradiction|]. rewrite E, Z.eqb_refl.
      eexists. eexists. split; [reflexivity|]. cbn [app]. rewrite to_stmts_app, tp_app, Hr.
      cbn [to_stmts tp_stmts tp_stmt app andb]. split; [reflexivity|]. rewrite nt_app, Hnt. cbn. now rewrite E.
  - eexists. eexists. split; [reflexivity|]. cbn [app]. rewrite app_nil_r. split; [apply Hr|apply Hnt].
Qed.

Lemma emit_then_pass_from : forall l prev, in_i32 prev -> times_in_i32 l -> placeable prev l ->
  exists es c r, emit_labels prev l = Ok es /\ tp_stmts prev (to_stmts es) = (c, r, true) /\ nt r = expected_recs l.
Proof.
  induction l as [|[[time lbl] mk] l IH]; intros prev Hp Hi Hpl.
  - exists [], prev, []. now repeat split.
  - destruct Hi as [Ht Hi]. destruct Hpl as [Hl Hpl].
    destruct (emit_one_pass prev lbl time Hp Ht Hl) as (e & r & He & Hr & Hnt).
    destruct (IH time Ht Hi Hpl) as (es & c & rs & Hes & Hrs & Hnts).
    cbn [emit_labels]. rewrite He. cbn [obind]. rewrite Hes. cbn [obind].
    destruct mk as [id|].
    + eexists. exists c. eexists. split; [reflexivity|].
      rewrite !to_stmts_app, tp_app, Hr.
      cbn [to_stmts app_stmts tp_stmts tp_stmt]. rewrite Hrs. split; [reflexivity|].
      rewrite nt_app. cbn [app nt filter not_time fst]. fold (nt rs). rewrite Hnt, Hnts. cbn [expected_recs].
      destruct lbl; reflexivity.
    + eexists. exists c. eexists. split; [reflexivity|].
      rewrite !to_stmts_app, tp_app, Hr.
      cbn [to_stmts app_stmts]. rewrite Hrs. split; [reflexivity|]. rewrite nt_app, Hnt, Hnts. cbn [expected_recs]. destruct lbl; reflexivity.
Qed.

Lemma emit_then_pass : forall l, times_in_i32 l -> placeable 0 l ->
  exists es r, decompile_labels l = Ok es /\ time_pass (to_stmts es) = Ok r /\ filter not_time r = expected_recs l.
Proof.
  intros l Hi Hp. destruct (emit_then_pass_from l 0 in_i32_0' Hi Hp) as (es & c & r & A & B & C).
  exists es, r. split; [exact A|]. unfold time_pass. rewrite B. split; [reflexivity|exact C].
Qed.

(* ------------------------------------------------------------------------------------------ *)
(* 4. labels generated from the jump table are always placeable *)

Lemma label_at_offset_placeable p n args :
  snd (label_at_offset p n args) = p \/ snd (label_at_offset p n args) = n.
Proof. unfold label_at_offset. destruct (_ && _ && _); cbn; auto. Qed.

Definition prev_of (all : list Z) (i : nat) : Z := match i with O => 0 | S k => nth_time all k end.

Definition in_i32_0 := in_i32_0'.

Lemma nth_time_in all k : Forall in_i32 all -> in_i32 (nth_time all k).
Proof.
  intros H. unfold nth_time. destruct (Nat.lt_ge_cases k (length all)) as [L|G].
  - rewrite Forall_forall in H. apply H, nth_In, L.
  - rewrite nth_overflow by assumption. apply in_i32_0.
Qed.

Lemma prev_of_in all i : Forall in_i32 all -> in_i32 (prev_of all i).
Proof. intros H. destruct i; [apply in_i32_0|apply nth_time_in, H]. Qed.

Lemma label_for_time all jumps i lb : label_for all jumps i = Some lb ->
  l_time lb = prev_of all i \/
  l_time lb = (if Nat.ltb i (length all) then nth_time all i else nth_time all (length all - 1)).
Proof.
  unfold label_for. destruct (map snd (filter _ jumps)) as [|a args]; [discriminate|].
  set (nx := if Nat.ltb i (length all) then _ else _).
  fold (prev_of all i).
  pose proof (label_at_offset_placeable (prev_of all i) nx (a :: args)) as H.
  destruct (label_at_offset (prev_of all i) nx (a :: args)) as [is_r t]. cbn [snd] in H.
  intros E. inversion E. cbn [l_time]. exact H.
Qed.

Lemma script_ok : forall times all jumps done,
  Forall in_i32 all -> all = done ++ times ->
  placeable (prev_of all (length done)) (script_einstrs_from times all jumps (length done)) /\
  times_in_i32 (script_einstrs_from times all jumps (length done)).
Proof.
  induction times as [|t r IH]; intros all jumps done Hall Hd.
  - cbn [script_einstrs_from]. rewrite app_nil_r in Hd. subst done.
    assert (Hn : Nat.ltb (length all) (length all) = false) by apply Nat.ltb_irrefl.
    destruct (label_for all jumps (length all)) as [lb|] eqn:E.
    + cbn [placeable times_in_i32]. split; [split; [now right|exact I]|split; [|exact I]].
      apply label_for_time in E. rewrite Hn in E. destruct E as [-> | ->].
      * apply prev_of_in, Hall.
      * apply nth_time_in, Hall.
    + cbn [placeable times_in_i32]. split; [split; exact I|split; [|exact I]]. apply (prev_of_in all (length all) Hall).
  - cbn [script_einstrs_from].
    assert (Hnth : nth_time all (length done) = t).
    { subst all. unfold nth_time. rewrite app_nth2 by lia. now rewrite Nat.sub_diag. }
    assert (Hlt : Nat.ltb (length done) (length all) = true).
    { apply Nat.ltb_lt. subst all. rewrite app_length. cbn. lia. }
    specialize (IH all jumps (done ++ [t]) Hall).
    rewrite app_length in IH. cbn [length] in IH. rewrite Nat.add_1_r in IH.
    destruct IH as [IHp IHt]. { rewrite <- app_assoc. exact Hd. }
    cbn [prev_of] in IHp. rewrite Hnth in IHp.
    cbn [placeable times_in_i32]. split; [split; [|exact IHp]|split; [|exact IHt]].
    + destruct (label_for all jumps (length done)) as [lb|] eqn:E; [|exact I].
      apply label_for_time in E. rewrite Hlt, Hnth in E. exact E.
    + rewrite <- Hnth. apply nth_time_in, Hall.
Qed.

Fixpoint instr_times (l : list rec) : list Z :=
  match l with
  | [] => []
  | (TInstr _, t) :: r => t :: instr_times r
  | _ :: r => instr_times r
  end.

Lemma instr_times_script_from : forall times all jumps i,
  instr_times (expected_recs (script_einstrs_from times all jumps i)) = times.
Proof.
  induction times as [|t r IH]; intros all jumps i; cbn [script_einstrs_from expected_recs].
  - destruct (label_for all jumps i); reflexivity.
  - destruct (label_for all jumps i); cbn [app instr_times]; now rewrite IH.
Qed.

Lemma decompile_script_times : forall times jumps, Forall in_i32 times ->
  exists es r, decompile_labels (script_einstrs times jumps) = Ok es /\
    time_pass (to_stmts es) = Ok r /\
    filter not_time r = expected_recs (script_einstrs times jumps) /\
    instr_times r = times.
Proof.
  intros times jumps H. destruct (script_ok times times jumps [] H eq_refl) as [P T].
  destruct (emit_then_pass _ T P) as (es & r & A & B & C).
  exists es, r. repeat split; auto.
  transitivity (instr_times (expected_recs (script_einstrs times jumps)));
    [|apply (instr_times_script_from times times jumps 0)].
  unfold script_einstrs. change (length (@nil Z)) with 0%nat in C. rewrite <- C.
  clear. induction r as [|[g t] r IH]; [reflexivity|]. destruct g; cbn [filter not_time fst instr_times]; now rewrite IH.
Qed.

Lemma jump_time_roundtrip : forall arg label_time,
  lower_goto_time (raise_goto_time arg label_time) label_time = arg.
Proof. intros. unfold raise_goto_time. destruct (Z.eqb_spec arg label_time); cbn; congruence. Qed.

Lemma time_pass_scan : forall l r, time_pass l = Ok r -> r = scan 0 [] (flatten_stmts l).
Proof. intros l r H. rewrite (time_pass_ok_records l r H). apply time_pass_is_label_arithmetic. Qed.

(* without nested function items the stack of [scan] is never touched: the plain running sum *)
Fixpoint run_sum (cur : Z) (l : list flat) : list rec :=
  match l with
  | [] => []
  | FAbs t :: r => (TTime, t) :: run_sum t r
  | FRel d :: r => (TTime, wrap32 (cur + d)) :: run_sum (wrap32 (cur + d)) r
  | FBad :: r => (TTime, cur) :: run_sum cur r
  | FOther g :: r => (g, cur) :: run_sum cur r
  | (FPush | FPop) :: r => run_sum cur r
  end.

Lemma scan_run_sum : forall l cur stk, (forall x, In x l -> x <> FPush /\ x <> FPop) -> scan cur stk l = run_sum cur l.
Proof.
  induction l as [|x l IH]; intros cur stk H; [reflexivity|].
  assert (Hl : forall y, In y l -> y <> FPush /\ y <> FPop) by (intros; apply H; now right).
  destruct x; cbn [scan run_sum]; try now rewrite IH.
  - destruct (H FPush (or_introl eq_refl)) as [A _]. now elim A.
  - destruct (H FPop (or_introl eq_refl)) as [_ A]. now elim A.
Qed.

(* ------------------------------------------------------------------------------------------ *)
(* 5. label names are distinct (after fix 3f82254: the label of target 0 is never named "..r") *)

Definition labels_distinct (times : list Z) (jumps : list (nat * option Z)) : Prop :=
  forall i j a b, label_for times jumps i = Some a -> label_for times jumps j = Some b ->
                  l_id a = l_id b -> i = j.

Lemma label_for_id times jumps i lb : label_for times jumps i = Some lb -> exists r, l_id lb = label_id r i.
Proof.
  unfold label_for. destruct (map snd (filter _ jumps)) as [|a args]; [discriminate|].
  destruct (label_at_offset _ _ (a :: args)) as [is_r t]. intros E. inversion E. now exists is_r.
Qed.

Lemma labels_distinct_all : forall times jumps, labels_distinct times jumps.
Proof.
  intros times jumps i j a b Ha Hb E.
  destruct (label_for_id _ _ _ _ Ha) as [ra Ra]. destruct (label_for_id _ _ _ _ Hb) as [rb Rb].
  rewrite Ra, Rb in E. unfold label_id in E.
  destruct ra, rb; destruct i as [|i], j as [|j]; try reflexivity; lia.
Qed.

(* the label of one offset is unique by construction (label_for is a function of the target); the
   decompiled statement list never contains one label name twice *)
