(* Proofs/LowerArgs.v -- arguments of an instruction call that go through temporaries (lower_instruction):
   the code emitted before the call computes every complex argument into its own temporary, the argument list
   handed to the call reads exactly the values of the source arguments, and freeing the temporaries afterwards
   restores memory. *)
From TV Require Import Base.I32 Base.F32 Model.Ops Model.Expr Model.Lower Model.LowerSem
  Proofs.LowerSound Proofs.LowerShape Proofs.LowerJumps Proofs.LowerStatic.
Open Scope Z_scope.

(* m' agrees with m on registers and on locals below n *)
Definition frame (n : nat) (m m' : mem) : Prop :=
  (forall r, regs m' r = regs m r) /\ (forall d, (d < n)%nat -> locs m' d = locs m d).
Definition arg_low (n : nat) (a : targ) : Prop :=
  match a with TVar _ (VLoc d) => (d < n)%nat | _ => True end.

Lemma frame_refl n m : frame n m m.
Proof. split; intros; reflexivity. Qed.
Lemma frame_trans n n' m1 m2 m3 : (n <= n')%nat -> frame n m1 m2 -> frame n' m2 m3 -> frame n m1 m3.
Proof.
  intros Hn [R1 L1] [R2 L2]. split.
  - intros r. rewrite R2. apply R1.
  - intros d Hd. rewrite L2 by lia. apply L1. exact Hd.
Qed.
Lemma frame_update_high n m d v : (n <= d)%nat -> frame n m (update m (VLoc d) v).
Proof.
  intros Hd. split; [reflexivity|]. intros d' Hd'. cbn. destruct (Nat.eqb_spec d' d); [lia | reflexivity].
Qed.

Lemma read_arg_frame n m m' a : frame n m m' -> arg_low n a -> read_arg m' a = read_arg m a.
Proof.
  intros [R L] Ha. destruct a as [v|t x| | |]; try reflexivity.
  cbn [read_arg]. destruct x as [r|d]; cbn [lookup arg_low] in *; [rewrite R | rewrite (L d Ha)]; reflexivity.
Qed.

Definition free_all (lty : nat -> ty) (ds : list nat) (m : mem) : mem :=
  fold_left (fun m d => update m (VLoc d) (default_of (lty d))) ds m.

Section Args.
  Variable T : optable.
  Variable libm : unop -> Z -> Z.
  Variable avail : ikind -> bool.
  Variable auto_casts : bool.
  Variable rty : Z -> ty.
  Variable lty : nat -> ty.
  Variable diff : nat.
  Variable time mask : Z.
  Hypothesis no_sigil_intrinsics : forall op t, sigil_of_unop op <> None -> avail (KUnOp op t) = false.
  Hypothesis HT : T_ok T libm.

  Notation wt_pure := (wt_pure rty lty).
  Notation classify := (classify auto_casts rty lty).
  Notation lower := (lower avail auto_casts rty lty time mask).
  Notation lower_args := (lower_args avail auto_casts rty lty time mask).
  Notation run_pure := (run_pure T libm lty).
  Notation eval_s := (eval_s T libm rty lty diff).
  Notation fresh := (fresh lty).
  Notation te_agree := (te_agree lty).
  Notation seek_mem := (seek_mem lty).

  Lemma run_pure_frees ds m : run_pure (map LFree ds) m = Ok (free_all lty ds m).
  Proof. revert m. induction ds as [|d ds IH]; intros m; [reflexivity|]. cbn [map LowerSem.run_pure free_all fold_left]. apply IH. Qed.

  Lemma classify_simple_low te e a t n : classify te e = Simple a t -> locals_below n e = true -> arg_low n a.
  Proof.
    destruct e; cbn [Lower.classify locals_below]; intros H Hb; try discriminate; try (inversion H; exact I).
    - inversion H. cbn. apply Nat.ltb_lt in Hb. exact Hb.
    - destruct (as_sigil_auto op); [destruct (_ || _ || _)|]; discriminate.
  Qed.

  Lemma mapM_ext_in {A B} (f h : A -> outcome B) l : (forall x, In x l -> f x = h x) -> mapM f l = mapM h l.
  Proof.
    induction l as [|x l IH]; intros H; [reflexivity|]. cbn [mapM].
    rewrite (H x (or_introl eq_refl)). rewrite IH; [reflexivity|]. intros y Hy. apply H. right. exact Hy.
  Qed.

  Lemma fresh_mono_ m n n' : (n <= n')%nat -> fresh m n -> fresh m n'.
  Proof. intros Hn H d Hd. apply H. lia. Qed.
  Lemma te_agree_step n te1 te2 te3 n' : (n <= n')%nat -> te_agree n te1 te2 -> te_agree n' te2 te3 -> te_agree n te1 te3.
  Proof. intros Hn H1 H2' d Hd. rewrite H2' by lia. apply H1. exact Hd. Qed.

  (* memory *)
  Lemma args_sound n0 fuel : forall args s c la ds s',
    lower_args fuel args s = Ok (c, la, ds, s') ->
    Forall (fun e => wt_pure (te s) e = true /\ locals_below n0 e = true) args -> (n0 <= g s)%nat ->
    forall m vs, fresh m (g s) -> mapM (eval_s (te s) m) args = Ok vs ->
    exists m', run_pure c m = Ok m' /\ mapM (read_arg m') la = Ok vs /\ frame (g s) m m' /\
               free_all lty (rev ds) m' = m /\ (g s <= g s')%nat /\ te_agree (g s) (te s) (te s').
  Proof.
    pose proof (lower_sound T libm avail auto_casts rty lty diff time mask no_sigil_intrinsics HT fuel) as IHl.
    induction args as [|e args IH]; intros s c la ds s' Hl Hwf Hn m vs Hfr Hev.
    - cbn in Hl. inversion Hl; subst. cbn in Hev. inversion Hev; subst. exists m.
      split; [reflexivity|]. split; [reflexivity|]. split; [apply frame_refl|]. split; [reflexivity|]. split; [lia|].
      intros d _. reflexivity.
    - pose proof (Forall_inv Hwf) as [Hw Hb]. pose proof (Forall_inv_tail Hwf) as Hwf'.
      assert (Hbg : locals_below (g s) e = true) by (eapply (locals_below_mono libm rty lty 0 n0 (g s)); eassumption).
      cbn [mapM] in Hev. destruct (eval_s (te s) m e) as [v| | |] eqn:Ee; cbn [obind] in Hev; try discriminate.
      destruct (mapM (eval_s (te s) m) args) as [vs'| | |] eqn:Ers; cbn [obind] in Hev; try discriminate.
      inversion Hev; subst vs. clear Hev.
      cbn [Lower.lower_args] in Hl.
      destruct (classify (te s) e) as [a ta|ea tmp_ty read_ty] eqn:Ec.
      + (* simple argument *)
        destruct (lower_args fuel args s) as [[[[c0 la0] ds0] s0]| | |] eqn:El; try discriminate.
        inversion Hl; subst c la ds s'. clear Hl.
        destruct (IH s c0 la0 ds0 s0 El Hwf' Hn m vs' Hfr Ers) as [m' [Hr [Hm [Hf [Hfree [Hg Ht]]]]]].
        exists m'. split; [exact Hr|]. split; [|auto].
        cbn [mapM]. rewrite (read_arg_frame (g s) m m' a Hf (classify_simple_low _ _ _ _ _ Ec Hbg)).
        destruct (classify_simple T libm auto_casts rty lty diff (te s) m e a ta Hw Ec) as [Hra _].
        rewrite Hra, Ee. cbn [obind]. rewrite Hm. reflexivity.
      + (* through a temporary *)
        unfold alloc_temp in Hl.
        destruct (lower fuel (CAssignOp (mkvar (Some (sigil_of_ty tmp_ty)) (VLoc (g s))) None ea)
                    (mklst (S (g s)) ((g s, tmp_ty) :: te s))) as [[c1 s2]| | |] eqn:El1; try discriminate.
        destruct (lower_args fuel args s2) as [[[[c2 la2] ds2] s3]| | |] eqn:El2; try discriminate.
        inversion Hl; subst c la ds s'. clear Hl.
        destruct (classify_elab T libm auto_casts rty lty diff HT (te s) e ea tmp_ty read_ty Hw Ec)
          as [Hwa [_ [_ [_ [Hba Hval]]]]].
        destruct (Hval m v Ee) as [xv [Eea Hcast]].
        destruct (temp_compute T libm avail auto_casts rty lty diff time mask fuel IHl s ea tmp_ty m xv c1 s2 Hwa (Hba _ Hbg) Hfr Eea El1)
          as [Hr1 [Hg1 Ht1]].
        set (d := g s) in *.
        set (m1 := update m (VLoc d) xv) in *.
        assert (Hwf2 : Forall (fun e0 => wt_pure (te s2) e0 = true /\ locals_below n0 e0 = true) args).
        { eapply Forall_impl; [|exact Hwf']. intros e0 [Hw0 Hb0]. split; [|exact Hb0].
          rewrite (agree_wt rty lty d (te s) (te s2) Ht1 e0); [exact Hw0|].
          eapply (locals_below_mono libm rty lty 0 n0 d); eassumption. }
        assert (Hfr1 : fresh m1 (g s2)).
        { intros d' Hd'. unfold m1. cbn. destruct (Nat.eqb_spec d' d); [lia|]. apply Hfr. fold d. lia. }
        assert (Hev2 : mapM (eval_s (te s2) m1) args = Ok vs').
        { rewrite <- Ers. apply mapM_ext_in. intros e0 Hin.
          rewrite Forall_forall in Hwf'. destruct (Hwf' e0 Hin) as [Hw0 Hb0].
          assert (Hb0' : locals_below d e0 = true) by (eapply (locals_below_mono libm rty lty 0 n0 d); eassumption).
          rewrite (agree_eval T libm rty lty diff d (te s) (te s2) m1 Ht1 e0 Hb0').
          unfold m1. apply eval_update_indep; [exact Hw0|].
          apply (below_not_uses libm rty lty 0 d d); [lia | exact Hb0']. }
        destruct (IH s2 c2 la2 ds2 s3 El2 Hwf2 ltac:(lia) m1 vs' Hfr1 Hev2) as [m' [Hr [Hm [Hf [Hfree [Hg Ht]]]]]].
        exists m'. split; [|split; [|split; [|split; [|split]]]].
        * change (LAlloc d tmp_ty :: c1 ++ c2) with ((LAlloc d tmp_ty :: c1) ++ c2).
          rewrite run_pure_app, Hr1. cbn [obind]. exact Hr.
        * cbn [mapM LowerSem.read_arg lookup]. destruct Hf as [_ Lf]. rewrite (Lf d) by lia.
          unfold m1. cbn [update locs]. rewrite Nat.eqb_refl. rewrite Hcast. cbn [expect obind]. rewrite Hm. reflexivity.
        * eapply frame_trans; [| apply (frame_update_high d m d xv); lia | exact Hf]. lia.
        * cbn [rev]. unfold free_all. rewrite fold_left_app. fold (free_all lty (rev ds2) m'). rewrite Hfree.
          cbn [fold_left]. unfold m1. rewrite update_update_same. rewrite <- (Hfr d) by (fold d; lia).
          apply (update_lookup_id m (VLoc d)).
        * lia.
        * eapply te_agree_step; [| exact Ht1 | exact Ht]. lia.
  Qed.

  Lemma labels_in_mono_ lo hi lo' hi' code : (lo' <= lo)%nat -> (hi <= hi')%nat -> labels_in lo hi code -> labels_in lo' hi' code.
  Proof.
    intros H1 H2' H. unfold labels_in in *. eapply Forall_impl; [|exact H].
    intros st Hst. destruct st; cbn in *; auto. destruct l; [auto | lia].
  Qed.

  (* shape *)
  Lemma args_static fuel : forall args s c la ds s',
    lower_args fuel args s = Ok (c, la, ds, s') ->
    Forall (at_time time mask) c /\ Forall (instr_ok None) c /\ labels_in (g s) (g s') c /\ (g s <= g s')%nat /\
    te_agree (g s) (te s) (te s') /\
    (forall mid, (forall m, seek_mem mid m = m) ->
       forall m, fresh m (g s) -> seek_mem (c ++ mid ++ map LFree (rev ds)) m = m).
  Proof.
    induction args as [|e args IH]; intros s c la ds s' Hl.
    - cbn in Hl. inversion Hl; subst. split; [constructor|]. split; [constructor|]. split; [constructor|]. split; [lia|].
      split; [intros d _; reflexivity|]. intros mid Hmid m _. cbn [app rev map]. rewrite app_nil_r. apply Hmid.
    - cbn [Lower.lower_args] in Hl.
      destruct (classify (te s) e) as [a ta|ea tmp_ty read_ty] eqn:Ec.
      + destruct (lower_args fuel args s) as [[[[c0 la0] ds0] s0]| | |] eqn:El; try discriminate.
        inversion Hl; subst c la ds s'. exact (IH s c0 la0 ds0 s0 El).
      + unfold alloc_temp in Hl.
        destruct (lower fuel (CAssignOp (mkvar (Some (sigil_of_ty tmp_ty)) (VLoc (g s))) None ea)
                    (mklst (S (g s)) ((g s, tmp_ty) :: te s))) as [[c1 s2]| | |] eqn:El1; try discriminate.
        destruct (lower_args fuel args s2) as [[[[c2 la2] ds2] s3]| | |] eqn:El2; try discriminate.
        inversion Hl; subst c la ds s'. clear Hl.
        destruct (lower_shape avail auto_casts rty lty time mask fuel _ _ c1 s2 El1) as [G1 [L1 [N1 A1]]]. cbn [g te] in G1, L1, N1, A1.
        destruct (IH s2 c2 la2 ds2 s3 El2) as [Ht2 [Hi2 [L2 [G2 [A2 N2]]]]].
        set (d := g s) in *.
        split; [constructor; [exact I|]; apply Forall_app; split; [eapply lower_times; exact El1 | exact Ht2]|].
        split; [constructor; [exact I|]; apply Forall_app; split;
                [exact (lower_instr_ok avail auto_casts rty lty time mask fuel _ _ c1 s2 El1) | exact Hi2]|].
        split; [constructor; [exact I|]; apply labels_in_app;
                [eapply labels_in_mono_; [| |exact L1]; lia | eapply labels_in_mono_; [| |exact L2]; lia]|].
        split; [lia|].
        split; [intros d' Hd'; rewrite (A2 d') by lia; rewrite (A1 d') by lia; unfold loc_ty; cbn [assoc]; destruct (Nat.eqb_spec d' d); [lia | reflexivity]|].
        intros mid Hmid m Hfr.
        cbn [rev]. rewrite map_app. cbn [map].
        replace ((LAlloc d tmp_ty :: c1 ++ c2) ++ mid ++ map LFree (rev ds2) ++ [LFree d])
          with (LAlloc d tmp_ty :: c1 ++ (c2 ++ mid ++ map LFree (rev ds2)) ++ [LFree d])
          by (cbn [app]; rewrite <- !app_assoc; reflexivity).
        cbn [LowerShape.seek_mem]. rewrite seek_mem_app.
        set (m0 := update m (VLoc d) (default_of tmp_ty)).
        assert (Hf0 : fresh m0 (S d)).
        { intros d' Hd'. unfold m0. cbn. destruct (Nat.eqb_spec d' d); [lia|]. apply Hfr. fold d. lia. }
        rewrite (N1 m0 Hf0).
        rewrite seek_mem_app. rewrite (N2 mid Hmid m0 (fresh_mono_ _ _ _ G1 Hf0)).
        cbn [LowerShape.seek_mem]. unfold m0. rewrite update_update_same. rewrite <- (Hfr d) by (fold d; lia).
        apply (update_lookup_id m (VLoc d)).
  Qed.
End Args.
