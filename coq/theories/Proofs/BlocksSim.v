(* Proofs/BlocksSim.v -- the block simulation: every terminating run of the structured
   interpreter (instrumented, [Strict fl]) is reproduced by the flat interpreter on the desugared
   code.  Suffix semantics + label environment ([env_ok]), continuation style ([reaches]),
   induction on the source fuel. *)
From TV Require Import Base.I32 Model.Blocks Proofs.BlocksStatic.
Open Scope Z_scope.

Lemma obind_ok {A B} (m : outcome A) (f : A -> outcome B) r :
  obind m f = Ok r -> exists a, m = Ok a /\ f a = Ok r.
Proof. destruct m; cbn; try discriminate. eauto. Qed.

Section Sim.
  Variable L : lang.

  (* ---- wait ---- *)
  Lemma wait_ge t (st st1 : state L) : wait L t st = Ok st1 -> t <= s_time st1.
  Proof.
    unfold wait. destruct (s_time st <? t) eqn:E.
    - destruct (_ && _); intros H; inversion H; subst; cbn; lia.
    - intros H; inversion H; subst. apply Z.ltb_ge in E. lia.
  Qed.
  Lemma wait_noop t (st : state L) : t <= s_time st -> wait L t st = Ok st.
  Proof. unfold wait. intros. destruct (s_time st <? t) eqn:E; auto. apply Z.ltb_lt in E. lia. Qed.
  Lemma wait_idem t (st st1 : state L) : wait L t st = Ok st1 -> wait L t st1 = Ok st1.
  Proof. intros. apply wait_noop. eapply wait_ge; eauto. Qed.

  Lemma set_time_same t (st : state L) : s_time st = t -> set_time L t st = st.
  Proof. destruct st; cbn; intros; subst; reflexivity. Qed.

  (* ---- reaches ---- *)
  Definition reaches (env : fenv L) t1 c1 (s1 : fstate L) t2 c2 (s2 : fstate L) : Prop :=
    forall k r, frun L k env t2 c2 s2 = Ok r -> exists k', frun L k' env t1 c1 s1 = Ok r.

  Lemma reaches_refl env t c s : reaches env t c s t c s.
  Proof. intros k r H; eauto. Qed.
  Lemma reaches_trans env t1 c1 s1 t2 c2 s2 t3 c3 s3 :
    reaches env t1 c1 s1 t2 c2 s2 -> reaches env t2 c2 s2 t3 c3 s3 -> reaches env t1 c1 s1 t3 c3 s3.
  Proof. intros A B k r H. apply B in H. destruct H as [k' H]. apply A in H. exact H. Qed.

  Definition is_nop (i : finstr L) : Prop :=
    match i with FLabel _ | FScopeEnd _ | FScopeEndTemp _ | FDeclTemp _ => True | _ => False end.

  Lemma step_nop env t i c st tm :
    is_nop i -> t <= s_time st -> reaches env t (i :: c) (st, tm) t c (st, tm).
  Proof.
    intros N G k r H. exists (S k). cbn [frun]. 
    assert (finstr_time L i t = t) as -> by (destruct i; cbn in N; try contradiction; reflexivity).
    cbn [fst snd]. rewrite wait_noop by auto. cbn [obind].
    destruct i; cbn in N; try contradiction; exact H.
  Qed.

  Lemma step_nops env t c1 c st tm :
    Forall is_nop c1 -> t <= s_time st -> reaches env t (c1 ++ c) (st, tm) t c (st, tm).
  Proof.
    induction 1; intros; cbn [app]. apply reaches_refl.
    eapply reaches_trans. apply step_nop; auto. auto.
  Qed.

  Lemma step_atom env t a c st st1 st2 tm :
    wait L (atom_time L a t) st = Ok st1 -> exec_atom L a st1 = Ok st2 ->
    reaches env t (FAtom a :: c) (st, tm) (atom_time L a t) c (st2, tm).
  Proof.
    intros W E k r H. exists (S k). cbn [frun finstr_time fst snd]. rewrite W. cbn [obind]. rewrite E. cbn [obind]. exact H.
  Qed.

  Lemma step_absorb env t i c st st1 tm :
    wait L (finstr_time L i t) st = Ok st1 -> reaches env t (i :: c) (st, tm) t (i :: c) (st1, tm).
  Proof.
    intros W k r H. exists k. destruct k; [discriminate|]. cbn [frun fst snd] in *.
    rewrite W. rewrite (wait_idem _ _ _ W) in H. exact H.
  Qed.

  Lemma step_goto env t l c st tm tl cl :
    t <= s_time st -> env l = Some (tl, cl) ->
    reaches env t (FGoto l :: c) (st, tm) tl cl (set_time L tl st, tm).
  Proof.
    intros G E k r H. exists (S k). cbn [frun finstr_time fst snd]. rewrite wait_noop by auto. cbn [obind]. rewrite E. exact H.
  Qed.

  Lemma step_cond_jump env t k0 fc l c st tm b fs' tl cl :
    t <= s_time st -> eval_fcond L fc (st, tm) = Ok (b, fs') -> Bool.eqb b (is_if k0) = true ->
    env l = Some (tl, cl) ->
    reaches env t (FCondGoto k0 fc l :: c) (st, tm) tl cl (set_time L tl (fst fs'), snd fs').
  Proof.
    intros G E B El k r H. exists (S k). cbn [frun finstr_time fst snd]. rewrite wait_noop by auto. cbn [obind].
    rewrite E. cbn [obind fst snd]. rewrite B, El. exact H.
  Qed.

  Lemma step_cond_fall env t k0 fc l c st tm b fs' :
    t <= s_time st -> eval_fcond L fc (st, tm) = Ok (b, fs') -> Bool.eqb b (is_if k0) = false ->
    reaches env t (FCondGoto k0 fc l :: c) (st, tm) t c fs'.
  Proof.
    intros G E B k r H. exists (S k). cbn [frun finstr_time fst snd]. rewrite wait_noop by auto. cbn [obind].
    rewrite E. cbn [obind fst snd]. rewrite B. exact H.
  Qed.

  Lemma step_set env t v e c st tm z r' :
    t <= s_time st -> eval_int L e (s_regs st) = Ok (z, r') ->
    reaches env t (FSet v e :: c) (st, tm) t c (wr_f L v z (set_regs L r' st, tm)).
  Proof.
    intros G E k r H. exists (S k). cbn [frun finstr_time fst snd]. rewrite wait_noop by auto. cbn [obind].
    rewrite E. cbn [obind fst snd]. exact H.
  Qed.

  (* ---- label environments ---- *)
  Definition env_ok (env : fenv L) (t : Z) (c rest : list (finstr L)) : Prop :=
    forall c1 l c2, c = c1 ++ FLabel l :: c2 -> env l = Some (code_after L c1 t, c2 ++ rest).

  Lemma env_ok_cons env t i c rest :
    env_ok env t (i :: c) rest -> env_ok env (finstr_time L i t) c rest.
  Proof. intros H c1 l c2 E. subst. apply (H (i :: c1) l c2). reflexivity. Qed.

  Lemma env_ok_label env t l c rest :
    env_ok env t (FLabel l :: c) rest -> env l = Some (t, c ++ rest).
  Proof. intros H. apply (H [] l c). reflexivity. Qed.

  Lemma env_ok_app_l env t c1 c2 rest :
    env_ok env t (c1 ++ c2) rest -> env_ok env t c1 (c2 ++ rest).
  Proof.
    intros H d1 l d2 E. subst. rewrite app_assoc. apply (H d1 l (d2 ++ c2)).
    rewrite <- app_assoc. reflexivity.
  Qed.

  Lemma env_ok_app_r env t c1 c2 rest :
    env_ok env t (c1 ++ c2) rest -> env_ok env (code_after L c1 t) c2 rest.
  Proof.
    intros H d1 l d2 E. subst. rewrite <- code_after_app. apply (H (c1 ++ d1) l d2).
    rewrite <- app_assoc. reflexivity.
  Qed.

  (* ---- bookends ---- *)
  Lemma first_nop_inv (b : block L) : first_nop L b = true -> exists b', b = BCons (SAtom ANop) b'.
  Proof. destruct b as [|s b]; cbn; try discriminate. destruct s; try discriminate. destruct a; try discriminate. eauto. Qed.

  Lemma start_time_nop (b : block L) t : first_nop L b = true -> start_time L b t = Some t.
  Proof. intros H. apply first_nop_inv in H. destruct H as [b' ->]. reflexivity. Qed.

  Lemma end_time_nop (b : block L) t : last_nop L b = true -> end_time L b t = Some (block_after L b t).
  Proof.
    revert t. induction b as [|s b IH]; intros t H. discriminate.
    destruct b as [|s' b'].
    - destruct s; try discriminate. destruct a; try discriminate. reflexivity.
    - assert (last_nop L (BCons s' b') = true) as H' by (destruct s; auto; destruct a; auto).
      specialize (IH (stmt_after L s t) H'). cbn [end_time block_after] in *. exact IH.
  Qed.

  (* ---- unfolding equations ---- *)
  Lemma run_block_S f m t b st :
    run_block L (S f) m t b st =
    match b with
    | BNil => Ok (Normal, st)
    | BCons s b' =>
        do st1 <- wait L (stmt_time L s t) st;
        do r <- run_stmt L f m t s st1;
        match fst r with
        | Normal => run_block L f m (stmt_after L s t) b' (snd r)
        | Break => Ok (Break, snd r)
        end
    end.
  Proof. reflexivity. Qed.

  Lemma run_block_time_ge f m t b st st' :
    run_block L f m t b st = Ok (Normal, st') -> last_nop L b = true -> block_after L b t <= s_time st'.
  Proof.
    revert f t st. induction b as [|s b IH]; intros f t st R N. discriminate.
    destruct f as [|f]; [discriminate|]. rewrite run_block_S in R.
    apply obind_ok in R. destruct R as (st1 & W & R).
    apply obind_ok in R. destruct R as ([r st2] & RS & R). cbn [fst snd] in R.
    destruct r; [|discriminate].
    destruct b as [|s' b'].
    - destruct s; try discriminate. destruct a; try discriminate.
      destruct f as [|f]; [discriminate|]. cbn in RS. inversion RS; subst.
      cbn in R. inversion R; subst.
      cbn. eapply wait_ge; eauto.
    - assert (last_nop L (BCons s' b') = true) as H' by (destruct s; auto; destruct a; auto).
      cbn [block_after]. eapply IH; eauto.
  Qed.

  Lemma run_stmt_S f m t s st :
    run_stmt L (S f) m t s st =
        match s with
        | SAtom a => do st' <- exec_atom L a st; Ok (Normal, st')
        | SBreak _ => Ok (Break, st)
        | SCondBreak k c _ =>
            do bs <- eval_cond L c st;
            Ok (if Bool.eqb (fst bs) (is_if k) then Break else Normal, snd bs)
        | SBlock b => run_block L f m t b st
        | SCond k c b rest => run_chain L f m t true k c b rest st
        | SLoop _ b =>
            do ts <- expect_time (start_time L b t);
            do te <- expect_time (end_time L b t);
            do st' <- run_iter L f m t b ts te LKLoop st;
            Ok (Normal, st')
        | SDoWhile _ c b =>
            do ts <- expect_time (start_time L b t);
            do te <- expect_time (end_time L b t);
            do st' <- run_iter L f m t b ts te (LKWhile c) st;
            Ok (Normal, st')
        | SWhile _ c b =>
            do ts <- expect_time (start_time L b t);
            do te <- expect_time (end_time L b t);
            do bs <- eval_cond L c st;
            if fst bs then
              do st' <- run_iter L f m t b ts te (LKWhile c) (snd bs);
              Ok (Normal, st')
            else Ok (Normal, set_time L te (snd bs))
        | STimes _ None count b =>
            do ts <- expect_time (start_time L b t);
            do te <- expect_time (end_time L b t);
            do zr <- eval_int L count (s_regs st);
            let st1 := set_regs L (snd zr) (set_time L te st) in
            let n := fst zr in
            if n =? 0 then Ok (Normal, st1)
            else
              do ck <- check m (0 <? n) E_NEGCOUNT;
              if n <? 0 then Ok (Normal, st1)
              else
                do st2 <- fall L m ts (s_time st) st1;
                do st' <- run_iter L f m t b ts te (LKCount n) st2;
                Ok (Normal, st')
        | STimes _ (Some v) count b =>
            do ts <- expect_time (start_time L b t);
            do te <- expect_time (end_time L b t);
            do zr <- eval_int L count (s_regs st);
            let n := fst zr in
            let st1 := set_regs L (wr L v n (snd zr)) (set_time L te st) in
            if n =? 0 then Ok (Normal, st1)
            else
              do st2 <- fall L m ts (s_time st) st1;
              do st' <- run_iter L f m t b ts te (LKClobber v) st2;
              Ok (Normal, st')
        end.
  Proof. reflexivity. Qed.

  Lemma run_chain_S f m t first k c b rest st :
    run_chain L (S f) m t first k c b rest st =
        do bs <- eval_cond L c st;
        let st1 := snd bs in
        if Bool.eqb (fst bs) (is_if k) then
          do ts <- expect_time (start_time L b t);
          do st2 <- (if first then fall L m ts (s_time st1) st1 else Ok (set_time L ts st1));
          do r <- run_block L f m t b st2;
          match fst r with
          | Break => Ok (Break, snd r)
          | Normal =>
              do te <- expect_time (chain_end_time L rest b t);
              do st' <- match rest with
                        | CEnd => fall L m te (s_time (snd r)) (snd r)
                        | _ => Ok (set_time L te (snd r))
                        end;
              Ok (Normal, st')
          end
        else
          match rest with
          | CEnd => do te <- expect_time (end_time L b t); Ok (Normal, set_time L te st1)
          | CElse eb =>
              let t1 := block_after L b t in
              do ts <- expect_time (start_time L eb t1);
              do r <- run_block L f m t1 eb (set_time L ts st1);
              match fst r with
              | Break => Ok (Break, snd r)
              | Normal =>
                  do te <- expect_time (end_time L eb t1);
                  do st' <- fall L m te (s_time (snd r)) (snd r);
                  Ok (Normal, st')
              end
          | CElif k' c' b' rest' => run_chain L f m (block_after L b t) false k' c' b' rest' st1
          end.
  Proof. reflexivity. Qed.

  Lemma run_iter_S f m t b ts te lk st :
    run_iter L (S f) m t b ts te lk st =
        do r <- run_block L f m t b st;
        let st1 := snd r in
        match fst r with
        | Break => Ok (set_time L te st1)
        | Normal =>
            match lk with
            | LKLoop => run_iter L f m t b ts te lk (set_time L ts st1)
            | LKWhile c =>
                do bs <- eval_cond L c st1;
                if fst bs then run_iter L f m t b ts te lk (set_time L ts (snd bs)) else Ok (snd bs)
            | LKCount n =>
                if 1 <? n then run_iter L f m t b ts te (LKCount (n - 1)) (set_time L ts st1) else Ok st1
            | LKClobber v =>
                do x <- rd L v (s_regs st1);
                if in_i32b (x - 1) then
                  let st2 := set_regs L (wr L v (x - 1) (s_regs st1)) st1 in
                  if x - 1 =? 0 then Ok st2
                  else
                    do ck <- check m (match m with Strict _ PredecGtZero => 0 <? x - 1 | _ => true end) E_NEGCOUNTER;
                    run_iter L f m t b ts te lk (set_time L ts st2)
                else Panic P_OVERFLOW
            end
        end.
  Proof. reflexivity. Qed.

  Lemma scope_ends_nops (b : block L) : Forall is_nop (scope_ends L b).
  Proof.
    induction b as [|s b IH]; cbn [scope_ends]. constructor.
    destruct s; auto. destruct a; auto. apply Forall_app. split; auto.
    clear. induction ds; cbn; constructor; cbn; auto.
  Qed.

  (* ---- the simulation ---- *)
  Variable tg : bool.
  Variable fl : flavour.
  Hypothesis H_const : forall e n r, const_int L e = Some n -> eval_int L e r = Ok (n, r).
  Hypothesis H_i32 : forall e r z r', eval_int L e r = Ok (z, r') -> in_i32 z.
  Hypothesis H_rw : forall v z r, in_i32 z -> rd L v (wr L v z r) = Ok z.

  (* at a fall-through point the guarded nested run continues from the state the flat run has *)
  Lemma fall_sim t tn (st st' : state L) :
    fall L (Strict tg fl) t tn st = Ok st' -> st' = set_time L tn st.
  Proof.
    unfold fall. destruct tg.
    - destruct (tn =? t) eqn:E; [|discriminate]. apply Z.eqb_eq in E. subst. intros H; inversion H; auto.
    - intros H; inversion H; auto.
  Qed.
  Lemma set_time_self (st : state L) : set_time L (s_time st) st = st.
  Proof. destruct st; reflexivity. Qed.

  Definition tm_agree (g : nat) (tm tm' : temps) : Prop :=
    forall n, (n < g)%nat -> tget n tm' = tget n tm.
  Lemma tm_agree_refl g tm : tm_agree g tm tm. Proof. intros n H; reflexivity. Qed.
  Lemma tm_agree_trans g g' tm1 tm2 tm3 :
    (g <= g')%nat -> tm_agree g tm1 tm2 -> tm_agree g' tm2 tm3 -> tm_agree g tm1 tm3.
  Proof. intros G A B n H. rewrite B by lia. apply A; auto. Qed.
  Lemma tget_tset_same n z tm : tget n (tset n z tm) = Some z.
  Proof.
    induction tm as [|[k x] r IH]; cbn [tset tget]. rewrite Nat.eqb_refl; reflexivity.
    destruct (Nat.eqb n k) eqn:E; cbn [tget]. rewrite Nat.eqb_refl; reflexivity. rewrite E. exact IH.
  Qed.
  Lemma tget_tset_other k n z tm : k <> n -> tget k (tset n z tm) = tget k tm.
  Proof.
    intros NE. induction tm as [|[j x] r IH]; cbn [tset tget].
    - destruct (Nat.eqb k n) eqn:E; auto. apply Nat.eqb_eq in E. contradiction.
    - destruct (Nat.eqb n j) eqn:E; cbn [tget].
      + apply Nat.eqb_eq in E. subst j. destruct (Nat.eqb k n) eqn:E2; auto. apply Nat.eqb_eq in E2. contradiction.
      + destruct (Nat.eqb k j); auto.
  Qed.
  Lemma tm_agree_set g n z tm : (g <= n)%nat -> tm_agree g tm (tset n z tm).
  Proof. intros G k H. apply tget_tset_other. lia. Qed.

  Definition benv (env : fenv L) (cur : option nat) (tb : Z) (cb : list (finstr L)) : Prop :=
    forall id, cur = Some id -> env (LLoopEnd id) = Some (tb, cb).

  Definition target (env : fenv L) (r : res) t c (st : state L) tm t1 c1 (st' : state L) tm' tb cb : Prop :=
    match r with
    | Normal => reaches env t c (st, tm) t1 c1 (st', tm')
    | Break => reaches env t c (st, tm) tb cb (set_time L tb st', tm')
    end.

  Definition P_block (f : nat) : Prop :=
    forall t b st r st' g cur env rest tm tb cb,
      run_block L f (Strict tg fl) t b st = Ok (r, st') -> wf_stmts L cur b = true ->
      env_ok env t (fst (desugar_stmts L fl b g)) rest -> benv env cur tb cb ->
      exists tm', tm_agree g tm tm' /\
        target env r t (fst (desugar_stmts L fl b g) ++ rest) st tm (block_after L b t) rest st' tm' tb cb.

  Definition P_stmt (f : nat) : Prop :=
    forall t s st r st' g cur env rest tm tb cb,
      run_stmt L f (Strict tg fl) t s st = Ok (r, st') -> wf_stmt L cur s = true ->
      stmt_time L s t <= s_time st ->
      env_ok env t (fst (desugar_stmt L fl s g)) rest -> benv env cur tb cb ->
      exists tm', tm_agree g tm tm' /\
        target env r t (fst (desugar_stmt L fl s g) ++ rest) st tm (stmt_after L s t) rest st' tm' tb cb.

  Lemma wf_stmts_cons cur (s : stmt L) b : wf_stmts L cur (BCons s b) = wf_stmt L cur s && wf_stmts L cur b.
  Proof. reflexivity. Qed.
  Lemma block_after_cons (s : stmt L) b t : block_after L (BCons s b) t = block_after L b (stmt_after L s t).
  Proof. reflexivity. Qed.
  Lemma wf_SBlock cur (b : block L) : wf_stmt L cur (SBlock b) = bookended L b && wf_stmts L cur b.
  Proof. reflexivity. Qed.
  Lemma wf_SCond cur k c (b : block L) rest :
    wf_stmt L cur (SCond k c b rest) = bookended L b && wf_stmts L cur b && wf_chain L cur rest.
  Proof. reflexivity. Qed.
  Lemma wf_SLoop cur id (b : block L) : wf_stmt L cur (SLoop id b) = bookended L b && wf_stmts L (Some id) b.
  Proof. reflexivity. Qed.
  Lemma wf_SWhile cur id c (b : block L) : wf_stmt L cur (SWhile id c b) = bookended L b && wf_stmts L (Some id) b.
  Proof. reflexivity. Qed.
  Lemma wf_SDoWhile cur id c (b : block L) : wf_stmt L cur (SDoWhile id c b) = bookended L b && wf_stmts L (Some id) b.
  Proof. reflexivity. Qed.
  Lemma wf_STimes cur id cl c (b : block L) : wf_stmt L cur (STimes id cl c b) = bookended L b && wf_stmts L (Some id) b.
  Proof. reflexivity. Qed.
  Lemma wf_CElse cur (b : block L) : wf_chain L cur (CElse b) = bookended L b && wf_stmts L cur b.
  Proof. reflexivity. Qed.
  Lemma wf_CElif cur k c (b : block L) rest :
    wf_chain L cur (CElif k c b rest) = bookended L b && wf_stmts L cur b && wf_chain L cur rest.
  Proof. reflexivity. Qed.

  (* a block with its scope ends, given the lemma for its statements *)
  Lemma block_scope f : P_block f ->
    forall t b st r st' g cur env rest tm tb cb,
      run_block L f (Strict tg fl) t b st = Ok (r, st') -> bookended L b = true -> wf_stmts L cur b = true ->
      env_ok env t (fst (desugar_block L fl b g)) rest -> benv env cur tb cb ->
      exists tm', tm_agree g tm tm' /\
        target env r t (fst (desugar_block L fl b g) ++ rest) st tm (block_after L b t) rest st' tm' tb cb.
  Proof.
    intros PB t b st r st' g cur env rest tm tb cb R BK WF EO BE.
    rewrite desugar_block_eq in *. cbn [fst] in *.
    destruct (PB t b st r st' g cur env (scope_ends L b ++ rest) tm tb cb R WF (env_ok_app_l _ _ _ _ _ EO) BE) as (tm' & A & T).
    exists tm'. split; auto. rewrite <- app_assoc.
    destruct r; cbn [target] in *; auto.
    eapply reaches_trans. exact T.
    apply step_nops. apply scope_ends_nops.
    eapply run_block_time_ge; eauto. unfold bookended in BK. apply andb_prop in BK. tauto.
  Qed.

  Lemma desugar_head s g t cur : wf_stmt L cur s = true ->
    exists i c', fst (desugar_stmt L fl s g) = i :: c' /\ finstr_time L i t = stmt_time L s t.
  Proof.
    intros WF. destruct s; try destruct clobber; dsg; cbn [fst]; try (do 2 eexists; split; reflexivity).
    rewrite wf_SBlock in WF. apply andb_prop in WF. destruct WF as [BK _].
    unfold bookended in BK. apply andb_prop in BK. destruct BK as [F _].
    apply first_nop_inv in F. destruct F as [b' ->].
    rewrite desugar_block_eq, desugar_BCons, desugar_SAtom. cbn [fst app]. do 2 eexists; split; reflexivity.
  Qed.

  Ltac inv_bind H x E := apply obind_ok in H; destruct H as (x & E & H).
  Ltac norm_app := repeat (progress cbn [app] || rewrite <- app_assoc).

  Lemma step_block f : P_stmt f -> P_block f -> P_block (S f).
  Proof.
    intros PS PB t b st r st' g cur env rest tm tb cb R WF EO BE.
    rewrite run_block_S in R. destruct b as [|s b'].
    - inversion R; subst. exists tm. split. apply tm_agree_refl. dsg. cbn. apply reaches_refl.
    - inv_bind R st1 W. inv_bind R rs RS. destruct rs as [r1 st2]. cbn [fst snd] in R.
      rewrite wf_stmts_cons in WF. apply andb_prop in WF. destruct WF as [WFs WFb].
      rewrite desugar_BCons in *. cbn [fst] in *.
      pose proof (proj1 (gensym_mono L fl) s g) as G1.
      destruct (desugar_head s g t cur WFs) as (i & c' & HD & HT).
      assert (ABS : reaches env t (fst (desugar_stmt L fl s g) ++ fst (desugar_stmts L fl b' (snd (desugar_stmt L fl s g))) ++ rest) (st, tm)
                      t (fst (desugar_stmt L fl s g) ++ fst (desugar_stmts L fl b' (snd (desugar_stmt L fl s g))) ++ rest) (st1, tm)).
      { rewrite HD. cbn [app]. apply step_absorb. rewrite HT. exact W. }
      destruct (PS t s st1 r1 st2 g cur env _ tm tb cb RS WFs (wait_ge _ _ _ W) (env_ok_app_l _ _ _ _ _ EO) BE) as (tm1 & A1 & T1).
      destruct r1.
      + pose proof (env_ok_app_r _ _ _ _ _ EO) as EO2.
        rewrite (proj1 (times_preserved_all L fl)) in EO2.
        destruct (PB _ b' st2 r st' _ cur env rest tm1 tb cb R WFb EO2 BE) as (tm' & A2 & T2).
        exists tm'. split. eapply tm_agree_trans; eauto.
        rewrite <- app_assoc. rewrite block_after_cons.
        cbn [target] in T1.
        destruct r; cbn [target] in *; (eapply reaches_trans; [exact ABS|]; eapply reaches_trans; [exact T1|]; exact T2).
      + inversion R; subst. exists tm1. split; auto. rewrite <- app_assoc. cbn [target] in *.
        eapply reaches_trans; [exact ABS| exact T1].
  Qed.

  Lemma tm_agree_weaken g g' a b : (g <= g')%nat -> tm_agree g' a b -> tm_agree g a b.
  Proof. intros G A n H. apply A. lia. Qed.

  Lemma eval_cond_time c (st : state L) b st' : eval_cond L c st = Ok (b, st') -> s_time st' = s_time st.
  Proof. unfold eval_cond. intros H. apply obind_ok in H. destruct H as (zr & _ & H). inversion H; subst. reflexivity. Qed.

  Lemma eval_fcond_expr c (st : state L) tm b st' :
    eval_cond L c st = Ok (b, st') -> eval_fcond L (CExpr c) (st, tm) = Ok (b, (st', tm)).
  Proof. intros H. cbn [eval_fcond fst snd]. rewrite H. reflexivity. Qed.

  Definition back_ok (lk : loopkind L) (back : finstr L) (lbl : label) (tm : temps) (g0 gb : nat) : Prop :=
    match lk with
    | LKLoop => back = FGoto lbl
    | LKWhile c => back = FCondGoto KIf (CExpr c) lbl
    | LKClobber v => back = FCondGoto KIf (count_cond L fl (FUser v)) lbl
    | LKCount n => exists tn, back = FCondGoto KIf (count_cond L fl (FTemp tn)) lbl /\ tget tn tm = Some n
                              /\ 0 < n <= I32_MAX /\ (g0 <= tn < gb)%nat
    end.

  Definition P_iter (f : nat) : Prop :=
    forall t b lk st st' gb g0 id env tail cend tm lbl back,
      run_iter L f (Strict tg fl) t b t (block_after L b t) lk st = Ok st' ->
      bookended L b = true -> wf_stmts L (Some id) b = true ->
      env lbl = Some (t, fst (desugar_block L fl b gb) ++ back :: tail ++ cend) ->
      env_ok env t (fst (desugar_block L fl b gb)) (back :: tail ++ cend) ->
      env (LLoopEnd id) = Some (block_after L b t, cend) ->
      Forall is_nop tail -> (g0 <= gb)%nat -> back_ok lk back lbl tm g0 gb ->
      exists tm', tm_agree g0 tm tm' /\
        reaches env t (fst (desugar_block L fl b gb) ++ back :: tail ++ cend) (st, tm)
                (block_after L b t) cend (st', tm').

  Lemma count_cond_temp tn n (st : state L) tm :
    tget tn tm = Some n -> 0 < n <= I32_MAX ->
    eval_fcond L (count_cond L fl (FTemp tn)) (st, tm) = Ok (1 <? n, (st, tset tn (n - 1) tm)).
  Proof.
    intros G R. assert (wrap32 (n - 1) = n - 1) as W by (apply wrap32_id; unfold in_i32, I32_MIN, I32_MAX in *; lia).
    destruct fl; cbn [count_cond eval_fcond rd_f fst snd]; rewrite G; cbn [obind]; rewrite W; cbn [wr_f fst snd]; f_equal; f_equal.
    - destruct (n - 1 =? 0) eqn:E; destruct (1 <? n) eqn:E2; auto; [apply Z.eqb_eq in E; apply Z.ltb_lt in E2|apply Z.eqb_neq in E; apply Z.ltb_ge in E2]; lia.
    - destruct (0 <? n - 1) eqn:E; destruct (1 <? n) eqn:E2; auto; [apply Z.ltb_lt in E; apply Z.ltb_ge in E2|apply Z.ltb_ge in E; apply Z.ltb_lt in E2]; lia.
  Qed.

  Lemma step_iter f : P_block f -> P_iter f -> P_iter (S f).
  Proof.
    intros PB PI t b lk st st' gb g0 id env tail cend tm lbl back R BK WF EL EO EE NT G0 BO.
    rewrite run_iter_S in R. inv_bind R rs RB. destruct rs as [r1 st1]. cbn [fst snd] in R.
    assert (BE : benv env (Some id) (block_after L b t) cend) by (intros id' E; inversion E; subst; exact EE).
    destruct (block_scope f PB t b st r1 st1 gb (Some id) env _ tm _ _ RB BK WF EO BE) as (tm1 & A1 & T1).
    destruct r1; cbn [target] in T1.
    2:{ inversion R; subst. exists tm1. split. eapply tm_agree_weaken; eauto. exact T1. }
    assert (TG : block_after L b t <= s_time st1).
    { eapply run_block_time_ge; eauto. unfold bookended in BK. apply andb_prop in BK. tauto. }
    destruct lk; cbn [back_ok] in BO.
    - (* loop *) subst back.
      destruct (PI t b LKLoop _ st' gb g0 id env tail cend tm1 lbl _ R BK WF EL EO EE NT G0 eq_refl) as (tm' & A2 & T2).
      exists tm'. split. eapply tm_agree_trans; [apply Nat.le_refl| eapply tm_agree_weaken; eauto | exact A2].
      eapply reaches_trans; [exact T1|]. eapply reaches_trans; [|exact T2].
      apply step_goto; auto.
    - (* while *) subst back. inv_bind R bs EC. destruct bs as [bv st2]. cbn [fst snd] in R.
      pose proof (eval_cond_time _ _ _ _ EC) as ET.
      destruct bv.
      + destruct (PI t b (LKWhile c) _ st' gb g0 id env tail cend tm1 lbl _ R BK WF EL EO EE NT G0 eq_refl) as (tm' & A2 & T2).
        exists tm'. split. eapply tm_agree_trans; [apply Nat.le_refl| eapply tm_agree_weaken; eauto | exact A2].
        eapply reaches_trans; [exact T1|]. eapply reaches_trans; [|exact T2].
        eapply (step_cond_jump env _ KIf (CExpr c) lbl _ st1 tm1 true (st2, tm1)); auto.
        apply eval_fcond_expr; auto.
      + inversion R; subst. exists tm1. split. eapply tm_agree_weaken; eauto.
        eapply reaches_trans; [exact T1|].
        eapply reaches_trans. eapply (step_cond_fall env _ KIf (CExpr c) lbl _ st1 tm1 false (st', tm1)); auto.
        apply eval_fcond_expr; auto.
        apply step_nops; auto. lia.
    - (* times(n) *) destruct BO as (tn & -> & TGt & RG & GT).
      assert (TG1 : tget tn tm1 = Some n) by (rewrite A1; auto; lia).
      pose proof (count_cond_temp tn n st1 tm1 TG1 RG) as EF.
      destruct (1 <? n) eqn:E1.
      + apply Z.ltb_lt in E1.
        assert (BO' : back_ok (LKCount (n - 1)) (FCondGoto KIf (count_cond L fl (FTemp tn)) lbl) lbl (tset tn (n - 1) tm1) g0 gb).
        { exists tn. repeat split; try lia. apply tget_tset_same. }
        destruct (PI t b (LKCount (n - 1)) _ st' gb g0 id env tail cend _ lbl _ R BK WF EL EO EE NT G0 BO') as (tm' & A2 & T2).
        exists tm'. split.
        { eapply tm_agree_trans; [apply Nat.le_refl| eapply tm_agree_weaken; eauto |].
          eapply (tm_agree_trans g0 g0 tm1 (tset tn (n - 1) tm1)); [apply Nat.le_refl| apply tm_agree_set; lia | exact A2]. }
        eapply reaches_trans; [exact T1|]. eapply reaches_trans; [|exact T2].
        eapply (step_cond_jump env _ KIf _ lbl _ st1 tm1 true (st1, tset tn (n - 1) tm1)); auto.
      + inversion R; subst. exists (tset tn (n - 1) tm1). split.
        { eapply tm_agree_trans; [apply Nat.le_refl| eapply tm_agree_weaken; eauto | apply tm_agree_set; lia]. }
        eapply reaches_trans; [exact T1|].
        eapply reaches_trans. eapply (step_cond_fall env _ KIf _ lbl _ st' tm1 false (st', tset tn (n - 1) tm1)); auto.
        apply step_nops; auto.
    - (* times(v = n) *) subst back. inv_bind R x RD.
      destruct (in_i32b (x - 1)) eqn:IR; [|discriminate].
      apply in_i32b_spec in IR. cbv zeta in R.
      set (st2 := set_regs L (wr L v (x - 1) (s_regs st1)) st1) in *.
      assert (EF : forall bb, bb = (match fl with PredecNeZero => negb (x - 1 =? 0) | PredecGtZero => 0 <? x - 1 end) ->
                 eval_fcond L (count_cond L fl (FUser v)) (st1, tm1) = Ok (bb, (st2, tm1))).
      { intros bb ->. destruct fl; cbn [count_cond eval_fcond rd_f fst snd]; rewrite RD; cbn [obind];
          rewrite (wrap32_id _ IR); reflexivity. }
      destruct (x - 1 =? 0) eqn:E0.
      + inversion R; subst st'. apply Z.eqb_eq in E0. exists tm1. split. eapply tm_agree_weaken; eauto.
        eapply reaches_trans; [exact T1|].
        eapply reaches_trans. eapply (step_cond_fall env _ KIf _ lbl _ st1 tm1 false (st2, tm1)); auto.
        apply EF. rewrite E0. destruct fl; reflexivity.
        apply step_nops; auto.
      + inv_bind R ck CK. unfold check in CK.
        assert (EB : (match fl with PredecNeZero => negb (x - 1 =? 0) | PredecGtZero => 0 <? x - 1 end) = true).
        { destruct fl. rewrite E0; reflexivity. destruct (0 <? x - 1); [reflexivity|discriminate]. }
        destruct (PI t b (LKClobber v) _ st' gb g0 id env tail cend tm1 lbl _ R BK WF EL EO EE NT G0 eq_refl) as (tm' & A2 & T2).
        exists tm'. split. eapply tm_agree_trans; [apply Nat.le_refl| eapply tm_agree_weaken; eauto | exact A2].
        eapply reaches_trans; [exact T1|]. eapply reaches_trans; [|exact T2].
        eapply (step_cond_jump env _ KIf _ lbl _ st1 tm1 true (st2, tm1)); auto.
        apply EF. symmetry. rewrite E0 in EB. exact EB.
  Qed.

  Lemma eval_cond_set_time c (st : state L) t b st1 :
    eval_cond L c st = Ok (b, st1) -> eval_cond L c (set_time L t st) = Ok (b, set_time L t st1).
  Proof.
    unfold eval_cond. cbn [set_time s_regs]. destruct (eval_int L c (s_regs st)); cbn [obind]; try discriminate.
    intros H; inversion H; subst. reflexivity.
  Qed.
  Lemma set_time_set_time a b (st : state L) : set_time L a (set_time L b st) = set_time L a st.
  Proof. reflexivity. Qed.
  Lemma is_if_negate k : is_if (negate k) = negb (is_if k).
  Proof. destruct k; reflexivity. Qed.
  Lemma eqb_negb b c : Bool.eqb b (negb c) = negb (Bool.eqb b c).
  Proof. destruct b, c; reflexivity. Qed.

  Lemma bookended_inv (b : block L) : bookended L b = true -> first_nop L b = true /\ last_nop L b = true.
  Proof. unfold bookended. intros H. apply andb_prop in H. exact H. Qed.

  Lemma chain_end_time_wf cur rc (b : block L) t :
    bookended L b = true -> wf_chain L cur rc = true ->
    chain_end_time L rc b t = Some (chain_after L rc (block_after L b t)).
  Proof.
    revert b t. induction rc as [|eb|k c b' rc IH]; intros b t BK WF.
    - cbn [chain_end_time chain_after]. apply end_time_nop. apply bookended_inv in BK. tauto.
    - rewrite wf_CElse in WF. apply andb_prop in WF. destruct WF as [BK' _].
      cbn [chain_end_time]. change (chain_after L (CElse eb) (block_after L b t)) with (block_after L eb (block_after L b t)).
      apply end_time_nop. apply bookended_inv in BK'. tauto.
    - rewrite wf_CElif in WF. apply andb_prop in WF. destruct WF as [WF WFr]. apply andb_prop in WF. destruct WF as [BK' _].
      cbn [chain_end_time]. change (chain_after L (CElif k c b' rc) (block_after L b t)) with (chain_after L rc (block_after L b' (block_after L b t))).
      apply IH; auto.
  Qed.

  Definition chain_code k c gs (b : block L) ve rc : list (finstr L) :=
    FCondGoto (negate k) (CExpr c) (LCond gs) :: fst (desugar_block L fl b (S gs))
      ++ jump_over L ve rc ++ [FLabel (LCond gs)]
      ++ fst (desugar_chain L fl ve rc (snd (desugar_block L fl b (S gs)))).

  Definition P_chain (f : nat) : Prop :=
    forall t first k c b rc st r st' gs cur env rest0 tm tb cb ve,
      run_chain L f (Strict tg fl) t first k c b rc st = Ok (r, st') ->
      bookended L b = true -> wf_stmts L cur b = true -> wf_chain L cur rc = true ->
      (first = true -> t <= s_time st) ->
      env_ok env t (chain_code k c gs b ve rc) (FLabel ve :: rest0) ->
      env ve = Some (chain_after L rc (block_after L b t), rest0) ->
      benv env cur tb cb ->
      exists tm', tm_agree gs tm tm' /\
        target env r t (chain_code k c gs b ve rc ++ FLabel ve :: rest0)
          (if first then st else set_time L t st) tm
          (chain_after L rc (block_after L b t)) rest0 st' tm' tb cb.

  Lemma step_chain f : P_block f -> P_chain f -> P_chain (S f).
  Proof.
    intros PB PC t first k c b rc st r st' gs cur env rest0 tm tb cb ve R BK WF WFC FT EO EV BE.
    rewrite run_chain_S in R. inv_bind R bs EC. destruct bs as [bv st1]. cbn [fst snd] in R. cbv zeta in R.
    set (stf := if first then st else set_time L t st).
    set (st1f := if first then st1 else set_time L t st1).
    assert (ECf : eval_cond L c stf = Ok (bv, st1f)).
    { unfold stf, st1f. destruct first; auto. apply eval_cond_set_time; auto. }
    assert (TF : t <= s_time stf).
    { unfold stf. destruct first; auto. cbn. lia. }
    pose proof (eval_cond_time _ _ _ _ EC) as ET.
    destruct (bookended_inv _ BK) as [FN LN].
    unfold chain_code in *.
    set (cbk := fst (desugar_block L fl b (S gs))) in *.
    set (g1 := snd (desugar_block L fl b (S gs))) in *.
    set (cr := fst (desugar_chain L fl ve rc g1)) in *.
    set (skip := LCond gs) in *.
    set (tb1 := block_after L b t) in *.
    assert (G1 : (S gs <= g1)%nat) by (unfold g1; rewrite desugar_block_snd; apply gensym_mono).
    pose proof (env_ok_cons _ _ _ _ _ EO) as E1. cbn [finstr_time] in E1.
    pose proof (env_ok_app_l _ _ _ _ _ E1) as E1l.
    pose proof (env_ok_app_r _ _ _ _ _ E1) as E1r. unfold cbk in E1r at 1. rewrite times_preserved_block in E1r. fold tb1 in E1r.
    pose proof (env_ok_app_r _ _ _ _ _ E1r) as E2. rewrite jump_over_after in E2.
    pose proof (env_ok_label _ _ _ _ _ E2) as ESK.
    pose proof (env_ok_cons _ _ _ _ _ E2) as E3. cbn [finstr_time] in E3.
    cbn [app]. rewrite <- !app_assoc in *. cbn [app] in *.
    destruct (Bool.eqb bv (is_if k)) eqn:TK.
    - (* this block runs *)
      rewrite (start_time_nop _ _ FN) in R. cbn [expect_time obind] in R.
      inv_bind R st1s FL.
      assert (SAME : st1s = st1f).
      { unfold st1f. destruct first.
        - apply fall_sim in FL. rewrite set_time_self in FL. exact FL.
        - inversion FL; auto. }
      subst st1s.
      inv_bind R rs RB. destruct rs as [r1 st2]. cbn [fst snd] in R.
      destruct (block_scope f PB t b _ r1 st2 (S gs) cur env _ tm tb cb RB BK WF E1l BE) as (tm1 & A1 & T1).
      fold cbk in T1. rewrite <- ?app_assoc in T1. cbn [app] in T1.
      assert (FALL : reaches env t (FCondGoto (negate k) (CExpr c) skip :: cbk ++ jump_over L ve rc ++ FLabel skip :: cr ++ FLabel ve :: rest0)
                       (stf, tm) t (cbk ++ jump_over L ve rc ++ FLabel skip :: cr ++ FLabel ve :: rest0) (st1f, tm)).
      { eapply step_cond_fall; eauto. apply eval_fcond_expr; eauto.
        rewrite is_if_negate, eqb_negb, TK. reflexivity. }
      destruct r1; cbn [target] in T1.
      + rewrite (chain_end_time_wf cur rc b t BK WFC) in R. cbn [expect_time obind] in R. fold tb1 in R.
        inv_bind R st3 FL2.
        assert (TG : tb1 <= s_time st2) by (eapply run_block_time_ge; eauto).
        destruct rc as [|eb|k' c' b' rc'].
        * change (chain_after L CEnd tb1) with tb1 in *.
          apply fall_sim in FL2. rewrite set_time_self in FL2. subst st3. inversion R; subst r st'. clear R.
          exists tm1. split. eapply tm_agree_weaken; [|exact A1]. lia.
          cbn [target]. eapply reaches_trans; [exact FALL|]. eapply reaches_trans; [exact T1|].
          unfold cr. dsg. cbn [fst jump_over app].
          apply (step_nops env tb1 [FLabel skip; FLabel ve]); auto. repeat constructor.
        * inversion FL2; subst st3. inversion R; subst r st'. clear R.
          exists tm1. split. eapply tm_agree_weaken; [|exact A1]. lia.
          cbn [target]. eapply reaches_trans; [exact FALL|]. eapply reaches_trans; [exact T1|].
          cbn [jump_over app]. apply step_goto; auto.
        * inversion FL2; subst st3. inversion R; subst r st'. clear R.
          exists tm1. split. eapply tm_agree_weaken; [|exact A1]. lia.
          cbn [target]. eapply reaches_trans; [exact FALL|]. eapply reaches_trans; [exact T1|].
          cbn [jump_over app]. apply step_goto; auto.
      + inversion R; subst r st'. exists tm1. split. eapply tm_agree_weaken; [|exact A1]. lia.
        cbn [target]. eapply reaches_trans; [exact FALL|exact T1].
    - (* this block is skipped *)
      assert (JMP : reaches env t (FCondGoto (negate k) (CExpr c) skip :: cbk ++ jump_over L ve rc ++ FLabel skip :: cr ++ FLabel ve :: rest0)
                      (stf, tm) tb1 (cr ++ FLabel ve :: rest0) (set_time L tb1 st1, tm)).
      { replace (set_time L tb1 st1) with (set_time L tb1 st1f) by (unfold st1f; destruct first; reflexivity).
        eapply (step_cond_jump env t (negate k) (CExpr c) skip _ stf tm bv (st1f, tm)); eauto.
        apply eval_fcond_expr; eauto. rewrite is_if_negate, eqb_negb, TK. reflexivity. }
      destruct rc as [|eb|k' c' b' rc'].
      + rewrite (end_time_nop _ _ LN) in R. cbn [expect_time obind] in R. fold tb1 in R. inversion R; subst r st'.
        exists tm. split. apply tm_agree_refl. cbn [target].
        eapply reaches_trans; [exact JMP|]. unfold cr. dsg. cbn [fst app].
        change (chain_after L CEnd tb1) with tb1.
        apply step_nop. exact I. cbn. lia.
      + rewrite wf_CElse in WFC. apply andb_prop in WFC. destruct WFC as [BKe WFe].
        destruct (bookended_inv _ BKe) as [FNe LNe].
        cbv zeta in R. fold tb1 in R. rewrite (start_time_nop _ _ FNe) in R. cbn [expect_time obind] in R.
        inv_bind R rs RB. destruct rs as [r1 st2]. cbn [fst snd] in R.
        unfold cr in *. rewrite desugar_CElse in *.
        destruct (block_scope f PB tb1 eb _ r1 st2 g1 cur env _ tm tb cb RB BKe WFe E3 BE) as (tm1 & A1 & T1).
        exists tm1. split. eapply tm_agree_weaken; [|exact A1]. lia.
        change (chain_after L (CElse eb) tb1) with (block_after L eb tb1).
        destruct r1; cbn [target] in T1.
        * rewrite (end_time_nop _ _ LNe) in R. cbn [expect_time obind] in R.
          inv_bind R st3 FL2. apply fall_sim in FL2. rewrite set_time_self in FL2. subst st3. inversion R; subst r st'.
          cbn [target].
          eapply reaches_trans; [exact JMP|]. eapply reaches_trans; [exact T1|].
          apply step_nop. exact I. eapply run_block_time_ge; eauto.
        * inversion R; subst r st'. cbn [target]. eapply reaches_trans; [exact JMP|exact T1].
      + rewrite wf_CElif in WFC. apply andb_prop in WFC. destruct WFC as [WFC WFr]. apply andb_prop in WFC. destruct WFC as [BKe WFe].
        fold tb1 in R.
        unfold cr in *. rewrite desugar_CElif in *. cbn [fst] in *.
        change (chain_after L (CElif k' c' b' rc') tb1) with (chain_after L rc' (block_after L b' tb1)) in *.
        destruct (PC tb1 false k' c' b' rc' st1 r st' g1 cur env rest0 tm tb cb ve R BKe WFe WFr (fun H => False_ind _ (Bool.diff_false_true H)) E3 EV BE) as (tm' & A2 & T2).
        exists tm'. split. eapply tm_agree_weaken; [|exact A2]. lia.
        unfold chain_code in T2.
        destruct r; cbn [target] in *; (eapply reaches_trans; [exact JMP|exact T2]).
  Qed.

  Lemma nops_after (c : list (finstr L)) t : Forall is_nop c -> code_after L c t = t.
  Proof.
    induction 1 as [|i c N _ IH]; cbn [code_after]; auto.
    destruct i; cbn in N; try contradiction; exact IH.
  Qed.

  Lemma back_ok_time lk back lbl tm g0 gb t : back_ok lk back lbl tm g0 gb -> finstr_time L back t = t.
  Proof. destruct lk; cbn [back_ok]; intros H; try (subst; reflexivity). destruct H as (tn & -> & _). reflexivity. Qed.

  Lemma loop_label env t lbl (b : block L) gb back tail1 l tail2 cend :
    env_ok env t (FLabel lbl :: fst (desugar_block L fl b gb) ++ back :: tail1 ++ FLabel l :: tail2) cend ->
    (forall t', finstr_time L back t' = t') -> Forall is_nop tail1 ->
    env l = Some (block_after L b t, tail2 ++ cend).
  Proof.
    intros EO BT NT.
    rewrite (EO (FLabel lbl :: fst (desugar_block L fl b gb) ++ back :: tail1) l tail2).
    - cbn [code_after finstr_time]. rewrite code_after_app, times_preserved_block. cbn [code_after].
      rewrite BT, nops_after by auto. reflexivity.
    - cbn [app]. rewrite <- app_assoc. reflexivity.
  Qed.

  Lemma loop_entry f : P_iter f ->
    forall t b lk st st' gb g0 id env tail cend tm lbl back,
      run_iter L f (Strict tg fl) t b t (block_after L b t) lk st = Ok st' ->
      bookended L b = true -> wf_stmts L (Some id) b = true ->
      env_ok env t (FLabel lbl :: fst (desugar_block L fl b gb) ++ back :: tail ++ [FLabel (LLoopEnd id)]) cend ->
      Forall is_nop tail -> (g0 <= gb)%nat -> back_ok lk back lbl tm g0 gb -> t <= s_time st ->
      exists tm', tm_agree g0 tm tm' /\
        reaches env t (FLabel lbl :: fst (desugar_block L fl b gb) ++ back :: tail ++ FLabel (LLoopEnd id) :: cend) (st, tm)
                (block_after L b t) cend (st', tm').
  Proof.
    intros PI t b lk st st' gb g0 id env tail cend tm lbl back R BK WF EO NT G0 BO TS.
    pose proof (loop_label env t lbl b gb back tail (LLoopEnd id) [] cend EO (fun t' => back_ok_time _ _ _ _ _ _ t' BO) NT) as EE.
    cbn [app] in EE.
    pose proof (env_ok_label _ _ _ _ _ EO) as EL.
    pose proof (env_ok_cons _ _ _ _ _ EO) as E1. cbn [finstr_time] in E1.
    pose proof (env_ok_app_l _ _ _ _ _ E1) as E1l.
    rewrite <- !app_assoc in EL. cbn [app] in EL, E1l. rewrite <- !app_assoc in E1l. cbn [app] in EL, E1l.
    assert (NT' : Forall is_nop (tail ++ [FLabel (LLoopEnd id)])) by (apply Forall_app; split; auto; repeat constructor).
    replace (tail ++ FLabel (LLoopEnd id) :: cend) with ((tail ++ [FLabel (LLoopEnd id)]) ++ cend) in * by (rewrite <- app_assoc; reflexivity).
    destruct (PI t b lk st st' gb g0 id env _ cend tm lbl back R BK WF EL E1l EE NT' G0 BO) as (tm' & A & T).
    exists tm'. split; auto. eapply reaches_trans; [|exact T].
    apply step_nop; auto. exact I.
  Qed.

  Lemma cur_is_inv cur id : cur_is cur id = true -> cur = Some id.
  Proof. destruct cur; cbn; try discriminate. intros H. apply Nat.eqb_eq in H. subst; reflexivity. Qed.

  Lemma wf_loop_inv (b : block L) id : bookended L b && wf_stmts L (Some id) b = true ->
    bookended L b = true /\ wf_stmts L (Some id) b = true /\ first_nop L b = true /\ last_nop L b = true.
  Proof. intros H. apply andb_prop in H. destruct H as [BK WF]. destruct (bookended_inv _ BK). auto. Qed.

  Lemma step_stmt f : P_block f -> P_chain f -> P_iter f -> P_stmt (S f).
  Proof.
    intros PB PC PI t s st r st' g cur env rest tm tb cb R WF TW EO BE.
    rewrite run_stmt_S in R.
    destruct s as [a|id|k c id|b|k c b rc|id b|id c b|id c b|id clob count b]; cbn [stmt_time] in TW.
    - (* atom *)
      inv_bind R st2 EX. inversion R; subst r st'. exists tm. split. apply tm_agree_refl.
      rewrite desugar_SAtom. cbn [fst app target]. cbn [stmt_time] in TW.
      apply (step_atom env t a rest st st st2 tm); auto. apply wait_noop; auto.
    - (* break *)
      inversion R; subst r st'. exists tm. split. apply tm_agree_refl.
      rewrite desugar_SBreak. cbn [fst app target]. apply step_goto; auto.
      apply BE. apply cur_is_inv. exact WF.
    - (* if (c) break *)
      inv_bind R bs EC. destruct bs as [bv st1]. cbn [fst snd] in R.
      exists tm. split. apply tm_agree_refl. rewrite desugar_SCondBreak. cbn [fst app].
      destruct (Bool.eqb bv (is_if k)) eqn:TK; inversion R; subst r st'; cbn [target].
      + eapply (step_cond_jump env t k (CExpr c) _ _ st tm bv (st1, tm)); eauto.
        apply eval_fcond_expr; auto. apply BE. apply cur_is_inv. exact WF.
      + eapply (step_cond_fall env t k (CExpr c) _ _ st tm bv (st1, tm)); eauto.
        apply eval_fcond_expr; auto.
    - (* free block *)
      rewrite wf_SBlock in WF. apply andb_prop in WF. destruct WF as [BK WF].
      rewrite desugar_SBlock in *. change (stmt_after L (SBlock b) t) with (block_after L b t).
      eapply block_scope; eauto.
    - (* cond chain *)
      rewrite wf_SCond in WF. apply andb_prop in WF. destruct WF as [WF WFC]. apply andb_prop in WF. destruct WF as [BK WF].
      rewrite desugar_SCond in *. cbn [fst] in *.
      change (stmt_after L (SCond k c b rc) t) with (chain_after L rc (block_after L b t)).
      set (ve := LCondEnd g) in *.
      assert (CODE : FCondGoto (negate k) (CExpr c) (LCond (S g)) :: fst (desugar_block L fl b (S (S g)))
                       ++ jump_over L ve rc ++ [FLabel (LCond (S g))]
                       ++ fst (desugar_chain L fl ve rc (snd (desugar_block L fl b (S (S g))))) ++ [FLabel ve]
                     = chain_code k c (S g) b ve rc ++ [FLabel ve]).
      { unfold chain_code. cbn [app]. rewrite <- !app_assoc. reflexivity. }
      rewrite CODE in *.
      pose proof (env_ok_app_l _ _ _ _ _ EO) as E1. cbn [app] in E1.
      pose proof (env_ok_label _ _ _ _ _ (env_ok_app_r _ _ _ _ _ EO)) as EV. cbn [app] in EV.
      assert (CA : code_after L (chain_code k c (S g) b ve rc) t = chain_after L rc (block_after L b t)).
      { unfold chain_code. cbn [code_after finstr_time]. rewrite !code_after_app, times_preserved_block, jump_over_after.
        cbn [code_after finstr_time]. apply times_preserved_all. }
      rewrite CA in EV.
      destruct (PC t true k c b rc st r st' (S g) cur env rest tm tb cb ve R BK WF WFC (fun _ => TW) E1 EV BE) as (tm' & A & T).
      exists tm'. split. eapply tm_agree_weaken; [|exact A]. lia.
      rewrite <- app_assoc. cbn [app]. exact T.
    - (* loop *)
      rewrite wf_SLoop in WF. destruct (wf_loop_inv _ _ WF) as (BK & WFb & FN & LN).
      rewrite (start_time_nop _ _ FN), (end_time_nop _ _ LN) in R. cbn [expect_time obind] in R.
      inv_bind R st2 RI. inversion R; subst r st'.
      rewrite desugar_SLoop in *. cbn [fst] in *. change (stmt_after L (SLoop id b) t) with (block_after L b t).
      cbn [target].
      destruct (loop_entry f PI t b LKLoop st st2 (S g) g id env [] rest tm (LLoop g) (FGoto (LLoop g)) RI BK WFb EO
                  (Forall_nil _) (Nat.le_succ_diag_r g) eq_refl TW) as (tm' & A & T).
      exists tm'. split; auto. cbn [app] in *. rewrite <- app_assoc. exact T.
    - (* while *)
      rewrite wf_SWhile in WF. destruct (wf_loop_inv _ _ WF) as (BK & WFb & FN & LN).
      rewrite (start_time_nop _ _ FN), (end_time_nop _ _ LN) in R. cbn [expect_time obind] in R.
      inv_bind R bs EC. destruct bs as [bv st1]. cbn [fst snd] in R.
      pose proof (eval_cond_time _ _ _ _ EC) as ET.
      rewrite desugar_SWhile in *. cbn [fst] in *. change (stmt_after L (SWhile id c b) t) with (block_after L b t).
      pose proof (env_ok_cons _ _ _ _ _ EO) as E1. cbn [finstr_time] in E1.
      change (FLabel (LLoop (S g)) :: fst (desugar_block L fl b (S (S g))) ++ [FCondGoto KIf (CExpr c) (LLoop (S g)); FLabel (LCond g); FLabel (LLoopEnd id)])
        with (FLabel (LLoop (S g)) :: fst (desugar_block L fl b (S (S g))) ++ FCondGoto KIf (CExpr c) (LLoop (S g)) :: [FLabel (LCond g)] ++ [FLabel (LLoopEnd id)]) in E1.
      cbn [app]. rewrite <- app_assoc. cbn [app].
      destruct bv.
      + inv_bind R st2 RI. inversion R; subst r st'. cbn [target].
        destruct (loop_entry f PI t b (LKWhile c) st1 st2 (S (S g)) g id env [FLabel (LCond g)] rest tm (LLoop (S g)) _ RI BK WFb E1
                  ltac:(repeat constructor) ltac:(lia) eq_refl ltac:(lia)) as (tm' & A & T).
        exists tm'. split; auto. eapply reaches_trans; [|exact T].
        eapply (step_cond_fall env t KUnless (CExpr c) _ _ st tm true (st1, tm)); eauto.
        apply eval_fcond_expr; auto.
      + inversion R; subst r st'. cbn [target]. exists tm. split. apply tm_agree_refl.
        pose proof (loop_label env t (LLoop (S g)) b (S (S g)) (FCondGoto KIf (CExpr c) (LLoop (S g))) [] (LCond g) [FLabel (LLoopEnd id)] rest E1
                      (fun _ => eq_refl) (Forall_nil _)) as ESK.
        eapply reaches_trans.
        eapply (step_cond_jump env t KUnless (CExpr c) _ _ st tm false (st1, tm)); eauto.
        apply eval_fcond_expr; auto.
        cbn [fst snd app]. apply step_nop. exact I. cbn. lia.
    - (* do while *)
      rewrite wf_SDoWhile in WF. destruct (wf_loop_inv _ _ WF) as (BK & WFb & FN & LN).
      rewrite (start_time_nop _ _ FN), (end_time_nop _ _ LN) in R. cbn [expect_time obind] in R.
      inv_bind R st2 RI. inversion R; subst r st'.
      rewrite desugar_SDoWhile in *. cbn [fst] in *. change (stmt_after L (SDoWhile id c b) t) with (block_after L b t).
      cbn [target].
      destruct (loop_entry f PI t b (LKWhile c) st st2 (S g) g id env [] rest tm (LLoop g) _ RI BK WFb EO
                  (Forall_nil _) (Nat.le_succ_diag_r g) eq_refl TW) as (tm' & A & T).
      exists tm'. split; auto. cbn [app] in *. rewrite <- app_assoc. exact T.
    - (* times *)
      rewrite wf_STimes in WF. destruct (wf_loop_inv _ _ WF) as (BK & WFb & FN & LN).
      change (stmt_after L (STimes id clob count b) t) with (block_after L b t).
      cbn [stmt_time] in TW.
      destruct clob as [v|].
      + (* named counter *)
        rewrite (start_time_nop _ _ FN), (end_time_nop _ _ LN) in R. cbn [expect_time obind] in R.
        inv_bind R zr EV. destruct zr as [n r1]. cbn [fst snd] in R. cbv zeta in R.
        pose proof (H_i32 _ _ _ _ EV) as NR.
        rewrite desugar_STimesC in *. cbn [fst] in *.
        set (te := block_after L b t) in *.
        set (zt := if zero_test (const_int L count) then [FCondGoto KIf (CIsZero (FUser v)) (LTimesZero g)] else []) in *.
        set (back := FCondGoto KIf (count_cond L fl (FUser v)) (LLoop (S g))) in *.
        assert (ZTN : Forall (fun i => forall t', finstr_time L i t' = t') zt /\ code_after L zt t = t).
        { unfold zt. destruct (zero_test _); split; repeat constructor. }
        pose proof (env_ok_cons _ _ _ _ _ EO) as E1. cbn [finstr_time] in E1.
        pose proof (env_ok_app_r _ _ _ _ _ E1) as E2. rewrite (proj2 ZTN) in E2.
        change (FLabel (LLoop (S g)) :: fst (desugar_block L fl b (S (S g))) ++ [back; FLabel (LTimesZero g); FLabel (LLoopEnd id)])
          with (FLabel (LLoop (S g)) :: fst (desugar_block L fl b (S (S g))) ++ back :: [FLabel (LTimesZero g)] ++ [FLabel (LLoopEnd id)]) in E2.
        pose proof (loop_label env t (LLoop (S g)) b (S (S g)) back [] (LTimesZero g) [FLabel (LLoopEnd id)] rest E2
                      (fun _ => eq_refl) (Forall_nil _)) as ESK.
        (* the assignment *)
        assert (SET : reaches env t (FSet (FUser v) count :: zt ++ FLabel (LLoop (S g)) :: fst (desugar_block L fl b (S (S g))) ++ back :: FLabel (LTimesZero g) :: FLabel (LLoopEnd id) :: rest)
                        (st, tm) t (zt ++ FLabel (LLoop (S g)) :: fst (desugar_block L fl b (S (S g))) ++ back :: FLabel (LTimesZero g) :: FLabel (LLoopEnd id) :: rest)
                        (set_regs L (wr L v n r1) st, tm)).
        { apply (step_set env t (FUser v) count _ st tm n r1); auto. }
        norm_app.
        assert (RDV : rd L v (s_regs (set_regs L (wr L v n r1) st)) = Ok n) by (cbn [set_regs s_regs]; apply H_rw; auto).
        destruct (n =? 0) eqn:N0.
        * apply Z.eqb_eq in N0. inversion R; subst r st'. cbn [target].
          exists tm. split. apply tm_agree_refl.
          assert (ZT : zero_test (const_int L count) = true).
          { unfold zero_test. destruct (const_int L count) eqn:CI; auto.
            rewrite (H_const _ _ (s_regs st) CI) in EV. inversion EV; subst. reflexivity. }
          eapply reaches_trans; [exact SET|]. unfold zt. rewrite ZT. cbn [app].
          eapply reaches_trans.
          eapply (step_cond_jump env t KIf (CIsZero (FUser v)) _ _ _ tm true (set_regs L (wr L v n r1) st, tm)); eauto.
          cbn [eval_fcond rd_f fst]. rewrite RDV. cbn [obind]. rewrite N0. reflexivity.
          cbn [fst snd app]. apply step_nop. exact I. cbn. lia.
        * apply Z.eqb_neq in N0.
          inv_bind R st1s FL. apply fall_sim in FL. subst st1s.
          inv_bind R st2 RI. inversion R; subst r st'. cbn [target].
          assert (SAME : set_time L (s_time st) (set_regs L (wr L v n r1) (set_time L te st)) = set_regs L (wr L v n r1) st).
          { destruct st; reflexivity. }
          rewrite SAME in RI.
          destruct (loop_entry f PI t b (LKClobber v) _ st2 (S (S g)) g id env [FLabel (LTimesZero g)] rest tm (LLoop (S g)) back RI BK WFb E2
                  ltac:(repeat constructor) ltac:(lia) eq_refl ltac:(cbn; lia)) as (tm' & A & T).
          exists tm'. split; auto.
          eapply reaches_trans; [exact SET|]. cbn [app] in T.
          eapply reaches_trans; [|exact T].
          unfold zt. destruct (zero_test (const_int L count)); cbn [app]; [|apply reaches_refl].
          eapply (step_cond_fall env t KIf (CIsZero (FUser v)) _ _ _ tm false (set_regs L (wr L v n r1) st, tm)); eauto.
          cbn [eval_fcond rd_f fst]. rewrite RDV. cbn [obind]. apply Z.eqb_neq in N0. rewrite N0. reflexivity.
      + (* compiler temporary *)
        rewrite (start_time_nop _ _ FN), (end_time_nop _ _ LN) in R. cbn [expect_time obind] in R.
        inv_bind R zr EV. destruct zr as [n r1]. cbn [fst snd] in R. cbv zeta in R.
        pose proof (H_i32 _ _ _ _ EV) as NR.
        rewrite desugar_STimesN in *. cbn [fst] in *.
        set (te := block_after L b t) in *.
        set (zt := if zero_test (const_int L count) then [FCondGoto KIf (CIsZero (FTemp g)) (LTimesZero (S g))] else []) in *.
        set (back := FCondGoto KIf (count_cond L fl (FTemp g)) (LLoop (S (S g)))) in *.
        assert (ZTN : code_after L zt t = t) by (unfold zt; destruct (zero_test _); reflexivity).
        pose proof (env_ok_cons _ _ _ _ _ (env_ok_cons _ _ _ _ _ EO)) as E1. cbn [finstr_time] in E1.
        pose proof (env_ok_app_r _ _ _ _ _ E1) as E2. rewrite ZTN in E2.
        change (FLabel (LLoop (S (S g))) :: fst (desugar_block L fl b (S (S (S g)))) ++ [back; FLabel (LTimesZero (S g)); FScopeEndTemp g; FLabel (LLoopEnd id)])
          with (FLabel (LLoop (S (S g))) :: fst (desugar_block L fl b (S (S (S g)))) ++ back :: [FLabel (LTimesZero (S g)); FScopeEndTemp g] ++ [FLabel (LLoopEnd id)]) in E2.
        pose proof (loop_label env t (LLoop (S (S g))) b (S (S (S g))) back [] (LTimesZero (S g)) [FScopeEndTemp g; FLabel (LLoopEnd id)] rest E2
                      (fun _ => eq_refl) (Forall_nil _)) as ESK.
        set (loopc := FLabel (LLoop (S (S g))) :: fst (desugar_block L fl b (S (S (S g)))) ++ back :: FLabel (LTimesZero (S g)) :: FScopeEndTemp g :: FLabel (LLoopEnd id) :: rest).
        assert (SET : reaches env t (FDeclTemp g :: FSet (FTemp g) count :: zt ++ loopc)
                        (st, tm) t (zt ++ loopc) (set_regs L r1 st, tset g n tm)).
        { eapply reaches_trans. apply step_nop; auto. exact I.
          apply (step_set env t (FTemp g) count _ st tm n r1); auto. }
        norm_app. fold loopc.
        assert (TGN : tget g (tset g n tm) = Some n) by apply tget_tset_same.
        destruct (n =? 0) eqn:N0.
        * apply Z.eqb_eq in N0. inversion R; subst r st'. cbn [target].
          exists (tset g n tm). split. apply tm_agree_set. lia.
          assert (ZT : zero_test (const_int L count) = true).
          { unfold zero_test. destruct (const_int L count) eqn:CI; auto.
            rewrite (H_const _ _ (s_regs st) CI) in EV. inversion EV; subst. reflexivity. }
          eapply reaches_trans; [exact SET|]. unfold zt. rewrite ZT. cbn [app].
          eapply reaches_trans.
          eapply (step_cond_jump env t KIf (CIsZero (FTemp g)) _ _ _ _ true (set_regs L r1 st, tset g n tm)); eauto.
          cbn [eval_fcond rd_f snd]. rewrite TGN. cbn [obind]. rewrite N0. reflexivity.
          cbn [fst snd app].
          apply (step_nops env te [FScopeEndTemp g; FLabel (LLoopEnd id)]). repeat constructor. cbn. lia.
        * apply Z.eqb_neq in N0.
          inv_bind R ck CK. unfold check in CK. destruct (0 <? n) eqn:NP; [|discriminate]. apply Z.ltb_lt in NP.
          destruct (n <? 0) eqn:NN; [apply Z.ltb_lt in NN; lia|].
          inv_bind R st1s FL. apply fall_sim in FL. subst st1s.
          inv_bind R st2 RI. inversion R; subst r st'. cbn [target].
          assert (SAME : set_time L (s_time st) (set_regs L r1 (set_time L te st)) = set_regs L r1 st).
          { destruct st; reflexivity. }
          rewrite SAME in RI.
          assert (BO : back_ok (LKCount n) back (LLoop (S (S g))) (tset g n tm) g (S (S (S g)))).
          { exists g. repeat split; auto; try lia. unfold in_i32 in NR. lia. }
          destruct (loop_entry f PI t b (LKCount n) _ st2 (S (S (S g))) g id env [FLabel (LTimesZero (S g)); FScopeEndTemp g] rest (tset g n tm) (LLoop (S (S g))) back RI BK WFb E2
                  ltac:(repeat constructor) ltac:(lia) BO ltac:(cbn; lia)) as (tm' & A & T).
          exists tm'. split. eapply (tm_agree_trans g g tm (tset g n tm)); [lia|apply tm_agree_set; lia|exact A].
          eapply reaches_trans; [exact SET|]. cbn [app] in T. fold loopc in T.
          eapply reaches_trans; [|exact T].
          unfold zt. destruct (zero_test (const_int L count)); cbn [app]; [|apply reaches_refl].
          eapply (step_cond_fall env t KIf (CIsZero (FTemp g)) _ _ _ _ false (set_regs L r1 st, tset g n tm)); eauto.
          cbn [eval_fcond rd_f snd]. rewrite TGN. cbn [obind]. apply Z.eqb_neq in N0. rewrite N0. reflexivity.
  Qed.

  Lemma sim_all f : P_block f /\ P_stmt f /\ P_chain f /\ P_iter f.
  Proof.
    induction f as [|f (PB & PS & PC & PI)].
    - repeat split; red; intros; discriminate.
    - repeat split.
      + apply step_block; auto.
      + apply step_stmt; auto.
      + apply step_chain; auto.
      + apply step_iter; auto.
  Qed.

  (* ---- the theorem ---- *)
  Theorem desugar_correct_strict p st fuel st' :
    wf_prog L p = true ->
    run_struct L fuel (Strict tg fl) p st = Ok st' ->
    exists fuel' tm', run_flat L fuel' (desugar L fl p) st = Ok (st', tm').
  Proof.
    intros WF R. unfold wf_prog, wf_block in WF.
    apply andb_prop in WF. destruct WF as [WF ND]. apply andb_prop in WF. destruct WF as [BK WF].
    unfold run_struct in R. inv_bind R rs RB. destruct rs as [r st1]. cbn [fst snd] in R.
    destruct r; [|discriminate]. inversion R; subst st1. clear R.
    set (env := find_label L (desugar L fl p) 0).
    assert (EO : env_ok env 0 (fst (desugar_block L fl p 0)) []).
    { intros c1 l c2 E. rewrite app_nil_r. unfold env. apply find_label_ok; auto.
      apply desugar_labels_nodup; auto. }
    assert (BE : benv env None 0 []) by (intros id E; discriminate).
    destruct (block_scope fuel (proj1 (sim_all fuel)) 0 p st Normal st' 0 None env [] [] 0 [] RB BK WF EO BE) as (tm' & _ & T).
    cbn [target] in T. rewrite app_nil_r in T.
    destruct (T 1%nat (st', tm') eq_refl) as (k' & K).
    exists k', tm'. exact K.
  Qed.
End Sim.

(* ---- Strict runs are AstVm runs (of vm.rs as found and of the patched vm.rs alike) ---- *)
Section StrictLax.
  Variable L : lang.
  Variable fl : flavour.
  Variables tg tr : bool.
  (* with the time guard: either variant of AstVm; without it: the one that makes no such assignment *)
  Hypothesis compatible : tg = true \/ tr = false.

  Lemma check_strict_lax b tag u : check (Strict tg fl) b tag = Ok u -> check (Lax tr) b tag = Ok u.
  Proof. destruct u. reflexivity. Qed.

  Lemma fall_strict_lax t tn (st s : state L) :
    fall L (Strict tg fl) t tn st = Ok s -> fall L (Lax tr) t tn st = Ok s.
  Proof.
    unfold fall. destruct tg.
    - destruct (tn =? t) eqn:E; [|discriminate]. apply Z.eqb_eq in E. subst. destruct tr; auto.
    - destruct compatible as [C|C]; [discriminate|]. subst tr. auto.
  Qed.

  Ltac sl_bind H :=
    match type of H with
    | obind ?m ?f = Ok _ =>
        let a := fresh "a" in let E := fresh "E" in
        apply obind_ok in H; destruct H as (a & E & H);
        try (apply check_strict_lax in E); try (apply fall_strict_lax in E); try rewrite E; cbn [obind]
    end.

  Lemma strict_lax_all f :
    (forall t b st r, run_block L f (Strict tg fl) t b st = Ok r -> run_block L f (Lax tr) t b st = Ok r) /\
    (forall t s st r, run_stmt L f (Strict tg fl) t s st = Ok r -> run_stmt L f (Lax tr) t s st = Ok r) /\
    (forall t first k c b rc st r, run_chain L f (Strict tg fl) t first k c b rc st = Ok r -> run_chain L f (Lax tr) t first k c b rc st = Ok r) /\
    (forall t b ts te lk st r, run_iter L f (Strict tg fl) t b ts te lk st = Ok r -> run_iter L f (Lax tr) t b ts te lk st = Ok r).
  Proof.
    induction f as [|f (IB & IS & IC & II)].
    - repeat split; intros; discriminate.
    - split; [|split; [|split]].
      + intros t b st r R. rewrite run_block_S in *. destruct b as [|s b]; auto.
        sl_bind R. sl_bind R. rewrite (IS _ _ _ _ E0). cbn [obind]. destruct (fst a0); auto.
      + intros t s st r R. rewrite run_stmt_S in *.
        destruct s as [a|id|k c id|b|k c b rc|id b|id c b|id c b|id clob count b]; auto.
        * sl_bind R. sl_bind R. sl_bind R. rewrite (II _ _ _ _ _ _ _ E1). exact R.
        * sl_bind R. sl_bind R. sl_bind R. destruct (fst a1); auto. sl_bind R. rewrite (II _ _ _ _ _ _ _ E2). exact R.
        * sl_bind R. sl_bind R. sl_bind R. rewrite (II _ _ _ _ _ _ _ E1). exact R.
        * destruct clob as [v|]; sl_bind R; sl_bind R; sl_bind R; cbv zeta in *.
          -- destruct (fst a1 =? 0); auto. sl_bind R. sl_bind R. rewrite (II _ _ _ _ _ _ _ E3). exact R.
          -- destruct (fst a1 =? 0); auto. sl_bind R. destruct (fst a1 <? 0); auto. sl_bind R. sl_bind R.
             rewrite (II _ _ _ _ _ _ _ E4). exact R.
      + intros t first k c b rc st r R. rewrite run_chain_S in *.
        sl_bind R. cbv zeta in *. destruct (Bool.eqb (fst a) (is_if k)).
        * sl_bind R. destruct first; sl_bind R; sl_bind R; rewrite (IB _ _ _ _ E2); cbn [obind]; (destruct (fst a2); auto);
            sl_bind R; (destruct rc; sl_bind R; exact R).
        * destruct rc as [|eb|k' c' b' rc']; auto.
          sl_bind R. sl_bind R. rewrite (IB _ _ _ _ E1). cbn [obind]. destruct (fst a1); auto.
          sl_bind R. sl_bind R. exact R.
      + intros t b ts te lk st r R. rewrite run_iter_S in *.
        sl_bind R. rewrite (IB _ _ _ _ E). cbn [obind]. cbv zeta in *. destruct (fst a); auto.
        destruct lk; auto.
        * sl_bind R. destruct (fst a0); auto.
        * destruct (1 <? n); auto.
        * sl_bind R. destruct (in_i32b (a0 - 1)); auto. destruct (a0 - 1 =? 0); auto.
          sl_bind R. cbn [check obind]. auto.
  Qed.

  Theorem strict_lax p st fuel st' :
    run_struct L fuel (Strict tg fl) p st = Ok st' -> run_struct L fuel (Lax tr) p st = Ok st'.
  Proof.
    unfold run_struct. intros R. apply obind_ok in R. destruct R as (a & E & R).
    rewrite (proj1 (strict_lax_all fuel) _ _ _ _ E). exact R.
  Qed.
End StrictLax.

(* ---- the flat interpreter is a function of the program: more fuel never changes a result ---- *)
Section Det.
  Variable L : lang.

  Lemma frun_mono k : forall env t c s r, frun L k env t c s = Ok r -> frun L (S k) env t c s = Ok r.
  Proof.
    induction k as [|k IH]; intros env t c s r H. discriminate.
    cbn [frun] in H. change (frun L (S (S k)) env t c s) with
      (match c with
        | [] => Ok s
        | i :: rest =>
            let ti := finstr_time L i t in
            do st1 <- wait L ti (fst s);
            let fs1 := (st1, snd s) in
            let jump (l : label) (fs' : fstate L) :=
              match env l with
              | None => Panic P_NOLABEL
              | Some (tl, cl) => frun L (S k) env tl cl (set_time L tl (fst fs'), snd fs')
              end in
            match i with
            | FAtom a => do st2 <- exec_atom L a st1; frun L (S k) env ti rest (st2, snd s)
            | FScopeEnd _ | FDeclTemp _ | FScopeEndTemp _ | FLabel _ => frun L (S k) env ti rest fs1
            | FSet v e =>
                do zr <- eval_int L e (s_regs st1);
                frun L (S k) env ti rest (wr_f L v (fst zr) (set_regs L (snd zr) st1, snd s))
            | FGoto l => jump l fs1
            | FCondGoto k0 c0 l =>
                do bf <- eval_fcond L c0 fs1;
                if Bool.eqb (fst bf) (is_if k0) then jump l (snd bf) else frun L (S k) env ti rest (snd bf)
            end
        end).
    destruct c as [|i rest]; auto. cbv zeta in *.
    destruct (wait L (finstr_time L i t) (fst s)) as [st1| | |]; cbn [obind] in *; try discriminate.
    destruct i; auto.
    - destruct (exec_atom L a st1); cbn [obind] in *; try discriminate. auto.
    - destruct (eval_int L e (s_regs st1)); cbn [obind] in *; try discriminate. auto.
    - destruct (env l) as [[tl cl]|]; try discriminate. auto.
    - destruct (eval_fcond L c (st1, snd s)); cbn [obind] in *; try discriminate.
      destruct (Bool.eqb (fst a) (is_if k0)); auto.
      destruct (env l) as [[tl cl]|]; try discriminate. auto.
  Qed.

  Lemma frun_le k k' env t c s r : (k <= k')%nat -> frun L k env t c s = Ok r -> frun L k' env t c s = Ok r.
  Proof. induction 1; auto. intros. apply frun_mono; auto. Qed.

  Lemma frun_det k k' env t c s r r' :
    frun L k env t c s = Ok r -> frun L k' env t c s = Ok r' -> r = r'.
  Proof.
    intros A B. apply (frun_le _ (Nat.max k k')) in A; [|lia]. apply (frun_le _ (Nat.max k k')) in B; [|lia].
    rewrite A in B. inversion B; auto.
  Qed.
End Det.
