(* Proofs/StructTop.v -- side conditions on the generated tables (Gen/StructTable.v) and the
   composition of the per-pass theorems. *)
From TV Require Import Base.I32 Model.Structure Gen.StructTable
  Proofs.StructBasics Proofs.StructRel Proofs.StructLoop Proofs.StructBreak Proofs.StructUnused.
Open Scope nat_scope.

(* ---- tie 1: what the theorems need from the current source ---- *)

(* the guards whose absence breaks the property (the two interrupt-label exclusions are cosmetic) *)
Definition essential_guards (G : guards) : bool :=
  g_diff G && g_loop_time G && g_if_time G && g_if_dir G && g_if_rc G && g_un_time G && g_un_kind G
  && g_un_dir G && g_end_same G && g_end_last G && g_else_order G && g_brk_time G && g_brk_same G.

Lemma gen_guards_essential : essential_guards gen_guards = true.
Proof. reflexivity. Qed.

Lemma gen_pass_order_ok : gen_pass_order = [PLoop; PIfElse; PBreak; PUnused].
Proof. reflexivity. Qed.

(* negate_comparison is an involution on its domain: `unless (a negop b)` is `if (a op b)` *)
Definition negcmp_involutive (N : binop -> option binop) : Prop :=
  forall op op', N op = Some op' -> N op' = Some op.
Lemma gen_negcmp_involutive : negcmp_involutive gen_negcmp.
Proof.
  assert (H : forallb (fun op => match gen_negcmp op with
                                 | Some op' => match gen_negcmp op' with Some op'' => binop_eqb op'' op | None => false end
                                 | None => true end) all_binops = true) by (vm_compute; reflexivity).
  intros op op' Hop. rewrite forallb_forall in H.
  assert (Hin : In op all_binops) by (destruct op; cbn; tauto).
  specialize (H op Hin). rewrite Hop in H. destruct (gen_negcmp op') as [op''|]; [|discriminate].
  f_equal. destruct op'', op; try discriminate; reflexivity.
Qed.

Lemma essential_split G : essential_guards G = true ->
  g_diff G = true /\ g_loop_time G = true /\ g_if_time G = true /\ g_if_dir G = true /\ g_if_rc G = true /\
  g_un_time G = true /\ g_un_kind G = true /\ g_un_dir G = true /\ g_end_same G = true /\ g_end_last G = true /\
  g_else_order G = true /\ g_brk_time G = true /\ g_brk_same G = true.
Proof. unfold essential_guards. rewrite !andb_true_iff. tauto. Qed.

(* ---- per-pass statements in one shape ---- *)

Definition preserves (N : binop -> option binop) (C : bool) (p p' : list stmt) : Prop :=
  well_labelled p' /\ canon_of N C p' = canon_of N C p /\
  (forall l, In l (refs p') -> lookup (lenv st0 p') l = lookup (lenv st0 p) l).

Lemma preserves_trans N C a b c : preserves N C a b -> preserves N C b c ->
  (forall l, In l (refs c) -> In l (refs b)) -> preserves N C a c.
Proof.
  intros (_ & Hab & Lab) (Hw & Hbc & Lbc) Hrefs. repeat split; auto.
  - congruence.
  - intros l Hl. rewrite Lbc, Lab; auto.
Qed.

Theorem loop_pass_preserves N C G f :
  essential_guards G = true -> is_flat f = true -> well_labelled f ->
  preserves N C f (loop_pass G f) /\ no_break (loop_pass G f) = true.
Proof.
  intros HG Hflat Hwl. apply essential_split in HG as (Gd & Gt & _).
  destruct (loop_pass_correct N C (lookup (lenv st0 f)) st0 G f Gd Gt Hflat (well_labelled_consistent f Hwl))
    as (Ha & Hl & Hs & Hn).
  split; auto. repeat split.
  - unfold well_labelled. now rewrite Hl.
  - unfold canon_of. now rewrite Hl, Hs.
  - intros l _. now rewrite Hl.
Qed.

Theorem break_pass_preserves N C G p :
  essential_guards G = true -> well_labelled p -> preserves N C p (break_pass G p).
Proof.
  intros HG Hwl. apply essential_split in HG as (_ & _ & _ & _ & _ & _ & _ & _ & _ & _ & _ & Gt & Gs).
  now apply break_pass_canon.
Qed.

Theorem unused_pass_preserves N C p : well_labelled p -> preserves N C p (unused_pass p).
Proof. apply unused_pass_canon. Qed.

(* loop + break + unused-label passes composed (the cond-chain pass is in StructIfElse.v) *)
Theorem structure_canon_partial N C G f :
  essential_guards G = true -> is_flat f = true -> well_labelled f ->
  preserves N C f (structure_with N G [PLoop; PBreak; PUnused] f).
Proof.
  intros HG Hflat Hwl. cbn [structure_with fold_left run_pass].
  destruct (loop_pass_preserves N C G f HG Hflat Hwl) as [H1 _].
  pose proof H1 as (Hw1 & _).
  pose proof (break_pass_preserves N C G _ HG Hw1) as H2. pose proof H2 as (Hw2 & _).
  pose proof (unused_pass_preserves N C _ Hw2) as H3.
  eapply preserves_trans; [eapply preserves_trans; [exact H1|exact H2|]|exact H3|].
  - intros l. apply break_refs.
  - intros l Hl. unfold unused_pass in Hl. now rewrite unused_refs in Hl.
Qed.
