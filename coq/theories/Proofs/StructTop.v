(* Proofs/StructTop.v -- side conditions on the generated tables (Gen/StructTable.v) and the
   composition of the per-pass theorems. *)
From TV Require Import Base.I32 Model.Structure Gen.StructTable
  Proofs.StructBasics Proofs.StructRel Proofs.StructLoop Proofs.StructBreak Proofs.StructUnused Proofs.StructIfElse Proofs.StructNoCnt.
Open Scope nat_scope.

(* ---- tie 1: what the theorems need from the current source ---- *)

(* the guards whose absence breaks the property (the two interrupt-label exclusions are cosmetic) *)
Definition essential_guards (G : guards) : bool :=
  g_diff G && g_loop_time G && g_if_time G && g_if_dir G && g_if_rc G && g_un_time G && g_un_kind G
  && g_un_dir G && g_end_same G && g_end_last G && g_else_order G && g_brk_time G && g_brk_same G.

Lemma gen_guards_essential : essential_guards gen_guards = true.
Proof. reflexivity. Qed.

Lemma gen_pass_order_ok : gen_pass_order = [PLoop; PIfElse; PBreak; PUnused].
Proof. reflexivity. Qed.

(* negate_comparison is an involution on its domain: `unless (a negop b)` is `if (a op b)` *)
Definition negcmp_involutive (N : binop -> option binop) : Prop :=
  forall op op', N op = Some op' -> N op' = Some op.
Lemma gen_negcmp_involutive : negcmp_involutive gen_negcmp.
Proof.
  assert (H : forallb (fun op => match gen_negcmp op with
                                 | Some op' => match gen_negcmp op' with Some op'' => binop_eqb op'' op | None => false end
                                 | None => true end) all_binops = true) by (vm_compute; reflexivity).
  intros op op' Hop. rewrite forallb_forall in H.
  assert (Hin : In op all_binops) by (destruct op; cbn; tauto).
  specialize (H op Hin). rewrite Hop in H. destruct (gen_negcmp op') as [op''|]; [|discriminate].
  f_equal. destruct op'', op; try discriminate; reflexivity.
Qed.

Lemma essential_split G : essential_guards G = true ->
  g_diff G = true /\ g_loop_time G = true /\ g_if_time G = true /\ g_if_dir G = true /\ g_if_rc G = true /\
  g_un_time G = true /\ g_un_kind G = true /\ g_un_dir G = true /\ g_end_same G = true /\ g_end_last G = true /\
  g_else_order G = true /\ g_brk_time G = true /\ g_brk_same G = true.
Proof. unfold essential_guards. rewrite !andb_true_iff. tauto. Qed.

(* ---- per-pass statements in one shape ---- *)

Definition preserves (N : binop -> option binop) (C : bool) (p p' : list stmt) : Prop :=
  well_labelled p' /\ canon_of N C p' = canon_of N C p /\
  (forall l, In l (refs p') -> lookup (lenv st0 p') l = lookup (lenv st0 p) l).

Lemma preserves_trans N C a b c : preserves N C a b -> preserves N C b c ->
  (forall l, In l (refs c) -> In l (refs b)) -> preserves N C a c.
Proof.
  intros (_ & Hab & Lab) (Hw & Hbc & Lbc) Hrefs. repeat split; auto.
  - congruence.
  - intros l Hl. rewrite Lbc, Lab; auto.
Qed.

Theorem loop_pass_preserves N C G f :
  essential_guards G = true -> is_flat f = true -> well_labelled f ->
  preserves N C f (loop_pass G f) /\ no_break (loop_pass G f) = true.
Proof.
  intros HG Hflat Hwl. apply essential_split in HG as (Gd & Gt & _).
  destruct (loop_pass_correct N C (lookup (lenv st0 f)) st0 G f Gd Gt Hflat (well_labelled_consistent f Hwl))
    as (Ha & Hl & Hs & Hn).
  split; auto. repeat split.
  - unfold well_labelled. now rewrite Hl.
  - unfold canon_of. now rewrite Hl, Hs.
  - intros l _. now rewrite Hl.
Qed.

Theorem break_pass_preserves N C G p :
  essential_guards G = true -> well_labelled p -> preserves N C p (break_pass G p).
Proof.
  intros HG Hwl. apply essential_split in HG as (_ & _ & _ & _ & _ & _ & _ & _ & _ & _ & _ & Gt & Gs).
  now apply break_pass_canon.
Qed.

Theorem unused_pass_preserves N C p : well_labelled p -> preserves N C p (unused_pass p).
Proof. apply unused_pass_canon. Qed.

(* loop + break + unused-label passes composed (the cond-chain pass is in StructIfElse.v) *)
Theorem structure_canon_partial N C G f :
  essential_guards G = true -> is_flat f = true -> well_labelled f ->
  preserves N C f (structure_with N G [PLoop; PBreak; PUnused] f).
Proof.
  intros HG Hflat Hwl. cbn [structure_with fold_left run_pass].
  destruct (loop_pass_preserves N C G f HG Hflat Hwl) as [H1 _].
  pose proof H1 as (Hw1 & _).
  pose proof (break_pass_preserves N C G _ HG Hw1) as H2. pose proof H2 as (Hw2 & _).
  pose proof (unused_pass_preserves N C _ Hw2) as H3.
  eapply preserves_trans; [eapply preserves_trans; [exact H1|exact H2|]|exact H3|].
  - intros l. apply break_refs.
  - intros l Hl. unfold unused_pass in Hl. now rewrite unused_refs in Hl.
Qed.

(* ---- the cond-chain pass and the whole pipeline ---- *)

Theorem ifelse_pass_preserves N G p :
  negcmp_involutive N -> essential_guards G = true -> well_labelled p ->
  preserves N true p (ifelse_pass N G p) /\ (forall l, In l (refs (ifelse_pass N G p)) -> In l (refs p)).
Proof.
  intros HN HG Hwl.
  apply essential_split in HG as (G1 & _ & G3 & G4 & G5 & G6 & G7 & G8 & G9 & G10 & G11 & _).
  destruct (ifelse_pass_canon N G p HN G1 G3 G4 G5 G6 G7 G8 G9 G10 G11 Hwl) as (H1 & H2 & H3 & H4).
  split; [repeat split|]; auto.
Qed.

(* for a compiler that can lower the negation of every condition the cond-chain pass negates *)
Theorem structure_canon_ideal N G f :
  negcmp_involutive N -> essential_guards G = true -> is_flat f = true -> well_labelled f ->
  preserves N true f (structure_with N G [PLoop; PIfElse; PBreak; PUnused] f).
Proof.
  intros HN HG Hflat Hwl. cbn [structure_with fold_left run_pass].
  destruct (loop_pass_preserves N true G f HG Hflat Hwl) as [H1 _].
  pose proof H1 as (Hw1 & _).
  destruct (ifelse_pass_preserves N G _ HN HG Hw1) as [H2 R2]. pose proof H2 as (Hw2 & _).
  pose proof (break_pass_preserves N true G _ HG Hw2) as H3. pose proof H3 as (Hw3 & _).
  pose proof (unused_pass_preserves N true _ Hw3) as H4.
  eapply preserves_trans; [eapply preserves_trans; [eapply preserves_trans; [exact H1|exact H2|]|exact H3|]|exact H4|].
  - exact R2.
  - intros l. apply break_refs.
  - intros l Hl. unfold unused_pass in Hl. now rewrite unused_refs in Hl.
Qed.

(* truth's compiler: a cond block whose condition is a negated count jump does not compile, so its canonical
   stream keeps the `unless`; without such blocks both settings agree *)
Lemma chain_cat_ext2 {B} advb (g g' : state -> list stmt -> list B) hd hd' tl en st bs :
  Forall (fun cb => (forall st, g st (snd cb) = g' st (snd cb)) /\ (forall st t, hd st (fst cb) t = hd' st (fst cb) t)) bs ->
  chain_cat advb g hd tl en st bs = chain_cat advb g' hd' tl en st bs.
Proof.
  intros H; revert st; induction H as [|[c b] t [Hg Hh] _ IH]; intros st; cbn; auto.
  cbn in Hg, Hh. now rewrite Hg, Hh, IH.
Qed.

Lemma sem_cnt_irrel_s N E s : no_cnt_chain_s s = true ->
  forall brk st, sem_s N false E brk st s = sem_s N true E brk st s.
Proof.
  induction s using stmt_ind2; intros Hok brk st; cbn in *; try reflexivity.
  - f_equal. apply cat_l_ext. rewrite forallb_forall in Hok. rewrite Forall_forall in *. intros x Hx st'. apply H; auto.
  - apply andb_true_iff in Hok as [Hbs Hels]. f_equal.
    + apply chain_cat_ext2. rewrite forallb_forall in Hbs. rewrite Forall_forall in *. intros cb Hcb.
      specialize (Hbs cb Hcb). apply andb_true_iff in Hbs as [Hc Hb]. split.
      * intros st'. apply cat_l_ext. specialize (H cb Hcb). rewrite forallb_forall in Hb. rewrite Forall_forall in *.
        intros x Hx st''. apply H; auto.
      * intros st' t. destruct (fst cb); try discriminate; reflexivity.
    + destruct els as [b|]; [|reflexivity]. apply cat_l_ext. rewrite forallb_forall in Hels. rewrite Forall_forall in *.
      intros x Hx st'. apply H0; auto.
Qed.

Lemma canon_cnt_irrel N p : no_cnt_chain p = true -> canon_of N false p = canon_of N true p.
Proof.
  intros H. unfold canon_of. apply cat_l_ext. unfold no_cnt_chain in H. rewrite forallb_forall in H.
  rewrite Forall_forall. intros x Hx st. apply sem_cnt_irrel_s; auto.
Qed.

Lemma flat_no_cnt f : is_flat f = true -> no_cnt_chain f = true.
Proof.
  unfold is_flat, no_cnt_chain. rewrite !forallb_forall. intros H x Hx. specialize (H x Hx).
  destruct x; try reflexivity; discriminate.
Qed.

Theorem structure_canon N G f :
  negcmp_involutive N -> essential_guards G = true -> is_flat f = true -> well_labelled f ->
  let s := structure_with N G [PLoop; PIfElse; PBreak; PUnused] f in
  no_cnt_chain s = true ->
  well_labelled s /\ canon_of N false s = canon_of N false f /\
  (forall l, In l (refs s) -> lookup (lenv st0 s) l = lookup (lenv st0 f) l).
Proof.
  intros HN HG Hflat Hwl s Hcnt.
  destruct (structure_canon_ideal N G f HN HG Hflat Hwl) as (Hw & Hc & Hl). fold s in Hw, Hc, Hl.
  repeat split; auto.
  rewrite (canon_cnt_irrel N s Hcnt), (canon_cnt_irrel N f (flat_no_cnt f Hflat)). exact Hc.
Qed.

(* ---- decidable well-labelledness (for examples) and the corollaries named after the property text ---- *)

Fixpoint nodupb (l : list nat) : bool :=
  match l with [] => true | x :: t => negb (existsb (Nat.eqb x) t) && nodupb t end.
Lemma nodupb_NoDup l : nodupb l = true -> NoDup l.
Proof.
  induction l as [|x t IH]; cbn; intros H; constructor; apply andb_true_iff in H as [Hx Ht]; auto.
  intros Hin. apply negb_true_iff in Hx. assert (existsb (Nat.eqb x) t = true); [|congruence].
  apply existsb_exists. exists x. split; auto. apply Nat.eqb_refl.
Qed.
Definition well_labelledb (p : list stmt) : bool := nodupb (map fst (lenv st0 p)).
Lemma well_labelledb_ok p : well_labelledb p = true -> well_labelled p.
Proof. apply nodupb_NoDup. Qed.

Definition explicit_time (it : citem) : option Z := match snd it with BJump _ _ e => e | _ => None end.
Definition item_time (it : citem) : Z := fst (fst it).

(* ---- instances for the generated tables ---- *)

Definition gstructure (f : list stmt) : list stmt := structure_with gen_negcmp gen_guards gen_pass_order f.

Lemma gstructure_eq f : gstructure f = structure_with gen_negcmp gen_guards [PLoop; PIfElse; PBreak; PUnused] f.
Proof. unfold gstructure. now rewrite gen_pass_order_ok. Qed.

Theorem C07_full_proof :
  forall f, is_flat f = true -> well_labelled f -> no_cnt_chain (gstructure f) = true ->
  canon_of gen_negcmp false (gstructure f) = canon_of gen_negcmp false f.
Proof.
  intros f Hf Hw Hc. rewrite gstructure_eq in *.
  exact (proj1 (proj2 (structure_canon gen_negcmp gen_guards f gen_negcmp_involutive gen_guards_essential Hf Hw Hc))).
Qed.

Theorem referenced_labels_keep_position_and_time :
  forall f, is_flat f = true -> well_labelled f -> no_cnt_chain (gstructure f) = true ->
  forall l, In l (refs (gstructure f)) -> lookup (lenv st0 (gstructure f)) l = lookup (lenv st0 f) l.
Proof.
  intros f Hf Hw Hc. rewrite gstructure_eq in *.
  exact (proj2 (proj2 (structure_canon gen_negcmp gen_guards f gen_negcmp_involutive gen_guards_essential Hf Hw Hc))).
Qed.

Theorem explicit_time_jumps_untouched :
  forall f, is_flat f = true -> well_labelled f -> no_cnt_chain (gstructure f) = true ->
  map explicit_time (canon_of gen_negcmp false (gstructure f)) = map explicit_time (canon_of gen_negcmp false f).
Proof. intros f Hf Hw Hc. now rewrite (C07_full_proof f Hf Hw Hc). Qed.

Theorem time_labels_unchanged :
  forall f, is_flat f = true -> well_labelled f -> no_cnt_chain (gstructure f) = true ->
  map item_time (canon_of gen_negcmp false (gstructure f)) = map item_time (canon_of gen_negcmp false f).
Proof. intros f Hf Hw Hc. now rewrite (C07_full_proof f Hf Hw Hc). Qed.

Theorem loop_pass_gen : forall f, is_flat f = true -> well_labelled f ->
  well_labelled (loop_pass gen_guards f) /\ canon_of gen_negcmp false (loop_pass gen_guards f) = canon_of gen_negcmp false f.
Proof.
  intros f Hf Hw. destruct (loop_pass_preserves gen_negcmp false gen_guards f gen_guards_essential Hf Hw) as ((H1 & H2 & _) & _). auto.
Qed.
Theorem break_pass_gen : forall p, well_labelled p ->
  well_labelled (break_pass gen_guards p) /\ canon_of gen_negcmp false (break_pass gen_guards p) = canon_of gen_negcmp false p.
Proof. intros p Hw. destruct (break_pass_preserves gen_negcmp false gen_guards p gen_guards_essential Hw) as (H1 & H2 & _). auto. Qed.
Theorem unused_pass_gen : forall p, well_labelled p ->
  well_labelled (unused_pass p) /\ canon_of gen_negcmp false (unused_pass p) = canon_of gen_negcmp false p.
Proof. intros p Hw. destruct (unused_pass_preserves gen_negcmp false p Hw) as (H1 & H2 & _). auto. Qed.
Theorem ifelse_pass_gen : forall p, well_labelled p ->
  well_labelled (ifelse_pass gen_negcmp gen_guards p) /\
  canon_of gen_negcmp true (ifelse_pass gen_negcmp gen_guards p) = canon_of gen_negcmp true p.
Proof.
  intros p Hw. destruct (ifelse_pass_preserves gen_negcmp gen_guards p gen_negcmp_involutive gen_guards_essential Hw) as ((H1 & H2 & _) & _). auto.
Qed.

(* the recorded defect, on the smallest input (findings: c07-count-jump-negation) *)
Definition count_jump_stream : list stmt :=
  [SNo; SJump None (JC (CCnt Gt 0 1)) 0 None; SIns None 0 []; SLabel 0; SIns None 1 []; SNo].
Theorem count_jump_negation_refuted :
  g_if_cnt gen_guards = false ->     (* as long as the source does not exclude count jumps from cond chains *)
  exists f, is_flat f = true /\ well_labelled f /\ canon_of gen_negcmp false (gstructure f) <> canon_of gen_negcmp false f.
Proof.
  intros Hflag. vm_compute in Hflag.
  first [ discriminate Hflag
        | exists count_jump_stream; split; [reflexivity|]; split; [apply well_labelledb_ok; reflexivity|];
          vm_compute; discriminate ].
Qed.

(* a non-trivial instance of the hypotheses *)
Definition example_stream : list stmt :=
  [SNo; SIns None 0 []; SLabel 0;
   SJump None (JC (CBin Ne 0 1)) 1 None; SIns None 1 []; STime false 5; SJump None JU 2 None;
   SLabel 1; SIns None 2 []; SJump None (JC (CBin Eq 2 3)) 3 None;
   SLabel 2; SIns None 3 []; SJump None (JC (COther 4)) 0 None;
   SLabel 3; SIns None 4 []; SJump None JU 0 (Some 7%Z); SNo].
Definition example_structured : list stmt :=
  [SNo; SIns None 0 []; SLabel 0;
   SLoop (JC (COther 4))
     [SNo;
      SChain [(CBin Eq 0 1, [SNo; SIns None 1 []; STime false 5; SNo])]
             (Some [SNo; SIns None 2 []; SBreak None (JC (CBin Eq 2 3)); SNo]);
      SIns None 3 []; SNo];
   SIns None 4 []; SJump None JU 0 (Some 7%Z); SNo].
Lemma example_ok :
  is_flat example_stream = true /\ well_labelled example_stream /\ no_cnt_chain (gstructure example_stream) = true /\
  gstructure example_stream = example_structured.
Proof.
  split; [reflexivity|]. split; [apply well_labelledb_ok; reflexivity|]. split; vm_compute; reflexivity.
Qed.

(* ---- with count jumps excluded from cond chains (truth commit 9533770) the exclusion is always met ---- *)

Lemma gen_if_cnt : g_if_cnt gen_guards = true.
Proof. reflexivity. Qed.

Lemma gstructure_no_cnt f : is_flat f = true -> well_labelled f -> no_cnt_chain (gstructure f) = true.
Proof.
  intros Hf Hw. rewrite gstructure_eq.
  destruct (essential_split _ gen_guards_essential) as (Gd & Gt & _).
  apply structure_no_cnt; auto.
Qed.

Theorem C07_all_proof :
  forall f, is_flat f = true -> well_labelled f ->
  canon_of gen_negcmp false (gstructure f) = canon_of gen_negcmp false f.
Proof. intros f Hf Hw. apply C07_full_proof; auto. now apply gstructure_no_cnt. Qed.

Theorem referenced_labels_all :
  forall f, is_flat f = true -> well_labelled f ->
  forall l, In l (refs (gstructure f)) -> lookup (lenv st0 (gstructure f)) l = lookup (lenv st0 f) l.
Proof. intros f Hf Hw. apply referenced_labels_keep_position_and_time; auto. now apply gstructure_no_cnt. Qed.

Theorem explicit_time_all :
  forall f, is_flat f = true -> well_labelled f ->
  map explicit_time (canon_of gen_negcmp false (gstructure f)) = map explicit_time (canon_of gen_negcmp false f).
Proof. intros f Hf Hw. now rewrite (C07_all_proof f Hf Hw). Qed.

Theorem item_times_all :
  forall f, is_flat f = true -> well_labelled f ->
  map item_time (canon_of gen_negcmp false (gstructure f)) = map item_time (canon_of gen_negcmp false f).
Proof. intros f Hf Hw. now rewrite (C07_all_proof f Hf Hw). Qed.
