(* Proofs/StrGen.v -- side conditions of the C15 theorems on the generated escape tables. *)
From TV Require Import Base.I32 Model.StrLit Gen.StrEscape Proofs.StrLitRoundtrip.
Open Scope Z_scope.

Lemma gen_esc_ok : table_ok gen_esc = true.
Proof. vm_compute. reflexivity. Qed.

Lemma gen_esc_recognised : gen_esc_unrecognised = 0%nat.
Proof. vm_compute. reflexivity. Qed.
