(* Proofs/RegAllocGen.v -- side conditions of the allocator theorems for the generated register
   tables (Gen/Regs.v), and the parameter-register assignment. *)
From TV Require Import Base.I32 Model.RegAlloc Gen.Regs Proofs.RegAllocBase Proofs.RegAlloc Proofs.RegAllocThm.
Open Scope Z_scope.

Lemma nodupb_NoDup l : nodupb l = true -> NoDup l.
Proof.
  induction l as [|x t IH]; simpl; [constructor|].
  rewrite andb_true_iff, negb_true_iff. intros [H1 H2].
  constructor; [now apply memZ_nIn | auto].
Qed.

Definition all_langs : list langid := [LAnm; LEcl; LTimeline].

Definition pools_of (l : langid) (g : Z) : list Z :=
  gen_general l g TInt ++ gen_general l g TFloat ++ gen_general l g TString.

(* no register occurs twice in the pools of a language, for every game of the Game enum *)
Lemma gen_pools_nodup_b :
  forallb (fun l => forallb (fun g => nodupb (pools_of l g)) gen_games) all_langs = true.
Proof. vm_compute. reflexivity. Qed.

Theorem gen_pools_nodup l g : In g gen_games -> NoDup (pools_of l g).
Proof.
  intros Hg. apply nodupb_NoDup.
  pose proof gen_pools_nodup_b as H. rewrite forallb_forall in H.
  assert (Hl : In l all_langs) by (destruct l; simpl; tauto).
  specialize (H l Hl). rewrite forallb_forall in H. now apply H.
Qed.

(* register ids survive the round trip through f32 (SimpleArg::from_reg / get_reg_id) *)
Lemma gen_pools_small_b :
  forallb (fun l => forallb (fun g => forallb (fun r => (Z.abs r <? 16777216)) (pools_of l g)) gen_games) all_langs = true.
Proof. vm_compute. reflexivity. Qed.

(* the registers param_registers can hand out for a game: distinct *)
Definition all_param_regs (g : Z) : list Z :=
  flat_map (fun t => flat_map (fun n => match gen_param_reg g t n with Some r => [r] | None => [] end)
                              (map Z.of_nat (seq 0 (Z.to_nat (gen_max_params g)))))
           [TInt; TFloat].

Lemma gen_param_regs_nodup_b : forallb (fun g => nodupb (all_param_regs g)) gen_games = true.
Proof. vm_compute. reflexivity. Qed.

(* param_registers hands out the registers of increasing indices per type; with an injective
   register function the result has no duplicates *)
Definition tclass (t : ty) : bool := match t with TInt => true | _ => false end.

Section ParamRegs.
  Variable preg : ty -> Z -> option Z.
  Hypothesis preg_inj : forall t n t' n' r,
      preg t n = Some r -> preg t' n' = Some r -> tclass t = tclass t' /\ n = n'.

  Lemma param_registers_bounds : forall ps ni nf l,
    param_registers preg ps ni nf = Some l ->
    forall r, In r (map snd l) ->
      exists t n, preg t n = Some r /\ (if tclass t then ni <= n else nf <= n).
  Proof.
    induction ps as [|[d t] rest IH]; intros ni nf l H r Hr; simpl in H.
    - inversion H; subst. destruct Hr.
    - destruct (preg t (match t with TInt => ni | _ => nf end)) as [r0|] eqn:Ep; [|discriminate].
      destruct (param_registers preg rest _ _) as [l0|] eqn:Er; [|discriminate].
      inversion H; subst l; clear H. simpl in Hr. destruct Hr as [<-|Hr].
      + exists t, (match t with TInt => ni | _ => nf end). split; [assumption|].
        destruct t; simpl; lia.
      + destruct (IH _ _ _ Er r Hr) as (t1 & n1 & H1 & H2).
        exists t1, n1. split; [assumption|].
        destruct t; destruct (tclass t1); simpl in *; lia.
  Qed.

  Lemma param_registers_nodup : forall ps ni nf l,
    param_registers preg ps ni nf = Some l -> NoDup (map snd l).
  Proof.
    induction ps as [|[d t] rest IH]; intros ni nf l H; simpl in H.
    - inversion H; subst. constructor.
    - destruct (preg t (match t with TInt => ni | _ => nf end)) as [r0|] eqn:Ep; [|discriminate].
      destruct (param_registers preg rest _ _) as [l0|] eqn:Er; [|discriminate].
      inversion H; subst l; clear H. simpl. constructor; [|eapply IH; eauto].
      intros Hin. destruct (param_registers_bounds _ _ _ _ Er r0 Hin) as (t1 & n1 & H1 & H2).
      destruct (preg_inj _ _ _ _ _ Ep H1) as [Hc Hn].
      destruct t; simpl in Hc; rewrite <- Hc in H2; simpl in H2; lia.
  Qed.
End ParamRegs.

(* the f03 stream (defect #3): `int x = 7; ins_200(x, (I0 : 5 : 6 : 7)); ins_200(x, 1);` in a TH06 sub *)
Definition f03_code : list lstmt :=
  [RegAlloc 0;
   Instr 4 0 255 (Known [Local 0 TInt; Raw (SImm 7)]);
   Instr 200 0 255 (Known [Local 0 TInt;
                           DiffSwitch [Some (Raw (SReg (-10001) TInt)); Some (Raw (SImm 5));
                                       Some (Raw (SImm 6)); Some (Raw (SImm 7))]]);
   Instr 200 0 255 (Known [Local 0 TInt; Raw (SImm 1)]);
   RegFree 0].

Definition th06_cfg (ex : list lstmt -> list Z) : cfg :=
  {| general := gen_general LEcl G_Th06; anti := gen_anti LEcl G_Th06; params := [];
     tyof := fun d => if N.eqb d 0 then Some TInt else None; explicit := ex |}.

(* the local gets I1 (-10002): I0 is named inside the switch *)
Lemma f03_fixed :
  match assign_registers (th06_cfg (explicit_regs_sel gen_explicit_deep)) f03_code with
  | Ok (_, Instr _ _ _ (Known [Raw (SReg r _); _]) :: _) | Ok (_, _ :: Instr _ _ _ (Known [Raw (SReg r _); _]) :: _) => r
  | _ => 0
  end = -10002.
Proof. vm_compute. reflexivity. Qed.

(* ---------------------------------------------------------------------------------------- *)
(* the statements of Props/C05.v *)

Lemma p_alloc_inv : forall c code s,
  cfg_ok c -> reachable c code s ->
  NoDup (map snd (locals s)) /\
  (forall d r, In (d, r) (locals s) ->
     In (Some d, r) (params c) \/
     exists t, tyof c d = Some t /\ In r (general c t) /\ ~ In r (explicit c code) /\ ~ In r (param_regs c)) /\
  (forall r, ~ In r (param_regs c) -> In r (all_free (free s)) ->
     count_occ Z.eq_dec (all_free (free s)) r = 1%nat /\ ~ In r (map snd (locals s))).
Proof. intros c code s [H1 H2]. exact (alloc_inv_facts c code H1 H2 s). Qed.

Lemma p_pick_ok : forall c code s d s' x',
  cfg_ok c -> reachable c code s ->
  step c (clash c (explicit c code)) s (RegAlloc d) = Ok (s', x') ->
  exists r t,
    locals s' = (d, r) :: locals s /\ tyof c d = Some t /\ In r (general c t) /\
    ~ In r (explicit c code) /\ ~ In r (param_regs c) /\ ~ In r (map snd (locals s)).
Proof. intros c code s d s' x' [H1 H2]. exact (alloc_pick_ok c code H1 H2 s d s' x'). Qed.

Definition no_collision_with (ex : list lstmt -> list Z) (guard : list lstmt -> Prop) : Prop :=
  forall c code s d s' x',
    cfg_ok c -> explicit c = ex -> guard code -> reachable c code s ->
    step c (clash c (explicit c code)) s (RegAlloc d) = Ok (s', x') ->
    exists r t,
      locals s' = (d, r) :: locals s /\ tyof c d = Some t /\ In r (general c t) /\
      ~ mentioned code r /\ ~ In r (param_regs c) /\ ~ In r (map snd (locals s)).

Lemma no_collision_with_complete ex (guard : list lstmt -> Prop) :
  (forall code r, guard code -> mentioned code r -> In r (ex code)) -> no_collision_with ex guard.
Proof.
  intros Hex c code s d s' x' Hok He Hg Hre Hs.
  destruct (p_pick_ok c code s d s' x' Hok Hre Hs) as (r & t & A & B & C & D & E & F).
  exists r, t. repeat split; auto. intros Hm. apply D. rewrite He. now apply Hex.
Qed.

(* the scan in force is the one that enters difficulty switches *)
Lemma gen_explicit_is_deep : gen_explicit_deep = true.
Proof. reflexivity. Qed.

Lemma p_explicit_regs_complete : forall code r,
  mentioned code r <-> In r (explicit_regs_sel gen_explicit_deep code).
Proof. rewrite gen_explicit_is_deep. exact explicit_regs_deep_complete. Qed.

Lemma p_no_collision : no_collision_with (explicit_regs_sel gen_explicit_deep) (fun _ => True).
Proof. apply no_collision_with_complete. intros code r _. apply p_explicit_regs_complete. Qed.

Lemma p_alloc_result : forall c code s code',
  cfg_ok c -> assign_registers c code = Ok (s, code') ->
  length code' = length code /\
  forall2b stmt_refines code code' = true /\
  forallb stmt_no_local code' = true /\
  (forall r, mentioned code' r ->
     mentioned code r \/ In r (named_param_regs c) \/
     exists t, In r (general c t) /\ ~ In r (explicit c code) /\ ~ In r (param_regs c)).
Proof. intros c code s code' [H1 H2]. exact (alloc_result c code H1 H2 s code'). Qed.

Lemma p_param_registers_nodup : forall preg,
  (forall t n t' n' r, preg t n = Some r -> preg t' n' = Some r -> tclass t = tclass t' /\ n = n') ->
  forall ps l, param_registers preg ps 0 0 = Some l -> NoDup (map snd l).
Proof. intros preg H ps l. exact (param_registers_nodup preg H ps 0 0 l). Qed.
