(* Proofs/StructBasics.v -- basic facts about positions, label environments and the canonical
   stream of (partially) structured programs (Model/Structure.v). *)
From TV Require Import Base.I32 Model.Structure.
Open Scope nat_scope.

(* ------------------------------------------------------------------------------------------ *)
(* induction principle for the nested type *)

Section StmtInd.
  Variable P : stmt -> Prop.
  Hypothesis HIns : forall d i r, P (SIns d i r).
  Hypothesis HIntr : forall d n, P (SIntr d n).
  Hypothesis HNo : P SNo.
  Hypothesis HLabel : forall l, P (SLabel l).
  Hypothesis HTime : forall a t, P (STime a t).
  Hypothesis HJump : forall d k l t, P (SJump d k l t).
  Hypothesis HBreak : forall d k, P (SBreak d k).
  Hypothesis HLoop : forall k b, Forall P b -> P (SLoop k b).
  Hypothesis HChain : forall bs els,
      Forall (fun cb => Forall P (snd cb)) bs ->
      match els with None => True | Some b => Forall P b end ->
      P (SChain bs els).

  Definition blk_ind (rec : forall s, P s) : forall b : list stmt, Forall P b :=
    fix blk (b : list stmt) : Forall P b :=
      match b with
      | [] => Forall_nil _
      | x :: t => Forall_cons x (rec x) (blk t)
      end.

  Fixpoint stmt_ind2 (s : stmt) : P s :=
    match s with
    | SIns d i r => HIns d i r
    | SIntr d n => HIntr d n
    | SNo => HNo
    | SLabel l => HLabel l
    | STime a t => HTime a t
    | SJump d k l t => HJump d k l t
    | SBreak d k => HBreak d k
    | SLoop k b => HLoop k b (blk_ind stmt_ind2 b)
    | SChain bs els =>
        HChain bs els
          ((fix go (bs : list (cond * list stmt)) : Forall (fun cb => Forall P (snd cb)) bs :=
              match bs with
              | [] => Forall_nil _
              | cb :: t => Forall_cons cb (blk_ind stmt_ind2 (snd cb)) (go t)
              end) bs)
          (match els as e return (match e return Prop with None => True | Some b => Forall P b end) with
           | None => I
           | Some b => blk_ind stmt_ind2 b
           end)
    end.
End StmtInd.

(* ------------------------------------------------------------------------------------------ *)
(* adv_l / cat_l *)

Section ListsFacts.
  Context {A B : Type}.
  Variable advf : state -> A -> state.
  Variable f : state -> A -> list B.

  Lemma adv_l_app st a b : adv_l advf st (a ++ b) = adv_l advf (adv_l advf st a) b.
  Proof. revert st; induction a as [|x a IH]; intros st; cbn; auto. Qed.

  Lemma cat_l_app st a b :
    cat_l advf f st (a ++ b) = cat_l advf f st a ++ cat_l advf f (adv_l advf st a) b.
  Proof. revert st; induction a as [|x a IH]; intros st; cbn; auto. rewrite IH, app_assoc. reflexivity. Qed.

  Lemma cat_l_ext (g : state -> A -> list B) st l :
    Forall (fun x => forall st, f st x = g st x) l -> cat_l advf f st l = cat_l advf g st l.
  Proof.
    intros H; revert st; induction H as [|x l Hx _ IH]; intros st; cbn; auto. now rewrite Hx, IH.
  Qed.
End ListsFacts.

Lemma adv_app st a b : adv st (a ++ b) = adv (adv st a) b.
Proof. apply adv_l_app. Qed.
Lemma lenv_app st a b : lenv st (a ++ b) = lenv st a ++ lenv (adv st a) b.
Proof. apply cat_l_app. Qed.
Lemma sem_app N C E brk st a b : sem N C E brk st (a ++ b) = sem N C E brk st a ++ sem N C E brk (adv st a) b.
Proof. apply cat_l_app. Qed.

Lemma adv_cons st x t : adv st (x :: t) = adv (adv_s st x) t.
Proof. reflexivity. Qed.
Lemma lenv_cons st x t : lenv st (x :: t) = lenv_s st x ++ lenv (adv_s st x) t.
Proof. reflexivity. Qed.
Lemma sem_cons N C E brk st x t : sem N C E brk st (x :: t) = sem_s N C E brk st x ++ sem N C E brk (adv_s st x) t.
Proof. reflexivity. Qed.
Lemma adv_nil st : adv st [] = st. Proof. reflexivity. Qed.
Lemma lenv_nil st : lenv st [] = []. Proof. reflexivity. Qed.
Lemma sem_nil N C E brk st : sem N C E brk st [] = []. Proof. reflexivity. Qed.

(* unfolding the structured statements in terms of the block-level functions *)
Lemma adv_s_loop st k b : adv_s st (SLoop k b) = real (adv st b).
Proof. reflexivity. Qed.
Lemma lenv_s_loop st k b : lenv_s st (SLoop k b) = lenv st b.
Proof. reflexivity. Qed.
Lemma sem_s_loop N C E brk st k b :
  sem_s N C E brk st (SLoop k b) =
  sem N C E (Some (real (adv st b))) st b ++ [(snd (adv st b), None, BJump (k_if k) (Some st) None)].
Proof. reflexivity. Qed.

(* one-step unfoldings as rewrite rules (cbn unfolds too much under nested fixpoints) *)
Lemma adv_s_label st l : adv_s st (SLabel l) = st. Proof. reflexivity. Qed.
Lemma adv_s_no st : adv_s st SNo = st. Proof. reflexivity. Qed.
Lemma adv_s_jump st d k l t : adv_s st (SJump d k l t) = real st. Proof. reflexivity. Qed.
Lemma adv_s_break st d k : adv_s st (SBreak d k) = real st. Proof. reflexivity. Qed.
Lemma lenv_s_label st l : lenv_s st (SLabel l) = [(l, st)]. Proof. reflexivity. Qed.
Lemma lenv_s_no st : lenv_s st SNo = []. Proof. reflexivity. Qed.
Lemma lenv_s_jump st d k l t : lenv_s st (SJump d k l t) = []. Proof. reflexivity. Qed.
Lemma lenv_s_break st d k : lenv_s st (SBreak d k) = []. Proof. reflexivity. Qed.
Lemma sem_s_label N C E brk st l : sem_s N C E brk st (SLabel l) = []. Proof. reflexivity. Qed.
Lemma sem_s_no N C E brk st : sem_s N C E brk st SNo = []. Proof. reflexivity. Qed.
Lemma sem_s_jump N C E brk st d k l t :
  sem_s N C E brk st (SJump d k l t) = [(snd st, d, BJump (k_if k) (E l) t)]. Proof. reflexivity. Qed.
Lemma sem_s_break N C E brk st d k :
  sem_s N C E brk st (SBreak d k) = [(snd st, d, BJump (k_if k) brk None)]. Proof. reflexivity. Qed.
#[export] Hint Rewrite adv_app lenv_app @sem_app adv_cons lenv_cons @sem_cons adv_nil lenv_nil @sem_nil
  adv_s_label adv_s_no adv_s_jump adv_s_break lenv_s_label lenv_s_no lenv_s_jump lenv_s_break
  @sem_s_label @sem_s_no @sem_s_jump @sem_s_break adv_s_loop lenv_s_loop @sem_s_loop
  app_nil_r app_nil_l : struct.

Definition chain_end (st : state) (bs : list (cond * list stmt)) (els : option (list stmt)) : state :=
  match els with
  | None => chain_adv adv true st bs
  | Some b => adv (chain_adv adv false st bs) b
  end.
Lemma adv_s_chain st bs els : adv_s st (SChain bs els) = chain_end st bs els.
Proof. destruct els; reflexivity. Qed.

Lemma lenv_s_chain st bs els :
  lenv_s st (SChain bs els) =
  chain_cat adv lenv (fun _ _ _ => []) (fun _ => []) (is_none els) st bs
  ++ match els with None => [] | Some b => lenv (chain_adv adv (is_none els) st bs) b end.
Proof. reflexivity. Qed.
Lemma sem_s_chain N C E brk st bs els :
  sem_s N C E brk st (SChain bs els) =
  chain_cat adv (sem N C E brk)
            (fun st c tgt => [(snd st, None, BJump (k_unless N C c) (Some tgt) None)])
            (fun st' => [(snd st', None, BJump KU (Some (chain_end st bs els)) None)]) (is_none els) st bs
  ++ match els with None => [] | Some b => sem N C E brk (chain_adv adv (is_none els) st bs) b end.
Proof. destruct els; reflexivity. Qed.

(* ------------------------------------------------------------------------------------------ *)
(* chain_cat congruence *)

Section ChainFacts.
  Context {B : Type}.
  Variable advb : state -> list stmt -> state.

  Lemma chain_cat_ext (g g' : state -> list stmt -> list B) hd hd' tl tl' en st bs :
    Forall (fun cb => forall st, g st (snd cb) = g' st (snd cb)) bs ->
    (forall st c t, hd st c t = hd' st c t) -> (forall st, tl st = tl' st) ->
    chain_cat advb g hd tl en st bs = chain_cat advb g' hd' tl' en st bs.
  Proof.
    intros H Hh Ht; revert st; induction H as [|[c b] t Hx _ IH]; intros st; cbn; auto.
    cbn in Hx. rewrite Hx, Hh, IH. destruct (is_nil t && en); [reflexivity|]. now rewrite Ht.
  Qed.
End ChainFacts.

(* ------------------------------------------------------------------------------------------ *)
(* a program without `break` does not look at the loop-end position *)

Lemma no_break_irrel_s N C E b1 b2 s : no_break_s s = true -> forall st, sem_s N C E b1 st s = sem_s N C E b2 st s.
Proof.
  induction s using stmt_ind2; intros Hnb st; cbn in *; try reflexivity; try discriminate.
  (* a loop body refers to that loop's own end in both; remains: chain *)
  - apply andb_true_iff in Hnb as [Hbs Hels]. f_equal.
    + apply chain_cat_ext; auto.
      rewrite forallb_forall in Hbs. rewrite Forall_forall in *. intros cb Hcb st'.
      apply cat_l_ext. specialize (H cb Hcb). specialize (Hbs cb Hcb). rewrite forallb_forall in Hbs.
      rewrite Forall_forall in *. intros x Hx st''. apply H; auto.
    + destruct els as [b|]; [|reflexivity]. apply cat_l_ext. rewrite forallb_forall in Hels.
      rewrite Forall_forall in *. intros x Hx st'. apply H0; auto.
Qed.

Lemma no_break_irrel N C E b1 b2 p : no_break p = true -> forall st, sem N C E b1 st p = sem N C E b2 st p.
Proof.
  intros H st. apply cat_l_ext. unfold no_break in H. rewrite forallb_forall in H. rewrite Forall_forall.
  intros x Hx st'. apply no_break_irrel_s; auto.
Qed.

(* ------------------------------------------------------------------------------------------ *)
(* environments *)

Definition consistent (E : env) (st : state) (p : list stmt) : Prop :=
  forall l s, In (l, s) (lenv st p) -> E l = Some s.
Definition consistent_s (E : env) (st : state) (x : stmt) : Prop :=
  forall l s, In (l, s) (lenv_s st x) -> E l = Some s.

Lemma consistent_app E st a b : consistent E st (a ++ b) <-> consistent E st a /\ consistent E (adv st a) b.
Proof.
  unfold consistent. rewrite lenv_app. split.
  - intros H; split; intros l s Hin; apply H, in_or_app; auto.
  - intros [Ha Hb] l s Hin. apply in_app_or in Hin as [?|?]; auto.
Qed.

Lemma consistent_cons E st x t : consistent E st (x :: t) <-> consistent_s E st x /\ consistent E (adv_s st x) t.
Proof.
  unfold consistent, consistent_s. rewrite lenv_cons. split.
  - intros H; split; intros l s Hin; apply H, in_or_app; auto.
  - intros [Ha Hb] l s Hin. apply in_app_or in Hin as [?|?]; auto.
Qed.

Definition well_labelled (p : list stmt) : Prop := NoDup (map fst (lenv st0 p)).

Lemma lookup_In (L : list (nat * state)) l s : NoDup (map fst L) -> In (l, s) L -> lookup L l = Some s.
Proof.
  induction L as [|[k v] L IH]; cbn; intros Hnd Hin; [contradiction|].
  inversion Hnd as [|? ? Hnot Hnd']; subst.
  destruct Hin as [Heq|Hin].
  - inversion Heq; subst. now rewrite Nat.eqb_refl.
  - destruct (Nat.eqb l k) eqn:Hlk.
    + apply Nat.eqb_eq in Hlk; subst. exfalso. apply Hnot. change k with (fst (k, s)). now apply in_map.
    + auto.
Qed.

Lemma well_labelled_consistent p : well_labelled p -> consistent (lookup (lenv st0 p)) st0 p.
Proof. intros H l s Hin. now apply lookup_In. Qed.
