(* Proofs/AbiRoundtrip.v -- decoding what encode_args wrote returns the arguments (C12), for every
   signature, through the generated codec table. *)
From TV Require Import Base.I32 Model.Abi Spec.AbiFit Proofs.AbiBytes.
Open Scope Z_scope.

Ltac inv H := inversion H; subst; clear H.

Lemma obind_ok {A B} (m : outcome A) (f : A -> outcome B) b :
  obind m f = Ok b -> exists a, m = Ok a /\ f a = Ok b.
Proof. destruct m; cbn [obind]; intro H; try discriminate. eauto. Qed.

Ltac bind_ok H x Hx :=
  let H' := fresh in
  apply obind_ok in H; destruct H as [x [Hx H']]; rename H' into H.

Lemma andb_split a b : a && b = true -> a = true /\ b = true.
Proof. apply andb_true_iff. Qed.

(* ---- integers ---- *)
Lemma read_write_int n sg v tail :
  width_ok n = true -> fits_width n sg v = true ->
  read_int n sg (le_bytes n v ++ tail) = Ok (v, tail).
Proof.
  intros Hw Hf. unfold read_int. rewrite take_app_n by apply le_bytes_length. cbn [obind].
  rewrite le_val_le_bytes. do 2 f_equal.
  unfold width_ok in Hw. apply andb_split in Hw. destruct Hw as [Hn0 Hn4].
  apply Nat.ltb_lt in Hn0. apply Nat.leb_le in Hn4.
  unfold fits_width in Hf. apply andb_split in Hf. destruct Hf as [Hi Hr].
  apply in_i32b_spec in Hi. apply orb_true_iff in Hr.
  destruct (Nat.eq_dec n 4) as [->|Hne].
  - destruct sg.
    + rewrite interp_mod; [now apply wrap32_id|lia|].
      unfold in_range, int_lo, int_hi. unfold in_i32, I32_MIN, I32_MAX in Hi.
      apply andb_true_iff. split; apply Z.leb_le; cbn; lia.
    + now apply wrap32_interp4_unsigned.
  - destruct Hr as [Hr|Hr]; [apply Nat.eqb_eq in Hr; lia|].
    rewrite interp_mod by (assumption || lia). now apply wrap32_id.
Qed.

Lemma write_int_ok n sg c v b : write_int n sg c v = Ok b -> b = le_bytes n v.
Proof.
  unfold write_int. destruct c; try (intro H; now inv H).
  destruct (in_range n sg v); intro H; now inv H.
Qed.

Lemma find_some_in {A} (f : A -> bool) l x : find f l = Some x -> In x l /\ f x = true.
Proof. apply find_some. Qed.

Section Codec.
Variable cd : codec.
Hypothesis Hcd : codec_ok cd = true.

Lemma codec_arm arm size sg : find_enc_arm cd size sg = Some arm ->
  exists d, find_dec_arm cd size sg = Some d /\ da_len d = Z.of_nat (ea_wbytes arm) /\
            da_rbytes d = ea_wbytes arm /\ da_rsigned d = ea_wsigned arm /\ width_ok (ea_wbytes arm) = true.
Proof.
  intro Hf. unfold find_enc_arm in Hf. apply find_some in Hf. destruct Hf as [Hin Hm].
  apply andb_split in Hm. destruct Hm as [Hs Hsg]. apply Z.eqb_eq in Hs. apply Bool.eqb_prop in Hsg.
  pose proof Hcd as H0. unfold codec_ok in H0. repeat (apply andb_split in H0; destruct H0 as [H0 ?]).
  rewrite forallb_forall in H0. specialize (H0 _ Hin). unfold enc_arm_ok in H0.
  rewrite Hs, Hsg in H0. destruct (find_dec_arm cd size sg) as [d|]; [|discriminate].
  repeat (apply andb_split in H0; destruct H0 as [H0 ?]).
  exists d. repeat split; try assumption.
  - now apply Z.eqb_eq.
  - now apply Nat.eqb_eq.
  - now apply Bool.eqb_prop.
Qed.

Lemma codec_jump : let '(n, sg, c) := cd_enc_jump cd in let '(len, n', sg') := cd_dec_jump cd in
  width_ok n = true /\ len = Z.of_nat n /\ n' = n /\ sg' = sg.
Proof.
  pose proof Hcd as H0. unfold codec_ok in H0. repeat (apply andb_split in H0; destruct H0 as [H0 ?]).
  destruct (cd_enc_jump cd) as [[n sg] c]. destruct (cd_dec_jump cd) as [[len n'] sg'].
  repeat match goal with H : _ && _ = true |- _ => apply andb_split in H; destruct H end.
  repeat split; try assumption.
  - now apply Z.eqb_eq.
  - now apply Nat.eqb_eq.
  - now apply Bool.eqb_prop.
Qed.

Lemma codec_float : cd_enc_float cd = 4%nat /\ cd_dec_float cd = (4, 4%nat).
Proof.
  pose proof Hcd as H0. unfold codec_ok in H0. repeat (apply andb_split in H0; destruct H0 as [H0 ?]).
  destruct (cd_dec_float cd) as [len n].
  repeat match goal with H : _ && _ = true |- _ => apply andb_split in H; destruct H end.
  split; [now apply Nat.eqb_eq|]. f_equal; [now apply Z.eqb_eq|now apply Nat.eqb_eq].
Qed.

Lemma codec_pad size n : zassoc size (cd_enc_pad cd) = Some n ->
  Z.of_nat n = size /\ width_ok n = true /\ exists sg, zassoc size (cd_dec_pad cd) = Some (n, sg).
Proof.
  intro Hz.
  assert (Hin : In (size, n) (cd_enc_pad cd)).
  { clear Hcd. induction (cd_enc_pad cd) as [|[k x] l IH]; cbn [zassoc] in Hz; [discriminate|].
    destruct (size =? k) eqn:E; [apply Z.eqb_eq in E; inv Hz; now left|right; now apply IH]. }
  pose proof Hcd as H0. unfold codec_ok in H0. repeat (apply andb_split in H0; destruct H0 as [H0 ?]).
  match goal with H : forallb (pad_ok cd) _ = true |- _ => rewrite forallb_forall in H; specialize (H _ Hin); unfold pad_ok in H;
    apply andb_split in H; destruct H as [Hp1 Hp2]; apply andb_split in Hp1; destruct Hp1 as [Hp1 Hp3] end.
  apply Z.eqb_eq in Hp1. split; [assumption|]. split; [exact Hp3|].
  destruct (zassoc size (cd_dec_pad cd)) as [[n' sg]|]; [|discriminate].
  apply Nat.eqb_eq in Hp2. subst n'. now exists sg.
Qed.

Lemma codec_flags : cd_nul_block cd = true /\ cd_nul_pascal cd = true /\ cd_nul_fixed cd = true /\
  cd_nul_nulless cd = false /\ cd_pascal_prefix cd = 4%nat /\ 0 < cd_mask_bits cd.
Proof.
  pose proof Hcd as H0. unfold codec_ok in H0. repeat (apply andb_split in H0; destruct H0 as [H0 ?]).
  repeat split; try assumption.
  - now apply negb_true_iff.
  - now apply Nat.eqb_eq.
  - now apply Z.ltb_lt.
Qed.

Lemma codec_arg0 : let '(n, sg, c) := cd_arg0 cd in width_ok n = true /\ (n < 4)%nat.
Proof.
  pose proof Hcd as H0. unfold codec_ok in H0. repeat (apply andb_split in H0; destruct H0 as [H0 ?]).
  destruct (cd_arg0 cd) as [[n sg] c].
  repeat match goal with H : _ && _ = true |- _ => apply andb_split in H; destruct H end.
  split; [assumption|now apply Nat.ltb_lt].
Qed.

End Codec.

(* ---- small facts about the helpers ---- *)
Lemma decrease_len_ok rem amount : amount <= rem -> decrease_len rem amount = Ok (rem - amount).
Proof. intro H. unfold decrease_len. destruct (rem <? amount) eqn:E; [apply Z.ltb_lt in E; lia|reflexivity]. Qed.

Lemma to_nat_zlen {A} (l : list A) : Z.to_nat (zlen l) = length l.
Proof. unfold zlen. apply Nat2Z.id. Qed.

Lemma take_zlen (l tail : bytes) : take (Z.to_nat (zlen l)) (l ++ tail) = Ok (l, tail).
Proof. rewrite to_nat_zlen. apply take_app. Qed.

Lemma resize_ge l n : zlen l <= n -> resize l n = l ++ zeros (n - zlen l).
Proof. intro H. unfold resize. destruct (zlen l <=? n) eqn:E; [reflexivity|apply Z.leb_gt in E; lia]. Qed.

Lemma null_pad_shape l bs : bs <> 0 -> exists k, null_pad l bs = Ok (l ++ zeros k).
Proof. intro H. unfold null_pad. destruct (bs =? 0) eqn:E; [apply Z.eqb_eq in E; contradiction|]. eauto. Qed.

Lemma zeros_pos n : 0 < n -> zeros n = 0 :: zeros (n - 1).
Proof.
  intro H. unfold zeros. replace (Z.to_nat n) with (S (Z.to_nat (n - 1))) by lia. reflexivity.
Qed.

Lemma zeros_nonpos n : n <= 0 -> zeros n = [].
Proof. intro H. unfold zeros. replace (Z.to_nat n) with O by lia. reflexivity. Qed.

Lemma all_zero_nil : all_zero [] = true.
Proof. reflexivity. Qed.

Lemma furi_shape (e0 : bytes) (fb : bool) (st : option bytes) :
  exists rest st',
    (if fb then match st with Some f => ((e0 ++ [0]) ++ f, @None bytes) | None => (e0 ++ [0], None) end else (e0 ++ [0], st))
    = (e0 ++ 0 :: rest, st') /\ (fb = true \/ rest = []).
Proof.
  destruct fb; [destruct st as [f|]|].
  - exists f, None. rewrite <- app_assoc. split; [reflexivity|now left].
  - exists [], None. split; [reflexivity|now left].
  - exists [], st. split; [reflexivity|now right].
Qed.

Section Roundtrip.
Variable sjis_enc : list Z -> option bytes.
Variable sjis_dec : bytes -> option (list Z).
Variable repertoire : Z -> bool.
(* the two facts about Shift-JIS (encoding_rs) that the theorems rest on; swept by the harness *)
Hypothesis sjis_inverse : forall s b, forallb repertoire s = true -> sjis_enc s = Some b -> sjis_dec b = Some s.
Hypothesis sjis_no_nul : forall s b, sjis_enc s = Some b -> In 0 b -> In 0 s.
Variable cd : codec.
Hypothesis Hcd : codec_ok cd = true.

Lemma good_string_facts s : good_string repertoire s = true -> forallb repertoire s = true /\ ~ In 0 s.
Proof.
  unfold good_string. induction s as [|c s IH]; cbn [forallb]; intro H; [split; [reflexivity|intros []]|].
  apply andb_split in H. destruct H as [Hc Hs]. apply andb_split in Hc. destruct Hc as [Hr Hz].
  destruct (IH Hs) as [IH1 IH2]. split; [now rewrite Hr, IH1|].
  intros [->|Hin]; [discriminate|contradiction].
Qed.

(* what is in the buffer just before masking: the encoded text, then either a NUL and bytes that the
   decoder ignores, or (nulless) only zero fill *)
Definition buffer_shape (e0 e3 : bytes) (quiet : bool) : Prop :=
  (exists rest, e3 = e0 ++ 0 :: rest /\ (quiet = true \/ all_zero rest = true)).

Lemma trim_shape e0 e3 quiet : no_nul e0 -> buffer_shape e0 e3 quiet ->
  trim_first_nul e3 (negb quiet) = (e0, []).
Proof.
  intros Hn [rest [-> Hq]]. apply trim_after_nul_warn; [assumption|].
  destruct Hq as [->|Hz]; [now left|now right].
Qed.

Lemma string_roundtrip sz m v a fb s st b0 st1 tail :
  str_ok (EStr sz m v a fb) = true -> good_string repertoire s = true ->
  string_field sjis_enc cd sz m v a fb s st = Ok (b0, st1) ->
  zlen b0 < 2 ^ 32 ->
  match sz with SBlock _ => tail = [] | _ => True end ->
  decode_string sjis_dec cd sz m v a fb (b0 ++ tail) (zlen (b0 ++ tail)) = Ok (s, [], tail, zlen tail).
Proof.
  intros Hok Hgood Henc Hsmall Htail.
  destruct (good_string_facts _ Hgood) as [Hrep Hnonul].
  destruct (codec_flags cd Hcd) as [Fb [Fp [Ff [Fn [Fpre _]]]]].
  unfold string_field in Henc. destruct (sjis_enc s) as [e0|] eqn:Es; [|discriminate].
  assert (Hn0 : no_nul e0) by (intro Hin; apply Hnonul; eapply sjis_no_nul; eassumption).
  pose proof (sjis_inverse _ _ Hrep Es) as Hdec.
  destruct sz as [len nulless|bs|bs].
  - (* fixed buffer *)
    destruct nulless.
    + (* nulless: furibug excluded *)
      cbn [str_ok] in Hok. destruct fb; [discriminate|]. rewrite Fn in Henc. cbn [andb] in Henc.
      bind_ok Henc e3 H3. destruct (len <? zlen e0) eqn:El; [discriminate|]. inv H3. inv Henc.
      apply Z.ltb_ge in El. rewrite resize_ge by assumption. rewrite ?app_nil_l.
      unfold decode_string. cbn [obind].
      set (e3 := e0 ++ zeros (len - zlen e0)).
      assert (Hl3 : zlen e3 = len) by (unfold e3; rewrite zlen_app, zeros_length; lia).
      rewrite zlen_app, zlen_apply_mask, Hl3. rewrite decrease_len_ok by (pose proof (zlen_nonneg tail); lia). cbn [obind].
      replace (Z.to_nat len) with (Z.to_nat (zlen (apply_mask e3 m v a))) by (now rewrite zlen_apply_mask, Hl3).
      rewrite take_zlen. cbn [obind]. rewrite apply_mask_involutive.
      assert (Hshape : buffer_shape e0 (match index_of_nul e3 with None => e3 ++ [0] | Some _ => e3 end) false).
      { unfold e3. destruct (Z.eq_dec (len - zlen e0) 0) as [E0|E0].
        - rewrite zeros_nonpos by lia. rewrite app_nil_r. rewrite index_of_nul_none by assumption.
          exists []. split; [reflexivity|now right].
        - rewrite zeros_pos by lia. rewrite index_of_nul_app_nul by assumption.
          exists (zeros (len - zlen e0 - 1)). split; [reflexivity|right; apply all_zero_zeros]. }
      rewrite (trim_shape _ _ _ Hn0 Hshape). rewrite Hdec. do 4 f_equal. lia.
    + (* NUL-terminated in the buffer *)
      rewrite Ff in Henc.
      destruct (furi_shape e0 fb st) as [rest [st' [Hsh Hq]]]. rewrite Hsh in Henc.
      bind_ok Henc e3 H3. destruct (len <? zlen (e0 ++ 0 :: rest)) eqn:El; [discriminate|]. inv H3. inv Henc.
      apply Z.ltb_ge in El. rewrite resize_ge by assumption. rewrite ?app_nil_l.
      set (e2 := e0 ++ 0 :: rest) in *. set (e3 := e2 ++ zeros (len - zlen e2)).
      assert (Hl3 : zlen e3 = len) by (unfold e3; rewrite zlen_app, zeros_length; lia).
      unfold decode_string. cbn [obind].
      rewrite zlen_app, zlen_apply_mask, Hl3. rewrite decrease_len_ok by (pose proof (zlen_nonneg tail); lia). cbn [obind].
      replace (Z.to_nat len) with (Z.to_nat (zlen (apply_mask e3 m v a))) by (now rewrite zlen_apply_mask, Hl3).
      rewrite take_zlen. cbn [obind]. rewrite apply_mask_involutive.
      assert (Hshape : buffer_shape e0 e3 fb).
      { unfold e3, e2. rewrite <- app_assoc. cbn [app]. eexists. split; [reflexivity|].
        destruct Hq as [->| ->]; [now left|right]. cbn [app]. apply all_zero_zeros. }
      rewrite (trim_shape _ _ _ Hn0 Hshape). rewrite Hdec. do 4 f_equal. lia.
  - (* to the end of the blob *)
    cbn [str_ok] in Hok. apply Z.ltb_lt in Hok. subst tail. rewrite Fb in Henc.
    destruct (furi_shape e0 fb st) as [rest [st' [Hsh Hq]]]. rewrite Hsh in Henc.
    bind_ok Henc e3 H3. inv Henc. rewrite ?app_nil_l, ?app_nil_r.
    destruct (bs =? 0) eqn:Eb; [apply Z.eqb_eq in Eb; lia|].
    assert (Hshape : buffer_shape e0 e3 fb).
    { destruct (zlen (e0 ++ 0 :: rest) mod bs =? 0).
      - inv H3. eexists. split; [reflexivity|]. destruct Hq as [->| ->]; [now left|now right].
      - destruct (null_pad_shape (e0 ++ 0 :: rest) bs) as [k Hk]; [lia|]. rewrite Hk in H3. inv H3.
        rewrite <- app_assoc. cbn [app]. eexists. split; [reflexivity|].
        destruct Hq as [->| ->]; [now left|right]. cbn [app]. apply all_zero_zeros. }
    unfold decode_string. cbn [obind].
    rewrite decrease_len_ok by lia. cbn [obind].
    replace (apply_mask e3 m v a) with (apply_mask e3 m v a ++ []) at 2 by apply app_nil_r.
    rewrite take_zlen. cbn [obind]. rewrite apply_mask_involutive.
    rewrite (trim_shape _ _ _ Hn0 Hshape). rewrite Hdec. do 4 f_equal. rewrite zlen_nil. lia.
  - (* length-prefixed *)
    cbn [str_ok] in Hok. apply Z.ltb_lt in Hok. rewrite Fp in Henc.
    destruct (furi_shape e0 fb st) as [rest [st' [Hsh Hq]]]. rewrite Hsh in Henc.
    bind_ok Henc e3 H3. inv Henc.
    destruct (bs =? 0) eqn:Eb; [apply Z.eqb_eq in Eb; lia|].
    assert (Hshape : buffer_shape e0 e3 fb).
    { destruct (zlen (e0 ++ 0 :: rest) mod bs =? 0).
      - inv H3. eexists. split; [reflexivity|]. destruct Hq as [->| ->]; [now left|now right].
      - destruct (null_pad_shape (e0 ++ 0 :: rest) bs) as [k Hk]; [lia|]. rewrite Hk in H3. inv H3.
        rewrite <- app_assoc. cbn [app]. eexists. split; [reflexivity|].
        destruct Hq as [->| ->]; [now left|right]. cbn [app]. apply all_zero_zeros. }
    rewrite Fpre in *. set (e4 := apply_mask e3 m v a) in *.
    rewrite zlen_app, zlen_le_bytes in Hsmall.
    unfold decode_string. rewrite Fpre. cbn [obind].
    rewrite !zlen_app, zlen_le_bytes.
    pose proof (zlen_nonneg e4). pose proof (zlen_nonneg tail).
    rewrite decrease_len_ok by lia. cbn [obind].
    rewrite <- app_assoc. rewrite take_app_n by apply le_bytes_length. cbn [obind].
    rewrite le_val_le_bytes. change (2 ^ (8 * Z.of_nat 4)) with (2 ^ 32).
    rewrite Z.mod_small by lia.
    rewrite decrease_len_ok by lia. cbn [obind].
    rewrite take_zlen. cbn [obind]. unfold e4. rewrite apply_mask_involutive.
    rewrite (trim_shape _ _ _ Hn0 Hshape). rewrite Hdec. do 4 f_equal. lia.
Qed.

End Roundtrip.

(* ---- mask arithmetic ---- *)
Lemma land1_shift b d : (b = 0 \/ b = 1) -> Z.land (b + 2 * d) 1 = b /\ Z.shiftr (b + 2 * d) 1 = d.
Proof.
  intro Hb. change 1 with (Z.ones 1) at 1. rewrite Z.land_ones by lia. rewrite Z.shiftr_div_pow2 by lia.
  change (2 ^ 1) with 2. split; destruct Hb; subst; lia.
Qed.

Lemma lor_bit b d k : 0 <= k -> 0 <= d -> (b = 0 \/ b = 1) ->
  Z.lor (b * 2 ^ k) (d * 2 ^ (k + 1)) = (b + 2 * d) * 2 ^ k.
Proof.
  intros Hk Hd Hb.
  replace (d * 2 ^ (k + 1)) with ((2 * d) * 2 ^ k) by (rewrite Z.pow_add_r by lia; change (2 ^ 1) with 2; ring).
  rewrite <- !Z.shiftl_mul_pow2 by lia. rewrite <- Z.shiftl_lor. f_equal.
  destruct Hb; subst; [reflexivity|]. destruct d; try lia; reflexivity.
Qed.

(* the decoded argument list: a zero for every padding position *)
Fixpoint with_pad (sig : list enc) (args : list arg) : list arg :=
  match sig with
  | [] => []
  | e :: sig' => if is_pad e then mkarg (AInt 0) false :: with_pad sig' args
                 else match args with a :: args' => a :: with_pad sig' args' | [] => [] end
  end.

Fixpoint block_last (sig : list enc) : bool :=
  match sig with
  | [] => true
  | e :: sig' => (negb (is_blockstr e) || match sig' with [] => true | _ => false end) && block_last sig'
  end.

Lemma block_last_of_validate sig : existsb is_blockstr (tl (rev sig)) = false -> block_last sig = true.
Proof.
  induction sig as [|e sig IH]; [reflexivity|]. intro H. cbn [block_last].
  destruct sig as [|e' sig']; [destruct (is_blockstr e); reflexivity|].
  cbn [rev] in H. set (r := rev sig' ++ [e']) in *.
  assert (Hr : exists x r', r = x :: r').
  { unfold r. destruct (rev sig') as [|x r']; cbn [app]; eauto. }
  destruct Hr as [x [r' Hr]]. rewrite Hr in H. cbn [app tl] in H.
  rewrite existsb_app in H. apply orb_false_iff in H. destruct H as [H1 H2].
  cbn [existsb] in H2. apply orb_false_iff in H2. destruct H2 as [H2 _]. rewrite H2. cbn [negb orb andb].
  apply IH. cbn [rev]. fold r. rewrite Hr. exact H1.
Qed.

Section Loop.
Variable sjis_enc : list Z -> option bytes.
Variable sjis_dec : bytes -> option (list Z).
Variable repertoire : Z -> bool.
Hypothesis sjis_inverse : forall s b, forallb repertoire s = true -> sjis_enc s = Some b -> sjis_dec b = Some s.
Hypothesis sjis_no_nul : forall s b, sjis_enc s = Some b -> In 0 b -> In 0 s.
Variable cd : codec.
Hypothesis Hcd : codec_ok cd = true.

Lemma arg_fits_not_bad e a : arg_fits repertoire cd e a = true -> bad_float_reg a = false.
Proof.
  unfold arg_fits, bad_float_reg. destruct (a_val a); try (intros; apply andb_false_r).
  destruct e; try discriminate. intro H. apply andb_split in H. destruct H as [_ H].
  destruct (a_reg a); [|reflexivity]. cbn [negb orb andb] in *. now rewrite H.
Qed.

Lemma drop_with_pad sig args : args_fit repertoire cd sig args = true ->
  drop_padding sig (with_pad sig args) = args /\ padding_nonzero sig (with_pad sig args) = false
  /\ length (with_pad sig args) = length sig /\ existsb bad_float_reg (with_pad sig args) = false.
Proof.
  revert args. induction sig as [|e sig IH]; intros args H; cbn [args_fit] in H.
  - destruct args; [|discriminate]. repeat split.
  - destruct (is_pad e) eqn:Ep.
    + destruct (IH _ H) as [I1 [I2 [I3 I4]]]. cbn [with_pad]. rewrite Ep.
      cbn [drop_padding padding_nonzero length existsb]. rewrite Ep. cbn [a_val andb orb].
      repeat split; [assumption|assumption|now rewrite I3|exact I4].
    + destruct args as [|a args]; [discriminate|]. apply andb_split in H. destruct H as [Ha H].
      destruct (IH _ H) as [I1 [I2 [I3 I4]]]. cbn [with_pad]. rewrite Ep.
      cbn [drop_padding padding_nonzero length existsb]. rewrite Ep. cbn [andb orb].
      rewrite (arg_fits_not_bad _ _ Ha). cbn [orb].
      repeat split; [now rewrite I1|assumption|now rewrite I3|exact I4].
Qed.

Ltac fin_len :=
  match goal with |- Ok (_, _, (_, ?x, _, _)) = Ok (_, _, (_, ?y, _, _)) => replace x with y by lia end; reflexivity.

(* one non-padding, non-arg0 field *)
Lemma field_roundtrip e a st b0 st1 tail mask extra :
  is_pad e = false -> is_arg0 e = false -> str_ok e = true ->
  arg_fits repertoire cd e a = true ->
  encode_field sjis_enc cd e a st = Ok (b0, st1) ->
  zlen b0 < 2 ^ 32 ->
  (is_blockstr e = true -> tail = []) ->
  decode_field sjis_dec cd e (b0 ++ tail, zlen (b0 ++ tail), mask, extra) =
    Ok (mkarg (a_val a) (negb (always_imm cd e) && (Z.land mask 1 =? 1)), [], (tail, zlen tail, Z.shiftr mask 1, extra)).
Proof.
  intros Hp H0 Hs Hf He Hsmall Hb.
  pose proof (zlen_nonneg tail) as Ht.
  destruct e as [size signed imm arg0| | |size|imm|sz m v acc fb]; try discriminate.
  - (* integer *)
    destruct arg0; [discriminate|]. cbn [encode_field] in He.
    destruct (find_enc_arm cd size signed) as [arm|] eqn:Ea; [|discriminate].
    bind_ok He z Hz. bind_ok He b Hb'. inv He.
    apply write_int_ok in Hb'. subst b0.
    unfold expect_int in Hz. destruct (a_val a) as [z'| |] eqn:Ev; try discriminate. inv Hz.
    destruct (codec_arm cd Hcd _ _ _ Ea) as [d [Ed [D1 [D2 [D3 D4]]]]].
    unfold arg_fits in Hf. rewrite Ev in Hf. cbn [int_fits] in Hf. rewrite Ea in Hf.
    unfold decode_field. cbn [contributes is_arg0 negb orb andb]. rewrite Ed. rewrite D1, D2, D3.
    rewrite zlen_app, zlen_le_bytes. rewrite decrease_len_ok by lia. cbn [obind].
    rewrite read_write_int by assumption. cbn [obind]. fin_len.
  - (* jump offset *)
    cbn [encode_field] in He. pose proof (codec_jump cd Hcd) as Hj.
    destruct (cd_enc_jump cd) as [[n sg] c] eqn:Ej. destruct (cd_dec_jump cd) as [[len n'] sg'] eqn:Edj.
    destruct Hj as [J1 [J2 [J3 J4]]]. subst len n' sg'.
    bind_ok He z Hz. bind_ok He b Hb'. inv He. apply write_int_ok in Hb'. subst b0.
    unfold expect_int in Hz. destruct (a_val a) as [z'| |] eqn:Ev; try discriminate. inv Hz.
    unfold arg_fits in Hf. rewrite Ev in Hf. cbn [int_fits] in Hf. rewrite ?Ej in Hf.
    unfold decode_field. cbn [contributes is_arg0 negb orb andb]. rewrite ?Edj.
    rewrite zlen_app, zlen_le_bytes. rewrite decrease_len_ok by lia. cbn [obind].
    rewrite read_write_int by assumption. cbn [obind]. fin_len.
  - (* jump time *)
    cbn [encode_field] in He. pose proof (codec_jump cd Hcd) as Hj.
    destruct (cd_enc_jump cd) as [[n sg] c] eqn:Ej. destruct (cd_dec_jump cd) as [[len n'] sg'] eqn:Edj.
    destruct Hj as [J1 [J2 [J3 J4]]]. subst len n' sg'.
    bind_ok He z Hz. bind_ok He b Hb'. inv He. apply write_int_ok in Hb'. subst b0.
    unfold expect_int in Hz. destruct (a_val a) as [z'| |] eqn:Ev; try discriminate. inv Hz.
    unfold arg_fits in Hf. rewrite Ev in Hf. cbn [int_fits] in Hf. rewrite ?Ej in Hf.
    unfold decode_field. cbn [contributes is_arg0 negb orb andb]. rewrite ?Edj.
    rewrite zlen_app, zlen_le_bytes. rewrite decrease_len_ok by lia. cbn [obind].
    rewrite read_write_int by assumption. cbn [obind]. fin_len.
  - (* float *)
    cbn [encode_field] in He. destruct (codec_float cd Hcd) as [F1 F2].
    bind_ok He bits Hz. inv He. rewrite F1.
    unfold expect_float in Hz. destruct (a_val a) as [|bits'|] eqn:Ev; try discriminate. inv Hz.
    unfold arg_fits in Hf. rewrite Ev in Hf. apply andb_split in Hf. destruct Hf as [Hf _].
    apply andb_split in Hf. destruct Hf as [L1 L2].
    apply Z.leb_le in L1. apply Z.ltb_lt in L2.
    unfold decode_field. cbn [contributes is_arg0 negb orb andb]. rewrite F2.
    rewrite zlen_app, zlen_le_bytes. rewrite decrease_len_ok by lia. cbn [obind].
    rewrite take_app_n by apply le_bytes_length. cbn [obind]. rewrite le_val_le_bytes.
    change (2 ^ (8 * Z.of_nat 4)) with (2 ^ 32). rewrite Z.mod_small by lia. fin_len.
  - (* string *)
    cbn [encode_field] in He. bind_ok He s Hz.
    unfold expect_string in Hz. destruct (a_val a) as [| |s'] eqn:Ev; try discriminate. inv Hz.
    unfold arg_fits in Hf. rewrite Ev in Hf.
    unfold decode_field. cbn [contributes is_arg0 negb orb andb].
    rewrite (string_roundtrip sjis_enc sjis_dec repertoire sjis_inverse sjis_no_nul cd Hcd _ _ _ _ _ _ _ _ _ tail Hs Hf He Hsmall).
    + cbn [obind]. reflexivity.
    + destruct sz; try exact I. apply Hb. reflexivity.
Qed.


Lemma read_int_zero n sg t : (0 < n)%nat -> read_int n sg (le_bytes n 0 ++ t) = Ok (0, t).
Proof.
  intro Hn. unfold read_int. rewrite take_app_n by apply le_bytes_length. cbn [obind].
  rewrite le_val_le_bytes. rewrite Z.mod_0_l by (apply Z.pow_nonzero; lia).
  unfold interp. destruct sg; [|reflexivity].
  assert (0 < 2 ^ (8 * Z.of_nat n - 1)) by (apply Z.pow_pos_nonneg; lia).
  destruct (0 <? 2 ^ (8 * Z.of_nat n - 1)) eqn:E; [reflexivity|apply Z.ltb_ge in E; lia].
Qed.

Lemma enc_loop_nonpad e sig' args bit st : is_pad e = false ->
  enc_loop sjis_enc cd (e :: sig') args bit st =
  match args with
  | [] => Panic P_EXPECT
  | a :: args' =>
      if cd_mask_overflow_checked cd && a_reg a && contributes cd e && (bit =? 0) then Err E_TOOMANY else
      let arg_bit := if a_reg a then bit else 0 in
      let '(m0, w0, bit1) :=
        if contributes cd e then
          if always_imm cd e && negb (arg_bit =? 0) then (0, [W_IMMREG], (bit * 2) mod 2 ^ cd_mask_bits cd)
          else (arg_bit, [], (bit * 2) mod 2 ^ cd_mask_bits cd)
        else (0, if negb (arg_bit =? 0) then [W_NONPARAM] else [], bit) in
      do f <- encode_field sjis_enc cd e a st;
      let '(b0, st1) := f in
      do r <- enc_loop sjis_enc cd sig' args' bit1 st1;
      let '(b, m, w, st', bit') := r in Ok (b0 ++ b, Z.lor m0 m, w0 ++ w, st', bit')
  end.
Proof. destruct e; try discriminate; reflexivity. Qed.

Lemma contributes_nonpad e : is_pad e = false -> contributes cd e = true.
Proof. destruct e; try discriminate; reflexivity. Qed.

Lemma nparams_cons e sig : nparams (e :: sig) = (if is_pad e then 0 else 1) + nparams sig.
Proof. unfold nparams. cbn [count_if]. destruct (is_pad e); reflexivity. Qed.

Lemma nparams_nonneg sig : 0 <= nparams sig.
Proof. induction sig as [|e sig IH]; [unfold nparams; cbn; lia|]. rewrite nparams_cons. destruct (is_pad e); lia. Qed.

Lemma loop_roundtrip : forall sig args bit k st blob m st' bit',
  existsb is_arg0 sig = false -> forallb str_ok sig = true -> block_last sig = true ->
  args_fit repertoire cd sig args = true ->
  0 <= k -> k + nparams sig <= cd_mask_bits cd -> (0 < nparams sig -> bit = 2 ^ k) ->
  enc_loop sjis_enc cd sig args bit st = Ok (blob, m, [], st', bit') ->
  zlen blob < 2 ^ 32 ->
  exists dm, m = dm * 2 ^ k /\ 0 <= dm < 2 ^ (nparams sig) /\
    forall hi tail extra, (existsb is_blockstr sig = true -> tail = []) ->
      dec_loop sjis_dec cd sig (blob ++ tail, zlen (blob ++ tail), dm + hi * 2 ^ (nparams sig), extra)
      = Ok (with_pad sig args, [], (tail, zlen tail, hi, extra)).
Proof.
  induction sig as [|e sig' IH]; intros args bit k st blob m st' bit' Ha0 Hstr Hbl Hfit Hk Hkn Hbit Henc Hsmall.
  - cbn [enc_loop] in Henc. inv Henc. cbn [args_fit] in Hfit. destruct args; [|discriminate].
    exists 0. split; [lia|]. split; [unfold nparams; cbn; lia|].
    intros hi tail extra _. cbn [dec_loop with_pad app]. unfold nparams. cbn [count_if].
    rewrite Z.pow_0_r, Z.mul_1_r, Z.add_0_l. reflexivity.
  - cbn [existsb] in Ha0. apply orb_false_iff in Ha0. destruct Ha0 as [Ha0 Ha0'].
    cbn [forallb] in Hstr. apply andb_split in Hstr. destruct Hstr as [Hstr Hstr'].
    cbn [block_last] in Hbl. apply andb_split in Hbl. destruct Hbl as [Hbl Hbl'].
    rewrite nparams_cons in *. pose proof (nparams_nonneg sig') as Hnn.
    cbn [args_fit] in Hfit.
    destruct (is_pad e) eqn:Ep.
    + (* padding *)
      destruct e as [| | |size| |]; try discriminate. cbn [enc_loop] in Henc.
      destruct (zassoc size (cd_enc_pad cd)) as [n|] eqn:Ez; [|discriminate].
      bind_ok Henc r Hr. destruct r as [[[[b m'] w] st''] bit'']. inv Henc.
      destruct (codec_pad cd Hcd _ _ Ez) as [Hsz [Hwn [sg Hd]]].
      assert (Hn0 : (0 < n)%nat) by (unfold width_ok in Hwn; apply andb_split in Hwn; destruct Hwn as [Hwn _]; now apply Nat.ltb_lt).
      rewrite zlen_app, zlen_le_bytes in Hsmall. pose proof (zlen_nonneg b) as Hb0.
      destruct (IH args bit k st b m st' bit' Ha0' Hstr' Hbl' Hfit Hk ltac:(lia) ltac:(intro; apply Hbit; lia) Hr ltac:(lia)) as [dm [Hm [Hdm Hdec]]].
      exists dm. split; [assumption|]. split; [assumption|].
      intros hi tail extra Htl. cbn [dec_loop]. unfold decode_field.
      rewrite <- app_assoc. rewrite zlen_app, zlen_le_bytes. pose proof (zlen_nonneg (b ++ tail)).
      rewrite Hd. rewrite decrease_len_ok by lia. cbn [obind].
      rewrite read_int_zero by assumption. cbn [obind].
      replace (Z.of_nat n + zlen (b ++ tail) - size) with (zlen (b ++ tail)) by lia.
      replace (0 + nparams sig') with (nparams sig') by lia.
      rewrite Hdec; [|intro Hx; apply Htl; cbn [existsb]; rewrite Hx; apply orb_true_r].
      cbn [obind with_pad is_pad app]. reflexivity.
    + (* a parameter *)
      destruct args as [|a args']; [discriminate|]. apply andb_split in Hfit. destruct Hfit as [Hfa Hfit].
      rewrite enc_loop_nonpad in Henc by assumption. rewrite contributes_nonpad in Henc by assumption.
      assert (Hb2 : bit = 2 ^ k) by (apply Hbit; lia).
      assert (Hpk : 0 < 2 ^ k) by (apply Z.pow_pos_nonneg; lia).
      replace (bit =? 0) with false in Henc by (symmetry; apply Z.eqb_neq; lia). rewrite !andb_false_r in Henc.
      cbv zeta in Henc.
      destruct (always_imm cd e && negb ((if a_reg a then bit else 0) =? 0)) eqn:Eimm.
      { (* a register in an immediate-only position produces a warning *)
        bind_ok Henc f Hf. destruct f as [b0 st1]. bind_ok Henc r Hr. destruct r as [[[[b m'] w] st''] bit''].
        inv Henc. }
      bind_ok Henc f Hf. destruct f as [b0 st1]. bind_ok Henc r Hr. destruct r as [[[[b m'] w] st''] bit''].
      inv Henc. cbn [app] in *.
      rewrite zlen_app in Hsmall. pose proof (zlen_nonneg b0) as Hb00. pose proof (zlen_nonneg b) as Hb0.
      set (mb := cd_mask_bits cd) in *.
      destruct (IH args' ((2 ^ k * 2) mod 2 ^ mb) (k + 1) st1 b m' st' bit' Ha0' Hstr' Hbl' Hfit ltac:(lia) ltac:(lia)) as [dm' [Hm [Hdm Hdec]]].
      { intro Hpos. replace (2 ^ k * 2) with (2 ^ (k + 1)) by (rewrite Z.pow_add_r by lia; ring).
        apply Z.mod_small. split; [apply Z.pow_nonneg; lia|]. apply Z.pow_lt_mono_r; lia. }
      { exact Hr. }
      { lia. }
      set (bb := if a_reg a then 1 else 0).
      assert (Hbb : bb = 0 \/ bb = 1) by (unfold bb; destruct (a_reg a); auto).
      exists (bb + 2 * dm'). split; [|split].
      * replace (if a_reg a then 2 ^ k else 0) with (bb * 2 ^ k) by (unfold bb; destruct (a_reg a); lia).
        rewrite Hm. apply lor_bit; lia.
      * replace (1 + nparams sig') with (Z.succ (nparams sig')) by lia. rewrite Z.pow_succ_r by lia. lia.
      * intros hi tail extra Htl. cbn [dec_loop]. rewrite <- app_assoc.
        assert (Htl1 : is_blockstr e = true -> b ++ tail = []).
        { intro Hx. rewrite Hx in Hbl. cbn [negb orb] in Hbl. destruct sig'; [|discriminate].
          cbn [enc_loop] in Hr. inv Hr. cbn [app]. apply Htl. cbn [existsb]. now rewrite Hx. }
        rewrite (field_roundtrip e a st b0 st1 (b ++ tail) _ extra Ep Ha0 Hstr Hfa Hf ltac:(lia) Htl1).
        cbn [obind].
        replace (bb + 2 * dm' + hi * 2 ^ (1 + nparams sig')) with (bb + 2 * (dm' + hi * 2 ^ nparams sig'))
          by (replace (1 + nparams sig') with (Z.succ (nparams sig')) by lia; rewrite Z.pow_succ_r by lia; ring).
        destruct (land1_shift bb (dm' + hi * 2 ^ nparams sig') Hbb) as [L1 L2]. rewrite L1, L2.
        rewrite Hdec; [|intro Hx; apply Htl; cbn [existsb]; rewrite Hx; apply orb_true_r].
        cbn [obind with_pad app]. rewrite Ep.
        replace (negb (always_imm cd e) && (bb =? 1)) with (a_reg a).
        { destruct a; reflexivity. }
        unfold bb. destruct (a_reg a) eqn:Er; [|now rewrite andb_false_r].
        rewrite ?Er in Eimm. replace (2 ^ k =? 0) with false in Eimm by (symmetry; apply Z.eqb_neq; lia).
        cbn [negb] in Eimm. rewrite andb_true_r in Eimm. rewrite Eimm. reflexivity.
Qed.


(* without register arguments no mask bit is set *)
Lemma enc_loop_noreg : forall sig args bit st blob m w st' bit',
  existsb a_reg args = false ->
  enc_loop sjis_enc cd sig args bit st = Ok (blob, m, w, st', bit') -> m = 0.
Proof.
  induction sig as [|e sig' IH]; intros args bit st blob m w st' bit' Hr Henc.
  - cbn [enc_loop] in Henc. now inv Henc.
  - destruct (is_pad e) eqn:Ep.
    + destruct e as [| | |size| |]; try discriminate. cbn [enc_loop] in Henc.
      destruct (zassoc size (cd_enc_pad cd)); [|discriminate].
      bind_ok Henc r Hr'. destruct r as [[[[b m'] w'] st''] bit'']. inv Henc. eapply IH; eassumption.
    + rewrite enc_loop_nonpad in Henc by assumption. destruct args as [|a args']; [discriminate|].
      cbn [existsb] in Hr. apply orb_false_iff in Hr. destruct Hr as [Hra Hr]. rewrite Hra in Henc.
      rewrite andb_false_r in Henc. cbn [andb] in Henc.
      cbv zeta in Henc. cbn [Z.eqb negb] in Henc. rewrite andb_false_r in Henc.
      destruct (contributes cd e).
      * bind_ok Henc f Hf. destruct f as [b0 st1]. bind_ok Henc r Hr'. destruct r as [[[[b m'] w'] st''] bit''].
        inv Henc. cbn [Z.lor]. eapply IH; eassumption.
      * bind_ok Henc f Hf. destruct f as [b0 st1]. bind_ok Henc r Hr'. destruct r as [[[[b m'] w'] st''] bit''].
        inv Henc. cbn [Z.lor]. eapply IH; eassumption.
Qed.

Lemma validate_facts sig : validate sig = true ->
  existsb is_arg0 (tl sig) = false /\ block_last sig = true.
Proof.
  unfold validate. intro H. repeat (apply andb_split in H; destruct H as [H ?]).
  split; [now apply negb_true_iff|]. apply block_last_of_validate. now apply negb_true_iff.
Qed.

(* C12, first half: what encode_args wrote decodes to the same arguments, without warnings *)
Theorem decode_encode : forall has_regs sig args st r st',
  sig_ok cd has_regs sig = true ->
  args_fit repertoire cd sig args = true ->
  encode_args sjis_enc cd has_regs sig args st = Ok (r, st') ->
  r_warn r = [] -> zlen (r_blob r) < 2 ^ 32 ->
  decode_call sjis_dec cd sig r = Ok (args, []).
Proof.
  intros has_regs sig args st r st' Hsig Hfit Henc Hw Hsmall.
  unfold sig_ok in Hsig.
  apply andb_split in Hsig; destruct Hsig as [Hsig Hregs].
  apply andb_split in Hsig; destruct Hsig as [Hsig Hnp].
  apply andb_split in Hsig; destruct Hsig as [Hsig Hstr].
  apply Z.leb_le in Hnp.
  destruct (validate_facts _ Hsig) as [Harg0 Hbl].
  destruct (drop_with_pad _ _ Hfit) as [Hdrop [Hpnz [Hlen Hbad]]].
  destruct (codec_flags cd Hcd) as [_ [_ [_ [_ [_ Hmb]]]]].
  unfold encode_args in Henc.
  destruct (negb has_regs && existsb a_reg args) eqn:Enr; [discriminate|].
  (* the loop part, common to both shapes *)
  assert (Hmain : forall sig1 args1 b m w st2 bitf extra0,
    existsb is_arg0 sig1 = false -> forallb str_ok sig1 = true -> block_last sig1 = true ->
    args_fit repertoire cd sig1 args1 = true -> nparams sig1 <= cd_mask_bits cd ->
    enc_loop sjis_enc cd sig1 args1 1 st = Ok (b, m, w, st2, bitf) -> w = [] -> zlen b < 2 ^ 32 ->
    dec_loop sjis_dec cd sig1 (b, zlen b, m, extra0) = Ok (with_pad sig1 args1, [], ([], 0, 0, extra0))).
  { intros sig1 args1 b m w st2 bitf extra0 A1 A2 A3 A4 A5 A6 A7 A8. subst w.
    destruct (loop_roundtrip sig1 args1 1 0 st b m st2 bitf A1 A2 A3 A4 ltac:(lia) ltac:(lia) ltac:(intro; reflexivity) A6 A8)
      as [dm [Hm [Hdm Hdec]]].
    specialize (Hdec 0 [] extra0 ltac:(intro; reflexivity)).
    rewrite app_nil_r in Hdec. rewrite Z.pow_0_r, Z.mul_1_r in Hm. subst m.
    rewrite Z.mul_0_l, Z.add_0_r in Hdec. exact Hdec. }
  destruct sig as [|e sig1].
  - (* empty signature *)
    cbn [obind] in Henc. destruct (zlen (@nil enc) <? zlen args) eqn:El; [discriminate|].
    bind_ok Henc x Hx. destruct x as [[[[b m] w] st2] bitf]. inv Henc. cbn [r_warn r_blob] in *.
    unfold decode_call, decode_args. cbn [r_blob r_mask r_extra].
    rewrite (Hmain [] args b m w st' bitf None eq_refl eq_refl eq_refl Hfit ltac:(unfold nparams; cbn; lia) Hx Hw Hsmall).
    cbn [obind]. rewrite Hlen, Nat.eqb_refl. cbn [negb Z.eqb app]. rewrite Hbad, Hdrop, Hpnz. reflexivity.
  - destruct (is_arg0 e) eqn:Ea0.
    + (* timeline arg0 first *)
      destruct e as [size signed imm arg0| | | | |]; try discriminate. destruct arg0; [|discriminate].
      cbn [existsb is_arg0 orb negb] in Hregs. destruct has_regs; [discriminate|]. cbn [negb andb] in Enr.
      cbn [args_fit is_pad] in Hfit. destruct args as [|a args1]; [discriminate|].
      apply andb_split in Hfit. destruct Hfit as [Hfa Hfit1].
      cbn [existsb] in Enr. apply orb_false_iff in Enr. destruct Enr as [Era Er1].
      rewrite Era in Henc. pose proof (codec_arg0 cd Hcd) as Hc0.
      destruct (cd_arg0 cd) as [[n sgn] c] eqn:Ec0. destruct Hc0 as [Hwn Hn4].
      bind_ok Henc h Hh. bind_ok Hh v Hv. bind_ok Hh bv Hbv. inv Hh.
      apply write_int_ok in Hbv. subst bv.
      unfold expect_int in Hv. destruct (a_val a) as [v'| |] eqn:Ev; try discriminate. inv Hv.
      unfold arg_fits in Hfa. rewrite Ev in Hfa. cbn [int_fits] in Hfa. rewrite Ec0 in Hfa.
      unfold fits_width in Hfa. apply andb_split in Hfa. destruct Hfa as [Hi32 Hrange].
      replace (n =? 4)%nat with false in Hrange by (symmetry; apply Nat.eqb_neq; lia). cbn [orb] in Hrange.
      destruct (zlen sig1 <? zlen args1) eqn:El; [discriminate|].
      bind_ok Henc x Hx. destruct x as [[[[b m] w] st2] bitf]. inv Henc. cbn [r_warn r_blob] in *.
      rewrite le_val_le_bytes. unfold width_ok in Hwn. apply andb_split in Hwn. destruct Hwn as [Hn0 _].
      apply Nat.ltb_lt in Hn0. rewrite interp_mod by assumption.
      assert (Hm0 : m = 0) by (eapply enc_loop_noreg; eassumption). subst m.
      cbn [tl] in Harg0. cbn [forallb] in Hstr. apply andb_split in Hstr. destruct Hstr as [_ Hstr1].
      cbn [block_last] in Hbl. apply andb_split in Hbl. destruct Hbl as [_ Hbl1].
      rewrite nparams_cons in Hnp. cbn [is_pad] in Hnp.
      unfold decode_call, decode_args. cbn [r_blob r_mask r_extra dec_loop].
      unfold decode_field. cbn [contributes is_arg0 negb orb andb].
      assert (Hmask : (if cd_dec_arg0_in_mask cd
                       then (negb (always_imm cd (EInt size signed imm true)) && (Z.land 0 1 =? 1), Z.shiftr 0 1)
                       else (false, 0)) = (false, 0)).
      { destruct (cd_dec_arg0_in_mask cd); [|reflexivity]. cbn [Z.land Z.eqb]. rewrite andb_false_r. reflexivity. }
      rewrite Hmask. cbn [obind].
      rewrite (Hmain sig1 args1 b 0 w st' bitf None Harg0 Hstr1 Hbl1 Hfit1 ltac:(lia) Hx Hw Hsmall).
      cbn [obind app negb Z.eqb]. cbn [with_pad is_pad] in Hlen, Hdrop, Hpnz, Hbad.
      replace {| a_val := AInt v; a_reg := false |} with a by (destruct a; cbn in *; congruence).
      rewrite Hlen, Nat.eqb_refl. cbn [negb]. rewrite Hbad, Hdrop, Hpnz. reflexivity.
    + (* no arg0 *)
      assert (Hh : (match e :: sig1 with
                    | EInt _ _ _ true :: sig' =>
                        match args with
                        | [] => Panic P_EXPECT
                        | a :: args' =>
                            if a_reg a then Panic P_ASSERT
                            else let '(n, sg, c) := cd_arg0 cd in
                                 do v <- expect_int a; do b <- write_int n sg c v;
                                 Ok (sig', args', Some (interp n sg (le_val b)))
                        end
                    | _ => Ok (e :: sig1, args, None)
                    end) = Ok (e :: sig1, args, @None Z)).
      { destruct e as [size signed imm arg0| | | | |]; try reflexivity. destruct arg0; [discriminate|reflexivity]. }
      rewrite Hh in Henc. cbn [obind] in Henc.
      destruct (zlen (e :: sig1) <? zlen args) eqn:El; [discriminate|].
      bind_ok Henc x Hx. destruct x as [[[[b m] w] st2] bitf]. inv Henc. cbn [r_warn r_blob] in *.
      assert (Ha : existsb is_arg0 (e :: sig1) = false) by (cbn [existsb]; rewrite Ea0; exact Harg0).
      unfold decode_call, decode_args. cbn [r_blob r_mask r_extra].
      rewrite (Hmain (e :: sig1) args b m w st' bitf None Ha Hstr Hbl Hfit Hnp Hx Hw Hsmall).
      cbn [obind]. rewrite Hlen, Nat.eqb_refl. cbn [negb Z.eqb app]. rewrite Hbad, Hdrop, Hpnz. reflexivity.
Qed.


(* ---- no silent change: when every narrowing cast of the table is checked, a successful encode
        implies that every integer fits ---- *)
Lemma write_int_checked_fits n sg c v b :
  lossless n c = true -> in_i32b v = true -> write_int n sg c v = Ok b -> fits_width n sg v = true.
Proof.
  intros Hl Hi Hw. unfold fits_width. rewrite Hi. cbn [andb].
  destruct c; cbn [lossless] in Hl; try discriminate.
  - now rewrite Hl.
  - now rewrite Hl.
  - unfold write_int in Hw. destruct (in_range n sg v); [apply orb_true_r|discriminate].
Qed.

Lemma all_checked_arm arm size sg : all_checked cd = true -> find_enc_arm cd size sg = Some arm ->
  lossless (ea_wbytes arm) (ea_cast arm) = true.
Proof.
  intros Hc Hf. unfold find_enc_arm in Hf. apply find_some in Hf. destruct Hf as [Hin _].
  unfold all_checked in Hc. apply andb_split in Hc. destruct Hc as [Hc _]. apply andb_split in Hc. destruct Hc as [Hc _].
  rewrite forallb_forall in Hc. now apply Hc.
Qed.

Lemma typed_fit_field e a st b0 st1 : all_checked cd = true -> is_arg0 e = false ->
  encode_field sjis_enc cd e a st = Ok (b0, st1) -> arg_typed repertoire e a = true -> arg_fits repertoire cd e a = true.
Proof.
  intros Hc Ha He Ht. unfold arg_typed in Ht. unfold arg_fits.
  destruct e as [size signed imm arg0| | |size|imm|sz m v acc fb]; destruct (a_val a) as [z|bits|s] eqn:Ev; try discriminate; try exact Ht.
  - destruct arg0; [discriminate|]. cbn [encode_field] in He. cbn [int_fits].
    destruct (find_enc_arm cd size signed) as [arm|] eqn:Ea; [|discriminate].
    bind_ok He z' Hz. bind_ok He b Hb. unfold expect_int in Hz. rewrite Ev in Hz. inv Hz.
    eapply write_int_checked_fits; [eapply all_checked_arm; eassumption|assumption|eassumption].
  - cbn [encode_field] in He. cbn [int_fits]. unfold all_checked in Hc.
    apply andb_split in Hc. destruct Hc as [Hc _]. apply andb_split in Hc. destruct Hc as [_ Hc].
    destruct (cd_enc_jump cd) as [[n sg] c]. bind_ok He z' Hz. bind_ok He b Hb.
    unfold expect_int in Hz. rewrite Ev in Hz. inv Hz. eapply write_int_checked_fits; eassumption.
  - cbn [encode_field] in He. cbn [int_fits]. unfold all_checked in Hc.
    apply andb_split in Hc. destruct Hc as [Hc _]. apply andb_split in Hc. destruct Hc as [_ Hc].
    destruct (cd_enc_jump cd) as [[n sg] c]. bind_ok He z' Hz. bind_ok He b Hb.
    unfold expect_int in Hz. rewrite Ev in Hz. inv Hz. eapply write_int_checked_fits; eassumption.
Qed.

Lemma typed_fit_loop : all_checked cd = true -> forall sig args bit st res,
  existsb is_arg0 sig = false ->
  enc_loop sjis_enc cd sig args bit st = Ok res ->
  args_typed repertoire sig args = true -> args_fit repertoire cd sig args = true.
Proof.
  intro Hc. induction sig as [|e sig' IH]; intros args bit st res Ha Henc Ht; [exact Ht|].
  cbn [existsb] in Ha. apply orb_false_iff in Ha. destruct Ha as [Ha Ha'].
  cbn [args_typed] in Ht. cbn [args_fit]. destruct (is_pad e) eqn:Ep.
  - destruct e as [| | |size| |]; try discriminate. cbn [enc_loop] in Henc.
    destruct (zassoc size (cd_enc_pad cd)); [|discriminate]. bind_ok Henc r Hr. eapply IH; eassumption.
  - destruct args as [|a args']; [discriminate|]. apply andb_split in Ht. destruct Ht as [Hta Ht].
    rewrite enc_loop_nonpad in Henc by assumption.
    destruct (cd_mask_overflow_checked cd && a_reg a && contributes cd e && (bit =? 0)); [discriminate|].
    cbv zeta in Henc.
    destruct (if contributes cd e
              then if always_imm cd e && negb ((if a_reg a then bit else 0) =? 0)
                   then (0, [W_IMMREG], (bit * 2) mod 2 ^ cd_mask_bits cd)
                   else (if a_reg a then bit else 0, [], (bit * 2) mod 2 ^ cd_mask_bits cd)
              else (0, if negb ((if a_reg a then bit else 0) =? 0) then [W_NONPARAM] else [], bit)) as [[m0 w0] bit1].
    bind_ok Henc f Hf. destruct f as [b0 st1]. bind_ok Henc r Hr.
    rewrite (typed_fit_field _ _ _ _ _ Hc Ha Hf Hta). cbn [andb]. eapply IH; eassumption.
Qed.

(* C12, "diagnosed rather than silently changed": with every narrowing cast checked, whatever encode_args
   accepts without a warning reads back exactly *)
Theorem no_silent_change : all_checked cd = true -> forall has_regs sig args st r st',
  sig_ok cd has_regs sig = true ->
  args_typed repertoire sig args = true ->
  encode_args sjis_enc cd has_regs sig args st = Ok (r, st') ->
  r_warn r = [] -> zlen (r_blob r) < 2 ^ 32 ->
  decode_call sjis_dec cd sig r = Ok (args, []).
Proof.
  intros Hc has_regs sig args st r st' Hsig Ht Henc Hw Hsmall.
  eapply decode_encode; try eassumption.
  (* every argument fits *)
  pose proof Hsig as Hsig'. unfold sig_ok in Hsig'.
  apply andb_split in Hsig'; destruct Hsig' as [Hsig' _].
  apply andb_split in Hsig'; destruct Hsig' as [Hsig' _].
  apply andb_split in Hsig'; destruct Hsig' as [Hval _].
  destruct (validate_facts _ Hval) as [Harg0 _].
  unfold encode_args in Henc. destruct (negb has_regs && existsb a_reg args); [discriminate|].
  destruct sig as [|e sig1].
  - cbn [obind] in Henc. destruct (zlen (@nil enc) <? zlen args); [discriminate|]. exact Ht.
  - destruct (is_arg0 e) eqn:Ea0.
    + destruct e as [size signed imm arg0| | | | |]; try discriminate. destruct arg0; [|discriminate].
      cbn [args_typed is_pad] in Ht. cbn [args_fit is_pad]. destruct args as [|a args1]; [discriminate|].
      apply andb_split in Ht. destruct Ht as [Hta Ht1].
      destruct (a_reg a); [discriminate|].
      assert (Hl0 : let '(n, _, c) := cd_arg0 cd in lossless n c = true).
      { pose proof Hc as Hc'. unfold all_checked in Hc'. apply andb_split in Hc'. destruct Hc' as [_ Hc'].
        destruct (cd_arg0 cd) as [[? ?] ?]. exact Hc'. }
      destruct (cd_arg0 cd) as [[n sgn] c] eqn:Ec0.
      bind_ok Henc h Hh. bind_ok Hh v Hv. bind_ok Hh bv Hbv. inv Hh.
      destruct (zlen sig1 <? zlen args1); [discriminate|]. bind_ok Henc x Hx.
      unfold arg_typed in Hta. unfold expect_int in Hv. destruct (a_val a) as [v'| |] eqn:Ev; try discriminate. inv Hv.
      unfold arg_fits. rewrite Ev. cbn [int_fits]. rewrite Ec0.
      rewrite (write_int_checked_fits _ _ _ _ _ Hl0 Hta Hbv). cbn [andb].
      eapply typed_fit_loop; try eassumption.
    + assert (Hh : (match e :: sig1 with
                    | EInt _ _ _ true :: sig' =>
                        match args with
                        | [] => Panic P_EXPECT
                        | a :: args' =>
                            if a_reg a then Panic P_ASSERT
                            else let '(n, sg, c) := cd_arg0 cd in
                                 do v <- expect_int a; do b <- write_int n sg c v;
                                 Ok (sig', args', Some (interp n sg (le_val b)))
                        end
                    | _ => Ok (e :: sig1, args, None)
                    end) = Ok (e :: sig1, args, @None Z)).
      { destruct e as [size signed imm arg0| | | | |]; try reflexivity. destruct arg0; [discriminate|reflexivity]. }
      rewrite Hh in Henc. cbn [obind] in Henc.
      destruct (zlen (e :: sig1) <? zlen args); [discriminate|]. bind_ok Henc x Hx.
      eapply typed_fit_loop; try eassumption. cbn [existsb]. rewrite Ea0. exact Harg0.
Qed.

End Loop.
