(* Proofs/StructBreak.v -- decompile_break preserves the canonical stream: a `goto` to a label
   placed immediately after the lexically enclosing loop is a `break` of that loop. *)
From TV Require Import Base.I32 Model.Structure Proofs.StructBasics Proofs.StructRel.
Open Scope nat_scope.

Lemma end_labels_lenv t st l : In l (end_labels t) -> In (l, st) (lenv st t).
Proof.
  induction t as [|x t IH]; cbn [end_labels]; [intros []|]. rewrite lenv_cons.
  destruct x; cbn [end_labels]; try (intros HF; now destruct HF). rewrite lenv_s_label, adv_s_label.
  intros [->|Hin]; [now left | right; auto].
Qed.

Section BreakPass.
  Variable N : binop -> option binop.
  Variable C : bool.
  Variable E : env.
  Variable keep : nat -> Prop.
  Variable G : guards.
  Variable allends : list nat.
  Hypothesis Gtime : g_brk_time G = true.
  Hypothesis Gsame : g_brk_same G = true.

  Definition cur_ok (cur : option (list nat)) (brk : option state) : Prop :=
    match cur with None => True | Some ends => forall l, In l ends -> E l = brk end.

  Lemma break_blk_eq cur b :
    (fix go (b : list stmt) : list stmt :=
       match b with [] => [] | x :: t => break_s G allends cur (end_labels t) x :: go t end) b
    = break_block G allends cur b.
  Proof. induction b as [|x t IH]; cbn; [reflexivity|]. now rewrite IH. Qed.

  Lemma break_s_loop cur nxt k b :
    break_s G allends cur nxt (SLoop k b) = SLoop k (break_block G allends (Some nxt) b).
  Proof. cbn. f_equal. apply break_blk_eq. Qed.

  Lemma break_s_chain cur nxt bs els :
    break_s G allends cur nxt (SChain bs els) =
    SChain (map (fun cb => (fst cb, break_block G allends cur (snd cb))) bs)
           (match els with None => None | Some b => Some (break_block G allends cur b) end).
  Proof.
    cbn. f_equal.
    - induction bs as [|[c b] t IH]; cbn; [reflexivity|]. rewrite IH. f_equal. f_equal. apply break_blk_eq.
    - destruct els as [b|]; [|reflexivity]. f_equal. apply break_blk_eq.
  Qed.

  Definition break_ok (s : stmt) : Prop :=
    forall cur nxt brk st,
      cur_ok cur brk -> (forall l, In l nxt -> E l = Some (adv_s st s)) -> consistent_s E st s ->
      srel N C E keep brk st s (break_s G allends cur nxt s).

  Lemma break_block_rel b : Forall break_ok b ->
    forall cur brk st, cur_ok cur brk -> consistent E st b ->
    brel N C E keep brk st b (break_block G allends cur b).
  Proof.
    induction 1 as [|x t Hx _ IH]; intros cur brk st Hcur Hcons; cbn; [apply brel_nil|].
    apply consistent_cons in Hcons as [Hcx Hct].
    apply brel_cons.
    - apply Hx; auto. intros l Hl. apply Hct. now apply end_labels_lenv.
    - apply IH; auto.
  Qed.

  Lemma break_s_rel s : break_ok s.
  Proof.
    induction s using stmt_ind2; intros cur nxt brk st Hcur Hnxt Hcons; try apply srel_refl.
    - (* jump *)
      cbn. destruct cur as [ends|]; [|apply srel_refl].
      rewrite Gtime, Gsame. destruct t as [t|]; cbn; [apply srel_refl|].
      destruct (existsb (Nat.eqb l) ends) eqn:Hex; [|apply srel_refl].
      apply existsb_exists in Hex as (l' & Hin & Heq). apply Nat.eqb_eq in Heq; subst l'.
      unfold srel. autorewrite with struct. rewrite (Hcur l Hin). repeat split; try constructor. apply kept_nil.
    - (* loop *)
      rewrite break_s_loop. apply srel_loop. apply break_block_rel; auto.
    - (* chain *)
      rewrite break_s_chain. apply consistent_s_chain in Hcons as [Hall Hels].
      apply srel_chain.
      + replace (is_none els) with (is_none (match els with None => None | Some b => Some (break_block G allends cur b) end))
          by (destruct els; reflexivity).
        apply chain_rel_map with (P := consistent E).
        * rewrite Forall_forall in *. intros cb Hcb st' Hc. apply break_block_rel; auto.
        * destruct els; exact Hall.
      + destruct els as [b|]; cbn; auto. apply break_block_rel; auto.
  Qed.

  Theorem break_block_correct b cur brk st :
    cur_ok cur brk -> consistent E st b -> brel N C E keep brk st b (break_block G allends cur b).
  Proof. intros. apply break_block_rel; auto. rewrite Forall_forall. intros x _. apply break_s_rel. Qed.

End BreakPass.

(* label references: a `break` mentions no label, so references can only disappear *)
Lemma break_refs_s G allends s : forall cur nxt l, In l (refs_s (break_s G allends cur nxt s)) -> In l (refs_s s).
Proof.
  induction s using stmt_ind2; intros cur nxt l0 Hin; try exact Hin.
  - cbn in Hin. destruct cur as [ends|]; [|exact Hin].
    destruct (g_brk_time G && negb (is_none t)); [exact Hin|].
    destruct (if g_brk_same G then _ else _); [destruct Hin|exact Hin].
  - rewrite break_s_loop in Hin. cbn in *. apply in_flat_map in Hin as (x & Hx & Hl).
    set (cur' := Some nxt) in *. clearbody cur'. revert Hx Hl. induction H as [|y t Hy _ IH]; cbn; [tauto|].
    intros [<-|Hx] Hl; apply in_or_app; [left; eauto | right; auto].
  - rewrite break_s_chain in Hin. cbn in *. apply in_app_or in Hin as [Hin|Hin]; apply in_or_app.
    + left. induction H as [|[c b] t Hy _ IH]; cbn in *; [tauto|].
      apply in_app_or in Hin as [Hin|Hin]; apply in_or_app; [left|right; auto].
      clear IH. induction Hy as [|y t' Hy' _ IH']; cbn in *; [tauto|].
      apply in_app_or in Hin as [Hin|Hin]; apply in_or_app; [left; eauto|right; auto].
    + right. destruct els as [b|]; [|exact Hin]. cbn in Hin.
      induction H0 as [|y t' Hy' _ IH']; cbn in *; [tauto|].
      apply in_app_or in Hin as [Hin|Hin]; apply in_or_app; [left; eauto|right; auto].
Qed.

Lemma break_refs G allends b : forall cur l, In l (refs (break_block G allends cur b)) -> In l (refs b).
Proof.
  induction b as [|x t IH]; intros cur l Hin; cbn in *; [tauto|].
  apply in_app_or in Hin as [Hin|Hin]; apply in_or_app; [left; eauto using break_refs_s | right; eauto].
Qed.

Theorem break_pass_canon N C G p :
  g_brk_time G = true -> g_brk_same G = true ->
  well_labelled p -> well_labelled (break_pass G p) /\ canon_of N C (break_pass G p) = canon_of N C p /\
  (forall l, In l (refs (break_pass G p)) -> lookup (lenv st0 (break_pass G p)) l = lookup (lenv st0 p) l).
Proof.
  intros Gt Gs Hwl. apply pass_canon with (keep := fun _ => True); auto.
  apply break_block_correct; auto.
  - exact I.
  - now apply well_labelled_consistent.
Qed.
