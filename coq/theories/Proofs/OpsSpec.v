(* Proofs/OpsSpec.v -- the operator table read from the source equals the machine semantics,
   for all 2^64 operand pairs. *)
From TV Require Import Base.I32 Base.F32 Model.Ops Spec.MachineOps Gen.OpTable.
From Coq Require Import Znumtheory.
Open Scope Z_scope.

Lemma of_u32_mod z : of_u32 (z mod two32) = wrap32 z.
Proof. unfold of_u32, wrap32, two31, two32. destruct (Z.ltb_spec (z mod 4294967296) 2147483648); lia. Qed.

Lemma u32_small z : 0 <= z < two32 -> z mod two32 = z.
Proof. intros; apply Z.mod_small; assumption. Qed.

Lemma mod32_u32 b : u32 b mod 32 = b mod 32.
Proof.
  unfold u32. symmetry. apply Zmod_div_mod; try (unfold two32; lia).
  exists 134217728. reflexivity.
Qed.

Lemma mod32_range b : 0 <= b mod 32 < 32.
Proof. apply Z.mod_pos_bound; lia. Qed.

Lemma add_u32 a b : (u32 a + u32 b) mod two32 = (a + b) mod two32.
Proof. unfold u32. rewrite <- Zplus_mod. reflexivity. Qed.
Lemma sub_u32 a b : (u32 a - u32 b) mod two32 = (a - b) mod two32.
Proof. unfold u32. rewrite <- Zminus_mod. reflexivity. Qed.
Lemma mul_u32 a b : (u32 a * u32 b) mod two32 = (a * b) mod two32.
Proof. unfold u32. rewrite <- Zmult_mod. reflexivity. Qed.
Lemma mul_u32_l a k : (u32 a * k) mod two32 = (a * k) mod two32.
Proof. unfold u32. rewrite Zmult_mod_idemp_l. reflexivity. Qed.

Lemma wrap32_mod z : wrap32 (z mod two32) = wrap32 z.
Proof. apply wrap32_u32. Qed.

Lemma quot_range a b : in_i32 a -> in_i32 b -> b <> 0 -> ~ (a = I32_MIN /\ b = -1) -> in_i32 (Z.quot a b).
Proof.
  unfold in_i32, I32_MIN, I32_MAX. intros Ha Hb Hb0 Hn.
  rewrite Z.quot_div by assumption.
  assert (Hd : 0 <= Z.abs a / Z.abs b <= Z.abs a).
  { split; [apply Z.div_pos; lia|]. apply Z.div_le_upper_bound; nia. }
  assert (Hd2 : Z.abs b >= 2 -> Z.abs a / Z.abs b <= Z.abs a / 2).
  { intros. apply Z.div_le_lower_bound; [lia|].
    assert (Z.abs b * (Z.abs a / Z.abs b) <= Z.abs a) by (apply Z.mul_div_le; lia). nia. }
  assert (Hs : Z.sgn a * Z.sgn b = Z.sgn (a * b)) by (symmetry; apply Z.sgn_mul).
  destruct (Z.eq_dec (Z.abs b) 1) as [E1|E1].
  - rewrite E1, Z.div_1_r in *. nia.
  - assert (Z.abs b >= 2) by lia. specialize (Hd2 H).
    assert (Z.abs a / 2 <= 1073741824) by (apply Z.div_le_upper_bound; lia).
    remember (Z.abs a / Z.abs b) as d. nia.
Qed.

Lemma rem_range a b : in_i32 a -> in_i32 b -> b <> 0 -> in_i32 (Z.rem a b).
Proof.
  unfold in_i32, I32_MIN, I32_MAX. intros Ha Hb Hb0.
  pose proof (Z.rem_bound_abs a b Hb0). 
  pose proof (Z.rem_sign_nz a b). 
  destruct (Z.eq_dec (Z.rem a b) 0) as [->|]; [lia|].
  assert (Z.abs (Z.rem a b) < Z.abs b) by assumption. lia.
Qed.

Theorem int_table_matches_spec : forall op a b, in_i32 a -> in_i32 b ->
  match spec_bi op a b with
  | Some r => binop_eval gen_optable op (VInt a) (VInt b) = Ok (VInt r)
  | None => binop_eval gen_optable op (VInt a) (VInt b) = Panic P_DIV0
  end.
Proof.
  intros op a b Ha Hb.
  destruct op; cbn [spec_bi binop_eval gen_optable ot_bi ot_shift gen_bi gen_shift eval_bi obind shift_count].
  - (* Add *) rewrite add_u32, of_u32_mod. reflexivity.
  - (* Sub *) rewrite sub_u32, of_u32_mod. reflexivity.
  - (* Mul *) rewrite mul_u32, of_u32_mod. reflexivity.
  - (* Div *) destruct (Z.eqb_spec b 0); [reflexivity|].
    destruct (Z.eqb_spec a I32_MIN) as [->|]; destruct (Z.eqb_spec b (-1)) as [->|]; cbn [andb obind];
      try reflexivity; rewrite wrap32_id; try reflexivity; apply quot_range; auto; tauto.
  - (* Rem *) destruct (Z.eqb_spec b 0); [reflexivity|].
    destruct (Z.eqb_spec b (-1)) as [->|]; cbn [obind].
    + change (-1) with (- (1)). rewrite Z.rem_opp_r, Z.rem_1_r by lia. reflexivity.
    + rewrite wrap32_id; [reflexivity | apply rem_range; auto].
  - reflexivity.
  - reflexivity.
  - reflexivity.
  - reflexivity.
  - (* Gt *) unfold Z.gtb, Z.ltb. rewrite (Z.compare_antisym a b). destruct (a ?= b); reflexivity.
  - (* Ge *) unfold Z.geb, Z.leb. rewrite (Z.compare_antisym a b). destruct (a ?= b); reflexivity.
  - reflexivity.
  - reflexivity.
  - reflexivity.
  - reflexivity.
  - reflexivity.
  - (* Shl *) rewrite mod32_u32. pose proof (mod32_range b).
    rewrite Z.shiftl_mul_pow2 by lia. rewrite mul_u32_l, of_u32_mod. reflexivity.
  - (* Sar *) rewrite mod32_u32. pose proof (mod32_range b).
    rewrite Z.shiftr_div_pow2 by lia. reflexivity.
  - (* Shru *) rewrite mod32_u32. pose proof (mod32_range b).
    rewrite Z.shiftr_div_pow2 by lia.
    rewrite <- of_u32_mod. rewrite u32_small; [reflexivity|].
    pose proof (u32_range a) as Hu. unfold in_u32 in Hu.
    assert (0 < 2 ^ (b mod 32)) by (apply Z.pow_pos_nonneg; lia).
    split; [apply Z.div_pos; lia|].
    apply Z.le_lt_trans with (u32 a); [|lia]. apply Z.div_le_upper_bound; nia.
Qed.


Theorem int_unop_matches_spec : forall libm op a, in_i32 a ->
  match spec_ui op a with
  | Some r => unop_eval libm gen_optable op (VInt a) = Ok (Some (VInt r))
  | None => True
  end.
Proof.
  intros libm op a Ha. destruct op; cbn [spec_ui unop_eval gen_optable ot_ui gen_ui]; auto.
  - (* Neg *) f_equal. f_equal. f_equal.
    replace ((0 - u32 a) mod two32) with ((- a) mod two32).
    + rewrite of_u32_mod. reflexivity.
    + unfold u32. rewrite <- (Zminus_mod_idemp_r 0 a). reflexivity.
  - (* BitNot *) f_equal. f_equal. f_equal. rewrite wrap32_id.
    + unfold Z.lnot. lia.
    + unfold in_i32, I32_MIN, I32_MAX, Z.lnot in *. lia.
Qed.

(* the float rows: each arithmetic / comparison operator is the IEEE-754 binary32 operation of
   the same name (round to nearest even), the integer-only operators are type errors *)
Definition ieee_bf (op : binop) : bf_term :=
  match op with
  | Add => BF_add | Sub => BF_sub | Mul => BF_mul | Div => BF_div | Rem => BF_rem
  | Eq => BF_eq | Ne => BF_ne | Lt => BF_lt | Le => BF_le | Gt => BF_gt | Ge => BF_ge
  | _ => BF_typeerr
  end.

Theorem float_table_is_ieee : forall op, gen_bf op = ieee_bf op.
Proof. destruct op; reflexivity. Qed.

Definition expected_uf (op : unop) : uf_term :=
  match op with
  | Neg => UF_neg | Sin => UF_libm Sin | Cos => UF_libm Cos | Tan => UF_libm Tan
  | Asin => UF_libm Asin | Acos => UF_libm Acos | Atan => UF_libm Atan | Sqrt => UF_sqrt
  | CastI => UF_toint | CastF => UF_id | EncodeI | EncodeF => UF_none
  | Not | BitNot => UF_typeerr
  end.

Theorem float_unop_table : forall op, gen_uf op = expected_uf op.
Proof. destruct op; reflexivity. Qed.

Theorem int_unop_table_rest : gen_ui CastF = UI_tofloat /\ gen_ui EncodeI = UI_none /\ gen_ui EncodeF = UI_none.
Proof. repeat split. Qed.
