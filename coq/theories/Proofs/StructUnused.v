(* Proofs/StructUnused.v -- unused_labels::run preserves the canonical stream: a label statement
   contributes no instruction, and only labels that nothing mentions are removed. *)
From TV Require Import Base.I32 Model.Structure Proofs.StructBasics Proofs.StructRel.
Open Scope nat_scope.

Section Unused.
  Variable N : binop -> option binop.
  Variable C : bool.
  Variable E : env.
  Variable rc : nat -> nat.
  Let keep (l : nat) : Prop := 0 < rc l.

  Definition unused_ok (s : stmt) : Prop := forall brk st, srel N C E keep brk st s (unused_s rc s).

  Lemma keep_unused_s s : keep_s rc (unused_s rc s) = keep_s rc s.
  Proof. destruct s; reflexivity. Qed.

  Lemma unused_block_rel b : Forall unused_ok b -> forall brk st, brel N C E keep brk st b (unused_block rc b).
  Proof.
    induction 1 as [|x t Hx _ IH]; intros brk st; unfold unused_block in *; cbn [map filter]; [apply brel_nil|].
    rewrite keep_unused_s. destruct (keep_s rc x) eqn:Hk.
    - apply brel_cons; auto.
    - destruct x; try discriminate. unfold keep_s in Hk. apply brel_drop_label.
      + unfold keep. apply Nat.ltb_ge in Hk. lia.
      + apply IH.
  Qed.

  Lemma unused_s_rel s : unused_ok s.
  Proof.
    induction s using stmt_ind2; intros brk st; try apply srel_refl.
    - cbn [unused_s]. apply srel_loop. apply (unused_block_rel b H).
    - cbn [unused_s]. apply srel_chain.
      + replace (is_none els) with (is_none (match els with None => None | Some b => Some (filter (keep_s rc) (map (unused_s rc) b)) end))
          by (destruct els; reflexivity).
        apply chain_rel_map with (P := fun _ _ => True) (F := unused_block rc).
        * rewrite Forall_forall in *. intros cb Hcb st' _. apply unused_block_rel; auto.
        * clear. generalize (is_none (match els with None => None | Some b => Some (filter (keep_s rc) (map (unused_s rc) b)) end)).
          intros en. revert st. induction bs as [|[c b] t IH]; cbn; auto.
      + destruct els as [b|]; cbn; auto. apply (unused_block_rel b H0).
  Qed.

  Theorem unused_block_correct b brk st : brel N C E keep brk st b (unused_block rc b).
  Proof. apply unused_block_rel. rewrite Forall_forall. intros x _. apply unused_s_rel. Qed.
End Unused.

(* label statements mention nothing: the references are unchanged *)
Lemma unused_refs_s rc s : refs_s (unused_s rc s) = refs_s s.
Proof.
  assert (Hblk : forall b, Forall (fun s => refs_s (unused_s rc s) = refs_s s) b ->
                           flat_map refs_s (filter (keep_s rc) (map (unused_s rc) b)) = flat_map refs_s b).
  { induction 1 as [|x t Hx _ IH]; cbn; [reflexivity|].
    destruct (keep_s rc (unused_s rc x)) eqn:Hk; cbn; rewrite ?Hx, IH; [reflexivity|].
    destruct x; try discriminate. reflexivity. }
  induction s using stmt_ind2; try reflexivity.
  - cbn. now apply Hblk.
  - cbn. f_equal.
    + induction H as [|[c b] t Hb _ IH]; cbn; [reflexivity|]. now rewrite IH, Hblk.
    + destruct els as [b|]; [|reflexivity]. now apply Hblk.
Qed.

Lemma unused_refs rc b : refs (unused_block rc b) = refs b.
Proof.
  unfold refs, unused_block. induction b as [|x t IH]; cbn; [reflexivity|].
  destruct (keep_s rc (unused_s rc x)) eqn:Hk; cbn; rewrite ?unused_refs_s, IH; [reflexivity|].
  destruct x; try discriminate. reflexivity.
Qed.

Theorem unused_pass_canon N C p :
  well_labelled p -> well_labelled (unused_pass p) /\ canon_of N C (unused_pass p) = canon_of N C p /\
  (forall l, In l (refs (unused_pass p)) -> lookup (lenv st0 (unused_pass p)) l = lookup (lenv st0 p) l).
Proof.
  intros Hwl. apply pass_canon with (keep := fun l => 0 < refcount p l); auto.
  - apply unused_block_correct.
  - intros l Hl. unfold unused_pass in Hl. rewrite unused_refs in Hl. unfold refcount.
    now apply count_occ_In.
Qed.
