(* Proofs/FmtExprLex.v -- no token gluing for expressions of arbitrary nesting: for every printable
   expression the inline layout passes the [ok_seq] check, hence lexes to exactly the tokens written. *)
From TV Require Import Base.I32 Gen.FmtTables Model.Fmt Model.FmtLex Model.FmtParse Spec.Fmt
  Proofs.FmtLits Proofs.FmtLexP Proofs.FmtLitRT.
Open Scope Z_scope.

(* the proofs below hold whichever way the generated flag is set *)
Opaque gen_unop_guard.

(* ---------------------------------------------------------------------------------------- *)
(* ok_seq with a continuation character *)

Definition nx (r : list oitem) (k : option ascii) : option ascii :=
  match nextc (concat_text r) with Some c => Some c | None => k end.

Definition ok1 (o : oitem) (nc : option ascii) : bool :=
  match o with OT t => safe t nc | OTrail => safe (TFix ",") nc | OC _ => false | OS _ | ONl => true end.

Fixpoint oks (l : list oitem) (k : option ascii) : bool :=
  match l with [] => true | o :: r => ok1 o (nx r k) && oks r k end.

Lemma oks_none l : oks l None = ok_seq l.
Proof.
  induction l as [|o r IH]; [reflexivity|]. cbn [oks ok_seq]. rewrite IH. unfold nx, ok1.
  destruct (nextc (concat_text r)); destruct o; reflexivity.
Qed.

Lemma concat_text_app a b : concat_text (a ++ b) = concat_text a ^^ concat_text b.
Proof. induction a as [|o a IH]; [reflexivity|]. cbn [app concat_text]. rewrite IH, append_assoc. reflexivity. Qed.

Lemma nextc_app x y : nextc (x ^^ y) = match nextc x with Some c => Some c | None => nextc y end.
Proof. destruct x; reflexivity. Qed.

Lemma nx_app a b k : nx (a ++ b) k = nx a (nx b k).
Proof. unfold nx. rewrite concat_text_app, nextc_app. destruct (nextc (concat_text a)); reflexivity. Qed.

Lemma oks_app a b k : oks (a ++ b) k = oks a (nx b k) && oks b k.
Proof.
  induction a as [|o a IH]; [reflexivity|]. cbn [app oks]. rewrite IH, nx_app, andb_assoc. reflexivity.
Qed.

(* contexts an expression is followed by *)
Definition sepc (k : option ascii) : bool :=
  match k with
  | None => true
  | Some c => mem_str (str1 c) [" "; ")"; ","; "]"; ";"; ":"]%string
  end.

(* characters an expression's text starts with *)
Definition startc (c : ascii) : bool :=
  is_ident_start c || is_digit c || mem_str (str1 c) [""""; "("; "-"; "!"; "~"; "$"; "%"; "+"]%string.

Definition okk (l : list oitem) : Prop := forall k, sepc k = true -> oks l k = true.
Definition fst_ok (l : list oitem) : Prop := exists c, nextc (concat_text l) = Some c /\ startc c = true.

Definition fl (l : list doc) : list oitem := flat_map flat l.
Lemma fl_app a b : fl (a ++ b) = fl a ++ fl b.
Proof. unfold fl. apply flat_map_app. Qed.
Lemma flat_seq l : flat (DSeq l) = fl l.
Proof. reflexivity. Qed.

(* ---------------------------------------------------------------------------------------- *)
(* facts about single tokens *)

Lemma sepc_cases k : sepc k = true ->
  k = None \/ k = Some " "%char \/ k = Some ")"%char \/ k = Some ","%char \/ k = Some "]"%char \/ k = Some ";"%char \/ k = Some ":"%char.
Proof.
  destruct k as [c|]; [|auto]. intros H.
  destruct c as [[] [] [] [] [] [] [] []]; cbn in H; try discriminate; auto 10.
Qed.

Ltac sep_cases k H := destruct (sepc_cases k H) as [->|[->|[->|[->|[->|[->| ->]]]]]].

Lemma safe_open c : safe (TFix "(") (Some c) = true. Proof. reflexivity. Qed.
Lemma safe_close nc : safe (TFix ")") nc = true. Proof. destruct nc; reflexivity. Qed.
Lemma safe_comma nc : safe (TFix ",") nc = true. Proof. destruct nc; reflexivity. Qed.
Lemma safe_rbracket nc : safe (TFix "]") nc = true. Proof. destruct nc; reflexivity. Qed.
Lemma safe_lbracket nc : safe (TFix "[") nc = true. Proof. destruct nc; reflexivity. Qed.
Lemma safe_at nc : safe (TFix "@") nc = true. Proof. destruct nc; reflexivity. Qed.
Lemma safe_tilde nc : safe (TFix "~") nc = true. Proof. destruct nc; reflexivity. Qed.
Lemma safe_dollar nc : safe (TFix "$") nc = true. Proof. destruct nc; reflexivity. Qed.
Lemma safe_question nc : safe (TFix "?") nc = true. Proof. destruct nc; reflexivity. Qed.
Lemma safe_colon nc : safe (TFix ":") nc = true. Proof. destruct nc; reflexivity. Qed.
Lemma safe_incdec (inc : bool) nc : safe (TFix (if inc then "++" else "--")) nc = true.
Proof. destruct inc, nc; reflexivity. Qed.

Lemma safe_binop op : mem_str op binops = true -> safe (TFix op) (Some " "%char) = true.
Proof.
  intros H. apply mem_str_In in H. unfold binops in H.
  repeat (destruct H as [<-|H]; [reflexivity|]). destruct H.
Qed.

(* startc characters are not `=`; identifier starts are neither `=` nor `.` *)
Lemma startc_not_eq c : startc c = true -> Ascii.eqb c "=" = false.
Proof. intros H. destruct c as [[] [] [] [] [] [] [] []]; cbn in H; try discriminate; reflexivity. Qed.

Lemma safe_percent c : Ascii.eqb c "=" = false -> safe (TFix "%") (Some c) = true.
Proof. intros H. destruct c as [[] [] [] [] [] [] [] []]; cbn in H; try discriminate; reflexivity. Qed.
Lemma safe_eq c : Ascii.eqb c "=" = false -> safe (TFix "=") (Some c) = true.
Proof. intros H. destruct c as [[] [] [] [] [] [] [] []]; cbn in H; try discriminate; reflexivity. Qed.
Lemma safe_dot c : is_ident_start c = true -> safe (TFix ".") (Some c) = true.
Proof. intros H. destruct c as [[] [] [] [] [] [] [] []]; cbn in H; try discriminate; reflexivity. Qed.

Lemma safe_prefix op c : mem_str op prefix_unops = true -> follows_ok op (String c EmptyString) = true ->
  safe (TFix op) (Some c) = true.
Proof.
  intros H Hf. apply mem_str_In in H. unfold prefix_unops in H.
  destruct H as [<-|[<-|[<-|[]]]]; destruct c as [[] [] [] [] [] [] [] []]; cbn in Hf; try discriminate; reflexivity.
Qed.

Lemma safe_prefix_nofuse op c : mem_str op prefix_unops = true -> fuses op (Some c) = false -> startc c = true ->
  safe (TFix op) (Some c) = true.
Proof.
  intros H Hf Hs. apply mem_str_In in H. unfold prefix_unops in H.
  destruct H as [<-|[<-|[<-|[]]]]; destruct c as [[] [] [] [] [] [] [] []]; cbn in Hf, Hs; try discriminate; reflexivity.
Qed.

Lemma safe_prefix_paren op : mem_str op prefix_unops = true -> safe (TFix op) (Some "("%char) = true.
Proof.
  intros H. apply mem_str_In in H. unfold prefix_unops in H.
  destruct H as [<-|[<-|[<-|[]]]]; reflexivity.
Qed.

(* words *)
Lemma safe_word_tok s nc : safe_word s nc = true -> safe (word_tok s) nc = true.
Proof.
  intros H. unfold word_tok.
  destruct (mem_str s keywords) eqn:Ek; [cbn [safe]; rewrite Ek; exact H|].
  destruct (prefixb "ins_" s) eqn:Ei.
  - cbn [safe]. rewrite H. unfold word_tok. rewrite Ek, Ei. cbn. apply String.eqb_refl.
  - cbn [safe]. rewrite H. unfold word_tok. rewrite Ek, Ei. cbn. apply String.eqb_refl.
Qed.

Lemma valid_ident_word s : valid_ident s = true -> is_word s = true.
Proof.
  unfold valid_ident, is_word. destruct s as [|c s]; [discriminate|]. intros H.
  apply andb_true_iff in H as [H _]. exact H.
Qed.

(* a character that ends a word: not an identifier character, and not `(` after the word rad *)
Definition ends_word (w : string) (nc : option ascii) : bool :=
  match nc with
  | Some c => negb (is_ident_char c) && (negb (String.eqb w "rad") || negb (Ascii.eqb c "("))
  | None => true
  end.

Lemma safe_wd s nc : is_word s = true -> ends_word s nc = true -> safe (word_tok s) nc = true.
Proof. intros H1 H2. apply safe_word_tok. unfold safe_word. rewrite H1. exact H2. Qed.

Lemma ends_word_sep w k : sepc k = true -> ends_word w k = true.
Proof. intros H. sep_cases k H; unfold ends_word; destruct (String.eqb w "rad"); reflexivity. Qed.

Lemma ends_word_nonparen w c : is_ident_char c = false -> Ascii.eqb c "(" = false -> ends_word w (Some c) = true.
Proof. intros H1 H2. cbn. rewrite H1, H2, orb_true_r. reflexivity. Qed.

(* integer and float tokens end at a separator *)
Lemma safe_int_sep s k : int_shape s = true -> sepc k = true -> safe (TInt s) k = true.
Proof. intros Hs H. cbn. unfold safe_int. rewrite Hs. sep_cases k H; reflexivity. Qed.
Lemma safe_float_sep s k : float_shape s = true -> sepc k = true -> safe (TFloat s) k = true.
Proof. intros Hs H. cbn. unfold safe_float. rewrite Hs. sep_cases k H; reflexivity. Qed.

(* ---------------------------------------------------------------------------------------- *)
(* induction principle for the nested type [fexpr] *)

Section FexprInd.
Variable P : fexpr -> Prop.
Hypothesis HTern : forall c l r, P c -> P l -> P r -> P (FTern c l r).
Hypothesis HBin : forall a op b, P a -> P b -> P (FBin a op b).
Hypothesis HUn : forall op x, P x -> P (FUn op x).
Hypothesis HXcr : forall pre inc v, P (FXcr pre inc v).
Hypothesis HVar : forall v, P (FVar v).
Hypothesis HCall : forall n ps args, Forall (fun p => P (snd p)) ps -> Forall P args -> P (FCall n ps args).
Hypothesis HDiff : forall cs, Forall (fun c => match c with Some x => P x | None => True end) cs -> P (FDiff cs).
Hypothesis HLitI : forall v f, P (FLitI v f).
Hypothesis HLitF : forall b, P (FLitF b).
Hypothesis HLitS : forall s, P (FLitS s).
Hypothesis HLabel : forall kw l, P (FLabelProp kw l).
Hypothesis HEnum : forall a b, P (FEnum a b).

Let Q := fun c : option fexpr => match c with Some x => P x | None => True end.

Fixpoint fexpr_ind2 (e : fexpr) : P e :=
  match e with
  | FTern c l r => HTern c l r (fexpr_ind2 c) (fexpr_ind2 l) (fexpr_ind2 r)
  | FBin a op b => HBin a op b (fexpr_ind2 a) (fexpr_ind2 b)
  | FUn op x => HUn op x (fexpr_ind2 x)
  | FXcr pre inc v => HXcr pre inc v
  | FVar v => HVar v
  | FCall n ps args =>
      HCall n ps args
        ((fix go (l : list (string * fexpr)) : Forall (fun p => P (snd p)) l :=
            match l with [] => Forall_nil _ | p :: r => Forall_cons p (fexpr_ind2 (snd p)) (go r) end) ps)
        ((fix go (l : list fexpr) : Forall P l :=
            match l with [] => Forall_nil _ | x :: r => Forall_cons x (fexpr_ind2 x) (go r) end) args)
  | FDiff cs =>
      HDiff cs
        ((fix go (l : list (option fexpr)) : Forall Q l :=
            match l with
            | [] => Forall_nil Q
            | c :: r => @Forall_cons _ Q c r (match c return Q c with Some x => fexpr_ind2 x | None => I end) (go r)
            end) cs)
  | FLitI v f => HLitI v f
  | FLitF b => HLitF b
  | FLitS s => HLitS s
  | FLabelProp kw l => HLabel kw l
  | FEnum a b => HEnum a b
  end.
End FexprInd.

(* ---------------------------------------------------------------------------------------- *)
(* combinators *)

Lemma nx_tok t r k c s : text t = String c s -> nx (OT t :: r) k = Some c.
Proof. intros H. unfold nx. cbn [concat_text otext]. rewrite H. reflexivity. Qed.

Lemma nx_fst l k : fst_ok l -> exists c, nx l k = Some c /\ startc c = true.
Proof. intros (c & H1 & H2). exists c. unfold nx. rewrite H1. auto. Qed.

Lemma fst_ok_app a b : fst_ok a -> fst_ok (a ++ b).
Proof.
  intros (c & H1 & H2). exists c. rewrite concat_text_app, nextc_app, H1. auto.
Qed.

Lemma fst_ok_tok t r c s : text t = String c s -> startc c = true -> fst_ok (OT t :: r).
Proof. intros H Hc. exists c. cbn [concat_text otext]. rewrite H. auto. Qed.

Definition fl_paren (sup : bool) (l : list oitem) : list oitem :=
  if sup then l else OT (TFix "(") :: l ++ [OT (TFix ")")].

Lemma fl_paren_eq sup d : fl (paren sup d) = fl_paren sup (fl d).
Proof. unfold paren, fl_paren. destruct sup; [reflexivity|]. rewrite !fl_app. reflexivity. Qed.

Lemma okk_paren sup l : okk l -> fst_ok l -> okk (fl_paren sup l) /\ fst_ok (fl_paren sup l).
Proof.
  intros Hl Hf. destruct sup; [split; assumption|]. split.
  - intros k Hk. unfold fl_paren.
    change (OT (TFix "(") :: l ++ [OT (TFix ")")]) with ([OT (TFix "(")] ++ l ++ [OT (TFix ")")]).
    rewrite !oks_app. cbn [oks ok1].
    rewrite (Hl (nx [OT (TFix ")")] k)) by reflexivity.
    rewrite safe_close, !andb_true_r.
    destruct (nx_fst (l ++ [OT (TFix ")")]) k (fst_ok_app _ _ Hf)) as (c & Hc & _).
    rewrite Hc. apply safe_open.
  - eapply fst_ok_tok; reflexivity.
Qed.

(* a ++ [OS 1; OT op; OS 1] ++ b *)
Lemma okk_infix a t b : okk a -> okk b -> (forall nc, safe t nc = true) -> okk (a ++ [OS 1; OT t; OS 1] ++ b).
Proof.
  intros Ha Hb Ht k Hk. rewrite !oks_app. cbn [oks ok1]. rewrite Ht, (Hb k Hk), !andb_true_r. apply Ha. reflexivity.
Qed.

Lemma okk_infix_sp a t b : okk a -> okk b -> safe t (Some " "%char) = true -> okk (a ++ [OS 1; OT t; OS 1] ++ b).
Proof.
  intros Ha Hb Ht k Hk. rewrite !oks_app. cbn [oks ok1].
  change (nx [OS 1] (nx b k)) with (Some " "%char).
  rewrite Ht, (Hb k Hk), !andb_true_r. apply Ha. reflexivity.
Qed.

(* ---------------------------------------------------------------------------------------- *)
(* literals, variables *)

Lemma okk_one t : (forall k, sepc k = true -> safe t k = true) -> okk [OT t].
Proof. intros H k Hk. cbn [oks ok1]. unfold nx. cbn. rewrite (H k Hk). reflexivity. Qed.

Lemma okk_neg_tok t c s : text t = String c s -> is_digit c = true ->
  (forall k, sepc k = true -> safe t k = true) -> okk [OT (TFix "-"); OT t].
Proof.
  intros Ht Hc H k Hk. cbn [oks ok1]. rewrite (nx_tok t [] k c s Ht), (safe_minus_digit c Hc).
  unfold nx. cbn. rewrite (H k Hk). reflexivity.
Qed.

Lemma digit_startc c : is_digit c = true -> startc c = true.
Proof. intros H. destruct c as [[] [] [] [] [] [] [] []]; cbn in H; try discriminate; reflexivity. Qed.
Lemma ident_startc c : is_ident_start c = true -> startc c = true.
Proof. intros H. unfold startc. rewrite H. reflexivity. Qed.

Definition litgood (l : list oitem) : Prop := okk l /\ fst_ok l.

Lemma signed_good prefix r v :
  (forall n, 0 <= n -> int_shape (prefix ^^ digits r n) = true) ->
  (forall n, 0 <= n -> exists c, nextc (prefix ^^ digits r n) = Some c /\ is_digit c = true) ->
  litgood (fl (signed_toks prefix r v)).
Proof.
  intros Hshape Hfirst. unfold signed_toks. destruct (v <? 0) eqn:E.
  - pose proof (u32_range (- v)) as [Hu _].
    destruct (Hfirst _ Hu) as (c & Hc & Hd).
    destruct (prefix ^^ digits r (u32 (- v))) as [|c' s] eqn:Es; [discriminate|]. injection Hc as ->.
    split.
    + cbn [fl flat_map flat app fx].
      apply (okk_neg_tok (TInt (String c s)) c s eq_refl Hd).
      intros k Hk. apply safe_int_sep; [rewrite <- Es; apply Hshape; exact Hu|exact Hk].
    + eapply fst_ok_tok; reflexivity.
  - apply Z.ltb_ge in E. destruct (Hfirst _ E) as (c & Hc & Hd).
    destruct (prefix ^^ digits r v) as [|c' s] eqn:Es; [discriminate|]. injection Hc as ->.
    split.
    + cbn [fl flat_map flat app]. apply okk_one. intros k Hk.
      apply safe_int_sep; [rewrite <- Es; apply Hshape; exact E|exact Hk].
    + cbn [fl flat_map flat app]. eapply fst_ok_tok; [reflexivity|apply digit_startc; exact Hd].
Qed.

Lemma unsigned_good prefix r n :
  0 <= n -> int_shape (prefix ^^ digits r n) = true ->
  (exists c, nextc (prefix ^^ digits r n) = Some c /\ is_digit c = true) ->
  litgood [OT (TInt (prefix ^^ digits r n))].
Proof.
  intros Hn Hs (c & Hc & Hd).
  destruct (prefix ^^ digits r n) as [|c' s] eqn:Es; [discriminate|]. injection Hc as ->.
  split.
  - apply okk_one. intros k Hk. apply safe_int_sep; assumption.
  - eapply fst_ok_tok; [reflexivity|apply digit_startc; exact Hd].
Qed.

Lemma word_good w : is_word w = true -> (exists c s, w = String c s /\ startc c = true) -> litgood [OT (word_tok w)].
Proof.
  intros Hw (c & s & -> & Hc). split.
  - apply okk_one. intros k Hk. apply safe_wd; [exact Hw|apply ends_word_sep; exact Hk].
  - exists c. split; [|exact Hc]. unfold word_tok.
    destruct (mem_str (String c s) keywords); [reflexivity|]. destruct (prefixb "ins_" (String c s)); reflexivity.
Qed.

Lemma pp_int_good f v : litgood (fl (pp_int f v)).
Proof.
  pose proof (u32_range v) as [Hu _].
  assert (Hsd : litgood (fl (signed_toks "" 10 v))) by (apply signed_good; [apply int_shape_dec|apply first_dec]).
  assert (Hux : litgood (fl [DT (TInt ("0x" ^^ digits 16 (u32 v)))])).
  { apply unsigned_good; [exact Hu|apply int_shape_hex; exact Hu|apply first_0x; exact Hu]. }
  destruct f as [signed r]. destruct r; destruct signed; cbn [pp_int].
  - exact Hsd.
  - apply (unsigned_good "" 10); [exact Hu|apply int_shape_dec; exact Hu|apply first_dec; exact Hu].
  - apply signed_good; [apply int_shape_hex|apply first_0x].
  - exact Hux.
  - apply signed_good; [apply int_shape_bin|apply first_0b].
  - apply (unsigned_good "0b" 2); [exact Hu|apply int_shape_bin; exact Hu|apply first_0b; exact Hu].
  - destruct (v =? 0); [apply word_good; [reflexivity|eexists _, _; split; reflexivity]|].
    destruct (v =? 1); [apply word_good; [reflexivity|eexists _, _; split; reflexivity]|]. exact Hsd.
  - destruct (v =? 0); [apply word_good; [reflexivity|eexists _, _; split; reflexivity]|].
    destruct (v =? 1); [apply word_good; [reflexivity|eexists _, _; split; reflexivity]|]. exact Hux.
Qed.

Section WithFd.
Variable fd : Z -> string.
Hypothesis fd_shape : forall a, 0 <= a < INF_BITS -> float_shape (float_text fd a) = true.

Lemma pp_float_good b : 0 <= b < two32 -> litgood (fl (pp_float fd b)).
Proof.
  intros Hb. unfold pp_float.
  destruct (f_is_nan b) eqn:Hnan; [apply word_good; [reflexivity|eexists _, _; split; reflexivity]|].
  unfold f_is_nan in Hnan. apply Z.ltb_ge in Hnan.
  assert (Habs : 0 <= f_abs b) by (unfold f_abs; apply Z.mod_pos_bound; lia).
  destruct (f_is_inf b) eqn:Einf.
  - destruct (f_sign b).
    + split; [|eapply fst_ok_tok; reflexivity].
      intros k Hk. cbn [fl flat_map flat app fx wd oks ok1]. unfold nx. cbn [concat_text otext text word_tok]. cbn.
      sep_cases k Hk; reflexivity.
    + apply word_good; [reflexivity|eexists _, _; split; reflexivity].
  - unfold f_is_inf in Einf. apply Z.eqb_neq in Einf.
    assert (Ha : 0 <= f_abs b < INF_BITS) by (unfold INF_BITS; lia).
    pose proof (fd_shape _ Ha) as Hs. unfold float_text in Hs.
    set (s := if has_dot (fd (f_abs b)) then fd (f_abs b) else fd (f_abs b) ^^ ".0") in *.
    destruct (float_first s Hs) as (c & Hc & Hd).
    destruct s as [|c' s'] eqn:Es; [discriminate|]. injection Hc as ->.
    destruct (f_sign b).
    + split; [|eapply fst_ok_tok; reflexivity].
      cbn [fl flat_map flat app fx].
      apply (okk_neg_tok (TFloat (String c s')) c s' eq_refl Hd).
      intros k Hk. apply safe_float_sep; assumption.
    + split.
      * cbn [fl flat_map flat app]. apply okk_one. intros k Hk. apply safe_float_sep; assumption.
      * eapply fst_ok_tok; [reflexivity|apply digit_startc; exact Hd].
Qed.

End WithFd.

(* ---------------------------------------------------------------------------------------- *)
(* variables *)

Definition sepx (k : option ascii) : Prop := sepc k = true \/ k = Some "+"%char \/ k = Some "-"%char.

Lemma ends_word_sepx w k : sepx k -> ends_word w k = true.
Proof.
  intros [H|[->| ->]]; [apply ends_word_sep; exact H| |]; unfold ends_word; destruct (String.eqb w "rad"); reflexivity.
Qed.

Lemma text_word_tok w : text (word_tok w) = w.
Proof. unfold word_tok. destruct (mem_str w keywords); [reflexivity|]. destruct (prefixb "ins_" w); reflexivity. Qed.

Lemma ident_start_not_eq c : is_ident_start c = true -> Ascii.eqb c "=" = false.
Proof. intros H. destruct c as [[] [] [] [] [] [] [] []]; cbn in H; try discriminate; reflexivity. Qed.

Lemma valid_ident_first n : valid_ident n = true -> exists c s, n = String c s /\ is_ident_start c = true.
Proof.
  unfold valid_ident. destruct n as [|c s]; [discriminate|]. intros H.
  apply andb_true_iff in H as [H _]. apply andb_true_iff in H as [H _]. eauto.
Qed.

Lemma safe_sigil sg c : Ascii.eqb c "=" = false ->
  forall r k, nx r k = Some c -> oks (fl (pp_sigil sg) ++ r) k = oks r k.
Proof.
  intros Hc r k Hn. destruct sg as [[]|]; cbn [pp_sigil fl flat_map flat app fx oks ok1]; rewrite ?Hn.
  - reflexivity.
  - rewrite (safe_percent c Hc). reflexivity.
  - reflexivity.
Qed.

Lemma fst_sigil sg r : fst_ok r -> fst_ok (fl (pp_sigil sg) ++ r).
Proof.
  intros H. destruct sg as [[]|]; cbn [pp_sigil fl flat_map flat app fx]; [| |exact H]; eapply fst_ok_tok; reflexivity.
Qed.

Lemma var_good v : pr_var v = true ->
  (forall k, sepx k -> oks (fl (pp_var v)) k = true) /\ fst_ok (fl (pp_var v)).
Proof.
  destruct v as [sg n|sg r]; cbn [pr_var pp_var]; intros Hp; rewrite fl_app.
  - destruct (valid_ident_first n Hp) as (c & s & -> & Hc).
    pose proof (valid_ident_word _ Hp) as Hw.
    split.
    + intros k Hk.
      rewrite (safe_sigil sg c (ident_start_not_eq c Hc)).
      * cbn [fl flat_map flat app wd oks ok1]. unfold nx. cbn [concat_text nextc].
        rewrite (safe_wd _ k Hw (ends_word_sepx _ k Hk)). reflexivity.
      * cbn [fl flat_map flat app wd]. eapply nx_tok. apply text_word_tok.
    + apply fst_sigil. cbn [fl flat_map flat app wd]. eapply fst_ok_tok; [apply text_word_tok|apply ident_startc; exact Hc].
  - destruct (signed_good "" 10 r int_shape_dec first_dec) as [Hs Hf].
    assert (Hreg : fl (pp_reg r) = [OT (TFix "REG"); OT (TFix "[")] ++ fl (signed_toks "" 10 r) ++ [OT (TFix "]")]).
    { unfold pp_reg. rewrite !fl_app. reflexivity. }
    rewrite Hreg. split.
    + intros k Hk. rewrite (safe_sigil sg "R"%char eq_refl); [|reflexivity].
      rewrite !oks_app. rewrite (Hs (nx [OT (TFix "]")] k)) by reflexivity.
      cbn [oks ok1]. rewrite safe_rbracket, safe_lbracket. reflexivity.
    + apply fst_sigil. eapply fst_ok_tok; reflexivity.
Qed.

(* ---------------------------------------------------------------------------------------- *)
(* separated lists *)

Lemma sep_by_cons' {A} (sep : list A) x l :
  sep_by sep (x :: l) = x ++ flat_map (fun y => sep ++ y) l.
Proof.
  revert x. induction l as [|y l IH]; intros x.
  - cbn. rewrite app_nil_r. reflexivity.
  - change (sep_by sep (x :: y :: l)) with (x ++ sep ++ sep_by sep (y :: l)).
    rewrite IH. cbn [flat_map]. rewrite <- !app_assoc. reflexivity.
Qed.

Lemma fl_sep_by sep ls : fl (sep_by sep ls) = sep_by (fl sep) (map fl ls).
Proof.
  destruct ls as [|x l]; [reflexivity|]. cbn [map]. rewrite !sep_by_cons', fl_app. f_equal.
  induction l as [|y l IH]; [reflexivity|]. cbn [flat_map map]. rewrite !fl_app, IH. reflexivity.
Qed.

Definition good_sep (sep : list oitem) : Prop :=
  (forall r k, sepc (nx (sep ++ r) k) = true) /\ (forall r k, oks (sep ++ r) k = oks r k).

Lemma good_sep_comma : good_sep [OT (TFix ","); OS 1].
Proof. split; intros r k; [reflexivity|]. cbn [app oks ok1]. rewrite safe_comma. reflexivity. Qed.

Lemma good_sep_colon : good_sep [OS 1; OT (TFix ":"); OS 1].
Proof. split; intros r k; [reflexivity|]. cbn [app oks ok1]. rewrite safe_colon. reflexivity. Qed.

Lemma okk_sep_by sep items : good_sep sep -> Forall okk items -> okk (sep_by sep items).
Proof.
  intros [Hs1 Hs2] Hall. destruct Hall as [|x l Hx Hl]; [intros k _; reflexivity|].
  rewrite sep_by_cons'. revert x Hx. induction Hl as [|y l Hy Hl IH]; intros x Hx k Hk.
  - cbn [flat_map]. rewrite app_nil_r. apply Hx. exact Hk.
  - cbn [flat_map]. rewrite <- app_assoc. rewrite oks_app.
    rewrite (Hx _ (Hs1 _ k)). cbn [andb]. rewrite Hs2. apply IH; assumption.
Qed.

(* ---------------------------------------------------------------------------------------- *)
(* the main induction *)

Lemma follows_ok_first op s c : nextc s = Some c -> follows_ok op s = follows_ok op (String c EmptyString).
Proof. destruct s as [|c' s']; [discriminate|]. intros [= ->]. reflexivity. Qed.

Lemma startc_prefix op : mem_str op prefix_unops = true -> exists c s, op = String c s /\ startc c = true.
Proof.
  intros H. apply mem_str_In in H. unfold prefix_unops in H.
  destruct H as [<-|[<-|[<-|[]]]]; eexists _, _; split; reflexivity.
Qed.

Lemma fn_tok_good op : mem_str op fn_unops = true ->
  exists t c s, fn_tok op = DT t /\ text t = String c s /\ startc c = true /\ safe t (Some "("%char) = true.
Proof.
  intros H. apply mem_str_In in H. unfold fn_unops in H.
  repeat (destruct H as [<-|H]; [eexists _, _, _; repeat split; reflexivity|]). destruct H.
Qed.

Lemma pseudo_kind_good k : mem_str k pseudo_kinds = true ->
  safe (word_tok k) (Some "="%char) = true /\ exists c s, text (word_tok k) = String c s.
Proof.
  intros H. apply mem_str_In in H. unfold pseudo_kinds in H.
  repeat (destruct H as [<-|H]; [split; [reflexivity|eexists _, _; reflexivity]|]). destruct H.
Qed.

Lemma label_kw_good kw : mem_str kw label_props = true ->
  safe (word_tok kw) (Some "("%char) = true /\ exists c s, text (word_tok kw) = String c s /\ startc c = true.
Proof.
  intros H. apply mem_str_In in H. unfold label_props in H.
  repeat (destruct H as [<-|H]; [split; [reflexivity|eexists _, _; split; reflexivity]|]). destruct H.
Qed.

Lemma ins_name_good op : 0 <= op ->
  is_word ("ins_" ^^ digits 10 op) = true /\ String.eqb ("ins_" ^^ digits 10 op) "rad" = false.
Proof.
  intros Hop. split; [|reflexivity].
  destruct (digits_shape 10 op) as [Hall _]; [right; left; reflexivity|exact Hop|].
  cbn [String.append is_word]. cbn [all_chars]. 
  change (is_ident_start "i") with true. change (is_ident_char "i") with true. change (is_ident_char "n") with true.
  change (is_ident_char "s") with true. change (is_ident_char "_") with true. cbn [andb].
  apply (all_chars_impl (is_rdigit 10)); [|exact Hall].
  intros c Hc. apply rdigit10 in Hc. apply digit_facts in Hc. apply Hc.
Qed.

Section Main.
Variable fd : Z -> string.
Hypothesis fd_shape : forall a, 0 <= a < INF_BITS -> float_shape (float_text fd a) = true.

Definition good (e : fexpr) : Prop :=
  pr_expr fd e = true -> forall sup, okk (fl (pp fd sup e)) /\ fst_ok (fl (pp fd sup e)).

Lemma good_tern c l r : good c -> good l -> good r -> good (FTern c l r).
Proof.
  intros Hc Hl Hr Hp sup. cbn [pr_expr] in Hp.
  apply andb_true_iff in Hp as [Hp Hp3]. apply andb_true_iff in Hp as [Hp1 Hp2].
  destruct (Hc Hp1 false) as [Hc1 Hc2]. destruct (Hl Hp2 false) as [Hl1 Hl2]. destruct (Hr Hp3 false) as [Hr1 Hr2].
  cbn [pp]. rewrite fl_paren_eq. apply okk_paren.
  - rewrite !fl_app. cbn [fl flat_map flat app fx sp1].
    change ([OS 1; OT (TFix "?"); OS 1] ++ fl (pp fd false l) ++ [OS 1; OT (TFix ":"); OS 1] ++ fl (pp fd false r))
      with ([OS 1; OT (TFix "?"); OS 1] ++ (fl (pp fd false l) ++ [OS 1; OT (TFix ":"); OS 1] ++ fl (pp fd false r))).
    apply okk_infix; [exact Hc1| |apply safe_question].
    apply okk_infix; [exact Hl1|exact Hr1|apply safe_colon].
  - rewrite fl_app. apply fst_ok_app. exact Hc2.
Qed.

Lemma good_bin a op b : good a -> good b -> good (FBin a op b).
Proof.
  intros Ha Hb Hp sup. cbn [pr_expr] in Hp.
  apply andb_true_iff in Hp as [Hp Hp3]. apply andb_true_iff in Hp as [Hp1 Hp2].
  destruct (Ha Hp2 false) as [Ha1 Ha2]. destruct (Hb Hp3 false) as [Hb1 Hb2].
  cbn [pp]. rewrite fl_paren_eq. apply okk_paren.
  - rewrite !fl_app. cbn [fl flat_map flat app fx sp1].
    apply okk_infix_sp; [exact Ha1|exact Hb1|apply safe_binop; exact Hp1].
  - rewrite fl_app. apply fst_ok_app. exact Ha2.
Qed.

Lemma good_un op x : good x -> good (FUn op x).
Proof.
  intros Hx Hp sup. cbn [pr_expr pp] in *.
  destruct (mem_str op prefix_unops) eqn:Eop.
  - apply andb_true_iff in Hp as [Hp1 Hp2]. destruct (Hx Hp1 false) as [Hx1 Hx2]. destruct (Hx Hp1 true) as [Hy1 Hy2].
    rewrite fl_paren_eq.
    destruct Hx2 as (c & Hc & Hst).
    assert (Hfc : first_char_docs (pp fd false x) = Some c) by exact Hc.
    rewrite Hfc.
    destruct (startc_prefix op Eop) as (c0 & s0 & Eq0 & Hc0).
    destruct (gen_unop_guard && fuses op (Some c)) eqn:G.
    + (* the operand is parenthesized *)
      apply okk_paren.
      * intros k Hk. rewrite !fl_app. cbn [fl flat_map flat app fx]. fold (fl (pp fd true x)). cbn [oks ok1].
        rewrite (nx_tok (TFix "(") _ k "("%char EmptyString eq_refl), (safe_prefix_paren op Eop).
        rewrite oks_app. rewrite (Hy1 (nx [OT (TFix ")")] k)) by reflexivity.
        cbn [oks ok1]. rewrite safe_close.
        destruct (nx_fst (fl (pp fd true x) ++ [OT (TFix ")")]) k (fst_ok_app _ _ Hy2)) as (c' & Hc' & _).
        rewrite Hc'. reflexivity.
      * subst op. eapply fst_ok_tok; [reflexivity|exact Hc0].
    + apply okk_paren.
      * intros k Hk. cbn [fl flat_map flat fx]. change (OT (TFix op) :: flat_map flat (pp fd false x)) with ([OT (TFix op)] ++ fl (pp fd false x)).
        rewrite oks_app. fold (fl (pp fd false x)). rewrite (Hx1 k Hk), andb_true_r. cbn [oks ok1]. rewrite andb_true_r.
        unfold nx at 2. rewrite Hc. unfold nx. cbn [concat_text nextc].
        destruct gen_unop_guard eqn:Eg.
        -- cbn [andb] in G. apply safe_prefix_nofuse; assumption.
        -- cbn [orb] in Hp2. apply safe_prefix; [exact Eop|].
           unfold print_expr in Hp2. rewrite flat_seq in Hp2. rewrite (follows_ok_first _ _ _ Hc) in Hp2. exact Hp2.
      * subst op. eapply fst_ok_tok; [reflexivity|exact Hc0].
  - apply andb_true_iff in Hp as [Hp1 Hp2]. destruct (Hx Hp2 true) as [Hx1 Hx2].
    destruct (fn_tok_good op Hp1) as (t & c & s & Ht & Htx & Hc & Hs).
    rewrite !fl_app. cbn [fl flat_map flat app fx]. rewrite Ht. cbn [flat app].
    split.
    + intros k Hk.
      fold (fl (pp fd true x)). cbn [oks ok1].
      rewrite (nx_tok (TFix "(") _ k "("%char EmptyString eq_refl), Hs.
      rewrite oks_app. rewrite (Hx1 (nx [OT (TFix ")")] k)) by reflexivity.
      cbn [oks ok1]. rewrite safe_close.
      destruct (nx_fst (fl (pp fd true x) ++ [OT (TFix ")")]) k (fst_ok_app _ _ Hx2)) as (c' & Hc' & _).
      rewrite Hc'. reflexivity.
    + eapply fst_ok_tok; [exact Htx|exact Hc].
Qed.

Lemma good_xcr pre inc v : good (FXcr pre inc v).
Proof.
  intros Hp sup. cbn [pr_expr pp] in *. destruct (var_good v Hp) as [Hv1 Hv2].
  destruct pre.
  - change (fx (if inc then "++" else "--") :: pp_var v) with ([fx (if inc then "++" else "--")] ++ pp_var v).
    rewrite fl_app. cbn [fl flat_map flat app fx]. split.
    + intros k Hk. cbn [oks ok1]. rewrite safe_incdec. apply Hv1. left. exact Hk.
    + destruct inc; eapply fst_ok_tok; reflexivity.
  - rewrite fl_app. cbn [fl flat_map flat app fx]. split.
    + intros k Hk. rewrite oks_app. cbn [oks ok1]. rewrite safe_incdec, andb_true_r. apply Hv1.
      destruct inc; [right; left|right; right]; reflexivity.
    + apply fst_ok_app. exact Hv2.
Qed.

Lemma good_var v : good (FVar v).
Proof.
  intros Hp sup. cbn [pr_expr pp] in *. destruct (var_good v Hp) as [Hv1 Hv2].
  split; [|exact Hv2]. intros k Hk. apply Hv1. left. exact Hk.
Qed.

Lemma good_lit_i v f : good (FLitI v f).
Proof. intros _ sup. cbn [pp]. apply pp_int_good. Qed.

Lemma good_lit_f b : good (FLitF b).
Proof.
  intros Hp sup. cbn [pr_expr pp] in *. apply andb_true_iff in Hp as [H1 H2].
  apply Z.leb_le in H1. apply Z.ltb_lt in H2. apply pp_float_good; [exact fd_shape|lia].
Qed.

Lemma good_lit_s s : good (FLitS s).
Proof.
  intros _ sup. cbn [pp fl flat_map flat app pp_str]. split.
  - apply okk_one. intros k _. cbn. apply safe_str_print.
  - eapply fst_ok_tok; reflexivity.
Qed.

Lemma good_label kw l : good (FLabelProp kw l).
Proof.
  intros Hp sup. cbn [pr_expr pp] in *. apply andb_true_iff in Hp as [H1 H2].
  destruct (label_kw_good kw H1) as (Hs & c & s & Ht & Hc).
  destruct (valid_ident_first l H2) as (c2 & s2 & -> & Hc2).
  pose proof (valid_ident_word _ H2) as Hw.
  cbn [fl flat_map flat app wd fx]. split.
  - intros k Hk. cbn [oks ok1]. rewrite safe_close.
    unfold nx. cbn [concat_text otext nextc]. rewrite !text_word_tok. cbn [String.append nextc text].
    rewrite Hs, safe_open.
    rewrite (safe_wd _ (Some ")"%char) Hw) by (apply ends_word_sep; reflexivity). reflexivity.
  - eapply fst_ok_tok; [exact Ht|exact Hc].
Qed.

Lemma good_enum a b : good (FEnum a b).
Proof.
  intros Hp sup. cbn [pr_expr pp] in *. apply andb_true_iff in Hp as [H1 H2].
  destruct (valid_ident_first a H1) as (c1 & s1 & -> & Hc1).
  destruct (valid_ident_first b H2) as (c2 & s2 & -> & Hc2).
  pose proof (valid_ident_word _ H1) as Hw1. pose proof (valid_ident_word _ H2) as Hw2.
  cbn [fl flat_map flat app wd fx]. split.
  - intros k Hk. cbn [oks ok1].
    unfold nx. cbn [concat_text otext nextc]. rewrite !text_word_tok. cbn [String.append nextc text].
    rewrite (safe_dot c2 Hc2).
    rewrite (safe_wd _ (Some "."%char) Hw1) by (apply ends_word_nonparen; reflexivity).
    rewrite (safe_wd _ k Hw2) by (apply ends_word_sep; exact Hk). reflexivity.
  - eapply fst_ok_tok; [apply text_word_tok|apply ident_startc; exact Hc1].
Qed.

Lemma okk_pseudo k v : mem_str k pseudo_kinds = true -> okk (fl (pp fd false v)) -> fst_ok (fl (pp fd false v)) ->
  okk (flat (DSeq ([fx "@"; wd k; fx "="] ++ pp fd false v))).
Proof.
  intros Hk Hv1 Hv2 k' Hk'. rewrite flat_seq, fl_app.
  destruct (pseudo_kind_good k Hk) as (Hs & c & s & Ht).
  cbn [fl flat_map flat app fx wd]. fold (fl (pp fd false v)). cbn [oks ok1].
  rewrite (Hv1 k' Hk'), safe_at.
  rewrite (nx_tok (TFix "=") _ k' "="%char EmptyString eq_refl), Hs.
  destruct (nx_fst _ k' Hv2) as (c' & Hc' & Hst). rewrite Hc', (safe_eq c' (startc_not_eq c' Hst)). reflexivity.
Qed.

Lemma good_call n ps args :
  Forall (fun p => good (snd p)) ps -> Forall good args -> good (FCall n ps args).
Proof.
  intros Hps Hargs Hp sup. cbn [pr_expr] in Hp.
  apply andb_true_iff in Hp as [Hp Hp3]. apply andb_true_iff in Hp as [Hp1 Hp2].
  cbn [pp].
  set (items := map (fun p => DSeq ([fx "@"; wd (fst p); fx "="] ++ pp fd false (snd p))) ps ++ map (fun a => DSeq (pp fd false a)) args).
  assert (Hitems : Forall okk (map flat items)).
  { subst items. rewrite map_app. apply Forall_app. split.
    - rewrite forallb_forall in Hp2. rewrite Forall_forall in Hps.
      apply Forall_forall. intros l Hl. apply in_map_iff in Hl as (d & <- & Hd). apply in_map_iff in Hd as (p & <- & Hin).
      specialize (Hp2 p Hin). apply andb_true_iff in Hp2 as [Hk Hv].
      destruct (Hps p Hin Hv false) as [H1 H2]. apply okk_pseudo; assumption.
    - rewrite forallb_forall in Hp3. rewrite Forall_forall in Hargs.
      apply Forall_forall. intros l Hl. apply in_map_iff in Hl as (d & <- & Hd). apply in_map_iff in Hd as (a & <- & Hin).
      destruct (Hargs a Hin (Hp3 a Hin) false) as [H1 _]. exact H1. }
  pose proof (okk_sep_by _ _ good_sep_comma Hitems) as Hsep.
  assert (Hname : exists t c s, pp_cname n = DT t /\ text t = String c s /\ startc c = true /\ safe t (Some "("%char) = true).
  { destruct n as [s|op].
    - apply andb_true_iff in Hp1 as [Hv Hr]. apply negb_true_iff in Hr.
      destruct (valid_ident_first s Hv) as (c & s' & -> & Hc).
      exists (word_tok (String c s')), c, s'. repeat split; [apply text_word_tok|apply ident_startc; exact Hc|].
      apply safe_wd; [apply valid_ident_word; exact Hv|]. unfold ends_word. rewrite Hr. reflexivity.
    - apply andb_true_iff in Hp1 as [H0 _]. apply Z.leb_le in H0.
      destruct (ins_name_good op H0) as [Hw Hr].
      exists (word_tok ("ins_" ^^ digits 10 op)), "i"%char, ("ns_" ^^ digits 10 op).
      repeat split; try apply text_word_tok.
      apply safe_wd; [exact Hw|]. unfold ends_word. rewrite Hr. reflexivity. }
  destruct Hname as (t & c & s & Ht & Htx & Hc & Hs).
  cbn [fl flat_map]. rewrite Ht. cbn [flat app]. rewrite app_nil_r. split.
  - intros k Hk. cbn [oks ok1].
    rewrite (nx_tok (TFix "(") _ k "("%char EmptyString eq_refl), Hs.
    rewrite oks_app. rewrite (Hsep (nx [OT (TFix ")")] k)) by reflexivity.
    cbn [oks ok1]. rewrite safe_close.
    assert (Hnx : exists c', nx (sep_by [OT (TFix ","); OS 1] (map flat items) ++ [OT (TFix ")")]) k = Some c').
    { unfold nx. rewrite concat_text_app, nextc_app.
      destruct (nextc (concat_text (sep_by [OT (TFix ","); OS 1] (map flat items)))) as [c'|]; [exists c'; reflexivity|].
      exists ")"%char. reflexivity. }
    destruct Hnx as (c' & Hc'). rewrite Hc'. reflexivity.
  - eapply fst_ok_tok; [exact Htx|exact Hc].
Qed.

Lemma good_diff cs :
  Forall (fun c => match c with Some x => good x | None => True end) cs -> good (FDiff cs).
Proof.
  intros Hcs Hp sup. cbn [pr_expr] in Hp.
  destruct cs as [|[x0|] [|c1 cs']]; try discriminate.
  set (cs := Some x0 :: c1 :: cs') in *.
  cbn [pp]. rewrite fl_paren_eq.
  assert (Hh : head_none cs = false) by reflexivity. rewrite Hh.
  rewrite !fl_app, fl_sep_by. cbn [fl flat_map app].
  set (items := map fl (map (fun c => match c with Some x => pp fd false x | None => [] end) cs)).
  assert (Hitems : Forall okk items).
  { subst items. rewrite forallb_forall in Hp. rewrite Forall_forall in Hcs.
    apply Forall_forall. intros l Hl. apply in_map_iff in Hl as (d & <- & Hd). apply in_map_iff in Hd as (c & <- & Hin).
    destruct c as [x|]; [|intros k _; reflexivity].
    destruct (Hcs (Some x) Hin (Hp (Some x) Hin) false) as [H1 _]. exact H1. }
  pose proof (okk_sep_by _ _ good_sep_colon Hitems) as Hsep.
  change (fl [sp1; fx ":"; sp1]) with [OS 1; OT (TFix ":"); OS 1].
  assert (Hx0 : fst_ok (fl (pp fd false x0))).
  { rewrite forallb_forall in Hp. rewrite Forall_forall in Hcs.
    destruct (Hcs (Some x0) (or_introl eq_refl) (Hp (Some x0) (or_introl eq_refl)) false) as [_ H2]. exact H2. }
  apply okk_paren.
  - intros k Hk. rewrite oks_app.
    destruct (last_none cs).
    + cbn [fl flat_map flat app sp1 oks ok1]. rewrite andb_true_r. apply Hsep. reflexivity.
    + cbn [fl flat_map app oks]. rewrite andb_true_r. apply Hsep. exact Hk.
  - apply fst_ok_app. subst items cs. cbn [map]. rewrite sep_by_cons'. apply fst_ok_app. exact Hx0.
Qed.

Lemma all_good e : good e.
Proof.
  induction e using fexpr_ind2.
  - apply good_tern; assumption.
  - apply good_bin; assumption.
  - apply good_un; assumption.
  - apply good_xcr.
  - apply good_var.
  - apply good_call; assumption.
  - apply good_diff; assumption.
  - apply good_lit_i.
  - apply good_lit_f.
  - apply good_lit_s.
  - apply good_label.
  - apply good_enum.
Qed.

Theorem expr_ok_seq : forall e sup, pr_expr fd e = true -> ok_seq (flat (DSeq (pp fd sup e))) = true.
Proof.
  intros e sup Hp. rewrite <- oks_none, flat_seq.
  destruct (all_good e Hp sup) as [H1 _]. apply H1. reflexivity.
Qed.

Theorem expr_lex : forall e sup, pr_expr fd e = true ->
  lex (print_expr fd sup e) = Ok (expr_toks fd sup e).
Proof. intros e sup Hp. apply lex_ok_seq. apply expr_ok_seq. exact Hp. Qed.

End Main.
