(* Proofs/OrderSitesOk.v -- C19: the side condition over the generated site inventory.
   [all_sites_ok_bool] is re-checked by vm_compute against the sites that gen/hashiter.py finds in
   the current source on every run: a new or edited site is Unclassified and breaks it. *)
From Coq Require Import String List Bool Permutation.
From TV Require Import Model.Order Model.OrderSites Proofs.OrderPerm Gen.HashIter.
Import ListNotations.

Lemma shape_eqb_eq : forall a b, shape_eqb a b = true <-> a = b.
Proof. intros a b; split; [destruct a, b; cbn; intro H; try reflexivity; discriminate H|intros ->; destruct b; reflexivity]. Qed.

Lemma site_ok_spec : forall s, site_ok s = true ->
  classification s <> Unclassified /\ (order_safe (classification s) = true \/ In (tag_of s) open_defect_tags).
Proof.
  intros s H. unfold site_ok in H. apply andb_true_iff in H. destruct H as [H1 H2]. split.
  - intro E. rewrite E in H1. discriminate H1.
  - apply orb_true_iff in H2. destruct H2 as [H2|H2]; [left; exact H2|right].
    unfold is_open_defect in H2. apply existsb_exists in H2. destruct H2 as (t & Ht & E).
    apply String.eqb_eq in E. rewrite E. exact Ht.
Qed.

Lemma all_sites_ok_bool : forallb site_ok sites = true.
Proof. vm_compute. reflexivity. Qed.

Theorem all_sites_classified_partial : forall s, In s sites ->
  classification s <> Unclassified /\ (order_safe (classification s) = true \/ In (tag_of s) open_defect_tags).
Proof.
  intros s Hs. apply site_ok_spec. exact (proj1 (forallb_forall site_ok sites) all_sites_ok_bool s Hs).
Qed.

(* the full claim, and its decidable form that the check evaluates *)
Definition classified_full (L : list site) : Prop :=
  forall s, In s L -> classification s <> Unclassified /\ order_safe (classification s) = true.
Definition all_sites_classified_full : Prop := classified_full sites.

Lemma filter_nil_iff : forall {A} (f : A -> bool) l, filter f l = [] <-> forall x, In x l -> f x = false.
Proof.
  intros A f l; induction l as [|a t IH]; cbn [filter].
  - split; [intros _ x []|reflexivity].
  - destruct (f a) eqn:E.
    + split; [discriminate|]. intro H. rewrite (H a (or_introl eq_refl)) in E. discriminate E.
    + rewrite IH. split.
      * intros H x [<-|Hx]; [exact E|apply H; exact Hx].
      * intros H x Hx. apply H. right; exact Hx.
Qed.

Lemma full_iff_gen : forall L, classified_full L <-> unsafe_sites L = [].
Proof.
  intro L. unfold classified_full, unsafe_sites. rewrite filter_nil_iff. split.
  - intros H s Hs. destruct (H s Hs) as [_ H2]. rewrite H2. reflexivity.
  - intros H s Hs. specialize (H s Hs). apply negb_false_iff in H. split; [|exact H].
    intro E. rewrite E in H. discriminate H.
Qed.

Theorem full_iff_no_unsafe_site : all_sites_classified_full <-> unsafe_sites sites = [].
Proof. exact (full_iff_gen sites). Qed.

(* the full claim holds for the current source (re-checked by vm_compute on every run) *)
Lemma all_sites_strict_bool : forallb site_ok_strict sites = true.
Proof. vm_compute. reflexivity. Qed.

Lemma site_ok_strict_spec : forall s, site_ok_strict s = true ->
  classification s <> Unclassified /\ order_safe (classification s) = true.
Proof.
  intros s H. unfold site_ok_strict in H. apply andb_true_iff in H. destruct H as [H1 H2]. split; [|exact H2].
  intro E. rewrite E in H1. discriminate H1.
Qed.

Theorem all_sites_classified : all_sites_classified_full.
Proof.
  intros s Hs. apply site_ok_strict_spec. exact (proj1 (forallb_forall site_ok_strict sites) all_sites_strict_bool s Hs).
Qed.

Theorem sites_deterministic : forall s, In s sites ->
  forall p l l', step_commutes p -> NoDup (map fst l) -> NoDup (map (span p) l) -> Permutation l l' ->
  obs_eq (consumer p (classification s) l) (consumer p (classification s) l').
Proof.
  intros s Hs p l l' Hc HN HS HP. destruct (all_sites_classified s Hs) as [_ H].
  apply consumer_perm_invariant; assumption.
Qed.

(* every inventoried site outside the recorded defect classes is invariant under permutation of its iteration *)
Theorem sites_deterministic_partial : forall s, In s sites -> ~ In (tag_of s) open_defect_tags ->
  forall p l l', step_commutes p -> NoDup (map fst l) -> NoDup (map (span p) l) -> Permutation l l' ->
  obs_eq (consumer p (classification s) l) (consumer p (classification s) l').
Proof.
  intros s Hs Hn p l l' Hc HN HS HP.
  destruct (all_sites_classified_partial s Hs) as [_ [H|H]]; [|contradiction].
  apply consumer_perm_invariant; assumption.
Qed.

(* ... and every site whose shape is not order-safe really is order dependent (as a shape) *)
Lemma unsafe_refuted_gen : forall L s, In s (unsafe_sites L) ->
  exists p l l', step_commutes p /\ NoDup (map fst l) /\ NoDup (map (span p) l) /\ Permutation l l'
                 /\ ~ obs_eq (consumer p (classification s) l) (consumer p (classification s) l').
Proof.
  intros L s Hs. unfold unsafe_sites in Hs. apply filter_In in Hs. destruct Hs as [_ H]. apply negb_true_iff in H.
  apply unsafe_shapes_refuted; exact H.
Qed.

(* ------------------------------------------------------------------------------------------ *)
(* non-vacuity instances used by Props/C19.v *)
From Coq Require Import ZArith Lia.
Open Scope Z_scope.

Definition ex_params : params :=
  mk_params (fun e => 10 * fst e + snd e) (fun e => 100 - fst e) (fun e => snd e =? 7)
            (fun e => Z.abs (fst e - 5)) (fun a e => Z.max a (snd e)) 0.
Definition ex_l : list entry := [(3, 7); (9, 1); (7, 4); (1, 9)].
Definition ex_l' : list entry := [(1, 9); (7, 4); (3, 7); (9, 1)].

Lemma nodup4 : forall a b c d : Z, a <> b -> a <> c -> a <> d -> b <> c -> b <> d -> c <> d -> NoDup [a; b; c; d].
Proof.
  intros. repeat constructor; cbn; intuition congruence.
Qed.

Lemma ex_hyps : step_commutes ex_params /\ NoDup (map fst ex_l) /\ NoDup (map (span ex_params) ex_l)
                /\ Permutation ex_l ex_l'.
Proof.
  split; [intros a x y; cbn; lia|].
  split; [cbn; apply nodup4; lia|].
  split; [cbn; apply nodup4; lia|].
  unfold ex_l, ex_l'.
  (* [3;9;7;1] ~ [1;7;3;9] *)
  apply Permutation_trans with (l' := [(1, 9); (3, 7); (9, 1); (7, 4)]).
  - change [(3, 7); (9, 1); (7, 4); (1, 9)] with ([(3, 7); (9, 1); (7, 4)] ++ [(1, 9)])%list.
    change [(1, 9); (3, 7); (9, 1); (7, 4)] with ([(1, 9)] ++ [(3, 7); (9, 1); (7, 4)])%list.
    apply Permutation_app_comm.
  - apply perm_skip.
    apply Permutation_trans with (l' := [(3, 7); (7, 4); (9, 1)]).
    + apply perm_skip. apply perm_swap.
    + apply perm_swap.
Qed.

Lemma ex_values : consumer ex_params CollectThenSort ex_l = OList [19; 37; 74; 91]
                        /\ consumer ex_params CollectThenSort ex_l' = OList [19; 37; 74; 91]
                        /\ consumer ex_params CollectOrdered ex_l' = OList [19; 37; 74; 91]
                        /\ consumer ex_params SortedByRenderer ex_l' = OList [91; 74; 37; 19]
                        /\ consumer ex_params AnyAll ex_l' = OBool true
                        /\ consumer ex_params CommFold ex_l' = ONum 9
                        /\ consumer ex_params MinByTotalKey ex_l = OOpt (Some (3, 7))
                        /\ consumer ex_params MinByTotalKey ex_l' = OOpt (Some (3, 7))
                        /\ consumer ex_params MinByKeyFirstWins ex_l = OOpt (Some (3, 7))
                        /\ consumer ex_params MinByKeyFirstWins ex_l' = OOpt (Some (7, 4))
                        /\ consumer ex_params EmitInIterationOrder ex_l = OList [37; 91; 74; 19]
                        /\ consumer ex_params EmitInIterationOrder ex_l' = OList [19; 74; 37; 91].
Proof. vm_compute. repeat split. Qed.

Lemma ex_inventory : (5 <=? Z.of_nat (length sites)) = true
  /\ existsb (fun s => shape_eqb (classification s) CollectHash) sites = true
  /\ existsb (fun s => shape_eqb (classification s) AnyAll) sites = true
  /\ existsb (fun s => shape_eqb (classification s) CollectThenSort) sites = true
  /\ existsb (fun s => shape_eqb (classification s) MinByTotalKey) sites = true.
Proof. vm_compute. repeat split. Qed.
