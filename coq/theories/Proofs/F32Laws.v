From TV Require Import Base.I32 Base.F32.
From Flocq Require Import Core.Core IEEE754.BinarySingleNaN IEEE754.Binary IEEE754.Bits.
From Coq Require Import Reals Lra.
Open Scope Z_scope.

Definition m1 : binary32 := fb F_NEG_ONE.

Lemma m1_eq : exists H, m1 = B754_finite 24 128 true 8388608 (-23) H.
Proof. unfold m1, fb. vm_compute. eexists. reflexivity. Qed.

Lemma B2R_m1 : B2R 24 128 m1 = (-1)%R.
Proof.
  destruct m1_eq as [H ->]. unfold B2R, F2R. simpl.
  unfold Z.pow_pos. simpl. lra.
Qed.

Lemma mult_neg_one_finite : forall y : binary32, is_finite 24 128 y = true ->
  b32_mult mode_NE m1 y = b32_opp y.
Proof.
  intros y Hy.
  pose proof (Bmult_correct 24 128 eq_refl eq_refl binop_nan_pl32 mode_NE m1 y) as H.
  rewrite B2R_m1 in H.
  replace (-1 * B2R 24 128 y)%R with (- B2R 24 128 y)%R in H by lra.
  rewrite round_generic in H; [| apply valid_rnd_N | apply generic_format_opp; apply generic_format_B2R].
  rewrite Rabs_Ropp in H.
  rewrite Rlt_bool_true in H by apply abs_B2R_lt_emax.
  destruct H as [HR [HF HS]].
  apply B2R_Bsign_inj.
  - unfold b32_mult. rewrite HF. rewrite Hy. destruct m1_eq as [H ->]. reflexivity.
  - unfold b32_opp. rewrite is_finite_Bopp. exact Hy.
  - unfold b32_mult, b32_opp. rewrite HR, B2R_Bopp. reflexivity.
  - unfold b32_mult, b32_opp. rewrite HS.
    + rewrite Bsign_Bopp. destruct m1_eq as [H ->]. reflexivity.
      destruct y; try discriminate; reflexivity.
    + assert (is_finite 24 128 (Bmult 24 128 eq_refl eq_refl binop_nan_pl32 mode_NE m1 y) = true).
      { rewrite HF, Hy. destruct m1_eq as [H ->]. reflexivity. }
      destruct (Bmult 24 128 eq_refl eq_refl binop_nan_pl32 mode_NE m1 y); try discriminate; reflexivity.
Qed.

Lemma bf_nan (y : binary32) : is_nan 24 128 y = true -> bf y = CANON_NAN.
Proof. destruct y; try discriminate. reflexivity. Qed.

Theorem fneg_is_mul_minus_one : forall x, fneg x = fmul F_NEG_ONE x.
Proof.
  intros x. unfold fneg, fmul. fold m1. set (y := fb x).
  destruct (is_finite 24 128 y) eqn:Hf.
  - rewrite mult_neg_one_finite by assumption. reflexivity.
  - destruct y as [s|s|s pl Hpl|s m e He]; try discriminate.
    + (* infinity *) destruct m1_eq as [H ->]. destruct s; reflexivity.
    + (* nan *) rewrite !bf_nan; try reflexivity.
Qed.
