(* Proofs/TypingWitness.v -- what holds of the tables read from the current source tree: every side
   condition of check_iff_wt_tables is true of them (vm_compute), hence the closed theorems; and the
   programs that exhibited the defects repaired in truth commits 2f23e04, daf145f, e620e4b, 8ea8263,
   af0e0ca are now rejected / accepted as the typing rules say. *)
From TV Require Import Base.I32 Base.F32 Model.Ops Model.Expr Model.TypeCheck Spec.TypingRules
  Gen.OpTable Gen.OpClass Gen.TcDispatch Proofs.TypingExpr Proofs.TypingSound Proofs.TypingDynamic.
Open Scope Z_scope.

(* the operator typing tables of the source are the documented ones *)
Lemma gen_optypes_ok : optypes_ok gen_optypes = true.
Proof. vm_compute. reflexivity. Qed.

(* ast::walk_stmt / walk_item are what Model/TypeCheck.check_stmt transcribes *)
Lemma gen_walk_ok : walk_ok gen_tctable = true.
Proof. vm_compute. reflexivity. Qed.

Lemma not_wt_by_ref G items :
  check_file spec_optypes G spec_tctable items <> TOk -> ~ wt_file G items.
Proof. intros H Hw. apply H. apply reference_typer_decides_wt. exact Hw. Qed.
Lemma wt_by_ref G items :
  check_file spec_optypes G spec_tctable items = TOk -> wt_file G items.
Proof. apply reference_typer_decides_wt. Qed.

(* a small environment: x0 : int, x1 : float, c2 : int (a const), c3 : string;
   ins_900(S), ins_907(S_f); enum 0 : int, enum 1 : string *)
Definition sigS : sig := {| sg_params := [(Typed TInt, false)]; sg_ret := Void |}.
Definition sigS_f : sig :=
  {| sg_params := [(Typed TInt, false); (Typed TInt, true); (Typed TFloat, false)]; sg_ret := Void |}.
Definition G0 : env := {|
  reg_ty := fun r => if r =? 10000 then Typed TInt else if r =? 10004 then Typed TFloat else Untyped;
  var_ty := fun id => match id with 0%nat => Typed TInt | 1%nat => Typed TFloat | 2%nat => Typed TInt | _ => Typed TString end;
  enum_ty := fun en => match en with 0%nat => TInt | _ => TString end;
  fn_sig := fun f => match f with FIns 900 => Some sigS | FIns 907 => Some sigS_f | _ => None end;
  fn_is_ins := fun f => match f with FIns _ => true | FNamed _ => false end |}.

Definition x0 := Var None (VNamed 0).
Definition x1 := Var None (VNamed 1).
Definition c2 := Var None (VNamed 2).
Definition ONE_HALF : Z := 1069547520.   (* 1.5f *)

(* script s { { int x0 = 1.5; } } *)
Definition w_block : list stmt := [SScript [SBlock [SDecl KwInt [(x0, Some (TLitF ONE_HALF))]]]].
(* script s { interrupt["a" + 1]: } *)
Definition w_interrupt : list stmt := [SScript [SInterrupt (TBin (TLitS [97]) Add (TLitI 1))]].
(* script s { +(1.5 + 2): } *)
Definition w_reltime : list stmt := [SScript [SRelTime (TBin (TLitF ONE_HALF) Add (TLitI 2))]].
(* const int c2 = 1.5; *)
Definition w_const : list stmt := [SConst KwInt [(c2, TLitF ONE_HALF)]].
(* script s { ins_907(1, 2.0); }  and  script s { ins_907(1, 2); }  with ins_907 : S_f *)
Definition w_pad_good : list stmt := [SScript [SExpr (TCall (FIns 907) [] [TLitI 1; TLitF ONE_HALF])]].
Definition w_pad_bad : list stmt := [SScript [SExpr (TCall (FIns 907) [] [TLitI 1; TLitI 2])]].
(* EnumName.x of a string-typed enum *)
Definition w_enum : texpr := TEnum 1 5.

(* the side conditions, by computation on the generated tables *)
Lemma gen_dispatch_complete : dispatch_complete gen_tctable = true.
Proof. vm_compute. reflexivity. Qed.
Lemma gen_ct_enum_ok : ot_ct_enum gen_optypes = CT_enum_ty.
Proof. vm_compute. reflexivity. Qed.
Lemma gen_call_zip_ok : ot_call_zip gen_optypes = CZ_nondefault.
Proof. vm_compute. reflexivity. Qed.

(* ---- the theorems for the tables of the current tree ---- *)
Theorem check_iff_wt_gen G items :
  check_file gen_optypes G gen_tctable items = TOk <-> wt_file G items.
Proof.
  apply check_iff_wt_tables;
    [apply gen_optypes_ok | apply gen_dispatch_complete | apply gen_ct_enum_ok | apply gen_call_zip_ok].
Qed.

Theorem compute_ty_agrees_gen G e t :
  check_expr gen_optypes G e = Ok t -> compute_ty gen_optypes G e = Ok t.
Proof.
  apply compute_ty_agrees_tables;
    [apply gen_optypes_ok | apply gen_ct_enum_ok | apply gen_call_zip_ok].
Qed.

Lemma eguard_gen G e : eguard gen_optypes G e = true.
Proof. apply eguard_all; [apply gen_ct_enum_ok | apply gen_call_zip_ok]. Qed.

Theorem static_is_dynamic_gen' G libm regs locals cs diff e t v :
  env_ok G regs locals cs -> enums_ok G cs e ->
  check_expr gen_optypes G e = Ok (Value t) ->
  eval gen_optable libm regs locals cs diff (to_expr e) = Ok v ->
  type_of_value v = t /\ compute_ty gen_optypes G e = Ok (Value t).
Proof.
  intros HE Hen Hc Hv. split.
  - eapply static_is_dynamic_gen; eauto.
    pose proof (optypes_ok_pointwise _ gen_optypes_ok) as [? ? ? ? ? ? ?].
    apply (check_expr_iff gen_optypes G); auto. apply eguard_gen.
  - apply compute_ty_agrees_gen; auto.
Qed.

(* the former counter-examples: ill-typed ones are rejected, the well-typed one is accepted *)
Lemma former_witnesses :
  check_file gen_optypes G0 gen_tctable w_block = TErr /\
  check_file gen_optypes G0 gen_tctable w_interrupt = TErr /\
  check_file gen_optypes G0 gen_tctable w_reltime = TErr /\
  check_file gen_optypes G0 gen_tctable w_const = TErr /\
  check_file gen_optypes G0 gen_tctable w_pad_bad = TErr /\
  check_file gen_optypes G0 gen_tctable w_pad_good = TOk /\
  compute_ty gen_optypes G0 w_enum = check_expr gen_optypes G0 w_enum.
Proof. vm_compute. repeat split. Qed.

(* non-vacuity: a program with nested loops, conditionals, declarations, calls and casts that
   satisfies the guard and is well-typed; the guard fails exactly on the witnesses above *)
Definition prog_ok : list stmt :=
  [SConst KwInt [(c2, TBin (TLitI 1) Add (TLitI 2))];
   SFunc (Value TInt) (Some [SReturn (Some (TBin (TVar x0) Mul (TVar c2)))]);
   SScript [SDecl KwInt [(x0, Some (TLitI 3))];
            SWhile (TBin (TVar x0) Lt (TLitI 10))
              [STimes (Some x0) (TUn CastI (TVar x1))
                 [SCondChain [(TBin (TVar x1) Gt (TLitF ONE_HALF),
                               [SAssign x1 AO_Mul (TUn CastF (TVar (Var (Some SgInt) (VReg 20000))));
                                SExpr (TCall (FIns 900) [(PK_mask, TLitI 1)] [TTern (TVar x0) (TLitI 1) (TDiff (TLitI 2) [None; Some (TVar c2)])])])]
                             (Some [SLoop [SJump; SLabel; SAbsTime]])]];
            SBlock [SInterrupt (TLitI 2); SRelTime (TBin (TLitI 2) Add (TLitI 3))];
            SCondJump (TXcr x0)]].

Lemma prog_ok_wt : wt_file G0 prog_ok.
Proof. apply wt_by_ref. vm_compute. reflexivity. Qed.
Lemma prog_ok_checks : check_file gen_optypes G0 gen_tctable prog_ok = TOk.
Proof. apply check_iff_wt_gen. apply prog_ok_wt. Qed.

Definition e_dyn : texpr := TBin (TUn CastF (TVar (Var (Some SgInt) (VReg 10004)))) Add (TVar x1).
Lemma e_dyn_instance :
  has_type G0 e_dyn (Value TFloat) /\
  eval gen_optable (fun _ _ => 0) (fun _ => VFloat ONE_HALF) (fun _ => VFloat ONE_HALF) (fun _ => None) 0
       (to_expr e_dyn) = Ok (VFloat 1075838976).
Proof.
  split; [| vm_compute; reflexivity].
  apply (proj1 (reference_expr_typer G0 _ _)). vm_compute. reflexivity.
Qed.
