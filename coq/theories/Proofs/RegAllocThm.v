(* Proofs/RegAllocThm.v -- consequences of the allocator invariant: what a RegAlloc picks, the shape
   of the result, closed failure, completeness of the explicitly-used-register scan. *)
From TV Require Import Base.I32 Model.RegAlloc Proofs.RegAllocBase Proofs.RegAlloc.
Open Scope Z_scope.

(* ---------------------------------------------------------------------------------------- *)
(* the nested fixpoints as standalone functions *)

Fixpoint subst_cases (L : list (N * Z)) (l : list (option larg)) : outcome (list (option larg)) :=
  match l with
  | [] => Ok []
  | None :: t => do t' <- subst_cases L t; Ok (None :: t')
  | Some x :: t => do x' <- subst_arg L x; do t' <- subst_cases L t; Ok (Some x' :: t')
  end.

Lemma subst_arg_switch L cs :
  subst_arg L (DiffSwitch cs) = (do cs' <- subst_cases L cs; Ok (DiffSwitch cs')).
Proof.
  simpl. f_equal. induction cs as [|[x|] t IH]; simpl; try reflexivity; now rewrite IH.
Qed.

Fixpoint deep_cases (l : list (option larg)) : list Z :=
  match l with
  | [] => []
  | None :: t => deep_cases t
  | Some x :: t => explicit_arg_deep x ++ deep_cases t
  end.

Lemma explicit_arg_deep_switch cs : explicit_arg_deep (DiffSwitch cs) = deep_cases cs.
Proof. simpl. induction cs as [|[x|] t IH]; simpl; try reflexivity; now rewrite IH. Qed.

Fixpoint cases_refine (l l' : list (option larg)) : bool :=
  match l, l' with
  | [], [] => true
  | None :: t, None :: t' => cases_refine t t'
  | Some x :: t, Some x' :: t' => arg_refines x x' && cases_refine t t'
  | _, _ => false
  end.

Lemma arg_refines_switch cs cs' : arg_refines (DiffSwitch cs) (DiffSwitch cs') = cases_refine cs cs'.
Proof.
  simpl. revert cs'. induction cs as [|[x|] t IH]; intros [|[x'|] t']; simpl; try reflexivity;
    now rewrite IH.
Qed.

Fixpoint cases_no_local (l : list (option larg)) : bool :=
  match l with
  | [] => true
  | None :: t => cases_no_local t
  | Some x :: t => arg_no_local x && cases_no_local t
  end.

Lemma arg_no_local_switch cs : arg_no_local (DiffSwitch cs) = cases_no_local cs.
Proof. simpl. induction cs as [|[x|] t IH]; simpl; try reflexivity; now rewrite IH. Qed.

Lemma ty_eqb_refl t : ty_eqb t t = true.
Proof. now destruct t. Qed.

Lemma sarg_eqb_refl s : sarg_eqb s s = true.
Proof. destruct s; simpl; [now rewrite Z.eqb_refl, ty_eqb_refl | apply Z.eqb_refl]. Qed.

(* ---------------------------------------------------------------------------------------- *)
(* substitution *)

Lemma subst_arg_spec L a : forall a', subst_arg L a = Ok a' ->
  arg_refines a a' = true /\ arg_no_local a' = true /\
  (forall r, arg_mentions r a' -> arg_mentions r a \/ exists d, In (d, r) L).
Proof.
  induction a as [s|d sty|cs IH|l|l] using larg_ind2; intros a' H.
  - simpl in H. inversion H; subst. simpl. rewrite sarg_eqb_refl. auto.
  - simpl in H. destruct (lookup d L) as [r|] eqn:El; [|discriminate].
    destruct sty; simpl in H; try discriminate; inversion H; subst; simpl;
      (split; [reflexivity|]; split; [reflexivity|]);
      intros r0 Hm; inversion Hm; subst; right; exists d; now apply lookup_In.
  - rewrite subst_arg_switch in H.
    destruct (subst_cases L cs) as [cs'| | |] eqn:Ec; simpl in H; try discriminate.
    inversion H; subst a'; clear H.
    rewrite arg_refines_switch, arg_no_local_switch.
    assert (Hall : cases_refine cs cs' = true /\ cases_no_local cs' = true /\
                   (forall r x', In (Some x') cs' -> arg_mentions r x' ->
                      (exists x, In (Some x) cs /\ arg_mentions r x) \/ exists d, In (d, r) L)).
    { revert cs' Ec. induction IH as [|[x|] t Hx Ht IHt]; intros cs' Ec; simpl in Ec.
      - inversion Ec; subst. simpl. repeat split; auto. intros r x' [].
      - destruct (subst_arg L x) as [x1| | |] eqn:Ex; simpl in Ec; try discriminate.
        destruct (subst_cases L t) as [t1| | |] eqn:Et; simpl in Ec; try discriminate.
        inversion Ec; subst cs'; clear Ec.
        destruct (Hx x1 eq_refl) as (R1 & N1 & M1).
        destruct (IHt t1 eq_refl) as (R2 & N2 & M2).
        simpl. rewrite R1, R2, N1, N2. repeat split; auto.
        intros r x' [Hin|Hin] Hm.
        + inversion Hin; subst x'. destruct (M1 r Hm) as [H|H]; [left; exists x; split; [now left|assumption] | now right].
        + destruct (M2 r x' Hin Hm) as [[x0 [H1 H2]]|H]; [left; exists x0; split; [now right|assumption] | now right].
      - destruct (subst_cases L t) as [t1| | |] eqn:Et; simpl in Ec; try discriminate.
        inversion Ec; subst cs'; clear Ec.
        destruct (IHt t1 eq_refl) as (R2 & N2 & M2).
        simpl. repeat split; auto.
        intros r x' [Hin|Hin] Hm; [discriminate|].
        destruct (M2 r x' Hin Hm) as [[x0 [H1 H2]]|H]; [left; exists x0; split; [now right|assumption] | now right]. }
    destruct Hall as (R & Nl & M). repeat split; auto.
    intros r Hm. inversion Hm; subst.
    destruct (M r a H0 H1) as [[x [H2 H3]]|H2]; [left; econstructor; eauto | now right].
  - simpl in H. inversion H; subst. simpl. rewrite N.eqb_refl. repeat split; auto;
      try (intros r Hm; inversion Hm).
  - simpl in H. inversion H; subst. simpl. rewrite N.eqb_refl. repeat split; auto;
      try (intros r Hm; inversion Hm).
Qed.

Lemma subst_args_spec L : forall l l', subst_args L l = Ok l' ->
  forall2b arg_refines l l' = true /\ forallb arg_no_local l' = true /\
  (forall r a', In a' l' -> arg_mentions r a' ->
     (exists a, In a l /\ arg_mentions r a) \/ exists d, In (d, r) L).
Proof.
  induction l as [|a t IH]; intros l' H; simpl in H.
  - inversion H; subst. simpl. repeat split; auto. intros r a' [].
  - destruct (subst_arg L a) as [a1| | |] eqn:Ea; simpl in H; try discriminate.
    destruct (subst_args L t) as [t1| | |] eqn:Et; simpl in H; try discriminate.
    inversion H; subst l'; clear H.
    destruct (subst_arg_spec L a a1 Ea) as (R1 & N1 & M1).
    destruct (IH t1 eq_refl) as (R2 & N2 & M2).
    simpl. rewrite R1, R2, N1, N2. repeat split; auto.
    intros r a' [Hin|Hin] Hm.
    + subst a'. destruct (M1 r Hm) as [H|H]; [left; exists a; split; [now left|assumption] | now right].
    + destruct (M2 r a' Hin Hm) as [[x0 [H1 H2]]|H]; [left; exists x0; split; [now right|assumption] | now right].
Qed.

(* ---------------------------------------------------------------------------------------- *)
(* what a step / a run produces *)

Definition stmt_regs_from (L : list (N * Z)) (x x' : lstmt) : Prop :=
  forall r, mentioned [x'] r -> mentioned [x] r \/ exists d, In (d, r) L.

Lemma step_out c K s x s' x' : step c K s x = Ok (s', x') ->
  stmt_refines x x' = true /\ stmt_no_local x' = true /\ stmt_regs_from (locals s) x x'.
Proof.
  intros H. destruct x as [op time diff args|l|d|d]; simpl in H.
  - destruct args as [l|].
    + destruct (subst_args (locals s) l) as [l'| | |] eqn:El; simpl in H; try discriminate.
      inversion H; subst s' x'; clear H.
      destruct (subst_args_spec _ _ _ El) as (R & Nl & M).
      simpl. rewrite !Z.eqb_refl, R, Nl. repeat split; auto.
      intros r (op0 & time0 & diff0 & args0 & a & [Hin|[]] & Ha & Hm).
      inversion Hin; subst.
      destruct (M r a Ha Hm) as [[a0 [H1 H2]]|H]; [|now right].
      left. exists op0, time0, diff0, l, a0. split; [now left | auto].
    + inversion H; subst. simpl. rewrite !Z.eqb_refl. repeat split; auto.
      intros r (op0 & time0 & diff0 & args0 & a & [Hin|[]] & _). discriminate.
  - inversion H; subst. simpl. rewrite N.eqb_refl. repeat split; auto.
    intros r (op0 & time0 & diff0 & args0 & a & [Hin|[]] & _). discriminate.
  - destruct (tyof c d); [|discriminate]. destruct (getp (free s) t); [discriminate|].
    destruct (memN d (map fst (locals s))); [discriminate|]. destruct (memZ z K); [discriminate|].
    inversion H; subst. simpl. rewrite N.eqb_refl. repeat split; auto.
    intros r (op0 & time0 & diff0 & args0 & a & [Hin|[]] & _). discriminate.
  - destruct (tyof c d); [|discriminate]. destruct (lookup d (locals s)); [|discriminate].
    destruct (memZ z (implicit s)); [|discriminate].
    inversion H; subst. simpl. rewrite N.eqb_refl. repeat split; auto.
    intros r (op0 & time0 & diff0 & args0 & a & [Hin|[]] & _). discriminate.
Qed.

Lemma mentioned_cons x l r : mentioned (x :: l) r <-> mentioned [x] r \/ mentioned l r.
Proof.
  unfold mentioned. split.
  - intros (op & time & diff & args & a & [Hin|Hin] & Ha & Hm).
    + left. exists op, time, diff, args, a. split; [now left | auto].
    + right. exists op, time, diff, args, a. auto.
  - intros [(op & time & diff & args & a & [Hin|[]] & Ha & Hm)|(op & time & diff & args & a & Hin & Ha & Hm)];
      exists op, time, diff, args, a; (split; [|auto]); [now left | now right].
Qed.

Lemma mentioned_app l1 l2 r : mentioned (l1 ++ l2) r <-> mentioned l1 r \/ mentioned l2 r.
Proof.
  induction l1 as [|x t IH]; simpl.
  - split; [now right|]. intros [(op & time & diff & args & a & [] & _)|H]; assumption.
  - rewrite mentioned_cons, IH, (mentioned_cons x t). tauto.
Qed.

Section Result.
  Variable c : cfg.
  Variable code : list lstmt.
  Hypothesis pools_nodup : NoDup (general c TInt ++ general c TFloat ++ general c TString).
  Hypothesis params_nodup : NoDup (param_regs c).

  Let K := clash c (explicit c code).

  Definition scratch_ok (r : Z) : Prop :=
    exists t, In r (general c t) /\ ~ In r (explicit c code) /\ ~ In r (param_regs c).

  Lemma run_out : forall l s s' o,
    Inv c code s -> run c K s l = Ok (s', o) ->
    length o = length l /\ forall2b stmt_refines l o = true /\ forallb stmt_no_local o = true /\
    (forall r, mentioned o r -> mentioned l r \/ In r (named_param_regs c) \/ scratch_ok r).
  Proof.
    induction l as [|x t IH]; intros s s' o HI Hr; simpl in Hr.
    - inversion Hr; subst. simpl. repeat split; auto;
        try (intros r (op & time & diff & args & a & [] & _)).
    - destruct (step c K s x) as [[s1 x1]| | |] eqn:Es; simpl in Hr; try discriminate.
      destruct (run c K s1 t) as [[s2 o2]| | |] eqn:Er; simpl in Hr; try discriminate.
      inversion Hr; subst s' o; clear Hr.
      destruct (step_out _ _ _ _ _ _ Es) as (R1 & N1 & M1).
      assert (HI1 : Inv c code s1) by (eapply step_inv; eauto).
      destruct (IH s1 s2 o2 HI1 Er) as (L2 & R2 & N2 & M2).
      simpl. rewrite L2, R1, R2, N1, N2. repeat split; auto.
      intros r Hm. apply mentioned_cons in Hm. destruct Hm as [Hm|Hm].
      + destruct (M1 r Hm) as [H|[d Hd]].
        * left. apply mentioned_cons. now left.
        * destruct HI as (_ & _ & Hl & _). destruct (Hl d r Hd) as [H|[t0 [_ Hg]]].
          -- right; left. eapply named_NP; eauto.
          -- right; right. exists t0. exact Hg.
      + destruct (M2 r Hm) as [H|H]; [|now right].
        left. apply mentioned_cons. now right.
  Qed.

  Theorem alloc_result s code' :
    assign_registers c code = Ok (s, code') ->
    length code' = length code /\
    forall2b stmt_refines code code' = true /\
    forallb stmt_no_local code' = true /\
    (forall r, mentioned code' r ->
       mentioned code r \/ In r (named_param_regs c) \/ scratch_ok r).
  Proof.
    unfold assign_registers. fold K.
    destruct (run c K (init c code) code) as [[s1 o1]| | |] eqn:Er; simpl; try discriminate.
    destruct (anti_sub s1 && used_scratch s1); [discriminate|].
    intros H. inversion H; subst. eapply run_out; [|exact Er].
    apply init_inv; assumption.
  Qed.

  (* what the allocator picks at a RegAlloc, in any state it can reach *)
  Theorem alloc_pick_ok s d s' x' :
    reachable c code s ->
    step c K s (RegAlloc d) = Ok (s', x') ->
    exists r t,
      locals s' = (d, r) :: locals s /\
      tyof c d = Some t /\ In r (general c t) /\
      ~ In r (explicit c code) /\
      ~ In r (param_regs c) /\
      ~ In r (map snd (locals s)).
  Proof.
    intros Hre Hs. pose proof (alloc_inv c code pools_nodup params_nodup s Hre) as HI.
    destruct (step_alloc_pick c code s d s' x' HI Hs)
      as (r & t & rest & Et & _ & Hl & _ & (G1 & G2 & G3) & _ & Hn & _).
    exists r, t. auto 10.
  Qed.
End Result.

(* ---------------------------------------------------------------------------------------- *)
(* closed failure *)

Lemma run_flags c K : forall l s s' o, run c K s l = Ok (s', o) ->
  used_scratch s' = used_scratch s || existsb is_alloc l /\
  anti_sub s' = anti_sub s || existsb (is_anti c ThisFunction) l /\
  anti_file s' = anti_file s || existsb (is_anti c WaterElf) l.
Proof.
  induction l as [|x t IH]; intros s s' o Hr; simpl in Hr.
  - inversion Hr; subst. simpl. now rewrite !orb_false_r.
  - destruct (step c K s x) as [[s1 x1]| | |] eqn:Es; simpl in Hr; try discriminate.
    destruct (run c K s1 t) as [[s2 o2]| | |] eqn:Er; simpl in Hr; try discriminate.
    inversion Hr; subst s' o; clear Hr.
    destruct (IH _ _ _ Er) as (U & A & F). rewrite U, A, F. clear U A F IH Er.
    assert (H1 : used_scratch s1 = used_scratch s || is_alloc x /\
                 anti_sub s1 = anti_sub s || is_anti c ThisFunction x /\
                 anti_file s1 = anti_file s || is_anti c WaterElf x).
    { destruct x as [op time diff args|l|d|d]; simpl in Es.
      - assert (Hs1 : s1 = match anti c op with
                      | None => s
                      | Some ThisFunction =>
                          {| locals := locals s; implicit := implicit s; free := free s;
                             used_scratch := used_scratch s; anti_sub := true; anti_file := anti_file s |}
                      | Some WaterElf =>
                          {| locals := locals s; implicit := implicit s; free := free s;
                             used_scratch := used_scratch s; anti_sub := anti_sub s; anti_file := true |}
                      end).
        { destruct args as [l|].
          - destruct (subst_args (locals s) l); simpl in Es; try discriminate. now inversion Es.
          - now inversion Es. }
        subst s1. simpl. destruct (anti c op) as [[|]|]; simpl; now rewrite ?orb_false_r, ?orb_true_r.
      - inversion Es; subst. simpl. now rewrite !orb_false_r.
      - destruct (tyof c d); [|discriminate]. destruct (getp (free s) t0); [discriminate|].
        destruct (memN d (map fst (locals s))); [discriminate|]. destruct (memZ z K); [discriminate|].
        inversion Es; subst. simpl. now rewrite !orb_false_r, orb_true_r.
      - destruct (tyof c d); [|discriminate]. destruct (lookup d (locals s)); [|discriminate].
        destruct (memZ z (implicit s)); [|discriminate].
        inversion Es; subst. simpl. now rewrite !orb_false_r. }
    destruct H1 as (U & A & F). rewrite U, A, F. simpl. now rewrite !orb_assoc.
Qed.

Lemma init_flags c code :
  used_scratch (init c code) = false /\ anti_sub (init c code) = false /\ anti_file (init c code) = false.
Proof. unfold init. simpl. auto. Qed.

(* a successful allocation means: no scratch register was needed, or no scratch-forbidding
   instruction is present; the final state carries exactly the two facts the file-level check uses *)
Theorem alloc_ok_flags c code s code' :
  assign_registers c code = Ok (s, code') ->
  used_scratch s = existsb is_alloc code /\
  anti_file s = existsb (is_anti c WaterElf) code /\
  existsb is_alloc code && existsb (is_anti c ThisFunction) code = false.
Proof.
  unfold assign_registers.
  destruct (run c (clash c (explicit c code)) (init c code) code) as [[s1 o1]| | |] eqn:Er; simpl; try discriminate.
  destruct (run_flags _ _ _ _ _ _ Er) as (U & A & F).
  destruct (init_flags c code) as (U0 & A0 & F0). rewrite U0 in U. rewrite A0 in A. rewrite F0 in F.
  simpl in U, A, F.
  destruct (anti_sub s1 && used_scratch s1) eqn:Eb; [discriminate|].
  intros H. inversion H; subst. rewrite <- U, <- A, <- F. rewrite andb_comm. auto.
Qed.

Theorem alloc_anti_fails c code :
  existsb is_alloc code = true -> existsb (is_anti c ThisFunction) code = true ->
  match assign_registers c code with Ok _ => False | _ => True end.
Proof.
  intros H1 H2. destruct (assign_registers c code) as [[s o]| | |] eqn:E; auto.
  apply alloc_ok_flags in E. destruct E as (_ & _ & E). rewrite H1, H2 in E. discriminate.
Qed.

(* pool exhausted at a RegAlloc => "script too complex" (an error; never a reused register) *)
Theorem alloc_exhausted_fails c c1 d c2 s o t :
  let code := c1 ++ RegAlloc d :: c2 in
  run c (clash c (explicit c code)) (init c code) c1 = Ok (s, o) ->
  tyof c d = Some t -> getp (free s) t = [] ->
  assign_registers c code = Err E_TOO_COMPLEX.
Proof.
  intros code Hr Et Ep. unfold assign_registers. unfold code at 3. rewrite run_app.
  fold code. rewrite Hr. simpl. rewrite Et, Ep. reflexivity.
Qed.

(* file level *)
Lemma file_flags_spec (rs : list (outcome (st * list lstmt))) : forall a b,
  fold_left (fun (acc : bool * bool) r => match r with
                          | Ok (s, _) => (fst acc || anti_file s, snd acc || used_scratch s)
                          | _ => acc
                          end) rs (a, b) =
  (a || existsb (fun r => match r with Ok (s, _) => anti_file s | _ => false end) rs,
   b || existsb (fun r => match r with Ok (s, _) => used_scratch s | _ => false end) rs).
Proof.
  induction rs as [|r t IH]; intros a b; simpl.
  - now rewrite !orb_false_r.
  - destruct r as [[s o]| | |]; simpl; rewrite IH; simpl; now rewrite ?orb_assoc.
Qed.

Theorem file_fails_closed (cs : list (cfg * list lstmt)) outs :
  assign_file cs = Ok outs ->
  existsb (fun p => existsb is_alloc (snd p)) cs &&
  existsb (fun p => existsb (is_anti (fst p) WaterElf) (snd p)) cs = false /\
  forall p, In p cs -> existsb is_alloc (snd p) && existsb (is_anti (fst p) ThisFunction) (snd p) = false.
Proof.
  unfold assign_file.
  set (rs := map (fun p => assign_registers (fst p) (snd p)) cs).
  destruct (existsb (fun r => is_panic r) rs); [discriminate|].
  destruct (all_ok rs) eqn:Eall; simpl; [|discriminate].
  unfold file_flags. rewrite file_flags_spec. simpl.
  destruct (existsb (fun r => match r with Ok (s, _) => anti_file s | _ => false end) rs &&
            existsb (fun r => match r with Ok (s, _) => used_scratch s | _ => false end) rs) eqn:Ef;
    [discriminate|].
  intros _.
  assert (Hok : forall p, In p cs -> exists s o, assign_registers (fst p) (snd p) = Ok (s, o)).
  { intros p Hp. unfold all_ok in Eall. rewrite forallb_forall in Eall.
    specialize (Eall (assign_registers (fst p) (snd p))).
    destruct (assign_registers (fst p) (snd p)) as [[s o]| | |] eqn:E.
    - eauto.
    - discriminate Eall. unfold rs. apply in_map_iff. exists p. auto.
    - discriminate Eall. unfold rs. apply in_map_iff. exists p. auto.
    - discriminate Eall. unfold rs. apply in_map_iff. exists p. auto. }
  split.
  - assert (E1 : existsb (fun r => match r with Ok (s, _) => anti_file s | _ => false end) rs =
                 existsb (fun p => existsb (is_anti (fst p) WaterElf) (snd p)) cs).
    { unfold rs. clear -Hok. induction cs as [|p t IH]; simpl; [reflexivity|].
      rewrite IH by (intros q Hq; apply Hok; now right).
      destruct (Hok p (or_introl eq_refl)) as (s & o & E). rewrite E.
      apply alloc_ok_flags in E. destruct E as (_ & E & _). now rewrite E. }
    assert (E2 : existsb (fun r => match r with Ok (s, _) => used_scratch s | _ => false end) rs =
                 existsb (fun p => existsb is_alloc (snd p)) cs).
    { unfold rs. clear -Hok. induction cs as [|p t IH]; simpl; [reflexivity|].
      rewrite IH by (intros q Hq; apply Hok; now right).
      destruct (Hok p (or_introl eq_refl)) as (s & o & E). rewrite E.
      apply alloc_ok_flags in E. destruct E as (E & _ & _). now rewrite E. }
    rewrite <- E1, <- E2. now rewrite andb_comm.
  - intros p Hp. destruct (Hok p Hp) as (s & o & E). apply alloc_ok_flags in E. tauto.
Qed.

(* ---------------------------------------------------------------------------------------- *)
(* the scan for explicitly used registers *)

Lemma explicit_arg_deep_spec r a : In r (explicit_arg_deep a) <-> arg_mentions r a.
Proof.
  induction a as [s|d sty|cs IH|l|l] using larg_ind2.
  - destruct s as [r0 sty|v]; simpl; split.
    + intros [->|[]]. constructor.
    + intros H. inversion H; subst. now left.
    + intros [].
    + intros H. inversion H.
  - simpl. split; [intros [] | intros H; inversion H].
  - rewrite explicit_arg_deep_switch. split.
    + intros H. induction IH as [|[x|] t Hx Ht IHt]; simpl in H.
      * destruct H.
      * apply in_app_or in H. destruct H as [H|H].
        -- apply Hx in H. econstructor; [now left | exact H].
        -- specialize (IHt H). inversion IHt; subst. econstructor; [right; eassumption | assumption].
      * specialize (IHt H). inversion IHt; subst. econstructor; [right; eassumption | assumption].
    + intros H. inversion H as [|cs0 a Hin Hm]; subst. clear H.
      induction IH as [|[x|] t Hx Ht IHt]; simpl.
      * destruct Hin.
      * apply in_or_app. destruct Hin as [Hin|Hin].
        -- inversion Hin; subst. left. now apply Hx.
        -- right. now apply IHt.
      * destruct Hin as [Hin|Hin]; [discriminate|]. now apply IHt.
  - simpl. split; [intros [] | intros H; inversion H].
  - simpl. split; [intros [] | intros H; inversion H].
Qed.

Lemma explicit_regs_spec (f : larg -> list Z) (Q : Z -> larg -> Prop) :
  (forall r a, In r (f a) <-> Q r a) ->
  forall code r, In r (flat_map (explicit_stmt f) code) <->
    exists op time diff args a, In (Instr op time diff (Known args)) code /\ In a args /\ Q r a.
Proof.
  intros Hf code r. rewrite in_flat_map. split.
  - intros (x & Hx & Hr). destruct x as [op time diff [args|]|l|d|d]; simpl in Hr; try contradiction.
    apply in_flat_map in Hr. destruct Hr as (a & Ha & Hr). apply Hf in Hr.
    exists op, time, diff, args, a. auto.
  - intros (op & time & diff & args & a & Hin & Ha & Hq).
    exists (Instr op time diff (Known args)). split; [assumption|].
    simpl. apply in_flat_map. exists a. split; [assumption | now apply Hf].
Qed.

(* the fixed scan finds exactly the mentioned registers *)
Theorem explicit_regs_deep_complete code r : mentioned code r <-> In r (explicit_regs_deep code).
Proof.
  unfold explicit_regs_deep, mentioned. symmetry.
  apply (explicit_regs_spec explicit_arg_deep arg_mentions). intros; apply explicit_arg_deep_spec.
Qed.

Definition top_mentions (r : Z) (a : larg) : Prop := exists sty, a = Raw (SReg r sty).

Lemma explicit_arg_top_spec r a : In r (explicit_arg_top a) <-> top_mentions r a.
Proof.
  unfold top_mentions. destruct a as [[r0 sty|v]|d sty|cs|l|l]; simpl; split; intros H;
    try contradiction; try (destruct H as [sty0 H]; discriminate).
  - destruct H as [->|[]]. eauto.
  - destruct H as [sty0 H]. inversion H. now left.
Qed.

(* the scan of the pinned source is sound but only sees top-level arguments *)
Theorem explicit_regs_top_sound code r : In r (explicit_regs_top code) -> mentioned code r.
Proof.
  unfold explicit_regs_top. intros H.
  apply (explicit_regs_spec explicit_arg_top top_mentions explicit_arg_top_spec) in H.
  destruct H as (op & time & diff & args & a & Hin & Ha & [sty ->]).
  exists op, time, diff, args, (Raw (SReg r sty)). repeat split; auto. constructor.
Qed.

Theorem explicit_regs_top_complete_switch_free code r :
  switch_reg_free code = true -> mentioned code r -> In r (explicit_regs_top code).
Proof.
  intros Hsf (op & time & diff & args & a & Hin & Ha & Hm).
  unfold explicit_regs_top.
  apply (explicit_regs_spec explicit_arg_top top_mentions explicit_arg_top_spec).
  exists op, time, diff, args, a. repeat split; auto.
  unfold switch_reg_free in Hsf. rewrite forallb_forall in Hsf. specialize (Hsf _ Hin).
  simpl in Hsf. rewrite forallb_forall in Hsf. specialize (Hsf _ Ha).
  apply negb_true_iff in Hsf.
  inversion Hm as [sty|cs a0 Hin0 Hm0]; subst.
  - exists sty. reflexivity.
  - exfalso. unfold switch_has_reg in Hsf.
    assert (In r (explicit_arg_deep (DiffSwitch cs))) as Hd
        by (apply explicit_arg_deep_spec; exact Hm).
    destruct (explicit_arg_deep (DiffSwitch cs)); [destruct Hd | discriminate].
Qed.

(* selecting the scan *)
Lemma explicit_sel_complete deep code r :
  deep = true \/ switch_reg_free code = true ->
  mentioned code r -> In r (explicit_regs_sel deep code).
Proof.
  intros [->|H] Hm; simpl.
  - now apply explicit_regs_deep_complete.
  - destruct deep; simpl.
    + now apply explicit_regs_deep_complete.
    + now apply explicit_regs_top_complete_switch_free.
Qed.
