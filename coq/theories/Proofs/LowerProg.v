(* Proofs/LowerProg.v -- whole bodies: the lowered instruction stream of a body behaves like the source
   body (Model/LowerProg.v): same memory, script time, real time and instruction log, through jumps in both
   directions.  Composition of the per-statement theorems (LowerSound, LowerJumps) over [lower_body]. *)
From TV Require Import Base.I32 Base.F32 Model.Ops Model.Expr Model.Lower Model.LowerSem Model.LowerProg
  Proofs.LowerSound Proofs.LowerShape Proofs.LowerJumps Proofs.LowerStatic.
Open Scope Z_scope.

(* ---------------- pst bookkeeping ---------------- *)
Lemma set_mem_set_mem st m m' : set_mem (set_mem st m) m' = set_mem st m'.
Proof. reflexivity. Qed.
Lemma set_mem_id st : set_mem st (p_mem st) = st.
Proof. destruct st; reflexivity. Qed.
Lemma wait_set_mem t st m : wait t (set_mem st m) = set_mem (wait t st) m.
Proof. unfold wait, set_mem. cbn [p_time p_mem p_real p_log]. destruct (p_time st <? t); reflexivity. Qed.
Lemma wait_at t st : p_time st = t -> wait t st = st.
Proof. intros H. unfold wait. rewrite H, Z.ltb_irrefl. reflexivity. Qed.
Lemma wait_time t st : p_time st <= t -> p_time (wait t st) = t.
Proof. intros H. unfold wait. destruct (Z.ltb_spec (p_time st) t); cbn [p_time]; lia. Qed.
Lemma wait_mem t st : p_mem (wait t st) = p_mem st.
Proof. unfold wait. destruct (p_time st <? t); reflexivity. Qed.
Lemma wait_idem t st : wait t (wait t st) = wait t st.
Proof. unfold wait at 1. destruct (Z.ltb_spec (p_time (wait t st)) t) as [H|H]; [|reflexivity].
  exfalso. unfold wait in H. destruct (Z.ltb_spec (p_time st) t); cbn [p_time] in H; lia. Qed.
Lemma arrive_at t st : p_time st = t -> arrive t None st = st.
Proof. intros H. unfold arrive. destruct st as [m tm r lg]. cbn [p_time] in H. subst tm. unfold set_time. cbn [p_mem p_real p_log].
  apply wait_at. reflexivity. Qed.

(* ---------------- run_fwd, block by block ---------------- *)
Section Blk.
  Variable T : optable.
  Variable libm : unop -> Z -> Z.
  Variable lty : nat -> ty.
  Notation run_fwd := (run_fwd T libm lty).
  Notation exec_step := (exec_step T libm).

  (* [run_fwd] that stops at the end of the block and returns mode, memory and compare register *)
  Fixpoint run_blk (code : list lstmt) (md : mode) (m : mem) (cmp : option (value * value))
    : outcome (mode * mem * option (value * value)) :=
    match code with
    | [] => Ok (md, m, cmp)
    | LAlloc d t :: rest => run_blk rest md (update m (VLoc d) (default_of t)) cmp
    | LFree d :: rest => run_blk rest md (update m (VLoc d) (default_of (lty d))) cmp
    | LLabel _ l' :: rest =>
        match md with
        | Seek l t => if label_eqb l l' then run_blk rest Exec m cmp else run_blk rest md m cmp
        | Exec => run_blk rest Exec m cmp
        end
    | LInstr _ _ i :: rest =>
        match md with
        | Seek _ _ => run_blk rest md m cmp
        | Exec =>
            match exec_step i m cmp with
            | Ok (m', cmp', None) => run_blk rest Exec m' cmp'
            | Ok (m', cmp', Some (l, t)) => run_blk rest (Seek l t) m' cmp'
            | Err e => Err e | Panic p => Panic p | OutOfFuel => OutOfFuel
            end
        end
    end.

  Definition fin (md : mode) (m : mem) : fres := match md with Exec => RFall m | Seek l t => RJump l t m end.

  Lemma fin_inj md m md' m' : fin md m = fin md' m' -> md = md' /\ m = m'.
  Proof. destruct md, md'; cbn; intros H; inversion H; auto. Qed.

  Lemma run_fwd_app a : forall b md m cmp,
    run_fwd (a ++ b) md m cmp =
    match run_blk a md m cmp with
    | Ok (md', m', c') => run_fwd b md' m' c'
    | Err e => Err e | Panic p => Panic p | OutOfFuel => OutOfFuel
    end.
  Proof.
    induction a as [|x a IH]; intros b md m cmp; [reflexivity|].
    destruct x as [t k i|t l'|d t|d]; cbn [app LowerSem.run_fwd run_blk].
    - destruct md; [|apply IH].
      destruct (exec_step i m cmp) as [[[m' cmp'] [[l jt]|]]| | |]; try reflexivity; apply IH.
    - destruct md; [apply IH|]. destruct (label_eqb l l'); apply IH.
    - apply IH.
    - apply IH.
  Qed.

  Lemma cps_blk code m md' m' :
    (forall rest cmp, exists cmp', run_fwd (code ++ rest) Exec m cmp = run_fwd rest md' m' cmp') ->
    forall cmp, exists c', run_blk code Exec m cmp = Ok (md', m', c').
  Proof.
    intros H cmp. destruct (H [] cmp) as [cmp' E]. rewrite run_fwd_app in E.
    destruct (run_blk code Exec m cmp) as [[[md1 m1] c1]| | |]; cbn [LowerSem.run_fwd] in E; try discriminate.
    inversion E as [E']. apply (fin_inj md1 m1 md' m') in E'. destruct E'; subst. eauto.
  Qed.
End Blk.

(* ---------------- the lowered stream, block by block ---------------- *)
Section WBlk.
  Variable T : optable.
  Variable libm : unop -> Z -> Z.
  Variable lty : nat -> ty.
  Variable dsel : option nat.
  Notation wblk := (wblk T libm lty dsel).
  Notation run_blk := (run_blk T libm lty).
  Notation exec_step := (exec_step T libm).
  Notation seek_mem := (seek_mem lty).

  Lemma wblk_app a : forall b md st cmp,
    wblk (a ++ b) md st cmp =
    match wblk a md st cmp with
    | Ok (md', st', c') => wblk b md' st' c'
    | Err e => Err e | Panic p => Panic p | OutOfFuel => OutOfFuel
    end.
  Proof.
    induction a as [|x a IH]; intros b md st cmp; [reflexivity|].
    destruct x as [t k i|t l'|d t|d]; cbn [app LowerProg.wblk].
    - destruct md; [|apply IH]. destruct (negb (runs dsel k)); [apply IH|].
      destruct i; cbv iota;
        try (destruct (exec_step _ _ cmp) as [[[m' cmp'] [[l1 jt1]|]]| | |]; cbv iota; try reflexivity; apply IH).
      match goal with |- context [mapM ?f ?l] => destruct (mapM f l) end; try reflexivity. apply IH.
    - destruct md; [apply IH|]. destruct (label_eqb l l'); apply IH.
    - apply IH.
    - apply IH.
  Qed.

  Definition not_label (l : label) (x : lstmt) : Prop := match x with LLabel _ l' => l' <> l | _ => True end.

  (* seeking a label that the block does not define *)
  Lemma wblk_seek l jt : forall code st cmp, Forall (not_label l) code ->
    wblk code (Seek l jt) st cmp = Ok (Seek l jt, set_mem st (seek_mem code (p_mem st)), cmp).
  Proof.
    induction code as [|x code IH]; intros st cmp H; cbn [LowerProg.wblk LowerShape.seek_mem].
    - rewrite set_mem_id. reflexivity.
    - inversion H as [|? ? Hx Hr]; subst. destruct x as [t k i|t l'|d t|d]; cbn [LowerProg.wblk LowerShape.seek_mem].
      + apply IH. exact Hr.
      + cbn [not_label] in Hx. destruct (label_eqb l l') eqn:E; [apply label_eqb_eq in E; congruence|]. apply IH. exact Hr.
      + rewrite IH by exact Hr. reflexivity.
      + rewrite IH by exact Hr. reflexivity.
  Qed.

  (* entering a block: the first instruction or label waits for the statement's time *)
  Lemma wblk_entry t mask : forall code st cmp, Forall (at_time t mask) code -> touches code ->
    wblk code Exec st cmp = wblk code Exec (wait t st) cmp.
  Proof.
    induction code as [|x code IH]; intros st cmp Ht Hx; [discriminate|].
    inversion Ht as [|? ? Hx0 Hr]; subst.
    destruct x as [t' k i|t' l'|d ty0|d]; cbn [LowerProg.wblk].
    - cbn [at_time] in Hx0. destruct Hx0; subst. rewrite wait_idem. reflexivity.
    - cbn [at_time] in Hx0. subst. rewrite wait_idem. reflexivity.
    - rewrite IH; [|exact Hr|exact Hx]. rewrite wait_set_mem, wait_mem. reflexivity.
    - rewrite IH; [|exact Hr|exact Hx]. rewrite wait_set_mem, wait_mem. reflexivity.
  Qed.

  Lemma exec_step_jump i m cmp m' cmp' l jt : exec_step i m cmp = Ok (m', cmp', Some (l, jt)) -> jump_of i = Some (l, jt).
  Proof.
    destruct i; cbn [LowerSem.exec_step jump_of]; intros H; try discriminate.
    - destruct (exec_pure T libm _ m); cbn [obind] in H; discriminate.
    - destruct (exec_pure T libm _ m); cbn [obind] in H; discriminate.
    - destruct (exec_pure T libm _ m); cbn [obind] in H; discriminate.
    - destruct (read_arg m a); cbn [obind] in H; try discriminate. destruct (read_arg m b); cbn [obind] in H; try discriminate.
      destruct (binop_eval T op _ _); cbn [obind] in H; try discriminate. destruct (truthy _) as [[|]| | |]; cbn [obind] in H; inversion H. reflexivity.
    - destruct (read_arg m a); cbn [obind] in H; try discriminate. destruct (read_arg m b); cbn [obind] in H; discriminate.
    - destruct cmp as [[x y]|]; [|discriminate]. destruct (binop_eval T op x y); cbn [obind] in H; try discriminate.
      destruct (truthy _) as [[|]| | |]; cbn [obind] in H; inversion H. reflexivity.
    - destruct (read_arg m x) as [v| | |]; cbn [obind] in H; try discriminate. destruct v; try discriminate.
      destruct (write_arg m x _); cbn [obind] in H; try discriminate.
      destruct (match op with Gt => _ | _ => _ end); inversion H. reflexivity.
    - inversion H. reflexivity.
  Qed.

  (* a jump's time argument is absent, or it is the statement's own destination *)
  Definition md_ok (d : option (label * option Z)) (md : mode) : Prop :=
    match md with Exec => True | Seek l jt => jt = None \/ d = Some (l, jt) end.
  Definition dest_free (d : option (label * option Z)) (code : list lstmt) : Prop :=
    match d with Some (l0, Some _) => Forall (not_label l0) code | _ => True end.

  (* once the time is the statement's time, the block only changes memory: erase times and log *)
  Lemma wblk_steady t mask d : runs dsel mask = true ->
    forall code md st cmp, Forall (at_time t mask) code -> Forall (instr_ok d) code -> dest_free d code ->
    p_time st = t -> md_ok d md ->
    wblk code md st cmp =
    match run_blk code md (p_mem st) cmp with
    | Ok (md', m', c') => Ok (md', set_mem st m', c')
    | Err e => Err e | Panic p => Panic p | OutOfFuel => OutOfFuel
    end.
  Proof.
    intros Hruns. induction code as [|x code IH]; intros md st cmp Ht Hi Hd Hst Hmd; cbn [LowerProg.wblk LowerProg.run_blk].
    - rewrite set_mem_id. reflexivity.
    - pose proof (Forall_inv Ht) as Hx0. pose proof (Forall_inv_tail Ht) as Hr.
      pose proof (Forall_inv Hi) as Hi0. pose proof (Forall_inv_tail Hi) as Hir.
      assert (Hd' : dest_free d code).
      { unfold dest_free in *. destruct d as [[l0 [z|]]|]; auto. exact (Forall_inv_tail Hd). }
      destruct x as [t' k i|t' l'|dd ty0|dd]; cbn [LowerProg.wblk LowerProg.run_blk].
      + cbn [at_time] in Hx0. destruct Hx0; subst t' k.
        destruct md as [|l jt]; [|apply IH; assumption].
        rewrite wait_at by exact Hst. rewrite Hruns. cbn [negb].
        cbn [instr_ok] in Hi0. destruct Hi0 as [Hcall Hjmp].
        assert (Hgo : match exec_step i (p_mem st) cmp with
                      | Ok (m', cmp', None) => wblk code Exec (set_mem st m') cmp'
                      | Ok (m', cmp', Some (l, jt)) => wblk code (Seek l jt) (set_mem st m') cmp'
                      | Err e => Err e | Panic p => Panic p | OutOfFuel => OutOfFuel
                      end =
                      match match exec_step i (p_mem st) cmp with
                            | Ok (m', cmp', None) => run_blk code Exec m' cmp'
                            | Ok (m', cmp', Some (l, t)) => run_blk code (Seek l t) m' cmp'
                            | Err e => Err e | Panic p => Panic p | OutOfFuel => OutOfFuel
                            end with
                      | Ok (md', m', c') => Ok (md', set_mem st m', c')
                      | Err e => Err e | Panic p => Panic p | OutOfFuel => OutOfFuel
                      end).
        { destruct (exec_step i (p_mem st) cmp) as [[[m' cmp'] [[l jt]|]]| | |] eqn:E; try reflexivity.
          - rewrite IH; [reflexivity | exact Hr | exact Hir | exact Hd' | exact Hst |].
            apply exec_step_jump in E. rewrite E in Hjmp. exact Hjmp.
          - rewrite IH; [reflexivity | exact Hr | exact Hir | exact Hd' | exact Hst | exact I]. }
        destruct i; try exact Hgo. discriminate.
      + cbn [at_time] in Hx0. subst t'.
        destruct md as [|l jt].
        * rewrite wait_at by exact Hst. apply IH; assumption.
        * destruct (label_eqb l l') eqn:E; [|apply IH; assumption].
          apply label_eqb_eq in E. subst l'.
          assert (jt = None).
          { destruct Hmd as [H|H]; [exact H|]. destruct jt as [z|]; [|reflexivity]. subst d. cbn in Hd.
            inversion Hd as [|? ? Hnl _]. cbn in Hnl. congruence. }
          subst jt. rewrite arrive_at by exact Hst. apply IH; [exact Hr | exact Hir | exact Hd' | exact Hst | exact I].
      + rewrite IH; [reflexivity | exact Hr | exact Hir | exact Hd' | exact Hst | exact Hmd].
      + rewrite IH; [reflexivity | exact Hr | exact Hir | exact Hd' | exact Hst | exact Hmd].
  Qed.
End WBlk.
