(* Proofs/LowerProg.v -- whole bodies: the lowered instruction stream of a body behaves like the source
   body (Model/LowerProg.v): same memory, script time, real time and instruction log, through jumps in both
   directions.  Composition of the per-statement theorems (LowerSound, LowerJumps) over [lower_body]. *)
From TV Require Import Base.I32 Base.F32 Model.Ops Model.Expr Model.Lower Model.LowerSem Model.LowerProg
  Proofs.LowerSound Proofs.LowerShape Proofs.LowerJumps Proofs.LowerStatic Proofs.LowerArgs Proofs.LowerArgsTern Proofs.LowerOpTern.
Open Scope Z_scope.

(* ---------------- pst bookkeeping ---------------- *)
Lemma set_mem_set_mem st m m' : set_mem (set_mem st m) m' = set_mem st m'.
Proof. reflexivity. Qed.
Lemma set_mem_id st : set_mem st (p_mem st) = st.
Proof. destruct st; reflexivity. Qed.
Lemma wait_set_mem t st m : wait t (set_mem st m) = set_mem (wait t st) m.
Proof. unfold wait, set_mem. cbn [p_time p_mem p_real p_log]. destruct (p_time st <? t); reflexivity. Qed.
Lemma wait_at t st : p_time st = t -> wait t st = st.
Proof. intros H. unfold wait. rewrite H, Z.ltb_irrefl. reflexivity. Qed.
Lemma wait_time t st : p_time st <= t -> p_time (wait t st) = t.
Proof. intros H. unfold wait. destruct (Z.ltb_spec (p_time st) t); cbn [p_time]; lia. Qed.
Lemma wait_mem t st : p_mem (wait t st) = p_mem st.
Proof. unfold wait. destruct (p_time st <? t); reflexivity. Qed.
Lemma wait_idem t st : wait t (wait t st) = wait t st.
Proof. unfold wait at 1. destruct (Z.ltb_spec (p_time (wait t st)) t) as [H|H]; [|reflexivity].
  exfalso. unfold wait in H. destruct (Z.ltb_spec (p_time st) t); cbn [p_time] in H; lia. Qed.
Lemma arrive_at t st : p_time st = t -> arrive t None st = st.
Proof. intros H. unfold arrive. destruct st as [m tm r lg]. cbn [p_time] in H. subst tm. unfold set_time. cbn [p_mem p_real p_log].
  apply wait_at. reflexivity. Qed.

(* ---------------- run_fwd, block by block ---------------- *)
Section Blk.
  Variable T : optable.
  Variable libm : unop -> Z -> Z.
  Variable lty : nat -> ty.
  Notation run_fwd := (run_fwd T libm lty).
  Notation exec_step := (exec_step T libm).

  (* [run_fwd] that stops at the end of the block and returns mode, memory and compare register *)
  Fixpoint run_blk (code : list lstmt) (md : mode) (m : mem) (cmp : option (value * value))
    : outcome (mode * mem * option (value * value)) :=
    match code with
    | [] => Ok (md, m, cmp)
    | LAlloc d t :: rest => run_blk rest md (update m (VLoc d) (default_of t)) cmp
    | LFree d :: rest => run_blk rest md (update m (VLoc d) (default_of (lty d))) cmp
    | LLabel _ l' :: rest =>
        match md with
        | Seek l t => if label_eqb l l' then run_blk rest Exec m cmp else run_blk rest md m cmp
        | Exec => run_blk rest Exec m cmp
        end
    | LInstr _ _ i :: rest =>
        match md with
        | Seek _ _ => run_blk rest md m cmp
        | Exec =>
            match exec_step i m cmp with
            | Ok (m', cmp', None) => run_blk rest Exec m' cmp'
            | Ok (m', cmp', Some (l, t)) => run_blk rest (Seek l t) m' cmp'
            | Err e => Err e | Panic p => Panic p | OutOfFuel => OutOfFuel
            end
        end
    end.

  Definition fin (md : mode) (m : mem) : fres := match md with Exec => RFall m | Seek l t => RJump l t m end.

  Lemma fin_inj md m md' m' : fin md m = fin md' m' -> md = md' /\ m = m'.
  Proof. destruct md, md'; cbn; intros H; inversion H; auto. Qed.

  Lemma run_fwd_app a : forall b md m cmp,
    run_fwd (a ++ b) md m cmp =
    match run_blk a md m cmp with
    | Ok (md', m', c') => run_fwd b md' m' c'
    | Err e => Err e | Panic p => Panic p | OutOfFuel => OutOfFuel
    end.
  Proof.
    induction a as [|x a IH]; intros b md m cmp; [reflexivity|].
    destruct x as [t k i|t l'|d t|d]; cbn [app LowerSem.run_fwd run_blk].
    - destruct md; [|apply IH].
      destruct (exec_step i m cmp) as [[[m' cmp'] [[l jt]|]]| | |]; try reflexivity; apply IH.
    - destruct md; [apply IH|]. destruct (label_eqb l l'); apply IH.
    - apply IH.
    - apply IH.
  Qed.

  Lemma cps_blk code m md' m' :
    (forall rest cmp, exists cmp', run_fwd (code ++ rest) Exec m cmp = run_fwd rest md' m' cmp') ->
    forall cmp, exists c', run_blk code Exec m cmp = Ok (md', m', c').
  Proof.
    intros H cmp. destruct (H [] cmp) as [cmp' E]. rewrite run_fwd_app in E.
    destruct (run_blk code Exec m cmp) as [[[md1 m1] c1]| | |]; cbn [LowerSem.run_fwd] in E; try discriminate.
    inversion E as [E']. apply (fin_inj md1 m1 md' m') in E'. destruct E'; subst. eauto.
  Qed.
End Blk.

(* ---------------- the lowered stream, block by block ---------------- *)
Section WBlk.
  Variable T : optable.
  Variable libm : unop -> Z -> Z.
  Variable lty : nat -> ty.
  Variable dsel : option nat.
  Notation wblk := (wblk T libm lty dsel).
  Notation run_blk := (run_blk T libm lty).
  Notation exec_step := (exec_step T libm).
  Notation seek_mem := (seek_mem lty).

  Lemma wblk_app a : forall b md st cmp,
    wblk (a ++ b) md st cmp =
    match wblk a md st cmp with
    | Ok (md', st', c') => wblk b md' st' c'
    | Err e => Err e | Panic p => Panic p | OutOfFuel => OutOfFuel
    end.
  Proof.
    induction a as [|x a IH]; intros b md st cmp; [reflexivity|].
    destruct x as [t k i|t l'|d t|d]; cbn [app LowerProg.wblk].
    - destruct md; [|apply IH]. destruct (negb (runs dsel k)); [apply IH|].
      destruct i; cbv iota;
        try (destruct (exec_step _ _ cmp) as [[[m' cmp'] [[l1 jt1]|]]| | |]; cbv iota; try reflexivity; apply IH).
      match goal with |- context [mapM ?f ?l] => destruct (mapM f l) end; try reflexivity. apply IH.
    - destruct md; [apply IH|]. destruct (label_eqb l l'); apply IH.
    - apply IH.
    - apply IH.
  Qed.

  Definition not_label (l : label) (x : lstmt) : Prop := match x with LLabel _ l' => l' <> l | _ => True end.

  (* seeking a label that the block does not define *)
  Lemma wblk_seek l jt : forall code st cmp, Forall (not_label l) code ->
    wblk code (Seek l jt) st cmp = Ok (Seek l jt, set_mem st (seek_mem code (p_mem st)), cmp).
  Proof.
    induction code as [|x code IH]; intros st cmp H; cbn [LowerProg.wblk LowerShape.seek_mem].
    - rewrite set_mem_id. reflexivity.
    - inversion H as [|? ? Hx Hr]; subst. destruct x as [t k i|t l'|d t|d]; cbn [LowerProg.wblk LowerShape.seek_mem].
      + apply IH. exact Hr.
      + cbn [not_label] in Hx. destruct (label_eqb l l') eqn:E; [apply label_eqb_eq in E; congruence|]. apply IH. exact Hr.
      + rewrite IH by exact Hr. reflexivity.
      + rewrite IH by exact Hr. reflexivity.
  Qed.

  (* entering a block: the first instruction or label waits for the statement's time *)
  Lemma wblk_entry t mask : forall code st cmp, Forall (at_time t mask) code -> touches code ->
    wblk code Exec st cmp = wblk code Exec (wait t st) cmp.
  Proof.
    induction code as [|x code IH]; intros st cmp Ht Hx; [discriminate|].
    inversion Ht as [|? ? Hx0 Hr]; subst.
    destruct x as [t' k i|t' l'|d ty0|d]; cbn [LowerProg.wblk].
    - cbn [at_time] in Hx0. destruct Hx0; subst. rewrite wait_idem. reflexivity.
    - cbn [at_time] in Hx0. subst. rewrite wait_idem. reflexivity.
    - rewrite IH; [|exact Hr|exact Hx]. rewrite wait_set_mem, wait_mem. reflexivity.
    - rewrite IH; [|exact Hr|exact Hx]. rewrite wait_set_mem, wait_mem. reflexivity.
  Qed.

  Lemma exec_step_jump i m cmp m' cmp' l jt : exec_step i m cmp = Ok (m', cmp', Some (l, jt)) -> jump_of i = Some (l, jt).
  Proof.
    destruct i; cbn [LowerSem.exec_step jump_of]; intros H; try discriminate.
    - destruct (exec_pure T libm _ m); cbn [obind] in H; discriminate.
    - destruct (exec_pure T libm _ m); cbn [obind] in H; discriminate.
    - destruct (exec_pure T libm _ m); cbn [obind] in H; discriminate.
    - destruct (read_arg m a); cbn [obind] in H; try discriminate. destruct (read_arg m b); cbn [obind] in H; try discriminate.
      destruct (binop_eval T op _ _); cbn [obind] in H; try discriminate. destruct (truthy _) as [[|]| | |]; cbn [obind] in H; inversion H. reflexivity.
    - destruct (read_arg m a); cbn [obind] in H; try discriminate. destruct (read_arg m b); cbn [obind] in H; discriminate.
    - destruct cmp as [[x y]|]; [|discriminate]. destruct (binop_eval T op x y); cbn [obind] in H; try discriminate.
      destruct (truthy _) as [[|]| | |]; cbn [obind] in H; inversion H. reflexivity.
    - destruct (read_arg m x) as [v| | |]; cbn [obind] in H; try discriminate. destruct v; try discriminate.
      destruct (write_arg m x _); cbn [obind] in H; try discriminate.
      destruct (match op with Gt => _ | _ => _ end); inversion H. reflexivity.
    - inversion H. reflexivity.
  Qed.

  (* a jump's time argument is absent, or it is the statement's own destination *)
  Definition md_ok (d : option (label * option Z)) (md : mode) : Prop :=
    match md with Exec => True | Seek l jt => jt = None \/ d = Some (l, jt) end.
  Definition dest_free (d : option (label * option Z)) (code : list lstmt) : Prop :=
    match d with Some (l0, Some _) => Forall (not_label l0) code | _ => True end.

  (* once the time is the statement's time, the block only changes memory: erase times and log *)
  Lemma wblk_steady t mask d : runs dsel mask = true ->
    forall code md st cmp, Forall (at_time t mask) code -> Forall (instr_ok d) code -> dest_free d code ->
    p_time st = t -> md_ok d md ->
    wblk code md st cmp =
    match run_blk code md (p_mem st) cmp with
    | Ok (md', m', c') => Ok (md', set_mem st m', c')
    | Err e => Err e | Panic p => Panic p | OutOfFuel => OutOfFuel
    end.
  Proof.
    intros Hruns. induction code as [|x code IH]; intros md st cmp Ht Hi Hd Hst Hmd; cbn [LowerProg.wblk LowerProg.run_blk].
    - rewrite set_mem_id. reflexivity.
    - pose proof (Forall_inv Ht) as Hx0. pose proof (Forall_inv_tail Ht) as Hr.
      pose proof (Forall_inv Hi) as Hi0. pose proof (Forall_inv_tail Hi) as Hir.
      assert (Hd' : dest_free d code).
      { unfold dest_free in *. destruct d as [[l0 [z|]]|]; auto. exact (Forall_inv_tail Hd). }
      destruct x as [t' k i|t' l'|dd ty0|dd]; cbn [LowerProg.wblk LowerProg.run_blk].
      + cbn [at_time] in Hx0. destruct Hx0; subst t' k.
        destruct md as [|l jt]; [|apply IH; assumption].
        rewrite wait_at by exact Hst. rewrite Hruns. cbn [negb].
        cbn [instr_ok] in Hi0. destruct Hi0 as [Hcall Hjmp].
        assert (Hgo : match exec_step i (p_mem st) cmp with
                      | Ok (m', cmp', None) => wblk code Exec (set_mem st m') cmp'
                      | Ok (m', cmp', Some (l, jt)) => wblk code (Seek l jt) (set_mem st m') cmp'
                      | Err e => Err e | Panic p => Panic p | OutOfFuel => OutOfFuel
                      end =
                      match match exec_step i (p_mem st) cmp with
                            | Ok (m', cmp', None) => run_blk code Exec m' cmp'
                            | Ok (m', cmp', Some (l, t)) => run_blk code (Seek l t) m' cmp'
                            | Err e => Err e | Panic p => Panic p | OutOfFuel => OutOfFuel
                            end with
                      | Ok (md', m', c') => Ok (md', set_mem st m', c')
                      | Err e => Err e | Panic p => Panic p | OutOfFuel => OutOfFuel
                      end).
        { destruct (exec_step i (p_mem st) cmp) as [[[m' cmp'] [[l jt]|]]| | |] eqn:E; try reflexivity.
          - rewrite IH; [reflexivity | exact Hr | exact Hir | exact Hd' | exact Hst |].
            apply exec_step_jump in E. rewrite E in Hjmp. exact Hjmp.
          - rewrite IH; [reflexivity | exact Hr | exact Hir | exact Hd' | exact Hst | exact I]. }
        destruct i; try exact Hgo. discriminate.
      + cbn [at_time] in Hx0. subst t'.
        destruct md as [|l jt].
        * rewrite wait_at by exact Hst. apply IH; assumption.
        * destruct (label_eqb l l') eqn:E; [|apply IH; assumption].
          apply label_eqb_eq in E. subst l'.
          assert (jt = None).
          { destruct Hmd as [H|H]; [exact H|]. destruct jt as [z|]; [|reflexivity]. subst d. cbn in Hd.
            inversion Hd as [|? ? Hnl _]. cbn in Hnl. congruence. }
          subst jt. rewrite arrive_at by exact Hst. apply IH; [exact Hr | exact Hir | exact Hd' | exact Hst | exact I].
      + rewrite IH; [reflexivity | exact Hr | exact Hir | exact Hd' | exact Hst | exact Hmd].
      + rewrite IH; [reflexivity | exact Hr | exact Hir | exact Hd' | exact Hst | exact Hmd].
  Qed.
  Lemma wblk_frees ds : forall md st cmp,
    wblk (map LFree ds) md st cmp = Ok (md, set_mem st (free_all lty ds (p_mem st)), cmp).
  Proof.
    induction ds as [|d ds IH]; intros md st cmp; cbn [map LowerProg.wblk free_all fold_left].
    - rewrite set_mem_id. reflexivity.
    - rewrite IH. reflexivity.
  Qed.

  (* a block whose statement is disabled on this difficulty: only the markers act *)
  Lemma wblk_off t mask : runs dsel mask = false ->
    forall code st cmp, Forall (at_time t mask) code -> p_time st = t ->
    wblk code Exec st cmp = Ok (Exec, set_mem st (seek_mem code (p_mem st)), cmp).
  Proof.
    intros Hoff. induction code as [|x code IH]; intros st cmp Ht Hst; cbn [LowerProg.wblk LowerShape.seek_mem].
    - rewrite set_mem_id. reflexivity.
    - pose proof (Forall_inv Ht) as Hx0. pose proof (Forall_inv_tail Ht) as Hr.
      destruct x as [t' k i|t' l'|d ty0|d]; cbn [LowerProg.wblk LowerShape.seek_mem].
      + cbn [at_time] in Hx0. destruct Hx0; subst t' k. rewrite wait_at by exact Hst. rewrite Hoff. cbn [negb]. apply IH; assumption.
      + cbn [at_time] in Hx0. subst t'. rewrite wait_at by exact Hst. apply IH; assumption.
      + rewrite IH; [reflexivity | exact Hr | exact Hst].
      + rewrite IH; [reflexivity | exact Hr | exact Hst].
  Qed.
End WBlk.

(* ---------------- one statement ---------------- *)
Definition user (l : label) : Prop := match l with LUser _ => True | LGen _ _ => False end.

Section Sim.
  Variable T : optable.
  Variable libm : unop -> Z -> Z.
  Variable avail : ikind -> bool.
  Variable auto_casts : bool.
  Variable rty : Z -> ty.
  Variable lty : nat -> ty.
  Variable diff : nat.
  Variable dsel : option nat.
  Hypothesis no_sigil_intrinsics : forall op t, sigil_of_unop op <> None -> avail (KUnOp op t) = false.
  Hypothesis HT : T_ok T libm.
  Hypothesis H2 : T_ok2 T libm.

  Notation eval_e := (eval_e T libm rty lty diff).
  Notation assign_e := (assign_e T libm rty lty diff).
  Notation eval_s := (eval_s T libm rty lty diff).
  Notation assign_s := (assign_s T libm rty lty diff).
  Notation wblk := (wblk T libm lty dsel).
  Notation run_blk := (run_blk T libm lty).
  Notation run_fwd := (run_fwd T libm lty).
  Notation fresh := (fresh lty).
  Notation te_agree := (te_agree lty).
  Notation wt_pure := (wt_pure rty lty).
  Notation wt_cond := (wt_cond rty lty).
  Notation wt_tern := (wt_tern rty lty).
  Notation classify := (classify auto_casts rty lty).

  Lemma fresh_upd m n x v : fresh m n -> (match x with VReg _ => True | VLoc d => (d < n)%nat end) -> fresh (update m x v) n.
  Proof. exact (fresh_update libm rty lty 0 m n x v). Qed.
  Lemma fresh_mono m n n' : (n <= n')%nat -> fresh m n -> fresh m n'.
  Proof. intros Hn H d Hd. apply H. lia. Qed.
  Lemma fresh_upd_var m n v r : fresh m n -> var_below n v -> fresh (update m (v_id v) r) n.
  Proof. intros Hf Hv. apply fresh_upd; [exact Hf|]. unfold var_below in Hv. destruct (v_id v); [exact I | exact Hv]. Qed.
  Lemma var_below_mono_ n n' v : (n <= n')%nat -> var_below n v -> var_below n' v.
  Proof. unfold var_below. destruct (v_id v); [auto|]. lia. Qed.
  Lemma locals_below_mono_ n n' : (n <= n')%nat -> forall e, locals_below n e = true -> locals_below n' e = true.
  Proof. exact (locals_below_mono libm rty lty 0 n n'). Qed.
  Lemma te_agree_mono n n' te1 te2 : (n <= n')%nat -> te_agree n' te1 te2 -> te_agree n te1 te2.
  Proof. intros Hn H d Hd. apply H. lia. Qed.

  Lemma eval_e_agree n0 te m e : te_agree n0 [] te -> locals_below n0 e = true -> eval_e m e = eval_s te m e.
  Proof. intros Ha Hb. symmetry. exact (agree_eval T libm rty lty diff n0 [] te m Ha e Hb). Qed.

  Lemma assign_e_agree n0 te m v aop e : te_agree n0 [] te -> locals_below n0 e = true -> var_below n0 v ->
    assign_e m v aop e = assign_s te m v aop e.
  Proof.
    intros Ha Hb Hv. unfold LowerProg.assign_e, LowerSound.assign_s.
    rewrite (eval_e_agree n0 te m e Ha Hb).
    rewrite (eval_e_agree n0 te m (var_expr v) Ha (below_var_expr n0 v Hv)). reflexivity.
  Qed.

  Lemma notnan_b_sound v : notnan_b v = true -> notnan v.
  Proof. destruct v; cbn; auto. intros H. apply Bool.negb_true_iff in H. exact H. Qed.

  Lemma nonan_b_sound n0 te m : te_agree n0 [] te -> forall e, locals_below n0 e = true ->
    nonan_b T libm rty lty diff m e = true -> nonan T libm rty lty diff te m e.
  Proof.
    intros Ha. induction e; intros Hb H; cbn [LowerProg.nonan_b LowerJumps.nonan locals_below] in *; try exact I.
    - destruct op; try exact I. apply IHe; assumption.
    - apply andb_prop in Hb. destruct Hb as [Hb1 Hb2].
      assert (Hcmp : match eval_e m e1, eval_e m e2 with Ok av, Ok bv => notnan_b av && notnan_b bv | _, _ => true end = true ->
                     forall av bv, eval_s te m e1 = Ok av -> eval_s te m e2 = Ok bv -> notnan av /\ notnan bv).
      { intros Hc av bv E1 E2. rewrite (eval_e_agree n0 te m e1 Ha Hb1), E1, (eval_e_agree n0 te m e2 Ha Hb2), E2 in Hc.
        apply andb_prop in Hc. destruct Hc. split; apply notnan_b_sound; assumption. }
      destruct op; try (apply Hcmp; exact H);
        (apply andb_prop in H; destruct H; split; [apply IHe1 | apply IHe2]; assumption).
  Qed.

  Lemma nonan_tb_sound n0 te m : te_agree n0 [] te -> forall e, locals_below n0 e = true ->
    nonan_tb T libm rty lty diff m e = true -> nonan_t T libm rty lty diff te m e.
  Proof.
    intros Ha. induction e; intros Hb H; cbn [LowerProg.nonan_tb LowerJumps.nonan_t locals_below] in *; try exact I.
    apply andb_prop in Hb. destruct Hb as [Hb Hb3]. apply andb_prop in Hb. destruct Hb as [Hb1 Hb2].
    apply andb_prop in H. destruct H as [H H3]. apply andb_prop in H. destruct H as [H1 H2'].
    split; [eapply nonan_b_sound; eassumption|]. split; [apply IHe2 | apply IHe3]; assumption.
  Qed.

  Lemma labels_in_not_user lo hi code l : labels_in lo hi code -> user l -> Forall (not_label l) code.
  Proof.
    intros H Hu. eapply Forall_impl; [|exact H]. intros x Hx. destruct x; cbn in *; auto.
    destruct l0; [contradiction|]. intros E. subst l. exact Hu.
  Qed.

  (* the block of one statement, once its memory effect is known *)
  Lemma block_exec t mask d c1 st md' m' : runs dsel mask = true ->
    Forall (at_time t mask) c1 -> Forall (instr_ok d) c1 -> dest_free d c1 -> touches c1 -> p_time st <= t ->
    (forall cmp, exists c', run_blk c1 Exec (p_mem st) cmp = Ok (md', m', c')) ->
    forall cmp, exists c', wblk c1 Exec st cmp = Ok (md', set_mem (wait t st) m', c').
  Proof.
    intros Hr Ht Hi Hd Hx Hle Hrun cmp.
    rewrite (wblk_entry T libm lty dsel t mask c1 st cmp Ht Hx).
    rewrite (wblk_steady T libm lty dsel t mask d Hr c1 Exec (wait t st) cmp Ht Hi Hd (wait_time t st Hle) I).
    rewrite wait_mem. destruct (Hrun cmp) as [c' E]. rewrite E. eauto.
  Qed.

  Notation lower := (lower avail auto_casts rty lty).
  Notation lower_stmt := (lower_stmt avail auto_casts rty lty).

  Lemma sim_assign n0 t mask fuel v aop e s c1 s1 st m' :
    runs dsel mask = true ->
    lower t mask fuel (CAssignOp v aop e) s = Ok (c1, s1) ->
    (n0 <= g s)%nat -> te_agree n0 [] (te s) ->
    var_below n0 v -> locals_below n0 e = true ->
    (wt_pure [] e = true \/ wt_tern [] e = true) ->
    nonan_tb T libm rty lty diff (p_mem (wait t st)) e = true ->
    fresh (p_mem st) (g s) -> p_time st <= t ->
    assign_e (p_mem (wait t st)) v aop e = Ok m' ->
    (forall cmp, exists c', wblk c1 Exec st cmp = Ok (Exec, set_mem (wait t st) m', c')) /\
    (g s <= g s1)%nat /\ te_agree (g s) (te s) (te s1) /\ fresh m' (g s1).
  Proof.
    intros Hr Hl Hn Ha Hv Hb Hw Hnn Hfr Hle Hsem. rewrite wait_mem in *. set (m := p_mem st) in *.
    rewrite (assign_e_agree n0 (te s) m v aop e Ha Hb Hv) in Hsem.
    assert (Hb' : locals_below (g s) e = true) by (eapply locals_below_mono_; eassumption).
    assert (Hv' : var_below (g s) v) by (eapply var_below_mono_; eassumption).
    assert (Hcps : (forall rest cmp, exists cmp', run_fwd (c1 ++ rest) Exec m cmp = run_fwd rest Exec m' cmp') /\
                   (g s <= g s1)%nat /\ te_agree (g s) (te s) (te s1)).
    { assert (Hw0 : wt_pure [] e = true \/ (wt_tern [] e = true /\ (aop = None \/ exists bop cc ll rr, aop = Some bop /\ e = ETern cc ll rr))).
      { destruct Hw as [Hw|Hw]; [left; exact Hw|]. destruct aop as [bop|]; [|right; split; [exact Hw | left; reflexivity]].
        destruct e; try (left; exact Hw). right. split; [exact Hw|]. right. eauto 6. }
      clear Hw. destruct Hw0 as [Hw|[Hw [->|[bop [cc [ll [rr [-> ->]]]]]]]];
        [| |(* v op= c ? a : b *)
           rewrite <- (agree_wt_tern rty lty n0 [] (te s) Ha _ Hb) in Hw;
           eapply (opassign_tern_sound T libm avail auto_casts rty lty diff t mask no_sigil_intrinsics HT H2 fuel v bop cc ll rr s c1 s1 m m');
           try eassumption; eapply nonan_tb_sound; eassumption].
      - rewrite <- (agree_wt rty lty n0 [] (te s) Ha e Hb) in Hw.
        destruct (lower_sound T libm avail auto_casts rty lty diff t mask no_sigil_intrinsics HT fuel _ _ _ _ Hl) with (m := m) (m' := m')
          as [Hrun [Hg Ht]]; [cbn [wf_call]; auto | exact Hfr | exact Hsem |].
        split; [|split; assumption]. intros rest cmp. exists cmp. apply run_fwd_pure. exact Hrun.
      - rewrite <- (agree_wt_tern rty lty n0 [] (te s) Ha e Hb) in Hw.
        eapply (tern_sound T libm avail auto_casts rty lty diff t mask no_sigil_intrinsics HT H2 fuel (CAssignOp v None e) s c1 s1 v e Hl eq_refl m m');
          try eassumption. eapply nonan_tb_sound; eassumption. }
    destruct Hcps as [Hcps [Hg Ht]].
    split; [|split; [exact Hg|split; [exact Ht|]]].
    - apply (block_exec t mask None c1 st Exec m' Hr).
      + eapply lower_times. exact Hl.
      + exact (lower_instr_ok avail auto_casts rty lty t mask fuel _ s c1 s1 Hl).
      + exact I.
      + eapply lower_touches. exact Hl.
      + exact Hle.
      + apply cps_blk. exact Hcps.
    - destruct (assign_s_shape T libm rty lty diff _ _ _ _ _ _ Hsem) as [r ->].
      apply fresh_upd_var; [eapply fresh_mono; eassumption | eapply var_below_mono_; [|exact Hv']; exact Hg].
  Qed.

  Lemma unless_same k : is_unless k = kw_unless k.
  Proof. destruct k; reflexivity. Qed.

  Lemma user_label_ok l n : user l -> label_ok l n.
  Proof. destruct l; cbn; [auto | contradiction]. Qed.

  Lemma sim_cond n0 t mask fuel k e l jt s c1 s1 st v b :
    runs dsel mask = true ->
    lower t mask fuel (CCondNonCount k e l jt) s = Ok (c1, s1) ->
    (n0 <= g s)%nat -> te_agree n0 [] (te s) ->
    wt_cond [] e = true -> locals_below n0 e = true -> user l ->
    nonan_b T libm rty lty diff (p_mem (wait t st)) e = true ->
    fresh (p_mem st) (g s) -> p_time st <= t ->
    eval_e (p_mem (wait t st)) e = Ok v -> truthy v = Ok b ->
    (forall cmp, exists c', wblk c1 Exec st cmp =
        Ok (mode_of (if xorb b (kw_unless k) then Some (l, jt) else None), set_mem (wait t st) (p_mem (wait t st)), c')) /\
    (g s <= g s1)%nat /\ te_agree (g s) (te s) (te s1).
  Proof.
    intros Hr Hl Hn Ha Hw Hb Hu Hnn Hfr Hle Hev Htr. rewrite wait_mem in *. set (m := p_mem st) in *.
    rewrite (eval_e_agree n0 (te s) m e Ha Hb) in Hev.
    rewrite <- (agree_wt_cond rty lty n0 [] (te s) Ha e Hb) in Hw.
    assert (Hb' : locals_below (g s) e = true) by (eapply locals_below_mono_; eassumption).
    destruct (cond_sound T libm avail auto_casts rty lty diff t mask no_sigil_intrinsics HT H2 fuel _ _ _ _ Hl m (xorb b (is_unless k)))
      as [Hcps [Hg Ht]].
    - cbn [wf_cond]. split; [exact Hw|]. split; [exact Hb'|]. split; [apply user_label_ok; exact Hu|]. eapply nonan_b_sound; eassumption.
    - exact Hfr.
    - cbn [taken_sem]. unfold cond_s. rewrite Hev. cbn [obind]. rewrite Htr. reflexivity.
    - split; [|split; assumption].
      assert (Hd : dest_free (Some (l, jt)) c1).
      { unfold dest_free. destruct jt; [|exact I].
        destruct (lower_shape avail auto_casts rty lty t mask fuel _ s c1 s1 Hl) as [_ [L _]].
        eapply labels_in_not_user; eassumption. }
      replace (mode_of (if xorb b (kw_unless k) then Some (l, jt) else None)) with (after (xorb b (is_unless k)) (CCondNonCount k e l jt))
        by (rewrite unless_same; destruct (xorb b (kw_unless k)); reflexivity).
      apply (block_exec t mask (Some (l, jt)) c1 st _ m Hr).
      + eapply lower_times. exact Hl.
      + exact (lower_instr_ok avail auto_casts rty lty t mask fuel _ s c1 s1 Hl).
      + exact Hd.
      + eapply lower_touches. exact Hl.
      + exact Hle.
      + apply cps_blk. exact Hcps.
  Qed.

  Notation lower_count_jump := (lower_count_jump avail rty lty).
  Notation neutral := (neutral lty).

  Lemma count_static t mask k v op l jt s c1 s1 :
    lower_count_jump t mask k v op l jt s = Ok (c1, s1) ->
    Forall (at_time t mask) c1 /\ Forall (instr_ok (Some (l, jt))) c1 /\ touches c1 /\
    labels_in (g s) (g s1) c1 /\ neutral (g s) c1 /\ (g s <= g s1)%nat /\ te s1 = te s.
  Proof.
    unfold Lower.lower_count_jump. destruct (negb (avail (KCountJmp op))); [discriminate|].
    unfold var_arg. destruct (negb (ty_eqb _ TInt)); [discriminate|].
    destruct k.
    - unfold instr, ret. intros H. inversion H; subst.
      split; [repeat constructor|]. split; [constructor; [|constructor]; cbn; split; [reflexivity | right; reflexivity]|].
      split; [reflexivity|]. split; [repeat constructor|]. split; [intros m _; reflexivity|]. split; [lia | reflexivity].
    - unfold gen_label. cbn [fst snd]. unfold seq, instr, need, ret, instr. destruct (avail KJmp); [|discriminate].
      cbn [g te]. intros H. inversion H; subst. cbn [app g te].
      split; [repeat constructor|].
      split; [constructor; [cbn; split; [reflexivity | left; reflexivity]|];
              constructor; [cbn; split; [reflexivity | right; reflexivity]|]; constructor; [exact I | constructor]|].
      split; [reflexivity|].
      split; [constructor; [exact I|]; constructor; [exact I|]; constructor; [cbn; lia | constructor]|].
      split; [intros m _; reflexivity|]. split; [lia | reflexivity].
  Qed.

  Lemma sim_count n0 t mask k v op l jt s c1 s1 st m' j :
    runs dsel mask = true ->
    lower_count_jump t mask k v op l jt s = Ok (c1, s1) ->
    (n0 <= g s)%nat -> te_agree n0 [] (te s) -> var_below n0 v -> user l ->
    fresh (p_mem st) (g s) -> p_time st <= t ->
    count_e T libm rty lty diff (p_mem (wait t st)) k v op l jt = Ok (m', j) ->
    (forall cmp, exists c', wblk c1 Exec st cmp = Ok (mode_of j, set_mem (wait t st) m', c')) /\
    (g s <= g s1)%nat /\ te_agree (g s) (te s) (te s1) /\ fresh m' (g s1).
  Proof.
    intros Hr Hl Hn Ha Hv Hu Hfr Hle Hsem. rewrite wait_mem in *. set (m := p_mem st) in *.
    destruct (count_static t mask k v op l jt s c1 s1 Hl) as [Ht [Hi [Hx [L [N [Hg Hte]]]]]].
    unfold LowerProg.count_e in Hsem.
    rewrite (eval_e_agree n0 (te s) m (var_expr v) Ha (below_var_expr n0 v Hv)) in Hsem.
    destruct (eval_s (te s) m (var_expr v)) as [x| | |] eqn:Ev; cbn [obind] in Hsem; try discriminate.
    destruct x as [n|f|str]; try discriminate. inversion Hsem; subst m' j. clear Hsem.
    split; [|split; [exact Hg|split]].
    - replace (mode_of (if xorb (cnt_taken op (wrap32 (n - 1))) (kw_unless k) then Some (l, jt) else None))
        with (if xorb (count_taken op (wrap32 (n - 1))) (is_unless k) then Seek l jt else Exec)
        by (rewrite unless_same; unfold count_taken, cnt_taken; destruct (xorb _ _); reflexivity).
      apply (block_exec t mask (Some (l, jt)) c1 st _ _ Hr Ht Hi); [|exact Hx|exact Hle|].
      + unfold dest_free. destruct jt; [|exact I]. eapply labels_in_not_user; eassumption.
      + apply cps_blk. intros rest cmp. exists cmp.
        apply (count_jump_sound T libm avail rty lty diff t mask no_sigil_intrinsics k v op l jt s c1 s1 m n Hl (user_label_ok l (g s) Hu) Ev).
    - rewrite Hte. intros d _. reflexivity.
    - apply fresh_upd_var; [eapply fresh_mono; eassumption|]. eapply var_below_mono_; [|exact Hv]. lia.
  Qed.

  Notation lower_args := (lower_args avail auto_casts rty lty).
  Notation sstep := (sstep T libm rty lty diff).

  (* the statements covered by the whole-body theorem: assignments (any compound operator over jump-free
     right-hand sides; ternaries with plain `=`), single-variable declarations with initialiser, scope ends, empty
     statements, conditional, counting and unconditional jumps to user labels, labels, interrupts, instruction calls
     with jump-free or ternary arguments (complex ones go through temporaries) *)
  (* a declared variable, without initialiser or with a jump-free one *)
  Definition wfvar (n0 : nat) (x : nat * option expr) : Prop :=
    (fst x < n0)%nat /\ forall e, snd x = Some e -> locals_below n0 e = true /\ wt_pure [] e = true.

  Definition wf_stmt (n0 : nat) (st : sstmt) : Prop :=
    match st with
    | SAssign v aop e =>
        var_below n0 v /\ locals_below n0 e = true /\ (wt_pure [] e = true \/ wt_tern [] e = true)
    | SCondJmp k (CExpr e) l jt => wt_cond [] e = true /\ locals_below n0 e = true /\ user l
    | SCondJmp k (CPredec v) l jt => var_below n0 v /\ user l
    | SCondJmp k (CPredecCmp v op) l jt => var_below n0 v /\ user l
    | SJmp l jt => user l
    | SLabel l => user l
    | SCall opc args => Forall (fun e => wt_tern [] e = true /\ locals_below n0 e = true) args
    | SInterrupt _ => True
    | SNop => True
    | SScopeEnd d => (d < n0)%nat
    | SDecl ty vars =>
        (exists d e, vars = [(d, Some e)] /\ (d < n0)%nat /\ locals_below n0 e = true /\
                     (wt_pure [] e = true \/ wt_tern [] e = true))
        \/ Forall (wfvar n0) vars
    end.

  Lemma mapM_ext {A B} (f h : A -> outcome B) l : (forall x, In x l -> f x = h x) -> mapM f l = mapM h l.
  Proof.
    induction l as [|x l IH]; intros H; [reflexivity|]. cbn [mapM].
    rewrite (H x (or_introl eq_refl)). rewrite IH; [reflexivity|]. intros y Hy. apply H. right. exact Hy.
  Qed.

  Lemma args_wf_te n0 te args : te_agree n0 [] te ->
    Forall (fun e => wt_tern [] e = true /\ locals_below n0 e = true) args ->
    Forall (fun e => wt_tern te e = true /\ locals_below n0 e = true) args.
  Proof.
    intros Ha H. eapply Forall_impl; [|exact H]. intros e [Hw Hb]. split; [|exact Hb].
    rewrite (agree_wt_tern rty lty n0 [] te Ha e Hb). exact Hw.
  Qed.

  Lemma args_nonan_te n0 te m args : te_agree n0 [] te ->
    Forall (fun e => wt_tern [] e = true /\ locals_below n0 e = true) args ->
    forallb (nonan_tb T libm rty lty diff m) args = true -> Forall (nonan_t T libm rty lty diff te m) args.
  Proof.
    intros Ha H Hn. rewrite Forall_forall in *. intros e Hin. rewrite forallb_forall in Hn.
    destruct (H e Hin) as [_ Hb]. eapply nonan_tb_sound; [exact Ha | exact Hb | exact (Hn e Hin)].
  Qed.

  Lemma args_eval_te n0 te m args : te_agree n0 [] te ->
    Forall (fun e => wt_tern [] e = true /\ locals_below n0 e = true) args ->
    mapM (eval_e m) args = mapM (eval_s te m) args.
  Proof.
    intros Ha H. apply mapM_ext. intros e Hin. rewrite Forall_forall in H. destruct (H e Hin) as [_ Hb].
    apply (eval_e_agree n0 te m e Ha Hb).
  Qed.

  Lemma frees_shape ds lo hi t mask : Forall (at_time t mask) (map LFree ds) /\ labels_in lo hi (map LFree ds).
  Proof. induction ds as [|d ds [IH1 IH2]]; split; cbn [map]; constructor; try exact I; assumption. Qed.

  Lemma te_agree_refl_ n te : te_agree n te te.
  Proof. intros d _. reflexivity. Qed.

  (* ---- declarations of several variables ---- *)
  Definition lower_decl (t mask : Z) (fuel : nat) (ty0 : ty) : list (nat * option expr) -> lst -> res :=
    fix go (vs : list (nat * option expr)) (s : lst) : res :=
    match vs with
    | [] => ret [] s
    | (d, init) :: rest =>
        seq (ret [LAlloc d ty0] s) (fun s1 =>
        seq (match init with
             | Some e => lower t mask fuel (CAssignOp (mkvar None (VLoc d)) None e) s1
             | None => ret [] s1
             end) (go rest))
    end.
  Lemma lower_decl_cons t mask fuel ty0 d init rest s :
    lower_decl t mask fuel ty0 ((d, init) :: rest) s =
    seq (ret [LAlloc d ty0] s) (fun s1 =>
    seq (match init with
         | Some e => lower t mask fuel (CAssignOp (mkvar None (VLoc d)) None e) s1
         | None => ret [] s1
         end) (lower_decl t mask fuel ty0 rest)).
  Proof. reflexivity. Qed.
  Lemma lower_stmt_decl t mask fuel ty0 vars s : lower_stmt t mask fuel (SDecl ty0 vars) s = lower_decl t mask fuel ty0 vars s.
  Proof. reflexivity. Qed.

  Definition sdecl (ty0 : ty) : list (nat * option expr) -> mem -> outcome (mem * option (label * option Z) * option (Z * list value)) :=
    fix go (vs : list (nat * option expr)) (m : mem) : outcome (mem * option (label * option Z) * option (Z * list value)) :=
    match vs with
    | [] => Ok (m, None, None)
    | (d, init) :: rest =>
        let m1 := update m (VLoc d) (default_of ty0) in
        match init with
        | Some e => do m2 <- assign_e m1 (mkvar None (VLoc d)) None e; go rest m2
        | None => go rest m1
        end
    end.
  Lemma sdecl_cons ty0 d init rest m :
    sdecl ty0 ((d, init) :: rest) m =
    (let m1 := update m (VLoc d) (default_of ty0) in
     match init with
     | Some e => do m2 <- assign_e m1 (mkvar None (VLoc d)) None e; sdecl ty0 rest m2
     | None => sdecl ty0 rest m1
     end).
  Proof. reflexivity. Qed.
  Lemma sstep_decl ty0 vars m : sstep (SDecl ty0 vars) m = sdecl ty0 vars m.
  Proof. reflexivity. Qed.

  Lemma nonan_tb_pure te m e : wt_pure te e = true -> nonan_tb T libm rty lty diff m e = true.
  Proof. destruct e; cbn; try reflexivity. discriminate. Qed.

  Lemma decl_list_static n0 t mask fuel ty0 : forall vars s c1 s1,
    lower_decl t mask fuel ty0 vars s = Ok (c1, s1) -> Forall (wfvar n0) vars -> (n0 <= g s)%nat ->
    (g s <= g s1)%nat /\ te_agree (g s) (te s) (te s1) /\ Forall (at_time t mask) c1 /\ labels_in (g s) (g s1) c1 /\
    (forallb no_init vars = false -> touches c1) /\
    (forall m, fresh m (g s) -> seek_mem lty c1 m = fold_left (fun m x => update m (VLoc (fst x)) (default_of ty0)) vars m).
  Proof.
    induction vars as [|[d init] rest IH]; intros s c1 s1 Hl Hwf Hn.
    - cbn in Hl. unfold ret in Hl. inversion Hl; subst. split; [lia|]. split; [apply te_agree_refl_|]. split; [constructor|].
      split; [constructor|]. split; [intros H; discriminate|]. intros; reflexivity.
    - pose proof (Forall_inv Hwf) as [Hd Hi0]. cbn [fst snd] in Hd, Hi0.
      rewrite lower_decl_cons in Hl. unfold seq, ret in Hl.
      destruct init as [e|];
        [destruct (Hi0 e eq_refl) as [Hb Hw]
        |(* no initialiser: the marker only *)
         destruct (lower_decl t mask fuel ty0 rest s) as [[cr sr]| | |] eqn:Elr; try discriminate;
         inversion Hl; subst c1 s1; clear Hl;
         destruct (IH s cr sr Elr (Forall_inv_tail Hwf) Hn) as [G2 [A2 [T2 [L2 [X2 N2]]]]];
         (split; [exact G2|]); (split; [exact A2|]);
         (split; [constructor; [exact I | exact T2]|]);
         (split; [constructor; [exact I | exact L2]|]);
         (split; [intros Hs0; cbn [forallb no_init snd andb] in Hs0; apply (touches_app_r [LAlloc d ty0]); exact (X2 Hs0)|]);
         intros m Hm; cbn [app LowerShape.seek_mem fold_left fst]; apply N2; apply fresh_upd; [exact Hm | lia]].
      destruct (lower t mask fuel (CAssignOp (mkvar None (VLoc d)) None e) s) as [[ca sa]| | |] eqn:Ela; try discriminate.
      destruct (lower_decl t mask fuel ty0 rest sa) as [[cr sr]| | |] eqn:Elr; try discriminate.
      inversion Hl; subst c1 s1. clear Hl.
      destruct (lower_shape avail auto_casts rty lty t mask fuel _ s ca sa Ela) as [G1 [L1 [N1 A1]]].
      destruct (IH sa cr sr Elr (Forall_inv_tail Hwf) ltac:(lia)) as [G2 [A2 [T2 [L2 [_ N2]]]]].
      split; [lia|].
      split; [intros d' Hd'; rewrite (A2 d') by lia; apply A1; exact Hd'|].
      split; [constructor; [exact I|]; apply Forall_app; split; [eapply lower_times; exact Ela | exact T2]|].
      split; [constructor; [exact I|]; apply labels_in_app;
              [eapply Forall_impl; [|exact L1]; intros x Hx; destruct x; cbn in *; auto; destruct l; [auto|lia]
              |eapply Forall_impl; [|exact L2]; intros x Hx; destruct x; cbn in *; auto; destruct l; [auto|lia]]|].
      split; [intros _; apply (touches_app_r [LAlloc d ty0]); apply touches_app_l; eapply lower_touches; exact Ela|].
      intros m Hm. cbn [app LowerShape.seek_mem fold_left fst]. rewrite seek_mem_app.
      assert (Hm1 : fresh (update m (VLoc d) (default_of ty0)) (g s)) by (apply fresh_upd; [exact Hm | lia]).
      rewrite (N1 _ Hm1). apply N2. eapply fresh_mono; eassumption.
  Qed.

  Lemma decl_list_sim n0 t mask fuel ty0 : runs dsel mask = true -> forall vars s c1 s1 st r,
    lower_decl t mask fuel ty0 vars s = Ok (c1, s1) -> Forall (wfvar n0) vars -> (n0 <= g s)%nat -> te_agree n0 [] (te s) ->
    fresh (p_mem st) (g s) -> p_time st = t -> sdecl ty0 vars (p_mem st) = Ok r ->
    (forall cmp, exists c', wblk c1 Exec st cmp = Ok (Exec, set_mem st (fst (fst r)), c')) /\
    snd (fst r) = None /\ snd r = None /\ fresh (fst (fst r)) (g s1).
  Proof.
    intros Hr. induction vars as [|[d init] rest IH]; intros s c1 s1 st r Hl Hwf Hn Ha Hfr Hst Hs.
    - cbn in Hl, Hs. unfold ret in Hl. inversion Hl; subst. inversion Hs; subst. cbn [fst snd].
      split; [|auto]. intros cmp. exists cmp. cbn. rewrite set_mem_id. reflexivity.
    - pose proof (Forall_inv Hwf) as [Hd Hi0]. cbn [fst snd] in Hd, Hi0.
      rewrite lower_decl_cons in Hl. unfold seq, ret in Hl.
      destruct init as [e|];
        [destruct (Hi0 e eq_refl) as [Hb Hw]
        |(* no initialiser *)
         destruct (lower_decl t mask fuel ty0 rest s) as [[cr sr]| | |] eqn:Elr; try discriminate;
         inversion Hl; subst c1 s1; clear Hl;
         rewrite sdecl_cons in Hs; cbv zeta in Hs;
         assert (Hf1 : fresh (p_mem (set_mem st (update (p_mem st) (VLoc d) (default_of ty0)))) (g s))
           by (cbn [p_mem set_mem]; apply fresh_upd; [exact Hfr | lia]);
         destruct (IH s cr sr (set_mem st (update (p_mem st) (VLoc d) (default_of ty0))) r Elr (Forall_inv_tail Hwf) Hn Ha Hf1 Hst Hs)
           as [Hrest [Hj [Hlg Hf3]]];
         (split; [|auto]);
         intros cmp; cbn [app LowerProg.wblk]; destruct (Hrest cmp) as [c' E]; exists c'; rewrite E;
         rewrite set_mem_set_mem; reflexivity].
      destruct (lower t mask fuel (CAssignOp (mkvar None (VLoc d)) None e) s) as [[ca sa]| | |] eqn:Ela; try discriminate.
      destruct (lower_decl t mask fuel ty0 rest sa) as [[cr sr]| | |] eqn:Elr; try discriminate.
      inversion Hl; subst c1 s1. clear Hl.
      rewrite sdecl_cons in Hs. cbv zeta in Hs. set (m1 := update (p_mem st) (VLoc d) (default_of ty0)) in *.
      destruct (assign_e m1 (mkvar None (VLoc d)) None e) as [m2| | |] eqn:Ea; cbn [obind] in Hs; try discriminate.
      set (st1 := set_mem st m1).
      assert (Hw' : wt_pure [] e = true \/ wt_tern [] e = true) by (left; exact Hw).
      destruct (sim_assign n0 t mask fuel (mkvar None (VLoc d)) None e s ca sa st1 m2 Hr Ela Hn Ha Hd Hb Hw') as [Hrun [Hg [Ht Hf2]]].
      + apply (nonan_tb_pure [] _ e Hw).
      + unfold st1. cbn [p_mem set_mem]. apply fresh_upd; [exact Hfr | lia].
      + unfold st1. cbn [p_time set_mem]. lia.
      + rewrite wait_mem. exact Ea.
      + assert (Ha' : te_agree n0 [] (te sa)) by (intros d' Hd'; rewrite (Ht d') by lia; apply Ha; exact Hd').
        destruct (IH sa cr sr (set_mem st m2) r Elr (Forall_inv_tail Hwf) ltac:(lia) Ha' Hf2 Hst Hs) as [Hrest [Hj [Hlg Hf3]]].
        split; [|auto].
        intros cmp. cbn [app LowerProg.wblk]. fold m1. fold st1. rewrite wblk_app.
        destruct (Hrun cmp) as [c' E]. rewrite E. rewrite (wait_at t st1 Hst). unfold st1. rewrite set_mem_set_mem.
        destruct (Hrest c') as [c'' E2]. exists c''. rewrite E2. rewrite set_mem_set_mem. reflexivity.
  Qed.


  Lemma sdecl_fresh n0 ty0 : forall vars m r, Forall (wfvar n0) vars -> fresh m n0 -> sdecl ty0 vars m = Ok r ->
    fresh (fst (fst r)) n0 /\ snd (fst r) = None /\ snd r = None.
  Proof.
    induction vars as [|[d init] rest IH]; intros m r Hwf Hfr Hs.
    - cbn in Hs. inversion Hs; subst. auto.
    - pose proof (Forall_inv Hwf) as [Hd _]. cbn [fst] in Hd.
      rewrite sdecl_cons in Hs. cbv zeta in Hs.
      destruct init as [e|];
        [|apply (IH (update m (VLoc d) (default_of ty0)) r (Forall_inv_tail Hwf)); [apply fresh_upd; assumption | exact Hs]].
      destruct (assign_e (update m (VLoc d) (default_of ty0)) (mkvar None (VLoc d)) None e) as [m2| | |] eqn:Ea; cbn [obind] in Hs; try discriminate.
      destruct (assign_s_shape T libm rty lty diff [] (update m (VLoc d) (default_of ty0)) (mkvar None (VLoc d)) None e m2 Ea) as [v ->].
      cbn [v_id] in Hs. apply (IH (update (update m (VLoc d) (default_of ty0)) (VLoc d) v) r (Forall_inv_tail Hwf)); [|exact Hs].
      apply fresh_upd; [apply fresh_upd; assumption | exact Hd].
  Qed.

  Lemma fold_reset_fresh n0 ty0 : forall (vars : list (nat * option expr)) m, Forall (wfvar n0) vars -> fresh m n0 ->
    fresh (fold_left (fun m x => update m (VLoc (fst x)) (default_of ty0)) vars m) n0.
  Proof.
    induction vars as [|x rest IH]; intros m Hwf Hfr; [exact Hfr|]. cbn [fold_left].
    apply IH; [exact (Forall_inv_tail Hwf)|]. apply fresh_upd; [exact Hfr|]. exact (proj1 (Forall_inv Hwf)).
  Qed.

  Lemma stmt_sim n0 t mask fuel stmt s c1 s1 st m' j lg :
    runs dsel mask = true ->
    lower_stmt t mask fuel stmt s = Ok (c1, s1) -> wf_stmt n0 stmt ->
    (n0 <= g s)%nat -> te_agree n0 [] (te s) ->
    fresh (p_mem st) (g s) -> p_time st <= t -> (is_silent stmt = true -> p_time st = t) ->
    stmt_nonan T libm rty lty diff stmt (p_mem (wait t st)) = true ->
    sstep stmt (p_mem (wait t st)) = Ok (m', j, lg) ->
    (forall cmp, exists c', wblk c1 Exec st cmp = Ok (mode_of j, logged lg (set_mem (wait t st) m'), c')) /\
    (g s <= g s1)%nat /\ te_agree (g s) (te s) (te s1) /\ fresh m' (g s1).
  Proof.
    intros Hr Hl Hwf Hn Ha Hfr Hle Hsil Hnn Hs.
    destruct stmt as [v aop e|ty0 vars|k c l jt|l jt|l|opc args|d|e|]; cbn [wf_stmt] in Hwf; try contradiction;
      cbn [Lower.lower_stmt] in Hl.
    - (* SAssign *)
      destruct Hwf as [Hv [Hb Hw]]. cbn [LowerProg.sstep LowerProg.stmt_nonan] in Hs, Hnn.
      destruct (assign_e (p_mem (wait t st)) v aop e) as [m1| | |] eqn:Ea; cbn [obind] in Hs; try discriminate.
      inversion Hs; subst m' j lg. cbn [mode_of logged].
      eapply sim_assign; eassumption.
    - (* SDecl *)
      destruct Hwf as [[d [e [-> [Hd [Hb Hw]]]]] | Hall];
        [|(* several variables with jump-free initialisers *)
          change (lower_decl t mask fuel ty0 vars s = Ok (c1, s1)) in Hl;
          change (sdecl ty0 vars (p_mem (wait t st)) = Ok (m', j, lg)) in Hs;
          destruct (decl_list_static n0 t mask fuel ty0 vars s c1 s1 Hl Hall Hn) as [G [A [Hat [_ [Hx _]]]]];
          assert (Hfr1 : fresh (p_mem (wait t st)) (g s)) by (rewrite wait_mem; exact Hfr);
          destruct (decl_list_sim n0 t mask fuel ty0 Hr vars s c1 s1 (wait t st) (m', j, lg) Hl Hall Hn Ha Hfr1 (wait_time t st Hle) Hs) as [Hrun [Hj [Hlg Hf]]];
          cbn [fst snd] in Hrun, Hj, Hlg, Hf; subst j lg; cbn [mode_of logged];
          (split; [|split; [exact G|split; [exact A|exact Hf]]]);
          intros cmp;
          (destruct (forallb no_init vars) eqn:Esil;
           [rewrite (wait_at t st (Hsil Esil)) in Hrun; rewrite (wait_at t st (Hsil Esil)); apply Hrun
           |rewrite (wblk_entry T libm lty dsel t mask c1 st cmp Hat (Hx eq_refl)); apply Hrun])].
      cbn [LowerProg.sstep LowerProg.stmt_nonan] in Hs, Hnn. cbn [Lower.lower_stmt] in Hl.
      rewrite wait_mem in Hs, Hnn.
      set (m1 := update (p_mem st) (VLoc d) (default_of ty0)) in *.
      destruct (assign_e m1 (mkvar None (VLoc d)) None e) as [m2| | |] eqn:Ea; cbn [obind] in Hs; try discriminate.
      inversion Hs; subst m' j lg. cbn [mode_of logged].
      unfold seq, ret in Hl.
      destruct (lower t mask fuel (CAssignOp (mkvar None (VLoc d)) None e) s) as [[ca sa]| | |] eqn:Ela; try discriminate.
      inversion Hl; subst c1 s1.
      assert (Hd' : (d < g s)%nat) by lia.
      assert (Hw' : wt_pure [] e = true \/ wt_tern [] e = true) by exact Hw.
      destruct (sim_assign n0 t mask fuel (mkvar None (VLoc d)) None e s ca sa (set_mem st m1) m2 Hr Ela Hn Ha Hd Hb Hw') as [Hrun [Hg [Ht Hf2]]].
      + rewrite wait_mem. exact Hnn.
      + cbn [p_mem set_mem]. apply fresh_upd; [exact Hfr | exact Hd'].
      + exact Hle.
      + rewrite wait_mem. exact Ea.
      + split; [|split; [exact Hg|split; [exact Ht | exact Hf2]]].
        intros cmp. destruct (Hrun cmp) as [c' E]. exists c'. cbn [app LowerProg.wblk]. rewrite app_nil_r. fold m1. rewrite E.
        rewrite wait_set_mem, set_mem_set_mem. reflexivity.
    - (* SCondJmp *)
      destruct c as [v|v op|e].
      + destruct Hwf as [Hv Hu]. cbn [LowerProg.sstep] in Hs.
        destruct (count_e T libm rty lty diff (p_mem (wait t st)) k v Ne l jt) as [[m1 j1]| | |] eqn:Ec; cbn [obind fst snd] in Hs; try discriminate.
        inversion Hs; subst m' j lg. cbn [logged].
        eapply sim_count; eassumption.
      + destruct Hwf as [Hv Hu]. cbn [LowerProg.sstep] in Hs.
        destruct op; try discriminate.
        * destruct (count_e T libm rty lty diff (p_mem (wait t st)) k v Ne l jt) as [[m1 j1]| | |] eqn:Ec; cbn [obind fst snd] in Hs; try discriminate.
          inversion Hs; subst m' j lg. cbn [logged]. eapply sim_count; eassumption.
        * destruct (count_e T libm rty lty diff (p_mem (wait t st)) k v Gt l jt) as [[m1 j1]| | |] eqn:Ec; cbn [obind fst snd] in Hs; try discriminate.
          inversion Hs; subst m' j lg. cbn [logged]. eapply sim_count; eassumption.
      + destruct Hwf as [Hw [Hb Hu]]. cbn [LowerProg.sstep LowerProg.stmt_nonan] in Hs, Hnn.
        destruct (eval_e (p_mem (wait t st)) e) as [v| | |] eqn:Ev; cbn [obind] in Hs; try discriminate.
        destruct (truthy v) as [b| | |] eqn:Eb; cbn [obind] in Hs; try discriminate.
        inversion Hs; subst m' j lg. cbn [logged].
        destruct (sim_cond n0 t mask fuel k e l jt s c1 s1 st v b Hr Hl Hn Ha Hw Hb Hu Hnn Hfr Hle Ev Eb) as [Hrun [Hg Ht]].
        split; [exact Hrun|]. split; [exact Hg|]. split; [exact Ht|].
        rewrite wait_mem. eapply fresh_mono; eassumption.
    - (* SJmp *)
      cbn [LowerProg.sstep] in Hs. inversion Hs; subst m' j lg. cbn [mode_of logged].
      unfold need, instr, ret in Hl. destruct (avail KJmp); [|discriminate]. inversion Hl; subst c1 s1.
      split; [|split; [lia|split; [apply te_agree_refl_|rewrite wait_mem; exact Hfr]]].
      intros cmp. exists cmp. cbn [LowerProg.wblk]. rewrite Hr. cbn [negb LowerSem.exec_step]. reflexivity.
    - (* SLabel *)
      cbn [LowerProg.sstep] in Hs. inversion Hs; subst m' j lg. cbn [mode_of logged].
      unfold ret in Hl. inversion Hl; subst c1 s1.
      split; [|split; [lia|split; [apply te_agree_refl_|rewrite wait_mem; exact Hfr]]].
      intros cmp. exists cmp. cbn [LowerProg.wblk]. rewrite set_mem_id. reflexivity.
    - (* SCall *)
      cbn [LowerProg.sstep] in Hs.
      destruct (lower_args t mask fuel args s) as [[[[c la] ds] sa]| | |] eqn:El; try discriminate.
      inversion Hl; subst c1 s1. clear Hl.
      destruct (mapM (eval_e (p_mem (wait t st))) args) as [vs| | |] eqn:Ev; cbn [obind] in Hs; try discriminate.
      inversion Hs; subst m' j lg. cbn [mode_of logged]. rewrite wait_mem in Ev |- *.
      rewrite (args_eval_te n0 (te s) (p_mem st) args Ha Hwf) in Ev.
      cbn [LowerProg.stmt_nonan] in Hnn. rewrite wait_mem in Hnn.
      destruct (args_sound_tern T libm avail auto_casts rty lty diff t mask no_sigil_intrinsics HT H2 n0 fuel args s c la ds sa El
                  (args_wf_te n0 (te s) args Ha Hwf) Hn (p_mem st) vs Hfr (args_nonan_te n0 (te s) (p_mem st) args Ha Hwf Hnn) Ev)
        as [m1 [Hrp [Hread [_ [Hfree [Hg Ht]]]]]].
      destruct (args_static avail auto_casts rty lty t mask no_sigil_intrinsics fuel args s c la ds sa El) as [Hat [Hio [_ [_ [_ _]]]]].
      split; [|split; [exact Hg|split; [exact Ht|eapply fresh_mono; eassumption]]].
      intros cmp.
      assert (Hatw : Forall (at_time t mask) (c ++ LInstr t mask (ICall opc la) :: map LFree (rev ds))).
      { apply Forall_app. split; [exact Hat|]. constructor; [split; reflexivity|]. apply (frees_shape (rev ds) 0 0 t mask). }
      assert (Hx : touches (c ++ LInstr t mask (ICall opc la) :: map LFree (rev ds))).
      { apply touches_app_r. reflexivity. }
      rewrite (wblk_entry T libm lty dsel t mask _ st cmp Hatw Hx). rewrite wblk_app.
      rewrite (wblk_steady T libm lty dsel t mask None Hr c Exec (wait t st) cmp Hat Hio I (wait_time t st Hle) I).
      rewrite wait_mem.
      destruct (cps_blk T libm lty c (p_mem st) Exec m1 Hrp cmp) as [c' Eb].
      rewrite Eb. exists c'. cbn [app LowerProg.wblk].
      rewrite (wait_at t (set_mem (wait t st) m1) (wait_time t st Hle)). rewrite Hr. cbn [negb p_mem set_mem].
      rewrite Hread. rewrite wblk_frees. cbn [p_mem add_log set_mem]. rewrite Hfree. reflexivity.
    - (* SScopeEnd *)
      cbn [LowerProg.sstep] in Hs. unfold ret in Hl. inversion Hl; subst c1 s1.
      assert (Em : m' = update (p_mem st) (VLoc d) (default_of (lty d)) /\ j = None /\ lg = None).
      { rewrite wait_mem in Hs. split; [|split]; congruence. }
      destruct Em as [-> [-> ->]]. cbn [mode_of logged]. rewrite (wait_at t st (Hsil eq_refl)).
      split; [|split; [lia|split; [apply te_agree_refl_|apply fresh_upd; [exact Hfr | lia]]]].
      intros cmp. exists cmp. reflexivity.
    - (* SInterrupt *)
      cbn [LowerProg.sstep] in Hs. inversion Hs; subst m' j lg. cbn [mode_of logged].
      destruct e; try discriminate. unfold need, instr, ret in Hl. destruct (avail KInterrupt); [|discriminate]. inversion Hl; subst c1 s1.
      split; [|split; [lia|split; [apply te_agree_refl_|rewrite wait_mem; exact Hfr]]].
      intros cmp. exists cmp. cbn [LowerProg.wblk]. rewrite Hr. cbn [negb LowerSem.exec_step]. rewrite set_mem_id. reflexivity.
    - (* SNop *)
      cbn [LowerProg.sstep] in Hs. inversion Hs; subst m' j lg. cbn [mode_of logged].
      unfold ret in Hl. inversion Hl; subst c1 s1. rewrite (wait_at t st (Hsil eq_refl)).
      split; [|split; [lia|split; [apply te_agree_refl_|exact Hfr]]].
      intros cmp. exists cmp. rewrite set_mem_id. reflexivity.
  Qed.

  Lemma arrive_mem lt jt st : p_mem (arrive lt jt st) = p_mem st.
  Proof. unfold arrive. rewrite wait_mem. reflexivity. Qed.
  Lemma logged_mem lg st : p_mem (logged lg st) = p_mem st.
  Proof. destruct lg as [[o vs]|]; reflexivity. Qed.

  (* statements only write registers and source locals *)
  Lemma sstep_fresh n0 stmt m m' j lg : wf_stmt n0 stmt -> fresh m n0 -> sstep stmt m = Ok (m', j, lg) -> fresh m' n0.
  Proof.
    intros Hwf Hfr Hs.
    destruct stmt as [v aop e|ty0 vars|k c l jt|l jt|l|opc args|d|e|]; cbn [wf_stmt] in Hwf; try contradiction;
      cbn [LowerProg.sstep] in Hs.
    - destruct Hwf as [Hv _]. destruct (assign_e m v aop e) as [m1| | |] eqn:Ea; cbn [obind] in Hs; try discriminate.
      inversion Hs; subst. destruct (assign_s_shape T libm rty lty diff [] m v aop e m' Ea) as [r ->].
      apply fresh_upd_var; assumption.
    - destruct Hwf as [[d [e [-> [Hd _]]]] | Hall];
        [|change (sdecl ty0 vars m = Ok (m', j, lg)) in Hs; exact (proj1 (sdecl_fresh n0 ty0 vars m (m', j, lg) Hall Hfr Hs))].
      cbn [LowerProg.sstep] in Hs.
      destruct (assign_e (update m (VLoc d) (default_of ty0)) (mkvar None (VLoc d)) None e) as [m2| | |] eqn:Ea; cbn [obind] in Hs; try discriminate.
      inversion Hs; subst. destruct (assign_s_shape T libm rty lty diff [] (update m (VLoc d) (default_of ty0)) (mkvar None (VLoc d)) None e m' Ea) as [r ->].
      cbn [v_id]. apply fresh_upd; [apply fresh_upd; assumption | exact Hd].
    - assert (Hc : forall v op, var_below n0 v -> forall r, count_e T libm rty lty diff m k v op l jt = Ok r -> fresh (fst r) n0).
      { intros v op Hv r Hr. unfold LowerProg.count_e in Hr. destruct (eval_e m (var_expr v)) as [x| | |]; cbn [obind] in Hr; try discriminate.
        destruct x; try discriminate. inversion Hr; subst. cbn [fst]. apply fresh_upd_var; assumption. }
      destruct c as [v|v op|e].
      + destruct Hwf as [Hv _]. destruct (count_e T libm rty lty diff m k v Ne l jt) as [r| | |] eqn:Ec; cbn [obind] in Hs; try discriminate.
        inversion Hs; subst. eapply Hc; eassumption.
      + destruct Hwf as [Hv _]. destruct op; try discriminate;
          (destruct (count_e T libm rty lty diff m k v _ l jt) as [r| | |] eqn:Ec; cbn [obind] in Hs; try discriminate;
           inversion Hs; subst; eapply Hc; eassumption).
      + destruct (eval_e m e) as [v| | |]; cbn [obind] in Hs; try discriminate.
        destruct (truthy v) as [b| | |]; cbn [obind] in Hs; try discriminate. inversion Hs; subst. exact Hfr.
    - inversion Hs; subst. exact Hfr.
    - inversion Hs; subst. exact Hfr.
    - destruct (mapM (eval_e m) args); cbn [obind] in Hs; try discriminate. inversion Hs; subst. exact Hfr.
    - assert (Em : m' = update m (VLoc d) (default_of (lty d))) by congruence. rewrite Em. apply fresh_upd; assumption.
    - inversion Hs; subst. exact Hfr.
    - inversion Hs; subst. exact Hfr.
  Qed.

  Lemma sstep_jump_user n0 stmt m m' l jt lg : wf_stmt n0 stmt -> sstep stmt m = Ok (m', Some (l, jt), lg) -> user l.
  Proof.
    intros Hwf Hs.
    destruct stmt as [v aop e|ty0 vars|k c l0 jt0|l0 jt0|l0|opc args|d|e|]; cbn [wf_stmt] in Hwf; try contradiction;
      cbn [LowerProg.sstep] in Hs.
    - destruct (assign_e m v aop e); cbn [obind] in Hs; discriminate.
    - destruct Hwf as [[d [e [-> _]]] | Hall].
      + cbn [LowerProg.sstep] in Hs. destruct (assign_e _ _ None e); cbn [obind] in Hs; discriminate.
      + change (sdecl ty0 vars m = Ok (m', Some (l, jt), lg)) in Hs.
        assert (Hx : forall mm (r : mem * option (label * option Z) * option (Z * list value)) (vs : list (nat * option expr)),
                  Forall (wfvar n0) vs -> sdecl ty0 vs mm = Ok r -> snd (fst r) = None).
        { intros mm r vs. revert mm. induction vs as [|[d init] rest IH]; intros mm Hw Hs0.
          - cbn in Hs0. inversion Hs0; reflexivity.
          - rewrite sdecl_cons in Hs0. cbv zeta in Hs0. destruct init as [e|]; [|eapply IH; [exact (Forall_inv_tail Hw) | exact Hs0]].
            destruct (assign_e _ _ None e); cbn [obind] in Hs0; try discriminate. eapply IH; [exact (Forall_inv_tail Hw) | exact Hs0]. }
        pose proof (Hx m _ vars Hall Hs) as Hn0. cbn in Hn0. discriminate.
    - assert (Hc : forall v op r, count_e T libm rty lty diff m k v op l0 jt0 = Ok r -> snd r = Some (l, jt) -> l = l0).
      { intros v op r Hr Hj. unfold LowerProg.count_e in Hr. destruct (eval_e m (var_expr v)) as [x| | |]; cbn [obind] in Hr; try discriminate.
        destruct x; try discriminate. inversion Hr; subst. cbn [snd] in Hj. destruct (xorb _ _); inversion Hj. reflexivity. }
      destruct c as [v|v op|e].
      + destruct Hwf as [_ Hu]. destruct (count_e T libm rty lty diff m k v Ne l0 jt0) as [r| | |] eqn:Ec; cbn [obind] in Hs; try discriminate.
        inversion Hs as [[Hm Hj Hlg]]. rewrite (Hc _ _ _ Ec Hj). exact Hu.
      + destruct Hwf as [_ Hu]. destruct op; try discriminate;
          (destruct (count_e T libm rty lty diff m k v _ l0 jt0) as [r| | |] eqn:Ec; cbn [obind] in Hs; try discriminate;
           inversion Hs as [[Hm Hj Hlg]]; rewrite (Hc _ _ _ Ec Hj); exact Hu).
      + destruct Hwf as [_ [_ Hu]]. destruct (eval_e m e) as [v| | |]; cbn [obind] in Hs; try discriminate.
        destruct (truthy v) as [b| | |]; cbn [obind] in Hs; try discriminate.
        destruct (xorb b (kw_unless k)); inversion Hs; subst. exact Hu.
    - inversion Hs; subst. exact Hwf.
    - inversion Hs.
    - destruct (mapM (eval_e m) args); cbn [obind] in Hs; discriminate.
    - inversion Hs.
    - inversion Hs.
    - inversion Hs.
  Qed.

  Notation sseek := (sseek lty).

  (* what the code of one statement looks like from outside *)
  Lemma stmt_shape n0 t mask fuel stmt s c1 s1 :
    lower_stmt t mask fuel stmt s = Ok (c1, s1) -> wf_stmt n0 stmt -> te_agree n0 [] (te s) -> (n0 <= g s)%nat ->
    (g s <= g s1)%nat /\ te_agree (g s) (te s) (te s1) /\
    (forall m, fresh m (g s) -> seek_mem lty c1 m = sseek stmt m) /\
    Forall (at_time t mask) c1 /\ (is_silent stmt = false -> touches c1) /\
    match stmt with SLabel l => c1 = [LLabel t l] | _ => labels_in (g s) (g s1) c1 end.
  Proof.
    intros Hl Hwf Ha Hn.
    assert (Hone : forall i, Ok ([LInstr t mask i], s) = Ok (c1, s1) ->
              (g s <= g s1)%nat /\ te_agree (g s) (te s) (te s1) /\ (forall m, fresh m (g s) -> seek_mem lty c1 m = m) /\
              Forall (at_time t mask) c1 /\ touches c1 /\ labels_in (g s) (g s1) c1).
    { intros i H. inversion H; subst. split; [lia|]. split; [apply te_agree_refl_|]. split; [intros; reflexivity|].
      split; [repeat constructor|]. split; [reflexivity | repeat constructor]. }
    assert (Hlow : forall c c1 s1, lower t mask fuel c s = Ok (c1, s1) ->
              (g s <= g s1)%nat /\ te_agree (g s) (te s) (te s1) /\ (forall m, fresh m (g s) -> seek_mem lty c1 m = m) /\
              Forall (at_time t mask) c1 /\ touches c1 /\ labels_in (g s) (g s1) c1).
    { clear. intros c c1 s1 H. destruct (lower_shape avail auto_casts rty lty t mask fuel c s c1 s1 H) as [G [L [N A]]].
      split; [exact G|]. split; [exact A|]. split; [exact N|]. split; [eapply lower_times; exact H|].
      split; [eapply lower_touches; exact H | exact L]. }
    destruct stmt as [v aop e|ty0 vars|k c l jt|l jt|l|opc args|d|e|]; cbn [wf_stmt] in Hwf; try contradiction;
      cbn [Lower.lower_stmt] in Hl; cbn [LowerProg.sseek is_silent].
    - destruct (Hlow _ _ _ Hl) as [G [A [N [Ht [Hx L]]]]]. auto 8.
    - destruct Hwf as [[d [e [-> [Hd _]]]] | Hall];
        [|change (lower_decl t mask fuel ty0 vars s = Ok (c1, s1)) in Hl;
          destruct (decl_list_static n0 t mask fuel ty0 vars s c1 s1 Hl Hall Hn) as [G [A [Hat [L [Hx N]]]]];
          (split; [exact G|]); (split; [exact A|]); (split; [exact N|]); (split; [exact Hat|]); (split; [exact Hx | exact L])].
      cbn [Lower.lower_stmt] in Hl. unfold seq, ret in Hl.
      destruct (lower t mask fuel (CAssignOp (mkvar None (VLoc d)) None e) s) as [[ca sa]| | |] eqn:Ela; try discriminate.
      inversion Hl; subst c1 s1. destruct (Hlow _ _ _ Ela) as [G [A [N [Ht [Hx L]]]]]. rewrite app_nil_r.
      split; [exact G|]. split; [exact A|].
      split; [intros m Hm; cbn [app LowerShape.seek_mem fold_left fst]; apply N; apply fresh_upd; [exact Hm | lia]|].
      split; [constructor; [exact I | exact Ht]|]. split; [intros _; apply (touches_app_r [LAlloc d ty0] ca Hx)|].
      constructor; [exact I | exact L].
    - assert (Hc : forall v op, lower_count_jump t mask k v op l jt s = Ok (c1, s1) ->
                (g s <= g s1)%nat /\ te_agree (g s) (te s) (te s1) /\ (forall m, fresh m (g s) -> seek_mem lty c1 m = m) /\
                Forall (at_time t mask) c1 /\ (false = false -> touches c1) /\ labels_in (g s) (g s1) c1).
      { intros v op H. destruct (count_static t mask k v op l jt s c1 s1 H) as [Ht [_ [Hx [L [N [G E]]]]]].
        split; [exact G|]. split; [rewrite E; apply te_agree_refl_|]. split; [exact N|]. split; [exact Ht|]. split; [intros _; exact Hx | exact L]. }
      destruct c as [v|v op|e].
      + eapply Hc. exact Hl.
      + destruct op; try discriminate; eapply Hc; exact Hl.
      + destruct (Hlow _ _ _ Hl) as [G [A [N [Ht [Hx L]]]]]. auto 8.
    - unfold need, instr, ret in Hl. destruct (avail KJmp); [|discriminate]. destruct (Hone _ Hl) as [G [A [N [Ht [Hx L]]]]]. auto 8.
    - unfold ret in Hl. inversion Hl; subst. split; [lia|]. split; [apply te_agree_refl_|]. split; [intros; reflexivity|].
      split; [repeat constructor|]. split; [intros _; reflexivity | reflexivity].
    - destruct (lower_args t mask fuel args s) as [[[[c la] ds] sa]| | |] eqn:El; try discriminate.
      inversion Hl; subst c1 s1. clear Hl.
      destruct (args_static avail auto_casts rty lty t mask no_sigil_intrinsics fuel args s c la ds sa El) as [Hat [_ [L [G [A N]]]]].
      destruct (frees_shape (rev ds) (g s) (g sa) t mask) as [Hf1 Hf2].
      split; [exact G|]. split; [exact A|].
      split; [intros m Hm; apply (N [LInstr t mask (ICall opc la)]); [intros; reflexivity | exact Hm]|].
      split; [apply Forall_app; split; [exact Hat|]; constructor; [split; reflexivity | exact Hf1]|].
      split; [intros _; apply touches_app_r; reflexivity|].
      apply labels_in_app; [exact L|]. constructor; [exact I | exact Hf2].
    - unfold ret in Hl. inversion Hl; subst. split; [lia|]. split; [apply te_agree_refl_|]. split; [intros; reflexivity|].
      split; [repeat constructor|]. split; [discriminate | repeat constructor].
    - destruct e; try discriminate. unfold need, instr, ret in Hl. destruct (avail KInterrupt); [|discriminate].
      destruct (Hone _ Hl) as [G [A [N [Ht [Hx L]]]]]. auto 8.
    - unfold ret in Hl. inversion Hl; subst. split; [lia|]. split; [apply te_agree_refl_|]. split; [intros; reflexivity|].
      split; [constructor|]. split; [discriminate | constructor].
  Qed.

  Notation lower_body := (lower_body avail auto_casts rty lty).
  Notation sblk := (sblk T libm rty lty diff dsel true).
  Notation sprog := (sprog T libm rty lty diff dsel true).
  Notation wprog := (wprog T libm lty dsel).

  Definition wf_body (n0 : nat) (body : list (Z * Z * sstmt)) : Prop := Forall (fun x => wf_stmt n0 (snd x)) body.
  Definition mode_user (md : mode) : Prop := match md with Exec => True | Seek l _ => user l end.

  Lemma lower_body_cons fuel t mask stmt rest s code s' :
    lower_body fuel ((t, mask, stmt) :: rest) s = Ok (code, s') ->
    exists c1 s1 c2, lower_stmt t mask fuel stmt s = Ok (c1, s1) /\ lower_body fuel rest s1 = Ok (c2, s') /\ code = c1 ++ c2.
  Proof.
    cbn [LowerProg.lower_body]. destruct (lower_stmt t mask fuel stmt s) as [[c1 s1]| | |] eqn:E1; try discriminate.
    destruct (lower_body fuel rest s1) as [[c2 s2]| | |] eqn:E2; try discriminate. intros H. inversion H; subst.
    exists c1, s1, c2. split; [reflexivity|]. split; [exact E2 | reflexivity].
  Qed.

  Lemma sseek_fresh n0 stmt m : wf_stmt n0 stmt -> fresh m n0 -> fresh (sseek stmt m) n0.
  Proof.
    intros Hwf Hfr. destruct stmt; cbn [wf_stmt] in Hwf; try contradiction; cbn [LowerProg.sseek]; try exact Hfr.
    - destruct Hwf as [[d [e [-> [Hd _]]]] | Hall].
      + cbn [fold_left fst]. apply fresh_upd; assumption.
      + apply fold_reset_fresh; assumption.
    - apply fresh_upd; assumption.
  Qed.

  (* one pass over the body (from any statement boundary, executing or seeking a user label) *)
  Lemma body_sim n0 fuel : forall body s code s', lower_body fuel body s = Ok (code, s') -> wf_body n0 body ->
    (n0 <= g s)%nat -> te_agree n0 [] (te s) ->
    forall md st md' st', mode_user md -> fresh (p_mem st) n0 -> sblk body md st = Ok (md', st') ->
    (forall cmp, exists c', wblk code md st cmp = Ok (md', st', c')) /\ fresh (p_mem st') n0 /\ mode_user md'.
  Proof.
    induction body as [|[[t mask] stmt] rest IH]; intros s code s' Hl Hwf Hn Ha md st md' st' Hmd Hfr Hs.
    - cbn in Hl. inversion Hl; subst. cbn in Hs. inversion Hs; subst. split; [|split; assumption].
      intros cmp. exists cmp. reflexivity.
    - destruct (lower_body_cons fuel t mask stmt rest s code s' Hl) as [c1 [s1 [c2 [Hl1 [Hl2 ->]]]]].
      pose proof (Forall_inv Hwf) as Hw1. cbn [snd] in Hw1. pose proof (Forall_inv_tail Hwf) as Hwf'.
      destruct (stmt_shape n0 t mask fuel stmt s c1 s1 Hl1 Hw1 Ha Hn) as [G [A [N [Hat [Htouch L]]]]].
      assert (Hn1 : (n0 <= g s1)%nat) by lia.
      assert (Ha1 : te_agree n0 [] (te s1)).
      { intros d Hd. rewrite (A d) by lia. apply Ha. exact Hd. }
      assert (Hfs : fresh (p_mem st) (g s)) by (eapply fresh_mono; eassumption).
      cbn [LowerProg.sblk] in Hs.
      destruct md as [|l jt].
      + (* executing *)
        cbn [andb] in Hs. destruct (Z.ltb_spec t (p_time st)) as [Hlt|Hle]; [discriminate|].
        destruct (is_silent stmt && (p_time st <? t)) eqn:Esil; [discriminate|].
        assert (Hentry : forall cmp, wblk c1 Exec st cmp = wblk c1 Exec (wait t st) cmp).
        { intros cmp. destruct (is_silent stmt) eqn:Es.
          - cbn [andb] in Esil. apply Z.ltb_ge in Esil. rewrite wait_at by lia. reflexivity.
          - apply (wblk_entry T libm lty dsel t mask c1 st cmp Hat). apply Htouch. reflexivity. }
        assert (Hsil : is_silent stmt = true -> p_time st = t).
        { intros Es. rewrite Es in Esil. cbn [andb] in Esil. apply Z.ltb_ge in Esil. lia. }
        destruct (runs dsel mask) eqn:Hr1; cbn [negb] in Hs.
        * destruct (stmt_nonan T libm rty lty diff stmt (p_mem (wait t st))) eqn:Hnn; cbn [negb] in Hs; [|discriminate].
          destruct (sstep stmt (p_mem (wait t st))) as [[[m' j] lg]| | |] eqn:Est; try discriminate.
          destruct (stmt_sim n0 t mask fuel stmt s c1 s1 st m' j lg Hr1 Hl1 Hw1 Hn Ha Hfs Hle Hsil Hnn Est) as [Hrun _].
          assert (Hfr' : fresh (p_mem (logged lg (set_mem (wait t st) m'))) n0).
          { rewrite logged_mem. cbn [p_mem set_mem]. eapply sstep_fresh; [exact Hw1| |exact Est]. rewrite wait_mem. exact Hfr. }
          assert (Hmd' : mode_user (mode_of j)).
          { destruct j as [[l jt]|]; [|exact I]. cbn. eapply sstep_jump_user; eassumption. }
          destruct (IH s1 c2 s' Hl2 Hwf' Hn1 Ha1 (mode_of j) _ md' st' Hmd' Hfr' Hs) as [Hrest [Hf' Hm']].
          split; [|split; assumption].
          intros cmp. rewrite wblk_app. destruct (Hrun cmp) as [c' E]. rewrite E. apply Hrest.
        * (* disabled on this difficulty: waits, markers *)
          assert (Hfr' : fresh (p_mem (set_mem (wait t st) (sseek stmt (p_mem (wait t st))))) n0).
          { cbn [p_mem set_mem]. apply sseek_fresh; [exact Hw1|]. rewrite wait_mem. exact Hfr. }
          destruct (IH s1 c2 s' Hl2 Hwf' Hn1 Ha1 Exec _ md' st' I Hfr' Hs) as [Hrest [Hf' Hm']].
          split; [|split; assumption].
          intros cmp. rewrite wblk_app, Hentry.
          rewrite (wblk_off T libm lty dsel t mask Hr1 c1 (wait t st) cmp Hat (wait_time t st Hle)).
          rewrite (N (p_mem (wait t st))) by (rewrite wait_mem; exact Hfs). apply Hrest.
      + (* seeking the user label l *)
        cbn [mode_user] in Hmd.
        assert (Hother : sblk rest (Seek l jt) (set_mem st (sseek stmt (p_mem st))) = Ok (md', st') -> labels_in (g s) (g s1) c1 ->
                  (forall cmp, exists c', wblk (c1 ++ c2) (Seek l jt) st cmp = Ok (md', st', c')) /\ fresh (p_mem st') n0 /\ mode_user md').
        { intros Hs' L'.
          assert (Hfr' : fresh (p_mem (set_mem st (sseek stmt (p_mem st)))) n0).
          { cbn [p_mem set_mem]. apply sseek_fresh; assumption. }
          destruct (IH s1 c2 s' Hl2 Hwf' Hn1 Ha1 (Seek l jt) _ md' st' Hmd Hfr' Hs') as [Hrest [Hf' Hm']].
          split; [|split; assumption]. intros cmp. rewrite wblk_app.
          rewrite (wblk_seek T libm lty dsel l jt c1 st cmp (labels_in_not_user _ _ _ _ L' Hmd)).
          rewrite (N (p_mem st) Hfs). apply Hrest. }
        destruct stmt as [v aop e|ty0 vars|k c l0 jt0|l0 jt0|l0|opc args|d|e|]; try (apply Hother; assumption).
        subst c1. destruct (label_eqb l l0) eqn:E.
        * assert (Hfr' : fresh (p_mem (arrive t jt st)) n0) by (rewrite arrive_mem; exact Hfr).
          destruct (IH s1 c2 s' Hl2 Hwf' Hn1 Ha1 Exec (arrive t jt st) md' st' I Hfr' Hs) as [Hrest [Hf' Hm']].
          split; [|split; assumption]. intros cmp. rewrite wblk_app. cbn [LowerProg.wblk]. rewrite E. apply Hrest.
        * destruct (IH s1 c2 s' Hl2 Hwf' Hn1 Ha1 (Seek l jt) st md' st' Hmd Hfr Hs) as [Hrest [Hf' Hm']].
          split; [|split; assumption]. intros cmp. rewrite wblk_app. cbn [LowerProg.wblk]. rewrite E. apply Hrest.
  Qed.

  Lemma labels_in_no_user lo hi code l : labels_in lo hi code -> user l -> existsb (is_llabel l) code = false.
  Proof.
    intros H Hu. induction code as [|x code IH]; [reflexivity|].
    pose proof (Forall_inv H) as Hx. cbn [existsb]. rewrite (IH (Forall_inv_tail H)). rewrite Bool.orb_false_r.
    destruct x; try reflexivity. cbn in *. destruct l0; [contradiction|]. destruct l; [reflexivity | contradiction].
  Qed.

  Lemma label_exists n0 fuel l : user l -> forall body s code s', lower_body fuel body s = Ok (code, s') -> wf_body n0 body ->
    te_agree n0 [] (te s) -> (n0 <= g s)%nat ->
    existsb (is_slabel l) body = existsb (is_llabel l) code.
  Proof.
    intros Hu. induction body as [|[[t mask] stmt] rest IH]; intros s code s' Hl Hwf Ha Hn.
    - cbn in Hl. inversion Hl. reflexivity.
    - destruct (lower_body_cons fuel t mask stmt rest s code s' Hl) as [c1 [s1 [c2 [Hl1 [Hl2 ->]]]]].
      pose proof (Forall_inv Hwf) as Hw1. cbn [snd] in Hw1. pose proof (Forall_inv_tail Hwf) as Hwf'.
      destruct (stmt_shape n0 t mask fuel stmt s c1 s1 Hl1 Hw1 Ha Hn) as [G [A [N [Hat [Htouch L]]]]].
      assert (Ha1 : te_agree n0 [] (te s1)).
      { intros d Hd. rewrite (A d) by lia. apply Ha. exact Hd. }
      cbn [existsb]. rewrite existsb_app. rewrite (IH s1 c2 s' Hl2 Hwf' Ha1) by lia. f_equal.
      unfold is_slabel. cbn [snd].
      destruct stmt; try (cbn; symmetry; eapply labels_in_no_user; eassumption).
      subst c1. cbn. rewrite Bool.orb_false_r. reflexivity.
  Qed.

  (* whole runs, re-entering the body for every jump that leaves it *)
  Theorem prog_sim n0 fuel body code s' :
    lower_body fuel body (mklst n0 []) = Ok (code, s') -> wf_body n0 body ->
    forall fs md st cmp st', mode_user md -> fresh (p_mem st) n0 ->
    sprog fs body md st = Ok st' -> wprog fs code md st cmp = Ok st'.
  Proof.
    intros Hl Hwf. induction fs as [|fs IH]; intros md st cmp st' Hmd Hfr Hs; [discriminate|].
    cbn [LowerProg.sprog] in Hs. cbn [LowerProg.wprog].
    destruct (sblk body md st) as [[md1 st1]| | |] eqn:Eb; try discriminate.
    destruct (body_sim n0 fuel body (mklst n0 []) code s' Hl Hwf (le_n _) (te_agree_refl_ n0 []) md st md1 st1 Hmd Hfr Eb)
      as [Hrun [Hf1 Hm1]].
    destruct (Hrun cmp) as [c' E]. rewrite E.
    destruct md1 as [|l jt]; [exact Hs|].
    cbn [mode_user] in Hm1.
    rewrite <- (label_exists n0 fuel l Hm1 body (mklst n0 []) code s' Hl Hwf (te_agree_refl_ n0 []) (le_n _)).
    destruct (existsb (is_slabel l) body); [|discriminate].
    apply IH; assumption.
  Qed.
End Sim.
