(* Proofs/RegAlloc.v -- the allocator invariant, by induction over the statement stream. *)
From TV Require Import Base.I32 Model.RegAlloc Proofs.RegAllocBase.
Open Scope Z_scope.

Notation cnt := (count_occ Z.eq_dec).

Lemma run_app c K : forall c1 c2 s,
  run c K s (c1 ++ c2) =
  (do r1 <- run c K s c1; do r2 <- run c K (fst r1) c2; Ok (fst r2, snd r1 ++ snd r2)).
Proof.
  induction c1 as [|x t IH]; intros c2 s; simpl.
  - destruct (run c K s c2) as [[s' o]| | |]; reflexivity.
  - destruct (step c K s x) as [[s1 x1]| | |]; simpl; try reflexivity.
    rewrite IH. destruct (run c K s1 t) as [[s2 o2]| | |]; simpl; try reflexivity.
    destruct (run c K s2 c2) as [[s3 o3]| | |]; reflexivity.
Qed.

Section Inv.
  Variable c : cfg.
  Variable code : list lstmt.

  Let E := explicit c code.
  Let P := param_regs c.
  Let NP := named_param_regs c.
  Let K := clash c E.
  Let G := general c.

  (* side conditions on the configuration: no register is in two pools / twice in a pool, and
     distinct parameters live in distinct registers *)
  Hypothesis pools_nodup : NoDup (G TInt ++ G TFloat ++ G TString).
  Hypothesis params_nodup : NoDup P.

  Definition good (t : ty) (r : Z) : Prop := In r (G t) /\ ~ In r E /\ ~ In r P.

  Definition Inv (s : st) : Prop :=
    NoDup (map fst (locals s)) /\
    NoDup (map snd (locals s)) /\
    (forall d r, In (d, r) (locals s) ->
       In (d, r) (named_params (params c)) \/ exists t, tyof c d = Some t /\ good t r) /\
    (forall t r, In r (getp (free s) t) -> In r NP \/ good t r) /\
    (forall r, ~ In r P -> (cnt (all_free (free s)) r + cnt (map snd (locals s)) r <= 1)%nat).

  Lemma NP_P r : In r NP -> In r P.
  Proof. apply named_params_regs. Qed.

  Lemma named_NP d r : In (d, r) (named_params (params c)) -> In r NP.
  Proof. intros H. unfold NP, named_param_regs. change r with (snd (d, r)). now apply in_map. Qed.

  Lemma named_params_In d r : In (d, r) (named_params (params c)) -> In (Some d, r) (params c).
  Proof.
    induction (params c) as [|[[d1|] r1] t IH]; simpl; [tauto| |]; intros H.
    - destruct H as [H|H]; [inversion H; now left | right; auto].
    - right; auto.
  Qed.

  Lemma filter_keep_good t r :
    In r (filter (fun r => negb (memZ r E) && negb (memZ r P)) (G t)) -> good t r.
  Proof.
    rewrite filter_In, andb_true_iff, !negb_true_iff, !memZ_nIn. unfold good. tauto.
  Qed.

  Lemma init_inv : Inv (init c code).
  Proof.
    unfold Inv, init. simpl. fold E P.
    set (keep := filter (fun r => negb (memZ r E) && negb (memZ r P))).
    change (fold_left (fun acc p => insert (fst p) (snd p) acc) (named_params (params c)) [])
      with (ins_all (named_params (params c)) []).
    assert (HL0 : forall d r, In (d, r) (ins_all (named_params (params c)) []) ->
                          In (d, r) (named_params (params c))).
    { intros d r H. apply ins_all_In in H. now destruct H as [H|[]]. }
    assert (HL : forall d r, In (d, r) (ins_all (named_params (params c)) []) -> In r NP).
    { intros d r H. apply HL0 in H.
      unfold NP, named_param_regs. change r with (snd (d, r)). now apply in_map. }
    assert (HC : forall r, (cnt (map snd (ins_all (named_params (params c)) [])) r <= cnt P r)%nat).
    { intros r. pose proof (ins_all_cnt (named_params (params c)) [] r) as H. simpl in H.
      pose proof (named_params_cnt (params c) r). unfold P, param_regs. lia. }
    repeat split.
    - apply ins_all_NoDup_fst. constructor.
    - apply cnt_le1_NoDup. intros r. specialize (HC r).
      pose proof (NoDup_cnt_le1 P r params_nodup). lia.
    - intros d r H. left. eauto.
    - intros t r H. right. destruct t; simpl in H; now apply filter_keep_good.
    - intros r Hr.
      assert (Z0 : cnt (map snd (ins_all (named_params (params c)) [])) r = 0%nat).
      { apply cnt_zero_nIn. intros H. apply in_map_iff in H. destruct H as [[d v] [Ev Hv]].
        simpl in Ev. subst v. apply Hr, NP_P. eauto. }
      rewrite Z0. unfold all_free. simpl. unfold keep. rewrite <- !filter_app.
      pose proof (cnt_filter_le (fun r => negb (memZ r E) && negb (memZ r P))
                    (G TInt ++ G TFloat ++ G TString) r).
      pose proof (NoDup_cnt_le1 _ r pools_nodup). unfold G in *. lia.
  Qed.

  (* what a successful RegAlloc step picks *)
  Lemma step_alloc_pick s d s' x' :
    Inv s -> step c K s (RegAlloc d) = Ok (s', x') ->
    exists r t rest,
      tyof c d = Some t /\ getp (free s) t = r :: rest /\
      locals s' = (d, r) :: locals s /\ free s' = setp (free s) t rest /\
      good t r /\ ~ In r NP /\ ~ In r (map snd (locals s)) /\ ~ In d (map fst (locals s)).
  Proof.
    intros (Hk & Hr & Hl & Hf & Hc) Hs. unfold step in Hs.
    destruct (tyof c d) as [t|] eqn:Et; [|discriminate].
    destruct (getp (free s) t) as [|r rest] eqn:Ep; [discriminate|].
    destruct (memN d (map fst (locals s))) eqn:Ed; [discriminate|].
    destruct (memZ r K) eqn:Ek; [discriminate|].
    inversion Hs; subst s' x'; clear Hs. simpl.
    apply memN_nIn in Ed. apply memZ_nIn in Ek.
    assert (HnNP : ~ In r NP).
    { intros H. apply Ek. unfold K, clash. apply in_or_app. now right. }
    assert (Hg : good t r).
    { destruct (Hf t r) as [H|H]; [rewrite Ep; now left | tauto | assumption]. }
    exists r, t, rest. repeat split; try assumption; try apply Hg.
    intros Hin. destruct Hg as (_ & _ & HnP). specialize (Hc r HnP).
    assert (In r (all_free (free s))) as H1 by (apply (getp_all_free _ t); rewrite Ep; now left).
    apply cnt_pos_In in H1. apply cnt_pos_In in Hin. lia.
  Qed.

  Lemma step_inv s x s' x' : Inv s -> step c K s x = Ok (s', x') -> Inv s'.
  Proof.
    intros HI Hs. destruct x as [op time diff args|l|d|d].
    - (* Instr: only flags change *)
      simpl in Hs.
      assert (Hsame : locals s' = locals s /\ free s' = free s).
      { destruct args as [l|].
        - destruct (subst_args (locals s) l); simpl in Hs; try discriminate.
          inversion Hs; subst. destruct (anti c op) as [[|]|]; simpl; auto.
        - inversion Hs; subst. destruct (anti c op) as [[|]|]; simpl; auto. }
      destruct Hsame as [H1 H2]. unfold Inv. rewrite H1, H2. exact HI.
    - simpl in Hs. inversion Hs; subst. exact HI.
    - (* RegAlloc *)
      destruct (step_alloc_pick s d s' x' HI Hs)
        as (r & t & rest & Et & Ep & Hl' & Hf' & Hg & HnNP & Hnr & Hnd).
      destruct HI as (Hk & Hr & Hl & Hf & Hc).
      unfold Inv. rewrite Hl', Hf'. simpl. repeat split.
      + constructor; assumption.
      + constructor; assumption.
      + intros d0 r0 [H|H].
        * inversion H; subst. right. exists t. auto.
        * eauto.
      + intros t0 r0 H. destruct (ty_eq_dec t t0) as [->|Hne].
        * rewrite getp_setp_same in H. apply Hf. rewrite Ep. now right.
        * rewrite getp_setp_other in H by assumption. now apply Hf.
      + intros r0 Hr0. specialize (Hc r0 Hr0).
        pose proof (all_free_setp_cnt (free s) t rest r0) as Hcnt. rewrite Ep in Hcnt.
        simpl in Hcnt. destruct (Z.eq_dec r r0); lia.
    - (* RegFree *)
      destruct HI as (Hk & Hr & Hl & Hf & Hc). simpl in Hs.
      destruct (tyof c d) as [t|] eqn:Et; [|discriminate].
      destruct (lookup d (locals s)) as [r|] eqn:El; [|discriminate].
      destruct (memZ r (implicit s)); [|discriminate].
      inversion Hs; subst s' x'; clear Hs. apply lookup_In in El.
      unfold Inv. simpl. repeat split.
      + now apply remove_key_NoDup_fst.
      + now apply remove_key_NoDup_snd.
      + intros d0 r0 H. apply remove_key_In in H. apply Hl. tauto.
      + intros t0 r0 H. destruct (ty_eq_dec t t0) as [<-|Hne].
        * rewrite getp_setp_same in H. destruct H as [<-|H]; [|now apply Hf].
          destruct (Hl d r El) as [H|[t1 [Et1 Hg]]]; [left; eapply named_NP; eauto|]. right. congruence.
        * rewrite getp_setp_other in H by assumption. now apply Hf.
      + intros r0 Hr0. specialize (Hc r0 Hr0).
        pose proof (all_free_setp_cnt (free s) t (r :: getp (free s) t) r0) as Hcnt.
        pose proof (remove_key_count d r (locals s) r0 Hk El) as Hrm.
        simpl in Hcnt. destruct (Z.eq_dec r r0); lia.
  Qed.

  Lemma run_inv : forall l s s' o, Inv s -> run c K s l = Ok (s', o) -> Inv s'.
  Proof.
    induction l as [|x t IH]; intros s s' o HI Hr; simpl in Hr.
    - inversion Hr; subst. exact HI.
    - destruct (step c K s x) as [[s1 x1]| | |] eqn:Es; simpl in Hr; try discriminate.
      destruct (run c K s1 t) as [[s2 o2]| | |] eqn:Er; simpl in Hr; try discriminate.
      inversion Hr; subst. eapply IH; [|exact Er]. eapply step_inv; eauto.
  Qed.

  (* every state the allocator reaches while processing [code] *)
  Definition reachable (s : st) : Prop :=
    exists c1 c2 o, code = c1 ++ c2 /\ run c K (init c code) c1 = Ok (s, o).

  Theorem alloc_inv s : reachable s -> Inv s.
  Proof. intros (c1 & c2 & o & _ & Hr). eapply run_inv; [apply init_inv | exact Hr]. Qed.

  (* the readable consequences of the invariant *)
  Theorem alloc_inv_facts s : reachable s ->
    NoDup (map snd (locals s)) /\
    (forall d r, In (d, r) (locals s) ->
       In (Some d, r) (params c) \/
       exists t, tyof c d = Some t /\ In r (G t) /\ ~ In r E /\ ~ In r P) /\
    (forall r, ~ In r P -> In r (all_free (free s)) ->
       cnt (all_free (free s)) r = 1%nat /\ ~ In r (map snd (locals s))).
  Proof.
    intros Hre. pose proof (alloc_inv s Hre) as (Hk & Hr & Hl & Hf & Hc).
    split; [assumption|]. split.
    - intros d r H. destruct (Hl d r H) as [HNP|[t [Et Hg]]].
      + left. now apply named_params_In.
      + right. exists t. unfold good in Hg. tauto.
    - intros r HrP Hin. specialize (Hc r HrP). apply cnt_pos_In in Hin. split.
      + lia.
      + intros H. apply cnt_pos_In in H. lia.
  Qed.

End Inv.
