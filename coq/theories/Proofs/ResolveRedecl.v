(* Proofs/ResolveRedecl.v -- C10: the visitor emits a redefinition diagnostic exactly when some rib
   (the locals of one block, its const items, its function items, the parameters of one function)
   declares a spelling twice; and the outcome of resolve_names in terms of the specification. *)
From TV Require Import Base.I32 Model.ResolveSyntax Gen.RibTable Model.Resolve Spec.Scope Proofs.ResolveSpec.
Open Scope Z_scope.

Lemma redef_events_app a b : redef_events (a ++ b) = redef_events a ++ redef_events b.
Proof. apply filter_app. Qed.

Lemma redef_events_none l : (forall e, In e l -> is_res e = true) -> redef_events l = [].
Proof.
  induction l as [|e t IH]; intro H; cbn; [reflexivity|].
  rewrite (H e (or_introl eq_refl)). cbn. apply IH. intros; apply H; now right.
Qed.

Lemma redef_events_uses g cv cf al us : redef_events (uses_events g cv cf al us) = [].
Proof. apply redef_events_none. intros e H. apply in_map_iff in H as [u [<- _]]. reflexivity. Qed.

Fixpoint nodup_after (seen l : list ident) : Prop :=
  match l with
  | [] => True
  | x :: t => ~ In x seen /\ nodup_after (x :: seen) t
  end.

Lemma nodup_after_equiv l : forall s1 s2, (forall x, In x s1 <-> In x s2) -> nodup_after s1 l <-> nodup_after s2 l.
Proof.
  induction l as [|y t IH]; intros s1 s2 H; cbn [nodup_after]; [tauto|].
  rewrite (H y). rewrite (IH (y :: s1) (y :: s2)); [tauto|].
  intro x. cbn [In]. rewrite H. tauto.
Qed.

Lemma nodup_after_iff l : forall seen, nodup_after seen l <-> NoDup l /\ forall x, In x l -> ~ In x seen.
Proof.
  induction l as [|y t IH]; intro seen; cbn [nodup_after].
  - split; [intros _; split; [constructor | intros ? []] | tauto].
  - rewrite IH. split.
    + intros [Hy [Hn Hd]]. split.
      * constructor; [|exact Hn]. intro Hin. apply (Hd y Hin). now left.
      * intros x [<-|Hin]; [exact Hy|]. intro Hs. apply (Hd x Hin). now right.
    + intros [Hn Hd]. inversion Hn as [|? ? Hnin Hn']; subst. split; [apply Hd; now left|]. split; [exact Hn'|].
      intros x Hin [<-|Hs]; [contradiction | apply (Hd x); [now right | exact Hs]].
Qed.

Lemma nodup_after_nil l : nodup_after [] l <-> NoDup l.
Proof. rewrite nodup_after_iff. split; [tauto|]. intro H. split; [exact H | intros ? _ []]. Qed.

Lemma nodup_after_app l1 : forall seen l2,
  nodup_after seen (l1 ++ l2) <-> nodup_after seen l1 /\ nodup_after (rev l1 ++ seen) l2.
Proof.
  induction l1 as [|y t IH]; intros seen l2; cbn [app nodup_after rev]; [tauto|].
  rewrite IH. rewrite <- app_assoc. cbn [app]. tauto.
Qed.

Lemma redef_declare ents o d :
  redef_events (fst (declare ents o d)) = [] <-> ~ In (oname o) (map fst ents).
Proof.
  unfold declare. cbn [fst redef_events filter is_res negb].
  destruct (assoc (oname o) ents) as [d'|] eqn:E.
  - cbn. split; [discriminate|]. intro H. exfalso. apply H. apply assoc_some_iff. eauto.
  - cbn. split; [|reflexivity]. intros _ H. apply assoc_some_iff in H as [d' H]. congruence.
Qed.

Lemma app_nil_iff {A} (a b : list A) : a ++ b = [] <-> a = [] /\ b = [].
Proof. split; [apply app_eq_nil | intros [-> ->]; reflexivity]. Qed.

Lemma declare_all_redef mk os : forall ents evs ents',
  declare_all mk ents os = (evs, ents') ->
  (redef_events evs = [] <-> nodup_after (map fst ents) (map oname os))
  /\ map fst ents' = rev (map oname os) ++ map fst ents.
Proof.
  induction os as [|o t IH]; intros ents evs ents' H; cbn [declare_all] in H.
  - inversion H; subst. cbn. tauto.
  - destruct (declare ents o (mk o)) as [e1 ents1] eqn:E1.
    destruct (declare_all mk ents1 t) as [e2 ents2] eqn:E2. inversion H; subst; clear H.
    destruct (IH _ _ _ E2) as [H1 H2].
    assert (Hents1 : ents1 = (oname o, mk o) :: ents) by (unfold declare in E1; now inversion E1).
    split.
    + rewrite redef_events_app, app_nil_iff, H1. cbn [map nodup_after].
      change e1 with (fst (e1, ents1)). rewrite <- E1, redef_declare. subst ents1. cbn [map fst]. tauto.
    + rewrite H2. subst ents1. cbn [map fst rev]. now rewrite <- app_assoc.
Qed.

Lemma declare_funcs_redef fs : forall ents evs ents',
  declare_funcs ents fs = (evs, ents') ->
  (redef_events evs = [] <-> nodup_after (map fst ents) (map (fun fn => oname (fst fn)) fs)).
Proof.
  induction fs as [|[f n] t IH]; intros ents evs ents' H; cbn [declare_funcs] in H.
  - inversion H; subst. cbn. tauto.
  - destruct (declare ents f (DFunc (oid f) n)) as [e1 ents1] eqn:E1.
    destruct (declare_funcs ents1 t) as [e2 ents2] eqn:E2. inversion H; subst; clear H.
    assert (Hents1 : ents1 = (oname f, DFunc (oid f) n) :: ents) by (unfold declare in E1; now inversion E1).
    rewrite redef_events_app, app_nil_iff, (IH _ _ _ E2). cbn [map nodup_after fst].
    change e1 with (fst (e1, ents1)). rewrite <- E1, redef_declare. subst ents1. cbn [map fst]. tauto.
Qed.

Lemma declare_items_redef its e cents fents :
  declare_items its = (e, cents, fents) ->
  (redef_events e = [] <-> NoDup (const_names its) /\ NoDup (func_names its)).
Proof.
  unfold declare_items. intro H.
  destruct (declare_all mk_const [] (const_occs its)) as [ec cents0] eqn:Ec.
  destruct (declare_funcs [] (func_occs its)) as [ef fents0] eqn:Ef.
  inversion H; subst; clear H.
  destruct (declare_all_redef _ _ _ _ _ Ec) as [C _].
  pose proof (declare_funcs_redef _ _ _ _ Ef) as F.
  rewrite redef_events_app, app_nil_iff, C, F. cbn [map]. rewrite !nodup_after_nil. reflexivity.
Qed.

Section Redecl.
  Variable g : genv.
  Variables fl sl : lang.

  Lemma decl_events_redef vars : forall locals cv cf al evs locals',
    decl_events g locals cv cf al vars = (evs, locals') ->
    (redef_events evs = [] <-> nodup_after (map fst locals) (map (fun v => oname (fst v)) vars))
    /\ map fst locals' = rev (map (fun v => oname (fst v)) vars) ++ map fst locals.
  Proof.
    induction vars as [|[o init] t IH]; intros locals cv cf al evs locals' H; cbn [decl_events] in H.
    - inversion H; subst. cbn. tauto.
    - destruct (declare locals o (mk_local o)) as [e1 locals1] eqn:E1.
      destruct (decl_events g locals1 cv cf al t) as [e2 locals2] eqn:E2. inversion H; subst; clear H.
      destruct (IH _ _ _ _ _ _ E2) as [H1 H2].
      assert (Hl1 : locals1 = (oname o, mk_local o) :: locals) by (unfold declare in E1; now inversion E1).
      split.
      + rewrite !redef_events_app, redef_events_uses, !app_nil_iff, H1. cbn [app map nodup_after fst].
        change e1 with (fst (e1, locals1)). rewrite <- E1, redef_declare. subst locals1. cbn [map fst]. tauto.
      + rewrite H2. subst locals1. cbn [map fst rev]. now rewrite <- app_assoc.
  Qed.

  Definition Rb (b : block) : Prop := forall locals cv cf al,
    redef_events (visit_stmts g fl sl locals cv cf al b) = [] <-> nodup_after (map fst locals) (local_names b) /\ nr_sub b.
  Definition Rs (s : stmt) : Prop := forall rest, Rb rest -> Rb (BCons s rest).
  Definition Ri (i : item) : Prop := forall cv cf, redef_events (visit_item g fl sl cv cf i) = [] <-> nr_item i.

  Lemma enter_block_redef b cv cf al e cents fents :
    Rb b -> declare_items (block_items b) = (e, cents, fents) ->
    (redef_events (e ++ visit_stmts g fl sl [] cv cf al b) = [] <-> heads_ok b /\ nr_sub b).
  Proof.
    intros HR D. rewrite redef_events_app, app_nil_iff, (declare_items_redef _ _ _ _ D), (HR [] cv cf al).
    cbn [map]. rewrite nodup_after_nil. unfold heads_ok. tauto.
  Qed.

  Lemma redef_all : (forall s, Rs s) /\ (forall b, Rb b) /\ (forall i, Ri i).
  Proof.
    apply syntax_mutind.
    - (* SUses *) intros us rest IH locals cv cf al. rewrite vs_uses, redef_events_app, redef_events_uses. cbn [app local_names nr_sub].
      rewrite (IH locals cv cf al). tauto.
    - (* SDecl *) intros vars rest IH locals cv cf al. rewrite vs_decl.
      destruct (decl_events g locals cv cf al vars) as [e locals'] eqn:E.
      destruct (decl_events_redef _ _ _ _ _ _ _ E) as [H1 H2].
      rewrite redef_events_app, app_nil_iff, H1, (IH locals' cv cf al). cbn [local_names nr_sub]. rewrite nodup_after_app, H2. tauto.
    - (* SBlock *) intros b' IHb rest IH locals cv cf al. rewrite vs_block.
      destruct (declare_items (block_items b')) as [[e cents] fents] eqn:D.
      rewrite app_assoc, redef_events_app, app_nil_iff, (enter_block_redef b' _ _ al e cents fents IHb D), (IH locals cv cf al).
      cbn [local_names nr_sub]. tauto.
    - (* SItem *) intros i IHi rest IH locals cv cf al. rewrite vs_item, redef_events_app, app_nil_iff, (IHi (Rib TLocals locals :: cv) cf), (IH locals cv cf al).
      cbn [local_names nr_sub]. tauto.
    - (* BNil *) intros locals cv cf al. cbn. tauto.
    - (* BCons *) intros s IHs b IHb. now apply IHs.
    - (* IConst *) intros vars cv cf. rewrite vi_const. unfold const_events. cbn [nr_item].
      split; [tauto|]. intros _. induction vars as [|v t IHt]; cbn [flat_map]; [reflexivity|].
      now rewrite redef_events_app, redef_events_uses, IHt.
    - (* IFunc *) intros q f ps body IHb cv cf. rewrite vi_func.
      destruct (declare_all mk_param [] ps) as [ep pents] eqn:Ep.
      destruct (declare_items (block_items body)) as [[e cents] fents] eqn:D.
      destruct (declare_all_redef _ _ _ _ _ Ep) as [P _].
      rewrite redef_events_app, app_nil_iff, P, (enter_block_redef body _ _ _ e cents fents IHb D).
      cbn [map nr_item]. rewrite nodup_after_nil. tauto.
    - (* IFuncDecl *) intros q f ps cv cf. rewrite vi_funcdecl. cbn [nr_item]. split; [tauto|]. intros _.
      apply redef_events_none. intros e H. apply in_map_iff in H as [p [<- _]]. reflexivity.
    - (* IScript *) intros b IHb cv cf. rewrite vi_script.
      destruct (declare_items (block_items b)) as [[e cents] fents] eqn:D.
      rewrite (enter_block_redef b _ _ _ e cents fents IHb D). cbn [nr_item]. tauto.
    - (* IMeta *) intros us cv cf. rewrite vi_meta, redef_events_uses. cbn [nr_item]. tauto.
  Qed.

  Theorem redeclaration_iff : forall p, redef_events (resolve g fl sl p) = [] <-> no_redeclaration p.
  Proof.
    destruct redef_all as [_ [HRb HRi]].
    intros [items|b]; cbn [resolve no_redeclaration].
    - destruct (declare_items items) as [[e cents] fents] eqn:D.
      rewrite redef_events_app, app_nil_iff, (declare_items_redef _ _ _ _ D).
      assert (A : forall its, redef_events (flat_map (visit_item g fl sl [Rib TItems cents] [Rib TItems fents]) its) = [] <-> Forall nr_item its).
      { induction its as [|i t IH]; cbn [flat_map].
        - split; [constructor | reflexivity].
        - rewrite redef_events_app, app_nil_iff, IH, (HRi i _ _). split; [intros [? ?]; now constructor | intro H; inversion H; tauto]. }
      rewrite A. tauto.
    - unfold visit_block, nr_block.
      destruct (declare_items (block_items b)) as [[e cents] fents] eqn:D.
      apply (enter_block_redef b _ _ _ e cents fents (HRb b) D).
  Qed.

  (* ---- the outcome of resolve_names ---- *)

  Lemma errors_split evs : errors evs = [] <-> errors (res_events evs) = [] /\ redef_events evs = [].
  Proof.
    induction evs as [|e t IH]; cbn; [tauto|].
    destruct e as [id r|id]; cbn.
    - destruct (is_error r); cbn; [split; [discriminate | intros [H _]; discriminate] | exact IH].
    - split; [discriminate | intros [_ H]; discriminate].
  Qed.

  Lemma errors_nil_iff evs : errors evs = [] <-> forall e, In e evs -> event_is_error e = false.
  Proof.
    unfold errors. induction evs as [|e t IH]; cbn [filter In]; [split; [intros _ ? [] | reflexivity]|].
    destruct (event_is_error e) eqn:E.
    - split; [discriminate|]. intro H. specialize (H e (or_introl eq_refl)). congruence.
    - rewrite IH. split; [intros H e' [<-|Hin]; auto | intros H e' Hin; apply H; now right].
  Qed.

  (* resolve_names succeeds exactly when nothing is declared twice in one rib and every
     occurrence denotes a definition (or is never visited) under the scoping rules *)
  Theorem resolve_ok_iff : forall p evs,
    resolve_outcome g fl sl p = Ok evs <->
    evs = resolve g fl sl p /\ no_redeclaration p
    /\ forall id r, binds g fl sl p id r -> is_error r = false.
  Proof.
    intros p evs. unfold resolve_outcome, binds.
    pose proof (errors_split (resolve g fl sl p)) as S.
    rewrite resolve_sound_complete, redeclaration_iff in S.
    destruct (errors (resolve g fl sl p)) as [|e0 t] eqn:E.
    - destruct S as [S _]. destruct (S eq_refl) as [S1 S2].
      split; [intro H; inversion H; subst|intros [-> _]; reflexivity].
      split; [reflexivity|]. split; [exact S2|].
      intros id r Hin. rewrite errors_nil_iff in S1. apply (S1 _ Hin).
    - split; [discriminate|]. intros [_ [Hn Hb]]. exfalso.
      destruct S as [_ S]. assert (X : e0 :: t = []); [|discriminate]. apply S. split; [|exact Hn].
      apply errors_nil_iff. intros [id r|id] Hin; [apply (Hb id r Hin)|].
      (* the specification has no redefinition events *)
      rewrite <- resolve_sound_complete in Hin. unfold res_events in Hin. apply filter_In in Hin as [_ Hin]. discriminate.
  Qed.

  (* ... and fails exactly for: unknown name, local across an item boundary, ambiguous / missing
     enum const, or a redeclaration in one rib *)
  Theorem resolve_err_iff : forall p,
    resolve_outcome g fl sl p = Err E_RESOLVE <->
    ~ no_redeclaration p
    \/ exists id r, binds g fl sl p id r /\
         (r = RUnknown \/ (exists d, r = RBarrier d) \/ r = RAmbiguous \/ r = RNoEnum \/ r = RNoConst).
  Proof.
    intro p.
    assert (Dec : forall evs : list event, (forall e, In e evs -> event_is_error e = false) \/ exists e, In e evs /\ event_is_error e = true).
    { induction evs as [|e t [IH|[e' [Hin He]]]].
      - left. intros ? [].
      - destruct (event_is_error e) eqn:E; [right; exists e; split; [now left | exact E] | left; intros e' [<-|Hin]; auto].
      - right. exists e'. split; [now right | exact He]. }
    split.
    - intro H. destruct (Dec (scope_spec g fl sl p)) as [Hall|[e [Hin He]]].
      + left. intro Hn. assert (X : resolve_outcome g fl sl p = Ok (resolve g fl sl p)).
        { apply resolve_ok_iff. split; [reflexivity|]. split; [exact Hn|]. intros id r Hb. apply (Hall _ Hb). }
        congruence.
      + right. destruct e as [id r|id].
        * exists id, r. split; [exact Hin|]. destruct r; cbn in He; try discriminate; eauto 6.
        * exfalso. rewrite <- resolve_sound_complete in Hin. apply filter_In in Hin as [_ Hin]. discriminate.
    - intro H. unfold resolve_outcome. destruct (errors (resolve g fl sl p)) as [|e0 t] eqn:E; [|reflexivity].
      exfalso. assert (X : resolve_outcome g fl sl p = Ok (resolve g fl sl p)) by (unfold resolve_outcome; now rewrite E).
      apply resolve_ok_iff in X as [_ [Hn Hb]].
      destruct H as [H|[id [r [Hin Hr]]]]; [contradiction|].
      specialize (Hb id r Hin). destruct Hr as [->|[[d ->]|[->|[->| ->]]]]; discriminate.
  Qed.
End Redecl.
