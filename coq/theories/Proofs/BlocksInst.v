(* Proofs/BlocksInst.v -- the concrete language [IL] satisfies the three laws the simulation
   needs; concrete runs: a non-vacuity witness and the counterexamples showing that each guard
   of [Strict] is necessary (AstVm's structured interpreter and the jump form really differ). *)
From TV Require Import Base.I32 Model.Blocks Model.BlocksInst Gen.DesugarRules Proofs.BlocksStatic Proofs.BlocksSim Proofs.BlocksMono.
Open Scope Z_scope.

Lemma w32_eq z : w32 z = wrap32 z.
Proof.
  unfold w32. destruct (in_i32b z) eqn:E; auto. apply in_i32b_spec in E. symmetry. apply wrap32_id; auto.
Qed.
Lemma w32_range z : in_i32 (w32 z).
Proof. rewrite w32_eq. apply wrap32_range. Qed.
Lemma rlookup_iwr v z r : rlookup v (iwr v z r) = Some z.
Proof.
  induction r as [|[k x] t IH]; cbn [iwr rlookup]. rewrite Z.eqb_refl; reflexivity.
  destruct (v =? k) eqn:E; cbn [rlookup]. rewrite Z.eqb_refl; reflexivity. rewrite E. exact IH.
Qed.

Lemma IL_const : forall e n r, const_int IL e = Some n -> eval_int IL e r = Ok (n, r).
Proof. intros e n r H. destruct e; cbn in *; try discriminate. inversion H; subst. reflexivity. Qed.

Lemma b2z_range b : in_i32 (b2z b).
Proof. destruct b; cbn; unfold in_i32, I32_MIN, I32_MAX; lia. Qed.

Lemma IL_i32 : forall e r z r', eval_int IL e r = Ok (z, r') -> in_i32 z.
Proof.
  cbn [eval_int IL]. induction e as [z0|v|a IHa op b IHb|v]; intros r z r' H; cbn [ieval] in H.
  - inversion H; subst. apply w32_range.
  - unfold ird in H. destruct (rlookup v r); cbn in H; inversion H; subst. apply w32_range.
  - apply obind_ok in H. destruct H as ([za ra] & Ea & H). apply obind_ok in H. destruct H as ([zb rb] & Eb & H).
    inversion H; subst. cbn [fst]. destruct op; cbn [bop_eval]; try apply w32_range; apply b2z_range.
  - unfold ird in H. destruct (rlookup v r); cbn in H; inversion H; subst. apply w32_range.
Qed.

Lemma IL_rw : forall v z r, in_i32 z -> rd IL v (wr IL v z r) = Ok z.
Proof.
  intros v z r H. cbn [rd wr IL]. unfold ird. rewrite rlookup_iwr, w32_eq.
  rewrite wrap32_id by auto. reflexivity.
Qed.

Theorem desugar_correct_IL tg fl p st fuel st' :
  wf_prog IL p = true ->
  run_struct IL fuel (Strict tg fl) p st = Ok st' ->
  exists fuel' tm', run_flat IL fuel' (desugar IL fl p) st = Ok (st', tm').
Proof. apply desugar_correct_strict. apply IL_const. apply IL_i32. apply IL_rw. Qed.

(* ---- concrete programs ---- *)
Fixpoint blk (l : list (stmt IL)) : block IL :=
  match l with [] => BNil | s :: t => BCons s (blk t) end.
Definition nop : stmt IL := SAtom ANop.
Definition tabs (t : Z) : stmt IL := SAtom (ATime (TAbs t)).
Definition trel (d : Z) : stmt IL := SAtom (ATime (TRel d)).
Definition ins (op : Z) (args : list iexpr) : stmt IL := SAtom (@ASimple IL (XCall op args)).
Definition asg (v : Z) (e : iexpr) : stmt IL := SAtom (@ASimple IL (XAssign v e)).
Definition init (t : Z) (r : iregs) : state IL := @mkst IL t 0 [] r.

(* non-vacuity: nested loops of every kind, breaks, a chain, time labels at block starts/ends *)
Definition demo : block IL :=
  blk [nop;
       asg 1 (ILit 0);
       @STimes IL 1%nat None (IVar 0)
         (blk [nop; trel 2; ins 10 [IVar 1];
               @SWhile IL 2%nat (IBin (IVar 1) OLt (ILit 3))
                 (blk [nop; asg 1 (IBin (IVar 1) OAdd (ILit 1)); trel 1;
                       @SCond IL KIf (IBin (IVar 1) OEq (ILit 2)) (blk [nop; trel 4; ins 11 []; nop])
                          (@CElif IL KUnless (IVar 0) (blk [nop; SBreak 2%nat; nop]) (CElse (blk [nop; ins 12 []; trel 1; nop])));
                       nop]);
               @STimes IL 3%nat (Some 2) (ILit 2) (blk [nop; ins 13 [IVar 2]; trel 3; nop]);
               SLoop 4%nat (blk [nop; trel 1; @SCondBreak IL KIf (IBin (IVar 1) OGe (ILit 3)) 4%nat; nop]);
               @SDoWhile IL 5%nat (ILit 0) (blk [nop; ins 14 []; nop]);
               trel 5; nop]);
       nop].

Example demo_wf : wf_prog IL demo = true.
Proof. vm_cast_no_check (eq_refl true). Qed.
Example demo_runs_ne :
  match run_struct IL 200 (Strict true PredecNeZero) demo (init 0 [(0, 2)]) with
  | Ok st' => Nat.eqb (length (s_log st')) 11 | _ => false end = true.
Proof. vm_compute. reflexivity. Qed.
Example demo_runs_gt :
  match run_struct IL 200 (Strict true PredecGtZero) demo (init 0 [(0, 2)]) with
  | Ok st' => Nat.eqb (length (s_log st')) 11 | _ => false end = true.
Proof. vm_compute. reflexivity. Qed.

(* ---- the guards are necessary ---- *)
Definition refuted (tr : bool) (fl : flavour) (p : block IL) (st : state IL) : Prop :=
  wf_prog IL p = true /\
  exists fuel st', run_struct IL fuel (Lax tr) p st = Ok st' /\
    forall fuel' tm', run_flat IL fuel' (desugar IL fl p) st <> Ok (st', tm').

(* (vm_compute on a goal would strongly normalise [IL] inside the type [state IL]; the results
   are computed with [eval vm_compute] and checked by a VM cast instead) *)
Ltac refute K :=
  split; [vm_cast_no_check (eq_refl true)|];
  match goal with
  | |- exists fuel st', run_struct IL fuel (Lax ?tr) ?p ?st = Ok st' /\ _ =>
      let r := eval vm_compute in (run_struct IL K (Lax tr) p st) in
      match r with
      | Ok ?s => exists K, s; split; [vm_cast_no_check (eq_refl r)|]
      end
  end;
  let fuel' := fresh "fuel" in let tm' := fresh "tm" in let H := fresh "H" in
  intros fuel' tm' H; unfold run_flat in H;
  match type of H with
  | frun IL _ ?env ?t ?c ?s = Ok _ =>
      let r0 := eval vm_compute in (frun IL K env t c s) in
      match r0 with
      | Ok ?x =>
          let A := fresh "A" in
          assert (A : frun IL K env t c s = Ok x) by (vm_cast_no_check (eq_refl r0));
          let Q := fresh "Q" in
          pose proof (frun_det _ _ _ _ _ _ _ _ _ A H) as Q; clear A H;
          apply (f_equal (fun fs => (s_time (fst fs), s_rtime (fst fs), s_log (fst fs)))) in Q;
          cbn [fst s_time s_rtime s_log] in Q; congruence
      end
  end.

(* (1) a time label that goes backwards before a taken `if`: AstVm resets `time` to the block's
       start time, the jump form falls through *)
Definition cex_time : block IL :=
  blk [nop; tabs 10; ins 1 []; tabs 5;
       @SCond IL KIf (ILit 1) (blk [nop; trel 3; ins 2 []; nop]) CEnd; nop].
Theorem cex_time_reset : refuted true PredecNeZero cex_time (init 0 []).
Proof. refute 50%nat. Qed.

(* (2) times(n) with n < 0 and no named counter: `for _ in 0..n` runs zero times, `--c > 0` once *)
Definition cex_negcount : block IL :=
  blk [nop; @STimes IL 1%nat None (IVar 0) (blk [nop; ins 1 []; nop]); nop].
Theorem cex_neg_count : forall tr, refuted tr PredecGtZero cex_negcount (init 0 [(0, -1)]).
Proof. intros [|]; refute 50%nat. Qed.

(* (3) named counter driven below zero by the body: AstVm repeats until the counter is exactly 0,
       `--c > 0` stops *)
Definition cex_negcounter : block IL :=
  blk [nop;
       @STimes IL 1%nat (Some 0) (ILit 3)
         (blk [nop; ins 1 [IVar 0];
               asg 0 (IBin (IBin (IBin (IVar 0) OEq (ILit 3)) OMul (ILit (-2))) OAdd (ILit 1)); nop]);
       nop].
Theorem cex_neg_counter : forall tr, refuted tr PredecGtZero cex_negcounter (init 0 []).
Proof. intros [|]; refute 80%nat. Qed.

Theorem full_refuted : forall tr,
  ~ (forall (L : lang),
       ((forall e n r, const_int L e = Some n -> eval_int L e r = Ok (n, r)) /\
        (forall e r z r', eval_int L e r = Ok (z, r') -> in_i32 z) /\
        (forall v z r, in_i32 z -> rd L v (wr L v z r) = Ok z)) ->
       forall fl (p : block L) st fuel st',
         wf_prog L p = true ->
         run_struct L fuel (Lax tr) p st = Ok st' ->
         exists fuel' tm', run_flat L fuel' (desugar L fl p) st = Ok (st', tm')).
Proof.
  intros tr F. destruct (cex_neg_count tr) as (WF & fuel & st' & R & N).
  destruct (F IL (conj IL_const (conj IL_i32 IL_rw)) PredecGtZero cex_negcount (init 0 [(0, -1)]) fuel st' WF R) as (fuel' & tm' & E).
  exact (N fuel' tm' E).
Qed.

(* tie 1: the decisions read out of the Rust source by gen/desugar_rules.py are the modelled ones *)
Lemma rules_as_modelled :
  gen_rules_recognised = true /\
  (forall c, gen_zero_test c = zero_test c) /\
  gen_fallback = PredecNeZero /\
  gen_pref_order = [PredecNeZero; PredecGtZero].
Proof.
  split. reflexivity. split. intros [z|]; cbn; rewrite ?orb_false_r; reflexivity.
  split; reflexivity.
Qed.

(* [IL] never reports a diagnostic: its functions return Ok or Panic *)
Definition no_err {A} (m : outcome A) : Prop := forall t, m <> Err t.
Lemma no_err_bind {A B} (m : outcome A) (f : A -> outcome B) :
  no_err m -> (forall a, no_err (f a)) -> no_err (obind m f).
Proof. intros H1 H2 t. destruct m; cbn; try discriminate. apply H2. intros E. apply (H1 t). inversion E; reflexivity. Qed.
Lemma ird_no_err v r : no_err (ird v r).
Proof. intros t. unfold ird. destruct (rlookup v r); discriminate. Qed.
Lemma ieval_no_err e : forall r, no_err (ieval e r).
Proof.
  induction e as [z|v|a IHa op b IHb|v]; intros r; cbn [ieval].
  - intros t; discriminate.
  - apply no_err_bind. apply ird_no_err. intros a t; discriminate.
  - apply no_err_bind. apply IHa. intros ar. apply no_err_bind. apply IHb. intros br t; discriminate.
  - apply no_err_bind. apply ird_no_err. intros a t; discriminate.
Qed.
Lemma ieval_list_no_err es : forall r, no_err (ieval_list es r).
Proof.
  induction es as [|e es IH]; intros r; cbn [ieval_list]. intros t; discriminate.
  apply no_err_bind. apply ieval_no_err. intros er. apply no_err_bind. apply IH. intros tr t; discriminate.
Qed.
Lemma idecl_no_err l : forall r, no_err (idecl l r).
Proof.
  induction l as [|[v [e|]] l IH]; intros r; cbn [idecl]. intros t; discriminate.
  apply no_err_bind. apply ieval_no_err. intros er. apply IH. apply IH.
Qed.
Lemma iexec_no_err x rt r : no_err (iexec x rt r).
Proof.
  destruct x; cbn [iexec].
  - apply no_err_bind. apply ieval_list_no_err. intros a t; discriminate.
  - apply no_err_bind. apply ieval_no_err. intros a t; discriminate.
  - apply no_err_bind. apply ird_no_err. intros a. apply no_err_bind. apply ieval_no_err. intros b t; discriminate.
  - apply no_err_bind. apply idecl_no_err. intros a t; discriminate.
Qed.

Theorem monotone_no_time_reset_IL fl p st fuel :
  wf_prog IL p = true -> mono_block IL p 0 = true -> s_time st <= 0 ->
  run_struct IL fuel (Strict true fl) p st <> Err E_TIMERESET.
Proof.
  apply monotone_no_time_reset.
  - intros e r. apply ieval_no_err.
  - intros x rt r. apply iexec_no_err.
  - intros v r. apply ird_no_err.
Qed.
