(* Proofs/ResolveWf.v -- C10: soundness of the executable checkers of Model/ResolveRename.v for the
   hypotheses of alpha_invariance, so that they can be discharged by computation on concrete programs
   (and are validated on every correspondence case). *)
From TV Require Import Base.I32 Model.ResolveSyntax Gen.RibTable Model.Resolve Model.ResolveRename Spec.Scope Proofs.ResolveSpec Proofs.ResolveRedecl Proofs.ResolveAlpha.
Open Scope Z_scope.

Lemma memz_In x l : memz x l = true <-> In x l.
Proof.
  induction l as [|y t IH]; cbn [memz In]; [split; [discriminate | tauto]|].
  rewrite orb_true_iff, IH, Z.eqb_eq. split; intros [H|H]; auto.
Qed.

Section CheckSound.
  Variable nm : Z -> ident.

  (* ---- soundness ---- *)

  Lemma occ_okb_sound o : occ_okb nm o = true -> occ_ok nm o.
  Proof. unfold occ_okb, occ_ok. apply Z.eqb_eq. Qed.

  Lemma guards_okb_sound us gs : guards_okb nm us gs = true -> guards_ok nm us gs.
  Proof.
    induction gs as [|gd outer IH]; cbn [guards_okb guards_ok]; [auto|].
    rewrite andb_true_iff. intros [H1 H2]. split; [|auto].
    destruct (g_callee gd) as [oc|op]; [|exact I]. apply andb_true_iff in H1 as [Ho Hi].
    split; [now apply occ_okb_sound|]. unfold inb_use in Hi. destruct (in_dec use_eq_dec _ us); [assumption | discriminate].
  Qed.

  Lemma uses_okb_sound us : uses_okb nm us = true -> uses_ok nm us.
  Proof.
    unfold uses_okb, uses_ok. rewrite forallb_forall. intros H u Hin. specialize (H u Hin).
    apply andb_true_iff in H as [H1 H2]. split; [now apply occ_okb_sound | now apply guards_okb_sound].
  Qed.

  Lemma nodup_afterb_sound l : forall S, nodup_afterb S l = true -> nodup_after S l.
  Proof.
    induction l as [|x t IH]; intros S; cbn [nodup_afterb nodup_after]; [auto|].
    rewrite andb_true_iff, negb_true_iff. intros [H1 H2]. split; [|auto].
    intro Hin. apply memz_In in Hin. congruence.
  Qed.

  Lemma wf_declsb_sound vars : forall S, wf_declsb nm S vars = true -> wf_decls nm S vars.
  Proof.
    induction vars as [|[o init] t IH]; intros S; cbn [wf_declsb wf_decls]; [auto|].
    rewrite !andb_true_iff, negb_true_iff. intros [[[H1 H2] H3] H4].
    split; [now apply uses_okb_sound|]. split; [now apply occ_okb_sound|]. split; [|auto].
    intro Hin. apply memz_In in Hin. congruence.
  Qed.

  Lemma forallb_occ_ok os : forallb (occ_okb nm) os = true -> Forall (occ_ok nm) os.
  Proof. rewrite forallb_forall, Forall_forall. intros H o Ho. apply occ_okb_sound, H, Ho. Qed.

  Lemma entry_okb_sound S its : entry_okb nm S its = true -> entry_ok nm S its.
  Proof.
    unfold entry_okb, entry_ok. rewrite andb_true_iff. intros [H1 H2].
    split; [now apply nodup_afterb_sound | now apply forallb_occ_ok].
  Qed.

  Definition Wb (b : block) : Prop := forall S, wf_stmtsb nm S b = true -> wf_stmts nm S b.
  Definition Ws (s : stmt) : Prop := forall rest, Wb rest -> Wb (BCons s rest).
  Definition Wi (i : item) : Prop := forall S, wf_itemb nm S i = true -> wf_item nm S i.

  Lemma wf_sound : (forall s, Ws s) /\ (forall b, Wb b) /\ (forall i, Wi i).
  Proof.
    apply syntax_mutind.
    - (* SUses *) intros us rest IH S.
      change (wf_stmtsb nm S (BCons (SUses us) rest)) with (uses_okb nm us && wf_stmtsb nm S rest).
      change (wf_stmts nm S (BCons (SUses us) rest)) with (uses_ok nm us /\ wf_stmts nm S rest).
      rewrite andb_true_iff. intros [H1 H2]. split; [now apply uses_okb_sound | now apply IH].
    - (* SDecl *) intros vars rest IH S.
      change (wf_stmtsb nm S (BCons (SDecl vars) rest)) with (wf_declsb nm S vars && wf_stmtsb nm (rev (map (fun v => oid (fst v)) vars) ++ S) rest).
      change (wf_stmts nm S (BCons (SDecl vars) rest)) with (wf_decls nm S vars /\ wf_stmts nm (rev (map (fun v => oid (fst v)) vars) ++ S) rest).
      rewrite andb_true_iff. intros [H1 H2]. split; [now apply wf_declsb_sound | now apply IH].
    - (* SBlock *) intros b' IHb rest IH S.
      change (wf_stmtsb nm S (BCons (SBlock b') rest))
        with ((entry_okb nm S (block_items b') && wf_stmtsb nm (rev (item_ids (block_items b')) ++ S) b') && wf_stmtsb nm S rest).
      change (wf_stmts nm S (BCons (SBlock b') rest))
        with ((entry_ok nm S (block_items b') /\ wf_stmts nm (rev (item_ids (block_items b')) ++ S) b') /\ wf_stmts nm S rest).
      rewrite !andb_true_iff. intros [[H1 H2] H3]. split; [split; [now apply entry_okb_sound | now apply IHb] | now apply IH].
    - (* SItem *) intros i IHi rest IH S.
      change (wf_stmtsb nm S (BCons (SItem i) rest)) with (wf_itemb nm S i && wf_stmtsb nm S rest).
      change (wf_stmts nm S (BCons (SItem i) rest)) with (wf_item nm S i /\ wf_stmts nm S rest).
      rewrite andb_true_iff. intros [H1 H2]. split; [now apply IHi | now apply IH].
    - (* BNil *) intros S _. exact I.
    - (* BCons *) intros s IHs b IHb. now apply IHs.
    - (* IConst *) intros vars S.
      change (wf_itemb nm S (IConst vars)) with (forallb (fun v => uses_okb nm (snd v)) vars).
      change (wf_item nm S (IConst vars)) with (forall v, In v vars -> uses_ok nm (snd v)).
      rewrite forallb_forall. intros H v Hv. apply uses_okb_sound, H, Hv.
    - (* IFunc *) intros q f ps body IHb S.
      change (wf_itemb nm S (IFunc q f ps body))
        with (nodup_afterb S (map oid ps) && forallb (occ_okb nm) ps && entry_okb nm (rev (map oid ps) ++ S) (block_items body)
              && wf_stmtsb nm (rev (item_ids (block_items body)) ++ rev (map oid ps) ++ S) body).
      change (wf_item nm S (IFunc q f ps body))
        with (nodup_after S (map oid ps) /\ Forall (occ_ok nm) ps /\ entry_ok nm (rev (map oid ps) ++ S) (block_items body)
              /\ wf_stmts nm (rev (item_ids (block_items body)) ++ rev (map oid ps) ++ S) body).
      rewrite !andb_true_iff. intros [[[H1 H2] H3] H4].
      split; [now apply nodup_afterb_sound|]. split; [now apply forallb_occ_ok|]. split; [now apply entry_okb_sound | now apply IHb].
    - (* IFuncDecl *) intros q f ps S _. exact I.
    - (* IScript *) intros b IHb S.
      change (wf_itemb nm S (IScript b)) with (entry_okb nm S (block_items b) && wf_stmtsb nm (rev (item_ids (block_items b)) ++ S) b).
      change (wf_item nm S (IScript b)) with (entry_ok nm S (block_items b) /\ wf_stmts nm (rev (item_ids (block_items b)) ++ S) b).
      rewrite andb_true_iff. intros [H1 H2]. split; [now apply entry_okb_sound | now apply IHb].
    - (* IMeta *) intros us S.
      change (wf_itemb nm S (IMeta us)) with (uses_okb nm us). change (wf_item nm S (IMeta us)) with (uses_ok nm us).
      apply uses_okb_sound.
  Qed.

  Theorem wf_progb_sound p : wf_progb nm p = true -> wf_prog nm p.
  Proof.
    destruct wf_sound as [_ [HWb HWi]].
    destruct p as [its|b]; cbn [wf_progb wf_prog]; rewrite andb_true_iff; intros [H1 H2].
    - split; [now apply entry_okb_sound|]. rewrite forallb_forall in H2. apply Forall_forall. intros i Hi. apply HWi, H2, Hi.
    - split; [now apply entry_okb_sound | now apply HWb].
  Qed.
End CheckSound.

Section ConsSound.
  Variables sigma rho nm : Z -> ident.

  Lemma consistentb_sound evs : consistentb sigma rho nm evs = true -> consistent sigma rho nm evs.
  Proof.
    unfold consistentb, consistent. rewrite forallb_forall. intros H id r Hin. specialize (H _ Hin). cbn in H.
    unfold consb in H. unfold cons. destruct r as [d| |d| | | |]; try (apply Z.eqb_eq; exact H); try exact I;
      destruct (user_id d); apply Z.eqb_eq; exact H.
  Qed.
End ConsSound.
